/-
  Helper lemmas for C07 / C11 (cluster E), part 4: the fast routines (`compute_irmsd_fast`, `compute_lrmsd_fast`).
  Under the hypotheses of the property (identities unique per file, one residue name per (chain, number), the same two
  chains) and with the raw-column readers agreeing with the parser, the pairs handed to the kernel are the
  definition's pairs up to order.  Helper lemmas only.
-/
import PdbVerif.Proofs.RmsdPairs

set_option linter.unusedVariables false
set_option linter.unusedSimpArgs false
set_option linter.unusedSectionVars false
set_option linter.unnecessarySeqFocus false

namespace Proofs.Rmsd
open Model Model.Rmsd Py Proofs.Contacts

/-- the raw-column readers see the records the parser put in the tables -/
structure RawAgrees (lines : List Str) (t : List Atom) : Prop where
  pts : rawPts lines = .ok (t.map ptOf)

theorem RawAgrees.keys {lines : List Str} {t : List Atom} (h : RawAgrees lines t) : rawKeys lines = .ok (t.map keyOf) := by
  have := rawKeys_of_rawPts h.pts
  rw [List.map_map] at this
  exact this

/-- the index set of the i-RMSD fast routine -/
def fastIdx (zone : Zone) (names : List Str) (dec ref : List Atom) : List Key :=
  interKeys (zoneSplit id zone names (ref.map keyOf)).1 (zoneSplit id zone names (dec.map keyOf)).1

theorem irmsdFast_run {dl rl : List Str} {dec ref : List Atom} (hd : RawAgrees dl dec) (hr : RawAgrees rl ref)
    (src : ZoneSrc) (hsrc : src = .compute ∨ src = .write) (c : Rat) (enforce : Bool) :
    irmsdFast dl rl (.ok dec) (.ok ref) src c true enforce =
      match computeIzone ref c with
      | .error e => .err e
      | .ok zl =>
        match checkResidues dec ref none enforce with
        | .error e => .err e
        | .ok _ =>
          let idx := fastIdx (zoneOfResidues zl) zoneNames dec ref
          kernelLists (pick (dec.map ptOf) idx) (pick (ref.map ptOf) idx) (pick (dec.map ptOf) idx) (pick (ref.map ptOf) idx) := by
  have hz : zoneFrom src (computeIzone ref c) = (computeIzone ref c).map zoneOfResidues := by
    rcases hsrc with rfl | rfl <;> rfl
  unfold irmsdFast
  simp only [Bool.true_or, if_true, bind, Except.bind, pure, Except.pure, hz]
  cases hzl : computeIzone ref c with
  | error e => simp [Except.map, Outcome.ofExcept]
  | ok zl =>
    simp only [Except.map]
    cases hck : checkResidues dec ref none enforce with
    | error e => simp [Outcome.ofExcept]
    | ok b =>
      simp only [dataZoneBackbone, getXyz, hd.keys, hr.keys, hd.pts, hr.pts, bind, Except.bind, pure, Except.pure,
        Outcome.ofExcept, fastIdx, pick]

/-! ### unpacking the quantifier -/

theorem insertChain_eq (x : Str) (l : List Str) : Spec.Rmsd.insertChain x l = insertAsc ltStr x l := by
  induction l with
  | nil => rfl
  | cons y ys ih =>
    unfold Spec.Rmsd.insertChain insertAsc
    rw [ih]
    by_cases h1 : x < y
    · simp [ltStr, h1]
    · by_cases h2 : x = y <;> simp [ltStr, h1, h2]

theorem chains_eq (t : List Atom) : Spec.Rmsd.chains t = getChains t := by
  unfold Spec.Rmsd.chains getChains sortedSet
  congr 1
  funext acc x
  exact insertChain_eq x acc

structure Cons (dec ref : List Atom) : Prop where
  nodupD : (dec.map keyOf).Nodup
  nodupR : (ref.map keyOf).Nodup
  names : ∀ a ∈ dec ++ ref, ∀ b ∈ dec ++ ref, a.chainID = b.chainID → a.resSeq = b.resSeq → a.resName = b.resName
  two : ∃ c0 c1, getChains ref = [c0, c1] ∧ getChains dec = [c0, c1]

theorem cons_of_consistent {dec ref : List Atom} (h : Spec.Rmsd.Consistent dec ref) : Cons dec ref := by
  unfold Spec.Rmsd.Consistent Spec.Rmsd.consistent at h
  simp only [Bool.and_eq_true, decide_eq_true_eq, nodupKeys_iff] at h
  obtain ⟨⟨⟨⟨h1, h2⟩, h3⟩, h4⟩, h5⟩ := h
  refine ⟨h1, h2, ?_, ?_⟩
  · intro a ha b hb hc hs
    simp only [Spec.Rmsd.resNamesAgree, List.all_eq_true, Bool.or_eq_true, Bool.not_eq_true', Bool.and_eq_false_iff,
      decide_eq_false_iff_not, decide_eq_true_eq] at h3
    rcases h3 a ha b hb with (h | h) | h
    · exact absurd hc h
    · exact absurd hs h
    · exact h
  · rw [chains_eq] at h4 h5
    rw [chains_eq] at h5
    match hg : getChains ref, h4 with
    | [c0, c1], _ => exact ⟨c0, c1, rfl, by rw [h5, hg]⟩

theorem checkResidues_error {dec ref : List Atom} {names : Option (List Str)} {enforce : Bool} {e : Err}
    (h : checkResidues dec ref names enforce = .error e) :
    e = .valueError ∧ enforce = true ∧ checkResidues dec ref names true = .error .valueError := by
  unfold checkResidues at h ⊢
  simp only at h ⊢
  by_cases h1 : getResidues ref names ≠ getResidues dec names
  · simp only [h1, if_true] at h ⊢
    cases enforce <;> simp_all
  · simp only [h1, if_false] at h ⊢
    split_ifs at h ⊢ <;> simp_all

theorem kernelLists_same {A B : List Pt} (h : A.length = B.length) :
    kernelLists A B A B = if A.length = 0 then .err .typeError else .value (A.zip B) (A.zip B) := by
  unfold kernelLists
  by_cases h0 : A.length = 0
  · have hB : B.length = 0 := by omega
    simp only [h0, hB, ne_eq, not_true_eq_false, if_false, if_true]
  · have hB : ¬ B.length = 0 := by omega
    simp only [h, h0, hB, ne_eq, not_true_eq_false, if_false, if_true]

theorem backbone_names_iff (n : Str) : n ∈ Spec.Rmsd.backboneNames ↔ n ∈ zoneNames := by
  simp [Spec.Rmsd.backboneNames, zoneNames, Gen.zone_backbone_names]; grind

theorem model_backbone_iff (n : Str) : n ∈ backbone ↔ n ∈ zoneNames := by
  simp [backbone, Gen.backbone_atoms, zoneNames, Gen.zone_backbone_names]; grind


theorem within_eq (c : Rat) (a b : Atom) : Spec.Rmsd.within c (Spec.Rmsd.pos a) (Spec.Rmsd.pos b) = withinCutoff c b a := by
  have e : Spec.Rmsd.sqDist (Spec.Rmsd.pos a) (Spec.Rmsd.pos b) = atomDist2 b a := by
    unfold Spec.Rmsd.sqDist Spec.Rmsd.pos atomDist2
    grind
  unfold Spec.Rmsd.within withinCutoff
  rw [e]

theorem mem_fastIdx (zone : Zone) (names : List Str) (dec ref : List Atom) (k : Key) :
    k ∈ fastIdx zone names dec ref ↔
      k.2.2 ∈ names ∧ inZone zone k = true ∧ k ∈ dec.map keyOf ∧ k ∈ ref.map keyOf := by
  simp only [fastIdx, interKeys, zoneSplit, id, List.mem_filter, List.contains_eq_mem, decide_eq_true_eq, inZone,
    Bool.and_eq_true]
  tauto

theorem atInterface_iff {ref : List Atom} {c : Rat} {zl : List (Str × Int)}
    (hnames : ∀ a ∈ ref, ∀ b ∈ ref, a.chainID = b.chainID → a.resSeq = b.resSeq → a.resName = b.resName)
    (hzl : ∀ ch rs, (ch, rs) ∈ zl ↔
      ∃ x ∈ ref, x.name ∈ backbone ∧ x.chainID = ch ∧ x.resSeq = rs ∧
        ∃ y ∈ ref, resKey y = resKey x ∧ ∃ q ∈ ref, q.chainID ≠ y.chainID ∧ withinCutoff c q y = true)
    {r : Atom} (hr : r ∈ ref) (hbb : r.name ∈ zoneNames) :
    Spec.Rmsd.atInterface ref c r.chainID r.resSeq = true ↔ (r.chainID, r.resSeq) ∈ zl := by
  rw [hzl]
  simp only [Spec.Rmsd.atInterface, List.any_eq_true, Bool.and_eq_true, decide_eq_true_eq, within_eq, ne_eq]
  constructor
  · rintro ⟨a, ha, ⟨hac, hars⟩, b, hb, hbc, hw⟩
    refine ⟨r, hr, (model_backbone_iff _).mpr hbb, rfl, rfl, a, ha, ?_, b, hb, by rw [hac]; exact hbc, hw⟩
    simp only [resKey, Prod.mk.injEq]
    exact ⟨hac, hars, hnames a ha r hr hac hars⟩
  · rintro ⟨x, hx, _, hxc, hxs, y, hy, hres, q, hq, hqc, hw⟩
    simp only [resKey, Prod.mk.injEq] at hres
    exact ⟨y, hy, ⟨hres.1.trans hxc, hres.2.1.trans hxs⟩, q, hq, by rw [← hxc, ← hres.1]; exact hqc, hw⟩

theorem mem_map_ptOf_key {t : List Atom} {p : Pt} (h : p ∈ t.map ptOf) : p.1 ∈ t.map keyOf := by
  obtain ⟨a, ha, rfl⟩ := List.mem_map.mp h
  exact List.mem_map.mpr ⟨a, ha, rfl⟩

theorem map_ptOf_keys (t : List Atom) : (t.map ptOf).map (·.1) = t.map keyOf := by
  rw [List.map_map]; rfl

/-- **i-RMSD, fast routine.** -/
theorem irmsdFast_pairs {dl rl : List Str} {dec ref : List Atom} (hd : RawAgrees dl dec) (hr : RawAgrees rl ref)
    (hc : Cons dec ref) (src : ZoneSrc) (hsrc : src = .compute ∨ src = .write) (c : Rat) (enforce : Bool) :
    match irmsdFast dl rl (.ok dec) (.ok ref) src c true enforce with
    | .value fit ev => fit ≠ [] ∧ ev = fit ∧ (∀ p ∈ fit, p.1.1 = p.2.1) ∧
        (fit.map idPair).Perm (Spec.Rmsd.interfacePairs dec ref c)
    | .err e => (e = .valueError ∧ enforce = true ∧ checkResidues dec ref none true = .error .valueError) ∨
        (e = .typeError ∧ Spec.Rmsd.interfacePairs dec ref c = []) := by
  obtain ⟨c0, c1, hch, hchd⟩ := hc.two
  obtain ⟨zl, hzl, hmem⟩ := mem_computeIzone (c := c) hch
  rw [irmsdFast_run hd hr src hsrc c enforce, hzl]
  simp only
  cases hck : checkResidues dec ref none enforce with
  | error e =>
    simp only
    exact Or.inl (checkResidues_error hck)
  | ok b =>
    simp only
    have hnR : ∀ a ∈ ref, ∀ b ∈ ref, a.chainID = b.chainID → a.resSeq = b.resSeq → a.resName = b.resName :=
      fun a ha b hb => hc.names a (List.mem_append_right _ ha) b (List.mem_append_right _ hb)
    have hD : ((dec.map ptOf).map (·.1)).Nodup := by rw [map_ptOf_keys]; exact hc.nodupD
    have hR : ((ref.map ptOf).map (·.1)).Nodup := by rw [map_ptOf_keys]; exact hc.nodupR
    have hsub : ∀ k ∈ fastIdx (zoneOfResidues zl) zoneNames dec ref, k ∈ (dec.map ptOf).map (·.1) ∧ k ∈ (ref.map ptOf).map (·.1) := by
      intro k hk
      rw [map_ptOf_keys, map_ptOf_keys]
      exact ((mem_fastIdx _ _ _ _ _).mp hk).2.2
    obtain ⟨hlen, h1, h2, h3⟩ := fast_pairs hD hR hsub
    -- the pairs are the definition's
    have hperm := pairs_perm_spec hc.nodupD hc.nodupR (fun r => Spec.Rmsd.atInterface ref c r.chainID r.resSeq)
      (fun k => decide (k.2.2 ∈ zoneNames) && inZone (zoneOfResidues zl) k)
      (by
        intro r hr'
        by_cases hbb : r.name ∈ zoneNames
        · have hb1 : Spec.Rmsd.isBackbone r = true := by simp [Spec.Rmsd.isBackbone, backbone_names_iff, hbb]
          have hiff := atInterface_iff hnR hmem hr' hbb
          rw [hb1, Bool.true_and, Bool.eq_iff_iff, hiff]
          simp only [keyOf, hbb, decide_true, Bool.true_and]
          exact (inZone_iff zl (r.chainID, r.resSeq, r.name)).symm
        · have hb1 : Spec.Rmsd.isBackbone r = false := by simp [Spec.Rmsd.isBackbone, backbone_names_iff, hbb]
          simp [hb1, keyOf, hbb])
      _ h1 h2
      (by
        intro k
        rw [h3, mem_fastIdx]
        simp only [Bool.and_eq_true, decide_eq_true_eq]
        tauto)
    rw [kernelLists_same hlen]
    split_ifs with h0
    · simp only
      refine Or.inr ⟨trivial, ?_⟩
      have : (pick (dec.map ptOf) (fastIdx (zoneOfResidues zl) zoneNames dec ref)).zip
          (pick (ref.map ptOf) (fastIdx (zoneOfResidues zl) zoneNames dec ref)) = [] := by
        rw [List.length_eq_zero_iff.mp h0]; rfl
      rw [this] at hperm
      exact List.Perm.nil_eq hperm |>.symm
    · simp only
      refine ⟨?_, trivial, fun p hp => (h1 p hp).2.2, hperm⟩
      intro hz
      rcases List.zip_eq_nil_iff.mp hz with h' | h'
      · exact h0 (by rw [h']; rfl)
      · exact h0 (by rw [hlen, h']; rfl)


/-! ### L-RMSD, fast routine -/

/-- the index set of the evaluation atoms: chains that are not keys of the zone -/
def fastIdxOut (zone : Zone) (names : List Str) (dec ref : List Atom) : List Key :=
  interKeys (zoneSplit id zone names (ref.map keyOf)).2 (zoneSplit id zone names (dec.map keyOf)).2

theorem mem_fastIdxOut (zone : Zone) (names : List Str) (dec ref : List Atom) (k : Key) :
    k ∈ fastIdxOut zone names dec ref ↔
      k.2.2 ∈ names ∧ zone.contains k.1 = false ∧ k ∈ dec.map keyOf ∧ k ∈ ref.map keyOf := by
  simp only [fastIdxOut, interKeys, zoneSplit, id, List.mem_filter, List.contains_eq_mem, decide_eq_true_eq,
    Bool.not_eq_true']
  tauto

theorem lrmsdFast_run {dl rl : List Str} {dec ref : List Atom} (hd : RawAgrees dl dec) (hr : RawAgrees rl ref)
    (src : ZoneSrc) (hsrc : src = .compute ∨ src = .write) (enforce : Bool) :
    lrmsdFast dl rl (.ok dec) (.ok ref) src true enforce =
      match computeLzone ref with
      | .error e => .err e
      | .ok zl =>
        match checkResidues dec ref (some lrmsdFastNames) enforce with
        | .error e => .err e
        | .ok _ =>
          let idx := fastIdx (zoneOfResidues zl) lrmsdFastNames dec ref
          let out := fastIdxOut (zoneOfResidues zl) lrmsdFastNames dec ref
          kernelLists (pick (dec.map ptOf) idx) (pick (ref.map ptOf) idx) (pick (dec.map ptOf) out) (pick (ref.map ptOf) out) := by
  have hz : zoneFrom src (computeLzone ref) = (computeLzone ref).map zoneOfResidues := by
    rcases hsrc with rfl | rfl <;> rfl
  unfold lrmsdFast
  simp only [Bool.true_or, if_true, bind, Except.bind, pure, Except.pure, hz]
  cases hzl : computeLzone ref with
  | error e => simp [Except.map, Outcome.ofExcept]
  | ok zl =>
    simp only [Except.map]
    cases hck : checkResidues dec ref (some lrmsdFastNames) enforce with
    | error e => simp [Outcome.ofExcept]
    | ok b =>
      simp only [dataZoneBackbone, getXyz, hd.keys, hr.keys, hd.pts, hr.pts, bind, Except.bind, pure, Except.pure,
        Outcome.ofExcept, fastIdx, fastIdxOut, pick]

theorem kernelLists_eq {A B C D : List Pt} (h : A.length = B.length) (h' : C.length = D.length) :
    kernelLists A B C D =
      if A.length = 0 then .err .typeError else if C.length = 0 then .err .valueError else .value (A.zip B) (C.zip D) := by
  unfold kernelLists
  by_cases h0 : A.length = 0
  · simp only [h0, ← h, ne_eq, not_true_eq_false, if_false, if_true]
  · by_cases h1 : C.length = 0
    · simp only [h, h0, h1, ne_eq, not_true_eq_false, if_false, if_true]
    · simp only [h, h', h0, h1, ne_eq, not_true_eq_false, if_false, if_true]

theorem lrmsd_names_iff (n : Str) : n ∈ Spec.Rmsd.backboneNames ↔ n ∈ lrmsdFastNames := by
  simp [Spec.Rmsd.backboneNames, lrmsdFastNames, Gen.lrmsd_fast_names]; grind

theorem chainSize_eq (t : List Atom) (ch : Str) : Spec.Rmsd.chainSize t ch = (chainRows t ch).length := by
  rw [chainRows_length]; rfl

theorem longShort_eq {ref : List Atom} {c0 c1 : Str} (h : getChains ref = [c0, c1]) :
    Spec.Rmsd.longShort ref = some (longOf ref c0 c1, if longOf ref c0 c1 = c0 then c1 else c0) := by
  have hne := (getChains_two h).1
  unfold Spec.Rmsd.longShort
  rw [chains_eq, h]
  simp only [chainSize_eq, longOf]
  by_cases hlt : (chainRows ref c0).length < (chainRows ref c1).length
  · have : ¬ (chainRows ref c0).length ≥ (chainRows ref c1).length := by omega
    simp [hlt, this, Ne.symm hne]
  · have : (chainRows ref c0).length ≥ (chainRows ref c1).length := by omega
    simp [hlt, this]


theorem zone_contains_long {ref : List Atom} {c0 c1 : Str} (h : getChains ref = [c0, c1]) {zl : List (Str × Int)}
    (hmem : ∀ ch rs, (ch, rs) ∈ zl ↔ ch = longOf ref c0 c1 ∧ ∃ x ∈ ref, x.chainID = ch ∧ x.resSeq = rs) (ch : Str) :
    (zoneOfResidues zl).contains ch = true ↔ ch = longOf ref c0 c1 := by
  rw [zone_contains_iff]
  constructor
  · rintro ⟨rs, hrs⟩; exact ((hmem ch rs).mp hrs).1
  · intro hl
    have hin : longOf ref c0 c1 ∈ getChains ref := by
      rw [h]; unfold longOf; split_ifs <;> simp
    obtain ⟨x, hx, hxc⟩ := mem_getChains.mp hin
    exact ⟨x.resSeq, (hmem ch x.resSeq).mpr ⟨hl, x, hx, by rw [hl]; exact hxc, rfl⟩⟩

theorem longOf_cases (t : List Atom) (c0 c1 : Str) : longOf t c0 c1 = c0 ∨ longOf t c0 c1 = c1 := by
  unfold longOf; split_ifs <;> simp

theorem not_long_iff {c0 c1 ch L : Str} (hne : c0 ≠ c1) (hch : ch = c0 ∨ ch = c1) (hL : L = c0 ∨ L = c1) :
    ¬ ch = L ↔ ch = (if L = c0 then c1 else c0) := by
  rcases hL with rfl | rfl <;> rcases hch with rfl | rfl
  · simp [hne]
  · simp [Ne.symm hne]
  · simp [hne, Ne.symm hne]
  · simp [Ne.symm hne]

/-- **L-RMSD, fast routine.** -/
theorem lrmsdFast_pairs {dl rl : List Str} {dec ref : List Atom} (hd : RawAgrees dl dec) (hr : RawAgrees rl ref)
    (hc : Cons dec ref) (src : ZoneSrc) (hsrc : src = .compute ∨ src = .write) (enforce : Bool) :
    match lrmsdFast dl rl (.ok dec) (.ok ref) src true enforce with
    | .value fit ev => fit ≠ [] ∧ ev ≠ [] ∧ (∀ p ∈ fit ++ ev, p.1.1 = p.2.1) ∧
        (fit.map idPair).Perm (Spec.Rmsd.ligandFitPairs dec ref) ∧ (ev.map idPair).Perm (Spec.Rmsd.ligandEvalPairs dec ref)
    | .err e => (e = .valueError ∧ enforce = true ∧ checkResidues dec ref (some lrmsdFastNames) true = .error .valueError) ∨
        (e = .typeError ∧ Spec.Rmsd.ligandFitPairs dec ref = []) ∨ (e = .valueError ∧ Spec.Rmsd.ligandEvalPairs dec ref = []) := by
  obtain ⟨c0, c1, hch, hchd⟩ := hc.two
  obtain ⟨hne, hin0, hin1, hall⟩ := getChains_two hch
  obtain ⟨zl, hzl, hmem⟩ := mem_computeLzone hch
  rw [lrmsdFast_run hd hr src hsrc enforce, hzl]
  simp only
  cases hck : checkResidues dec ref (some lrmsdFastNames) enforce with
  | error e =>
    simp only
    exact Or.inl (checkResidues_error hck)
  | ok b =>
    simp only
    have hD : ((dec.map ptOf).map (·.1)).Nodup := by rw [map_ptOf_keys]; exact hc.nodupD
    have hR : ((ref.map ptOf).map (·.1)).Nodup := by rw [map_ptOf_keys]; exact hc.nodupR
    have hsub : ∀ k ∈ fastIdx (zoneOfResidues zl) lrmsdFastNames dec ref, k ∈ (dec.map ptOf).map (·.1) ∧ k ∈ (ref.map ptOf).map (·.1) := by
      intro k hk
      rw [map_ptOf_keys, map_ptOf_keys]
      exact ((mem_fastIdx _ _ _ _ _).mp hk).2.2
    have hsub' : ∀ k ∈ fastIdxOut (zoneOfResidues zl) lrmsdFastNames dec ref, k ∈ (dec.map ptOf).map (·.1) ∧ k ∈ (ref.map ptOf).map (·.1) := by
      intro k hk
      rw [map_ptOf_keys, map_ptOf_keys]
      exact ((mem_fastIdxOut _ _ _ _ _).mp hk).2.2
    obtain ⟨hlen, h1, h2, h3⟩ := fast_pairs hD hR hsub
    obtain ⟨hlen', h1', h2', h3'⟩ := fast_pairs hD hR hsub'
    have hls := longShort_eq hch
    have hcont := zone_contains_long hch hmem
    have hpermF : (((pick (dec.map ptOf) (fastIdx (zoneOfResidues zl) lrmsdFastNames dec ref)).zip
        (pick (ref.map ptOf) (fastIdx (zoneOfResidues zl) lrmsdFastNames dec ref))).map idPair).Perm
        (Spec.Rmsd.ligandFitPairs dec ref) := by
      unfold Spec.Rmsd.ligandFitPairs
      rw [hls]
      refine pairs_perm_spec hc.nodupD hc.nodupR _
        (fun k => decide (k.2.2 ∈ lrmsdFastNames) && inZone (zoneOfResidues zl) k) ?_ _ h1 h2 ?_
      · intro r hr'
        have hz : inZone (zoneOfResidues zl) (keyOf r) = true ↔ r.chainID = longOf ref c0 c1 := by
          rw [inZone_iff, hmem]
          exact ⟨fun h => h.1, fun h => ⟨h, r, hr', rfl, rfl⟩⟩
        by_cases hbb : r.name ∈ lrmsdFastNames
        · have hb1 : Spec.Rmsd.isBackbone r = true := by simp [Spec.Rmsd.isBackbone, lrmsd_names_iff, hbb]
          rw [hb1, Bool.true_and, Bool.eq_iff_iff]
          simp only [decide_eq_true_eq, Bool.and_eq_true, hz]
          simp [keyOf, hbb]
        · have hb1 : Spec.Rmsd.isBackbone r = false := by simp [Spec.Rmsd.isBackbone, lrmsd_names_iff, hbb]
          simp [hb1, keyOf, hbb]
      · intro k
        rw [h3, mem_fastIdx]
        simp only [Bool.and_eq_true, decide_eq_true_eq]
        tauto
    have hpermE : (((pick (dec.map ptOf) (fastIdxOut (zoneOfResidues zl) lrmsdFastNames dec ref)).zip
        (pick (ref.map ptOf) (fastIdxOut (zoneOfResidues zl) lrmsdFastNames dec ref))).map idPair).Perm
        (Spec.Rmsd.ligandEvalPairs dec ref) := by
      unfold Spec.Rmsd.ligandEvalPairs
      rw [hls]
      refine pairs_perm_spec hc.nodupD hc.nodupR _
        (fun k => decide (k.2.2 ∈ lrmsdFastNames) && !(zoneOfResidues zl).contains k.1) ?_ _ h1' h2' ?_
      · intro r hr'
        have hz : (zoneOfResidues zl).contains (keyOf r).1 = false ↔
            r.chainID = (if longOf ref c0 c1 = c0 then c1 else c0) := by
          rw [← Bool.not_eq_true, hcont]
          exact not_long_iff hne (hall r hr') (longOf_cases ref c0 c1)
        by_cases hbb : r.name ∈ lrmsdFastNames
        · have hb1 : Spec.Rmsd.isBackbone r = true := by simp [Spec.Rmsd.isBackbone, lrmsd_names_iff, hbb]
          rw [hb1, Bool.true_and, Bool.eq_iff_iff]
          simp only [decide_eq_true_eq, Bool.and_eq_true, Bool.not_eq_true', hz]
          simp [keyOf, hbb]
        · have hb1 : Spec.Rmsd.isBackbone r = false := by simp [Spec.Rmsd.isBackbone, lrmsd_names_iff, hbb]
          simp [hb1, keyOf, hbb]
      · intro k
        rw [h3', mem_fastIdxOut]
        simp only [Bool.and_eq_true, decide_eq_true_eq, Bool.not_eq_true']
        tauto
    rw [kernelLists_eq hlen hlen']
    split_ifs with h0 h0'
    · simp only
      refine Or.inr (Or.inl ⟨trivial, ?_⟩)
      rw [List.length_eq_zero_iff.mp h0] at hpermF
      exact (List.Perm.nil_eq hpermF).symm
    · simp only
      refine Or.inr (Or.inr ⟨trivial, ?_⟩)
      rw [List.length_eq_zero_iff.mp h0'] at hpermE
      exact (List.Perm.nil_eq hpermE).symm
    · simp only
      have nz : ∀ {A B : List Pt}, A.length = B.length → ¬ A.length = 0 → A.zip B ≠ [] := by
        intro A B hl hn hz
        rcases List.zip_eq_nil_iff.mp hz with h' | h'
        · exact hn (by rw [h']; rfl)
        · exact hn (by rw [hl, h']; rfl)
      refine ⟨nz hlen h0, nz hlen' h0', ?_, hpermF, hpermE⟩
      intro p hp
      rcases List.mem_append.mp hp with hp | hp
      · exact (h1 p hp).2.2
      · exact (h1' p hp).2.2

end Proofs.Rmsd
