/-
  Helper lemmas for C07 / C11 (cluster E), part 7: the number.  The mean squared deviation of a pair list depends on
  the multiset of pairs only; for a fixed rotation the best translation matches the centroids; with an optimal kernel
  (hypothesis `KernelOptimal`, discharged by C06) the value the routines compute from their pairs is the minimum over all
  rigid motions (i-RMSD) / the deviation of the evaluation pairs under an optimal superposition of the fitting pairs
  (L-RMSD); identical point sets score 0.  Over any linearly ordered field.  Helper lemmas only.
-/
import Mathlib.Tactic.Ring
import Mathlib.Tactic.Linarith
import Mathlib.Tactic.LinearCombination
import Mathlib.Tactic.FieldSimp
import Mathlib.Tactic.Positivity
import Mathlib.Algebra.Order.Field.Basic
import Mathlib.Data.Real.Basic
import PdbVerif.Proofs.Mat3
import PdbVerif.Spec.C07
import PdbVerif.Model.RmsdValue

set_option linter.unusedVariables false
set_option linter.unusedSectionVars false

namespace Proofs.Msd
open Py Py.Mat3 Spec Spec.Rmsd

variable {α : Type} [Field α] [LinearOrder α] [IsStrictOrderedRing α]

/-! ### the value depends on the multiset of pairs only -/

theorem sumSqDev_perm (g : Motion α) {l₁ l₂ : List (Vec3 α × Vec3 α)} (h : l₁.Perm l₂) :
    sumSqDev g l₁ = sumSqDev g l₂ := by
  induction h with
  | nil => rfl
  | cons x _ ih => simp only [sumSqDev, ih]
  | swap x y l => simp only [sumSqDev]; ring
  | trans _ _ ih1 ih2 => exact ih1.trans ih2

theorem msd_perm (g : Motion α) {l₁ l₂ : List (Vec3 α × Vec3 α)} (h : l₁.Perm l₂) : msd g l₁ = msd g l₂ := by
  unfold msd; rw [sumSqDev_perm g h, h.length_eq]

theorem normSq_nonneg (v : Vec3 α) : 0 ≤ Vec3.normSq v := by
  unfold Vec3.normSq Vec3.dot
  nlinarith [mul_self_nonneg v.x, mul_self_nonneg v.y, mul_self_nonneg v.z]

theorem sumSqDev_nonneg (g : Motion α) (l : List (Vec3 α × Vec3 α)) : 0 ≤ sumSqDev g l := by
  induction l with
  | nil => simp [sumSqDev]
  | cons x xs ih => simp only [sumSqDev]; linarith [normSq_nonneg (Vec3.sub (g.apply x.1) x.2)]

theorem msd_nonneg (g : Motion α) (l : List (Vec3 α × Vec3 α)) : 0 ≤ msd g l := by
  unfold msd
  exact div_nonneg (sumSqDev_nonneg g l) (Nat.cast_nonneg _)

/-! ### for a fixed rotation the best translation matches the centroids -/

/-- `Σ (R pₖ − qₖ)` -/
def devSum (R : Mat3 α) : List (Vec3 α × Vec3 α) → Vec3 α
  | [] => Vec3.zero
  | pq :: l => Vec3.add (Vec3.sub (R.mulVec pq.1) pq.2) (devSum R l)

/-- `Σ ‖R pₖ − qₖ‖²` -/
def devSq (R : Mat3 α) : List (Vec3 α × Vec3 α) → α
  | [] => 0
  | pq :: l => Vec3.normSq (Vec3.sub (R.mulVec pq.1) pq.2) + devSq R l

theorem sumSqDev_expand (R : Mat3 α) (t : Vec3 α) (l : List (Vec3 α × Vec3 α)) :
    sumSqDev ⟨R, t⟩ l = devSq R l + 2 * Vec3.dot t (devSum R l) + (l.length : α) * Vec3.normSq t := by
  induction l with
  | nil => simp [sumSqDev, devSq, devSum, Vec3.dot, Vec3.zero]
  | cons pq l ih =>
    simp only [sumSqDev, devSq, devSum, ih, List.length_cons, Nat.cast_succ, Motion.apply]
    simp only [Vec3.normSq, Vec3.dot, Vec3.sub, Vec3.add]
    ring

/-- the translation that matches the centroids after the rotation `R`: `−(Σ (R pₖ − qₖ))/n = q̄ − R p̄` -/
def bestTr (R : Mat3 α) (l : List (Vec3 α × Vec3 α)) : Vec3 α :=
  Vec3.smul (-(1 / (l.length : α))) (devSum R l)

/-- **centroid_optimal_translation.**  `Σ‖R pₖ + t − qₖ‖² = Σ‖R pₖ + t* − qₖ‖² + n·‖t − t*‖²`: for a fixed linear part the
    deviation is smallest for the translation `t*` that superposes the centroids. -/
theorem sumSqDev_translation (R : Mat3 α) (t : Vec3 α) (l : List (Vec3 α × Vec3 α)) (hl : l ≠ []) :
    sumSqDev ⟨R, t⟩ l = sumSqDev ⟨R, bestTr R l⟩ l + (l.length : α) * Vec3.normSq (Vec3.sub t (bestTr R l)) := by
  have hn : (l.length : α) ≠ 0 := by
    have : l.length ≠ 0 := by simpa using hl
    exact_mod_cast this
  rw [sumSqDev_expand, sumSqDev_expand]
  simp only [bestTr, Vec3.normSq, Vec3.dot, Vec3.sub, Vec3.smul]
  field_simp
  ring

theorem centroid_optimal (R : Mat3 α) (t : Vec3 α) (l : List (Vec3 α × Vec3 α)) (hl : l ≠ []) :
    sumSqDev ⟨R, bestTr R l⟩ l ≤ sumSqDev ⟨R, t⟩ l := by
  rw [sumSqDev_translation R t l hl]
  have : 0 ≤ (l.length : α) * Vec3.normSq (Vec3.sub t (bestTr R l)) :=
    mul_nonneg (Nat.cast_nonneg _) (normSq_nonneg _)
  linarith


/-! ### the kernel: centre, rotate optimally, move back -/

/-- what the theorems assume of `get_rotation_matrix`: on two centred point lists of the same non-zero length it returns
    a proper rotation of minimal residual (C06: `Props.C06.rmsd_minimal`, `quat_optimal` under the SVD / eig contracts) -/
structure KernelOptimal (rotmat : List (Vec3 α) → List (Vec3 α) → Except Err (Mat3 α)) : Prop where
  optimal : ∀ P Q : List (Vec3 α), P.length = Q.length → P ≠ [] → Model.vsum P = Vec3.zero → Model.vsum Q = Vec3.zero →
    ∃ U, rotmat P Q = .ok U ∧ OptimalRotation U P Q

/-- the points of a list moved so that their centroid is the origin (`sel += get_trans_vect(sel)`) -/
def centre (P : List (Vec3 α)) : List (Vec3 α) := P.map (fun p => Vec3.add p (Vec3.neg (Model.mean P)))

/-- the same assumption for one fitting list only: on the centred point sets of `fit` the kernel returns a proper
    rotation of minimal residual -/
def KernelOptimalAt (rotmat : List (Vec3 α) → List (Vec3 α) → Except Err (Mat3 α)) (fit : List (Vec3 α × Vec3 α)) : Prop :=
  ∃ U, rotmat (centre (fit.map (·.1))) (centre (fit.map (·.2))) = .ok U ∧
    OptimalRotation U (centre (fit.map (·.1))) (centre (fit.map (·.2)))

theorem vsum_map_add (P : List (Vec3 α)) (v : Vec3 α) :
    Model.vsum (P.map (fun p => Vec3.add p v)) = Vec3.add (Model.vsum P) (Vec3.smul (P.length : α) v) := by
  induction P with
  | nil => ext <;> simp [Model.vsum, Vec3.add, Vec3.smul, Vec3.zero]
  | cons p P ih =>
    simp only [List.map_cons, Model.vsum, ih, List.length_cons, Nat.cast_succ]
    ext <;> simp only [Vec3.add, Vec3.smul] <;> ring

theorem vsum_centre (P : List (Vec3 α)) (hP : P ≠ []) : Model.vsum (centre P) = Vec3.zero := by
  have hn : (P.length : α) ≠ 0 := by
    have : P.length ≠ 0 := by simpa using hP
    exact_mod_cast this
  unfold centre
  rw [vsum_map_add]
  ext <;> simp only [Vec3.add, Vec3.smul, Vec3.neg, Vec3.zero, Model.mean] <;> field_simp <;> ring

theorem devSum_eq (R : Mat3 α) (l : List (Vec3 α × Vec3 α)) :
    devSum R l = Vec3.sub (R.mulVec (Model.vsum (l.map (·.1)))) (Model.vsum (l.map (·.2))) := by
  induction l with
  | nil => ext <;> simp [devSum, Model.vsum, Vec3.sub, Vec3.zero, Mat3.mulVec]
  | cons pq l ih =>
    simp only [devSum, ih, List.map_cons, Model.vsum]
    ext <;> simp only [Vec3.add, Vec3.sub, Mat3.mulVec] <;> ring

/-- with the centroid-matching translation the deviation is the residual of the rotation on the centred sets -/
theorem sumSqDev_bestTr (R : Mat3 α) (l : List (Vec3 α × Vec3 α)) (hl : l ≠ []) :
    sumSqDev ⟨R, bestTr R l⟩ l = sqResidual R (centre (l.map (·.1))) (centre (l.map (·.2))) := by
  have hn : (l.length : α) ≠ 0 := by
    have : l.length ≠ 0 := by simpa using hl
    exact_mod_cast this
  have key : ∀ (m : List (Vec3 α × Vec3 α)) (a b : Vec3 α) (t : Vec3 α),
      t = Vec3.sub b (R.mulVec a) →
      sumSqDev ⟨R, t⟩ m = sqResidual R ((m.map (·.1)).map (fun p => Vec3.add p (Vec3.neg a)))
        ((m.map (·.2)).map (fun p => Vec3.add p (Vec3.neg b))) := by
    intro m a b t ht
    subst ht
    induction m with
    | nil => simp [sumSqDev, sqResidual]
    | cons pq m ih =>
      simp only [sumSqDev, sqResidual, List.map_cons, ih, Motion.apply]
      congr 1
      simp only [Vec3.normSq, Vec3.dot, Vec3.sub, Vec3.add, Vec3.neg, Mat3.mulVec]
      ring
  unfold centre
  apply key
  rw [bestTr, devSum_eq]
  ext <;> simp only [Vec3.smul, Vec3.sub, Mat3.mulVec, Model.mean, List.length_map] <;> field_simp <;> ring

theorem sumSq_map (g : Motion α) (l : List (Vec3 α × Vec3 α)) :
    Model.Rmsd.sumSq (l.map (fun pq => g.apply pq.1)) (l.map (·.2)) = sumSqDev g l := by
  induction l with
  | nil => rfl
  | cons pq l ih => simp only [List.map_cons, Model.Rmsd.sumSq, sumSqDev, ih]

/-- the rigid motion `superpose_selection` applies when the kernel returns `U` -/
def fitMotion (U : Mat3 α) (fit : List (Vec3 α × Vec3 α)) : Motion α := ⟨U, bestTr U fit⟩

theorem superpose_eq (rotmat : List (Vec3 α) → List (Vec3 α) → Except Err (Mat3 α)) (fit : List (Vec3 α × Vec3 α))
    (hfit : fit ≠ []) (X : List (Vec3 α)) :
    Model.superposeSelection rotmat X (fit.map (·.1)) (fit.map (·.2)) =
      match rotmat (centre (fit.map (·.1))) (centre (fit.map (·.2))) with
      | .error e => .error e
      | .ok U => .ok (X.map (fitMotion U fit).apply) := by
  have hn : (fit.length : α) ≠ 0 := by
    have : fit.length ≠ 0 := by simpa using hfit
    exact_mod_cast this
  unfold Model.superposeSelection centre
  simp only
  generalize rotmat _ _ = r
  cases r with
  | error e => rfl
  | ok U =>
    simp only [Model.rotateAbout, List.map_map, Except.ok.injEq]
    apply List.map_congr_left
    intro x _
    simp only [Function.comp, fitMotion, Motion.apply, bestTr, devSum_eq]
    ext <;> simp only [Vec3.add, Vec3.sub, Vec3.neg, Vec3.smul, Vec3.zero, Mat3.mulVec, Model.mean, List.length_map] <;>
      field_simp <;> ring


theorem meanSq_map (g : Motion α) (l : List (Vec3 α × Vec3 α)) :
    Model.Rmsd.meanSq ((l.map (·.1)).map g.apply) (l.map (·.2)) = msd g l := by
  unfold Model.Rmsd.meanSq msd
  rw [List.map_map, show (g.apply ∘ fun pq : Vec3 α × Vec3 α => pq.1) = fun pq => g.apply pq.1 from rfl, sumSq_map]
  simp only [List.length_map]
  ring

/-- **The value is the definition's.**  With an optimal kernel, what the routines compute from the fitting pairs `fit`
    and the evaluation pairs `eval` is the mean squared deviation of `eval` after a rigid motion that minimises the
    mean squared deviation of `fit` over ALL rigid motions (rotation from the kernel, translation matching centroids). -/
theorem KernelOptimal.at {rotmat : List (Vec3 α) → List (Vec3 α) → Except Err (Mat3 α)} (hk : KernelOptimal rotmat)
    (fit : List (Vec3 α × Vec3 α)) (hfit : fit ≠ []) : KernelOptimalAt rotmat fit := by
  have hne1 : fit.map (·.1) ≠ [] := by simpa using hfit
  have hne2 : fit.map (·.2) ≠ [] := by simpa using hfit
  exact hk.optimal (centre (fit.map (·.1))) (centre (fit.map (·.2)))
    (by simp [centre]) (by simpa [centre] using hfit) (vsum_centre _ hne1) (vsum_centre _ hne2)

theorem radicand_spec {rotmat : List (Vec3 α) → List (Vec3 α) → Except Err (Mat3 α)}
    (fit eval : List (Vec3 α × Vec3 α)) (hfit : fit ≠ []) (hk : KernelOptimalAt rotmat fit) :
    ∃ g : Motion α, g.IsRigid ∧ (∀ h : Motion α, h.IsRigid → msd g fit ≤ msd h fit) ∧
      Model.Rmsd.radicand rotmat fit eval = .ok (msd g eval) := by
  obtain ⟨U, hU, hopt⟩ := hk
  refine ⟨fitMotion U fit, hopt.1, ?_, ?_⟩
  · rintro ⟨R, t⟩ hR
    unfold msd
    apply div_le_div_of_nonneg_right _ (Nat.cast_nonneg _)
    calc sumSqDev (fitMotion U fit) fit = sqResidual U (centre (fit.map (·.1))) (centre (fit.map (·.2))) :=
          sumSqDev_bestTr U fit hfit
      _ ≤ sqResidual R (centre (fit.map (·.1))) (centre (fit.map (·.2))) := hopt.2 R hR
      _ = sumSqDev ⟨R, bestTr R fit⟩ fit := (sumSqDev_bestTr R fit hfit).symm
      _ ≤ sumSqDev ⟨R, t⟩ fit := centroid_optimal R t fit hfit
  · unfold Model.Rmsd.radicand
    rw [superpose_eq rotmat fit hfit, hU]
    simp only [meanSq_map]

/-- i-RMSD: fitting and evaluation pairs coincide, the value is the minimum over all rigid motions -/
theorem radicand_isMin {rotmat : List (Vec3 α) → List (Vec3 α) → Except Err (Mat3 α)}
    (l : List (Vec3 α × Vec3 α)) (hl : l ≠ []) (hk : KernelOptimalAt rotmat l) :
    ∃ m, Model.Rmsd.radicand rotmat l l = .ok m ∧ IsMinMsd m l := by
  obtain ⟨g, hg, hmin, hrad⟩ := radicand_spec l l hl hk
  exact ⟨msd g l, hrad, ⟨g, hg, rfl⟩, hmin⟩

theorem radicand_isFitThenEval {rotmat : List (Vec3 α) → List (Vec3 α) → Except Err (Mat3 α)}
    (fit eval : List (Vec3 α × Vec3 α)) (hfit : fit ≠ []) (hk : KernelOptimalAt rotmat fit) :
    ∃ m, Model.Rmsd.radicand rotmat fit eval = .ok m ∧ IsFitThenEval m fit eval := by
  obtain ⟨g, hg, hmin, hrad⟩ := radicand_spec fit eval hfit hk
  exact ⟨msd g eval, hrad, g, hg, hmin, rfl⟩

/-- the minimum does not depend on the order of the pairs -/
theorem isMinMsd_perm {m : α} {l₁ l₂ : List (Vec3 α × Vec3 α)} (h : l₁.Perm l₂) (hm : IsMinMsd m l₁) : IsMinMsd m l₂ := by
  obtain ⟨⟨g, hg, hgm⟩, hmin⟩ := hm
  exact ⟨⟨g, hg, by rw [← msd_perm g h]; exact hgm⟩, fun g' hg' => by rw [← msd_perm g' h]; exact hmin g' hg'⟩

theorem isFitThenEval_perm {m : α} {f₁ f₂ e₁ e₂ : List (Vec3 α × Vec3 α)} (hf : f₁.Perm f₂) (he : e₁.Perm e₂)
    (hm : IsFitThenEval m f₁ e₁) : IsFitThenEval m f₂ e₂ := by
  obtain ⟨g, hg, hmin, hgm⟩ := hm
  exact ⟨g, hg, fun h hh => by rw [← msd_perm g hf, ← msd_perm h hf]; exact hmin h hh, by rw [← msd_perm g he]; exact hgm⟩

/-! ### identical structures -/

theorem id_rigid : (Motion.id : Motion α).IsRigid := Proofs.M3.rot_one

theorem sumSqDev_id_of_equal (l : List (Vec3 α × Vec3 α)) (h : ∀ pq ∈ l, pq.1 = pq.2) : sumSqDev Motion.id l = 0 := by
  induction l with
  | nil => rfl
  | cons pq l ih =>
    have h1 := h pq (by simp)
    have h2 := ih (fun x hx => h x (List.mem_cons_of_mem _ hx))
    simp only [sumSqDev, h2, ← h1]
    simp [Motion.apply, Motion.id, Vec3.normSq, Vec3.dot, Vec3.sub, Vec3.add, Mat3.mulVec, Mat3.one, Vec3.zero]

theorem msd_id_of_equal (l : List (Vec3 α × Vec3 α)) (h : ∀ pq ∈ l, pq.1 = pq.2) : msd Motion.id l = 0 := by
  unfold msd; rw [sumSqDev_id_of_equal l h]; simp

/-- the minimum over rigid motions of identical point sets is 0 -/
theorem isMin_zero_of_equal {m : α} {l : List (Vec3 α × Vec3 α)} (h : ∀ pq ∈ l, pq.1 = pq.2) (hm : IsMinMsd m l) : m = 0 := by
  obtain ⟨⟨g, _, hg⟩, hmin⟩ := hm
  have h1 : m ≤ 0 := by rw [← msd_id_of_equal l h]; exact hmin _ id_rigid
  have h2 : 0 ≤ m := by rw [← hg]; exact msd_nonneg g l
  exact le_antisymm h1 h2

/-- the kernel hypothesis is satisfiable: on identical point sets the identity is an optimal rotation -/
theorem sqResidual_nonneg (R : Mat3 α) : ∀ (P Q : List (Vec3 α)), 0 ≤ sqResidual R P Q
  | [], _ => by simp [sqResidual]
  | _ :: _, [] => by simp [sqResidual]
  | p :: P, q :: Q => by
    simp only [sqResidual]
    linarith [normSq_nonneg (Vec3.sub (R.mulVec p) q), sqResidual_nonneg R P Q]

theorem sqResidual_one_self : ∀ (P : List (Vec3 α)), sqResidual Mat3.one P P = 0
  | [] => rfl
  | p :: P => by
    simp only [sqResidual, sqResidual_one_self P]
    simp [Vec3.normSq, Vec3.dot, Vec3.sub, Mat3.mulVec, Mat3.one]

theorem kernelOptimalAt_of_equal (l : List (Vec3 α × Vec3 α)) (h : ∀ pq ∈ l, pq.1 = pq.2) :
    KernelOptimalAt (fun _ _ => .ok Mat3.one) l := by
  have hmap : l.map (·.2) = l.map (·.1) := List.map_congr_left (fun pq hpq => (h pq hpq).symm)
  refine ⟨Mat3.one, rfl, Proofs.M3.rot_one, fun R _ => ?_⟩
  rw [hmap, sqResidual_one_self]
  exact sqResidual_nonneg R _ _

/-! ### the exact coordinates of the files as real numbers -/

def realV (p : Vec3 Rat) : Vec3 ℝ := ⟨(p.x : ℝ), (p.y : ℝ), (p.z : ℝ)⟩

/-- coordinate pairs (decoy, reference) read as real points -/
def realPairs (l : List (Vec3 Rat × Vec3 Rat)) : List (Vec3 ℝ × Vec3 ℝ) := l.map (fun pq => (realV pq.1, realV pq.2))

theorem realPairs_perm {l₁ l₂ : List (Vec3 Rat × Vec3 Rat)} (h : l₁.Perm l₂) : (realPairs l₁).Perm (realPairs l₂) :=
  h.map _

theorem realPairs_ne_nil {l : List (Vec3 Rat × Vec3 Rat)} (h : l ≠ []) : realPairs l ≠ [] := by
  simpa [realPairs] using h

theorem realPairs_equal {l : List (Vec3 Rat × Vec3 Rat)} (h : ∀ pq ∈ l, pq.1 = pq.2) :
    ∀ pq ∈ realPairs l, pq.1 = pq.2 := by
  intro pq hpq
  obtain ⟨x, hx, rfl⟩ := List.mem_map.mp hpq
  simp only [h x hx]

end Proofs.Msd
