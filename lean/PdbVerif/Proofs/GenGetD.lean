/-
  The chunked branch of the translated `get` (Gen/Get.lean) against `Model.chunkLoop` / `Model.fetchRows`:
  the loop over the keywords up to the first over-long list (`walk`, the translation-side mirror of `Model.scan`), the slices
  `v[i:i+950]` = `Model.chunks`, the chunk loop, the row loop, `_format_get_output` on the fetched rows.
-/
import PdbVerif.Proofs.GenGetC

set_option linter.unusedVariables false
set_option linter.unusedSimpArgs false

namespace GenGetProofs
open Tbl Model MicroSql GenSql SqlProofs GenG

/-! ### the loop over the keywords, in general -/

inductive Walk
  | conds (ss : List CondSpec)
  | long (idx : Nat) (k : Kw)

/-- the conditions of a keyword list, or the first over-long list with its position -/
def walk : List Kw → Except GErr Walk
  | [] => .ok (.conds [])
  | k :: rest =>
    if isLong k.arg then .ok (.long 0 k)
    else match genVals (stripNo k.key).2 k.arg with
      | .error e => .error e
      | .ok t =>
        match walk rest with
        | .error e => .error e
        | .ok (.conds ss) => .ok (.conds (⟨(stripNo k.key).2, (stripNo k.key).1, t⟩ :: ss))
        | .ok (.long i k') => .ok (.long (i + 1) k')

set_option maxRecDepth 4000 in
theorem loop_walk (sg : SelfGet) (db : Db) (c tn : Py.Str) (kw0 : List Kw) (q : Py.Str) : ∀ (kw : List Kw) (i : Nat)
    (vals : List Val) (conds : List Py.Str),
    E.forIn (((Rt.items kw).zipIdx i).map (fun p => (((p.2 : Nat) : Int), p.1))) (q, vals, conds)
        (fun it_ st_ => get_for_k_v sg db c tn kw0 it_ st_) =
      (match walk kw with
       | .error e => .error (errOf e)
       | .ok (.conds ss) => .ok (.cont (q, vals ++ ss.flatMap (·.vals), conds ++ ss.map CondSpec.text))
       | .ok (.long _ k) =>
         match get_for_k_v_if_chunck_size sg db c tn kw0 k.arg.vals q k.key (negStr k.key) (Rt.len k.arg.vals) with
         | .error e => .error e
         | .ok r => .ok (.ret r))
  | [], i, vals, conds => by simp [Rt.items, E.forIn, walk]
  | k :: rest, i, vals, conds => by
    have ih := loop_walk sg db c tn kw0 q rest (i + 1)
    simp only [Rt.items, List.map_cons, List.zipIdx_cons, E.forIn, get_for_k_v_nf, get_cond_nf, walk]
    by_cases hl : isLong k.arg = true
    · rw [condStep_long _ _ _ _ hl]
      simp only [hl, if_true]
      cases get_for_k_v_if_chunck_size sg db c tn kw0 k.arg.vals q k.key (negStr k.key) (Rt.len k.arg.vals) <;> rfl
    · have hl' : isLong k.arg = false := by simpa using hl
      simp only [hl', if_false, Bool.false_eq_true]
      cases hg : genVals (stripNo k.key).2 k.arg with
      | error e => rw [condStep_err _ _ _ _ hl' e hg]
      | ok t =>
        rw [condStep_ok _ _ _ _ hl' t hg]
        simp only []
        have := ih (vals ++ t) (conds ++ [condText (stripNo k.key).2 (stripNo k.key).1 t.length])
        simp only [Rt.items, get_for_k_v_nf, get_cond_nf] at this
        rw [this]
        cases walk rest with
        | error e => rfl
        | ok o =>
          cases o with
          | conds ss =>
            simp only [List.flatMap_cons, List.map_cons, List.append_assoc, List.cons_append, List.nil_append, CondSpec.text]
          | long j k' => rfl

/-- `walk` against the model's `scan` -/
theorem scan_walk (db : Db) : ∀ (kw : List Kw), KeysResolve db kw →
    (match walk kw with
     | .error e => scan db kw = .error (errOf e)
     | .ok (.conds ss) => specsOf kw = .ok (some ss) ∧ NoLong kw
     | .ok (.long idx k) => scan db kw = .ok (.long idx k.key (stripNo k.key).1 k.arg.vals) ∧ kw[idx]? = some k ∧ isLong k.arg = true)
  | [], _ => ⟨rfl, by intro k hk; simp at hk⟩
  | k :: rest, hk => by
    have ih := scan_walk db rest (fun x hx => hk x (by simp [hx]))
    obtain ⟨c, hc⟩ := Option.isSome_iff_exists.1 (hk k (by simp))
    have hg := genVals_eq_model (stripNo k.key).2 k.arg
    simp only [walk, scan, specsOf]
    by_cases hl : isLong k.arg = true
    · simp [hl]
    · have hl' : isLong k.arg = false := by simpa using hl
      simp only [hl', if_false, Bool.false_eq_true]
      cases hgv : genVals (stripNo k.key).2 k.arg with
      | error e => rw [hgv] at hg; simp only [Except.mapError] at hg; simp only [← hg]
      | ok t =>
        rw [hgv] at hg
        simp only [Except.mapError] at hg
        simp only [← hg, Model.mkCond, hc]
        cases hw : walk rest with
        | error e => rw [hw] at ih; simp only [] at ih; simp only [ih]
        | ok o =>
          rw [hw] at ih
          cases o with
          | conds ss =>
            obtain ⟨h1, h2⟩ := ih
            simp only [h1]
            refine ⟨trivial, ?_⟩
            intro x hx
            rcases List.mem_cons.1 hx with rfl | hx
            · exact hl'
            · exact h2 x hx
          | long j k' =>
            obtain ⟨h1, h2, h3⟩ := ih
            simp only [h1]
            exact ⟨trivial, by simpa using h2, h3⟩

/-! ### the slices of an over-long list -/

theorem ceil_step (len n : Nat) (hn : 0 < n) (hl : 0 < len) : (len + n - 1) / n = (len - n + n - 1) / n + 1 := by
  by_cases h : n ≤ len
  · have : len + n - 1 = (len - n + n - 1) + n := by omega
    rw [this, Nat.add_div_right _ hn]
  · have h0 : len - n = 0 := by omega
    rw [h0, Nat.div_eq_of_lt (by omega : 0 + n - 1 < n)]
    exact Nat.div_eq_of_lt_le (by omega) (by omega)

theorem chunksAux_range {α : Type} (n : Nat) (hn : 0 < n) : ∀ (f : Nat) (l : List α), l.length ≤ f →
    Model.chunksAux n f l = (List.range ((l.length + n - 1) / n)).map (fun k => (l.drop (k * n)).take n)
  | 0, l, h => by
    have : l = [] := List.eq_nil_of_length_eq_zero (by omega)
    subst this
    simp [Model.chunksAux]; omega
  | f + 1, l, h => by
    unfold Model.chunksAux
    by_cases he : l.isEmpty = true
    · have : l = [] := by simpa using he
      subst this
      simp; omega
    · have hpos : 0 < l.length := by
        cases l with
        | nil => simp at he
        | cons a t => simp
      simp only [he, if_false, Bool.false_eq_true]
      rw [chunksAux_range n hn f (l.drop n) (by simp; omega), ceil_step l.length n hn hpos, List.range_succ_eq_map]
      simp only [List.map_cons, List.map_map, Nat.zero_mul, List.drop_zero, List.length_drop]
      congr 1
      apply List.map_congr_left
      intro k _
      simp only [Function.comp, List.drop_drop]
      congr 2
      rw [Nat.succ_mul]; omega

theorem range3_chunks {α : Type} (l : List α) :
    (E.range3 0 (Rt.len l) (Gen.max_sql_values : Int)).map (fun i => Rt.slice l i (i + (Gen.max_sql_values : Int))) =
      Model.chunks Gen.max_sql_values l := by
  have hn : 0 < Gen.max_sql_values := by decide
  unfold Model.chunks
  rw [chunksAux_range _ hn _ l (le_refl _)]
  unfold E.range3 Rt.len
  have h1 : ¬ ((Gen.max_sql_values : Int) ≤ 0) := by have := hn; omega
  simp only [h1, if_false, List.map_map]
  have h2 : ((((l.length : Int) - 0 + (Gen.max_sql_values : Int) - 1) / (Gen.max_sql_values : Int)).toNat) =
      (l.length + Gen.max_sql_values - 1) / Gen.max_sql_values := by
    have : ((l.length : Int) - 0 + (Gen.max_sql_values : Int) - 1) = ((l.length + Gen.max_sql_values - 1 : Nat) : Int) := by omega
    rw [this, ← Int.natCast_ediv, Int.toNat_natCast]
  rw [h2]
  apply List.map_congr_left
  intro k _
  simp only [Function.comp]
  have : (0 : Int) + (k : Int) * (Gen.max_sql_values : Int) = ((k * Gen.max_sql_values : Nat) : Int) := by rw [Int.zero_add, Int.natCast_mul]
  rw [this, slice_nat]

/-! ### the chunk loop -/

theorem rowIDs_eq (r : Model.Result) : E.rowIDs r = asInts r := by cases r <;> rfl

theorem negStr_ne (k : Py.Str) : (negStr k ≠ []) ↔ (stripNo k).1 = true := by
  unfold negStr stripNo
  by_cases hp : Py.startsWith k ['n', 'o', '_'] = true
  · have : "no_".toList.isPrefixOf k = true := by simpa [Py.startsWith] using hp
    simp only [hp, this, if_true]; decide
  · have : ¬ ("no_".toList.isPrefixOf k = true) := by simpa [Py.startsWith] using hp
    simp only [hp, this, if_false, Bool.false_eq_true]; decide

/-- `kwargs[key] = v` on a dictionary (distinct keys) whose `idx`-th key is `key` -/
theorem setKw_idx (a : Arg) : ∀ (kw : List Kw) (idx : Nat) (k : Kw), (kw.map (·.key)).Nodup → kw[idx]? = some k →
    E.setKw kw k.key a = kw.set idx ⟨k.key, a⟩
  | [], idx, k, _, h => by simp at h
  | x :: rest, 0, k, _, h => by
    simp only [List.getElem?_cons_zero, Option.some.injEq] at h
    subst h; simp [E.setKw]
  | x :: rest, j + 1, k, hnd, h => by
    simp only [List.getElem?_cons_succ] at h
    simp only [List.map_cons, List.nodup_cons] at hnd
    have hmem : k.key ∈ rest.map (·.key) := List.mem_map.2 ⟨k, List.mem_of_getElem? h, rfl⟩
    have hne : x.key ≠ k.key := by intro e; rw [e] at hnd; exact hnd.1 hmem
    simp [E.setKw, hne, setKw_idx a rest j k hnd.2 h]

/-- the translated loop over the chunks = `Model.chunkLoop` (given what the recursive calls answer) -/
theorem chunkLoop_eq (sg : SelfGet) (recM : List Kw → Except Model.Err Model.Result) (db : Db) (tn : Py.Str) (kw : List Kw) (idx : Nat) (k : Kw)
    (hset : ∀ vc, E.setKw kw k.key (.list vc) = Model.setKw kw idx k.key vc)
    (hrec : ∀ vc, sg rowIDName tn (Model.setKw kw idx k.key vc) = recM (Model.setKw kw idx k.key vc)) :
    ∀ (cs : List (List Val)) (acc : Option (List Int)),
      E.forM cs acc (fun it_ st_ => get_for_k_v_if_chunck_size_for_vc sg db tn kw k.key (negStr k.key) it_ st_) =
        chunkLoop recM kw idx k.key (stripNo k.key).1 cs acc
  | [], acc => rfl
  | c :: cs, acc => by
    have ih := chunkLoop_eq sg recM db tn kw idx k hset hrec cs
    simp only [get_for_vc_nf, hset, hrec, rowIDs_eq] at ih
    simp only [E.forM, get_for_vc_nf, hset, hrec, chunkLoop, rowIDs_eq]
    cases recM (Model.setKw kw idx k.key c) with
    | error e => rfl
    | ok r =>
      simp only []
      cases asInts r with
      | error e => rfl
      | ok index =>
        simp only []
        rw [ih]
        congr 1
        cases acc with
        | none => rfl
        | some rs =>
          simp only [combine, E.setAnd, E.setOr]
          by_cases hn : (stripNo k.key).1 = true
          · simp [hn, (negStr_ne k.key).2 hn]
          · have : ¬ (negStr k.key ≠ []) := fun h => hn ((negStr_ne k.key).1 h)
            simp [hn, this]

theorem chunkLoop_some (recM : List Kw → Except Model.Err Model.Result) (kw : List Kw) (idx : Nat) (key : Py.Str) (neg : Bool) :
    ∀ (cs : List (List Val)) (acc rows : Option (List Int)), chunkLoop recM kw idx key neg cs acc = .ok rows →
      (acc.isSome = true ∨ cs ≠ []) → rows.isSome = true
  | [], acc, rows, h, hne => by
    simp only [chunkLoop, Except.ok.injEq] at h
    subst h; rcases hne with h | h
    · exact h
    · exact absurd rfl h
  | c :: cs, acc, rows, h, _ => by
    simp only [chunkLoop] at h
    cases h1 : recM (Model.setKw kw idx key c) with
    | error e => rw [h1] at h; cases h
    | ok r =>
      rw [h1] at h
      simp only [] at h
      cases h2 : asInts r with
      | error e => rw [h2] at h; cases h
      | ok index =>
        rw [h2] at h
        simp only [] at h
        exact chunkLoop_some recM kw idx key neg cs _ rows h (Or.inl (by cases acc <;> rfl))

theorem sorted_eq (s : List Int) : E.sorted s = sortDedup intLt s := rfl

/-! ### the loop over the rows -/

theorem rows_text (columns tn : Py.Str) (rows : List Int) (i size : Int) :
    (get_rows_step columns tn rows i size).1 = selectHead columns tn ++
      ([' ', 'W', 'H', 'E', 'R', 'E', ' '] ++ Rt.join [' ', 'A', 'N', 'D', ' '] ([rowSpec (Rt.slice rows i (i + size))].map CondSpec.text)) := by
  rw [get_rows_step_nf]; simp [selectText]

/-- `SELECT cols FROM t WHERE rowID in (r+1 …)` for the rows `c` -/
abbrev rsel (db : Db) (tab : Tab) (cols : List Col) (c : List Int) : List (List Val) :=
  sqlSelect db tab cols [{ col := .rowID, neg := false, vals := c.map (fun r => Val.int (r + 1)) }]

/-- the translated loop over the slices of the selected rows fetches `Model.fetchRows`' summands in order -/
theorem rowsLoop_eq (sg : SelfGet) (db : Db) (columns tn : Py.Str) (tab : Tab) (cols : List Col) (sorted : List Int)
    (hc : colsPlain columns = true) (ht : isName tn = true) (hrow : sqlCol db rowIDName = some .rowID)
    (hfind : findTab db tn = some tab) (hcols : sqlCols db columns = .ok cols) :
    ∀ (is : List Int) (q : Py.Str) (acc : List (List Val)),
      ∃ q', E.forM is (q, acc) (fun it_ st_ => get_for_k_v_if_chunck_size_for_i sg db columns tn (Gen.max_sql_values : Int) sorted it_ st_) =
        .ok (q', acc ++ (is.map (fun i => Rt.slice sorted i (i + (Gen.max_sql_values : Int)))).flatMap (rsel db tab cols))
  | [], q, acc => ⟨q, by simp [E.forM]⟩
  | i :: is, q, acc => by
    have hexec : E.execute db (get_rows_step columns tn sorted i (Gen.max_sql_values : Int)).1
        ((get_rows_step columns tn sorted i (Gen.max_sql_values : Int)).2.map Val.int) =
        .ok (rsel db tab cols (Rt.slice sorted i (i + (Gen.max_sql_values : Int)))) := by
      have h1 := rows_step_eq_model db columns tn sorted i (Gen.max_sql_values : Int) hc ht hrow
      rw [hfind, hcols] at h1
      simp only [] at h1
      have h2 : E.execute db (get_rows_step columns tn sorted i (Gen.max_sql_values : Int)).1
          ((get_rows_step columns tn sorted i (Gen.max_sql_values : Int)).2.map Val.int) =
          MicroSql.query db (get_rows_step columns tn sorted i (Gen.max_sql_values : Int)).1
            ((get_rows_step columns tn sorted i (Gen.max_sql_values : Int)).2.map Val.int) := by
        rw [rows_text]
        exact execute_plain db columns tn _ _ hc ht (Or.inr ⟨' ', _, rfl, by decide⟩)
      rw [h2, h1]
    obtain ⟨q', ih⟩ := rowsLoop_eq sg db columns tn tab cols sorted hc ht hrow hfind hcols is
      (get_rows_step columns tn sorted i (Gen.max_sql_values : Int)).1
      (acc ++ rsel db tab cols (Rt.slice sorted i (i + (Gen.max_sql_values : Int))))
    refine ⟨q', ?_⟩
    simp only [get_for_rows_nf] at ih
    simp only [E.forM, get_for_rows_nf, hexec, ih, List.map_cons, List.flatMap_cons, List.append_assoc]

/-! ### `_format_get_output` on the fetched rows -/

theorem finish_fetch (db : Db) (columns : Py.Str) (cols : List Col) (hcols : sqlCols db columns = .ok cols)
    (hrow : sqlCol db rowIDName = some .rowID) (tab : Tab) (sorted : List Int) :
    (format_get_output (fetchRows db tab cols sorted) columns).mapError errOf = finish columns (fetchRows db tab cols sorted) := by
  rw [format_get_output_nf]
  apply format_eq_finish columns _ cols.length
  · intro r hr
    obtain ⟨c, _, hr⟩ := List.mem_flatMap.1 hr
    obtain ⟨rp, _, rfl⟩ := List.mem_map.1 hr
    simp
  · intro index hi r hr
    obtain ⟨c, _, hr⟩ := List.mem_flatMap.1 hr
    obtain ⟨rp, _, rfl⟩ := List.mem_map.1 hr
    exact select_rowID_int db columns cols hcols hrow index hi rp

/-! ### valid column names resolve -/

theorem ciEq_refl (a : Py.Str) : ciEq a a = true := by simp [ciEq]

theorem sqlCol_of_mem (db : Db) (k : Py.Str) (hk : k ∈ db.colnames) : (sqlCol db k).isSome = true := by
  simp only [Db.colnames, Tbl.colnames, List.mem_cons, List.mem_append, List.mem_map] at hk
  unfold sqlCol
  cases hf : StdCol.all.find? (fun c => ciEq c.pyName k) with
  | some c => rfl
  | none =>
    simp only []
    cases hx : db.extraNames.findIdx? (fun n => ciEq n k) with
    | some i => rfl
    | none =>
      simp only []
      rcases hk with rfl | ⟨c, hc, rfl⟩ | hk
      · rfl
      · have := List.find?_eq_none.1 hf c hc
        simp [ciEq_refl] at this
      · have := List.findIdx?_eq_none_iff.1 hx k hk
        simp [ciEq_refl] at this

theorem mapM_ok_exists {α β : Type} (f : α → Except Model.Err β) : ∀ (l : List α), (∀ x ∈ l, ∃ y, f x = .ok y) → ∃ ys, l.mapM f = .ok ys
  | [], _ => ⟨[], rfl⟩
  | a :: t, h => by
    obtain ⟨y, hy⟩ := h a (by simp)
    obtain ⟨ys, hys⟩ := mapM_ok_exists f t (fun x hx => h x (by simp [hx]))
    exact ⟨y :: ys, by simp [List.mapM_cons, hy, hys, bind, Except.bind, pure, Except.pure]⟩

theorem sqlCols_ok (db : Db) (columns : Py.Str) (hv : validCols db columns = true) : ∃ cols, sqlCols db columns = .ok cols := by
  unfold sqlCols
  by_cases hs : columns = "*".toList
  · simp [hs]
  · simp only [hs, if_false]
    apply mapM_ok_exists
    intro p hp
    simp only [validCols, Bool.or_eq_true, decide_eq_true_eq, hs, false_or, List.all_eq_true] at hv
    have := sqlCol_of_mem db (Py.strip p) (by simpa using hv p hp)
    obtain ⟨c, hc⟩ := Option.isSome_iff_exists.1 this
    exact ⟨c, by simp [hc]⟩

end GenGetProofs
