/-
  The engine side of the translated `get` (Gen/Get.lean): what `E.execute` does with the texts the function emits.
  `SELECT EXISTS(SELECT k FROM t)` succeeds exactly when `Model.keyOK`; every other emitted text goes to `MicroSql.query`
  unchanged (it does not start with `SELECT EXISTS(`).  Then the part of `get_body` without an over-long list.
-/
import PdbVerif.Proofs.GenGetB

set_option linter.unusedVariables false
set_option linter.unusedSimpArgs false

namespace GenGetProofs
open Tbl Model MicroSql GenSql SqlProofs GenG

/-! ### texts that are not the probe -/

theorem existsHead_split (s : Py.Str) :
    E.existsHead ++ s = (['S', 'E', 'L', 'E', 'C', 'T', ' ', 'E', 'X', 'I', 'S', 'T', 'S'] : Py.Str) ++ '(' :: s := rfl

/-- a SELECT the library emits for data never starts with `SELECT EXISTS(` -/
theorem not_exists_prefix (columns tn rest : Py.Str) (hc : colsPlain columns = true) (ht : isName tn = true) (hr : StartsDelim rest) :
    E.existsHead.isPrefixOf (selectHead columns tn ++ rest) = false := by
  cases hp : E.existsHead.isPrefixOf (selectHead columns tn ++ rest) with
  | false => rfl
  | true =>
    exfalso
    obtain ⟨s, hs⟩ := List.isPrefixOf_iff_prefix.1 hp
    have t1 := tokenize_selectHead_append columns tn hc ht rest hr
    rw [← hs, existsHead_split, tokenize_append_punct _ '(' .lparen s (by decide) (by decide)] at t1
    have t0 : tokenize (['S', 'E', 'L', 'E', 'C', 'T', ' ', 'E', 'X', 'I', 'S', 'T', 'S'] : Py.Str) =
        [.word kSELECT, .word ['E', 'X', 'I', 'S', 'T', 'S']] := by decide
    rw [t0] at t1
    cases hca : colsAst columns with
    | star => rw [hca] at t1; simp [colToks] at t1
    | names ns =>
      rw [hca] at t1
      cases ns with
      | nil => simp [colToks, nameToks, kFROM] at t1
      | cons a t =>
        cases t with
        | nil => simp [colToks, nameToks] at t1
        | cons b t' => simp [colToks, nameToks] at t1

theorem execute_plain (db : Db) (columns tn rest : Py.Str) (params : List Val) (hc : colsPlain columns = true) (ht : isName tn = true)
    (hr : StartsDelim rest) :
    E.execute db (selectHead columns tn ++ rest) params = MicroSql.query db (selectHead columns tn ++ rest) params := by
  unfold E.execute
  simp [not_exists_prefix columns tn rest hc ht hr]

/-! ### the probe -/

theorem splitOn_absent (c : Char) : ∀ (s : Py.Str), c ∉ s → Py.splitOn c s = [s]
  | [], _ => rfl
  | x :: xs, h => by
    have hx : (x == c) = false := by
      cases hxc : x == c with
      | false => rfl
      | true => exact absurd (by simp [← (beq_iff_eq.1 hxc)]) h
    have := splitOn_absent c xs (fun hm => h (List.mem_cons_of_mem _ hm))
    simp [Py.splitOn, hx, this]

theorem dropWhile_none {α : Type} (q : α → Bool) : ∀ (l : List α), (∀ c ∈ l, q c = false) → l.dropWhile q = l
  | [], _ => rfl
  | a :: t, h => by simp [List.dropWhile_cons, h a (by simp)]

theorem name_facts (k : Py.Str) (hk : isName k = true) :
    Py.splitOn ',' k = [k] ∧ trimSql k = k ∧ Py.strip k = k ∧ k ≠ "*".toList := by
  obtain ⟨hne, hw⟩ := isName_word k hk
  have hsp : ∀ c ∈ k, sqlSpace c = false := by
    intro c hc
    have := hw c hc
    simp only [isDelim, Bool.or_eq_false_iff] at this
    exact this.1.1
  refine ⟨?_, ?_, ?_, ?_⟩
  · apply splitOn_absent
    intro hm
    have := hw ',' hm
    revert this; decide
  · unfold trimSql
    rw [dropWhile_none _ k hsp, dropWhile_none _ k.reverse (fun c hc => hsp c (List.mem_reverse.1 hc)), List.reverse_reverse]
  · exact strip_padded k k ⟨[], [], by simp, by simp, by simp⟩ hk
  · intro h; subst h; revert hk; decide

theorem colsPlain_name (k : Py.Str) (hk : isName k = true) : colsPlain k = true := by
  obtain ⟨h1, h2, _, _⟩ := name_facts k hk
  simp [colsPlain, h1, h2, hk]

theorem sqlCols_name (db : Db) (k : Py.Str) (hk : isName k = true) :
    sqlCols db k = (match sqlCol db k with | some c => .ok [c] | none => .error .operational) := by
  obtain ⟨h1, _, h3, h4⟩ := name_facts k hk
  unfold sqlCols
  simp only [h4, if_false, h1, List.mapM_cons, List.mapM_nil, h3, bind, Except.bind, pure, Except.pure]
  cases sqlCol db k <;> rfl

/-- **the `SELECT EXISTS(SELECT k FROM t)` probe succeeds exactly when `Model.keyOK`** -/
theorem probe_eq (db : Db) (tn k : Py.Str) (hk : isName (stripNo k).2 = true) (ht : isName tn = true) :
    probe db tn k = if keyOK db tn (stripNo k).2 = true then .ok () else .error .valueError := by
  unfold probe E.execute existsText
  have hpre : E.existsHead.isPrefixOf (E.existsHead ++ selectHead (stripNo k).2 tn ++ [')']) = true := by
    rw [List.isPrefixOf_iff_prefix, List.append_assoc]; exact List.prefix_append _ _
  have hlast : (E.existsHead ++ selectHead (stripNo k).2 tn ++ [')']).getLast? = some ')' := by simp
  have hinner : ((E.existsHead ++ selectHead (stripNo k).2 tn ++ [')']).drop E.existsHead.length).dropLast = selectHead (stripNo k).2 tn := by
    rw [List.append_assoc, List.drop_left, List.dropLast_concat]
  simp only [hpre, hlast, and_self, if_true, hinner]
  unfold MicroSql.query
  rw [parse_selectHead _ tn (colsPlain_name _ hk) ht]
  have := execSelect_eq db (stripNo k).2 tn [] [] (colsPlain_name _ hk) rfl
  simp only [List.map_nil, List.flatMap_nil] at this
  simp only [this, keyOK, sqlCols_name db _ hk]
  obtain hf | ⟨tab, hf⟩ : findTab db tn = none ∨ ∃ t, findTab db tn = some t := by cases findTab db tn <;> simp
  · simp only [hf]; rfl
  · obtain hs | ⟨c, hs⟩ : sqlCol db (stripNo k).2 = none ∨ ∃ c, sqlCol db (stripNo k).2 = some c := by
      cases sqlCol db (stripNo k).2 <;> simp
    · simp only [hf, hs]; rfl
    · simp only [hf, hs]; rfl

theorem probes_eq (sg : SelfGet) (db : Db) (tn : Py.Str) (ht : isName tn = true) : ∀ (kw : List Kw),
    (∀ k ∈ kw, isName (stripNo k.key).2 = true) →
    E.forM (E.keys kw) () (fun it_ st_ => get_for_k sg db tn it_ st_) =
      if kw.all (fun k => keyOK db tn (stripNo k.key).2) = true then .ok () else .error .valueError
  | [], _ => rfl
  | k :: rest, h => by
    have ih := probes_eq sg db tn ht rest (fun x hx => h x (by simp [hx]))
    simp only [E.keys, get_for_k_nf] at ih
    simp only [E.keys, List.map_cons, E.forM, get_for_k_nf, probe_eq db tn k.key (h k (by simp)) ht, List.all_cons, Bool.and_eq_true]
    by_cases hk : keyOK db tn (stripNo k.key).2 = true
    · simp only [hk, if_true, true_and]; exact ih
    · simp [hk]

/-! ### `get_body` without an over-long list -/

theorem len_zero_iff (kw : List Kw) : (Rt.len kw = (0 : Int)) ↔ kw.isEmpty = true := by
  cases kw <;> simp [Rt.len] <;> omega

/-- the statement, the engine, `_format_get_output`: `SqlProofs.runSql` -/
theorem run_eq (db : Db) (columns tn rest : Py.Str) (params : List Val) (hc : colsPlain columns = true) (ht : isName tn = true)
    (hr : StartsDelim rest) :
    (E.execute db (selectHead columns tn ++ rest) params).bind (fun v =>
      (E.py (format_get_output (List.map (fun row => row) v) columns)).bind (fun v => pure (Model.Result.data v))) =
      runSql db (selectHead columns tn ++ rest) params columns := by
  rw [execute_plain db columns tn rest params hc ht hr]
  unfold runSql
  cases MicroSql.query db (selectHead columns tn ++ rest) params with
  | error e => rfl
  | ok data =>
    simp only [List.map_id', py_eq, Except.bind]
    cases format_get_output data columns <;> rfl

/-- **the translated `get` below the chunk limit**: with valid columns and no per-model dispatch, `get_body` is the key check
    followed by "translated text → MicroSql → translated `_format_get_output`" (`SqlProofs.getViaSql`, which `getF_eq_sql` shows
    to be the model) -/
theorem get_body_short (sg : SelfGet) (db : Db) (columns tn : Py.Str) (kw : List Kw)
    (hv : validCols db columns = true) (hd : (!hasModelKey kw && decide (db.nModel > 0)) = false) (hnl : NoLong kw)
    (hp : PlainNames columns tn kw) :
    get_body sg db columns tn kw =
      if kw.all (fun k => keyOK db tn (stripNo k.key).2) = true then getViaSql db columns tn kw else .error .valueError := by
  obtain ⟨hc, ht, hk⟩ := hp
  have hnd : ¬ ((['m', 'o', 'd', 'e', 'l'] : Py.Str) ∉ E.keys kw ∧ E.nModel db > 0) := by
    intro h; have := (dispatch_iff db kw).1 h; rw [hd] at this; cases this
  unfold get_body
  simp only [bind]
  rw [validate_eq]
  simp only [hv, if_true, not_true_eq_false, if_false, hnd, bind_ok]
  by_cases he : kw.isEmpty = true
  · have hkw : kw = [] := by cases kw <;> simp_all
    subst hkw
    simp only [(len_zero_iff []).2 rfl, if_true, List.all_nil]
    have := run_eq db columns tn [] [] hc ht (Or.inl rfl)
    simp only [List.append_nil, selectHead] at this
    simp only [this, getViaSql, List.isEmpty_nil, if_true, get_nokw_nf, selectHead]
  · have hl : ¬ (Rt.len kw = (0 : Int)) := fun h => he ((len_zero_iff kw).1 h)
    simp only [hl, if_false, probes_eq sg db tn ht kw hk]
    by_cases hkeys : kw.all (fun k => keyOK db tn (stripNo k.key).2) = true
    · simp only [hkeys, if_true, bind_ok]
      have hloop := loop_short sg db columns tn kw
        (['S', 'E', 'L', 'E', 'C', 'T', ' '] ++ columns ++ [' ', 'F', 'R', 'O', 'M', ' '] ++ tn ++ [' ', 'W', 'H', 'E', 'R', 'E', ' '])
        kw 0 [] [] hnl
      have henum : Rt.enumerate (Rt.items kw) = ((Rt.items kw).zipIdx 0).map (fun p => (((p.2 : Nat) : Int), p.1)) := rfl
      rw [henum, hloop]
      have hkr : KeysResolve db kw := by
        intro k hk'
        have := (List.all_eq_true.1 hkeys) k hk'
        simp only [keyOK, Bool.and_eq_true] at this
        exact this.2
      have hsc := scan_eq_specs db kw hnl hkr
      have hemp : kw.isEmpty = false := by simpa using he
      simp only [getViaSql, hemp, Bool.false_eq_true, if_false, get_query_nf]
      cases hs : specsOf kw with
      | error e => simp only [queryResult, bind_error]
      | ok o =>
        rw [hs] at hsc
        cases o with
        | none => exact hsc.elim
        | some ss =>
          simp only [queryResult, List.nil_append, Rt.len, bind_ok]
          by_cases hmany : (ss.flatMap (·.vals)).length > Gen.SQLITE_LIMIT_VARIABLE_NUMBER
          · have : ((ss.flatMap (·.vals)).length : Int) > (Gen.SQLITE_LIMIT_VARIABLE_NUMBER : Int) := by omega
            simp only [this, hmany, if_true]; rfl
          · have : ¬ ((ss.flatMap (·.vals)).length : Int) > (Gen.SQLITE_LIMIT_VARIABLE_NUMBER : Int) := by omega
            simp only [this, hmany, if_false]
            have := run_eq db columns tn ([' ', 'W', 'H', 'E', 'R', 'E', ' '] ++ Rt.join [' ', 'A', 'N', 'D', ' '] (ss.map CondSpec.text))
              (ss.flatMap (·.vals)) hc ht (Or.inr ⟨' ', _, rfl, by decide⟩)
            simp only [selectHead, List.append_assoc] at this ⊢
            exact this
    · simp only [hkeys, if_false, Bool.false_eq_true, bind_error]

end GenGetProofs
