/-
  Helper lemmas for C07 / C11 (cluster E), part 12: Fnat and the clash count (Spec/C08) under maps of the records that
  keep identities and distance tests (rigid motion, renumbering, ignored columns), under added hydrogens and under
  reordering of the records.  Helper lemmas only.
-/
import PdbVerif.Proofs.RmsdMotion
import PdbVerif.Spec.C08

set_option linter.unusedVariables false
set_option linter.unusedSimpArgs false
set_option linter.unusedSectionVars false

namespace Proofs.Scores
open Py Spec.C08

/-! ### Fnat and the clash count under a map of the records that keeps identities and the distance tests -/

structure KeepsUpTo (ρ : Res → Res) (f : Atom → Atom) : Prop where
  inj : Function.Injective ρ
  rchain : ∀ r, (ρ r).1 = r.1
  res : ∀ a, resOf (f a) = ρ (resOf a)
  chain : ∀ a, (f a).chainID = a.chainID
  hyd : ∀ a, isHydrogen (f a) = isHydrogen a
  within : ∀ c a b, within c (f a) (f b) = within c a b
  closer : ∀ c a b, closer c (f a) (f b) = closer c a b

/-- identities kept exactly -/
abbrev Keeps (f : Atom → Atom) : Prop := KeepsUpTo id f

variable {f : Atom → Atom} {ρ : Res → Res}

theorem heavyAtoms_map (hf : KeepsUpTo ρ f) (s : List Atom) (r : Res) : heavyAtoms (s.map f) (ρ r) = (heavyAtoms s r).map f := by
  unfold heavyAtoms
  rw [List.filter_map]
  congr 2
  funext a
  have : (ρ (resOf a) = ρ r) ↔ resOf a = r := ⟨fun h => hf.inj h, fun h => by rw [h]⟩
  simp [Function.comp, hf.res, hf.hyd, this]

theorem inContact_map (hf : KeepsUpTo ρ f) (c : Rat) (s : List Atom) (r₁ r₂ : Res) :
    inContact c (s.map f) (ρ r₁) (ρ r₂) = inContact c s r₁ r₂ := by
  unfold inContact
  simp only [heavyAtoms_map hf, List.any_map, hf.rchain]
  congr 2
  funext a
  simp only [Function.comp, List.any_map]
  congr 1
  funext b; simp [Function.comp, hf.within]

theorem distinct_map_inj {α β : Type} [DecidableEq α] [DecidableEq β] {g : α → β} (hg : Function.Injective g) :
    ∀ l : List α, distinct (l.map g) = (distinct l).map g
  | [] => rfl
  | x :: xs => by
    simp only [List.map_cons, distinct, distinct_map_inj hg xs, List.filter_map]
    congr 3
    funext y
    simp [Function.comp, hg.eq_iff]

theorem residues_map (hf : KeepsUpTo ρ f) (s : List Atom) : residues (s.map f) = (residues s).map ρ := by
  unfold residues
  rw [← distinct_map_inj hf.inj, List.map_map, List.map_map]
  congr 2; funext a; exact hf.res a

theorem contacts_map (hf : KeepsUpTo ρ f) (c : Rat) (s : List Atom) :
    contacts c (s.map f) = (contacts c s).map (fun p => (ρ p.1, ρ p.2)) := by
  unfold contacts
  rw [residues_map hf, List.flatMap_map, List.map_flatMap]
  congr 1
  funext r₁
  rw [List.filter_map, List.map_map, List.map_map]
  have : ((fun r₂ => chainLt (ρ r₁).1 r₂.1 && inContact c (s.map f) (ρ r₁) r₂) ∘ ρ) =
      fun r₂ => chainLt r₁.1 r₂.1 && inContact c s r₁ r₂ := by
    funext r₂; simp [Function.comp, hf.rchain, inContact_map hf]
  rw [this]
  rfl

theorem fnat_map {ρR ρD : Res → Res} {fR fD : Atom → Atom} (hR : KeepsUpTo ρR fR) (hD : KeepsUpTo ρD fD) (hρ : ρD = ρR)
    (c : Rat) (ref dec : List Atom) : fnat c (ref.map fR) (dec.map fD) = fnat c ref dec := by
  subst hρ
  unfold fnat preserved
  rw [contacts_map hR, List.filter_map]
  have : ((fun p : Res × Res => inContact c (dec.map fD) p.1 p.2) ∘ fun p : Res × Res => (ρD p.1, ρD p.2)) =
      fun p => inContact c dec p.1 p.2 := by
    funext p; simp [Function.comp, inContact_map hD]
  rw [this]
  simp only [List.length_map, List.isEmpty_map]

theorem clashCount_map (hf : KeepsUpTo ρ f) (c : Rat) (s : List Atom) : clashCount c (s.map f) = clashCount c s := by
  unfold clashCount
  rw [List.flatMap_map]
  have : ∀ a : Atom, ((s.map f).filter (fun b => isClash c (f a) b)) = (s.filter (fun b => isClash c a b)).map f := by
    intro a
    rw [List.filter_map]
    congr 2
    funext b
    simp [Function.comp, isClash, hf.chain, hf.hyd, hf.closer]
  simp only [this]
  rw [← List.map_flatMap, List.length_map]


/-! ### hydrogens -/

/-- the non-hydrogen records -/
def heavy (s : List Atom) : List Atom := s.filter (fun a => !isHydrogen a)

theorem heavy_eq (s : List Atom) : Spec.Inv.heavy s = heavy s := rfl

theorem heavyAtoms_heavy (s : List Atom) (r : Res) : heavyAtoms (heavy s) r = heavyAtoms s r := by
  unfold heavyAtoms heavy
  rw [List.filter_filter]
  congr 1
  funext a
  cases isHydrogen a <;> simp

theorem inContact_heavy (c : Rat) (s : List Atom) (r₁ r₂ : Res) : inContact c (heavy s) r₁ r₂ = inContact c s r₁ r₂ := by
  unfold inContact; simp only [heavyAtoms_heavy]

theorem mem_distinct {α : Type} [DecidableEq α] {l : List α} {z : α} : z ∈ distinct l ↔ z ∈ l := by
  induction l with
  | nil => simp [distinct]
  | cons x xs ih =>
    simp only [distinct, List.mem_cons, List.mem_filter, ih, decide_eq_true_eq]
    by_cases h : z = x <;> simp [h]

theorem nodup_distinct {α : Type} [DecidableEq α] (l : List α) : (distinct l).Nodup := by
  induction l with
  | nil => simp [distinct]
  | cons x xs ih =>
    simp only [distinct, List.nodup_cons, List.mem_filter, decide_eq_true_eq, ne_eq, not_true_eq_false, and_false,
      not_false_eq_true, true_and]
    exact List.Nodup.sublist List.filter_sublist ih

theorem mem_contacts (c : Rat) (s : List Atom) (p : Res × Res) :
    p ∈ contacts c s ↔ p.1 ∈ residues s ∧ p.2 ∈ residues s ∧ chainLt p.1.1 p.2.1 = true ∧ inContact c s p.1 p.2 = true := by
  obtain ⟨r₁, r₂⟩ := p
  simp only [contacts, List.mem_flatMap, List.mem_map, List.mem_filter, Bool.and_eq_true, Prod.mk.injEq]
  constructor
  · rintro ⟨a, ha, b, ⟨hb, h1, h2⟩, rfl, rfl⟩; exact ⟨ha, hb, h1, h2⟩
  · rintro ⟨ha, hb, h1, h2⟩; exact ⟨r₁, ha, r₂, ⟨hb, h1, h2⟩, rfl, rfl⟩

theorem nodup_contacts (c : Rat) (s : List Atom) : (contacts c s).Nodup := by
  unfold contacts
  have hR := nodup_distinct (s.map resOf)
  unfold residues
  generalize distinct (s.map resOf) = R at hR
  have key : ∀ (L : List Res), L.Nodup →
      (L.flatMap (fun r₁ => (R.filter (fun r₂ => chainLt r₁.1 r₂.1 && inContact c s r₁ r₂)).map (fun r₂ => (r₁, r₂)))).Nodup := by
    intro L hL
    induction L with
    | nil => simp
    | cons x xs ih =>
      have hx := List.nodup_cons.mp hL
      rw [List.flatMap_cons, List.nodup_append]
      refine ⟨?_, ih hx.2, ?_⟩
      · exact (List.Nodup.sublist List.filter_sublist hR).map (fun a b h => by simpa using h)
      · intro p hp q hq hpq
        obtain ⟨b, _, rfl⟩ := List.mem_map.mp hp
        obtain ⟨y, hy, hq'⟩ := List.mem_flatMap.mp hq
        obtain ⟨b', _, rfl⟩ := List.mem_map.mp hq'
        simp only [Prod.mk.injEq] at hpq
        exact hx.1 (hpq.1 ▸ hy)
  exact key R hR

theorem has_heavy_of_inContact {c : Rat} {s : List Atom} {r₁ r₂ : Res} (h : inContact c s r₁ r₂ = true) :
    r₁ ∈ residues (heavy s) ∧ r₂ ∈ residues (heavy s) := by
  simp only [inContact, Bool.and_eq_true, List.any_eq_true, decide_eq_true_eq] at h
  obtain ⟨_, a, ha, b, hb, _⟩ := h
  simp only [heavyAtoms, List.mem_filter, Bool.and_eq_true, decide_eq_true_eq, Bool.not_eq_true'] at ha hb
  refine ⟨?_, ?_⟩
  · exact mem_distinct.mpr (List.mem_map.mpr ⟨a, List.mem_filter.mpr ⟨ha.1, by simp [ha.2.2]⟩, ha.2.1⟩)
  · exact mem_distinct.mpr (List.mem_map.mpr ⟨b, List.mem_filter.mpr ⟨hb.1, by simp [hb.2.2]⟩, hb.2.1⟩)

theorem residues_heavy_sub {s : List Atom} {r : Res} (h : r ∈ residues (heavy s)) : r ∈ residues s := by
  obtain ⟨a, ha, rfl⟩ := List.mem_map.mp (mem_distinct.mp h)
  exact mem_distinct.mpr (List.mem_map.mpr ⟨a, (List.mem_filter.mp ha).1, rfl⟩)

/-- the residue contacts are, up to order, those of the non-hydrogen records -/
theorem contacts_perm_heavy (c : Rat) (s : List Atom) : (contacts c s).Perm (contacts c (heavy s)) := by
  rw [List.perm_ext_iff_of_nodup (nodup_contacts c s) (nodup_contacts c (heavy s))]
  intro p
  rw [mem_contacts, mem_contacts, inContact_heavy]
  constructor
  · rintro ⟨_, _, h3, h4⟩
    obtain ⟨h1, h2⟩ := has_heavy_of_inContact h4
    exact ⟨h1, h2, h3, h4⟩
  · rintro ⟨h1, h2, h3, h4⟩
    exact ⟨residues_heavy_sub h1, residues_heavy_sub h2, h3, h4⟩

theorem fnat_heavy (c : Rat) (ref dec : List Atom) : fnat c ref dec = fnat c (heavy ref) (heavy dec) := by
  have hp := contacts_perm_heavy c ref
  have hq : (preserved c ref dec).Perm (preserved c (heavy ref) (heavy dec)) := by
    unfold preserved
    simp only [inContact_heavy]
    exact hp.filter _
  unfold fnat
  have e1 : (contacts c ref).isEmpty = (contacts c (heavy ref)).isEmpty := by
    rw [Bool.eq_iff_iff]
    simp only [List.isEmpty_iff]
    constructor
    · intro h; rw [h] at hp; exact (List.Perm.nil_eq hp).symm
    · intro h; rw [h] at hp; exact List.Perm.eq_nil hp
  rw [e1, hp.length_eq, hq.length_eq]

theorem clashCount_heavy (c : Rat) (s : List Atom) : clashCount c s = clashCount c (heavy s) := by
  unfold clashCount
  have h1 : ∀ a : Atom, s.filter (fun b => isClash c a b) = (heavy s).filter (fun b => isClash c a b) := by
    intro a
    unfold heavy
    rw [List.filter_filter]
    congr 1
    funext b
    unfold isClash
    cases isHydrogen b <;> simp
  have h2 : ∀ (l : List Atom) (F : Atom → List Atom), (∀ a, isHydrogen a = true → F a = []) →
      l.flatMap F = (l.filter (fun a => !isHydrogen a)).flatMap F := by
    intro l F hF
    induction l with
    | nil => rfl
    | cons x xs ih =>
      rw [List.flatMap_cons, List.filter_cons]
      cases hx : isHydrogen x
      · simp [ih]
      · simp [hF x hx, ih]
  simp only [h1]
  rw [h2 s _ (fun a ha => by
    apply List.filter_eq_nil_iff.mpr
    intro b _
    simp [isClash, ha])]
  rfl

/-- **Hydrogens are ignored**: adding hydrogen records anywhere (the non-hydrogen records staying as they are) changes
    neither Fnat nor the clash count -/
theorem fnat_hydrogens (c : Rat) {ref ref' dec dec' : List Atom} (hr : heavy ref' = heavy ref) (hd : heavy dec' = heavy dec) :
    fnat c ref' dec' = fnat c ref dec := by
  rw [fnat_heavy c ref' dec', fnat_heavy c ref dec, hr, hd]

theorem clashCount_hydrogens (c : Rat) {s s' : List Atom} (h : heavy s' = heavy s) : clashCount c s' = clashCount c s := by
  rw [clashCount_heavy c s', clashCount_heavy c s, h]


/-! ### reordering the records -/

theorem inContact_perm {s s' : List Atom} (h : s'.Perm s) (c : Rat) (r₁ r₂ : Res) : inContact c s' r₁ r₂ = inContact c s r₁ r₂ := by
  unfold inContact
  have h1 : (heavyAtoms s' r₁).Perm (heavyAtoms s r₁) := h.filter _
  have h2 : (heavyAtoms s' r₂).Perm (heavyAtoms s r₂) := h.filter _
  simp only
  rw [Proofs.Rmsd.any_perm h1]
  congr 2
  funext a
  rw [Proofs.Rmsd.any_perm h2]

theorem mem_residues_perm {s s' : List Atom} (h : s'.Perm s) (r : Res) : r ∈ residues s' ↔ r ∈ residues s := by
  unfold residues
  rw [mem_distinct, mem_distinct]
  exact (h.map _).mem_iff

theorem contacts_perm {s s' : List Atom} (h : s'.Perm s) (c : Rat) : (contacts c s').Perm (contacts c s) := by
  rw [List.perm_ext_iff_of_nodup (nodup_contacts c s') (nodup_contacts c s)]
  intro p
  rw [mem_contacts, mem_contacts, mem_residues_perm h, mem_residues_perm h, inContact_perm h]

theorem fnat_perm {ref ref' dec dec' : List Atom} (hr : ref'.Perm ref) (hd : dec'.Perm dec) (c : Rat) :
    fnat c ref' dec' = fnat c ref dec := by
  have hp := contacts_perm hr c
  have hq : (preserved c ref' dec').Perm (preserved c ref dec) := by
    unfold preserved
    simp only [inContact_perm hd]
    exact hp.filter _
  unfold fnat
  have e1 : (contacts c ref').isEmpty = (contacts c ref).isEmpty := by
    rw [Bool.eq_iff_iff]
    simp only [List.isEmpty_iff]
    constructor
    · intro h; rw [h] at hp; exact (List.Perm.nil_eq hp).symm
    · intro h; rw [h] at hp; exact List.Perm.eq_nil hp
  rw [e1, hp.length_eq, hq.length_eq]

theorem clashCount_perm {s s' : List Atom} (h : s'.Perm s) (c : Rat) : clashCount c s' = clashCount c s := by
  unfold clashCount
  apply List.Perm.length_eq
  exact List.Perm.flatMap h (fun a _ => h.filter _)

/-! ### instances: rigid motion; the ignored columns -/

open Proofs.Rmsd Proofs.Motion Spec.Rmsd Spec.Inv Model Model.Rmsd

theorem sqDist_eq (a b : Atom) : Spec.C08.sqDist a b = Vec3.normSq (Vec3.sub (posOf a) (posOf b)) := by
  simp only [Spec.C08.sqDist, Vec3.normSq, Vec3.dot, Vec3.sub, posOf]

theorem keeps_moveAtom {g : Motion Rat} (hg : g.IsRigid) : Keeps (moveAtom g) where
  inj := Function.injective_id
  rchain _ := rfl
  res _ := rfl
  chain _ := rfl
  hyd _ := rfl
  within c a b := by
    unfold Spec.C08.within
    rw [sqDist_eq, sqDist_eq, moveAtom_moves g a, moveAtom_moves g b, normSq_apply_sub hg]
  closer c a b := by
    unfold Spec.C08.closer
    rw [sqDist_eq, sqDist_eq, moveAtom_moves g a, moveAtom_moves g b, normSq_apply_sub hg]

/-- the record with the ignored fields blanked -/
def strip (a : Atom) : Atom := { a with serial := 0, occ := 0, temp := 0, element := [] }

theorem strip_eq_of_same {a b : Atom} (h : sameButIgnored a b = true) : strip a = strip b := by
  simp only [sameButIgnored, Bool.and_eq_true, decide_eq_true_eq] at h
  obtain ⟨⟨⟨⟨⟨⟨⟨⟨⟨h1, h2⟩, h3⟩, h4⟩, h5⟩, h6⟩, h7⟩, h8⟩, h9⟩, h10⟩ := h
  cases a; cases b
  simp only [strip] at *
  simp_all

theorem map_strip_of_same : ∀ {t t' : List Atom}, SameButIgnored t t' → t.map strip = t'.map strip
  | [], [], _ => rfl
  | [], _ :: _, h => by simp [SameButIgnored, sameButIgnoredAll] at h
  | _ :: _, [], h => by simp [SameButIgnored, sameButIgnoredAll] at h
  | a :: t, b :: t', h => by
    simp only [SameButIgnored, sameButIgnoredAll, Bool.and_eq_true] at h
    simp only [List.map_cons, strip_eq_of_same h.1, map_strip_of_same (t := t) (t' := t') h.2]

theorem strip_id : IdPreserving strip := ⟨fun _ => rfl, fun _ => rfl, fun _ => rfl, fun _ => rfl⟩
theorem strip_moves : MovesBy strip id := fun _ => rfl
theorem strip_cutoff (c : Rat) : KeepsCutoff strip c := fun _ _ => rfl
theorem keeps_strip : Keeps strip := ⟨Function.injective_id, fun _ => rfl, fun _ => rfl, fun _ => rfl, fun _ => rfl, fun _ _ _ => rfl, fun _ _ _ => rfl⟩

def shiftRes (δ : Int) (r : Res) : Res := (r.1, r.2 + δ)

theorem keeps_shift (δ : Int) : KeepsUpTo (shiftRes δ) (shiftAtom δ) where
  inj := by
    rintro ⟨a1, a2⟩ ⟨b1, b2⟩ h
    simp only [shiftRes, Prod.mk.injEq] at h ⊢
    exact ⟨h.1, by omega⟩
  rchain _ := rfl
  res _ := rfl
  chain _ := rfl
  hyd _ := rfl
  within _ _ _ := rfl
  closer _ _ _ := rfl

theorem mapOutcome_id (o : Outcome) : mapOutcome id id o = o := by
  have : mapPair id id = id := by funext p; rfl
  cases o <;> simp [mapOutcome, this]

theorem rawMoved_refl {lines : List Str} {P : List Pt} (h : rawPts lines = .ok P) : RawMoved lines lines id :=
  ⟨⟨P, h, by rw [h]; congr 1; exact (List.map_id _).symm⟩⟩

/-- files and tables that differ in the ignored columns / fields only: the fast routines return the same thing -/
theorem irmsdFast_ignores {dl dl' rl rl' : List Str} {dec dec' ref ref' : List Atom}
    (hdl : List.Forall₂ LineSameButIgnored dl dl') (hrl : List.Forall₂ LineSameButIgnored rl rl')
    (sd : dec.map strip = dec'.map strip) (sr : ref.map strip = ref'.map strip) (src : ZoneSrc) (c : Rat) (check enforce : Bool) :
    irmsdFast dl' rl' (.ok dec') (.ok ref') src c check enforce = irmsdFast dl rl (.ok dec) (.ok ref) src c check enforce := by
  rw [irmsdFast_lines (rawKeys_ignores hdl) (rawPts_ignores hdl) (rawKeys_ignores hrl) (rawPts_ignores hrl),
    ← irmsdFast_tables strip_id strip_id c (strip_cutoff c) dl rl dec' ref',
    ← irmsdFast_tables strip_id strip_id c (strip_cutoff c) dl rl dec ref, sd, sr]

theorem lrmsdFast_ignores {dl dl' rl rl' : List Str} {dec dec' ref ref' : List Atom}
    (hdl : List.Forall₂ LineSameButIgnored dl dl') (hrl : List.Forall₂ LineSameButIgnored rl rl')
    (sd : dec.map strip = dec'.map strip) (sr : ref.map strip = ref'.map strip) (src : ZoneSrc) (check enforce : Bool) :
    lrmsdFast dl' rl' (.ok dec') (.ok ref') src check enforce = lrmsdFast dl rl (.ok dec) (.ok ref) src check enforce := by
  rw [lrmsdFast_lines (rawKeys_ignores hdl) (rawPts_ignores hdl) (rawKeys_ignores hrl) (rawPts_ignores hrl),
    ← lrmsdFast_tables strip_id strip_id dl rl dec' ref',
    ← lrmsdFast_tables strip_id strip_id dl rl dec ref, sd, sr]

theorem commonBackbone_strip (dec ref : List Atom) (sel sel' : Atom → Bool) (hsel : ∀ r ∈ ref, sel' (strip r) = sel r) :
    commonBackbone (dec.map strip) (ref.map strip) sel' = commonBackbone dec ref sel := by
  have h := commonBackbone_map (fD := strip) (fR := strip) (kf := id) (pd := id) (pr := id) (fun _ _ h => h)
    (fun _ => rfl) (fun _ => rfl) (fun _ => rfl) (fun _ => rfl) (fun _ => rfl) dec ref sel sel' hsel
  rw [h]
  conv_rhs => rw [← List.map_id (commonBackbone dec ref sel)]
  rfl

theorem atInterface_strip (ref : List Atom) (c : Rat) (ch : Str) (rs : Int) :
    atInterface (ref.map strip) c ch rs = atInterface ref c ch rs := by
  have := atInterface_map (f := strip) 0 (fun _ => rfl) (fun a => by simp [strip]) c (fun _ _ => rfl) ref ch rs
  simpa using this

/-- the definition's pairs do not look at the ignored fields -/
theorem pairs_ignores {dec dec' ref ref' : List Atom} (sd : dec.map strip = dec'.map strip) (sr : ref.map strip = ref'.map strip)
    (c : Rat) :
    interfacePairs dec' ref' c = interfacePairs dec ref c ∧ ligandFitPairs dec' ref' = ligandFitPairs dec ref ∧
    ligandEvalPairs dec' ref' = ligandEvalPairs dec ref := by
  have hI : ∀ D R : List Atom, interfacePairs (D.map strip) (R.map strip) c = interfacePairs D R c := by
    intro D R
    unfold interfacePairs
    exact commonBackbone_strip D R _ _ (fun r _ => atInterface_strip R c r.chainID r.resSeq)
  have hls : ∀ R : List Atom, longShort (R.map strip) = longShort R := fun R => longShort_map (f := strip) (fun _ => rfl) R
  have hF : ∀ D R : List Atom, ligandFitPairs (D.map strip) (R.map strip) = ligandFitPairs D R := by
    intro D R
    unfold ligandFitPairs
    rw [hls]
    cases longShort R with
    | none => rfl
    | some ls => exact commonBackbone_strip D R _ _ (fun _ _ => rfl)
  have hE : ∀ D R : List Atom, ligandEvalPairs (D.map strip) (R.map strip) = ligandEvalPairs D R := by
    intro D R
    unfold ligandEvalPairs
    rw [hls]
    cases longShort R with
    | none => rfl
    | some ls => exact commonBackbone_strip D R _ _ (fun _ _ => rfl)
  refine ⟨?_, ?_, ?_⟩
  · rw [← hI dec' ref', ← hI dec ref, sd, sr]
  · rw [← hF dec' ref', ← hF dec ref, sd, sr]
  · rw [← hE dec' ref', ← hE dec ref, sd, sr]

end Proofs.Scores
