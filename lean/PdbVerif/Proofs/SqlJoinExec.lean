/-
  C19 side of the SQL tie, part 3: the join statement of the translated builder, executed by MicroSql (`execJoin`: table
  names and `t.c` resolved by position, ON conditions on index pairs), is the model's nested-loop join `Model.joinRows`
  projected table by table on the selected columns.
-/
import PdbVerif.Proofs.SqlJoinParse
import PdbVerif.Proofs.TableJoin

set_option linter.unusedVariables false
set_option linter.unusedSimpArgs false

namespace SqlProofs
open Tbl Model MicroSql GenSql

/-! ### index pairs -/

theorem pairsOf_map {α β : Type} (f : α → β) : ∀ (l : List α), pairsOf (l.map f) = (pairsOf l).map (fun p => (f p.1, f p.2))
  | [] => rfl
  | a :: t => by simp [pairsOf, pairsOf_map f t, List.map_map, Function.comp_def]

theorem range_map_getD {α : Type} (l : List α) (d : α) : (List.range l.length).map (fun i => l.getD i d) = l := by
  apply List.ext_getElem
  · simp
  · intro i h1 h2; simp [List.getD_eq_getElem?_getD, List.getElem?_eq_getElem h2]

/-- the pairs of a list are the pairs of indices, looked up -/
theorem pairsOf_idx {α : Type} (l : List α) (d : α) :
    pairsOf l = (pairsOf (List.range l.length)).map (fun p => (l.getD p.1 d, l.getD p.2 d)) := by
  conv_lhs => rw [← range_map_getD l d]
  rw [pairsOf_map]

theorem mem_pairsOf_range (n : Nat) (p : Nat × Nat) (h : p ∈ pairsOf (List.range n)) : p.1 < n ∧ p.2 < n := by
  obtain ⟨h1, h2⟩ := mem_pairsOf _ p h
  exact ⟨List.mem_range.1 h1, List.mem_range.1 h2⟩

theorem onClause_pairs (m : List StdCol) : ∀ (tup : List Row), onClause m tup = (pairsOf tup).all (fun p => sameKey m p.1 p.2)
  | [] => rfl
  | r :: rest => by
    simp only [onClause, pairsOf, List.all_append, List.all_map, onClause_pairs m rest, Function.comp_def]

theorem all_swap {α β : Type} (l1 : List α) (l2 : List β) (R : α → β → Bool) :
    l1.all (fun a => l2.all (fun b => R a b)) = l2.all (fun b => l1.all (fun a => R a b)) := by
  rw [Bool.eq_iff_iff]
  simp only [List.all_eq_true]
  constructor
  · intro h b hb a ha; exact h a ha b hb
  · intro h a ha b hb; exact h b hb a ha

theorem all_congr_mem {α : Type} (l : List α) (p q : α → Bool) (h : ∀ x ∈ l, p x = q x) : l.all p = l.all q := by
  induction l with
  | nil => rfl
  | cons a t ih => simp only [List.all_cons, h a (by simp), ih (fun x hx => h x (by simp [hx]))]

/-- the ON conditions of the statement, on index pairs -/
def idxEqs (m : List StdCol) (n : Nat) : List (Nat × Nat × StdCol) :=
  m.flatMap (fun s => (pairsOf (List.range n)).map (fun p => (p.1, p.2, s)))

theorem idxEqs_holds (m : List StdCol) (tup : List Row) :
    (idxEqs m tup.length).all (eqHolds tup) = onClause m tup := by
  rw [onClause_pairs, pairsOf_idx tup default]
  unfold idxEqs sameKey
  simp only [List.all_flatMap, List.all_map, Function.comp_def]
  rw [all_swap]
  apply all_congr_mem
  intro p hp
  obtain ⟨h1, h2⟩ := mem_pairsOf_range _ p hp
  apply all_congr_mem
  intro s _
  simp only [eqHolds, List.getElem?_eq_getElem h1, List.getElem?_eq_getElem h2, List.getD_eq_getElem?_getD, Option.getD_some]


/-! ### looking a tuple up by table index -/

def onOpt {α β : Type} (o : Option α) (f : α → List β) : List β :=
  match o with
  | some r => f r
  | none => []

theorem flatMap_range' {α β : Type} (f : α → List β) : ∀ (l pre : List α),
    (List.range' pre.length l.length).flatMap (fun i => onOpt (pre ++ l)[i]? f) = l.flatMap f
  | [], pre => by simp
  | a :: t, pre => by
    have ih := flatMap_range' f t (pre ++ [a])
    simp only [List.length_append, List.length_singleton, List.append_assoc, List.singleton_append] at ih
    simp only [List.length_cons, List.range'_succ, List.flatMap_cons, ih]
    simp [onOpt]

theorem flatMap_range_getElem {α β : Type} (f : α → List β) (l : List α) :
    (List.range l.length).flatMap (fun i => onOpt l[i]? f) = l.flatMap f := by
  have := flatMap_range' f l []
  simpa [List.range_eq_range'] using this

/-! ### resolving the names of the statement -/

/-- the database of a `many2sql` as the join theorems need it: no added columns; the table names resolve to the tables,
    each to its own position (names pairwise different as SQL identifiers) -/
structure JoinDb (db : Db) : Prop where
  noExtra : db.extra = []
  find : (db.tabs.map (·.name)).mapM (findTab db) = some db.tabs
  idx : ∀ (i : Nat) (t : Tab), db.tabs[i]? = some t → tabIdx (db.tabs.map (·.name)) t.name = some i

/-- the name is not one of SQLite's names for the rowid -/
def NoAlias (k : Py.Str) : Prop := rowidAliases.contains (Py.lower k) = false

theorem sqlCol_std (db : Db) (hx : db.extra = []) (k : Py.Str) (hk : NoAlias k) : sqlCol db k = (matchCol k).map Col.std := by
  unfold sqlCol matchCol NoAlias at *
  cases h : StdCol.all.find? (fun c => ciEq c.pyName k) with
  | some c => rfl
  | none =>
    simp only [Db.extraNames, hx, List.map_nil, List.findIdx?_nil, hk, Bool.false_eq_true, if_false, Option.map_none]

theorem strip_name (p : Py.Str) (hp : isName p = true) : Py.strip p = p :=
  strip_padded p p ⟨[], [], by simp, by simp, by simp⟩ hp

theorem mapM_flatMap_ok {ε α β γ : Type} (f : β → Except ε γ) (g : α → List β) (h : α → List γ) : ∀ (l : List α),
    (∀ a ∈ l, (g a).mapM f = .ok (h a)) → (l.flatMap g).mapM f = .ok (l.flatMap h)
  | [], _ => rfl
  | a :: t, hh => by
    simp only [List.flatMap_cons, List.mapM_append, hh a (by simp), mapM_flatMap_ok f g h t (fun x hx => hh x (by simp [hx])),
      bind, Except.bind, pure, Except.pure]

theorem mapM_flatMap_err {ε α β γ : Type} (f : β → Except ε γ) (g : α → List β) (e : ε) (a : α) (t : List α)
    (h : (g a).mapM f = .error e) : ((a :: t).flatMap g).mapM f = .error e := by
  simp only [List.flatMap_cons, List.mapM_append, h, bind, Except.bind]

/-- what one piece of the column string selects from every table -/
def colOf (db : Db) (c : Py.Str) : Except Model.Err (List Col) :=
  if c = ['*'] then .ok (starCols [])
  else match matchCol c with
    | some s => .ok [.std s]
    | none => .error .operational

theorem resolveField_eq (db : Db) (hx : db.extra = []) (names : List Py.Str) (n c : Py.Str) (i : Nat) (hi : tabIdx names n = some i)
    (hc : c = ['*'] ∨ NoAlias c) : resolveField db names (fieldOf (n, c)) = (colOf db c).map (fun cs => (i, cs)) := by
  unfold resolveField fieldOf colOf
  simp only [hi]
  by_cases hs : c = ['*']
  · simp [hs, Db.extraNames, hx, Except.map]
  · have hna : NoAlias c := by rcases hc with h | h; exact absurd h hs; exact h
    simp only [hs, if_false, sqlCol_std db hx c hna]
    cases matchCol c <;> simp [Except.map]

theorem mapM_map_ok {ε α β γ : Type} (f : α → Except ε β) (g : β → γ) (l : List α) :
    l.mapM (fun x => (f x).map g) = (l.mapM f).map (List.map g) := (mapM_post f g l).symm


theorem flatMap_zipIdx_fst {α β : Type} (g : α → List β) (l : List α) : l.flatMap g = l.zipIdx.flatMap (fun ni => g ni.1) := by
  conv_lhs => rw [← List.zipIdx_map_fst 0 l]
  rw [List.flatMap_map]

theorem per_table_fields (db : Db) (hx : db.extra = []) (names pieces : List Py.Str) (n : Py.Str) (i : Nat)
    (hi : tabIdx names n = some i) (hp : ∀ c ∈ pieces, c = ['*'] ∨ NoAlias c) :
    ((pieces.map (fun c => (n, c))).map fieldOf).mapM (resolveField db names) =
      (pieces.mapM (colOf db)).map (List.map (fun cs => (i, cs))) := by
  rw [List.map_map, List.mapM_map, ← mapM_map_ok]
  apply mapM_congr_mem
  intro c hc
  exact resolveField_eq db hx names n c i hi (hp c hc)

theorem fields_resolve_ok (db : Db) (hx : db.extra = []) (names pieces : List Py.Str)
    (hidx : ∀ ni ∈ names.zipIdx, tabIdx names ni.1 = some ni.2) (hp : ∀ c ∈ pieces, c = ['*'] ∨ NoAlias c)
    (colss : List (List Col)) (hc : pieces.mapM (colOf db) = .ok colss) :
    ((names.flatMap (fun n => pieces.map (fun c => (n, c)))).map fieldOf).mapM (resolveField db names) =
      .ok (names.zipIdx.flatMap (fun ni => colss.map (fun cs => (ni.2, cs)))) := by
  rw [flatMap_zipIdx_fst, List.map_flatMap]
  apply mapM_flatMap_ok
  intro ni hni
  rw [per_table_fields db hx names pieces ni.1 ni.2 (hidx ni hni) hp, hc]; rfl

theorem fields_resolve_err (db : Db) (hx : db.extra = []) (names pieces : List Py.Str) (hne : names ≠ [])
    (hidx : ∀ ni ∈ names.zipIdx, tabIdx names ni.1 = some ni.2) (hp : ∀ c ∈ pieces, c = ['*'] ∨ NoAlias c)
    (e : Model.Err) (hc : pieces.mapM (colOf db) = .error e) :
    ((names.flatMap (fun n => pieces.map (fun c => (n, c)))).map fieldOf).mapM (resolveField db names) = .error e := by
  rw [flatMap_zipIdx_fst, List.map_flatMap]
  cases hz : names.zipIdx with
  | nil => simp at hz; exact absurd hz hne
  | cons ni t =>
    apply mapM_flatMap_err
    rw [per_table_fields db hx names pieces ni.1 ni.2 (hidx ni (by rw [hz]; simp)) hp, hc]; rfl

/-- the projection of a tuple on the resolved fields: table by table, the columns of its row -/
theorem fields_project (names : List Py.Str) (colss : List (List Col)) (tup : List Row) (hlen : tup.length = names.length) :
    (names.zipIdx.flatMap (fun ni => colss.map (fun cs => (ni.2, cs)))).flatMap (fieldVals tup) =
      tup.flatMap (fun r => colss.flatten.map (fun c => cell c 0 r)) := by
  rw [List.flatMap_assoc]
  have h1 : ∀ i : Nat, (colss.map (fun cs => (i, cs))).flatMap (fieldVals tup) =
      onOpt tup[i]? (fun r => colss.flatten.map (fun c => cell c 0 r)) := by
    intro i
    unfold fieldVals onOpt
    cases h : tup[i]? with
    | none => simp [h]
    | some r => simp [h, List.flatMap_map, List.map_flatten, List.flatMap_def, Function.comp_def]
  simp only [h1]
  have h2 : names.zipIdx.flatMap (fun ni => onOpt tup[ni.2]? (fun r => colss.flatten.map (fun c => cell c 0 r))) =
      (names.zipIdx.map Prod.snd).flatMap (fun i => onOpt tup[i]? (fun r => colss.flatten.map (fun c => cell c 0 r))) := by
    rw [List.flatMap_map]
  rw [h2, List.zipIdx_map_snd, ← hlen, ← List.range_eq_range', flatMap_range_getElem]


theorem resolveEq_ok (db : Db) (hx : db.extra = []) (names : List Py.Str) (a : Py.Str) (s : StdCol) (ha : NoAlias a)
    (hs : matchCol a = some s) (n1 n2 : Py.Str) (i1 i2 : Nat) (h1 : tabIdx names n1 = some i1) (h2 : tabIdx names n2 = some i2) :
    resolveEq db names (eqOf (a, (n1, n2))) = .ok (i1, i2, s) := by
  simp [resolveEq, eqOf, h1, h2, sqlCol_std db hx a ha, hs]

theorem eqs_resolve (db : Db) (hx : db.extra = []) (names : List Py.Str)
    (hidx : ∀ i, i < names.length → tabIdx names (names.getD i default) = some i) :
    ∀ (mnames : List Py.Str) (m : List StdCol), List.Forall₂ (fun a s => matchCol a = some s) mnames m → (∀ a ∈ mnames, NoAlias a) →
    ((mnames.flatMap (fun a => (pairsOf names).map (fun p => (a, p)))).map eqOf).mapM (resolveEq db names) =
      .ok (idxEqs m names.length) := by
  intro mnames m hf hna
  rw [List.map_flatMap]
  unfold idxEqs
  induction hf with
  | nil => rfl
  | @cons a s t m' hs _ ih =>
    simp only [List.flatMap_cons, List.mapM_append]
    have hhead : (((pairsOf names).map (fun p => (a, p))).map eqOf).mapM (resolveEq db names) =
        .ok ((pairsOf (List.range names.length)).map (fun p => (p.1, p.2, s))) := by
      rw [pairsOf_idx names default, List.map_map, List.map_map, List.mapM_map]
      apply mapM_ok_of
      intro p hp
      obtain ⟨h1, h2⟩ := mem_pairsOf_range _ p hp
      exact resolveEq_ok db hx names a s (hna a (by simp)) hs _ _ p.1 p.2 (hidx p.1 h1) (hidx p.2 h2)
    rw [hhead, ih (fun x hx' => hna x (by simp [hx']))]
    rfl


/-! ### MicroSql's join = the model's nested-loop join -/

theorem cartesian_length (Ts : List Table) (tup : List Row) (h : tup ∈ cartesian Ts) : tup.length = Ts.length :=
  ((JoinProofs.mem_cartesian Ts tup).1 h).length_eq

/-- **the join statement of the translated builder, executed by MicroSql**: the model's joined tuples (`Model.joinRows`,
    nested loops, first table outermost), each projected table by table on the selected columns -/
theorem execJoin_eq (db : Db) (hdb : JoinDb db) (pieces mnames : List Py.Str) (m : List StdCol) (colss : List (List Col))
    (hp : ∀ c ∈ pieces, c = ['*'] ∨ NoAlias c) (hcs : pieces.mapM (colOf db) = .ok colss)
    (hm : List.Forall₂ (fun a s => matchCol a = some s) mnames m) (hna : ∀ a ∈ mnames, NoAlias a) :
    execJoin db ((db.tabs.map (·.name)).flatMap (fun n => pieces.map (fun c => (n, c))) |>.map fieldOf) (db.tabs.map (·.name))
        ((mnames.flatMap (fun a => (pairsOf (db.tabs.map (·.name))).map (fun p => (a, p)))).map eqOf) =
      .ok ((joinRows m (db.tabs.map (·.rows))).map (fun tup => tup.flatMap (fun r => colss.flatten.map (fun c => cell c 0 r)))) := by
  have hx := hdb.noExtra
  obtain ⟨names, hnames⟩ : ∃ names, names = db.tabs.map (·.name) := ⟨_, rfl⟩
  have hfind : names.mapM (findTab db) = some db.tabs := by rw [hnames]; exact hdb.find
  rw [← hnames]
  have hidx1 : ∀ ni ∈ names.zipIdx, tabIdx names ni.1 = some ni.2 := by
    intro ni hni
    have := List.mem_zipIdx_iff_getElem?.1 hni
    simp only [hnames, List.getElem?_map, Nat.zero_add, Option.map_eq_some_iff] at this
    obtain ⟨t, ht, hn⟩ := this
    rw [← hn, hnames]; exact hdb.idx ni.2 t (by simpa using ht)
  have hidx2 : ∀ i, i < names.length → tabIdx names (names.getD i default) = some i := by
    intro i hi
    have hmem : (names[i], i) ∈ names.zipIdx := List.mem_zipIdx_iff_getElem?.2 (by simp [List.getElem?_eq_getElem hi])
    have := hidx1 _ hmem
    simpa [List.getD_eq_getElem?_getD, List.getElem?_eq_getElem hi] using this
  have hlenT : (db.tabs.map (·.rows)).length = names.length := by simp [hnames]
  unfold execJoin
  simp only [hx, List.isEmpty_nil, Bool.not_true, Bool.false_eq_true, if_false, hfind,
    fields_resolve_ok db hx names pieces hidx1 hp colss hcs, eqs_resolve db hx names hidx2 mnames m hm hna, bind, Except.bind, pure,
    Except.pure]
  unfold joinRows
  congr 1
  have hfilter : (cartesian (db.tabs.map (·.rows))).filter (fun tup => (idxEqs m names.length).all (eqHolds tup)) =
      (cartesian (db.tabs.map (·.rows))).filter (onClause m) := by
    apply List.filter_congr
    intro tup htup
    have := cartesian_length _ tup htup
    rw [← idxEqs_holds m tup, this, hlenT]
  rw [hfilter]
  apply List.map_congr_left
  intro tup htup
  have hl := cartesian_length _ tup (List.mem_filter.1 htup).1
  exact fields_project names colss tup (by rw [hl, hlenT])

end SqlProofs
