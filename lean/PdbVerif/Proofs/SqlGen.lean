/-
  Normal forms of the translated units of Gen/Sql.lean (the loop body of `get`, the loop, the generic query): each
  generated definition is rewritten once, by `simp` / case analysis, into a closed form (`condStep`, `specsOf`,
  `queryResult`); everything else is built on the closed forms, not on the generated text.
-/
import PdbVerif.Proofs.TableBasic
import PdbVerif.Gen.Sql
import PdbVerif.Model.MicroSql

set_option linter.unusedVariables false
set_option linter.unusedSimpArgs false

namespace SqlProofs
open Tbl Model GenSql

abbrev GErr := GenSql.Err

/-- `','.join('?' * n)` -/
def qmarks (n : Nat) : Py.Str := Rt.join [','] (Rt.chars (Py.rep ['?'] (n : Int)))

/-- the text of one condition: `k + neg + ' in (' + ','.join('?' * nv) + ')'` -/
def condText (k : Py.Str) (neg : Bool) (n : Nat) : Py.Str :=
  k ++ (if neg then [' ', 'N', 'O', 'T'] else []) ++ [' ', 'i', 'n', ' ', '('] ++ qmarks n ++ [')']

/-- `int(v + 1)` as the translation writes it -/
def genPlus1 (v : Val) : Except GErr Val := ((Rt.addInt v 1).bind Rt.int).map Val.int

/-- the values a condition binds: `int(v + 1)` on a rowID condition -/
def genVals (k : Py.Str) (a : Arg) : Except GErr (List Val) :=
  if k = rowIDName then a.vals.mapM genPlus1 else .ok a.vals

theorem sliceFrom3 (k : Py.Str) : Py.sliceFrom k 3 = k.drop 3 := by
  unfold Py.sliceFrom Py.normIdx
  simp only [show ¬ ((3 : Int) < 0) by omega, if_false]
  by_cases h : 3 ≤ k.length
  · rw [Nat.min_eq_left (by simpa using h)]; rfl
  · have : k.length ≤ 3 := by omega
    rw [show (3 : Int).toNat = 3 from rfl, Nat.min_eq_right this, List.drop_of_length_le (le_refl _), List.drop_of_length_le this]

theorem mapM_post {ε α β γ : Type} (f : α → Except ε β) (g : β → γ) (l : List α) :
    (l.mapM f).map (List.map g) = l.mapM (fun x => (f x).map g) := by
  induction l with
  | nil => rfl
  | cons a t ih =>
    simp only [List.mapM_cons, bind, Except.bind, pure, Except.pure]
    rw [← ih]
    cases f a with
    | error e => rfl
    | ok y => cases List.mapM f t <;> rfl

theorem mapM_genPlus1 (vs : List Val) :
    List.mapM genPlus1 vs = (List.mapM (fun iv => (do let t1 ← Rt.addInt iv 1; Rt.int t1 : Except GErr Int)) vs).map (List.map Val.int) := by
  rw [mapM_post]; rfl

/-- what one turn of the loop over `kwargs.items()` does -/
def condStep (k : Py.Str) (v : Arg) (vals : List Val) (conds : List Py.Str) :
    Except GErr (Flow (List Val × List Py.Str) Unit) :=
  if isLong v then .ok (.ret ())
  else (genVals (stripNo k).2 v).map (fun t => .cont (vals ++ t, conds ++ [condText (stripNo k).2 (stripNo k).1 v.vals.length]))

theorem len_gt (vs : List Val) : (Rt.len vs > (Gen.max_sql_values : Int)) ↔ vs.length > Gen.max_sql_values := by
  unfold Rt.len; omega

theorem rowID_lit : (['r', 'o', 'w', 'I', 'D'] : Py.Str) = rowIDName := rfl

theorem get_cond_nf (k : Py.Str) (v : Arg) (vals : List Val) (conds : List Py.Str) :
    get_cond k v vals conds = condStep k v vals conds := by
  unfold get_cond condStep
  by_cases hp : Py.startsWith k ['n', 'o', '_'] = true
  · have hs : stripNo k = (true, k.drop 3) := by
      unfold stripNo; rw [if_pos (by simpa [Py.startsWith] using hp)]
    cases v with
    | list vs =>
      by_cases hl : vs.length > Gen.max_sql_values
      · simp [hp, hs, isLong, len_gt, hl, pure, Except.pure]
      · by_cases hr : k.drop 3 = rowIDName
        · simp only [hp, hs, isLong, len_gt, hl, hr, sliceFrom3, genVals, if_true, if_false, Arg.vals, rowID_lit]
          rw [mapM_genPlus1]
          cases List.mapM (fun iv => (do let t1 ← Rt.addInt iv 1; Rt.int t1 : Except GErr Int)) vs <;>
            simp [condText, qmarks, Rt.len, bind, Except.bind, pure, Except.pure, Except.map]
        · simp [hp, hs, isLong, len_gt, hl, hr, sliceFrom3, genVals, Arg.vals, rowID_lit, condText, qmarks, Rt.len, pure, Except.pure, Except.map]
    | scalar x =>
      by_cases hr : k.drop 3 = rowIDName
      · simp only [hp, hs, isLong, hr, sliceFrom3, genVals, if_true, if_false, Arg.vals, rowID_lit, genPlus1, List.mapM_cons, List.mapM_nil]
        cases h1 : Rt.addInt x 1 with
        | error e => simp [bind, Except.bind, Except.map]
        | ok t => cases h2 : Rt.int t <;> simp [bind, Except.bind, Except.map, h2, pure, Except.pure, condText, qmarks]
      · simp [hp, hs, isLong, hr, sliceFrom3, genVals, Arg.vals, rowID_lit, condText, qmarks, Rt.len, pure, Except.pure, Except.map]
  · have hs : stripNo k = (false, k) := by
      unfold stripNo; rw [if_neg (by simpa [Py.startsWith] using hp)]
    cases v with
    | list vs =>
      by_cases hl : vs.length > Gen.max_sql_values
      · simp [hp, hs, isLong, len_gt, hl, pure, Except.pure]
      · by_cases hr : k = rowIDName
        · subst hr
          simp only [hp, hs, isLong, len_gt, hl, genVals, if_true, if_false, Arg.vals, rowID_lit]
          rw [mapM_genPlus1]
          cases List.mapM (fun iv => (do let t1 ← Rt.addInt iv 1; Rt.int t1 : Except GErr Int)) vs <;>
            simp [condText, qmarks, Rt.len, bind, Except.bind, pure, Except.pure, Except.map]
        · simp [hp, hs, isLong, len_gt, hl, hr, genVals, Arg.vals, rowID_lit, condText, qmarks, Rt.len, pure, Except.pure, Except.map]
    | scalar x =>
      by_cases hr : k = rowIDName
      · subst hr
        simp only [hp, hs, isLong, genVals, if_true, if_false, Arg.vals, rowID_lit, genPlus1, List.mapM_cons, List.mapM_nil]
        cases h1 : Rt.addInt x 1 with
        | error e => simp [bind, Except.bind, Except.map]
        | ok t => cases h2 : Rt.int t <;> simp [bind, Except.bind, Except.map, h2, pure, Except.pure, condText, qmarks]
      · simp [hp, hs, isLong, hr, genVals, Arg.vals, rowID_lit, condText, qmarks, Rt.len, pure, Except.pure, Except.map]


/-! ### the loop and the generic query -/

/-- one translated condition: the key without `no_`, the negation, the bound values -/
structure CondSpec where
  name : Py.Str
  neg : Bool
  vals : List Val
  deriving Repr

def CondSpec.text (c : CondSpec) : Py.Str := condText c.name c.neg c.vals.length

/-- all conditions of a keyword list; `none`: an over-long list is met first (the chunked path) -/
def specsOf : List Kw → Except GErr (Option (List CondSpec))
  | [] => .ok (some [])
  | kw :: rest =>
    if isLong kw.arg then .ok none
    else match genVals (stripNo kw.key).2 kw.arg with
      | .error e => .error e
      | .ok t =>
        match specsOf rest with
        | .error e => .error e
        | .ok none => .ok none
        | .ok (some ss) => .ok (some (⟨(stripNo kw.key).2, (stripNo kw.key).1, t⟩ :: ss))

def loopResult (vals : List Val) (conds : List Py.Str) :
    Except GErr (Option (List CondSpec)) → Except GErr (Flow (List Val × List Py.Str) Unit)
  | .error e => .error e
  | .ok none => .ok (.ret ())
  | .ok (some ss) => .ok (.cont (vals ++ ss.flatMap (·.vals), conds ++ ss.map CondSpec.text))

theorem mapM_length {ε α β : Type} (f : α → Except ε β) : ∀ (l : List α) (t : List β), l.mapM f = .ok t → t.length = l.length
  | [], t, h => by simp [List.mapM_nil, pure, Except.pure] at h; subst h; rfl
  | a :: l, t, h => by
    simp only [List.mapM_cons, bind, Except.bind, pure, Except.pure] at h
    cases h1 : f a with
    | error e => simp [h1] at h
    | ok b =>
      cases h2 : List.mapM f l with
      | error e => simp [h1, h2] at h
      | ok t' =>
        simp [h1, h2] at h; subst h
        simp [mapM_length f l t' h2]

theorem genVals_length (k : Py.Str) (a : Arg) (t : List Val) (h : genVals k a = .ok t) : t.length = a.vals.length := by
  unfold genVals at h
  by_cases hk : k = rowIDName
  · rw [if_pos hk] at h; exact mapM_length _ _ _ h
  · rw [if_neg hk] at h; injection h with h; rw [h]

theorem condStep_long (k : Py.Str) (v : Arg) (vals : List Val) (conds : List Py.Str) (h : isLong v = true) :
    condStep k v vals conds = .ok (.ret ()) := by simp [condStep, h]

theorem condStep_err (k : Py.Str) (v : Arg) (vals : List Val) (conds : List Py.Str) (h : isLong v = false) (e : GErr)
    (hg : genVals (stripNo k).2 v = .error e) : condStep k v vals conds = .error e := by simp [condStep, h, hg, Except.map]

theorem condStep_ok (k : Py.Str) (v : Arg) (vals : List Val) (conds : List Py.Str) (h : isLong v = false) (t : List Val)
    (hg : genVals (stripNo k).2 v = .ok t) :
    condStep k v vals conds = .ok (.cont (vals ++ t, conds ++ [condText (stripNo k).2 (stripNo k).1 t.length])) := by
  simp [condStep, h, hg, Except.map, genVals_length _ _ _ hg]

theorem loop_nf' (kw : List Kw) : ∀ (i : Nat) (vals : List Val) (conds : List Py.Str),
    Rt.forIn (((Rt.items kw).zipIdx i).map (fun p => (((p.2 : Nat) : Int), p.1))) (vals, conds)
        (fun it_ st_ => condStep it_.2.1 it_.2.2 st_.1 st_.2) = loopResult vals conds (specsOf kw) := by
  induction kw with
  | nil => intro i vals conds; simp [Rt.items, Rt.forIn, specsOf, loopResult]
  | cons k rest ih =>
    intro i vals conds
    have hstep : ∀ body : Int × Py.Str × Arg → List Val × List Py.Str → Except GErr (Flow (List Val × List Py.Str) Unit),
        Rt.forIn (((Rt.items (k :: rest)).zipIdx i).map (fun p => (((p.2 : Nat) : Int), p.1))) (vals, conds) body =
        (match body ((i : Int), (k.key, k.arg)) (vals, conds) with
         | .error e => .error e
         | .ok (.ret r) => .ok (.ret r)
         | .ok (.cont s') => Rt.forIn (((Rt.items rest).zipIdx (i + 1)).map (fun p => (((p.2 : Nat) : Int), p.1))) s' body) := by
      intro body; simp only [Rt.items, List.map_cons, List.zipIdx_cons, Rt.forIn]
      rcases body ((i : Int), (k.key, k.arg)) (vals, conds) with _ | (_ | _) <;> rfl
    rw [hstep]
    simp only [specsOf]
    by_cases hl : isLong k.arg = true
    · rw [condStep_long _ _ _ _ hl]; simp [hl, loopResult]
    · have hl' : isLong k.arg = false := by simpa using hl
      simp only [hl', if_false, Bool.false_eq_true]
      cases hg : genVals (stripNo k.key).2 k.arg with
      | error e => rw [condStep_err _ _ _ _ hl' e hg]; simp [loopResult]
      | ok t =>
        rw [condStep_ok _ _ _ _ hl' t hg]
        simp only []
        rw [ih]
        cases specsOf rest with
        | error e => rfl
        | ok o =>
          cases o with
          | none => rfl
          | some ss => simp [loopResult, CondSpec.text]

theorem loop_nf (kw : List Kw) (vals : List Val) (conds : List Py.Str) :
    Rt.forIn (Rt.enumerate (Rt.items kw)) (vals, conds) (fun it_ st_ => get_cond it_.2.1 it_.2.2 st_.1 st_.2) =
      loopResult vals conds (specsOf kw) := by
  have hb : (fun (it_ : Int × Py.Str × Arg) (st_ : List Val × List Py.Str) => get_cond it_.2.1 it_.2.2 st_.1 st_.2) =
      (fun it_ st_ => condStep it_.2.1 it_.2.2 st_.1 st_.2) := by
    funext it_ st_; rw [get_cond_nf]
  rw [hb]
  exact loop_nf' kw 0 vals conds

theorem loop_plain' (kw : List Kw) : ∀ (vals : List Val) (conds : List Py.Str),
    Rt.forIn (Rt.items kw) (vals, conds) (fun it_ st_ => condStep it_.1 it_.2 st_.1 st_.2) = loopResult vals conds (specsOf kw) := by
  induction kw with
  | nil => intro vals conds; simp [Rt.items, Rt.forIn, specsOf, loopResult]
  | cons k rest ih =>
    intro vals conds
    have hstep : ∀ body : Py.Str × Arg → List Val × List Py.Str → Except GErr (Flow (List Val × List Py.Str) Unit),
        Rt.forIn (Rt.items (k :: rest)) (vals, conds) body =
        (match body (k.key, k.arg) (vals, conds) with
         | .error e => .error e
         | .ok (.ret r) => .ok (.ret r)
         | .ok (.cont s') => Rt.forIn (Rt.items rest) s' body) := by
      intro body; simp only [Rt.items, List.map_cons, Rt.forIn]
      rcases body (k.key, k.arg) (vals, conds) with _ | (_ | _) <;> rfl
    rw [hstep]
    simp only [specsOf]
    by_cases hl : isLong k.arg = true
    · rw [condStep_long _ _ _ _ hl]; simp [hl, loopResult]
    · have hl' : isLong k.arg = false := by simpa using hl
      simp only [hl', if_false, Bool.false_eq_true]
      cases hg : genVals (stripNo k.key).2 k.arg with
      | error e => rw [condStep_err _ _ _ _ hl' e hg]; simp [loopResult]
      | ok t =>
        rw [condStep_ok _ _ _ _ hl' t hg]
        simp only []
        rw [ih]
        cases specsOf rest with
        | error e => rfl
        | ok o =>
          cases o with
          | none => rfl
          | some ss => simp [loopResult, CondSpec.text]

/-- the same loop written `for k, v in kwargs.items()` (a harmless rewrite of the source keeps the normal form) -/
theorem loop_nf_plain (kw : List Kw) (vals : List Val) (conds : List Py.Str) :
    Rt.forIn (Rt.items kw) (vals, conds) (fun it_ st_ => get_cond it_.1 it_.2 st_.1 st_.2) =
      loopResult vals conds (specsOf kw) := by
  have hb : (fun (it_ : Py.Str × Arg) (st_ : List Val × List Py.Str) => get_cond it_.1 it_.2 st_.1 st_.2) =
      (fun it_ st_ => condStep it_.1 it_.2 st_.1 st_.2) := by
    funext it_ st_; rw [get_cond_nf]
  rw [hb]
  exact loop_plain' kw vals conds

/-- `'SELECT {an} FROM {tablename}'` -/
def selectHead (columns tn : Py.Str) : Py.Str := ['S', 'E', 'L', 'E', 'C', 'T', ' '] ++ columns ++ [' ', 'F', 'R', 'O', 'M', ' '] ++ tn

def tooManyMsg : String := "Too many SQL variables"

def queryResult (columns tn : Py.Str) : Except GErr (Option (List CondSpec)) → Except GErr (Flow (Py.Str × List Val) Unit)
  | .error e => .error e
  | .ok none => .ok (.ret ())
  | .ok (some ss) =>
    if (ss.flatMap (·.vals)).length > Gen.SQLITE_LIMIT_VARIABLE_NUMBER then .error (.valueError tooManyMsg)
    else .ok (.cont (selectHead columns tn ++ [' ', 'W', 'H', 'E', 'R', 'E', ' '] ++ Rt.join [' ', 'A', 'N', 'D', ' '] (ss.map CondSpec.text),
                     ss.flatMap (·.vals)))

/-- **normal form of the translated generic branch of `get`** -/
theorem get_query_nf (columns tn : Py.Str) (kw : List Kw) : get_query columns tn kw = queryResult columns tn (specsOf kw) := by
  unfold get_query
  simp only [bind, Except.bind, loop_nf, loop_nf_plain, pure, Except.pure]
  cases specsOf kw with
  | error e => rfl
  | ok o =>
    cases o with
    | none => rfl
    | some ss =>
      simp only [loopResult, queryResult, List.nil_append, selectHead, Rt.len, tooManyMsg]
      by_cases h : (ss.flatMap (·.vals)).length > Gen.SQLITE_LIMIT_VARIABLE_NUMBER
      · simp [h, throw, throwThe, MonadExceptOf.throw]
      · simp [h, throw, throwThe, MonadExceptOf.throw]

theorem get_nokw_nf (columns tn : Py.Str) : get_nokw columns tn = selectHead columns tn := by
  simp [get_nokw, selectHead]

end SqlProofs
