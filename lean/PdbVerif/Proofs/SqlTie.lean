/-
  THE TIE: `pdb2sqlcore.get` as modelled by hand (`Model.get`, Model/Table.lean) equals "build the text and the values with
  the TRANSLATED builder (Gen/Sql.lean), give the text its meaning with MicroSql (the SQLite contract), post-process with
  the TRANSLATED `_format_get_output`" — for every database, column string and keyword list on the non-chunked path.
-/
import PdbVerif.Proofs.SqlFormat

set_option linter.unusedVariables false
set_option linter.unusedSimpArgs false

namespace SqlProofs
open Tbl Model MicroSql GenSql

/-! ### what a SELECT returns has the shape `_format_get_output` relies on -/

theorem mapM_getElem {ε α β : Type} (f : α → Except ε β) : ∀ (l : List α) (l' : List β), l.mapM f = .ok l' →
    ∀ (i : Nat) (a : α), l[i]? = some a → ∃ b, l'[i]? = some b ∧ f a = .ok b
  | [], l', h, i, a, hi => by simp at hi
  | x :: t, l', h, i, a, hi => by
    simp only [List.mapM_cons, bind, Except.bind, pure, Except.pure] at h
    cases h1 : f x with
    | error e => simp [h1] at h
    | ok b =>
      cases h2 : List.mapM f t with
      | error e => simp [h1, h2] at h
      | ok t' =>
        simp [h1, h2] at h; subst h
        cases i with
        | zero => simp at hi; subst hi; exact ⟨b, by simp, h1⟩
        | succ j => simp at hi; simpa using mapM_getElem f t t' h2 j a hi

theorem idxOf?_getElem (l : List Py.Str) (x : Py.Str) (i : Nat) (h : l.idxOf? x = some i) : l[i]? = some x := by
  unfold List.idxOf? at h
  obtain ⟨hlt, hx, _⟩ := List.findIdx?_eq_some_iff_getElem.1 h
  simp only [beq_iff_eq] at hx
  rw [List.getElem?_eq_getElem hlt, hx]

/-- the cell of the rowID column is an int, in every row a SELECT returns -/
theorem select_rowID_int (db : Db) (columns : Py.Str) (cols : List Col) (hcols : sqlCols db columns = .ok cols)
    (hrow : sqlCol db rowIDName = some .rowID) (index : Nat)
    (hi : (Py.splitOn ',' columns).idxOf? rowIDName = some index) (rp : Row × Nat) :
    ∃ i, (cols.map (fun c => sqlCell c rp.2 rp.1))[index]? = some (Val.int i) := by
  unfold sqlCols at hcols
  by_cases hs : columns = "*".toList
  · subst hs
    have : (Py.splitOn ',' "*".toList).idxOf? rowIDName = none := by decide
    rw [this] at hi; cases hi
  · simp only [hs, if_false] at hcols
    obtain ⟨c, hc1, hc2⟩ := mapM_getElem _ _ _ hcols index rowIDName (idxOf?_getElem _ _ _ hi)
    rw [show Py.strip rowIDName = rowIDName from by decide, hrow] at hc2
    simp only [Except.ok.injEq] at hc2; subst hc2
    exact ⟨(rp.2 : Int) + 1, by simp [hc1, sqlCell]⟩

theorem finish_select (db : Db) (columns : Py.Str) (cols : List Col) (hcols : sqlCols db columns = .ok cols)
    (hrow : sqlCol db rowIDName = some .rowID) (tab : Tab) (cs : List SqlCond) :
    (format_get_output (sqlSelect db tab cols cs) columns).mapError errOf = finish columns (sqlSelect db tab cols cs) := by
  rw [format_get_output_nf]
  apply format_eq_finish columns _ cols.length
  · intro r hr
    obtain ⟨rp, _, rfl⟩ := List.mem_map.1 hr
    simp
  · intro index hi r hr
    obtain ⟨rp, _, rfl⟩ := List.mem_map.1 hr
    exact select_rowID_int db columns cols hcols hrow index hi rp

/-! ### `get` through the translated text -/

/-- run a statement text with MicroSql, post-process the rows with the translated `_format_get_output` -/
def runSql (db : Db) (text : Py.Str) (vals : List Val) (columns : Py.Str) : Except Model.Err Result :=
  match MicroSql.query db text vals with
  | .error e => .error e
  | .ok data =>
    match format_get_output data columns with
    | .error e => .error (errOf e)
    | .ok items => .ok (.data items)

/-- **`get` computed from the translated builder**: (text, values) from `GenSql.get_query` / `get_nokw`, evaluated by
    MicroSql, post-processed by `GenSql.format_get_output` -/
def getViaSql (db : Db) (columns tn : Py.Str) (kw : List Kw) : Except Model.Err Result :=
  if kw.isEmpty then runSql db (get_nokw columns tn) [] columns
  else
    match get_query columns tn kw with
    | .error e => .error (errOf e)
    | .ok (.ret ()) => .error (.unmodelled "the chunked path")
    | .ok (.cont (text, vals)) => runSql db text vals columns

/-- the model's plain query, for the conditions `cs` -/
theorem runSql_eq_runQuery (db : Db) (columns tn : Py.Str) (ss : List CondSpec) (cs : List SqlCond) (text : Py.Str)
    (hparse : parse text = .ok (.select (colsAst columns) tn (ss.map CondSpec.cond)))
    (hc : colsPlain columns = true) (hcs : sqlConds db ss = some cs) (hrow : sqlCol db rowIDName = some .rowID)
    (hn : ¬ (ss.flatMap (·.vals)).length > Gen.SQLITE_LIMIT_VARIABLE_NUMBER) :
    runSql db text (ss.flatMap (·.vals)) columns = runQuery db columns tn cs (ss.flatMap (·.vals)).length := by
  unfold runSql runQuery MicroSql.query
  rw [hparse]
  simp only [hn, if_false, execSelect_eq db columns tn ss cs hc hcs]
  cases findTab db tn with
  | none => rfl
  | some tab =>
    simp only []
    cases hcols : sqlCols db columns with
    | error e => rfl
    | ok cols =>
      simp only []
      have := finish_select db columns cols hcols hrow tab cs
      cases hf : format_get_output (sqlSelect db tab cols cs) columns with
      | error e => rw [hf] at this; simp only [Except.mapError] at this; rw [← this]
      | ok items => rw [hf] at this; simp only [Except.mapError] at this; rw [← this]


/-- the names that occur in the text are plain identifiers (decidable): the table name, every key without `no_`,
    every requested column (or `*`) -/
def PlainNames (columns tn : Py.Str) (kw : List Kw) : Prop :=
  colsPlain columns = true ∧ isName tn = true ∧ ∀ k ∈ kw, isName (stripNo k.key).2 = true

theorem specs_names : ∀ (kw : List Kw) (ss : List CondSpec), specsOf kw = .ok (some ss) → (∀ k ∈ kw, isName (stripNo k.key).2 = true) →
    (∀ s ∈ ss, isName s.name = true) ∧ (kw ≠ [] → ss ≠ [])
  | [], ss, h, _ => by
    simp only [specsOf, Except.ok.injEq, Option.some.injEq] at h; subst h
    exact ⟨by simp, fun h => absurd rfl h⟩
  | k :: rest, ss, h, hk => by
    simp only [specsOf] at h
    by_cases hl : isLong k.arg = true
    · simp [hl] at h
    · simp only [hl, if_false, Bool.false_eq_true] at h
      cases hg : genVals (stripNo k.key).2 k.arg with
      | error e => simp [hg] at h
      | ok t =>
        cases hs : specsOf rest with
        | error e => simp [hg, hs] at h
        | ok o =>
          cases o with
          | none => simp [hg, hs] at h
          | some ss' =>
            simp only [hg, hs, Except.ok.injEq, Option.some.injEq] at h; subst h
            obtain ⟨ih, _⟩ := specs_names rest ss' hs (fun x hx => hk x (by simp [hx]))
            refine ⟨?_, fun _ => by simp⟩
            intro s hs'
            rcases List.mem_cons.1 hs' with rfl | hs'
            · exact hk k (by simp)
            · exact ih s hs'

/-- **The generic branch.**  For a non-empty keyword list without an over-long list whose keys name columns: what the
    model does after its checks — `scan`, then `runQuery` (combined-limit error, SELECT, `finish`) — is what the
    translated builder's text means to MicroSql, post-processed by the translated `_format_get_output`.  The error
    branches are part of the equation: a text rowID value (TypeError), more than 999 values ('Too many SQL variables'),
    unknown table or column (OperationalError), `rowID ` with a blank in the column list (ValueError). -/
theorem generic_eq_sql (db : Db) (columns tn : Py.Str) (kw : List Kw) (hne : kw ≠ []) (hnl : NoLong kw)
    (hkr : KeysResolve db kw) (hp : PlainNames columns tn kw) (hrow : sqlCol db rowIDName = some .rowID) :
    (match scan db kw with
     | .error e => .error e
     | .ok (.conds conds n) => runQuery db columns tn conds n
     | .ok (.long _ _ _ _) => .error (.unmodelled "the chunked path")) = getViaSql db columns tn kw := by
  obtain ⟨hc, ht, hk⟩ := hp
  have hsc := scan_eq_specs db kw hnl hkr
  have hemp : kw.isEmpty = false := by cases kw <;> simp_all
  unfold getViaSql
  simp only [hemp, Bool.false_eq_true, if_false, get_query_nf]
  cases hs : specsOf kw with
  | error e => rw [hs] at hsc; simp only [] at hsc; simp only [hsc, queryResult]
  | ok o =>
    rw [hs] at hsc
    cases o with
    | none => exact hsc.elim
    | some ss =>
      obtain ⟨cs, h1, h2⟩ := hsc
      obtain ⟨hn1, hn2⟩ := specs_names kw ss hs hk
      simp only [h2, queryResult]
      by_cases hmany : (ss.flatMap (·.vals)).length > Gen.SQLITE_LIMIT_VARIABLE_NUMBER
      · simp only [hmany, if_true, runQuery]
        simp [errOf]
      · simp only [hmany, if_false]
        exact (runSql_eq_runQuery db columns tn ss cs _ (parse_selectText columns tn ss hc ht (hn2 hne) hn1) hc h1 hrow hmany).symm

/-- **No keyword.** -/
theorem nokw_eq_sql (db : Db) (columns tn : Py.Str) (hc : colsPlain columns = true) (ht : isName tn = true)
    (hrow : sqlCol db rowIDName = some .rowID) :
    runQuery db columns tn [] 0 = getViaSql db columns tn [] := by
  unfold getViaSql
  simp only [List.isEmpty_nil, if_true, get_nokw_nf]
  have := runSql_eq_runQuery db columns tn [] [] (selectHead columns tn) (parse_selectHead columns tn hc ht) hc rfl hrow (by simp)
  simpa using this.symm

/-- **`get` = MicroSql on the translated text** (the non-chunked path of `pdb2sqlcore.get`, any recursion depth left).
    Hypotheses = the checks the source makes before it builds the query (valid column names, no per-model dispatch,
    every key passes the `SELECT EXISTS` probe), no over-long list, and plain names in the text. -/
theorem getF_eq_sql (db : Db) (columns tn : Py.Str) (kw : List Kw) (fuel : Nat)
    (hvalid : validCols db columns = true) (hdisp : hasModelKey kw = true ∨ db.nModel = 0)
    (hkeys : kw.all (fun k => keyOK db tn (stripNo k.key).2) = true) (hnl : NoLong kw)
    (hp : PlainNames columns tn kw) (hrow : sqlCol db rowIDName = some .rowID) :
    getF (fuel + 1) db columns tn kw = getViaSql db columns tn kw := by
  have hd : (!hasModelKey kw && decide (db.nModel > 0)) = false := by
    rcases hdisp with h | h <;> simp [h]
  unfold getF
  simp only [hvalid, Bool.not_true, Bool.false_eq_true, if_false, hd]
  by_cases hemp : kw = []
  · subst hemp
    simp only [List.isEmpty_nil, if_true]
    exact nokw_eq_sql db columns tn hp.1 hp.2.1 hrow
  · have hemp' : kw.isEmpty = false := by cases kw <;> simp_all
    simp only [hemp', Bool.false_eq_true, if_false, hkeys, Bool.not_true]
    have hkr : KeysResolve db kw := by
      intro k hk
      have := (List.all_eq_true.1 hkeys) k hk
      simp only [keyOK, Bool.and_eq_true] at this
      exact this.2
    rw [← generic_eq_sql db columns tn kw hemp hnl hkr hp hrow]
    have hsc := scan_eq_specs db kw hnl hkr
    cases hs : specsOf kw with
    | error e => rw [hs] at hsc; simp only [] at hsc; simp only [hsc]
    | ok o =>
      rw [hs] at hsc
      cases o with
      | none => exact hsc.elim
      | some ss => obtain ⟨cs, h1, h2⟩ := hsc; simp only [h2]

theorem get_eq_sql (db : Db) (columns tn : Py.Str) (kw : List Kw)
    (hvalid : validCols db columns = true) (hdisp : hasModelKey kw = true ∨ db.nModel = 0)
    (hkeys : kw.all (fun k => keyOK db tn (stripNo k.key).2) = true) (hnl : NoLong kw)
    (hp : PlainNames columns tn kw) (hrow : sqlCol db rowIDName = some .rowID) :
    Model.get db columns tn kw = getViaSql db columns tn kw :=
  getF_eq_sql db columns tn kw _ hvalid hdisp hkeys hnl hp hrow

end SqlProofs
