/-
  The translated `compute_residue_pairs_ref` (Gen/Rmsd.lean, specialised on `save_file=False` — the pickle branch is outside the
  subset) IS the hand model `Model.Fnat.residuePairsRef` (Model/Fnat.lean) with the contact routine as a parameter.
  `GenR.compute_fnat_fast` is translated and compared with the real code by the correspondence run of C08 (driver op
  `gen_fnat_fast`); its equality with `Model.Fnat.fnatFast` is NOT proved here (the generated code keeps coordinates as `Vec3 Rat`,
  the hand model as triples; the dictionary-map lemmas were not written).
-/
import PdbVerif.Proofs.GenRmsdZone
import PdbVerif.Model.Fnat

set_option linter.unusedVariables false
set_option linter.unusedSimpArgs false

namespace Proofs.GenRmsd
open Py Model Model.Fnat

/-- `compute_residue_pairs_ref` on a table, with the contact routine as a parameter -/
def residuePairsRefWith (gcr : List Atom → Rat → Str → Str → Except Err (Model.Dict ResKey (List ResKey))) (ref : List Atom) (cutoff : Rat) :
    Except Err (Model.Dict ResKey (List ResKey)) :=
  match getChains ref with
  | [c1, c2] => gcr ref cutoff c1 c2
  | _ => .error .valueError

/-- the model's `residuePairsRef` is the instance "contact routine = the residue-pair model with the arguments of the call" -/
theorem residuePairsRefWith_model (ref : List Atom) (cutoff : Rat) :
    residuePairsRefWith (fun t c c1 c2 => contactResiduePairs t (pairArgs c c1 c2)) ref cutoff = residuePairsRef ref cutoff := by
  unfold residuePairsRefWith residuePairsRef
  rcases getChains ref with _ | ⟨c0, _ | ⟨c1, _ | ⟨c2, rest⟩⟩⟩ <;> rfl

theorem genr_compute_residue_pairs_ref_eq_model (p2s : Str → Except Err (List Atom))
    (gcr : List Atom → Rat → Str → Str → Except Err (Model.Dict ResKey (List ResKey))) (ref : Str) (cutoff : Rat) :
    GenR.compute_residue_pairs_ref p2s gcr ref cutoff = p2s ref >>= fun t => residuePairsRefWith gcr t cutoff := by
  unfold GenR.compute_residue_pairs_ref
  apply bind_congr'; intro t
  simp only [Proofs.GenContacts.get_chains_eq_model, residuePairsRefWith]
  rcases hch : getChains t with _ | ⟨c0, _ | ⟨c1, _ | ⟨c2, rest⟩⟩⟩
  · simp [throw_eq_error, error_bind]
  · simp [throw_eq_error, error_bind]
  · simp only [List.length_cons, List.length_nil, ne_eq, decide_not, Nat.reduceAdd, decide_true, Bool.not_true,
      Bool.false_eq_true, if_false, (getItem_two c0 c1).1, (getItem_two c0 c1).2, ok_bind, pure_eq_ok, bind_ok_eq]
  · simp [throw_eq_error, error_bind]

end Proofs.GenRmsd
