/-
  Helper lemmas for C07 / C11 (cluster E), part 9: the models under a change of every record that keeps the identity
  fields (chain, residue number, residue name, atom name) and moves the coordinates — `get_contact_atoms` (cluster C's
  model), `check_residues`, the zones and the four routines: identities and control flow are unchanged, the coordinates
  in the output are the moved ones.  Helper lemmas only.
-/
import PdbVerif.Proofs.RmsdInv

set_option linter.unusedVariables false
set_option linter.unusedSimpArgs false
set_option linter.unusedSectionVars false

namespace Proofs.Rmsd
open Model Model.Rmsd Py Proofs.Contacts

/-! ### maps of every record that keep the identity fields -/

/-- `f` changes no field the routines use to identify an atom or a residue -/
structure IdPreserving (f : Atom → Atom) : Prop where
  chain : ∀ a, (f a).chainID = a.chainID
  resSeq : ∀ a, (f a).resSeq = a.resSeq
  resName : ∀ a, (f a).resName = a.resName
  name : ∀ a, (f a).name = a.name

/-- distances up to the cutoff test are kept -/
def KeepsCutoff (f : Atom → Atom) (c : Rat) : Prop := ∀ a b, withinCutoff c (f a) (f b) = withinCutoff c a b

def liftRow (f : Atom → Atom) (r : IRow) : IRow := (f r.1, r.2)

theorem zipIdx_map_lift (f : Atom → Atom) (t : List Atom) : (t.map f).zipIdx = t.zipIdx.map (liftRow f) := by
  rw [List.zipIdx_map]; rfl

variable {f : Atom → Atom}

theorem getChains_map (hf : IdPreserving f) (t : List Atom) : getChains (t.map f) = getChains t := by
  unfold getChains; rw [List.map_map]; congr 2; funext a; exact hf.chain a

theorem chainRows_map (hf : IdPreserving f) (t : List Atom) (ch : Str) :
    chainRows (t.map f) ch = (chainRows t ch).map (liftRow f) := by
  unfold chainRows
  rw [zipIdx_map_lift, List.filter_map]
  congr 2
  funext r; simp [Function.comp, liftRow, hf.chain]

theorem rowsAt_map (f : Atom → Atom) (t : List Atom) (idx : List Nat) :
    rowsAt (t.map f) idx = (rowsAt t idx).map (liftRow f) := by
  unfold rowsAt
  rw [zipIdx_map_lift, List.filter_map]
  rfl

theorem resKey_map (hf : IdPreserving f) (a : Atom) : resKey (f a) = resKey a := by
  simp [resKey, hf.chain, hf.resSeq, hf.resName]

theorem scanAtom_map (hf : IdPreserving f) (a : ContactArgs) (hc : KeepsCutoff f a.cutoff) (c1 c2 : Str)
    (rows2 : List IRow) (st : LoopState) (r : IRow) :
    scanAtom a c1 c2 (rows2.map (liftRow f)) st (liftRow f r) = scanAtom a c1 c2 rows2 st r := by
  unfold scanAtom
  have h1 : (rows2.map (liftRow f)).filter (fun q => withinCutoff a.cutoff q.1 (liftRow f r).1) =
      (rows2.filter (fun q => withinCutoff a.cutoff q.1 r.1)).map (liftRow f) := by
    rw [List.filter_map]; congr 2; funext q; simp [Function.comp, liftRow, hc q.1 r.1]
  have h2 : ∀ l : List IRow, ((l.map (liftRow f)).filter (keepPartner a)).map (·.2) = (l.filter (keepPartner a)).map (·.2) := by
    intro l
    rw [List.filter_map, List.map_map]
    have : keepPartner a ∘ liftRow f = keepPartner a := by
      funext q; simp [Function.comp, keepPartner, liftRow, hf.name]
    rw [this]; rfl
  simp only [h1, h2, List.length_map]
  simp only [liftRow, hf.name]

theorem scanPair_map (hf : IdPreserving f) (a : ContactArgs) (hc : KeepsCutoff f a.cutoff) (t : List Atom)
    (st : LoopState) (cc : Str × Str) : scanPair a (t.map f) st cc = scanPair a t st cc := by
  unfold scanPair
  simp only [chainRows_map hf, List.foldl_map]
  congr 1
  funext st r
  exact scanAtom_map hf a hc _ _ _ st r

theorem extendToResidue_map (hf : IdPreserving f) (t : List Atom) (idx : List Nat) (bb : Bool) :
    extendToResidue (t.map f) idx bb = extendToResidue t idx bb := by
  unfold extendToResidue
  simp only [rowsAt_map, List.map_map, zipIdx_map_lift]
  have h1 : (fun r : IRow => resKey r.1) ∘ liftRow f = fun r => resKey r.1 := by
    funext r; simp [Function.comp, liftRow, resKey_map hf]
  rw [h1]
  congr 2
  funext k
  simp only [List.filter_map, List.map_map]
  have h2 : (fun r : IRow => decide (r.1.chainID = k.1 ∧ r.1.resName = k.2.2 ∧ r.1.resSeq = k.2.1)) ∘ liftRow f =
      fun r => decide (r.1.chainID = k.1 ∧ r.1.resName = k.2.2 ∧ r.1.resSeq = k.2.1) := by
    funext r; simp [Function.comp, liftRow, hf.chain, hf.resName, hf.resSeq]
  have h3 : (fun r : IRow => decide (r.1.name ∈ backbone)) ∘ liftRow f = fun r => decide (r.1.name ∈ backbone) := by
    funext r; simp [Function.comp, liftRow, hf.name]
  have h4 : (fun r : IRow => r.2) ∘ liftRow f = fun r => r.2 := rfl
  rw [h2]
  split
  · rw [h3, h4]
  · rw [h4]

/-- **`get_contact_atoms` looks at identities and at distances up to the cutoff test only** -/
theorem contactRun_map (hf : IdPreserving f) (a : ContactArgs) (hc : KeepsCutoff f a.cutoff) (t : List Atom) :
    contactRun (t.map f) a = contactRun t a := by
  unfold contactRun
  have hs : scanPair a (t.map f) = scanPair a t := by funext st cc; exact scanPair_map hf a hc t st cc
  have he : (fun l => extendToResidue (t.map f) l a.bb) = (fun l => extendToResidue t l a.bb) := by
    funext l; exact extendToResidue_map hf t l a.bb
  simp only [getChains_map hf, hs, he]


/-! ### the table-based parts of the models under such maps -/

/-- the coordinates of `f a` are the image of those of `a` under `m` -/
def MovesBy (f : Atom → Atom) (m : P3 → P3) : Prop := ∀ a, posOf (f a) = m (posOf a)

def mapPt (m : P3 → P3) (p : Pt) : Pt := (p.1, m p.2)
def mapPair (mD mR : P3 → P3) (p : Pair) : Pair := (mapPt mD p.1, mapPt mR p.2)
def mapOutcome (mD mR : P3 → P3) : Outcome → Outcome
  | .value fit ev => .value (fit.map (mapPair mD mR)) (ev.map (mapPair mD mR))
  | .err e => .err e

theorem keyOf_map (hf : IdPreserving f) (a : Atom) : keyOf (f a) = keyOf a := by
  simp [keyOf, hf.chain, hf.resSeq, hf.name]
theorem labelOf_map (hf : IdPreserving f) (a : Atom) : labelOf (f a) = labelOf a := by
  simp [labelOf, hf.chain, hf.resSeq, hf.resName, hf.name]
theorem res3_map (hf : IdPreserving f) (a : Atom) : res3 (f a) = res3 a := by
  simp [res3, hf.chain, hf.resSeq, hf.resName]
theorem ptOf_map (hf : IdPreserving f) {m : P3 → P3} (hm : MovesBy f m) (a : Atom) : ptOf (f a) = mapPt m (ptOf a) := by
  simp [ptOf, mapPt, keyOf_map hf, hm a]
theorem nameOK_map (hf : IdPreserving f) (names : Option (List Str)) : nameOK names ∘ f = nameOK names := by
  funext a; cases names <;> simp [nameOK, hf.name]

theorem getResidues_map (hf : IdPreserving f) (t : List Atom) (names : Option (List Str)) :
    getResidues (t.map f) names = getResidues t names := by
  unfold getResidues
  rw [List.filter_map, List.map_map, nameOK_map hf]
  congr 2; funext a; exact res3_map hf a

theorem residueNames_map (hf : IdPreserving f) (t : List Atom) (names : Option (List Str)) (r : Res3) :
    residueNames (t.map f) names r = residueNames t names r := by
  unfold residueNames
  rw [List.filter_map, List.filter_map, List.map_map, nameOK_map hf]
  have : (fun a => decide (res3 a = r)) ∘ f = fun a => decide (res3 a = r) := by funext a; simp [res3_map hf]
  rw [this]
  congr 1; funext a; exact hf.name a

theorem checkResidues_map {fD fR : Atom → Atom} (hD : IdPreserving fD) (hR : IdPreserving fR) (dec ref : List Atom)
    (names : Option (List Str)) (enforce : Bool) :
    checkResidues (dec.map fD) (ref.map fR) names enforce = checkResidues dec ref names enforce := by
  unfold checkResidues
  simp only [getResidues_map hD, getResidues_map hR, residueNames_map hD, residueNames_map hR]

theorem computeLzone_map (hf : IdPreserving f) (t : List Atom) : computeLzone (t.map f) = computeLzone t := by
  unfold computeLzone
  rw [getChains_map hf]
  split
  · simp only [chainRows_map hf, List.length_map, List.map_map]
    congr 3
    funext r; simp [Function.comp, liftRow, hf.chain, hf.resSeq]
  · rfl

theorem backboneRowsAt_map (hf : IdPreserving f) (t : List Atom) (idx : List Nat) :
    backboneRowsAt (t.map f) idx = (backboneRowsAt t idx).map (liftRow f) := by
  unfold backboneRowsAt
  rw [rowsAt_map, List.filter_map]
  congr 2
  funext r; simp [Function.comp, liftRow, hf.name]

theorem contactSets_map (hf : IdPreserving f) (a : ContactArgs) (hc : KeepsCutoff f a.cutoff) (t : List Atom) :
    contactSets (t.map f) a = contactSets t a := by
  unfold contactSets; rw [contactRun_map hf a hc]

theorem computeIzone_map (hf : IdPreserving f) (c : Rat) (hc : KeepsCutoff f c) (t : List Atom) :
    computeIzone (t.map f) c = computeIzone t c := by
  unfold computeIzone
  rw [getChains_map hf]
  split
  · rename_i c0 c1 _
    rw [contactSets_map hf (izoneArgs c c0 c1) hc]
    cases contactSets t (izoneArgs c c0 c1) with
    | error e => rfl
    | ok d =>
      simp only [bind, Except.bind, pure, Except.pure, backboneRowsAt_map hf, List.map_map]
      congr 3
      funext r; simp [Function.comp, liftRow, hf.chain, hf.resSeq]
  · rfl

/-! ### i-RMSD, SQL routine -/

theorem pairByIndex_map {fD fR : Atom → Atom} (hD : IdPreserving fD) (hR : IdPreserving fR) {mD mR : P3 → P3}
    (hmD : MovesBy fD mD) (hmR : MovesBy fR mR) (dec : List Atom) (rows : List IRow) :
    pairByIndex (dec.map fD) (rows.map (liftRow fR)) = (pairByIndex dec rows).map (mapPair mD mR) := by
  unfold pairByIndex
  rw [List.filterMap_map, List.map_filterMap]
  apply List.filterMap_congr
  intro r _
  simp only [Function.comp, liftRow, labelOf_map hR, List.find?_map]
  have : (fun d => decide (labelOf d = labelOf r.1)) ∘ fD = fun d => decide (labelOf d = labelOf r.1) := by
    funext d; simp [labelOf_map hD]
  rw [this]
  cases dec.find? (fun d => decide (labelOf d = labelOf r.1)) with
  | none => rfl
  | some d => simp [mapPair, ptOf_map hD hmD, ptOf_map hR hmR]

theorem irmsdSql_map {fD fR : Atom → Atom} (hD : IdPreserving fD) (hR : IdPreserving fR) {mD mR : P3 → P3}
    (hmD : MovesBy fD mD) (hmR : MovesBy fR mR) (c : Rat) (hc : KeepsCutoff fR c) (dec ref : List Atom) :
    irmsdSql (.ok (dec.map fD)) (.ok (ref.map fR)) none c = mapOutcome mD mR (irmsdSql (.ok dec) (.ok ref) none c) := by
  unfold irmsdSql
  simp only [bind, Except.bind, pure, Except.pure, getChains_map hD, getChains_map hR]
  by_cases hch : getChains dec ≠ getChains ref
  · simp [hch, Outcome.ofExcept, mapOutcome, throw, throwThe, MonadExceptOf.throw]
  · simp only [hch, if_false]
    cases h0 : chainAt (getChains ref) 0 with
    | error e => simp [Outcome.ofExcept, mapOutcome]
    | ok c0 =>
      cases h1 : chainAt (getChains ref) 1 with
      | error e => simp [Outcome.ofExcept, mapOutcome]
      | ok c1 =>
        simp only [contactSets_map hR (izoneArgs c c0 c1) hc]
        cases contactSets ref (izoneArgs c c0 c1) with
        | error e => simp [Outcome.ofExcept, mapOutcome]
        | ok d =>
          simp only [backboneRowsAt_map hR, List.map_map, rowsAt_map, pairByIndex_map hD hR hmD hmR, List.length_map]
          have : ((fun r : IRow => r.2) ∘ liftRow fR) = fun r => r.2 := rfl
          rw [this]
          split_ifs <;> simp [Outcome.ofExcept, mapOutcome, throw, throwThe, MonadExceptOf.throw]


/-! ### L-RMSD, SQL routine -/

theorem mapM_map_ok {α β : Type} (g g' : α → Except Err β) (h : β → β) :
    ∀ (l : List α), (∀ a ∈ l, g' a = (g a).map h) → l.mapM g' = (l.mapM g).map (List.map h)
  | [], _ => rfl
  | a :: l, hg => by
    rw [List.mapM_cons, List.mapM_cons, hg a (by simp), mapM_map_ok g g' h l (fun x hx => hg x (List.mem_cons_of_mem _ hx))]
    cases g a with
    | error e => rfl
    | ok b =>
      cases l.mapM g with
      | error e => rfl
      | ok bs => rfl

theorem identicalAtoms_map {fD fR : Atom → Atom} (hD : IdPreserving fD) (hR : IdPreserving fR) {mD mR : P3 → P3}
    (hmD : MovesBy fD mD) (hmR : MovesBy fR mR) (dec ref : List Atom) (chain : Str) (names : List Str) :
    identicalAtoms (dec.map fD) (ref.map fR) chain names =
      (identicalAtoms dec ref chain names).map (List.map (mapPair mD mR)) := by
  unfold identicalAtoms
  simp only
  have hsel : ∀ {g : Atom → Atom} (hg : IdPreserving g) (t : List Atom),
      ((t.map g).filter (fun a => decide (a.chainID = chain) && decide (a.name ∈ names))).map keyOf =
      (t.filter (fun a => decide (a.chainID = chain) && decide (a.name ∈ names))).map keyOf := by
    intro g hg t
    rw [List.filter_map, List.map_map]
    have : (fun a => decide (a.chainID = chain) && decide (a.name ∈ names)) ∘ g =
        fun a => decide (a.chainID = chain) && decide (a.name ∈ names) := by
      funext a; simp [hg.chain, hg.name]
    rw [this]
    congr 1; funext a; exact keyOf_map hg a
  rw [hsel hD, hsel hR]
  apply mapM_map_ok
  intro k _
  have hfind : ∀ {g : Atom → Atom} (hg : IdPreserving g) (t : List Atom),
      (t.map g).find? (fun a => decide (keyOf a = k)) = (t.find? (fun a => decide (keyOf a = k))).map g := by
    intro g hg t
    rw [List.find?_map]
    congr 2
    funext a; simp [keyOf_map hg]
  rw [hfind hD, hfind hR]
  cases dec.find? (fun a => decide (keyOf a = k)) with
  | none => rfl
  | some d =>
    cases ref.find? (fun a => decide (keyOf a = k)) with
    | none => rfl
    | some r => simp [Except.map, mapPair, ptOf_map hD hmD, ptOf_map hR hmR]

theorem kernelSql_map (mD mR : P3 → P3) (A B : List Pair) :
    kernelSql ((A.map (mapPair mD mR)).map (·.1)) ((A.map (mapPair mD mR)).map (·.2))
        ((B.map (mapPair mD mR)).map (·.1)) ((B.map (mapPair mD mR)).map (·.2)) =
      mapOutcome mD mR (kernelSql (A.map (·.1)) (A.map (·.2)) (B.map (·.1)) (B.map (·.2))) := by
  rw [kernelSql_pairs, kernelSql_pairs]
  simp only [List.length_map]
  split_ifs <;> simp [mapOutcome]

theorem lrmsdSql_map {fD fR : Atom → Atom} (hD : IdPreserving fD) (hR : IdPreserving fR) {mD mR : P3 → P3}
    (hmD : MovesBy fD mD) (hmR : MovesBy fR mR) (enforce : Bool) (dec ref : List Atom) :
    lrmsdSql (.ok (dec.map fD)) (.ok (ref.map fR)) enforce = mapOutcome mD mR (lrmsdSql (.ok dec) (.ok ref) enforce) := by
  unfold lrmsdSql
  simp only [bind, Except.bind, pure, Except.pure, getChains_map hD, getChains_map hR, checkResidues_map hD hR,
    identicalAtoms_map hD hR hmD hmR, chainRows_map hR, List.length_map]
  by_cases hch : getChains dec ≠ getChains ref
  · simp [hch, Outcome.ofExcept, mapOutcome, throw, throwThe, MonadExceptOf.throw]
  · simp only [hch, if_false]
    cases chainAt (getChains dec) 0 with
    | error e => simp [Outcome.ofExcept, mapOutcome]
    | ok c0 =>
      cases chainAt (getChains dec) 1 with
      | error e => simp [Outcome.ofExcept, mapOutcome]
      | ok c1 =>
        cases checkResidues dec ref (some lrmsdSqlNames) enforce with
        | error e => simp [Outcome.ofExcept, mapOutcome]
        | ok b =>
          cases hA : identicalAtoms dec ref c0 lrmsdSqlNames with
          | error e => simp [hA, Outcome.ofExcept, mapOutcome, Except.map]
          | ok A =>
            cases hB : identicalAtoms dec ref c1 lrmsdSqlNames with
            | error e => simp [hA, hB, Outcome.ofExcept, mapOutcome, Except.map]
            | ok B =>
              simp only [hA, hB, Except.map, Outcome.ofExcept]
              split_ifs
              · exact kernelSql_map mD mR A B
              · exact kernelSql_map mD mR B A


/-! ### the fast routines -/

theorem insertByKey_map (m : P3 → P3) (x : Pt) (l : List Pt) :
    insertByKey (mapPt m x) (l.map (mapPt m)) = (insertByKey x l).map (mapPt m) := by
  induction l with
  | nil => rfl
  | cons y ys ih =>
    simp only [List.map_cons, insertByKey]
    have : keyLt (mapPt m y).1 (mapPt m x).1 = keyLt y.1 x.1 := rfl
    rw [this]
    split
    · simp only [List.map_cons, ih]
    · rfl

theorem sortByKey_map (m : P3 → P3) (l : List Pt) : sortByKey (l.map (mapPt m)) = (sortByKey l).map (mapPt m) := by
  induction l with
  | nil => rfl
  | cons x xs ih => simp only [List.map_cons, sortByKey, ih, insertByKey_map]

theorem pick_map (m : P3 → P3) (D : List Pt) (idx : List Key) : pick (D.map (mapPt m)) idx = (pick D idx).map (mapPt m) := by
  unfold pick
  rw [List.filter_map, sortByKey_map]
  rfl

theorem zoneSplit_map (m : P3 → P3) (zone : Zone) (names : List Str) (l : List Pt) :
    zoneSplit (·.1) zone names (l.map (mapPt m)) =
      ((zoneSplit (·.1) zone names l).1.map (mapPt m), (zoneSplit (·.1) zone names l).2.map (mapPt m)) := by
  unfold zoneSplit
  simp only [List.filter_map]
  rfl

theorem zip_map_pair (mD mR : P3 → P3) (A B : List Pt) :
    (A.map (mapPt mD)).zip (B.map (mapPt mR)) = (A.zip B).map (mapPair mD mR) := by
  rw [List.zip_map]; rfl

theorem kernelLists_map (mD mR : P3 → P3) (A B C D : List Pt) :
    kernelLists (A.map (mapPt mD)) (B.map (mapPt mR)) (C.map (mapPt mD)) (D.map (mapPt mR)) =
      mapOutcome mD mR (kernelLists A B C D) := by
  unfold kernelLists
  simp only [List.length_map, zip_map_pair]
  split_ifs <;> simp [mapOutcome]

/-- the raw readers see, in the changed files, the same identities and the moved coordinates -/
structure RawMoved (lines lines' : List Str) (m : P3 → P3) : Prop where
  pts : ∃ P, rawPts lines = .ok P ∧ rawPts lines' = .ok (P.map (mapPt m))

theorem RawMoved.keys {lines lines' : List Str} {m : P3 → P3} (h : RawMoved lines lines' m) :
    rawKeys lines' = rawKeys lines := by
  obtain ⟨P, h1, h2⟩ := h.pts
  rw [rawKeys_of_rawPts h1, rawKeys_of_rawPts h2, List.map_map]
  rfl

theorem getXyz_map {lines lines' : List Str} {m : P3 → P3} (h : RawMoved lines lines' m) (idx : List Key) :
    getXyz lines' idx = (getXyz lines idx).map (List.map (mapPt m)) := by
  obtain ⟨P, h1, h2⟩ := h.pts
  unfold getXyz
  simp only [h1, h2, bind, Except.bind, pure, Except.pure, Except.map]
  have := pick_map m P idx
  unfold pick at this
  rw [this]

theorem xyzZoneBackbone_map {lines lines' : List Str} {m : P3 → P3} (h : RawMoved lines lines' m) (zone : Zone) (names : List Str) :
    xyzZoneBackbone lines' zone names =
      (xyzZoneBackbone lines zone names).map (fun r => (r.1.map (mapPt m), r.2.map (mapPt m))) := by
  obtain ⟨P, h1, h2⟩ := h.pts
  unfold xyzZoneBackbone
  simp only [h1, h2, bind, Except.bind, pure, Except.pure, Except.map, zoneSplit_map]

theorem dataZoneBackbone_map {lines lines' : List Str} {m : P3 → P3} (h : RawMoved lines lines' m) (zone : Zone) (names : List Str) :
    dataZoneBackbone lines' zone names = dataZoneBackbone lines zone names := by
  unfold dataZoneBackbone; rw [h.keys]

theorem zoneFrom_congr (src : ZoneSrc) {a b : Except Err (List (Str × Int))} (h : a = b) : zoneFrom src a = zoneFrom src b := by
  rw [h]

theorem irmsdFast_map {fD fR : Atom → Atom} (hD : IdPreserving fD) (hR : IdPreserving fR) {mD mR : P3 → P3}
    {dl dl' rl rl' : List Str} (hrd : RawMoved dl dl' mD) (hrr : RawMoved rl rl' mR)
    (c : Rat) (hc : KeepsCutoff fR c) (dec ref : List Atom) (src : ZoneSrc) (check enforce : Bool) :
    irmsdFast dl' rl' (.ok (dec.map fD)) (.ok (ref.map fR)) src c check enforce =
      mapOutcome mD mR (irmsdFast dl rl (.ok dec) (.ok ref) src c check enforce) := by
  unfold irmsdFast
  simp only [bind, Except.bind, pure, Except.pure, computeIzone_map hR c hc, checkResidues_map hD hR,
    dataZoneBackbone_map hrd, dataZoneBackbone_map hrr, getXyz_map hrd, getXyz_map hrr,
    xyzZoneBackbone_map hrd, xyzZoneBackbone_map hrr]
  cases zoneFrom src (computeIzone ref c) with
  | error e => simp [Outcome.ofExcept, mapOutcome]
  | ok zone =>
    simp only
    split_ifs
    · cases checkResidues dec ref none enforce with
      | error e => simp [Outcome.ofExcept, mapOutcome]
      | ok b =>
        simp only
        cases hdd : dataZoneBackbone dl zone zoneNames with
        | error e => simp [Outcome.ofExcept, mapOutcome]
        | ok dd =>
          cases hdr : dataZoneBackbone rl zone zoneNames with
          | error e => simp [Outcome.ofExcept, mapOutcome]
          | ok dr =>
            simp only
            cases hxd : getXyz dl (interKeys dr.1 dd.1) with
            | error e => simp [Outcome.ofExcept, mapOutcome, Except.map]
            | ok xd =>
              cases hxr : getXyz rl (interKeys dr.1 dd.1) with
              | error e => simp [Outcome.ofExcept, mapOutcome, Except.map]
              | ok xr => simp only [Except.map, Outcome.ofExcept, kernelLists_map]
    · cases hxd : xyzZoneBackbone dl zone zoneNames with
      | error e => simp [Outcome.ofExcept, mapOutcome, Except.map]
      | ok xd =>
        cases hxr : xyzZoneBackbone rl zone zoneNames with
        | error e => simp [Outcome.ofExcept, mapOutcome, Except.map]
        | ok xr => simp only [Except.map, Outcome.ofExcept, kernelLists_map]

theorem lrmsdFast_map {fD fR : Atom → Atom} (hD : IdPreserving fD) (hR : IdPreserving fR) {mD mR : P3 → P3}
    {dl dl' rl rl' : List Str} (hrd : RawMoved dl dl' mD) (hrr : RawMoved rl rl' mR)
    (dec ref : List Atom) (src : ZoneSrc) (check enforce : Bool) :
    lrmsdFast dl' rl' (.ok (dec.map fD)) (.ok (ref.map fR)) src check enforce =
      mapOutcome mD mR (lrmsdFast dl rl (.ok dec) (.ok ref) src check enforce) := by
  unfold lrmsdFast
  simp only [bind, Except.bind, pure, Except.pure, computeLzone_map hR, checkResidues_map hD hR,
    dataZoneBackbone_map hrd, dataZoneBackbone_map hrr, getXyz_map hrd, getXyz_map hrr,
    xyzZoneBackbone_map hrd, xyzZoneBackbone_map hrr]
  cases zoneFrom src (computeLzone ref) with
  | error e => simp [Outcome.ofExcept, mapOutcome]
  | ok zone =>
    simp only
    split_ifs
    · cases checkResidues dec ref (some lrmsdFastNames) enforce with
      | error e => simp [Outcome.ofExcept, mapOutcome]
      | ok b =>
        simp only
        cases hdd : dataZoneBackbone dl zone lrmsdFastNames with
        | error e => simp [Outcome.ofExcept, mapOutcome]
        | ok dd =>
          cases hdr : dataZoneBackbone rl zone lrmsdFastNames with
          | error e => simp [Outcome.ofExcept, mapOutcome]
          | ok dr =>
            simp only
            cases h1 : getXyz dl (interKeys dr.1 dd.1) with
            | error e => simp [Outcome.ofExcept, mapOutcome, Except.map]
            | ok x1 =>
              cases h2 : getXyz rl (interKeys dr.1 dd.1) with
              | error e => simp [Outcome.ofExcept, mapOutcome, Except.map]
              | ok x2 =>
                cases h3 : getXyz dl (interKeys dr.2 dd.2) with
                | error e => simp [Outcome.ofExcept, mapOutcome, Except.map]
                | ok x3 =>
                  cases h4 : getXyz rl (interKeys dr.2 dd.2) with
                  | error e => simp [Outcome.ofExcept, mapOutcome, Except.map]
                  | ok x4 => simp only [Except.map, Outcome.ofExcept, kernelLists_map]
    · cases hxd : xyzZoneBackbone dl zone lrmsdFastNames with
      | error e => simp [Outcome.ofExcept, mapOutcome, Except.map]
      | ok xd =>
        cases hxr : xyzZoneBackbone rl zone lrmsdFastNames with
        | error e => simp [Outcome.ofExcept, mapOutcome, Except.map]
        | ok xr => simp only [Except.map, Outcome.ofExcept, kernelLists_map]

/-- the fast routines use the tables only for the zone and for the residue check: the coordinates they hand over come
    from the record lines -/
theorem irmsdFast_tables {fD fR : Atom → Atom} (hD : IdPreserving fD) (hR : IdPreserving fR) (c : Rat) (hc : KeepsCutoff fR c)
    (dl rl : List Str) (dec ref : List Atom) (src : ZoneSrc) (check enforce : Bool) :
    irmsdFast dl rl (.ok (dec.map fD)) (.ok (ref.map fR)) src c check enforce =
      irmsdFast dl rl (.ok dec) (.ok ref) src c check enforce := by
  unfold irmsdFast
  simp only [bind, Except.bind, pure, Except.pure, computeIzone_map hR c hc, checkResidues_map hD hR]

theorem lrmsdFast_tables {fD fR : Atom → Atom} (hD : IdPreserving fD) (hR : IdPreserving fR)
    (dl rl : List Str) (dec ref : List Atom) (src : ZoneSrc) (check enforce : Bool) :
    lrmsdFast dl rl (.ok (dec.map fD)) (.ok (ref.map fR)) src check enforce =
      lrmsdFast dl rl (.ok dec) (.ok ref) src check enforce := by
  unfold lrmsdFast
  simp only [bind, Except.bind, pure, Except.pure, computeLzone_map hR, checkResidues_map hD hR]

/-- … and the record lines only through the raw readers -/
theorem irmsdFast_lines {dl dl' rl rl' : List Str} (hk : rawKeys dl' = rawKeys dl) (hp : rawPts dl' = rawPts dl)
    (hk' : rawKeys rl' = rawKeys rl) (hp' : rawPts rl' = rawPts rl)
    (td tr : Except Err (List Atom)) (src : ZoneSrc) (c : Rat) (check enforce : Bool) :
    irmsdFast dl' rl' td tr src c check enforce = irmsdFast dl rl td tr src c check enforce := by
  unfold irmsdFast dataZoneBackbone getXyz xyzZoneBackbone
  simp only [hk, hp, hk', hp']

theorem lrmsdFast_lines {dl dl' rl rl' : List Str} (hk : rawKeys dl' = rawKeys dl) (hp : rawPts dl' = rawPts dl)
    (hk' : rawKeys rl' = rawKeys rl) (hp' : rawPts rl' = rawPts rl)
    (td tr : Except Err (List Atom)) (src : ZoneSrc) (check enforce : Bool) :
    lrmsdFast dl' rl' td tr src check enforce = lrmsdFast dl rl td tr src check enforce := by
  unfold lrmsdFast dataZoneBackbone getXyz xyzZoneBackbone
  simp only [hk, hp, hk', hp']

end Proofs.Rmsd
