/-
  `GenC.get_contact_atoms` (Gen/Contacts.lean, regenerated from interface.py on every run) = `Model.contactAtoms`
  (Model/Contacts.lean), for every table and every argument combination.

  The proof walks through the generated definition loop by loop with the continuation-passing lemmas of GenContactsRt
  (`foldlM_bind_guard / _inv / _ok / _enumerate_bind_ok`), which take the loop body from the goal by unification: nothing
  here quotes generated text.  What is used of each loop:
    * the validation loop raises ValueError iff some requested chain is unknown;
    * after the extraction loop, `xyz[c]`, `index[c]`, `atName[c]` are the coordinate / rowID / name columns of
      `chainRows t c` for every requested chain (`Extracted`); the IndexError of `data[:, :3]` on an empty selection cannot
      happen because every requested chain occurs;
    * one pass of the pair loop is `Model.scanPair`, one pass of the atom loop is `Model.scanAtom` (no KeyError / IndexError:
      the keys were created by the two `if chain not in index_contact` lines / `setdefault`, positions come from
      `enumerate` and `np.where`);
    * the two loops after it are `Model.mapChains`.
-/
import PdbVerif.Proofs.GenContactsRt
import PdbVerif.Proofs.GenContactsA
import Mathlib.Tactic.SplitIfs

set_option linter.unusedVariables false
set_option linter.unusedSimpArgs false

namespace Proofs.GenContacts
open Model Proofs.Contacts

def coordsOf (r : IRow) : Rat × Rat × Rat := (r.1.x, r.1.y, r.1.z)

def toSt (p : List (Py.Str × List Nat) × List (Nat × List Nat)) : LoopState := ⟨p.1, p.2⟩
def ofSt (st : LoopState) : List (Py.Str × List Nat) × List (Nat × List Nat) := (st.indexContact, st.pairs)

theorem foldl_ofSt {ρ : Type} (F : LoopState → ρ → LoopState) (rows : List ρ) (init : List (Py.Str × List Nat) × List (Nat × List Nat)) :
    rows.foldl (fun acc r => ofSt (F (toSt acc) r)) init = ofSt (rows.foldl F (toSt init)) := by
  induction rows generalizing init with
  | nil => rfl
  | cons r rows ih => simp only [List.foldl_cons, ih]; rfl

theorem withinCutoff_map (rows : List IRow) (r : IRow) (c : Rat) :
    Py.Np.withinCutoff (rows.map coordsOf) (coordsOf r) c = rows.map (fun q => Model.withinCutoff c q.1 r.1) := by
  simp only [Py.Np.withinCutoff, List.map_map]
  apply List.map_congr_left
  intro q _
  rfl

theorem startsWith_H (n : Py.Str) : Py.startsWith n ['H'] = startsWithH n := by
  cases n with
  | nil => rfl
  | cons c cs =>
    simp only [Py.startsWith, startsWithH, List.isPrefixOf, List.head?_cons, Bool.and_true]
    by_cases h : c = 'H'
    · simp [h]
    · have h' : ¬ 'H' = c := fun e => h e.symm
      rw [Bool.eq_iff_iff]
      simp [h, h']

theorem getItem_setDefault_self {κ ν : Type} [DecidableEq κ] (d : List (κ × List ν)) (k : κ) :
    Py.Dict.getItem (Model.Dict.setDefault d k []) k = .ok (Model.Dict.getD (Model.Dict.setDefault d k []) k) :=
  getItem_of_mem ((mem_keys_setDefault d k k []).mpr (Or.inl rfl))

theorem scanAtom_keys (a : ContactArgs) (A B : Py.Str) (rows2 : List IRow) (st : LoopState) (r : IRow) (k : Py.Str)
    (h : k ∈ Model.Dict.keys st.indexContact) : k ∈ Model.Dict.keys (scanAtom a A B rows2 st r).indexContact := by
  simp only [scanAtom]
  split_ifs <;> first | exact h | (simp only [mem_keys_extend]; exact Or.inr (Or.inr h))

/-- body of `for chain in chainIDs: index_contact[chain] = F(index_contact[chain])` (the model's `mapChains`) -/
def mapStep (F : List Nat → List Nat) (d : List (Py.Str × List Nat)) (ch : Py.Str) : Except Py.Err (List (Py.Str × List Nat)) :=
  match Model.Dict.get? d ch with
  | none => throw Py.Err.keyError
  | some l => pure (Model.Dict.set d ch (F l))

theorem foldlM_mapStep (F : List Nat → List Nat) (cs : List Py.Str) (d : List (Py.Str × List Nat)) :
    cs.foldlM (fun acc ch => mapStep F acc ch) d = Model.mapChains F cs d := rfl

theorem getItem_bind_set (F : List Nat → List Nat) (d : List (Py.Str × List Nat)) (ch : Py.Str) :
    (Py.Dict.getItem d ch >>= fun v => pure (Py.Dict.setItem d ch (F v))) = mapStep F d ch := by
  unfold mapStep Py.Dict.getItem
  rw [get?_eq]
  cases Model.Dict.get? d ch with
  | none => rfl
  | some l => simp only [setItem_eq]; rfl

/-- the value `get_contact_atoms` returns, in the two-type form of the translation -/
def outSum : ContactOut → Sum (List (Nat × List Nat)) (List (Py.Str × List Nat))
  | .pairs d => .inl d
  | .chains d => .inr d

/-! ### facts about the extraction `for chain in chainIDs: data = np.array(self.get(..., chainID=chain)) ...` -/

theorem chainRows_ne_nil {t : List Py.Atom} {c : Py.Str} (h : c ∈ getChains t) : chainRows t c ≠ [] := by
  obtain ⟨x, hx, hc⟩ := mem_getChains.mp h
  obtain ⟨i, hi, rfl⟩ := List.getElem_of_mem hx
  intro hnil
  have : (t[i], i) ∈ chainRows t c := by
    simp only [chainRows, List.mem_filter, decide_eq_true_eq]
    exact ⟨List.mem_zipIdx_iff_getElem?.mpr (by simp [hi]), hc⟩
  rw [hnil] at this
  exact absurd this (by simp)

/-- column slices of `np.array(self.get(cols, chainID=c))` for a chain that occurs -/
theorem cols_chain {ρ σ : Type} {t : List Py.Atom} {c : Py.Str} (h : c ∈ getChains t) (P : IRow → ρ) (proj : ρ → σ) :
    Py.Np.cols (Py.Np.array (Py.Tbl.select t (fun r => decide (r.1.chainID = c)) P)) proj =
      .ok ((chainRows t c).map (fun r => proj (P r))) := by
  have hne := chainRows_ne_nil h
  simp only [Py.Np.cols, Py.Np.array, Py.Tbl.select]
  have : (List.map P (List.filter (fun r => decide (r.1.chainID = c)) t.zipIdx)).isEmpty = false := by
    cases hh : List.filter (fun r => decide (r.1.chainID = c)) t.zipIdx with
    | nil => exact absurd hh hne
    | cons _ _ => rfl
  simp only [this, Bool.false_eq_true, if_false, List.map_map, chainRows]
  rfl

theorem getItem_setItem {κ ν : Type} [DecidableEq κ] (d : List (κ × ν)) (k k' : κ) (v : ν) :
    Py.Dict.getItem (Py.Dict.setItem d k v) k' = if k = k' then .ok v else Py.Dict.getItem d k' := by
  simp only [Py.Dict.getItem, get?_eq, setItem_eq, get?_set]
  by_cases h : k = k' <;> simp [h]

/-- what the extraction loop has stored for chain `c` (the third dictionary, `resName`, is never read) -/
def Extracted (t : List Py.Atom) (c : Py.Str)
    (acc : List (Py.Str × List (Rat × Rat × Rat)) × List (Py.Str × List Nat) × List (Py.Str × List Py.Str) × List (Py.Str × List Py.Str)) : Prop :=
  Py.Dict.getItem acc.1 c = .ok ((chainRows t c).map coordsOf) ∧
  Py.Dict.getItem acc.2.1 c = .ok ((chainRows t c).map (fun r => r.2)) ∧
  Py.Dict.getItem acc.2.2.2 c = .ok ((chainRows t c).map (fun r => r.1.name))

theorem get_contact_atoms_eq_model (ord : List (Py.Str × Py.Str × Int) → List (Py.Str × Py.Str × Int)) (hord : ∀ l x, x ∈ ord l ↔ x ∈ l)
    (t : List Py.Atom) (a : ContactArgs) :
    GenC.get_contact_atoms ord t a.cutoff a.allchains a.chain1 a.chain2 a.extend a.bb a.noH a.retPairs =
      (Model.contactAtoms t a).map outSum := by
  unfold GenC.get_contact_atoms Model.contactAtoms Model.contactRun
  simp only [get_chains_eq_model, List.contains_eq_mem]
  generalize (if a.allchains = true then getChains t else [a.chain1, a.chain2]) = chainIDs
  refine foldlM_bind_guard (fun c => !decide (c ∈ getChains t)) Py.Err.valueError ?_ ?_
  · intro c u
    simp [pure_eq_ok, throw_eq_error]
  by_cases hbad : (chainIDs.any fun c => !decide (c ∈ getChains t)) = true
  · simp only [hbad, if_true, throw_eq_error, error_bind, map_error]
  have hsub : ∀ c ∈ chainIDs, c ∈ getChains t := by
    intro c hc
    by_cases hn : c ∈ getChains t
    · exact hn
    · exact absurd (List.any_eq_true.mpr ⟨c, hc, by simp [hn]⟩) hbad
  simp only [hbad, if_false, Bool.false_eq_true]
  -- the extraction loop
  refine foldlM_bind_inv (fun done acc => ∀ c ∈ done, Extracted t c acc) (by simp) ?_ ?_
  · intro done x acc hacc hx
    have hxc := hsub x hx
    simp only [cols_chain hxc, ok_bind, pure_eq_ok, Py.Np.astypeFloat, Py.Np.astypeInt]
    refine ⟨_, rfl, ?_⟩
    intro c hc
    simp only [Extracted, getItem_setItem]
    by_cases hxe : x = c
    · subst hxe; simp [coordsOf]
    · have hcd : c ∈ done := by
        rcases List.mem_append.mp hc with h | h
        · exact h
        · simp at h; exact absurd h.symm hxe
      have := hacc c hcd
      simp only [Extracted] at this
      simpa [hxe] using this
  intro res hres
  rw [combinations2_eq]
  refine foldlM_bind_ok (fun acc cc => ofSt (scanPair a t (toSt acc) cc)) (fun _ => True) trivial ?_ ?_
  · intro acc cc _ hcc
    obtain ⟨hc1, hc2⟩ := mem_combinations2_sub hcc
    obtain ⟨e11, e12, e13⟩ := hres cc.1 hc1
    obtain ⟨e21, e22, e23⟩ := hres cc.2 hc2
    refine ⟨?_, trivial⟩
    simp only [e11, e21, e13, e23, e12, e22, ok_bind, contains_eq, setItem_eq, setdefault_eq, set_if_absent]
    refine foldlM_enumerate_bind_ok (fun acc r => ofSt (scanAtom a cc.1 cc.2 (chainRows t cc.2) (toSt acc) r))
      (fun acc => cc.1 ∈ Model.Dict.keys acc.1 ∧ cc.2 ∈ Model.Dict.keys acc.1) ?_ ?_ ?_
    · simp [mem_keys_setDefault]
    · intro acc3 i r hk hr
      obtain ⟨hk1, hk2⟩ := hk
      have g1 := fun {β : Type} (f : IRow → β) => getItem_map f hr
      have g3 := fun v => getItem_of_mem ((mem_keys_set acc3.1 cc.1 cc.2 v).mpr (Or.inr hk2))
      simp only [g1, withinCutoff_map, length_where0_map]
      rw [filterMapM_where0 (F := fun q => if keepPartner a q = true then some q.2 else none)]
      · simp only [pure_eq_ok, ok_bind, ite_ok, getItem_setDefault_self, getItem_of_mem hk1, g3, setDefault_set_getD,
          set_getD_append hk1, set_getD_append ((mem_keys_extend acc3.1 cc.1 cc.2 [r.2]).mpr (Or.inr hk2)), filterMap_ite]
        refine ⟨congrArg Except.ok ?_, scanAtom_keys _ _ _ _ _ _ _ hk1, scanAtom_keys _ _ _ _ _ _ _ hk2⟩
        simp only [scanAtom, ofSt, toSt, startsWith_H, backbone_atoms_eq_model, Py.Rt.any, List.any_cons, List.any_nil, id,
          Bool.or_false]
        generalize List.filter (fun q => withinCutoff a.cutoff q.fst r.fst) (chainRows t cc.snd) = contacts
        generalize List.map Prod.snd (List.filter (keepPartner a) contacts) = pairs
        by_cases hl : pairs.length > 0 <;> by_cases hc : contacts.length > 0 <;> cases hb : decide (r.1.name ∈ backbone) <;>
          cases hh : startsWithH r.1.name <;> cases a.noH <;> cases a.bb <;> simp [hl, hc, hb, hh]
      · intro k q hq
        have g2 := fun {β : Type} (f : IRow → β) => getItem_map f hq
        simp only [g2, pure_eq_ok, ok_bind, ite_ok, startsWith_H, backbone_atoms_eq_model, Py.Rt.any, List.any_cons, List.any_nil, id,
          Bool.or_false, keepPartner]
        have hb : ∀ (x y n b : Bool), (if (x || !b) = true then !(if n = true then y else false) else false) = ((x || !b) && !(n && y)) := by
          intro x y n b; cases x <;> cases y <;> cases n <;> cases b <;> rfl
        rw [hb]
        rfl
    · intro _
      simp only [foldl_ofSt, pure_eq_ok]
      rfl
  · intro _
    simp only [foldl_ofSt, extend_eq_model ord hord, ok_bind, sorted_set_nat, getItem_bind_set, foldlM_mapStep]
    rw [show toSt (Py.Dict.empty, Py.Dict.empty) = { indexContact := [], pairs := [] } from rfl]
    generalize List.foldl (scanPair a t) { indexContact := [], pairs := [] } (combinations2 chainIDs) = st
    simp only [ofSt]
    cases mapChains (sortedSet ltNat) chainIDs st.indexContact with
    | error e => rfl
    | ok v =>
      simp only [ok_bind]
      cases a.extend with
      | false => cases a.retPairs <;> rfl
      | true =>
        simp only [if_true]
        cases mapChains (fun l => extendToResidue t l a.bb) chainIDs v with
        | error e => rfl
        | ok w => cases a.retPairs <;> rfl

end Proofs.GenContacts
