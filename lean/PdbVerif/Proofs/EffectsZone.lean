/-
  C16 — the routines are rely/guarantee tasks: a routine that does not use the zone file only reads inputs and
  writes its own outputs (`LocalProg`); a fast routine with a zone file is `withZone … k` with `k z` local.  Both
  are `RG` for their solo outcome, so `noninterference_rg` applies to any mix of them.   Core Lean only.
-/
import PdbVerif.Proofs.EffectsSched

set_option linter.unusedVariables false
set_option linter.unusedSectionVars false

namespace Proofs.Effects
open Spec.C16 Model.C16

variable {P L Z R : Type} [DecidableEq P]

/-- reads inputs, writes own outputs, nothing else -/
def LocalProg (isInput outs : P → Prop) : Prog P L R → Prop
  | .done _ => True
  | .fail _ => True
  | .pathExists p k => isInput p ∧ ∀ b, LocalProg isInput outs (k b)
  | .isFile p k => isInput p ∧ ∀ b, LocalProg isInput outs (k b)
  | .readAll p k => isInput p ∧ ∀ c, LocalProg isInput outs (k c)
  | .createTemp _ _ => False
  | .append p _ k => outs p ∧ LocalProg isInput outs k
  | .openTrunc p k => outs p ∧ LocalProg isInput outs k
  | .replace _ _ _ => False
  | .remove _ _ => False
  | .dbOpen _ _ => False
  | .dbMem k => LocalProg isInput outs k
  | .shell _ _ => False

theorem rg_local (w : World P L) (l : Loc P R) (hdis : ∀ p, l.outs p → ¬ w.isInput p) (t : Prog P L R)
    (h : LocalProg w.isInput l.outs t) (fs₁ : FS P L) (ha : ∀ p, w.isInput p → fs₁ p = w.fs₀ p)
    (hsolo : l.solo = (t.exec fs₁).2) (tc : Option (List L)) (seen : Bool) : RG w l tc seen t := by
  induction t generalizing fs₁ tc seen with
  | done r => simpa [RG, Prog.exec] using hsolo
  | fail e => simpa [RG, Prog.exec] using hsolo
  | pathExists p k ih =>
    simp only [LocalProg] at h; simp only [RG]
    refine Or.inl ⟨h.1, ih _ (h.2 _) fs₁ ha ?_ tc seen⟩
    simpa [Prog.exec, ha p h.1] using hsolo
  | isFile p k ih =>
    simp only [LocalProg] at h; simp only [RG]
    refine Or.inl ⟨h.1, ih _ (h.2 _) fs₁ ha ?_ tc seen⟩
    simpa [Prog.exec, ha p h.1] using hsolo
  | readAll p k ih =>
    simp only [LocalProg] at h; simp only [RG]
    refine Or.inl ⟨h.1, ?_⟩
    have hp := ha p h.1
    cases hv : w.fs₀ p with
    | none => simpa [Prog.exec, hp, hv] using hsolo
    | some c =>
      simp only []
      refine ih c (h.2 c) fs₁ ha ?_ tc seen
      simpa [Prog.exec, hp, hv] using hsolo
  | createTemp p k ih => simp only [LocalProg] at h
  | append p ch k ih =>
    simp only [LocalProg] at h; simp only [RG]
    refine Or.inr ⟨h.1, ?_⟩
    cases hv : fs₁ p with
    | none => exact ih h.2 fs₁ ha (by simpa [Prog.exec, hv] using hsolo) tc seen
    | some c =>
      refine ih h.2 (fs₁.set p (some (c ++ ch))) ?_ (by simpa [Prog.exec, hv] using hsolo) tc seen
      intro q hq
      have : q ≠ p := by intro e; subst e; exact hdis _ h.1 hq
      rw [FS.set_other _ _ _ _ this]; exact ha q hq
  | openTrunc p k ih =>
    simp only [LocalProg] at h; simp only [RG]
    refine ⟨h.1, ih h.2 (fs₁.set p (some [])) ?_ (by simpa [Prog.exec] using hsolo) tc seen⟩
    intro q hq
    have : q ≠ p := by intro e; subst e; exact hdis _ h.1 hq
    rw [FS.set_other _ _ _ _ this]; exact ha q hq
  | replace s d k ih => simp only [LocalProg] at h
  | remove p k ih => simp only [LocalProg] at h
  | dbOpen p k ih => simp only [LocalProg] at h
  | dbMem k ih =>
    simp only [LocalProg] at h; simp only [RG]
    exact ih h fs₁ ha (by simpa [Prog.exec] using hsolo) tc seen
  | shell f k ih => simp only [LocalProg] at h

/-! ### the building blocks are local -/

theorem local_finish (isInput outs : P → Prop) (x : Except Err R) : LocalProg isInput outs (finish x : Prog P L R) := by
  cases x <;> trivial

theorem local_readPdb (isInput outs : P → Prop) (p : P) (k : List L → Prog P L R) (hp : isInput p)
    (hk : ∀ c, LocalProg isInput outs (k c)) : LocalProg isInput outs (readPdb p k) := by
  unfold readPdb
  simp only [LocalProg]
  refine ⟨hp, fun b => ?_⟩
  cases b
  · simp [LocalProg]
  · simp only [if_true, LocalProg]
    refine ⟨hp, fun b2 => ?_⟩
    cases b2
    · simp [LocalProg]
    · simp only [if_true, LocalProg]; exact ⟨hp, hk⟩

theorem local_loadPdb (isInput outs : P → Prop) (p : P) (k : List L → Prog P L R) (hp : isInput p)
    (hk : ∀ c, LocalProg isInput outs (k c)) : LocalProg isInput outs (loadPdb p k) := by
  unfold loadPdb; simp only [LocalProg]; exact local_readPdb isInput outs p k hp hk

theorem local_readSeq (isInput outs : P → Prop) (rs : List (Rd P)) (k : List (List L) → Prog P L R)
    (hr : ∀ rd ∈ rs, isInput rd.path) (hk : ∀ cs, LocalProg isInput outs (k cs)) :
    LocalProg isInput outs (readSeq rs k) := by
  induction rs generalizing k with
  | nil => exact hk []
  | cons rd rs ih =>
    have hrest : ∀ rd' ∈ rs, isInput rd'.path := fun rd' h' => hr rd' (List.mem_cons_of_mem _ h')
    cases rd with
    | load p =>
      exact local_loadPdb isInput outs p _ (hr (.load p) (List.mem_cons_self ..)) (fun c => ih _ hrest (fun cs => hk (c :: cs)))
    | read p =>
      exact local_readPdb isInput outs p _ (hr (.read p) (List.mem_cons_self ..)) (fun c => ih _ hrest (fun cs => hk (c :: cs)))

theorem local_writeFile (isInput outs : P → Prop) (p : P) (l : List L) (k : Prog P L R) (hp : outs p)
    (hk : LocalProg isInput outs k) : LocalProg isInput outs (writeFile p l k) := by
  unfold writeFile; simp only [LocalProg]; exact ⟨hp, hp, hk⟩

theorem local_checked (isInput outs : P → Prop) (W : Work L Z R) (r : Routine) (z : Option Z) (first second : List (Rd P))
    (k : List (List L) → Except Err R → Prog P L R)
    (h1 : ∀ rd ∈ first, isInput rd.path) (h2 : ∀ rd ∈ second, isInput rd.path)
    (hk : ∀ obs res, LocalProg isInput outs (k obs res)) : LocalProg isInput outs (checked W r z first second k) := by
  unfold checked
  apply local_readSeq isInput outs first _ h1
  intro o1
  cases W.check r 0 o1 with
  | error e => trivial
  | ok u =>
    refine local_readSeq isInput outs second _ h2 (fun o2 => ?_)
    cases W.check r 1 (o1 ++ o2) with
    | error e => trivial
    | ok u => exact hk _ _

theorem local_export1 (isInput outs : P → Prop) (W : Work L Z R) (r : Routine) (a : Args P) (obs : List (List L))
    (res : Except Err R) (h1 : ∀ o, a.out1 = some o → outs o) :
    LocalProg isInput outs (export1 W r a obs res : Prog P L R) := by
  unfold export1
  cases h : a.out1 with
  | none => exact local_finish isInput outs res
  | some o => exact local_writeFile isInput outs o _ _ (h1 o h) (local_finish isInput outs res)

theorem local_export2 (isInput outs : P → Prop) (W : Work L Z R) (r : Routine) (a : Args P) (obs : List (List L))
    (res : Except Err R) (h1 : ∀ o, a.out1 = some o → outs o) (h2 : ∀ o, a.out2 = some o → outs o) :
    LocalProg isInput outs (export2 W r a obs res : Prog P L R) := by
  unfold export2
  cases e1 : a.out1 with
  | none => exact local_finish isInput outs res
  | some o1 =>
    cases e2 : a.out2 with
    | none => exact local_finish isInput outs res
    | some o2 =>
      exact local_writeFile isInput outs o1 _ _ (h1 o1 e1)
        (local_writeFile isInput outs o2 _ _ (h2 o2 e2) (local_finish isInput outs res))

/-- how one call relates to the shared world: its structures are inputs, its exports are its own outputs -/
structure CallOk (isInput outs : P → Prop) (a : Args P) : Prop where
  decoy : isInput a.decoy
  ref : isInput a.ref
  out1 : ∀ o, a.out1 = some o → outs o
  out2 : ∀ o, a.out2 = some o → outs o

/-- a call without a zone file is local (every routine) -/
theorem prog_local (isInput outs : P → Prop) (W : Work L Z R) (r : Routine) (a : Args P) (ha : CallOk isInput outs a)
    (hz : a.zone = none) : LocalProg isInput outs (prog W r a : Prog P L R) := by
  have hrd : ∀ (l : List (Rd P)), (∀ rd ∈ l, rd.path = a.decoy ∨ rd.path = a.ref) → ∀ rd ∈ l, isInput rd.path := by
    intro l hl rd hrd
    rcases hl rd hrd with h | h <;> rw [h]
    · exact ha.decoy
    · exact ha.ref
  cases r with
  | lrmsdFast c =>
    cases c <;> simp only [prog, zoneArg, hz] <;>
    · apply local_loadPdb isInput outs _ _ ha.ref
      intro rc
      split
      · trivial
      · apply local_checked isInput outs W _ _ _ _ _ (hrd _ (by simp [Rd.path])) (hrd _ (by simp [Rd.path]))
        intro obs res; exact local_finish isInput outs res
  | irmsdFast c =>
    cases c <;> simp only [prog, zoneArg, hz] <;>
    · apply local_loadPdb isInput outs _ _ ha.ref
      intro rc
      split
      · trivial
      · apply local_checked isInput outs W _ _ _ _ _ (hrd _ (by simp [Rd.path])) (hrd _ (by simp [Rd.path]))
        intro obs res; exact local_finish isInput outs res
  | lrmsdSql =>
    simp only [prog]
    apply local_checked isInput outs W _ _ _ _ _ (hrd _ (by simp [Rd.path])) (hrd _ (by simp [Rd.path]))
    intro obs res; exact local_export2 isInput outs W _ a obs res ha.out1 ha.out2
  | irmsdSql =>
    simp only [prog, hz]
    apply local_checked isInput outs W _ _ _ _ _ (hrd _ (by simp [Rd.path])) (hrd _ (by simp [Rd.path]))
    intro obs res; exact local_export2 isInput outs W _ a obs _ ha.out1 ha.out2
  | fnatFast =>
    simp only [prog]
    apply local_checked isInput outs W _ _ _ _ _ (hrd _ (by simp [Rd.path])) (hrd _ (by simp [Rd.path]))
    intro obs res; exact local_finish isInput outs res
  | fnatSql =>
    simp only [prog]
    apply local_checked isInput outs W _ _ _ _ _ (hrd _ (by simp [Rd.path])) (hrd _ (by simp [Rd.path]))
    intro obs res; exact local_finish isInput outs res
  | clashes =>
    simp only [prog]
    apply local_checked isInput outs W _ _ _ _ _ (hrd _ (by simp [Rd.path])) (hrd _ (by simp [Rd.path]))
    intro obs res; exact local_finish isInput outs res
  | contacts =>
    simp only [prog]
    apply local_checked isInput outs W _ _ _ _ _ (hrd _ (by simp [Rd.path])) (hrd _ (by simp [Rd.path]))
    intro obs res; exact local_finish isInput outs res
  | superpose =>
    simp only [prog]
    apply local_checked isInput outs W _ _ _ _ _ (hrd _ (by simp [Rd.path])) (hrd _ (by simp [Rd.path]))
    intro obs res
    split
    · exact local_export1 isInput outs W _ a obs res ha.out1
    · simp only [LocalProg]; exact local_export1 isInput outs W _ a obs res ha.out1
  | align =>
    simp only [prog]
    apply local_checked isInput outs W _ _ _ _ _ (hrd _ (by simp [Rd.path])) (hrd _ (by simp [Rd.path]))
    intro obs res; exact local_export1 isInput outs W _ a obs res ha.out1
  | pairsRef =>
    simp only [prog]
    apply local_checked isInput outs W _ _ _ _ _ (hrd _ (by simp [Rd.path])) (hrd _ (by simp [Rd.path]))
    intro obs res; exact local_export1 isInput outs W _ a obs res ha.out1
  | lzone =>
    simp only [prog, hz]
    apply local_checked isInput outs W _ _ _ _ _ (hrd _ (by simp [Rd.path])) (hrd _ (by simp [Rd.path]))
    intro obs res; exact local_finish isInput outs res
  | izone =>
    simp only [prog, hz]
    apply local_checked isInput outs W _ _ _ _ _ (hrd _ (by simp [Rd.path])) (hrd _ (by simp [Rd.path]))
    intro obs res; exact local_finish isInput outs res

/-- a fast score routine given a zone file is the cache protocol followed by a local program -/
theorem prog_withZone (isInput outs : P → Prop) (W : Work L Z R) (r zr : Routine) (a : Args P) (f : P)
    (ha : CallOk isInput outs a) (hz : a.zone = some f) (hr : zoneRoutine r = some zr) :
    ∃ k : Z → Prog P L R, prog W r a = withZone W zr a.ref f a.tmp k ∧ ∀ z, LocalProg isInput outs (k z) := by
  have hrd : ∀ (l : List (Rd P)), (∀ rd ∈ l, rd.path = a.decoy ∨ rd.path = a.ref) → ∀ rd ∈ l, isInput rd.path := by
    intro l hl rd hrd
    rcases hl rd hrd with h | h <;> rw [h]
    · exact ha.decoy
    · exact ha.ref
  cases r with
  | lrmsdFast c =>
    simp only [zoneRoutine, Option.some.injEq] at hr; subst hr
    cases c <;> simp only [prog, zoneArg, hz] <;>
    · refine ⟨_, rfl, fun z => ?_⟩
      apply local_checked isInput outs W _ _ _ _ _ (hrd _ (by simp [Rd.path])) (hrd _ (by simp [Rd.path]))
      intro obs res; exact local_finish isInput outs res
  | irmsdFast c =>
    simp only [zoneRoutine, Option.some.injEq] at hr; subst hr
    cases c <;> simp only [prog, zoneArg, hz] <;>
    · refine ⟨_, rfl, fun z => ?_⟩
      apply local_checked isInput outs W _ _ _ _ _ (hrd _ (by simp [Rd.path])) (hrd _ (by simp [Rd.path]))
      intro obs res; exact local_finish isInput outs res
  | _ => simp [zoneRoutine] at hr

/-! ### the cache protocol is a rely/guarantee task -/

theorem exec_withZone (W : Work L Z R) (zr : Routine) (ref f tmp : P) (k : Z → Prog P L R) (fs : FS P L)
    (htmp : fs tmp = none) :
    (withZone W zr ref f tmp k).exec fs = match fs f with
      | some c => (match W.parse c with
        | .ok z => (k z).exec fs
        | .error e => (fs, .error e))
      | none => (match fs ref with
        | some rc => (match W.computeErr zr rc with
          | some e => (fs, .error e)
          | none => (k (W.compute zr rc)).exec ((fs.set tmp none).set f (some (W.render (W.compute zr rc)))))
        | none => (fs, .error .fileNotFound)) := by
  unfold withZone
  cases hf : fs f with
  | some c =>
    simp only [Prog.exec, hf, Option.isSome, if_true]
    rw [exec_readZone, hf]
    rfl
  | none =>
    simp only [Prog.exec, hf, Option.isSome, Bool.false_eq_true, if_false]
    rw [exec_loadPdb]
    cases hr : fs ref with
    | none => rfl
    | some rc =>
      simp only []
      cases W.computeErr zr rc with
      | some e => rfl
      | none => simp only []; rw [exec_writeZone _ _ _ _ _ htmp]

theorem rg_withZone (W : Work L Z R) (zr : Routine) (hrt : ∀ rc, W.parse (W.render (W.compute zr rc)) = .ok (W.compute zr rc))
    (w : World P L) (l : Loc P R) (ref : P) (k : Z → Prog P L R)
    (hs : Sep w l) (href : w.isInput ref)
    (hpub : w.pub = (w.fs₀ ref).bind (fun rc => match W.computeErr zr rc with
      | some _ => none
      | none => some (W.render (W.compute zr rc))))
    (htmp : w.fs₀ l.tmp = none)
    (hk : ∀ z, LocalProg w.isInput l.outs (k z))
    (hsolo : l.solo = ((withZone W zr ref w.cache l.tmp k).exec w.fs₀).2) :
    RG w l none false (withZone W zr ref w.cache l.tmp k) := by
  rw [exec_withZone W zr ref w.cache l.tmp k w.fs₀ htmp] at hsolo
  -- the file system in which the solo run continues after publishing: inputs are as in fs₀
  have hafter : ∀ (c : List L) (p : P), w.isInput p → ((w.fs₀.set l.tmp none).set w.cache (some c)) p = w.fs₀ p := by
    intro c p hp
    have e1 : p ≠ w.cache := by intro e; subst e; exact hs.cache_not_input hp
    have e2 : p ≠ l.tmp := by intro e; subst e; exact hs.tmp_not_input hp
    rw [FS.set_other _ _ _ _ e1, FS.set_other _ _ _ _ e2]
  -- reading a complete cache file `c`
  have hread : ∀ (seen : Bool) (c : List L),
      (w.fs₀ w.cache = some c ∨ (w.fs₀ w.cache = none ∧ w.pub = some c)) →
      RG w l none seen (match W.parse c with
        | .ok z => k z
        | .error e => .fail e) := by
    intro seen c hc
    rcases hc with hc | ⟨hc0, hp⟩
    · rw [hc] at hsolo
      cases hpc : W.parse c with
      | error e => simp only [hpc] at hsolo ⊢; simpa [RG] using hsolo
      | ok z =>
        simp only [hpc] at hsolo ⊢
        exact rg_local w l hs.out_not_input (k z) (hk z) w.fs₀ (fun _ _ => rfl) hsolo none seen
    · rw [hc0] at hsolo
      rw [hpub] at hp
      cases hr : w.fs₀ ref with
      | none => simp [hr] at hp
      | some rc =>
        -- somebody published: the zone computation on this reference does not fail
        cases hce : W.computeErr zr rc with
        | some e => simp [hr, hce] at hp
        | none =>
          simp only [hr, hce, Option.bind_some, Option.some.injEq] at hp hsolo
          subst hp
          rw [hrt]
          exact rg_local w l hs.out_not_input _ (hk _) _ (hafter _) hsolo none seen
  unfold withZone
  simp only [RG]
  refine Or.inr ⟨by first | rfl | trivial, ?_⟩
  intro v hv _
  cases v with
  | some c =>
    -- the cache is there: read_zone
    simp only [Option.isSome, Bool.or_true, if_true]
    unfold readZone
    simp only [RG]
    refine Or.inr ⟨by first | rfl | trivial, ?_⟩
    intro v2 hv2 hsome
    cases v2 with
    | none => exact absurd rfl (hsome (by first | rfl | trivial))
    | some c2 =>
      simp only [Option.isSome, Bool.or_true, if_true, RG]
      refine Or.inr ⟨by first | rfl | trivial, ?_⟩
      intro v3 hv3 hsome3
      cases v3 with
      | none => exact absurd rfl (hsome3 (by first | rfl | trivial))
      | some c3 =>
        simp only []
        apply hread true c3
        rcases hv3 with h | ⟨h0, _, h3⟩
        · exact Or.inl h.symm
        · exact Or.inr ⟨h0, h3.symm⟩
  | none =>
    -- the cache is absent: it was absent initially; compute, write the temp file, publish
    have hc0 : w.fs₀ w.cache = none := by
      rcases hv with h | ⟨_, h2, h3⟩
      · exact h.symm
      · exact absurd h3.symm h2
    rw [hc0] at hsolo
    simp only [Option.isSome, Bool.or_false, Bool.false_eq_true, if_false]
    unfold loadPdb readPdb
    simp only [RG]
    refine Or.inl ⟨href, ?_⟩
    cases hr : w.fs₀ ref with
    | none =>
      simp only [hr] at hsolo
      simpa [RG] using hsolo
    | some rc =>
      simp only [hr] at hsolo
      simp only [hr, Option.isSome, if_true, RG]
      refine Or.inl ⟨href, Or.inl ⟨href, ?_⟩⟩
      cases hce : W.computeErr zr rc with
      | some e =>
        simp only [hce] at hsolo ⊢
        simpa [RG] using hsolo
      | none =>
      simp only [hce] at hsolo ⊢
      unfold writeZone
      simp only [RG]
      refine ⟨by first | rfl | trivial, by first | rfl | trivial, Or.inl ⟨by first | rfl | trivial, [], rfl, ?_⟩⟩
      refine ⟨by first | rfl | trivial, by first | rfl | trivial, by simp, by simp [hpub, hr, hce], hc0, ?_⟩
      exact rg_local w l hs.out_not_input _ (hk _) _ (hafter _) hsolo none true

end Proofs.Effects
