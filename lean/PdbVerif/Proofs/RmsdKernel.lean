/-
  Helper lemmas for C07 / C11 (cluster E), part 13: the kernel hypothesis `KernelOptimalAt` holds for the library's
  Kabsch kernel under the SVD contract — the bridge to cluster D's theorem `Props.C06.rmsd_minimal`.  Helper lemmas only.
-/
import PdbVerif.Proofs.RmsdMsd
import PdbVerif.Props.C06

set_option linter.unusedVariables false

namespace Proofs.Msd
open Py Py.Mat3 Spec Spec.Rmsd Model

variable {α : Type} [Field α] [LinearOrder α] [IsStrictOrderedRing α]

theorem mean_centre (P : List (Vec3 α)) (hP : P ≠ []) : Model.mean (centre P) = Vec3.zero := by
  have hn : ((centre P).length : α) ≠ 0 := by
    have : (centre P).length ≠ 0 := by simpa [centre] using hP
    exact_mod_cast this
  unfold Model.mean
  rw [vsum_centre P hP]
  ext <;> simp [Vec3.zero]

theorem uncentred_centre (eps : α) (heps : 0 ≤ eps) (P : List (Vec3 α)) (hP : P ≠ []) : uncentred eps (centre P) = false := by
  unfold uncentred
  rw [mean_centre P hP]
  have : ¬ (eps < absv (0 : α)) := by
    unfold absv; simp; exact heps
  simp [Vec3.zero, this]

/-- **C06 discharges the kernel hypothesis**: the Kabsch kernel of the library, under the contract of `np.linalg.svd` at
    the covariance of the centred sets, is optimal on every non-empty fitting list -/
theorem kernelOptimalAt_kabsch (svd : Mat3 α → Mat3 α × Vec3 α × Mat3 α) (eps : α) (heps : 0 ≤ eps)
    (fit : List (Vec3 α × Vec3 α)) (hfit : fit ≠ [])
    (hsvd : Proofs.Guards.SvdOK svd (centre (fit.map (·.1))) (centre (fit.map (·.2)))) :
    KernelOptimalAt (kabsch svd eps) fit := by
  have hne1 : fit.map (·.1) ≠ [] := by simpa using hfit
  have hne2 : fit.map (·.2) ≠ [] := by simpa using hfit
  have hg : guards eps (centre (fit.map (·.1))) (centre (fit.map (·.2))) = .ok () := by
    rw [Proofs.Guards.guards_ok_iff]
    refine ⟨by simp [centre], by simpa [centre] using hfit, uncentred_centre eps heps _ hne1, uncentred_centre eps heps _ hne2⟩
  have hk : kabsch svd eps (centre (fit.map (·.1))) (centre (fit.map (·.2))) =
      .ok (kabschCore (svd (covariance (centre (fit.map (·.1))) (centre (fit.map (·.2))))).1
        (svd (covariance (centre (fit.map (·.1))) (centre (fit.map (·.2))))).2.2) :=
    (Proofs.Guards.kabsch_ok_iff svd eps _ _ _).mpr ⟨hg, rfl⟩
  exact ⟨_, hk, Props.C06.rmsd_minimal svd eps _ _ _ hsvd hk⟩

/-- the same for the quaternion kernel, over ℝ, under the contract of `np.linalg.eigh` at the key matrix of the centred
    sets (`Props.C06.quat_optimal`) -/
theorem kernelOptimalAt_quaternion (eig : Mat4 ℝ → List (ℝ × Vec4 ℝ)) (eps : ℝ) (heps : 0 ≤ eps)
    (fit : List (Vec3 ℝ × Vec3 ℝ)) (hfit : fit ≠ [])
    (heig : Proofs.Guards.EigOK eig (centre (fit.map (·.1))) (centre (fit.map (·.2)))) :
    KernelOptimalAt (quaternion eig eps) fit := by
  have hne1 : fit.map (·.1) ≠ [] := by simpa using hfit
  have hne2 : fit.map (·.2) ≠ [] := by simpa using hfit
  have hg : guards eps (centre (fit.map (·.1))) (centre (fit.map (·.2))) = .ok () := by
    rw [Proofs.Guards.guards_ok_iff]
    refine ⟨by simp [centre], by simpa [centre] using hfit, uncentred_centre eps heps _ hne1, uncentred_centre eps heps _ hne2⟩
  obtain ⟨lq, hlq, _⟩ := heig
  have hk : quaternion eig eps (centre (fit.map (·.1))) (centre (fit.map (·.2))) =
      .ok (Gen.quat_rot lq.2.w lq.2.x lq.2.y lq.2.z) :=
    (Proofs.Guards.quaternion_ok_iff eig eps _ _ _).mpr ⟨hg, lq, hlq, rfl⟩
  exact ⟨_, hk, Props.C06.quat_optimal eig eps _ _ _ ⟨lq, hlq, by assumption⟩ hk⟩

end Proofs.Msd
