/-
  What the effects of `Py.Fx.Prog` (the alphabet of the TRANSLATED file- and connection-handling code, Gen/Fx.lean) MEAN
  in the two hand models — fixed here once, core Lean only:

  * `toC16 mk`  : into the effect programs of `Spec.C16` (file-system actions of one computation).  `mkstemp` creates the
                  name `mk dir prefix suffix` (the OS picks it: a parameter); a `write` goes into the buffer of the open
                  file and reaches the file when it is closed (one `append` with everything written, which is what an
                  observer of the file system can see — the recorded traces collapse the writes the same way);
                  `sqlite3.connect(':memory:')` is `dbMem`, `sqlite3.connect(p)` is `dbOpen p`; cursor / commit / close of a
                  connection are not file-system actions of the computation.  `open(p,'a')` is outside the alphabet of the
                  property (no routine of C16 appends): it is the exact file-system transformer, labelled `shell`.
  * `toC20 journal` : into the store of `Model.C20` (state transformer on `St`): `isfile`/`remove`/`connect` are the
                  file-system actions of the store, `commit` = `Model.C20.commit`, `close` = `rollbackClose` (SQLite rolls an
                  open transaction back); anything that is not an action of the store model is recorded as `shell`.
-/
import PdbVerif.Py.Fx
import PdbVerif.Spec.C16
import PdbVerif.Model.Store

set_option linter.unusedVariables false

namespace Proofs.GenFx
open Py Py.Fx

/-- Python exception ↦ the error alphabet of the effect model (same map as `Proofs.Effects.errOf`) -/
def errOf : Py.Err → Spec.C16.Err
  | .fileNotFound => .fileNotFound
  | .valueError => .valueError
  | _ => .other

section C16
open Spec.C16
variable {P C R : Type} [DecidableEq P] {α : Type}

/-- the buffers of the files the computation has open for writing (same shape as a file system) -/
abbrev Bufs (P C : Type) := FS P C

def Bufs.write (b : Bufs P C) (p : P) (c : C) : Bufs P C :=
  match b p with
  | some old => b.set p (some (old ++ [c]))
  | none => b

def toC16 (mk : P → Py.Str → Py.Str → P) :
    Fx.Prog P C α → Bufs P C → (α → Bufs P C → Spec.C16.Prog P C R) → Spec.C16.Prog P C R
  | .pure a, b, k => k a b
  | .raise e, _, _ => .fail (errOf e)
  | .isfile p f, b, k => .isFile p (fun x => toC16 mk (f x) b k)
  | .pathExists p f, b, k => .pathExists p (fun x => toC16 mk (f x) b k)
  | .remove p m, b, k => .remove p (toC16 mk m b k)
  | .connect none m, b, k => .dbMem (toC16 mk m b k)
  | .connect (some p) m, b, k => .dbOpen p (toC16 mk m b k)
  | .cursor _ m, b, k => toC16 mk m b k
  | .commit _ m, b, k => toC16 mk m b k
  | .close _ m, b, k => toC16 mk m b k
  | .openw p .a m, b, k =>
    .shell (fun fs => match fs p with | some _ => fs | none => fs.set p (some [])) (toC16 mk m (b.set p (some [])) k)
  | .openw p .w m, b, k => .openTrunc p (toC16 mk m (b.set p (some [])) k)
  | .openw p .wb m, b, k => .openTrunc p (toC16 mk m (b.set p (some [])) k)
  | .write p c m, b, k => toC16 mk m (b.write p c) k
  | .fclose p m, b, k =>
    match b p with
    | some chunks => .append p chunks (toC16 mk m (b.set p none) k)
    | none => toC16 mk m b k
  | .mkstemp d a s f, b, k => .createTemp (mk d a s) (toC16 mk (f (mk d a s)) (b.set (mk d a s) (some [])) k)
  | .replace s d m, b, k => .replace s d (toC16 mk m b k)
  | .readlines p f, b, k => .readAll p (fun c => toC16 mk (f c) b k)

/-- no file open -/
def noBufs : Bufs P C := fun _ => none

/-- the effect program of a translated routine that starts with no file open; the value goes to `k` -/
def prog16 (mk : P → Py.Str → Py.Str → P) (m : Fx.Prog P C α) (k : α → Spec.C16.Prog P C R) : Spec.C16.Prog P C R :=
  toC16 mk m noBufs (fun a _ => k a)

end C16

section C20
open Spec.C20 Model.C20
variable {P C Row : Type} [DecidableEq P] {α : Type}

def note (s : St P Row) (a : FAct P) : St P Row := { s with trace := s.trace ++ [a] }

def toC20 (journal : P → P) : Fx.Prog P C α → St P Row → St P Row × Except Py.Err α
  | .pure a, s => (s, .ok a)
  | .raise e, s => (s, .error e)
  | .isfile p f, s => toC20 journal (f (s.world p).isSome) (note s (.isFile p))
  | .pathExists p f, s => toC20 journal (f (s.world p).isSome) (note s (.isFile p))
  | .remove p m, s =>
    match s.world p with
    | some _ => toC20 journal m { s with world := s.world.set p none, trace := s.trace ++ [.remove p] }
    | none => (note s (.remove p), .error .fileNotFound)
  | .connect (some p) m, s =>
    toC20 journal m { s with world := (match s.world p with
                                         | none => s.world.set p (some (.db none))       -- a new, empty database file
                                         | some _ => s.world),                            -- an existing file is opened as it is
                               phase := .live, pending := [], trace := s.trace ++ [.connect p] }
  | .connect none m, s => toC20 journal m s
  | .cursor _ m, s => toC20 journal m s
  | .commit (some p) m, s =>
    match s.phase with
    | .live => toC20 journal m (Model.C20.commit journal p s)
    | _ => (s, .error (.unmodelled "ProgrammingError"))          -- commit on a closed connection
  | .commit none m, s => toC20 journal m s
  | .close (some p) m, s =>
    match s.phase with
    | .live => toC20 journal m (rollbackClose journal p s)
    | _ => toC20 journal m s                                       -- closing again is a no-op
  | .close none m, s => toC20 journal m s
  | .openw p _ m, s => toC20 journal m (note s (.shell [p]))
  | .write p _ m, s => toC20 journal m (note s (.shell [p]))
  | .fclose p m, s => toC20 journal m (note s (.shell [p]))
  | .mkstemp d _ _ f, s => toC20 journal (f d) (note s (.shell [d]))
  | .replace a b m, s => toC20 journal m (note s (.shell [a, b]))
  | .readlines p f, s => toC20 journal (f []) (note s (.shell [p]))

end C20
end Proofs.GenFx
