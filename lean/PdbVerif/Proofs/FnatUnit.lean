/-
  C08: the value is a fraction in [0,1] for EVERY input on which a route returns (no side condition), and the definition
  gives 1 when the decoy is the reference.  Helper lemmas only.
-/
import PdbVerif.Proofs.FnatSql
import PdbVerif.Proofs.Num

set_option linter.unusedSectionVars false
set_option linter.unusedVariables false

namespace Proofs.Fnat
open Py Model Model.Fnat Proofs.Contacts
open Spec.C08 (Res resOf inContact contacts residues preserved NamesConsistent within)

theorem foldlM_invariant {β σ : Type} {f : σ → β → Except Err σ} (P : σ → Prop)
    (hstep : ∀ s x s', f s x = .ok s' → P s → P s') :
    ∀ (l : List β) (s s' : σ), l.foldlM f s = .ok s' → P s → P s'
  | [], s, s', h, hp => by
    simp [pure, Except.pure] at h; subst h; exact hp
  | x :: l, s, s', h, hp => by
    simp only [List.foldlM_cons, bind, Except.bind] at h
    cases hx : f s x with
    | error e => simp [hx] at h
    | ok s₁ =>
      simp only [hx] at h
      exact foldlM_invariant P hstep l s₁ s' h (hstep s x s₁ hx hp)

theorem countB_le (c : Rat) (d : Dict ResKey (List P3)) (A : List P3) (n : Counters) (K' : ResKey) (n' : Counters)
    (h : countB c d A n K' = .ok n') (hn : n.1 ≤ n.2) : n'.1 ≤ n'.2 := by
  unfold countB at h
  cases hg : d.get? K' with
  | none =>
    simp [hg, pure, Except.pure] at h
    rw [← h]; simp; omega
  | some B =>
    simp only [hg, bind, Except.bind] at h
    cases hm : minWithin c A B with
    | error e => simp [hm] at h
    | ok b =>
      simp [hm, pure, Except.pure] at h
      rw [← h]
      by_cases hb : b = true <;> simp [hb] <;> omega

theorem countA_le (c : Rat) (d : Dict ResKey (List P3)) (n : Counters) (e : ResKey × List ResKey) (n' : Counters)
    (h : countA c d n e = .ok n') (hn : n.1 ≤ n.2) : n'.1 ≤ n'.2 := by
  unfold countA at h
  cases hg : d.get? e.1 with
  | none =>
    simp [hg, pure, Except.pure] at h
    rw [← h]; simp; omega
  | some A =>
    simp only [hg] at h
    exact foldlM_invariant (fun n => n.1 ≤ n.2) (fun s x s' => countB_le c d A s x s') e.2 n n' h hn

theorem ratio_unit {nC nT : Nat} {v : Rat} (h : ratio (nC, nT) = .ok v) (hle : nC ≤ nT) : 0 ≤ v ∧ v ≤ 1 := by
  rw [ratio_eq] at h
  by_cases h0 : nT = 0
  · simp [h0] at h
  · simp only [h0, if_false] at h
    injection h with h
    have hpos : (0 : ℚ) < (nT : ℚ) := by exact_mod_cast Nat.pos_of_ne_zero h0
    have hq0 : (0 : ℚ) ≤ (nC : ℚ) / (nT : ℚ) := div_nonneg (Nat.cast_nonneg _) hpos.le
    have hq1 : (nC : ℚ) / (nT : ℚ) ≤ 1 := by
      rw [div_le_one hpos]; exact_mod_cast hle
    have r0 := Py.round_mono 6 hq0
    have r1 := Py.round_mono 6 hq1
    have e0 : Py.round (0 : ℚ) 6 = 0 := by simpa using Py.round_intCast 0 6
    have e1 : Py.round (1 : ℚ) 6 = 1 := by simpa using Py.round_intCast 1 6
    rw [e0] at r0; rw [e1] at r1
    rw [← h]; exact ⟨r0, r1⟩

/-- whatever the inputs: a value returned by the fast route lies in [0,1] -/
theorem fnatFast_unit {ref : List Atom} {lines : List Str} {c v : Rat} (h : fnatFast ref lines c = .ok v) : 0 ≤ v ∧ v ≤ 1 := by
  unfold fnatFast at h
  cases h1 : residuePairsRef ref c with
  | error e => simp [h1, bind, Except.bind] at h
  | ok D =>
    cases h2 : readDecoy lines with
    | error e => simp [h1, h2, bind, Except.bind] at h
    | ok data =>
      cases h3 : D.foldlM (countA c data.xyz) (0, 0) with
      | error e => simp [h1, h2, h3, bind, Except.bind] at h
      | ok n =>
        simp only [h1, h2, h3, bind, Except.bind] at h
        have hle := foldlM_invariant (fun n : Counters => n.1 ≤ n.2) (fun s x s' => countA_le c data.xyz s x s') D (0, 0) n h3 (le_refl _)
        obtain ⟨nC, nT⟩ := n
        exact ratio_unit h hle

theorem length_distinctFirst_le {α : Type} [DecidableEq α] : ∀ (l : List α), (distinctFirst l).length ≤ l.length
  | [] => le_refl _
  | x :: xs => by
    simp only [distinctFirst, List.length_cons]
    have := length_distinctFirst_le xs
    have h2 := List.length_filter_le (fun y => decide (y ≠ x)) (distinctFirst xs)
    omega

theorem nCommonSql_le (ref dec : List (ResKey × ResKey)) : nCommonSql ref dec ≤ ref.length := by
  unfold nCommonSql
  exact le_trans (List.length_filter_le _ _) (length_distinctFirst_le ref)

/-- whatever the inputs: a value returned by the SQL route lies in [0,1] -/
theorem fnatSql_unit {ref dec : List Atom} {c v : Rat} (h : fnatSql ref dec c = .ok v) : 0 ≤ v ∧ v ≤ 1 := by
  unfold fnatSql at h
  cases h1 : fixChainID dec with
  | error e => simp [h1, bind, Except.bind] at h
  | ok dec' =>
    cases h2 : fixChainID ref with
    | error e => simp [h1, h2, bind, Except.bind] at h
    | ok ref' =>
      simp only [h1, h2, bind, Except.bind] at h
      split at h
      · rename_i c1 c2 _
        cases h3 : contactResiduePairs dec' (pairArgs c c1 c2) with
        | error e => simp [h3] at h
        | ok Dd =>
          cases h4 : contactResiduePairs ref' (pairArgs c c1 c2) with
          | error e => simp [h3, h4] at h
          | ok Dr =>
            simp only [h3, h4] at h
            exact ratio_unit h (nCommonSql_le _ _)
      · simp [throw, throwThe, MonadExceptOf.throw] at h

/-- the definition gives 1 when the decoy is the reference (and there is a reference contact) -/
theorem spec_fnat_self (c : Rat) (ref : List Atom) (h : contacts c ref ≠ []) : Spec.C08.fnat c ref ref = some 1 := by
  have hp : preserved c ref ref = contacts c ref := by
    unfold preserved
    rw [List.filter_eq_self]
    rintro ⟨r₁, r₂⟩ hr
    exact (mem_contacts.1 hr).2
  unfold Spec.C08.fnat
  have he : (contacts c ref).isEmpty = false := by
    cases hc : contacts c ref with
    | nil => exact absurd hc h
    | cons _ _ => rfl
  simp only [he, Bool.false_eq_true, if_false, hp]
  have hn : ((contacts c ref).length : ℚ) ≠ 0 := by
    have : (contacts c ref).length ≠ 0 := fun h0 => h (List.length_eq_zero_iff.1 h0)
    exact_mod_cast this
  rw [div_self hn]
  congr 1
  simpa using Py.round_intCast 1 6

end Proofs.Fnat
