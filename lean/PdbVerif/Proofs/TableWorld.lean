/- Helper lemma for the world model of C15: a step never removes an object. -/
import PdbVerif.Proofs.TableAssign
import PdbVerif.Model.TableWorld

set_option linter.unusedVariables false
set_option linter.unusedSimpArgs false

namespace TableProofs
open Tbl Model

theorem wstep_length (rt : Table → Table) (w : World) (op : WOp) : w.length ≤ (wstep rt w op).1.length := by
  cases op with
  | modify k m =>
    simp only [wstep]
    cases w[k]? <;> simp
  | deriveSub k kw => simp only [wstep]; cases derive rt w (.deriveSub k kw) <;> simp
  | deriveInterface k => simp only [wstep]; cases derive rt w (.deriveInterface k) <;> simp
  | deriveMany ks => simp only [wstep]; cases derive rt w (.deriveMany ks) <;> simp


end TableProofs
