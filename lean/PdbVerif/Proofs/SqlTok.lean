/-
  MicroSql's tokenizer on concatenated text: the lemmas with which the token list of a statement text assembled by
  `+` / `.format` / `.join` is computed piece by piece (helper lemmas; the theorems are in Proofs/SqlTie.lean).
-/
import PdbVerif.Proofs.TableBasic
import PdbVerif.Model.MicroSql

set_option linter.unusedVariables false
set_option linter.unusedSimpArgs false

namespace SqlProofs
open Tbl Model MicroSql

/-! ### the tokenizer on concatenations -/

def NoQuote (s : Py.Str) : Prop := ∀ c ∈ s, c ≠ quote
def WordChars (s : Py.Str) : Prop := ∀ c ∈ s, isDelim c = false
/-- empty, or the first character ends a word -/
def StartsDelim (s : Py.Str) : Prop := s = [] ∨ ∃ c r, s = c :: r ∧ isDelim c = true

theorem flush_append (cur : Py.Str) (ts : List Tok) : flush cur ts = flush cur [] ++ ts := by
  unfold flush; by_cases h : cur.isEmpty <;> simp [h]

theorem wordChars_noQuote {s : Py.Str} (h : WordChars s) : NoQuote s := by
  intro c hc hq; have := h c hc; subst hq; revert this; decide

theorem tok_cons_word (c : Char) (cs cur : Py.Str) (h : isDelim c = false) :
    tok (c :: cs) cur none = tok cs (c :: cur) none := by
  simp only [isDelim, Bool.or_eq_false_iff] at h
  obtain ⟨⟨h1, h2⟩, h3⟩ := h
  have h2' : punct c = none := by cases hp : punct c <;> simp_all
  rw [tok]; simp [h1, h2', h3]

theorem tok_word (w : Py.Str) : ∀ (rest cur : Py.Str), WordChars w → tok (w ++ rest) cur none = tok rest (w.reverse ++ cur) none := by
  induction w with
  | nil => intro rest cur _; rfl
  | cons c w ih =>
    intro rest cur h
    rw [List.cons_append, tok_cons_word c _ _ (h c (by simp)), ih _ _ (fun x hx => h x (by simp [hx]))]
    simp

/-- a word being read is closed by a delimiter (or the end) -/
theorem tok_flush (b cur : Py.Str) (hb : StartsDelim b) : tok b cur none = flush cur [] ++ tok b [] none := by
  rcases hb with rfl | ⟨c, r, rfl, hc⟩
  · simp [tok, flush]
  · rw [tok, tok]
    by_cases h1 : c = quote
    · simp only [h1, beq_self_eq_true, if_true]; rw [flush_append cur]; simp [flush]
    · simp only [h1, beq_iff_eq, if_false]
      by_cases h2 : sqlSpace c = true
      · simp only [h2, if_true]; rw [flush_append cur]; simp [flush]
      · simp only [h2, if_false, Bool.false_eq_true]
        cases hp : punct c with
        | some t => simp only []; rw [flush_append cur]; simp [flush]
        | none => exfalso; simp [isDelim, hp, h1, h2] at hc

theorem tok_append (a : Py.Str) : ∀ (b cur : Py.Str), NoQuote a → StartsDelim b →
    tok (a ++ b) cur none = tok a cur none ++ tok b [] none := by
  induction a with
  | nil => intro b cur _ hb; rw [List.nil_append, tok_flush b cur hb]; simp [tok]
  | cons c a ih =>
    intro b cur hq hb
    have hq' : NoQuote a := fun x hx => hq x (by simp [hx])
    have hc : c ≠ quote := hq c (by simp)
    rw [List.cons_append, tok, tok]
    simp only [hc, beq_iff_eq, if_false]
    by_cases h2 : sqlSpace c = true
    · simp only [h2, if_true]; rw [ih b [] hq' hb, flush_append cur, flush_append cur (tok a [] none)]; simp
    · simp only [h2, if_false, Bool.false_eq_true]
      cases hp : punct c with
      | some t => simp only []; rw [ih b [] hq' hb, flush_append cur, flush_append cur (t :: tok a [] none)]; simp
      | none => simp only []; exact ih b _ hq' hb

theorem tokenize_append (a b : Py.Str) (ha : NoQuote a) (hb : StartsDelim b) : tokenize (a ++ b) = tokenize a ++ tokenize b :=
  tok_append a b [] ha hb

theorem tokenize_space (b : Py.Str) : tokenize (' ' :: b) = tokenize b := by
  unfold tokenize; rw [tok]; simp [quote, sqlSpace, flush]

/-- `a ++ " " ++ b` -/
theorem tokenize_append_space (a b : Py.Str) (ha : NoQuote a) : tokenize (a ++ ' ' :: b) = tokenize a ++ tokenize b := by
  rw [tokenize_append a _ ha (Or.inr ⟨' ', b, rfl, by decide⟩), tokenize_space]

theorem tokenize_punct (c : Char) (t : Tok) (b : Py.Str) (hp : punct c = some t) : tokenize (c :: b) = t :: tokenize b := by
  have hq : c ≠ quote := by intro h; subst h; simp [punct, quote] at hp
  have hs : sqlSpace c = false := by
    cases hs : sqlSpace c with
    | false => rfl
    | true =>
      exfalso
      simp only [sqlSpace, Bool.or_eq_true, beq_iff_eq] at hs
      rcases hs with ((((rfl | rfl) | rfl) | rfl) | rfl) | rfl <;> simp [punct] at hp
  unfold tokenize; rw [tok]; simp [hq, hs, hp, flush]

theorem tokenize_append_punct (a : Py.Str) (c : Char) (t : Tok) (b : Py.Str) (ha : NoQuote a) (hp : punct c = some t) :
    tokenize (a ++ c :: b) = tokenize a ++ t :: tokenize b := by
  rw [tokenize_append a _ ha (Or.inr ⟨c, b, rfl, by simp [isDelim, hp]⟩), tokenize_punct c t b hp]

theorem tokenize_word (w : Py.Str) (hne : w ≠ []) (hw : WordChars w) : tokenize w = [.word w] := by
  have := tok_word w [] [] hw
  rw [List.append_nil] at this
  unfold tokenize; rw [this, tok]
  simp [flush, hne]


/-! ### names -/

theorem delim_cases (c : Char) (h : isDelim c = true) :
    c = ' ' ∨ c = '\t' ∨ c = '\n' ∨ c = '\x0b' ∨ c = '\x0c' ∨ c = '\r' ∨ c = '*' ∨ c = ',' ∨ c = '(' ∨ c = ')' ∨ c = '?' ∨ c = '=' ∨ c = ';' ∨ c = quote := by
  simp only [isDelim, sqlSpace, Bool.or_eq_true, beq_iff_eq] at h
  rcases h with (h | h) | h
  · rcases h with ((((h | h) | h) | h) | h) | h <;> simp [h]
  · unfold punct at h
    by_cases h1 : c = '*'; · simp [h1]
    by_cases h2 : c = ','; · simp [h2]
    by_cases h3 : c = '('; · simp [h3]
    by_cases h4 : c = ')'; · simp [h4]
    by_cases h5 : c = '?'; · simp [h5]
    by_cases h6 : c = '='; · simp [h6]
    by_cases h7 : c = ';'; · simp [h7]
    simp [h1, h2, h3, h4, h5, h6, h7] at h
  · simp [h]

theorem identChar_not_delim (c : Char) (h : isIdentChar c = true) : isDelim c = false := by
  cases hd : isDelim c with
  | false => rfl
  | true =>
    exfalso
    rcases delim_cases c hd with h | h | h | h | h | h | h | h | h | h | h | h | h | h <;> subst h <;> revert h <;> decide

theorem identChar_not_pyspace (c : Char) (h : isIdentChar c = true) : Py.isSpace c = false := by
  cases hd : Py.isSpace c with
  | false => rfl
  | true =>
    exfalso
    simp only [Py.isSpace, Bool.or_eq_true, beq_iff_eq] at hd
    rcases hd with ((((((((h | h) | h) | h) | h) | h) | h) | h) | h) | h <;> subst h <;> revert h <;> decide

theorem isIdent_chars (w : Py.Str) (h : isIdent w = true) : w ≠ [] ∧ ∀ c ∈ w, isIdentChar c = true := by
  cases w with
  | nil => simp [isIdent] at h
  | cons c t =>
    simp only [isIdent, Bool.and_eq_true, List.all_eq_true] at h
    exact ⟨by simp, h.2⟩

theorem isName_ident (w : Py.Str) (h : isName w = true) : isIdent w = true := by
  simp only [isName, Bool.and_eq_true] at h; exact h.1

theorem isName_word (w : Py.Str) (h : isName w = true) : w ≠ [] ∧ WordChars w := by
  obtain ⟨h1, h2⟩ := isIdent_chars w (isName_ident w h)
  exact ⟨h1, fun c hc => identChar_not_delim c (h2 c hc)⟩

theorem isName_not_kw (w : Py.Str) (h : isName w = true) (k : String) (hk : reserved.contains k.toList = true) : isKw k w = false := by
  simp only [isName, Bool.and_eq_true, Bool.not_eq_true'] at h
  cases hkw : isKw k w with
  | false => rfl
  | true =>
    simp only [isKw, beq_iff_eq] at hkw
    rw [hkw, hk] at h
    exact absurd h.2 (by simp)

theorem tokenize_name (w : Py.Str) (h : isName w = true) : tokenize w = [.word w] :=
  tokenize_word w (isName_word w h).1 (isName_word w h).2

/-! ### padded names (the pieces of a column list) -/

/-- `p` is `m` with SQL blanks around it -/
def Padded (p m : Py.Str) : Prop := ∃ l r, p = l ++ m ++ r ∧ (∀ c ∈ l, sqlSpace c = true) ∧ (∀ c ∈ r, sqlSpace c = true)

theorem tok_spaces (l : Py.Str) (hl : ∀ c ∈ l, sqlSpace c = true) (s : Py.Str) : tok (l ++ s) [] none = tok s [] none := by
  induction l with
  | nil => rfl
  | cons c l ih =>
    have hc := hl c (by simp)
    have hq : c ≠ quote := by
      intro h; subst h; revert hc; decide
    rw [List.cons_append, tok]
    simp only [hq, beq_iff_eq, if_false, hc, if_true, flush, List.isEmpty_nil]
    exact ih (fun x hx => hl x (by simp [hx]))

theorem sqlSpace_delim (c : Char) (h : sqlSpace c = true) : isDelim c = true := by simp [isDelim, h]

theorem tokenize_padded (p m : Py.Str) (hp : Padded p m) (hm : isName m = true) : tokenize p = [.word m] := by
  obtain ⟨l, r, rfl, hl, hr⟩ := hp
  unfold tokenize
  rw [List.append_assoc, tok_spaces l hl]
  have hsd : StartsDelim r := by
    cases r with
    | nil => exact Or.inl rfl
    | cons c r' => exact Or.inr ⟨c, r', rfl, sqlSpace_delim c (hr c (by simp))⟩
  rw [tok_append m r [] (wordChars_noQuote (isName_word m hm).2) hsd]
  have h1 := tokenize_name m hm
  unfold tokenize at h1
  rw [h1]
  have h2 := tok_spaces r hr []
  rw [List.append_nil] at h2
  rw [h2]; rfl

theorem padded_noQuote (p m : Py.Str) (hp : Padded p m) (hm : isName m = true) : NoQuote p := by
  obtain ⟨l, r, rfl, hl, hr⟩ := hp
  intro c hc
  simp only [List.mem_append] at hc
  rcases hc with (hc | hc) | hc
  · intro h; subst h; have := hl _ hc; revert this; decide
  · exact wordChars_noQuote (isName_word m hm).2 c hc
  · intro h; subst h; have := hr _ hc; revert this; decide

theorem mem_takeWhile_imp' {α : Type} (q : α → Bool) : ∀ (l : List α) (c : α), c ∈ l.takeWhile q → q c = true
  | [], c, h => by simp at h
  | a :: l, c, h => by
    by_cases ha : q a = true
    · rw [List.takeWhile_cons_of_pos ha] at h
      rcases List.mem_cons.1 h with rfl | h
      · exact ha
      · exact mem_takeWhile_imp' q l c h
    · rw [List.takeWhile_cons_of_neg ha] at h; simp at h

theorem padded_trim (p : Py.Str) : Padded p (trimSql p) := by
  refine ⟨p.takeWhile sqlSpace, (((p.dropWhile sqlSpace).reverse.takeWhile sqlSpace).reverse), ?_, ?_, ?_⟩
  · unfold trimSql
    rw [List.append_assoc, ← List.reverse_append, List.takeWhile_append_dropWhile, List.reverse_reverse,
      List.takeWhile_append_dropWhile]
  · intro c hc; exact mem_takeWhile_imp' _ _ _ hc
  · intro c hc; rw [List.mem_reverse] at hc; exact mem_takeWhile_imp' _ _ _ hc

theorem sqlSpace_pyspace (c : Char) (h : sqlSpace c = true) : Py.isSpace c = true := by
  simp only [sqlSpace, Bool.or_eq_true, beq_iff_eq] at h
  rcases h with ((((h | h) | h) | h) | h) | h <;> subst h <;> decide

theorem dropWhile_prefix {α : Type} (q : α → Bool) (l : List α) (hl : ∀ c ∈ l, q c = true) (s : List α) :
    (l ++ s).dropWhile q = s.dropWhile q := by
  induction l with
  | nil => rfl
  | cons c l ih => rw [List.cons_append, List.dropWhile_cons_of_pos (hl c (by simp))]; exact ih (fun x hx => hl x (by simp [hx]))

/-- Python's `strip` of a padded name is the name -/
theorem strip_padded (p m : Py.Str) (hp : Padded p m) (hm : isName m = true) : Py.strip p = m := by
  obtain ⟨l, r, rfl, hl, hr⟩ := hp
  obtain ⟨hne, hch⟩ := isIdent_chars m (isName_ident m hm)
  have hns : ∀ c ∈ m, Py.isSpace c = false := fun c hc => identChar_not_pyspace c (hch c hc)
  unfold Py.strip Py.lstrip Py.rstrip
  rw [List.append_assoc, dropWhile_prefix _ l (fun c hc => sqlSpace_pyspace c (hl c hc))]
  have h1 : (m ++ r).dropWhile Py.isSpace = m ++ r := by
    cases m with
    | nil => exact absurd rfl hne
    | cons c t => rw [List.cons_append, List.dropWhile_cons_of_neg (by simp [hns c (by simp)])]
  rw [h1, List.reverse_append, dropWhile_prefix _ r.reverse (fun c hc => sqlSpace_pyspace c (hr c (List.mem_reverse.1 hc)))]
  have h2 : m.reverse.dropWhile Py.isSpace = m.reverse := by
    cases hmr : m.reverse with
    | nil => rfl
    | cons c t =>
      have : c ∈ m := by rw [← List.mem_reverse, hmr]; simp
      rw [List.dropWhile_cons_of_neg (by simp [hns c this])]
  rw [h2, List.reverse_reverse]

end SqlProofs
