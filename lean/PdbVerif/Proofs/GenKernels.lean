/-
  Tie #1 for the NumPy glue kernels: every definition that `py/translate_ext_kernels.py` generates from the current
  source (`Gen/Kernels.lean`, namespace `GenK`) is proved equal to the hand model the property theorems are stated
  about (`Model.kabschCore`, `Model.kabsch`, `Model.rotate`, `Model.superposeSelection`, `Model.alignMats`/`applyMats`,
  `Model.Rmsd.meanSq`, …), so C06 / C07 / C10 / C13 / C18 transfer to the generated code.  The proofs unfold both sides and
  finish by `rfl` / `simp` on the operations: they do not mention the names of local variables, so a refactor that keeps
  the function keeps the proof, and a source edit that changes the function makes the corresponding theorem fail.
  Helper lemmas and the equivalences only.
-/
import Mathlib.Analysis.SpecialFunctions.Trigonometric.Basic
import PdbVerif.Gen.Kernels
import PdbVerif.Model.RmsdValue
import PdbVerif.Proofs.Align
import PdbVerif.Props.C06
import PdbVerif.Props.C10

set_option linter.unusedSectionVars false
set_option linter.unusedVariables false
set_option linter.style.nameCheck false

namespace Proofs.GenKernels
open Py Model

/-! ### the NumPy operations of `Py/Np.lean` against the primitives of the hand models (no algebra needed) -/
section ops
variable {α : Type} [Add α] [Sub α] [Mul α] [Neg α] [Div α] [NatCast α] [OfNat α 0] [OfNat α 1] [OfNat α 2]

theorem np_sum0 (X : List (Vec3 α)) : Np.sum0 X = vsum X := by
  induction X with
  | nil => rfl
  | cons p X ih => simp only [Np.sum0, vsum, ih]

theorem np_mean0 (X : List (Vec3 α)) : Np.mean0 X = mean X := by
  simp only [Np.mean0, mean, np_sum0]

theorem np_outerSum (P Q : List (Vec3 α)) : Np.outerSum P Q = dotPtQ P Q := by
  induction P generalizing Q with
  | nil => rfl
  | cons p P ih => cases Q with
    | nil => rfl
    | cons q Q => simp only [Np.outerSum, dotPtQ, ih]

theorem np_cov (P Q : List (Vec3 α)) (n : α) : Np.mdiv (Np.dotTP (Np.T P) Q) n = divScalar (dotPtQ P Q) n := by
  simp only [Np.dotTP, Np.T, np_outerSum]; rfl

theorem np_sumSq (P Q : List (Vec3 α)) : Np.sumAll (Np.psquare (Np.psub P Q)) = Rmsd.sumSq P Q := by
  induction P generalizing Q with
  | nil => rfl
  | cons p P ih => cases Q with
    | nil => rfl
    | cons q Q =>
      have := ih Q
      simp only [Np.psquare] at this
      simp only [Np.psub, Np.psquare, List.map_cons, Np.sumAll, Rmsd.sumSq, this]
      rfl

/-- `np.dot(M, (X - c).T).T + c` is `rotateAbout` -/
theorem np_rotateAbout (M : Mat3 α) (c : Vec3 α) (X : List (Vec3 α)) :
    Np.addRow (Np.PointsT.T (Np.dotMT M (Np.T (Np.subRow X c)))) c = rotateAbout M c X := by
  simp only [Np.addRow, Np.PointsT.T, Np.dotMT, Np.T, Np.subRow, rotateAbout, List.map_map]
  rfl

/-! ### transform.py / superpose.py: coordinate arithmetic -/

theorem genk_get_trans_vect_eq_model (X : List (Vec3 α)) : GenK.get_trans_vect X = Vec3.neg (mean X) := by
  simp only [GenK.get_trans_vect, np_mean0]

theorem genk_rotate_eq_model (X : List (Vec3 α)) (M : Mat3 α) (c : Option (Vec3 α)) :
    GenK.rotate X M c = rotate M c X := by
  cases c <;> simp only [GenK.rotate, rotate, np_rotateAbout, np_mean0]

theorem genk_rot_xyz_around_axis_eq_model (cos sin : α → α) (X : List (Vec3 α)) (u : Vec3 α) (angle : α)
    (c : Option (Vec3 α)) :
    GenK.rot_xyz_around_axis cos sin X u angle c = rotAxis (cos angle) (sin angle) u c X := by
  simp only [GenK.rot_xyz_around_axis, rotAxis, genk_rotate_eq_model]
  rfl

theorem genk_rotation_euler_eq_model (cos sin : α → α) (X : List (Vec3 α)) (a b g : α) (c : Option (Vec3 α)) :
    GenK.rotation_euler cos sin X a b g c = rotEuler (cos a) (sin a) (cos b) (sin b) (cos g) (sin g) c X := by
  simp only [GenK.rotation_euler, rotEuler, genk_rotate_eq_model]
  rfl

/-- the database-level functions: `_update(db, f(_get_xyz(db, **kwargs)), **kwargs)` with `f` the model's array function -/
theorem genk_translation_eq_model {δ κ ρ : Type} (get : δ → κ → List (Vec3 α)) (upd : δ → List (Vec3 α) → κ → ρ)
    (db : δ) (v : Vec3 α) (kw : κ) :
    GenK.translation get upd db v kw = upd db (translate v (get db kw)) kw := rfl

theorem genk_rot_axis_eq_model {δ κ ρ : Type} (cos sin : α → α) (get : δ → κ → List (Vec3 α))
    (upd : δ → List (Vec3 α) → κ → ρ) (db : δ) (u : Vec3 α) (angle : α) (kw : κ) :
    GenK.rot_axis cos sin get upd db u angle kw = upd db (rotAxis (cos angle) (sin angle) u none (get db kw)) kw := by
  simp only [GenK.rot_axis, genk_rot_xyz_around_axis_eq_model]

theorem genk_rot_euler_eq_model {δ κ ρ : Type} (cos sin : α → α) (get : δ → κ → List (Vec3 α))
    (upd : δ → List (Vec3 α) → κ → ρ) (db : δ) (a b g : α) (kw : κ) :
    GenK.rot_euler cos sin get upd db a b g kw =
      upd db (rotEuler (cos a) (sin a) (cos b) (sin b) (cos g) (sin g) none (get db kw)) kw := by
  simp only [GenK.rot_euler, genk_rotation_euler_eq_model]

theorem genk_rot_mat_eq_model {δ κ ρ : Type} (get : δ → κ → List (Vec3 α)) (upd : δ → List (Vec3 α) → κ → ρ)
    (db : δ) (M : Mat3 α) (kw : κ) :
    GenK.rot_mat get upd db M kw = upd db (rotate M none (get db kw)) kw := by
  simp only [GenK.rot_mat, genk_rotate_eq_model]

/-- `superpose_selection`; `get_rotation_matrix(·, ·, method=method)` is the model's rotation kernel -/
theorem genk_superpose_selection_eq_model {μ : Type} (grm : List (Vec3 α) → List (Vec3 α) → μ → Except Err (Mat3 α))
    (xyz selMob selTar : List (Vec3 α)) (method : μ) :
    GenK.superpose_selection grm xyz selMob selTar method =
      superposeSelection (fun p q => grm p q method) xyz selMob selTar := by
  simp only [GenK.superpose_selection, superposeSelection, genk_get_trans_vect_eq_model, genk_rotate_eq_model, rotate,
    Np.addRow, Np.subRow]
  cases grm _ _ method <;> rfl

/-- `get_rmsd` without `round(np.sqrt(·), 3)` is the model's radicand -/
theorem genk_get_rmsd_radicand_eq_model (P Q : List (Vec3 α)) : GenK.get_rmsd_radicand P Q = Rmsd.meanSq P Q := by
  simp only [GenK.get_rmsd_radicand, Rmsd.meanSq, np_sumSq]

/-- what `get_rmsd` applies to the radicand, outermost first -/
theorem genk_get_rmsd_wrappers : GenK.get_rmsd_wrappers = ["round(., 3)", "np.sqrt(.)"] := rfl

/-- `get_rotation_angle`: `phi = arctan2(y, x)`, `theta = arccos(z / ‖v‖)` -/
theorem genk_get_rotation_angle_eq_model (norm : Vec3 α → α) (arctan2 : α → α → α) (arccos : α → α) (v : Vec3 α) :
    GenK.get_rotation_angle norm arctan2 arccos v = (arctan2 v.y v.x, arccos (v.z / norm v)) := rfl

end ops

/-! ### Kabsch -/
section ordered
variable {α : Type} [Add α] [Sub α] [Mul α] [Neg α] [Div α] [NatCast α] [OfNat α 0] [OfNat α 1] [OfNat α 2]
  [LT α] [DecidableLT α]

/-- the statements of `get_rotation_matrix_Kabsh` after the guards: the covariance, the call of `svd`, and `kabschCore` -/
theorem genk_kabsch_core_eq_model (svd : Mat3 α → Mat3 α × Vec3 α × Mat3 α) (P Q : List (Vec3 α)) (npts : Nat) :
    GenK.kabsch_core svd P Q npts =
      kabschCore (svd (divScalar (dotPtQ P Q) ((npts : Nat) : α))).1 (svd (divScalar (dotPtQ P Q) ((npts : Nat) : α))).2.2 := by
  simp only [GenK.kabsch_core, kabschCore, np_cov]

theorem np_uncentred (eps : α) (P : List (Vec3 α)) : Np.any3 (Np.vgt (Np.vabs (Np.mean0 P)) eps) = uncentred eps P := by
  simp only [np_mean0]; rfl

/-- the whole function (on a non-empty point set: the model reports the empty one as outside the property) -/
theorem genk_get_rotation_matrix_Kabsh_eq_model (svd : Mat3 α → Mat3 α × Vec3 α × Mat3 α) (eps : α)
    (P Q : List (Vec3 α)) (hP : P.length ≠ 0) :
    GenK.get_rotation_matrix_Kabsh svd eps P Q = kabsch svd eps P Q := by
  simp only [GenK.get_rotation_matrix_Kabsh, kabsch, guards, Np.shape, np_uncentred, np_cov, covariance, kabschCore]
  by_cases hn : P.length = Q.length
  · simp only [hn, ne_eq, not_true_eq_false, if_false, if_true]
    rw [← hn]
    simp only [hP, if_false]
    cases hu : (uncentred eps P || uncentred eps Q)
    · simp only [Bool.false_eq_true, if_false]
    · simp only [if_true]
  · simp only [hn, ne_eq, not_false_eq_true, if_true, if_false]

/-- the float literal of the centring guard is the translated constant `Gen.kabsch_eps` -/
theorem genk_get_rotation_matrix_Kabsh_lits : GenK.get_rotation_matrix_Kabsh_lits = [Gen.kabsch_eps] := rfl

end ordered

/-! ### align.py -/

/-- what `_align_along_axis` needs of `np.cos`, `np.sin`, `np.pi` -/
structure TrigContract {α : Type} [Field α] (cos sin : α → α) (pi : α) : Prop where
  cos_neg : ∀ x, cos (-x) = cos x
  sin_neg : ∀ x, sin (-x) = -sin x
  cos_half_sub : ∀ x, cos (pi / 2 - x) = sin x
  sin_half_sub : ∀ x, sin (pi / 2 - x) = cos x
  cos_sub_half : ∀ x, cos (x - pi / 2) = sin x
  sin_sub_half : ∀ x, sin (x - pi / 2) = -cos x

theorem trigContract_real : TrigContract Real.cos Real.sin Real.pi :=
  ⟨Real.cos_neg, Real.sin_neg, Real.cos_pi_div_two_sub, Real.sin_pi_div_two_sub, Real.cos_sub_pi_div_two,
   Real.sin_sub_pi_div_two⟩

/-- the model of `_align_along_axis`: the matrices `Model.alignMats` reads from the source, applied in turn
    (`Model.alignPcaVect` without the database); an axis other than x, y, z raises `ValueError` -/
def alignModel {α : Type} [Add α] [Sub α] [Mul α] [Neg α] [Div α] [NatCast α] [IntCast α] [OfNat α 0] [OfNat α 1]
    [OfNat α 2] (cp sp ct st : α) (axis : String) (X : List (Vec3 α)) : Except Err (List (Vec3 α)) :=
  match alignMats cp sp ct st axis with
  | none => .error .valueError
  | some mats => .ok (applyMats mats X)

section field
variable {α : Type} [Field α] [LinearOrder α] [IsStrictOrderedRing α]

theorem alignMats_other (cp sp ct st : α) (axis : String) (hx : axis ≠ "x") (hy : axis ≠ "y") (hz : axis ≠ "z") :
    alignMats cp sp ct st axis = none := by
  have : alignSteps axis = none := by
    simp [alignSteps, Gen.align_steps, List.find?, Ne.symm hx, Ne.symm hy, Ne.symm hz]
  simp [alignMats, this]

/-- `_align_along_axis(xyz, axis, phi, theta)` is the model's two successive rotations read from the same source;
    an axis other than x, y, z raises `ValueError` -/
theorem genk__align_along_axis_eq_model {cos sin : α → α} {pi : α} (h : TrigContract cos sin pi)
    (X : List (Vec3 α)) (axis : String) (phi theta : α) :
    GenK._align_along_axis cos sin pi X axis phi theta =
      alignModel (cos phi) (sin phi) (cos theta) (sin theta) axis X := by
  simp only [alignModel, GenK._align_along_axis, genk_rot_xyz_around_axis_eq_model, h.cos_neg, h.sin_neg, h.cos_half_sub,
    h.sin_half_sub, h.cos_sub_half, h.sin_sub_half]
  by_cases hx : axis = "x"
  · subst hx; simp only [if_true, Proofs.Align.mats_x]; rfl
  by_cases hy : axis = "y"
  · subst hy; simp only [hx, if_false, if_true, Proofs.Align.mats_y]; rfl
  by_cases hz : axis = "z"
  · subst hz; simp only [hx, hy, if_false, if_true, Proofs.Align.mats_z]; rfl
  simp only [hx, hy, hz, if_false, alignMats_other _ _ _ _ axis hx hy hz]

end field

/-- over ℝ with the real cosine, sine and π -/
theorem genk__align_along_axis_real (X : List (Vec3 ℝ)) (axis : String) (phi theta : ℝ) :
    GenK._align_along_axis Real.cos Real.sin Real.pi X axis phi theta =
      alignModel (Real.cos phi) (Real.sin phi) (Real.cos theta) (Real.sin theta) axis X :=
  genk__align_along_axis_eq_model trigContract_real X axis phi theta

/-! ### database level: the translated `translation / rot_axis / rot_euler / rot_mat` and `align_pca_vect`'s array step
    against `Model.transform` / `Model.alignPcaVect`, with `_get_xyz`, `_update` the model's `get` / `update` -/

/-- `_get_xyz(db, **sel)` -/
def dbGet (db : List Atom) (sel : Sel) : List (Vec3 Rat) := getXYZ sel db
/-- `_update(db, xyz, **sel)` -/
def dbUpdate (db : List Atom) (xyz : List (Vec3 Rat)) (sel : Sel) : Except Err (List Atom) := updateXYZ sel xyz db

theorem genk_translation_eq_model_db (v : Vec3 Rat) (sel : Sel) (db : List Atom) (h : (getXYZ sel db).length ≠ 0) :
    GenK.translation dbGet dbUpdate db v sel = transform (.translation v) sel db := by
  simp only [genk_translation_eq_model, transform, dbGet, dbUpdate, h, if_false, Transform.onXYZ]

theorem genk_rot_axis_eq_model_db (cos sin : Rat → Rat) (u : Vec3 Rat) (angle : Rat) (sel : Sel) (db : List Atom)
    (h : (getXYZ sel db).length ≠ 0) :
    GenK.rot_axis cos sin dbGet dbUpdate db u angle sel = transform (.rotAxis (cos angle) (sin angle) u) sel db := by
  simp only [genk_rot_axis_eq_model, transform, dbGet, dbUpdate, h, if_false, Transform.onXYZ]

theorem genk_rot_euler_eq_model_db (cos sin : Rat → Rat) (a b g : Rat) (sel : Sel) (db : List Atom)
    (h : (getXYZ sel db).length ≠ 0) :
    GenK.rot_euler cos sin dbGet dbUpdate db a b g sel =
      transform (.rotEuler (cos a) (sin a) (cos b) (sin b) (cos g) (sin g)) sel db := by
  simp only [genk_rot_euler_eq_model, transform, dbGet, dbUpdate, h, if_false, Transform.onXYZ]

theorem genk_rot_mat_eq_model_db (M : Mat3 Rat) (sel : Sel) (db : List Atom) (h : (getXYZ sel db).length ≠ 0) :
    GenK.rot_mat dbGet dbUpdate db M sel = transform (.rotMat M) sel db := by
  simp only [genk_rot_mat_eq_model, transform, dbGet, dbUpdate, h, if_false, Transform.onXYZ]

/-- `align_pca_vect` = get, the (translated) `_align_along_axis`, update -/
theorem alignPcaVect_eq_alignModel (cp sp ct st : Rat) (axis : String) (db : List Atom)
    (h : (getXYZ selAll db).length ≠ 0) :
    alignPcaVect cp sp ct st axis db =
      match alignModel cp sp ct st axis (getXYZ selAll db) with
      | .error e => .error e
      | .ok xyz => updateXYZ selAll xyz db := by
  unfold alignPcaVect alignModel
  cases alignMats cp sp ct st axis <;> simp only [h, if_false]

/-! ### transfer: the property theorems, restated about the generated definitions -/
section transfer
variable {α : Type} [Field α] [LinearOrder α] [IsStrictOrderedRing α]
open Spec Proofs.Guards

/-- C06 *proper*, about the generated `get_rotation_matrix_Kabsh` -/
theorem genk_kabsch_proper (svd : Mat3 α → Mat3 α × Vec3 α × Mat3 α) (eps : α) (P Q : List (Vec3 α)) (U : Mat3 α)
    (hP : P.length ≠ 0) (hsvd : SvdOK svd P Q) (h : GenK.get_rotation_matrix_Kabsh svd eps P Q = .ok U) :
    IsRotation U :=
  Props.C06.kabsch_proper svd eps P Q U hsvd (genk_get_rotation_matrix_Kabsh_eq_model svd eps P Q hP ▸ h)

/-- C06 *optimal* (trace form), about the generated `get_rotation_matrix_Kabsh` -/
theorem genk_kabsch_optimal (svd : Mat3 α → Mat3 α × Vec3 α × Mat3 α) (eps : α) (P Q : List (Vec3 α)) (U : Mat3 α)
    (hP : P.length ≠ 0) (hsvd : SvdOK svd P Q) (h : GenK.get_rotation_matrix_Kabsh svd eps P Q = .ok U) :
    ∀ R : Mat3 α, IsRotation R → Mat3.tr (R.mul (covariance P Q)) ≤ Mat3.tr (U.mul (covariance P Q)) :=
  Props.C06.kabsch_optimal svd eps P Q U hsvd (genk_get_rotation_matrix_Kabsh_eq_model svd eps P Q hP ▸ h)

/-- C10 *inverse*, about the generated `rotate` -/
theorem genk_rotate_inverse {M : Mat3 α} (hM : Orthogonal M) (c : Vec3 α) (X : List (Vec3 α)) :
    GenK.rotate (GenK.rotate X M (some c)) M.T (some c) = X := by
  rw [genk_rotate_eq_model, genk_rotate_eq_model]
  exact Props.C10.rotate_inverse hM c X

end transfer

/-! ### non-vacuity: the generated definitions run (over ℚ) and give what the model gives on the C06 example -/

example : GenK.get_rotation_matrix_Kabsh Props.C06.exSvd Gen.kabsch_eps Props.C06.exP Props.C06.exQ = .ok Mat3.one := by
  rw [genk_get_rotation_matrix_Kabsh_eq_model _ _ _ _ (by decide)]
  rw [Proofs.Guards.kabsch_ok_iff]
  refine ⟨?_, ?_⟩
  · rw [Proofs.Guards.guards_ok_iff]
    refine ⟨rfl, by decide, ?_, ?_⟩ <;>
      (simp [uncentred, Model.mean, Model.vsum, Props.C06.exP, Props.C06.exQ, Vec3.add, Vec3.zero, absv, Gen.kabsch_eps]; norm_num)
  · simp [kabschCore, Props.C06.exSvd, Mat3.mul, Mat3.T, Mat3.one, Mat3.diag, Mat3.det]

example : GenK.rotate [⟨1, 0, 0⟩, ⟨3, 0, 0⟩] (⟨0, -1, 0, 1, 0, 0, 0, 0, 1⟩ : Mat3 ℚ) none = [⟨2, -1, 0⟩, ⟨2, 1, 0⟩] := by
  simp [GenK.rotate, Np.mean0, Np.sum0, Np.addRow, Np.subRow, Np.dotMT, Np.T, Np.PointsT.T, Mat3.mulVec, Vec3.add,
    Vec3.sub, Vec3.zero]
  norm_num

end Proofs.GenKernels
