/-
  Normal forms of the GENERATED many2sql / interface functions (Gen/Many.lean, namespace GenM), for EVERY instance `X : GenM.Ext`
  of the external methods.  One lemma per generated unit; the loop lemmas are in continuation-passing form and take the loop body
  from the goal by unification, so no proof quotes generated text.  Everything in Proofs/GenMany.lean is built on these.
-/
import PdbVerif.Gen.Many
import Mathlib.Tactic.Common

set_option linter.unusedVariables false
set_option linter.unusedSimpArgs false

namespace Proofs.GenMany
open Tbl GenM

theorem ok_bind {ε α β : Type} (a : α) (f : α → Except ε β) : (Except.ok a >>= f) = f a := rfl
theorem error_bind {ε α β : Type} (e : ε) (f : α → Except ε β) : ((Except.error e : Except ε α) >>= f) = Except.error e := rfl
theorem pure_eq_ok {ε α : Type} (a : α) : (pure a : Except ε α) = Except.ok a := rfl
theorem bind_ok {ε α : Type} (x : Except ε α) : (x >>= fun a => Except.ok a) = x := by cases x <;> rfl
theorem throw_eq_error {ε α : Type} (e : ε) : (throw e : Except ε α) = Except.error e := rfl

/-- `convert_input`: a database object is exported (default table of `sql2pdb`, no selection), anything else is passed on -/
theorem convert_input_nf (X : Ext) (e : Elem X.Data) :
    convert_input X e = (match e with
      | .obj db => (match X.sql2pdb db sql2pdb_tablename [] with | .ok d => .ok (.data d) | .error err => .error err)
      | e => .ok e) := by
  cases e with
  | obj db =>
    simp only [convert_input, Rt.isObj, Rt.sql2pdb, if_true, Bool.false_eq_true, if_false, pure_eq_ok, ok_bind]
    try (cases X.sql2pdb db sql2pdb_tablename [] <;> rfl)
  | _ => simp only [convert_input, Rt.isObj, Rt.sql2pdb, if_true, Bool.false_eq_true, if_false, pure_eq_ok, ok_bind]

theorem foldlM_append_bind {ε α β γ : Type} {f : List β → α → Except ε (List β)} (g : α → Except ε β)
    (hf : ∀ acc x, f acc x = (g x >>= fun t => pure (acc ++ [t]))) :
    ∀ (l : List α) (init : List β) (k : List β → Except ε γ),
      (List.foldlM f init l >>= k) = (l.mapM g >>= fun ys => k (init ++ ys))
  | [], init, k => by simp [pure_eq_ok, ok_bind]
  | x :: xs, init, k => by
    rw [List.foldlM_cons, hf, List.mapM_cons]
    cases hg : g x with
    | error e => rfl
    | ok t =>
      simp only [ok_bind, pure_eq_ok, bind_assoc]
      rw [foldlM_append_bind g hf xs (init ++ [t]) k]
      simp [List.append_assoc, pure_eq_ok, ok_bind]

theorem get_all_eq_model (X : Ext) (self : Db) (columns : Py.Str) (kw : List Kw) :
    get_all X self columns kw = Model.get_all self columns kw := by
  unfold get_all Model.get_all
  simp only [Rt.get_table_names]
  rw [foldlM_append_bind (fun n => Model.get self columns n kw) (fun acc x => rfl)]
  simp only [List.mapM_map, pure_eq_ok, List.nil_append, Function.comp_def]
  cases List.mapM (fun t : Tab => Model.get self columns t.name kw) self.tabs <;> rfl

/-- `interface.__init__`: a database object is exported first; then `pdb2sql.__init__` -/
theorem interface_init_nf (X : Ext) (pdb : Elem X.Data) (kw : InitKw X.Data) :
    interface_init X pdb kw = (convert_input X pdb >>= fun d => Rt.pdb2sql_init X pdb2sql_init_tablename d kw) := by
  rw [convert_input_nf]
  cases pdb <;> simp only [interface_init, Rt.isObj, Rt.sql2pdb, if_true, Bool.false_eq_true, if_false, pure_eq_ok, ok_bind]
  case obj db =>
    cases X.sql2pdb db sql2pdb_tablename [] <;> simp only [ok_bind, error_bind]

/-- `many2sql([e], tablenames=[n])`: one table -/
theorem init_single (X : Ext) (e : Elem X.Data) (n : Py.Str) :
    many2sql_init X (.list [e]) (.list [.str n]) =
      (convert_input X e >>= fun d => Rt.pdb2sql_init X pdb2sql_init_tablename d (some (.str n))) := by
  simp only [many2sql_init, Rt.isList, Rt.isNone, Rt.iter, Rt.isStr, Rt.len, Rt.getItem, Bool.not_true, Bool.false_eq_true, if_false, Bool.not_false,
    if_true, pure_eq_ok, ok_bind, List.foldlM_cons, List.foldlM_nil, List.length_singleton, Nat.sub_self, List.range'_zero,
    List.getElem?_cons_zero]
  cases convert_input X e with
  | error err => rfl
  | ok d =>
    simp only [ok_bind]
    cases Rt.pdb2sql_init X pdb2sql_init_tablename d (some (.str n)) <;> rfl

/-- a loop whose first turn creates the object (`first` flag, `new_db` unbound before): the first element goes through `A`, the others
    through `B`; the loop body is taken from the goal -/
theorem foldlM_flag_tail {ε σ α : Type} {F : Option σ × Bool → α → Except ε (Option σ × Bool)} (B : σ → α → Except ε σ)
    (hB : ∀ s x, F (some s, false) x = (B s x >>= fun s' => pure (some s', false))) :
    ∀ (l : List α) (s : σ), List.foldlM F (some s, false) l = (List.foldlM B s l >>= fun s' => pure (some s', false))
  | [], s => rfl
  | x :: xs, s => by
    rw [List.foldlM_cons, hB, List.foldlM_cons]
    cases B s x with
    | error e => rfl
    | ok s' => simp only [ok_bind, pure_eq_ok]; exact foldlM_flag_tail B hB xs s'

theorem foldlM_first {ε σ α β : Type} {F : Option σ × Bool → α → Except ε (Option σ × Bool)}
    (A : α → Except ε σ) (B : σ → α → Except ε σ)
    (hA : ∀ o x, F (o, true) x = (A x >>= fun s => pure (some s, false)))
    (hB : ∀ s x, F (some s, false) x = (B s x >>= fun s' => pure (some s', false)))
    (l : List α) (o : Option σ) (k : Option σ × Bool → Except ε β) :
    (List.foldlM F (o, true) l >>= k) =
      (match l with
       | [] => k (o, true)
       | x :: xs => A x >>= fun s => List.foldlM B s xs >>= fun s' => k (some s', false)) := by
  cases l with
  | nil => rfl
  | cons x xs =>
    rw [List.foldlM_cons, hA]
    show _ = (A x >>= fun s => List.foldlM B s xs >>= fun s' => k (some s', false))
    cases A x with
    | error e => rfl
    | ok s =>
      simp only [ok_bind, pure_eq_ok]
      rw [foldlM_flag_tail B hB xs s]
      cases List.foldlM B s xs <;> rfl

/-- `many2sql.__call__`: the first table through `many2sql([data], tablenames=[name])`, the others through `_create_table`;
    no table at all: `new_db` is never bound -/
theorem call_nf (X : Ext) (self : Db) (kw : List Kw) :
    many2sql_call X self kw =
      (match self.tabs with
       | [] => .error (.unmodelled "UnboundLocalError")
       | t0 :: rest =>
         (Rt.sql2pdb X (.obj self) t0.name kw >>= fun d => many2sql_init X (.list [d]) (.list [.str t0.name])) >>= fun db0 =>
         List.foldlM (fun db (t : Tab) => Rt.sql2pdb X (.obj self) t.name kw >>= fun d => Rt.create_table X db d (.str t.name)) db0 rest) := by
  unfold many2sql_call
  simp only [Rt.get_table_names]
  rw [foldlM_first (fun n => Rt.sql2pdb X (.obj self) n kw >>= fun d => many2sql_init X (.list [d]) (.list [.str n]))
    (fun db n => Rt.sql2pdb X (.obj self) n kw >>= fun d => Rt.create_table X db d (.str n))
    (by intro o x; simp only [bind_assoc, pure_bind, if_true, Rt.bound])
    (by intro s x; simp only [bind_assoc, pure_bind, Bool.false_eq_true, if_false, Rt.bound, pure_eq_ok, ok_bind])]
  cases self.tabs with
  | nil => rfl
  | cons t0 rest =>
    simp only [List.map_cons, Rt.bound, pure_eq_ok, ok_bind, List.foldlM_map, bind_ok]

/-- `many2sql.intersect`: the `*` query, then per structure `data2pdb`; the first table through `many2sql([..], tablenames=[name])`, the
    others through `_create_table` -/
theorem intersect_nf (X : Ext) (self : Db) (m : List Py.Str) :
    intersect X self m =
      (Rt.get_intersection self ['*'] m >>= fun all_data =>
        match List.zip (self.tabs.map (·.name)) all_data with
        | [] => .error (.unmodelled "UnboundLocalError")
        | p0 :: rest =>
          (Rt.data2pdb X p0.2 >>= fun e => many2sql_init X (.list [e]) (.list [.str p0.1])) >>= fun db0 =>
          List.foldlM (fun db (p : Py.Str × List (List Val)) => Rt.data2pdb X p.2 >>= fun e => Rt.create_table X db e (.str p.1)) db0 rest) := by
  unfold intersect
  simp only [Rt.get_table_names]
  cases Rt.get_intersection self ['*'] m with
  | error e => rfl
  | ok all_data =>
    simp only [ok_bind]
    rw [foldlM_first (fun (p : Py.Str × List (List Val)) => Rt.data2pdb X p.2 >>= fun e => many2sql_init X (.list [e]) (.list [.str p.1]))
      (fun db (p : Py.Str × List (List Val)) => Rt.data2pdb X p.2 >>= fun e => Rt.create_table X db e (.str p.1))
      (by intro o x; simp only [bind_assoc, pure_bind, if_true, Rt.bound])
      (by intro s x; simp only [bind_assoc, pure_bind, Bool.false_eq_true, if_false, Rt.bound, pure_eq_ok, ok_bind])]
    cases List.zip (List.map (fun x => x.name) self.tabs) all_data with
    | nil => rfl
    | cons p0 rest => simp only [Rt.bound, pure_eq_ok, ok_bind, bind_ok]

/-! ### `many2sql.__init__` -/

/-- the loop that only checks: `for x in l: if not p(x): raise e` -/
theorem foldlM_guard {ε α : Type} {F : Unit → α → Except ε Unit} (p : α → Bool) (e : ε)
    (hF : ∀ u x, F u x = if p x then .ok () else .error e) :
    ∀ (l : List α), List.foldlM F () l = if l.all p then .ok () else .error e
  | [] => rfl
  | x :: xs => by
    rw [List.foldlM_cons, hF]
    cases hp : p x with
    | false => simp [hp]; rfl
    | true => simp only [if_true, ok_bind, List.all_cons, hp, Bool.true_and]; exact foldlM_guard p e hF xs

/-- the loop that appends: `for x in l: a.append(g(x))` -/
theorem foldlM_append_arg {D α : Type} {F : Arg D → α → Except Err (Arg D)} (g : α → Elem D)
    (hF : ∀ l x, F (.list l) x = .ok (.list (l ++ [g x]))) :
    ∀ (xs : List α) (l : List (Elem D)), List.foldlM F (.list l) xs = .ok (.list (l ++ xs.map g))
  | [], l => by simp [pure_eq_ok]
  | x :: xs, l => by
    rw [List.foldlM_cons, hF, ok_bind, foldlM_append_arg g hF xs]
    simp

/-- default table names: `ATOM`, `ATOM1`, `ATOM2`, … -/
def defaultNames (D : Type) (n : Nat) : List (Elem D) :=
  .str ['A', 'T', 'O', 'M'] :: (List.range' 1 (n - 1)).map (fun i => Elem.str (['A', 'T', 'O', 'M'] ++ Py.intStr (Int.ofNat i)))

/-- the tables after the first: the next input is converted, THEN its name is looked up (IndexError when the names run out), then the
    table is created -/
def createRest (X : Ext) : Db → List (Elem X.Data) → List (Elem X.Data) → Except Err Db
  | db, [], _ => .ok db
  | db, p :: ps, names =>
    convert_input X p >>= fun d =>
      match names with
      | [] => .error .indexError
      | t :: ts => Rt.create_table X db d t >>= fun db' => createRest X db' ps ts

/-- all tables: the first through `pdb2sql.__init__`, the others through `_create_table` -/
def createAll (X : Ext) (ps names : List (Elem X.Data)) : Except Err Db :=
  match ps with
  | [] => .error .indexError
  | p0 :: ps' =>
    convert_input X p0 >>= fun d0 =>
      match names with
      | [] => .error .indexError
      | t0 :: ts => Rt.pdb2sql_init X pdb2sql_init_tablename d0 (some t0) >>= fun db0 => createRest X db0 ps' ts

theorem getItem_append_length {D : Type} (pre l : List (Elem D)) (s : Nat) (h : pre.length = s) :
    Rt.getItem (.list (pre ++ l)) s = (match l with | [] => .error .indexError | x :: _ => .ok x) := by
  subst h
  cases l <;> simp [Rt.getItem]

/-- the index loop `for i in range(s, n): create(convert(pdbfiles[i]), names[i])` is `createRest` on the remaining inputs and names -/
theorem foldlM_index (X : Ext) {F : Db → Nat → Except Err Db} :
    ∀ (ps ts pre_p pre_t : List (Elem X.Data)) (s : Nat) (db : Db), pre_p.length = s → pre_t.length = s →
      (∀ db i, F db i = (Rt.getItem (.list (pre_p ++ ps)) i >>= fun p => convert_input X p >>= fun d =>
        Rt.getItem (.list (pre_t ++ ts)) i >>= fun t => Rt.create_table X db d t)) →
      List.foldlM F db (List.range' s ps.length) = createRest X db ps ts
  | [], ts, pre_p, pre_t, s, db, _, _, _ => rfl
  | p :: ps, ts, pre_p, pre_t, s, db, hp, ht, hF => by
    rw [List.length_cons, List.range'_succ, List.foldlM_cons, hF, getItem_append_length _ _ _ hp, getItem_append_length _ _ _ ht]
    simp only [ok_bind, createRest]
    cases convert_input X p with
    | error e => rfl
    | ok d =>
      simp only [ok_bind]
      cases ts with
      | nil => rfl
      | cons t ts' =>
        simp only [ok_bind]
        cases Rt.create_table X db d t with
        | error e => rfl
        | ok db' =>
          simp only [ok_bind]
          exact foldlM_index X ps ts' (pre_p ++ [p]) (pre_t ++ [t]) (s + 1) db' (by simp [hp]) (by simp [ht])
            (by intro db i; rw [hF]; simp)

/-- the tail of `__init__`: first table, then the index loop -/
theorem create_tail (X : Ext) (ps names : List (Elem X.Data)) {F : Db → Nat → Except Err Db}
    (hF : ∀ db i, F db i = (Rt.getItem (.list ps) i >>= fun p => convert_input X p >>= fun d =>
        Rt.getItem (.list names) i >>= fun t => Rt.create_table X db d t)) :
    (Rt.getItem (.list ps) 0 >>= fun t10 => convert_input X t10 >>= fun t11 => Rt.getItem (.list names) 0 >>= fun t12 =>
      Rt.pdb2sql_init X pdb2sql_init_tablename t11 (some t12) >>= fun self =>
      List.foldlM F self (List.range' 1 (ps.length - 1)) >>= fun r16 => Except.ok r16) = createAll X ps names := by
  cases ps with
  | nil => rfl
  | cons p0 ps' =>
    simp only [Rt.getItem, List.getElem?_cons_zero, ok_bind, createAll, bind_ok, List.length_cons, Nat.add_sub_cancel]
    cases convert_input X p0 with
    | error e => rfl
    | ok d0 =>
      simp only [ok_bind]
      cases names with
      | nil => rfl
      | cons t0 ts =>
        simp only [List.getElem?_cons_zero, ok_bind]
        cases Rt.pdb2sql_init X pdb2sql_init_tablename d0 (some t0) with
        | error e => rfl
        | ok db0 =>
          simp only [ok_bind]
          exact foldlM_index X ps' ts [p0] [t0] 1 db0 rfl rfl (by intro db i; rw [hF]; rfl)

/-- **`many2sql.__init__` in closed form**: the type checks and their TypeErrors, the default names, then the tables in input order -/
theorem init_nf (X : Ext) (pdbfiles tablenames : Arg X.Data) :
    many2sql_init X pdbfiles tablenames =
      (match pdbfiles with
       | .list ps =>
         (match tablenames with
          | .none => .ok (defaultNames X.Data ps.length)
          | .list ts => if ts.all Rt.isStr then .ok ts else .error .typeError
          | .other => .error .typeError) >>= fun names => createAll X ps names
       | _ => .error .typeError) := by
  unfold many2sql_init
  cases pdbfiles with
  | none => rfl
  | other => rfl
  | list ps =>
    simp only [Rt.isList, Bool.not_true, Bool.false_eq_true, if_false, pure_eq_ok, ok_bind, Rt.len]
    cases tablenames with
    | other => rfl
    | none =>
      simp only [Rt.isNone, Bool.not_true, Bool.false_eq_true, if_false, if_true, pure_eq_ok, ok_bind]
      rw [foldlM_append_arg (fun i => Elem.str (['A', 'T', 'O', 'M'] ++ Py.intStr (Int.ofNat i))) (fun l x => rfl)]
      simp only [ok_bind]
      exact create_tail X ps _ (fun db i => rfl)
    | list ts =>
      simp only [Rt.isNone, Rt.isList, Rt.iter, Bool.not_false, Bool.not_true, Bool.false_eq_true, if_false, if_true, pure_eq_ok, ok_bind]
      rw [foldlM_guard Rt.isStr Model.Err.typeError (by intro u x; cases h : Rt.isStr x <;> simp [h] <;> rfl)]
      cases ts.all Rt.isStr with
      | false => rfl
      | true =>
        simp only [if_true, ok_bind]
        exact create_tail X ps ts (fun db i => rfl)
end Proofs.GenMany
