/-
  C19 side of the SQL tie, part 2: the text of the translated `get_intersection` query (`joinText`) tokenized and parsed by
  MicroSql: it is the statement `select t.c… from t1 INNER JOIN t2 … on t1.a=t2.a and …;` with the fields, tables and ON
  conditions of the nested loops of the source (`joinStmt`).  The plain single-table SELECT parser rejects the text first.
-/
import PdbVerif.Proofs.SqlJoinGen

set_option linter.unusedVariables false
set_option linter.unusedSimpArgs false

namespace SqlProofs
open Tbl Model MicroSql GenSql

/-! ### the join text, tokenized -/

/-- token lists joined by a separator token list -/
def inter (st : List Tok) : List (List Tok) → List Tok
  | [] => []
  | [a] => a
  | a :: b :: t => a ++ st ++ inter st (b :: t)

theorem startsDelim_append (a b : Py.Str) (h : StartsDelim a) (hne : a ≠ []) : StartsDelim (a ++ b) := by
  rcases h with rfl | ⟨c, r, rfl, hc⟩
  · exact absurd rfl hne
  · exact Or.inr ⟨c, r ++ b, rfl, hc⟩

/-- `sep.join(text of every item) ++ rest`, item by item -/
theorem tokenize_join {ι : Type} (sep : Py.Str) (st : List Tok) (hne : sep ≠ []) (hsd : StartsDelim sep)
    (hsep : ∀ r, tokenize (sep ++ r) = st ++ tokenize r) (text : ι → Py.Str) (toks : ι → List Tok) :
    ∀ (items : List ι), (∀ x ∈ items, ∀ r, StartsDelim r → tokenize (text x ++ r) = toks x ++ tokenize r) →
    ∀ (rest : Py.Str), StartsDelim rest →
      tokenize (Rt.join sep (items.map text) ++ rest) = inter st (items.map toks) ++ tokenize rest
  | [], _, rest, _ => by simp [Rt.join, inter]
  | [a], h, rest, hr => by simp only [Rt.join, List.map_cons, List.map_nil, inter]; exact h a (by simp) rest hr
  | a :: b :: t, h, rest, hr => by
    have ih := tokenize_join sep st hne hsd hsep text toks (b :: t) (fun x hx => h x (by simp [hx])) rest hr
    simp only [List.map_cons] at ih ⊢
    rw [Rt.join, List.append_assoc, List.append_assoc,
      h a (by simp) _ (startsDelim_append _ _ hsd hne), hsep, ih]
    simp [inter]

theorem tokenize_name_append (n r : Py.Str) (hn : isName n = true) (hr : StartsDelim r) :
    tokenize (n ++ r) = [.word n] ++ tokenize r := by
  rw [tokenize_append n r (name_noQuote n hn) hr, tokenize_name n hn]

theorem dot_word : isDelim '.' = false := by decide

theorem wordChars_append {a b : Py.Str} (ha : WordChars a) (hb : WordChars b) : WordChars (a ++ b) := by
  intro c hc; rcases List.mem_append.1 hc with h | h
  · exact ha c h
  · exact hb c h

theorem wordChars_dot : WordChars ['.'] := by intro c hc; simp at hc; subst hc; decide

theorem tokenize_word_append (w r : Py.Str) (hne : w ≠ []) (hw : WordChars w) (hr : StartsDelim r) :
    tokenize (w ++ r) = [.word w] ++ tokenize r := by
  rw [tokenize_append w r (wordChars_noQuote hw) hr, tokenize_word w hne hw]

/-- the tokens of one selected field `n.c` / `n.*` -/
def fieldToks (n c : Py.Str) : List Tok := if c = ['*'] then [.word (n ++ ['.']), .star] else [.word (n ++ ['.'] ++ c)]

theorem tokenize_field (n c r : Py.Str) (hn : isName n = true) (hc : c = ['*'] ∨ isName c = true) (hr : StartsDelim r) :
    tokenize ((n ++ ['.'] ++ c) ++ r) = fieldToks n c ++ tokenize r := by
  have hnw := (isName_word n hn).2
  unfold fieldToks
  by_cases hs : c = ['*']
  · subst hs
    have e : (n ++ ['.'] ++ ['*']) ++ r = (n ++ ['.']) ++ '*' :: r := by simp
    rw [e]
    simp only [if_true]
    rw [tokenize_append_punct _ '*' .star _ (wordChars_noQuote (wordChars_append hnw wordChars_dot)) (by decide),
      tokenize_word _ (by simp) (wordChars_append hnw wordChars_dot)]
    rfl
  · have hc' : isName c = true := by rcases hc with h | h; exact absurd h hs; exact h
    simp only [hs, if_false]
    exact tokenize_word_append _ r (by simp) (wordChars_append (wordChars_append hnw wordChars_dot) (isName_word c hc').2) hr

/-- the tokens of one ON condition `t1.a=t2.a` -/
def eqToks (a : Py.Str) (p : Py.Str × Py.Str) : List Tok := [.word (p.1 ++ ['.'] ++ a), .eq, .word (p.2 ++ ['.'] ++ a)]

theorem tokenize_eqText (a : Py.Str) (p : Py.Str × Py.Str) (r : Py.Str) (ha : isName a = true) (h1 : isName p.1 = true)
    (h2 : isName p.2 = true) (hr : StartsDelim r) : tokenize (eqText a p ++ r) = eqToks a p ++ tokenize r := by
  have w1 : WordChars (p.1 ++ ['.'] ++ a) := wordChars_append (wordChars_append (isName_word _ h1).2 wordChars_dot) (isName_word a ha).2
  have w2 : WordChars (p.2 ++ ['.'] ++ a) := wordChars_append (wordChars_append (isName_word _ h2).2 wordChars_dot) (isName_word a ha).2
  unfold eqText eqToks
  have e : (p.1 ++ ['.'] ++ a ++ ['='] ++ p.2 ++ ['.'] ++ a) ++ r = (p.1 ++ ['.'] ++ a) ++ '=' :: ((p.2 ++ ['.'] ++ a) ++ r) := by simp
  rw [e, tokenize_append_punct _ '=' .eq _ (wordChars_noQuote w1) (by decide), tokenize_word _ (by simp) w1,
    tokenize_word_append _ r (by simp) w2 hr]
  rfl

def kINNER : Py.Str := ['I', 'N', 'N', 'E', 'R']
def kJOIN : Py.Str := ['J', 'O', 'I', 'N']
def kselect : Py.Str := ['s', 'e', 'l', 'e', 'c', 't']
def kfrom : Py.Str := ['f', 'r', 'o', 'm']
def kon : Py.Str := ['o', 'n']
def kand : Py.Str := ['a', 'n', 'd']

/-- the token list of the statement `get_intersection` sends -/
def joinToks (names pieces mnames : List Py.Str) : List Tok :=
  .word kselect :: (inter [.comma] ((names.flatMap (fun n => pieces.map (fun c => (n, c)))).map (fun f => fieldToks f.1 f.2)) ++
    .word kfrom :: (inter [.word kINNER, .word kJOIN] (names.map (fun n => [Tok.word n])) ++
      ((if eqTexts names mnames = [] then [] else
          .word kon :: inter [.word kand] ((mnames.flatMap (fun a => (pairsOf names).map (fun p => (a, p)))).map (fun e => eqToks e.1 e.2))) ++
        [.semi])))

theorem mem_pairsOf {α : Type} : ∀ (l : List α) (p : α × α), p ∈ pairsOf l → p.1 ∈ l ∧ p.2 ∈ l
  | [], p, h => by simp [pairsOf] at h
  | a :: rest, p, h => by
    simp only [pairsOf, List.mem_append, List.mem_map] at h
    rcases h with ⟨b, hb, rfl⟩ | h
    · exact ⟨by simp, by simp [hb]⟩
    · obtain ⟨h1, h2⟩ := mem_pairsOf rest p h
      exact ⟨by simp [h1], by simp [h2]⟩

/-- the hypotheses on the names that occur in the statement: plain identifiers; every column piece a plain identifier or `*` -/
structure JoinPlain (names pieces mnames : List Py.Str) : Prop where
  names : ∀ n ∈ names, isName n = true
  pieces : ∀ c ∈ pieces, c = ['*'] ∨ isName c = true
  mnames : ∀ a ∈ mnames, isName a = true

theorem tokenize_joinText (names pieces mnames : List Py.Str) (hp : JoinPlain names pieces mnames) :
    tokenize (joinText names pieces mnames) = joinToks names pieces mnames := by
  have hcomma : ∀ r, tokenize ([',', ' '] ++ r) = [Tok.comma] ++ tokenize r := by
    intro r; show tokenize (',' :: ' ' :: r) = _
    rw [tokenize_punct ',' .comma _ (by decide), tokenize_space]; rfl
  have hjoin : ∀ r, tokenize ([' ', 'I', 'N', 'N', 'E', 'R', ' ', 'J', 'O', 'I', 'N', ' '] ++ r) = [Tok.word kINNER, Tok.word kJOIN] ++ tokenize r := by
    intro r; show tokenize (' ' :: (['I', 'N', 'N', 'E', 'R'] ++ ' ' :: (['J', 'O', 'I', 'N'] ++ ' ' :: r))) = _
    rw [tokenize_space, tokenize_append_space _ _ (by decide), tokenize_append_space _ _ (by decide)]; rfl
  have hand : ∀ r, tokenize ([' ', 'a', 'n', 'd', ' '] ++ r) = [Tok.word kand] ++ tokenize r := by
    intro r; show tokenize (' ' :: (['a', 'n', 'd'] ++ ' ' :: r)) = _
    rw [tokenize_space, tokenize_append_space _ _ (by decide)]; rfl
  have hF : ∀ rest, StartsDelim rest → tokenize (Rt.join [',', ' '] (fieldTexts names pieces) ++ rest) =
      inter [.comma] ((names.flatMap (fun n => pieces.map (fun c => (n, c)))).map (fun f => fieldToks f.1 f.2)) ++ tokenize rest := by
    intro rest hr
    have e : fieldTexts names pieces = (names.flatMap (fun n => pieces.map (fun c => (n, c)))).map (fun f => f.1 ++ ['.'] ++ f.2) := by
      unfold fieldTexts; simp [List.map_flatMap, List.map_map, Function.comp_def]
    rw [e]
    apply tokenize_join [',', ' '] [.comma] (by simp) (Or.inr ⟨',', _, rfl, by decide⟩) hcomma
    · intro f hf r hr'
      simp only [List.mem_flatMap, List.mem_map] at hf
      obtain ⟨n, hn, c, hc, rfl⟩ := hf
      exact tokenize_field n c r (hp.names n hn) (hp.pieces c hc) hr'
    · exact hr
  have hT : ∀ rest, StartsDelim rest → tokenize (Rt.join [' ', 'I', 'N', 'N', 'E', 'R', ' ', 'J', 'O', 'I', 'N', ' '] names ++ rest) =
      inter [.word kINNER, .word kJOIN] (names.map (fun n => [Tok.word n])) ++ tokenize rest := by
    intro rest hr
    have := tokenize_join [' ', 'I', 'N', 'N', 'E', 'R', ' ', 'J', 'O', 'I', 'N', ' '] [.word kINNER, .word kJOIN] (by simp)
      (Or.inr ⟨' ', _, rfl, by decide⟩) hjoin (fun n : Py.Str => n) (fun n => [Tok.word n]) names
      (fun n hn r hr' => tokenize_name_append n r (hp.names n hn) hr') rest hr
    simpa using this
  have hE : ∀ rest, StartsDelim rest → tokenize (Rt.join [' ', 'a', 'n', 'd', ' '] (eqTexts names mnames) ++ rest) =
      inter [.word kand] ((mnames.flatMap (fun a => (pairsOf names).map (fun p => (a, p)))).map (fun e => eqToks e.1 e.2)) ++ tokenize rest := by
    intro rest hr
    have e : eqTexts names mnames = (mnames.flatMap (fun a => (pairsOf names).map (fun p => (a, p)))).map (fun e => eqText e.1 e.2) := by
      unfold eqTexts; simp [List.map_flatMap, List.map_map, Function.comp_def]
    rw [e]
    apply tokenize_join [' ', 'a', 'n', 'd', ' '] [.word kand] (by simp) (Or.inr ⟨' ', _, rfl, by decide⟩) hand
    · intro f hf r hr'
      simp only [List.mem_flatMap, List.mem_map] at hf
      obtain ⟨a, ha, p, hpp, rfl⟩ := hf
      obtain ⟨m1, m2⟩ := mem_pairsOf names p hpp
      exact tokenize_eqText a p r (hp.mnames a ha) (hp.names _ m1) (hp.names _ m2) hr'
    · exact hr
  have hsemi : tokenize [';'] = [Tok.semi] := by decide
  unfold joinText joinToks
  have e0 : ['s', 'e', 'l', 'e', 'c', 't', ' '] ++ Rt.join [',', ' '] (fieldTexts names pieces) ++ [' '] ++
      (['f', 'r', 'o', 'm', ' '] ++ Rt.join [' ', 'I', 'N', 'N', 'E', 'R', ' ', 'J', 'O', 'I', 'N', ' '] names ++ [' ']) ++
      ((if eqTexts names mnames = [] then [] else ['o', 'n', ' '] ++ Rt.join [' ', 'a', 'n', 'd', ' '] (eqTexts names mnames)) ++ [';']) =
      ['s', 'e', 'l', 'e', 'c', 't'] ++ ' ' :: (Rt.join [',', ' '] (fieldTexts names pieces) ++ ' ' :: (['f', 'r', 'o', 'm'] ++ ' ' ::
        (Rt.join [' ', 'I', 'N', 'N', 'E', 'R', ' ', 'J', 'O', 'I', 'N', ' '] names ++ ' ' ::
          ((if eqTexts names mnames = [] then [] else ['o', 'n', ' '] ++ Rt.join [' ', 'a', 'n', 'd', ' '] (eqTexts names mnames)) ++ [';'])))) := by
    simp
  rw [e0, tokenize_append_space _ _ (by decide), hF _ (Or.inr ⟨' ', _, rfl, by decide⟩), tokenize_space,
    tokenize_append_space _ _ (by decide), hT _ (Or.inr ⟨' ', _, rfl, by decide⟩), tokenize_space]
  by_cases he : eqTexts names mnames = []
  · simp only [he, if_true, List.nil_append, hsemi]; rfl
  · simp only [he, if_false]
    have e1 : ['o', 'n', ' '] ++ Rt.join [' ', 'a', 'n', 'd', ' '] (eqTexts names mnames) ++ [';'] =
        ['o', 'n'] ++ ' ' :: (Rt.join [' ', 'a', 'n', 'd', ' '] (eqTexts names mnames) ++ [';']) := by simp
    rw [e1, tokenize_append_space _ _ (by decide), hE _ (Or.inr ⟨';', _, rfl, by decide⟩), hsemi]
    rfl


/-! ### the join text, parsed -/

theorem isKw_dot (k : String) (w : Py.Str) (hk : '.' ∉ k.toList) (hw : '.' ∈ w) : isKw k w = false := by
  cases h : isKw k w with
  | false => rfl
  | true =>
    exfalso
    simp only [isKw, beq_iff_eq] at h
    apply hk
    rw [← h]
    unfold Py.lower
    exact List.mem_map.2 ⟨'.', hw, by decide⟩

theorem splitDot_name (t c : Py.Str) (ht : isName t = true) : splitDot (t ++ '.' :: c) = some (t, c) := by
  unfold splitDot
  have hnd : ∀ x ∈ t, (x != '.') = true := by
    intro x hx
    have := (isIdent_chars t (isName_ident t ht)).2 x hx
    cases hxd : (x != '.') with
    | true => rfl
    | false =>
      exfalso
      simp only [bne_eq_false_iff_eq] at hxd
      subst hxd; revert this; decide
  rw [List.takeWhile_append_of_pos hnd, List.dropWhile_append_of_pos hnd]
  simp

theorem qualified_ok (t c : Py.Str) (ht : isName t = true) (hc : isName c = true) : qualified (t ++ ['.'] ++ c) = .ok (t, c) := by
  unfold qualified
  have e : t ++ ['.'] ++ c = t ++ '.' :: c := by simp
  rw [e, splitDot_name t c ht]
  simp [ident_ok t ht, ident_ok c hc, bind, Except.bind, pure, Except.pure]

/-- the field a column piece denotes -/
def fieldOf (f : Py.Str × Py.Str) : Field := { table := f.1, col := if f.2 = ['*'] then none else some f.2 }

theorem parseField_ok (n c : Py.Str) (hn : isName n = true) (hc : c = ['*'] ∨ isName c = true) :
    parseField (fieldToks n c) = .ok (fieldOf (n, c)) := by
  unfold fieldToks fieldOf
  by_cases hs : c = ['*']
  · subst hs
    simp only [if_true, parseField]
    have e : n ++ ['.'] = n ++ '.' :: [] := rfl
    rw [e, splitDot_name n [] hn]
    simp [ident_ok n hn, bind, Except.bind, pure, Except.pure]
  · have hc' : isName c = true := by rcases hc with h | h; exact absurd h hs; exact h
    simp only [hs, if_false, parseField, qualified_ok n c hn hc', bind, Except.bind, pure, Except.pure]

def eqOf (e : Py.Str × Py.Str × Py.Str) : JoinEq := { t1 := e.2.1, a1 := e.1, t2 := e.2.2, a2 := e.1 }

theorem parseEq_ok (a : Py.Str) (p : Py.Str × Py.Str) (ha : isName a = true) (h1 : isName p.1 = true) (h2 : isName p.2 = true) :
    parseEq (eqToks a p) = .ok (eqOf (a, p)) := by
  simp only [eqToks, parseEq, qualified_ok _ _ h1 ha, qualified_ok _ _ h2 ha, bind, Except.bind, pure, Except.pure, eqOf]

theorem fieldToks_no_kw (k : String) (hk : '.' ∉ k.toList) (n c : Py.Str) : ∀ x ∈ fieldToks n c, isWordKw k x = false := by
  intro x hx
  unfold fieldToks at hx
  by_cases hs : c = ['*']
  · simp only [hs, if_true, List.mem_cons, List.not_mem_nil, or_false] at hx
    rcases hx with rfl | rfl
    · exact isKw_dot k _ hk (by simp)
    · rfl
  · simp only [hs, if_false, List.mem_singleton] at hx
    subst hx
    exact isKw_dot k _ hk (by simp)

theorem fieldToks_no_comma (n c : Py.Str) : ∀ x ∈ fieldToks n c, isComma x = false := by
  intro x hx
  unfold fieldToks at hx
  by_cases hs : c = ['*']
  · simp only [hs, if_true, List.mem_cons, List.not_mem_nil, or_false] at hx
    rcases hx with rfl | rfl <;> rfl
  · simp only [hs, if_false, List.mem_singleton] at hx
    subst hx; rfl

theorem eqToks_no_kw (k : String) (hk : '.' ∉ k.toList) (a : Py.Str) (p : Py.Str × Py.Str) : ∀ x ∈ eqToks a p, isWordKw k x = false := by
  intro x hx
  simp only [eqToks, List.mem_cons, List.not_mem_nil, or_false] at hx
  rcases hx with rfl | rfl | rfl
  · exact isKw_dot k _ hk (by simp)
  · rfl
  · exact isKw_dot k _ hk (by simp)

theorem mem_inter (st : List Tok) : ∀ (items : List (List Tok)) (x : Tok), x ∈ inter st items → x ∈ st ∨ ∃ it ∈ items, x ∈ it
  | [], x, h => by simp [inter] at h
  | [a], x, h => by simp only [inter] at h; exact Or.inr ⟨a, by simp, h⟩
  | a :: b :: t, x, h => by
    simp only [inter, List.mem_append] at h
    rcases h with (h | h) | h
    · exact Or.inr ⟨a, by simp, h⟩
    · exact Or.inl h
    · rcases mem_inter st (b :: t) x h with h' | ⟨it, hit, hx⟩
      · exact Or.inl h'
      · exact Or.inr ⟨it, by simp [List.mem_cons] at hit ⊢; exact Or.inr hit, hx⟩

/-- single-token separators: the pieces of the separated list are the items -/
theorem pieces_inter (sep : Tok → Bool) (s : Tok) (hs : sep s = true) : ∀ (items : List (List Tok)), items ≠ [] →
    (∀ it ∈ items, ∀ x ∈ it, sep x = false) → pieces sep (inter [s] items) = items
  | [], h, _ => absurd rfl h
  | [a], _, h => by simp only [inter]; exact pieces_none sep a (h a (by simp))
  | a :: b :: t, _, h => by
    simp only [inter, List.append_assoc, List.singleton_append]
    rw [pieces_append sep s hs a _ (h a (by simp)), pieces_inter sep s hs (b :: t) (by simp) (fun it hit => h it (by simp [hit]))]

theorem untilKw_none (k : String) : ∀ (a : List Tok), (∀ x ∈ a, isWordKw k x = false) → untilKw k a = (a, none)
  | [], _ => rfl
  | x :: a, h => by
    simp only [untilKw, h x (by simp), Bool.false_eq_true, if_false, untilKw_none k a (fun y hy => h y (by simp [hy]))]

theorem stripSemi_append : ∀ (body : List Tok), stripSemi (body ++ [.semi]) = some body
  | [] => by simp [stripSemi]
  | t :: b => by
    have ih := stripSemi_append b
    cases hb : b ++ [Tok.semi] with
    | nil => simp at hb
    | cons y ys =>
      rw [List.cons_append, hb, stripSemi, ← hb, ih]
      · rfl
      · intro h; cases h

theorem parseTables_ok : ∀ (names : List Py.Str), names ≠ [] → (∀ n ∈ names, isName n = true) →
    parseTables (inter [.word kINNER, .word kJOIN] (names.map (fun n => [Tok.word n]))) = .ok names
  | [], h, _ => absurd rfl h
  | [n], _, h => by simp [inter, parseTables, ident_ok n (h n (by simp)), bind, Except.bind, pure, Except.pure]
  | n :: m :: t, _, h => by
    have ih := parseTables_ok (m :: t) (by simp) (fun x hx => h x (by simp [hx]))
    simp only [List.map_cons] at ih ⊢
    simp only [inter, List.cons_append, List.nil_append, parseTables, show isKw "inner" kINNER = true from by decide,
      show isKw "join" kJOIN = true from by decide, Bool.and_self, if_true, ident_ok n (h n (by simp)), bind, Except.bind, ih, pure,
      Except.pure]

theorem tablesToks_no_on (names : List Py.Str) (h : ∀ n ∈ names, isName n = true) :
    ∀ x ∈ inter [.word kINNER, .word kJOIN] (names.map (fun n => [Tok.word n])), isWordKw "on" x = false := by
  intro x hx
  rcases mem_inter _ _ x hx with h' | ⟨it, hit, hx'⟩
  · simp only [List.mem_cons, List.not_mem_nil, or_false] at h'
    rcases h' with rfl | rfl <;> decide
  · obtain ⟨n, hn, rfl⟩ := List.mem_map.1 hit
    simp only [List.mem_singleton] at hx'; subst hx'
    exact isName_not_kw n (h n hn) "on" (by decide)

theorem mapM_ok_map {ε α β : Type} (f : α → Except ε β) (g : α → β) (l : List α) (h : ∀ x ∈ l, f x = .ok (g x)) :
    l.mapM f = .ok (l.map g) := mapM_ok_of f g l h

/-- the statement MicroSql reads -/
def joinStmt (names pieces mnames : List Py.Str) : Stmt :=
  .join ((names.flatMap (fun n => pieces.map (fun c => (n, c)))).map fieldOf) names
    ((mnames.flatMap (fun a => (pairsOf names).map (fun p => (a, p)))).map eqOf)


theorem isName_dot_false (w : Py.Str) (hw : '.' ∈ w) : isName w = false := by
  cases h : isName w with
  | false => rfl
  | true =>
    exfalso
    have := (isIdent_chars w (isName_ident w h)).2 '.' hw
    revert this; decide

theorem parseColName_field_error (n c : Py.Str) : ∃ e, parseColName (fieldToks n c) = .error e := by
  unfold fieldToks
  by_cases hs : c = ['*']
  · simp only [hs, if_true, parseColName]; exact ⟨_, rfl⟩
  · simp only [hs, if_false, parseColName, ident, isName_dot_false (n ++ ['.'] ++ c) (by simp)]
    exact ⟨_, rfl⟩

theorem mapM_head_error {ε α β : Type} (f : α → Except ε β) (a : α) (t : List α) (e : ε) (h : f a = .error e) :
    (a :: t).mapM f = .error e := by
  simp [List.mapM_cons, h, bind, Except.bind]

theorem parse_joinText (names cps mnames : List Py.Str) (hne : names ≠ []) (hpne : cps ≠ [])
    (hp : JoinPlain names cps mnames) : parse (joinText names cps mnames) = .ok (joinStmt names cps mnames) := by
  -- the three token lists
  generalize hFI : (names.flatMap (fun n => cps.map (fun c => (n, c)))) = FI
  generalize hEI : (mnames.flatMap (fun a => (pairsOf names).map (fun p => (a, p)))) = EI
  have hFIne : FI ≠ [] := by
    rw [← hFI]
    cases names with
    | nil => exact absurd rfl hne
    | cons n t => cases cps with
      | nil => exact absurd rfl hpne
      | cons c t' => simp
  have hFImem : ∀ f ∈ FI, isName f.1 = true ∧ (f.2 = ['*'] ∨ isName f.2 = true) := by
    intro f hf; rw [← hFI] at hf
    simp only [List.mem_flatMap, List.mem_map] at hf
    obtain ⟨n, hn, c, hc, rfl⟩ := hf
    exact ⟨hp.names n hn, hp.pieces c hc⟩
  have hEImem : ∀ e ∈ EI, isName e.1 = true ∧ isName e.2.1 = true ∧ isName e.2.2 = true := by
    intro e he; rw [← hEI] at he
    simp only [List.mem_flatMap, List.mem_map] at he
    obtain ⟨a, ha, p, hpp, rfl⟩ := he
    obtain ⟨m1, m2⟩ := mem_pairsOf names p hpp
    exact ⟨hp.mnames a ha, hp.names _ m1, hp.names _ m2⟩
  have hEq : (eqTexts names mnames = []) ↔ EI = [] := by
    have e : eqTexts names mnames = EI.map (fun e => eqText e.1 e.2) := by
      rw [← hEI]; unfold eqTexts; simp [List.map_flatMap, List.map_map, Function.comp_def]
    rw [e]; simp
  set F := inter [Tok.comma] (FI.map (fun f => fieldToks f.1 f.2)) with hF
  set T := inter [Tok.word kINNER, Tok.word kJOIN] (names.map (fun n => [Tok.word n])) with hT
  set E := inter [Tok.word kand] (EI.map (fun e => eqToks e.1 e.2)) with hE
  have hFitems : ∀ it ∈ FI.map (fun f => fieldToks f.1 f.2), ∀ x ∈ it, isComma x = false := by
    intro it hit x hx; obtain ⟨f, _, rfl⟩ := List.mem_map.1 hit; exact fieldToks_no_comma _ _ x hx
  have hFfrom : ∀ x ∈ F, isWordKw "from" x = false := by
    intro x hx
    rcases mem_inter _ _ x hx with h' | ⟨it, hit, hx'⟩
    · simp only [List.mem_singleton] at h'; subst h'; rfl
    · obtain ⟨f, _, rfl⟩ := List.mem_map.1 hit; exact fieldToks_no_kw "from" (by decide) _ _ x hx'
  have hpiecesF : MicroSql.pieces isComma F = FI.map (fun f => fieldToks f.1 f.2) :=
    pieces_inter isComma .comma rfl _ (by simpa using hFIne) hFitems
  have hfields : (FI.map (fun f => fieldToks f.1 f.2)).mapM parseField = .ok (FI.map fieldOf) := by
    rw [List.mapM_map]
    apply mapM_ok_of
    intro f hf
    exact parseField_ok f.1 f.2 (hFImem f hf).1 (hFImem f hf).2
  have htables := parseTables_ok names hne hp.names
  have hTon := tablesToks_no_on names hp.names
  have hEitems : ∀ it ∈ EI.map (fun e => eqToks e.1 e.2), ∀ x ∈ it, isWordKw "and" x = false := by
    intro it hit x hx; obtain ⟨e, _, rfl⟩ := List.mem_map.1 hit; exact eqToks_no_kw "and" (by decide) _ _ x hx
  have heqs : (EI.map (fun e => eqToks e.1 e.2)).mapM parseEq = .ok (EI.map eqOf) := by
    rw [List.mapM_map]
    apply mapM_ok_of
    intro e he
    exact parseEq_ok e.1 e.2 (hEImem e he).1 (hEImem e he).2.1 (hEImem e he).2.2
  -- the plain SELECT parser rejects the text
  have hsel : ∀ rest2, ∃ e, parseSelect (F ++ Tok.word kfrom :: rest2) = .error e := by
    intro rest2
    unfold parseSelect
    rw [untilKw_append "from" (.word kfrom) (by decide) rest2 F hFfrom]
    have hcols : ∃ e, parseCols F = .error e := by
      unfold parseCols
      have hns : F ≠ [Tok.star] := by
        have hh : ∃ w r, F = Tok.word w :: r := by
          cases hFI' : FI with
          | nil => exact absurd hFI' hFIne
          | cons f t =>
            rw [hF, hFI']
            cases t with
            | nil =>
              simp only [List.map_cons, List.map_nil, inter, fieldToks]
              by_cases hs : f.2 = ['*'] <;> simp [hs]
            | cons g t' =>
              simp only [List.map_cons, inter, fieldToks]
              by_cases hs : f.2 = ['*'] <;> simp [hs]
        obtain ⟨w, r, hw⟩ := hh
        intro h; rw [hw] at h; cases h
      rw [if_neg hns, hpiecesF]
      cases hFI' : FI with
      | nil => exact absurd hFI' hFIne
      | cons f t =>
        obtain ⟨e, he⟩ := parseColName_field_error f.1 f.2
        rw [List.map_cons, mapM_head_error _ _ _ e he]
        exact ⟨e, rfl⟩
    obtain ⟨e, he⟩ := hcols
    cases rest2 with
    | nil => exact ⟨_, rfl⟩
    | cons t r =>
      cases t with
      | word w => simp only [he, bind, Except.bind]; exact ⟨e, rfl⟩
      | _ => exact ⟨_, rfl⟩
  unfold parse
  rw [tokenize_joinText names cps mnames hp]
  unfold joinToks joinStmt
  rw [hFI, hEI]
  simp only [show isKw "select" kselect = true from by decide, if_true]
  obtain ⟨e, he⟩ := hsel (T ++ ((if eqTexts names mnames = [] then [] else Tok.word kon :: E) ++ [Tok.semi]))
  rw [he]
  simp only []
  unfold parseJoin
  rw [untilKw_append "from" (.word kfrom) (by decide) _ F hFfrom]
  simp only []
  rw [← List.append_assoc, stripSemi_append]
  simp only [hpiecesF, hfields, bind, Except.bind]
  by_cases hem : EI = []
  · have : eqTexts names mnames = [] := hEq.2 hem
    simp only [this, if_true, List.append_nil, hem, List.map_nil, pure, Except.pure]
    rw [untilKw_none "on" _ hTon]
    simp only [htables]
  · have : ¬ eqTexts names mnames = [] := fun h => hem (hEq.1 h)
    simp only [this, if_false]
    rw [untilKw_append "on" (.word kon) (by decide) E T hTon]
    simp only []
    rw [show parseTables T = .ok names from htables,
      show MicroSql.pieces (isWordKw "and") E = EI.map (fun e => eqToks e.1 e.2) from
        pieces_inter (isWordKw "and") (.word kand) (by decide) _ (by simpa using hem) hEitems]
    simp only [heqs, pure, Except.pure]

end SqlProofs
