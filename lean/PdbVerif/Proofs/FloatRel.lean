/-
  Relative error and idempotence of `Py.toDouble` (the executable round-to-nearest-even to 53 significant bits on `Rat`,
  unbounded exponent): with `Proofs/Float.lean` (monotone, odd, exact on 0) these are the laws `Proofs/FloatMargin.lean`
  assumes of the abstract real rounding `fl` (structure `RoundOK`), here PROVED for the executable model on the rationals.
  Helper lemmas only.
-/
import Mathlib.Tactic.Linarith
import Mathlib.Tactic.Ring
import Mathlib.Tactic.NormNum
import Mathlib.Tactic.Positivity
import Mathlib.Tactic.FieldSimp
import Mathlib.Algebra.Order.Floor.Ring
import Mathlib.Algebra.Order.AbsoluteValue.Basic
import Mathlib.Data.Rat.Floor
import PdbVerif.Proofs.Float

namespace Py

/-- round-half-even moves a rational by at most one half -/
theorem roundHE_abs_sub_le (y : ℚ) : |(roundHE y : ℚ) - y| ≤ 1 / 2 := by
  have h1 : (⌊y⌋ : ℚ) ≤ y := Int.floor_le y
  have h2 : y < (⌊y⌋ : ℚ) + 1 := Int.lt_floor_add_one y
  rw [roundHE_def, abs_le]
  split_ifs with a b c
  · constructor <;> linarith
  · push_cast; constructor <;> linarith
  · have : y - (⌊y⌋ : ℚ) = 1 / 2 := le_antisymm (not_lt.mp b) (not_lt.mp a)
    constructor <;> linarith
  · have : y - (⌊y⌋ : ℚ) = 1 / 2 := le_antisymm (not_lt.mp b) (not_lt.mp a)
    push_cast; constructor <;> linarith

theorem pow2_neg53 : pow2 (-53) = 1 / 2 ^ 53 := by
  rw [pow2_eq_zpow]; norm_num

/-- absolute error half a unit in the last place of the binade -/
theorem toDouble_abs_err_binade {a : ℚ} {e : ℤ} (h1 : pow2 e ≤ a) (h2 : a < pow2 (e + 1)) :
    |toDouble a - a| ≤ pow2 (e - 53) := by
  rw [toDouble_of_binade h1 h2]
  have hp := pow2_pos (e - 52)
  have hy := roundHE_abs_sub_le (a / pow2 (e - 52))
  have e1 : pow2 (e - 53) = (1 / 2) * pow2 (e - 52) := by
    have : e - 52 = (e - 53) + 1 := by ring
    rw [this, pow2_succ]; ring
  have e2 : (roundHE (a / pow2 (e - 52)) : ℚ) * pow2 (e - 52) - a
      = ((roundHE (a / pow2 (e - 52)) : ℚ) - a / pow2 (e - 52)) * pow2 (e - 52) := by
    field_simp
  rw [e2, abs_mul, abs_of_pos hp, e1]
  exact mul_le_mul_of_nonneg_right hy hp.le

/-- **relative error of binary64 round-to-nearest**: `|toDouble q − q| ≤ 2⁻⁵³·|q|` for every rational `q`
    (unbounded exponent: no overflow, no subnormals in the model) -/
theorem toDouble_rel (q : ℚ) : |toDouble q - q| ≤ (1 / 2 ^ 53) * |q| := by
  have pos : ∀ a : ℚ, 0 < a → |toDouble a - a| ≤ (1 / 2 ^ 53) * |a| := by
    intro a ha
    obtain ⟨s1, s2⟩ := binExp_spec ha
    have h := toDouble_abs_err_binade s1 s2
    have e1 : pow2 (binExp a - 53) = pow2 (-53) * pow2 (binExp a) := by
      rw [← pow2_add]; congr 1; ring
    rw [e1, pow2_neg53] at h
    rw [abs_of_pos ha]
    refine le_trans h (mul_le_mul_of_nonneg_left s1 (by positivity))
  rcases lt_trichotomy q 0 with h | h | h
  · have := pos (-q) (by linarith)
    rw [toDouble_neg, abs_neg] at this
    have e : -toDouble q - -q = -(toDouble q - q) := by ring
    rwa [e, abs_neg] at this
  · subst h; simp [toDouble_zero]
  · exact pos q h

/-- `toDouble` fixes every value it returns (the set of doubles is `Set.range toDouble`) -/
theorem toDouble_idem (q : ℚ) : toDouble (toDouble q) = toDouble q := by
  have pos : ∀ a : ℚ, 0 < a → toDouble (toDouble a) = toDouble a := by
    intro a ha
    obtain ⟨s1, s2⟩ := binExp_spec ha
    set e := binExp a with he
    obtain ⟨b1, b2⟩ := toDouble_binade_bounds s1 s2
    have hform := toDouble_of_binade s1 s2
    have hp := pow2_pos (e - 52)
    rcases b2.lt_or_eq with hlt | heq
    · -- same binade: the mantissa is an integer
      apply toDouble_fix b1 hlt (roundHE (a / pow2 (e - 52)))
      rw [hform]; field_simp
    · -- rounded up to the next power of two
      rw [heq]
      apply toDouble_fix (e := e + 1) le_rfl _ 4503599627370496
      · have : e + 1 = (e + 1 - 52) + 52 := by ring
        rw [this, pow2_add, pow2_52]
        have := pow2_pos (e + 1 - 52)
        have e3 : e + 1 - 52 + 52 - 52 = e + 1 - 52 := by ring
        rw [e3]; field_simp
      · rw [pow2_succ (e + 1)]; have := pow2_pos (e + 1); linarith
  rcases lt_trichotomy q 0 with h | h | h
  · have := pos (-q) (by linarith)
    rw [toDouble_neg, toDouble_neg] at this
    linarith
  · subst h; simp [toDouble_zero]
  · exact pos q h

/-- the three laws in one statement, on the rationals, for the set of doubles `Set.range toDouble` -/
theorem toDouble_laws :
    (∀ x y : ℚ, x ≤ y → toDouble x ≤ toDouble y) ∧
    (∀ x : ℚ, x ∈ Set.range toDouble → toDouble x = x) ∧
    (∀ x : ℚ, |toDouble x - x| ≤ (1 / 2 ^ 53) * |x|) ∧
    ((0 : ℚ) ∈ Set.range toDouble) ∧
    (∀ x : ℚ, x ∈ Set.range toDouble → -x ∈ Set.range toDouble) := by
  refine ⟨fun _ _ h => toDouble_mono h, ?_, toDouble_rel, ⟨0, toDouble_zero⟩, ?_⟩
  · rintro x ⟨q, rfl⟩; exact toDouble_idem q
  · rintro x ⟨q, rfl⟩; exact ⟨-q, toDouble_neg q⟩

end Py
