/-
  Helper lemmas for C05 / C14, part 4: the all-chains call.
-/
import PdbVerif.Proofs.ContactsTwo
set_option linter.unusedVariables false
set_option linter.unusedSimpArgs false
set_option linter.unusedSectionVars false
namespace Proofs.Contacts
open Model Py
open Spec.Contact (Params passes near touches isHydrogen chainAtoms partners atoms)

theorem mem_eventsOf {κ ν : Type} [DecidableEq κ] {evs : List (κ × List ν)} {k : κ} {z : ν} :
    z ∈ eventsOf evs k ↔ ∃ e ∈ evs, e.1 = k ∧ z ∈ e.2 := by
  simp only [eventsOf, List.mem_flatMap, List.mem_filter, decide_eq_true_eq]
  constructor
  · rintro ⟨e, ⟨he, hk⟩, hz⟩; exact ⟨e, he, hk, hz⟩
  · rintro ⟨e, he, hk, hz⟩; exact ⟨e, ⟨he, hk⟩, hz⟩

theorem mem_combos {t : List Atom} {A B : Str} :
    (A, B) ∈ combinations2 (getChains t) ↔ A ∈ getChains t ∧ B ∈ getChains t ∧ ltStr A B = true :=
  mem_combinations2 (R := fun a b => ltStr a b = true) (by intro a; simp [strictTotal_ltStr.irrefl])
    (by intro a b h; simp [strictTotal_ltStr.asymm h]) (asc_getChains t)

theorem exists_other {α : Type} {l : List α} (hn : l.Nodup) (hl : 2 ≤ l.length) {x : α} (hx : x ∈ l) : ∃ y ∈ l, y ≠ x := by
  match l, hn, hl with
  | a :: b :: rest, hn, _ =>
    have hab : a ≠ b := by
      intro h; subst h
      have := (List.nodup_cons.mp hn).1
      exact this (by simp)
    by_cases h : x = a
    · subst h; exact ⟨b, by simp, fun h => hab h.symm⟩
    · exact ⟨a, by simp, fun h' => h h'.symm⟩

theorem mem_selOf {a : ContactArgs} {t : List Atom} {A B : Str} {e : Nat × List Nat} :
    e ∈ selOf a t (A, B) ↔ ∃ p ∈ chainAtoms t A, (∃ q ∈ chainAtoms t B, touches (params a) p q = true) ∧
      e = (p.2, partners (params a) t B p) := by
  rw [selOf_eq]
  simp only [Spec.Contact.pairMap, List.mem_map, List.mem_filter, List.any_eq_true]
  constructor
  · rintro ⟨p, ⟨hp, h⟩, rfl⟩; exact ⟨p, hp, h, rfl⟩
  · rintro ⟨p, hp, h, rfl⟩; exact ⟨p, ⟨hp, h⟩, rfl⟩

theorem mem_partners {P : Params} {t : List Atom} {Y : Str} {p : IRow} {j : Nat} :
    j ∈ partners P t Y p ↔ ∃ q ∈ chainAtoms t Y, touches P p q = true ∧ q.2 = j := by
  simp only [partners, List.mem_map, List.mem_filter]
  constructor
  · rintro ⟨q, ⟨hq, h⟩, rfl⟩; exact ⟨q, hq, h, rfl⟩
  · rintro ⟨q, hq, h, rfl⟩; exact ⟨q, ⟨hq, h⟩, rfl⟩

theorem nodup_partners (P : Params) (t : List Atom) (Y : Str) (p : IRow) : (partners P t Y p).Nodup := by
  unfold partners chainAtoms atoms
  rw [List.filter_filter]
  exact asc_nodup strictTotal_ltNat (asc_positions t _)

theorem mem_pairEvents {a : ContactArgs} {t : List Atom} {cc : Str × Str} {e : Str × List Nat} (he : e ∈ pairEvents a t cc) :
    e.1 = cc.1 ∨ e.1 = cc.2 := by
  simp only [pairEvents, icEvents, List.mem_append, List.mem_cons, List.not_mem_nil, or_false, List.mem_flatMap] at he
  rcases he with (rfl | rfl) | ⟨x, _, rfl | rfl⟩ <;> simp

/-- the elements contributed to chain `X` by the events of the pair `(A, B)` -/
theorem mem_pairEvents_values {a : ContactArgs} {t : List Atom} {A B X : Str} {z : Nat} :
    (∃ e ∈ pairEvents a t (A, B), e.1 = X ∧ z ∈ e.2) ↔
      (A = X ∧ z ∈ Spec.Contact.contactAtoms (params a) t A B) ∨ (B = X ∧ z ∈ Spec.Contact.contactAtoms (params a) t B A) := by
  rw [← mem_pairMap_values (X := A) (Y := B), ← pairMap_keys, ← selOf_eq]
  simp only [pairEvents, icEvents, List.mem_append, List.mem_cons, List.not_mem_nil, or_false, List.mem_flatMap, List.mem_map]
  constructor
  · rintro ⟨e, (rfl | rfl) | ⟨x, hx, rfl | rfl⟩, hk, hz⟩
    · simp at hz
    · simp at hz
    · simp at hz; subst hz; exact Or.inl ⟨hk, x, hx, rfl⟩
    · exact Or.inr ⟨hk, x, hx, hz⟩
  · rintro (⟨hk, x, hx, rfl⟩ | ⟨hk, x, hx, hz⟩)
    · exact ⟨(A, [x.1]), Or.inr ⟨x, hx, Or.inl rfl⟩, hk, by simp⟩
    · exact ⟨(B, x.2), Or.inr ⟨x, hx, Or.inr rfl⟩, hk, hz⟩

theorem callChains_all {t : List Atom} {a : ContactArgs} (hall : a.allchains = true) : callChains t a = getChains t := by
  simp [callChains, hall]

theorem mem_keys_icAfterLoop_all {t : List Atom} {a : ContactArgs} (hall : a.allchains = true) (h2 : 2 ≤ (getChains t).length)
    (X : Str) : X ∈ (icAfterLoop t a).keys ↔ X ∈ getChains t := by
  unfold icAfterLoop
  rw [mem_keys_applyEvents, callChains_all hall]
  simp only [Dict.keys, List.map_nil, List.not_mem_nil, false_or, List.mem_flatMap]
  constructor
  · rintro ⟨e, ⟨⟨A, B⟩, hcc, he⟩, rfl⟩
    obtain ⟨hA, hB, _⟩ := mem_combos.mp hcc
    rcases mem_pairEvents he with h | h <;> simp only [h] <;> assumption
  · intro hX
    obtain ⟨Y, hY, hne⟩ := exists_other (asc_nodup strictTotal_ltStr (asc_getChains t)) h2 hX
    rcases strictTotal_ltStr.tri X Y with h | h | h
    · exact ⟨(X, []), ⟨(X, Y), mem_combos.mpr ⟨hX, hY, h⟩, by simp [pairEvents]⟩, rfl⟩
    · exact absurd h.symm hne
    · exact ⟨(X, []), ⟨(Y, X), mem_combos.mpr ⟨hY, hX, h⟩, by simp [pairEvents]⟩, rfl⟩

theorem mem_contactAtomsAll {P : Params} {t : List Atom} {X : Str} {z : Nat} :
    z ∈ Spec.Contact.contactAtomsAll P t X ↔ ∃ Y ∈ getChains t, Y ≠ X ∧ z ∈ Spec.Contact.contactAtoms P t X Y := by
  simp only [Spec.Contact.contactAtomsAll, sortDistinct_eq, mem_sortedSet, List.mem_flatMap, List.mem_filter, chainIDs_eq,
    decide_eq_true_eq]
  constructor
  · rintro ⟨Y, ⟨h1, h2⟩, h3⟩; exact ⟨Y, h1, h2, h3⟩
  · rintro ⟨Y, h1, h2, h3⟩; exact ⟨Y, ⟨h1, h2⟩, h3⟩

/-- a chain's list after the double loop has the elements of the union over the other chains -/
theorem mem_getD_icAfterLoop_all {t : List Atom} {a : ContactArgs} (hall : a.allchains = true) {X : Str} (hX : X ∈ getChains t)
    (z : Nat) : z ∈ (icAfterLoop t a).getD X ↔ z ∈ Spec.Contact.contactAtomsAll (params a) t X := by
  unfold icAfterLoop
  rw [getD_applyEvents, callChains_all hall, mem_contactAtomsAll]
  simp only [Dict.getD, List.nil_append, mem_eventsOf, List.mem_flatMap]
  constructor
  · rintro ⟨e, ⟨⟨A, B⟩, hcc, he⟩, hk, hz⟩
    obtain ⟨hA, hB, hlt⟩ := mem_combos.mp hcc
    have hne : A ≠ B := by intro h; subst h; simp [strictTotal_ltStr.irrefl] at hlt
    rcases mem_pairEvents_values.mp ⟨e, he, hk, hz⟩ with ⟨rfl, h⟩ | ⟨rfl, h⟩
    · exact ⟨B, hB, fun h' => hne h'.symm, h⟩
    · exact ⟨A, hA, hne, h⟩
  · rintro ⟨Y, hY, hne, hz⟩
    rcases strictTotal_ltStr.tri X Y with h | h | h
    · obtain ⟨e, he, hk, hz'⟩ := mem_pairEvents_values.mpr (Or.inl ⟨rfl, hz⟩)
      exact ⟨e, ⟨(X, Y), mem_combos.mpr ⟨hX, hY, h⟩, he⟩, hk, hz'⟩
    · exact absurd h.symm hne
    · obtain ⟨e, he, hk, hz'⟩ := mem_pairEvents_values.mpr (Or.inr ⟨rfl, hz⟩)
      exact ⟨e, ⟨(Y, X), mem_combos.mpr ⟨hY, hX, h⟩, he⟩, hk, hz'⟩

theorem get?_map_values {κ ν μ : Type} [DecidableEq κ] (d : Dict κ ν) (g : ν → μ) (k : κ) :
    Dict.get? (d.map (fun e => (e.1, g e.2))) k = (d.get? k).map g := by
  induction d with
  | nil => rfl
  | cons e d ih =>
    obtain ⟨k₀, v₀⟩ := e
    by_cases h : k₀ = k <;> simp [Dict.get?, h, ih]

/-- the all-chains call (at least two chains) -/
theorem contactRun_all (t : List Atom) (a : ContactArgs) (hall : a.allchains = true) (h2 : 2 ≤ (getChains t).length) :
    contactRun t a = .ok ((icAfterLoop t a).map (fun e => (e.1, extendIf a t (sortedSet ltNat e.2))), pairsAfterLoop t a) := by
  have hks : (getChains t).Nodup := asc_nodup strictTotal_ltStr (asc_getChains t)
  have hd := nodup_keys_icAfterLoop t a
  have hkeys := mem_keys_icAfterLoop_all hall h2
  rw [contactRun_eq, callChains_known t a (Or.inl hall), callChains_all hall]
  simp only [Bool.false_eq_true, if_false]
  rw [mapChains_ok _ hks hd (fun k hk => (hkeys k).mpr hk)]
  have hsimp : ∀ (f : List Nat → List Nat) (d : Dict Str (List Nat)), (∀ e ∈ d, e.1 ∈ getChains t) →
      d.map (fun e => if e.1 ∈ getChains t then (e.1, f e.2) else e) = d.map (fun e => (e.1, f e.2)) := by
    intro f d h
    apply List.map_congr_left
    intro e he
    simp [h e he]
  have hmem : ∀ e ∈ icAfterLoop t a, e.1 ∈ getChains t := by
    intro e he
    exact (hkeys e.1).mp (List.mem_map.mpr ⟨e, he, rfl⟩)
  rw [hsimp (sortedSet ltNat) _ hmem]
  simp only [Except.bind]
  cases hext : a.extend with
  | false => simp [extendIf, hext, Except.bind]
  | true =>
    simp only [if_true]
    have hd' : Dict.keys ((icAfterLoop t a).map (fun e => (e.1, sortedSet ltNat e.2))) = (icAfterLoop t a).keys :=
      keys_map_upd _ _ (fun _ => rfl)
    rw [mapChains_ok _ hks (by rw [hd']; exact hd) (fun k hk => by rw [hd']; exact (hkeys k).mpr hk)]
    rw [hsimp (fun l => extendToResidue t l a.bb) _ (by
      intro e he
      obtain ⟨e', he', rfl⟩ := List.mem_map.mp he
      exact hmem e' he')]
    simp [extendIf, hext, Except.bind, List.map_map, Function.comp_def]

/-- per-chain result of the all-chains call -/
theorem allChains_lookup (t : List Atom) (a : ContactArgs) (hall : a.allchains = true) (h2 : 2 ≤ (getChains t).length)
    {X : Str} (hX : X ∈ getChains t) :
    Dict.get? ((icAfterLoop t a).map (fun e => (e.1, extendIf a t (sortedSet ltNat e.2)))) X =
      some (extendIf a t (Spec.Contact.contactAtomsAll (params a) t X)) := by
  rw [get?_map_values (g := fun l => extendIf a t (sortedSet ltNat l)), get?_eq_getD ((mem_keys_icAfterLoop_all hall h2 X).mpr hX)]
  simp only [Option.map_some]
  congr 2
  rw [Spec.Contact.contactAtomsAll, sortDistinct_eq, natLt_eq]
  apply sortedSet_congr strictTotal_ltNat
  intro z
  rw [mem_getD_icAfterLoop_all hall hX]
  simp [Spec.Contact.contactAtomsAll, sortDistinct_eq]
/-! ### the all-chains pair map -/

theorem selOf_value_ne_nil {a : ContactArgs} {t : List Atom} {A B : Str} {e : Nat × List Nat} (he : e ∈ selOf a t (A, B)) :
    e.2 ≠ [] := by
  obtain ⟨p, hp, ⟨q, hq, hpq⟩, rfl⟩ := mem_selOf.mp he
  intro h
  have : q.2 ∈ partners (params a) t B p := mem_partners.mpr ⟨q, hq, hpq, rfl⟩
  have h' : partners (params a) t B p = [] := h
  rw [h'] at this
  simp at this

theorem selOf_value_nodup {a : ContactArgs} {t : List Atom} {A B : Str} {e : Nat × List Nat} (he : e ∈ selOf a t (A, B)) :
    e.2.Nodup := by
  obtain ⟨p, hp, _, rfl⟩ := mem_selOf.mp he
  exact nodup_partners _ _ _ _

theorem selOf_keys_nodup (a : ContactArgs) (t : List Atom) (A B : Str) : ((selOf a t (A, B)).map (·.1)).Nodup := by
  rw [selOf_keys]
  exact asc_nodup strictTotal_ltNat (asc_contactAtoms _ _ _ _)

/-- events of two different chain pairs with the same key have disjoint partner lists; so have two events of one pair -/
theorem events_pairwise (a : ContactArgs) (t : List Atom) :
    ((combinations2 (getChains t)).flatMap (selOf a t)).Pairwise
      (fun e1 e2 => e1.1 = e2.1 → ∀ z, z ∈ e1.2 → z ∉ e2.2) := by
  rw [List.pairwise_flatMap]
  constructor
  · rintro ⟨A, B⟩ _
    have := selOf_keys_nodup a t A B
    rw [List.Nodup, List.pairwise_map] at this
    exact this.imp (by intro e1 e2 h h'; exact absurd h' h)
  · have hn : (combinations2 (getChains t)).Nodup := nodup_combinations2 (asc_nodup strictTotal_ltStr (asc_getChains t))
    refine List.Pairwise.imp ?_ hn
    rintro ⟨A, B⟩ ⟨A', B'⟩ hne x hx y hy hk z hz1 hz2
    obtain ⟨p, hp, _, rfl⟩ := mem_selOf.mp hx
    obtain ⟨p', hp', _, rfl⟩ := mem_selOf.mp hy
    have hpp : p = p' := pos_inj (chainAtoms_sub hp) (chainAtoms_sub hp') hk
    subst hpp
    obtain ⟨q, hq, _, rfl⟩ := mem_partners.mp hz1
    obtain ⟨q', hq', _, hqq⟩ := mem_partners.mp hz2
    have : q' = q := pos_inj (chainAtoms_sub hq') (chainAtoms_sub hq) hqq
    subst this
    have hA : A = A' := by rw [← (mem_chainAtoms.mp hp).2, ← (mem_chainAtoms.mp hp').2]
    have hB : B = B' := by rw [← (mem_chainAtoms.mp hq).2, ← (mem_chainAtoms.mp hq').2]
    exact hne (by rw [hA, hB])

theorem nodup_eventsOf_all (a : ContactArgs) (t : List Atom) (i : Nat) :
    (eventsOf ((combinations2 (getChains t)).flatMap (selOf a t)) i).Nodup := by
  unfold eventsOf
  rw [List.Nodup, List.pairwise_flatMap]
  constructor
  · intro e he
    obtain ⟨he, _⟩ := List.mem_filter.mp he
    obtain ⟨⟨A, B⟩, _, he⟩ := List.mem_flatMap.mp he
    exact selOf_value_nodup he
  · have := (events_pairwise a t).sublist (List.filter_sublist (p := fun e => decide (e.1 = i)))
    refine List.Pairwise.imp_of_mem ?_ this
    intro e1 e2 h1 h2 h x hx y hy hxy
    have k1 := (List.mem_filter.mp h1).2
    have k2 := (List.mem_filter.mp h2).2
    simp only [decide_eq_true_eq] at k1 k2
    subst hxy
    exact h (k1.trans k2.symm) x hx hy

/-- the all-chains pair map contains every contacting pair of two different chains exactly once, under the atom whose chain
    comes first -/
theorem pairsAfterLoop_all (t : List Atom) (a : ContactArgs) (hall : a.allchains = true) :
    Spec.Contact.IsAllChainsPairMap (params a) t (pairsAfterLoop t a) := by
  have hkn : (pairsAfterLoop t a).keys.Nodup := nodup_keys_applyEvents (by simp [Dict.keys]) _
  have hval : ∀ e ∈ pairsAfterLoop t a, e.2 = eventsOf ((combinations2 (getChains t)).flatMap (selOf a t)) e.1 := by
    intro e he
    have := getD_of_mem hkn (k := e.1) (v := e.2) he
    rw [← this]
    unfold pairsAfterLoop
    rw [getD_applyEvents, callChains_all hall]
    simp [Dict.getD]
  have hkey : ∀ i, i ∈ (pairsAfterLoop t a).keys ↔ ∃ e ∈ (combinations2 (getChains t)).flatMap (selOf a t), e.1 = i := by
    intro i
    unfold pairsAfterLoop
    rw [mem_keys_applyEvents, callChains_all hall]
    simp [Dict.keys]
  refine ⟨hkn, ?_, ?_, ?_⟩
  · intro e he
    rw [hval e he]
    exact nodup_eventsOf_all a t e.1
  · intro e he h0
    have hk : e.1 ∈ (pairsAfterLoop t a).keys := List.mem_map.mpr ⟨e, he, rfl⟩
    obtain ⟨ev, hev, hk'⟩ := (hkey e.1).mp hk
    obtain ⟨⟨A, B⟩, _, hev'⟩ := List.mem_flatMap.mp hev
    have hne := selOf_value_ne_nil hev'
    obtain ⟨z, hz⟩ := List.exists_mem_of_ne_nil _ hne
    have : z ∈ e.2 := by
      rw [hval e he]
      exact mem_eventsOf.mpr ⟨ev, hev, hk', hz⟩
    rw [h0] at this
    simp at this
  · intro i j
    have step1 : (∃ js, (i, js) ∈ pairsAfterLoop t a ∧ j ∈ js) ↔ j ∈ eventsOf ((combinations2 (getChains t)).flatMap (selOf a t)) i := by
      constructor
      · rintro ⟨js, hm, hj⟩
        have := hval (i, js) hm
        simp only at this
        rw [← this]; exact hj
      · intro hj
        obtain ⟨ev, hev, hk', _⟩ := mem_eventsOf.mp hj
        have hk : i ∈ (pairsAfterLoop t a).keys := (hkey i).mpr ⟨ev, hev, hk'⟩
        have hm := mem_of_mem_keys hk
        refine ⟨_, hm, ?_⟩
        have := hval _ hm
        simp only at this
        rw [this]; exact hj
    rw [step1, mem_eventsOf]
    simp only [List.mem_flatMap]
    constructor
    · rintro ⟨ev, ⟨⟨A, B⟩, hcc, hev⟩, rfl, hj⟩
      obtain ⟨hA, hB, hlt⟩ := mem_combos.mp hcc
      obtain ⟨p, hp, _, rfl⟩ := mem_selOf.mp hev
      obtain ⟨q, hq, hpq, rfl⟩ := mem_partners.mp hj
      refine ⟨p.1, q.1, List.mem_zipIdx_iff_getElem?.mp (chainAtoms_sub hp), List.mem_zipIdx_iff_getElem?.mp (chainAtoms_sub hq), ?_⟩
      simp only [Spec.Contact.contactFirst, strLt_eq, (mem_chainAtoms.mp hp).2, (mem_chainAtoms.mp hq).2, hlt, Bool.true_and]
      exact hpq
    · rintro ⟨x, y, hx, hy, hc⟩
      simp only [Spec.Contact.contactFirst, strLt_eq, Bool.and_eq_true] at hc
      have hpz : (x, i) ∈ t.zipIdx := List.mem_zipIdx_iff_getElem?.mpr hx
      have hqz : (y, j) ∈ t.zipIdx := List.mem_zipIdx_iff_getElem?.mpr hy
      have hp : (x, i) ∈ chainAtoms t x.chainID := mem_chainAtoms.mpr ⟨hpz, rfl⟩
      have hq : (y, j) ∈ chainAtoms t y.chainID := mem_chainAtoms.mpr ⟨hqz, rfl⟩
      have hcc : (x.chainID, y.chainID) ∈ combinations2 (getChains t) :=
        mem_combos.mpr ⟨chain_mem_getChains hpz, chain_mem_getChains hqz, hc.1⟩
      refine ⟨(i, partners (params a) t y.chainID (x, i)), ⟨(x.chainID, y.chainID), hcc, ?_⟩, rfl, ?_⟩
      · exact mem_selOf.mpr ⟨(x, i), hp, ⟨(y, j), hq, hc.2⟩, rfl⟩
      · exact mem_partners.mpr ⟨(y, j), hq, hc.2, rfl⟩

end Proofs.Contacts
