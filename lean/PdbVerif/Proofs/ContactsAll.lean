/-
  Helper lemmas for C05 / C14, part 4: the all-chains call.
-/
import PdbVerif.Proofs.ContactsTwo
set_option linter.unusedVariables false
set_option linter.unusedSimpArgs false
set_option linter.unusedSectionVars false
namespace Proofs.Contacts
open Model Py
open Spec.Contact (Params passes near touches isHydrogen chainAtoms partners atoms)

theorem mem_eventsOf {κ ν : Type} [DecidableEq κ] {evs : List (κ × List ν)} {k : κ} {z : ν} :
    z ∈ eventsOf evs k ↔ ∃ e ∈ evs, e.1 = k ∧ z ∈ e.2 := by
  simp only [eventsOf, List.mem_flatMap, List.mem_filter, decide_eq_true_eq]
  constructor
  · rintro ⟨e, ⟨he, hk⟩, hz⟩; exact ⟨e, he, hk, hz⟩
  · rintro ⟨e, he, hk, hz⟩; exact ⟨e, ⟨he, hk⟩, hz⟩

theorem mem_combos {t : List Atom} {A B : Str} :
    (A, B) ∈ combinations2 (getChains t) ↔ A ∈ getChains t ∧ B ∈ getChains t ∧ ltStr A B = true :=
  mem_combinations2 (R := fun a b => ltStr a b = true) (by intro a; simp [strictTotal_ltStr.irrefl])
    (by intro a b h; simp [strictTotal_ltStr.asymm h]) (asc_getChains t)

theorem exists_other {α : Type} {l : List α} (hn : l.Nodup) (hl : 2 ≤ l.length) {x : α} (hx : x ∈ l) : ∃ y ∈ l, y ≠ x := by
  match l, hn, hl with
  | a :: b :: rest, hn, _ =>
    have hab : a ≠ b := by
      intro h; subst h
      have := (List.nodup_cons.mp hn).1
      exact this (by simp)
    by_cases h : x = a
    · subst h; exact ⟨b, by simp, fun h => hab h.symm⟩
    · exact ⟨a, by simp, fun h' => h h'.symm⟩

theorem mem_selOf {a : ContactArgs} {t : List Atom} {A B : Str} {e : Nat × List Nat} :
    e ∈ selOf a t (A, B) ↔ ∃ p ∈ chainAtoms t A, (∃ q ∈ chainAtoms t B, touches (params a) p q = true) ∧
      e = (p.2, partners (params a) t B p) := by
  rw [selOf_eq]
  simp only [Spec.Contact.pairMap, List.mem_map, List.mem_filter, List.any_eq_true]
  constructor
  · rintro ⟨p, ⟨hp, h⟩, rfl⟩; exact ⟨p, hp, h, rfl⟩
  · rintro ⟨p, hp, h, rfl⟩; exact ⟨p, ⟨hp, h⟩, rfl⟩

theorem mem_partners {P : Params} {t : List Atom} {Y : Str} {p : IRow} {j : Nat} :
    j ∈ partners P t Y p ↔ ∃ q ∈ chainAtoms t Y, touches P p q = true ∧ q.2 = j := by
  simp only [partners, List.mem_map, List.mem_filter]
  constructor
  · rintro ⟨q, ⟨hq, h⟩, rfl⟩; exact ⟨q, hq, h, rfl⟩
  · rintro ⟨q, hq, h, rfl⟩; exact ⟨q, ⟨hq, h⟩, rfl⟩

theorem nodup_partners (P : Params) (t : List Atom) (Y : Str) (p : IRow) : (partners P t Y p).Nodup := by
  unfold partners chainAtoms atoms
  rw [List.filter_filter]
  exact asc_nodup strictTotal_ltNat (asc_positions t _)

theorem mem_pairEvents {a : ContactArgs} {t : List Atom} {cc : Str × Str} {e : Str × List Nat} (he : e ∈ pairEvents a t cc) :
    e.1 = cc.1 ∨ e.1 = cc.2 := by
  simp only [pairEvents, icEvents, List.mem_append, List.mem_cons, List.not_mem_nil, or_false, List.mem_flatMap] at he
  rcases he with (rfl | rfl) | ⟨x, _, rfl | rfl⟩ <;> simp

/-- the elements contributed to chain `X` by the events of the pair `(A, B)` -/
theorem mem_pairEvents_values {a : ContactArgs} {t : List Atom} {A B X : Str} {z : Nat} :
    (∃ e ∈ pairEvents a t (A, B), e.1 = X ∧ z ∈ e.2) ↔
      (A = X ∧ z ∈ Spec.Contact.contactAtoms (params a) t A B) ∨ (B = X ∧ z ∈ Spec.Contact.contactAtoms (params a) t B A) := by
  rw [← mem_pairMap_values (X := A) (Y := B), ← pairMap_keys, ← selOf_eq]
  simp only [pairEvents, icEvents, List.mem_append, List.mem_cons, List.not_mem_nil, or_false, List.mem_flatMap, List.mem_map]
  constructor
  · rintro ⟨e, (rfl | rfl) | ⟨x, hx, rfl | rfl⟩, hk, hz⟩
    · simp at hz
    · simp at hz
    · simp at hz; subst hz; exact Or.inl ⟨hk, x, hx, rfl⟩
    · exact Or.inr ⟨hk, x, hx, hz⟩
  · rintro (⟨hk, x, hx, rfl⟩ | ⟨hk, x, hx, hz⟩)
    · exact ⟨(A, [x.1]), Or.inr ⟨x, hx, Or.inl rfl⟩, hk, by simp⟩
    · exact ⟨(B, x.2), Or.inr ⟨x, hx, Or.inr rfl⟩, hk, hz⟩

theorem callChains_all {t : List Atom} {a : ContactArgs} (hall : a.allchains = true) : callChains t a = getChains t := by
  simp [callChains, hall]

theorem mem_keys_icAfterLoop_all {t : List Atom} {a : ContactArgs} (hall : a.allchains = true) (h2 : 2 ≤ (getChains t).length)
    (X : Str) : X ∈ (icAfterLoop t a).keys ↔ X ∈ getChains t := by
  unfold icAfterLoop
  rw [mem_keys_applyEvents, callChains_all hall]
  simp only [Dict.keys, List.map_nil, List.not_mem_nil, false_or, List.mem_flatMap]
  constructor
  · rintro ⟨e, ⟨⟨A, B⟩, hcc, he⟩, rfl⟩
    obtain ⟨hA, hB, _⟩ := mem_combos.mp hcc
    rcases mem_pairEvents he with h | h <;> simp only [h] <;> assumption
  · intro hX
    obtain ⟨Y, hY, hne⟩ := exists_other (asc_nodup strictTotal_ltStr (asc_getChains t)) h2 hX
    rcases strictTotal_ltStr.tri X Y with h | h | h
    · exact ⟨(X, []), ⟨(X, Y), mem_combos.mpr ⟨hX, hY, h⟩, by simp [pairEvents]⟩, rfl⟩
    · exact absurd h.symm hne
    · exact ⟨(X, []), ⟨(Y, X), mem_combos.mpr ⟨hY, hX, h⟩, by simp [pairEvents]⟩, rfl⟩

theorem mem_contactAtomsAll {P : Params} {t : List Atom} {X : Str} {z : Nat} :
    z ∈ Spec.Contact.contactAtomsAll P t X ↔ ∃ Y ∈ getChains t, Y ≠ X ∧ z ∈ Spec.Contact.contactAtoms P t X Y := by
  simp only [Spec.Contact.contactAtomsAll, sortDistinct_eq, mem_sortedSet, List.mem_flatMap, List.mem_filter, chainIDs_eq,
    decide_eq_true_eq]
  constructor
  · rintro ⟨Y, ⟨h1, h2⟩, h3⟩; exact ⟨Y, h1, h2, h3⟩
  · rintro ⟨Y, h1, h2, h3⟩; exact ⟨Y, ⟨h1, h2⟩, h3⟩

/-- a chain's list after the double loop has the elements of the union over the other chains -/
theorem mem_getD_icAfterLoop_all {t : List Atom} {a : ContactArgs} (hall : a.allchains = true) {X : Str} (hX : X ∈ getChains t)
    (z : Nat) : z ∈ (icAfterLoop t a).getD X ↔ z ∈ Spec.Contact.contactAtomsAll (params a) t X := by
  unfold icAfterLoop
  rw [getD_applyEvents, callChains_all hall, mem_contactAtomsAll]
  simp only [Dict.getD, List.nil_append, mem_eventsOf, List.mem_flatMap]
  constructor
  · rintro ⟨e, ⟨⟨A, B⟩, hcc, he⟩, hk, hz⟩
    obtain ⟨hA, hB, hlt⟩ := mem_combos.mp hcc
    have hne : A ≠ B := by intro h; subst h; simp [strictTotal_ltStr.irrefl] at hlt
    rcases mem_pairEvents_values.mp ⟨e, he, hk, hz⟩ with ⟨rfl, h⟩ | ⟨rfl, h⟩
    · exact ⟨B, hB, fun h' => hne h'.symm, h⟩
    · exact ⟨A, hA, hne, h⟩
  · rintro ⟨Y, hY, hne, hz⟩
    rcases strictTotal_ltStr.tri X Y with h | h | h
    · obtain ⟨e, he, hk, hz'⟩ := mem_pairEvents_values.mpr (Or.inl ⟨rfl, hz⟩)
      exact ⟨e, ⟨(X, Y), mem_combos.mpr ⟨hX, hY, h⟩, he⟩, hk, hz'⟩
    · exact absurd h.symm hne
    · obtain ⟨e, he, hk, hz'⟩ := mem_pairEvents_values.mpr (Or.inr ⟨rfl, hz⟩)
      exact ⟨e, ⟨(Y, X), mem_combos.mpr ⟨hY, hX, h⟩, he⟩, hk, hz'⟩

theorem get?_map_values {κ ν μ : Type} [DecidableEq κ] (d : Dict κ ν) (g : ν → μ) (k : κ) :
    Dict.get? (d.map (fun e => (e.1, g e.2))) k = (d.get? k).map g := by
  induction d with
  | nil => rfl
  | cons e d ih =>
    obtain ⟨k₀, v₀⟩ := e
    by_cases h : k₀ = k <;> simp [Dict.get?, h, ih]

/-- the all-chains call (at least two chains) -/
theorem contactRun_all (t : List Atom) (a : ContactArgs) (hall : a.allchains = true) (h2 : 2 ≤ (getChains t).length) :
    contactRun t a = .ok ((icAfterLoop t a).map (fun e => (e.1, extendIf a t (sortedSet ltNat e.2))), pairsAfterLoop t a) := by
  have hks : (getChains t).Nodup := asc_nodup strictTotal_ltStr (asc_getChains t)
  have hd := nodup_keys_icAfterLoop t a
  have hkeys := mem_keys_icAfterLoop_all hall h2
  rw [contactRun_eq, callChains_known t a (Or.inl hall), callChains_all hall]
  simp only [Bool.false_eq_true, if_false]
  rw [mapChains_ok _ hks hd (fun k hk => (hkeys k).mpr hk)]
  have hsimp : ∀ (f : List Nat → List Nat) (d : Dict Str (List Nat)), (∀ e ∈ d, e.1 ∈ getChains t) →
      d.map (fun e => if e.1 ∈ getChains t then (e.1, f e.2) else e) = d.map (fun e => (e.1, f e.2)) := by
    intro f d h
    apply List.map_congr_left
    intro e he
    simp [h e he]
  have hmem : ∀ e ∈ icAfterLoop t a, e.1 ∈ getChains t := by
    intro e he
    exact (hkeys e.1).mp (List.mem_map.mpr ⟨e, he, rfl⟩)
  rw [hsimp (sortedSet ltNat) _ hmem]
  simp only [Except.bind]
  cases hext : a.extend with
  | false => simp [extendIf, hext, Except.bind]
  | true =>
    simp only [if_true]
    have hd' : Dict.keys ((icAfterLoop t a).map (fun e => (e.1, sortedSet ltNat e.2))) = (icAfterLoop t a).keys :=
      keys_map_upd _ _ (fun _ => rfl)
    rw [mapChains_ok _ hks (by rw [hd']; exact hd) (fun k hk => by rw [hd']; exact (hkeys k).mpr hk)]
    rw [hsimp (fun l => extendToResidue t l a.bb) _ (by
      intro e he
      obtain ⟨e', he', rfl⟩ := List.mem_map.mp he
      exact hmem e' he')]
    simp [extendIf, hext, Except.bind, List.map_map, Function.comp_def]

/-- per-chain result of the all-chains call -/
theorem allChains_lookup (t : List Atom) (a : ContactArgs) (hall : a.allchains = true) (h2 : 2 ≤ (getChains t).length)
    {X : Str} (hX : X ∈ getChains t) :
    Dict.get? ((icAfterLoop t a).map (fun e => (e.1, extendIf a t (sortedSet ltNat e.2)))) X =
      some (extendIf a t (Spec.Contact.contactAtomsAll (params a) t X)) := by
  rw [get?_map_values (g := fun l => extendIf a t (sortedSet ltNat l)), get?_eq_getD ((mem_keys_icAfterLoop_all hall h2 X).mpr hX)]
  simp only [Option.map_some]
  congr 2
  rw [Spec.Contact.contactAtomsAll, sortDistinct_eq, natLt_eq]
  apply sortedSet_congr strictTotal_ltNat
  intro z
  rw [mem_getD_icAfterLoop_all hall hX]
  simp [Spec.Contact.contactAtomsAll, sortDistinct_eq]
end Proofs.Contacts
