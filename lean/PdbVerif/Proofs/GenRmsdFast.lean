/-
  The translated fast RMSD routes (Gen/Rmsd.lean: `GenR.compute_lrmsd_fast`, `GenR.compute_irmsd_fast`, regenerated from
  StructureSimilarity.py on every run) have the data flow of the hand models `Model.Rmsd.lrmsdFast` / `irmsdFast`
  (Model/RmsdFast.lean): the same three stages —

    1. the zone: computed in memory (`None`), computed and written (a name that is not a file), or read (`zoneStage`);
    2. the coordinate lists handed to the kernel, as MODEL functions of the record lines and the zone (`lrmsdLists` / `irmsdLists`:
       `checkResidues`, `dataZoneBackbone`, `interKeys`, `getXyz` when `check or enforce`, `xyzZoneBackbone` otherwise);
    3. the translated kernel `GenK.superpose_selection` / `GenK.get_rmsd_radicand` on the coordinates (keys dropped).

  `*_stages`: the generated routine IS that composition, for every input, error branches included.  `*_model_stages`: the hand
  model is `Outcome.ofExcept (stage 1 >>= stage 2 >>= kernelLists)` with the same stage-2 function — so generated code and hand
  model differ only in what happens after the lists are formed: the model classifies NumPy's shape errors (`kernelLists`) and
  returns the pair lists, the generated code runs the kernel (exact radicand, rotation kernel a parameter).
  The world is a parameter (`read_pdb`, `isfile`, `readlines`, `pdb2sql`, `check_residues`, contact routine, rotation kernel);
  the second component of the result is the list of zone files written.
-/
import PdbVerif.Proofs.GenRmsdZone

set_option linter.unusedVariables false
set_option linter.unusedSimpArgs false
set_option linter.unusedSectionVars false
set_option linter.unusedTactic false

namespace Proofs.GenRmsd
open Py Model Model.Rmsd

/-! ### stage 1 -/

/-- `if zone is None: compute(save_file=False) / elif not isfile(zone): compute(save_file=True, filename=zone) / else: read_zone(zone)` -/
def zoneStage (isfile : Str → Bool) (readlines : Str → Except Err (List Str))
    (compute : Bool → Option Str → Except Err (Zone × List GenR.Rt2.Write)) (zf : Option Str) :
    Except Err (Zone × List GenR.Rt2.Write) :=
  match zf with
  | none => compute false none
  | some z => if isfile z = true then readlines z >>= fun ls => readZone ls >>= fun zn => Except.ok (zn, []) else compute true (some z)

/-! ### stage 2 -/

/-- fitting (decoy, reference) and evaluation (decoy, reference) points of `compute_lrmsd_fast` -/
def lrmsdLists (dl rl : List Str) (zone : Zone) (names : List Str) (chk : Bool) (cr : Option (List Str) → Except Err Bool) :
    Except Err (List Pt × List Pt × List Pt × List Pt) :=
  if chk = true then
    cr (some names) >>= fun _ => dataZoneBackbone dl zone names >>= fun dd => dataZoneBackbone rl zone names >>= fun dr =>
      getXyz dl (interKeys dr.1 dd.1) >>= fun a => getXyz rl (interKeys dr.1 dd.1) >>= fun b =>
      getXyz dl (interKeys dr.2 dd.2) >>= fun c => getXyz rl (interKeys dr.2 dd.2) >>= fun d => Except.ok (a, b, c, d)
  else xyzZoneBackbone dl zone names >>= fun xd => xyzZoneBackbone rl zone names >>= fun xr => Except.ok (xd.1, xr.1, xd.2, xr.2)

/-- decoy and reference points of `compute_irmsd_fast` (used for fitting and evaluation) -/
def irmsdLists (dl rl : List Str) (zone : Zone) (chk : Bool) (cr : Option (List Str) → Except Err Bool) :
    Except Err (List Pt × List Pt) :=
  if chk = true then
    cr none >>= fun _ => dataZoneBackbone dl zone zoneNames >>= fun dd => dataZoneBackbone rl zone zoneNames >>= fun dr =>
      getXyz dl (interKeys dr.1 dd.1) >>= fun a => getXyz rl (interKeys dr.1 dd.1) >>= fun b => Except.ok (a, b)
  else xyzZoneBackbone dl zone zoneNames >>= fun xd => xyzZoneBackbone rl zone zoneNames >>= fun xr => Except.ok (xd.1, xr.1)

def coords (l : List Pt) : List P3 := l.map (·.2)

/-! ### sets are used through membership only -/

theorem mem_rtSet {α : Type} [DecidableEq α] (x : α) (l : List α) : x ∈ Py.Rt.set l ↔ x ∈ l := by
  rw [Proofs.GenContacts.set_eq]; exact Proofs.Contacts.mem_distinctFirst

theorem getXyz_congr (lines : List Str) (i j : List Key) (h : ∀ k, k ∈ i ↔ k ∈ j) : getXyz lines i = getXyz lines j := by
  unfold getXyz
  apply bind_congr'; intro ps
  have : (fun p : Pt => i.contains p.1) = (fun p : Pt => j.contains p.1) := by
    funext p
    have := h p.1
    by_cases h1 : p.1 ∈ i <;> simp_all
  rw [this]

theorem getXyz_inter (lines : List Str) (a b : List Key) :
    getXyz lines (GenR.Rt2.setInter (Py.Rt.set a) (Py.Rt.set b)) = getXyz lines (interKeys a b) := by
  apply getXyz_congr
  intro k
  simp only [GenR.Rt2.setInter, interKeys, List.mem_filter, mem_rtSet, decide_eq_true_eq, List.contains_eq_mem]

/-! ### `compute_lrmsd_fast` -/

theorem genr_compute_lrmsd_fast_stages {μ : Type} (rd : Str → Except Err (List Str)) (isfile : Str → Bool)
    (readlines : Str → Except Err (List Str)) (p2s : Str → Except Err (List Atom)) (cr : Option (List Str) → Except Err Bool)
    (grm : List P3 → List P3 → μ → Except Err (Mat3 Rat)) (decoy ref : Str) (enforce : Bool) (lzone : Option Str) (method : μ)
    (check : Bool) (names : List Str) (dl rl : List Str) (hd : rd decoy = .ok dl) (hr : rd ref = .ok rl) :
    GenR.compute_lrmsd_fast rd isfile readlines p2s cr grm decoy ref enforce lzone method check names =
      zoneStage isfile readlines (GenR.compute_lzone p2s ref) lzone >>= fun zw =>
      lrmsdLists dl rl zw.1 names (check || enforce) cr >>= fun q =>
      GenK.superpose_selection grm (coords q.2.2.1) (coords q.1) (coords q.2.1) method >>= fun x =>
      Except.ok (GenK.get_rmsd_radicand x (coords q.2.2.2), zw.2) := by
  unfold GenR.compute_lrmsd_fast zoneStage lrmsdLists
  cases lzone with
  | none =>
    simp only [List.nil_append, pure_eq_ok, bind_assoc, ok_bind]
    apply bind_congr'; intro zw
    cases hc : (check || enforce)
    · simp only [Bool.false_eq_true, if_false, genr_get_xyz_zone_backbone_eq_model, hd, hr, ok_bind, bind_assoc, pure_eq_ok,
        xyzRet, if_true, Py.Rt.asLeft, dropKeys, coords]
    · simp only [if_true, genr_get_data_zone_backbone_eq_model, genr_get_xyz_eq_model, hd, hr, ok_bind, bind_assoc, pure_eq_ok,
        dataRet, Py.Rt.asLeft, getXyz_inter, coords]
  | some z =>
    by_cases hf : isfile z = true
    · simp only [hf, Bool.not_true, Bool.false_eq_true, if_false, if_true, genr_read_zone_eq_model, List.nil_append, pure_eq_ok,
        bind_assoc, ok_bind]
      apply bind_congr'; intro ls
      apply bind_congr'; intro zn
      cases hc : (check || enforce)
      · simp only [Bool.false_eq_true, if_false, genr_get_xyz_zone_backbone_eq_model, hd, hr, ok_bind, bind_assoc, pure_eq_ok,
          xyzRet, if_true, Py.Rt.asLeft, dropKeys, coords]
      · simp only [if_true, genr_get_data_zone_backbone_eq_model, genr_get_xyz_eq_model, hd, hr, ok_bind, bind_assoc, pure_eq_ok,
          dataRet, Py.Rt.asLeft, getXyz_inter, coords]
    · simp only [hf, Bool.not_false, Bool.false_eq_true, if_false, if_true, List.nil_append, pure_eq_ok, bind_assoc, ok_bind]
      apply bind_congr'; intro zw
      cases hc : (check || enforce)
      · simp only [Bool.false_eq_true, if_false, genr_get_xyz_zone_backbone_eq_model, hd, hr, ok_bind, bind_assoc, pure_eq_ok,
          xyzRet, if_true, Py.Rt.asLeft, dropKeys, coords]
      · simp only [if_true, genr_get_data_zone_backbone_eq_model, genr_get_xyz_eq_model, hd, hr, ok_bind, bind_assoc, pure_eq_ok,
          dataRet, Py.Rt.asLeft, getXyz_inter, coords]

/-! ### `compute_irmsd_fast` -/

theorem zoneNames_literal : zoneNames = [['C'], ['C', 'A'], ['N'], ['O']] := by
  simp [zoneNames, Gen.zone_backbone_names]

theorem genr_compute_irmsd_fast_stages {μ : Type} (rd : Str → Except Err (List Str)) (isfile : Str → Bool)
    (readlines : Str → Except Err (List Str)) (p2s : Str → Except Err (List Atom)) (cr : Option (List Str) → Except Err Bool)
    (gca : List Atom → Rat → Str → Str → Except Err (Model.Dict Str (List Nat)))
    (grm : List P3 → List P3 → μ → Except Err (Mat3 Rat)) (decoy ref : Str) (enforce : Bool) (izone : Option Str) (method : μ)
    (cutoff : Rat) (check : Bool) (dl rl : List Str) (hd : rd decoy = .ok dl) (hr : rd ref = .ok rl) :
    GenR.compute_irmsd_fast rd isfile readlines p2s cr gca grm decoy ref enforce izone method cutoff check =
      zoneStage isfile readlines (GenR.compute_izone p2s gca ref cutoff) izone >>= fun zw =>
      irmsdLists dl rl zw.1 (check || enforce) cr >>= fun q =>
      GenK.superpose_selection grm (coords q.1) (coords q.1) (coords q.2) method >>= fun x =>
      Except.ok (GenK.get_rmsd_radicand x (coords q.2), zw.2) := by
  unfold GenR.compute_irmsd_fast zoneStage irmsdLists
  rw [zoneNames_literal]
  cases izone with
  | none =>
    simp only [List.nil_append, pure_eq_ok, bind_assoc, ok_bind]
    apply bind_congr'; intro zw
    cases hc : (check || enforce)
    · simp only [Bool.false_eq_true, if_false, genr_get_xyz_zone_backbone_eq_model, hd, hr, ok_bind, bind_assoc, pure_eq_ok,
        xyzRet, if_true, Py.Rt.asRight, dropKeys, coords]
    · simp only [if_true, genr_get_data_zone_backbone_eq_model, genr_get_xyz_eq_model, hd, hr, ok_bind, bind_assoc, pure_eq_ok,
        dataRet, Py.Rt.asRight, getXyz_inter, coords, Bool.false_eq_true, if_false]
  | some z =>
    by_cases hf : isfile z = true
    · simp only [hf, Bool.not_true, Bool.false_eq_true, if_false, if_true, genr_read_zone_eq_model, List.nil_append, pure_eq_ok,
        bind_assoc, ok_bind]
      apply bind_congr'; intro ls
      apply bind_congr'; intro zn
      cases hc : (check || enforce)
      · simp only [Bool.false_eq_true, if_false, genr_get_xyz_zone_backbone_eq_model, hd, hr, ok_bind, bind_assoc, pure_eq_ok,
          xyzRet, if_true, Py.Rt.asRight, dropKeys, coords]
      · simp only [if_true, genr_get_data_zone_backbone_eq_model, genr_get_xyz_eq_model, hd, hr, ok_bind, bind_assoc, pure_eq_ok,
          dataRet, Py.Rt.asRight, getXyz_inter, coords, Bool.false_eq_true, if_false]
    · simp only [hf, Bool.not_false, Bool.false_eq_true, if_false, if_true, List.nil_append, pure_eq_ok, bind_assoc, ok_bind]
      apply bind_congr'; intro zw
      cases hc : (check || enforce)
      · simp only [Bool.false_eq_true, if_false, genr_get_xyz_zone_backbone_eq_model, hd, hr, ok_bind, bind_assoc, pure_eq_ok,
          xyzRet, if_true, Py.Rt.asRight, dropKeys, coords]
      · simp only [if_true, genr_get_data_zone_backbone_eq_model, genr_get_xyz_eq_model, hd, hr, ok_bind, bind_assoc, pure_eq_ok,
          dataRet, Py.Rt.asRight, getXyz_inter, coords, Bool.false_eq_true, if_false]

/-! ### the hand models have the same first two stages -/

/-- `self.check_residues(**kw)` of the models: both tables are parsed first -/
def modelCheck (tdec tref : Except Err (List Atom)) (enforce : Bool) (names : Option (List Str)) : Except Err Bool :=
  tref >>= fun tr => tdec >>= fun td => checkResidues td tr names enforce

theorem lrmsdFast_model_stages (dl rl : List Str) (tdec tref : Except Err (List Atom)) (src : ZoneSrc) (check enforce : Bool) :
    lrmsdFast dl rl tdec tref src check enforce =
      Outcome.ofExcept (zoneFrom src (tref >>= fun t => computeLzone t) >>= fun zone =>
        lrmsdLists dl rl zone lrmsdFastNames (check || enforce) (modelCheck tdec tref enforce) >>= fun q =>
        Except.ok (kernelLists q.1 q.2.1 q.2.2.1 q.2.2.2)) := by
  unfold lrmsdFast lrmsdLists modelCheck
  congr 1
  apply bind_congr'; intro zone
  cases (check || enforce)
  · simp only [Bool.false_eq_true, if_false, bind_assoc, ok_bind, pure_eq_ok]
  · simp only [if_true, bind_assoc, ok_bind, pure_eq_ok]

theorem irmsdFast_model_stages (dl rl : List Str) (tdec tref : Except Err (List Atom)) (src : ZoneSrc) (cutoff : Rat)
    (check enforce : Bool) :
    irmsdFast dl rl tdec tref src cutoff check enforce =
      Outcome.ofExcept (zoneFrom src (tref >>= fun t => computeIzone t cutoff) >>= fun zone =>
        irmsdLists dl rl zone (check || enforce) (modelCheck tdec tref enforce) >>= fun q =>
        Except.ok (kernelLists q.1 q.2 q.1 q.2)) := by
  unfold irmsdFast irmsdLists modelCheck
  congr 1
  apply bind_congr'; intro zone
  cases (check || enforce)
  · simp only [Bool.false_eq_true, if_false, bind_assoc, ok_bind, pure_eq_ok]
  · simp only [if_true, bind_assoc, ok_bind, pure_eq_ok]

end Proofs.GenRmsd
