/-
  Helper lemmas for C02 about the coordinate formatter `Gen._format_xyz`: the precision class it selects,
  the 8-column width in every class, the number of decimals against `Spec.neededDecimals`, and that the
  printed field satisfies the property-level checker `Spec.coordOK` / `Spec.fixed2OK`.  Helper lemmas only.
-/
import Mathlib.Tactic.Linarith
import Mathlib.Tactic.NormNum
import Mathlib.Tactic.Positivity
import Mathlib.Tactic.FieldSimp
import Mathlib.Tactic.Ring
import PdbVerif.Gen.Str
import PdbVerif.Spec.C02
import PdbVerif.Proofs.Format

set_option linter.unusedSimpArgs false
set_option linter.unusedVariables false
set_option linter.unnecessarySeqFocus false

namespace Proofs.Xyz
open Py

/-- the number of decimals `_format_xyz` prints for an in-range coordinate -/
def xyzClass (x : ℚ) : ℕ :=
  if x ≥ (1999999 : ℚ) / 2 ∨ x ≤ -((199999 : ℚ) / 2) then 0
  else if x ≥ (199999 : ℚ) / 2 ∨ x ≤ -((19999 : ℚ) / 2) then 1
  else if x ≥ (19999 : ℚ) / 2 ∨ x ≤ -((1999 : ℚ) / 2) then 2
  else 3

theorem format_xyz_eq (x : ℚ) (h : Spec.CoordInRange x) :
    Gen._format_xyz x = .ok (fmtFloatR 8 (xyzClass x) x) := by
  obtain ⟨h1, h2⟩ := h
  have h0 : ¬ (x ≥ (199999999 : ℚ) / 2 ∨ x ≤ -((19999999 : ℚ) / 2)) := by
    rintro (h | h) <;> linarith
  unfold Gen._format_xyz xyzClass
  simp only [h0, if_false]
  split_ifs <;> rfl

theorem xyzClass_le (x : ℚ) : xyzClass x ≤ 3 := by
  unfold xyzClass; split_ifs <;> omega

/-- every in-range coordinate fits its 8 columns with the precision the code chooses -/
theorem width (x : ℚ) (h : Spec.CoordInRange x) : (fmtFixed x (xyzClass x)).length ≤ 8 := by
  obtain ⟨h1, h2⟩ := h
  unfold xyzClass
  split_ifs with c0 c1 c2
  · by_cases hx : 0 ≤ x
    · have := len_le_pos x 0 7 hx (by norm_num [pow10]; linarith)
      simpa [tailLen] using this
    · have := len_le_neg x 0 6 (not_le.mp hx) (by norm_num [pow10]; linarith)
      simpa [tailLen] using this
  · push Not at c0
    by_cases hx : 0 ≤ x
    · have := len_le_pos x 1 5 hx (by norm_num [pow10]; linarith)
      simpa [tailLen] using this
    · have := len_le_neg x 1 4 (not_le.mp hx) (by norm_num [pow10]; linarith)
      simpa [tailLen] using this
  · push Not at c0 c1
    by_cases hx : 0 ≤ x
    · have := len_le_pos x 2 4 hx (by norm_num [pow10]; linarith)
      simpa [tailLen] using this
    · have := len_le_neg x 2 3 (not_le.mp hx) (by norm_num [pow10]; linarith)
      simpa [tailLen] using this
  · push Not at c0 c1 c2
    by_cases hx : 0 ≤ x
    · have := len_le_pos x 3 3 hx (by norm_num [pow10]; linarith)
      simpa [tailLen] using this
    · have := len_le_neg x 3 2 (not_le.mp hx) (by norm_num [pow10]; linarith)
      simpa [tailLen] using this

theorem xyz_ok (x : ℚ) (h : Spec.CoordInRange x) :
    ∃ s, Gen._format_xyz x = .ok s ∧ s.length = 8 ∧ strip s = fmtFixed x (xyzClass x) ∧ '\n' ∉ s := by
  refine ⟨_, format_xyz_eq x h, fmtFloatR_length _ _ _ (width x h), strip_fmtFloatR _ _ _, ?_⟩
  unfold fmtFloatR rjust spaces
  intro hc
  rcases List.mem_append.mp hc with hc | hc
  · have := List.eq_of_mem_replicate hc; revert this; decide
  · exact fmtFixed_no_nl _ _ hc

/-! ### the number of decimals -/

theorem decimalsOf_fmtFixed (x : ℚ) (k : ℕ) : Spec.decimalsOf (fmtFixed x k) = k := by
  rw [fmtFixed_eq, ← List.append_assoc]
  have hdot : '.' ∉ (if x < 0 then ['-'] else []) ++ decDigits (fxI x k) := by
    intro hc
    rcases List.mem_append.mp hc with hc | hc
    · split at hc <;> simp at hc
    · exact (digitFacts _ (decDigits_allDigits _ _ hc)).ne_dot rfl
  unfold Spec.decimalsOf
  by_cases hk : k = 0
  · subst hk
    simp only [if_true, List.append_nil]
    rw [splitOn_not_mem _ _ hdot]
  · simp only [hk, if_false]
    have hdot' : '.' ∉ zeroPad k (decDigits (fxF x k)) := fun hc =>
      (digitFacts _ (fracDigits_allDigits _ _ _ hc)).ne_dot rfl
    rw [splitOn_append_sep _ _ _ hdot, splitOn_not_mem _ _ hdot']
    exact fracDigits_length x k hk

theorem absR_eq_abs (y : ℚ) : Spec.absR y = |y| := by
  unfold Spec.absR
  split
  · rw [abs_of_neg]; assumption
  · rw [abs_of_nonneg]; linarith

theorem near_of (x : ℚ) (m : ℕ) (hm : m < 9) (h : |(|x|) - ((10 ^ m : ℕ) : ℚ)| ≤ 1 / 2) : Spec.nearPow10 x = true := by
  unfold Spec.nearPow10
  rw [List.any_eq_true]
  refine ⟨m, List.mem_range.mpr hm, ?_⟩
  simp only [absR_eq_abs, decide_eq_true_eq]
  exact h

theorem fits_iff (x : ℚ) (k : ℕ) : Spec.fits x k = true ↔ (fmtFixed x k).length ≤ 8 := by
  unfold Spec.fits; simp

theorem fits_false_iff (x : ℚ) (k : ℕ) : Spec.fits x k = false ↔ 9 ≤ (fmtFixed x k).length := by
  unfold Spec.fits; simp; omega

theorem needed_of (x : ℚ) (k : ℕ) (hk3 : k ≤ 2)
    (hu : ¬ (-(1999 : ℚ) / 2 < x ∧ x < (19999 : ℚ) / 2))
    (hk : Spec.fits x k = true)
    (hhi : ∀ j, k + 1 < j → j ≤ 3 → Spec.fits x j = false)
    (hnear : Spec.fits x (k + 1) = true → Spec.nearPow10 x = true) :
    ∃ need, Spec.neededDecimals x = some need ∧ need ≤ k := by
  unfold Spec.neededDecimals Spec.maxFit
  simp only [hu, if_false]
  have : k = 0 ∨ k = 1 ∨ k = 2 := by omega
  rcases this with rfl | rfl | rfl
  · have f3 := hhi 3 (by omega) (by omega)
    have f2 := hhi 2 (by omega) (by omega)
    by_cases f1 : Spec.fits x 1 = true
    · have := hnear f1
      simp [f3, f2, f1, this]
    · have f1' : Spec.fits x 1 = false := by simpa using f1
      simp [f3, f2, f1', hk]
  · have f3 := hhi 3 (by omega) (by omega)
    by_cases f2 : Spec.fits x 2 = true
    · have := hnear f2
      simp [f3, f2, this]
    · have f2' : Spec.fits x 2 = false := by simpa using f2
      simp only [f3, f2', hk, Bool.false_eq_true, if_false, if_true, Option.map_some]
      refine ⟨_, rfl, ?_⟩
      split <;> omega
  · by_cases f3 : Spec.fits x 3 = true
    · have := hnear f3
      simp [f3, this]
    · have f3' : Spec.fits x 3 = false := by simpa using f3
      simp only [f3', hk, Bool.false_eq_true, if_false, if_true, Option.map_some]
      refine ⟨_, rfl, ?_⟩
      split <;> omega

theorem fits_class (x : ℚ) (h : Spec.CoordInRange x) : Spec.fits x (xyzClass x) = true :=
  (fits_iff _ _).mpr (width x h)

/-- The code prints at least the number of decimals the property asks for. -/
theorem needed_le (x : ℚ) (h : Spec.CoordInRange x) :
    ∃ need, Spec.neededDecimals x = some need ∧ need ≤ xyzClass x := by
  have hfit := fits_class x h
  obtain ⟨h1, h2⟩ := h
  unfold xyzClass at hfit ⊢
  split_ifs at hfit ⊢ with c0 c1 c2
  · -- no decimals
    by_cases hx : 0 ≤ x
    · have c : x ≥ (1999999 : ℚ) / 2 := by rcases c0 with c | c <;> linarith
      apply needed_of x 0 (by omega) (by intro hu; linarith [hu.2]) hfit
      · intro j hj1 hj3
        have : j = 2 ∨ j = 3 := by omega
        rcases this with rfl | rfl
        · rw [fits_false_iff]
          have := len_ge_pos x 2 5 hx (by norm_num [pow10]; linarith)
          simpa [tailLen] using this
        · rw [fits_false_iff]
          have := len_ge_pos x 3 4 hx (by norm_num [pow10]; linarith)
          simpa [tailLen] using this
      · intro f1
        rw [fits_iff] at f1; norm_num at f1
        have := lt_of_len_lt_pos x 1 6 hx (by simp [tailLen]; omega)
        norm_num [pow10] at this
        apply near_of x 6 (by omega)
        rw [abs_of_nonneg hx, abs_le]; norm_num; constructor <;> linarith
    · have hx' : x < 0 := not_le.mp hx
      have c : x ≤ -((199999 : ℚ) / 2) := by rcases c0 with c | c <;> linarith
      apply needed_of x 0 (by omega) (by intro hu; linarith [hu.1]) hfit
      · intro j hj1 hj3
        have : j = 2 ∨ j = 3 := by omega
        rcases this with rfl | rfl
        · rw [fits_false_iff]
          have := len_ge_neg x 2 4 hx' (by norm_num [pow10]; linarith)
          simpa [tailLen] using this
        · rw [fits_false_iff]
          have := len_ge_neg x 3 3 hx' (by norm_num [pow10]; linarith)
          simpa [tailLen] using this
      · intro f1
        rw [fits_iff] at f1; norm_num at f1
        have := gt_of_len_lt_neg x 1 5 hx' (by simp [tailLen]; omega)
        norm_num [pow10] at this
        apply near_of x 5 (by omega)
        rw [abs_of_neg hx', abs_le]; norm_num; constructor <;> linarith
  · -- one decimal
    push Not at c0
    by_cases hx : 0 ≤ x
    · have c : x ≥ (199999 : ℚ) / 2 := by rcases c1 with c | c <;> linarith
      apply needed_of x 1 (by omega) (by intro hu; linarith [hu.2]) hfit
      · intro j hj1 hj3
        have : j = 3 := by omega
        subst this
        rw [fits_false_iff]
        have := len_ge_pos x 3 4 hx (by norm_num [pow10]; linarith)
        simpa [tailLen] using this
      · intro f1
        rw [fits_iff] at f1; norm_num at f1
        have := lt_of_len_lt_pos x 2 5 hx (by simp [tailLen]; omega)
        norm_num [pow10] at this
        apply near_of x 5 (by omega)
        rw [abs_of_nonneg hx, abs_le]; norm_num; constructor <;> linarith
    · have hx' : x < 0 := not_le.mp hx
      have c : x ≤ -((19999 : ℚ) / 2) := by rcases c1 with c | c <;> linarith
      apply needed_of x 1 (by omega) (by intro hu; linarith [hu.1]) hfit
      · intro j hj1 hj3
        have : j = 3 := by omega
        subst this
        rw [fits_false_iff]
        have := len_ge_neg x 3 3 hx' (by norm_num [pow10]; linarith)
        simpa [tailLen] using this
      · intro f1
        rw [fits_iff] at f1; norm_num at f1
        have := gt_of_len_lt_neg x 2 4 hx' (by simp [tailLen]; omega)
        norm_num [pow10] at this
        apply near_of x 4 (by omega)
        rw [abs_of_neg hx', abs_le]; norm_num; constructor <;> linarith
  · -- two decimals
    push Not at c0 c1
    by_cases hx : 0 ≤ x
    · have c : x ≥ (19999 : ℚ) / 2 := by rcases c2 with c | c <;> linarith
      apply needed_of x 2 (by omega) (by intro hu; linarith [hu.2]) hfit
      · intro j hj1 hj3; omega
      · intro f1
        rw [fits_iff] at f1; norm_num at f1
        have := lt_of_len_lt_pos x 3 4 hx (by simp [tailLen]; omega)
        norm_num [pow10] at this
        apply near_of x 4 (by omega)
        rw [abs_of_nonneg hx, abs_le]; norm_num; constructor <;> linarith
    · have hx' : x < 0 := not_le.mp hx
      have c : x ≤ -((1999 : ℚ) / 2) := by rcases c2 with c | c <;> linarith
      apply needed_of x 2 (by omega) (by intro hu; linarith [hu.1]) hfit
      · intro j hj1 hj3; omega
      · intro f1
        rw [fits_iff] at f1; norm_num at f1
        have := gt_of_len_lt_neg x 3 3 hx' (by simp [tailLen]; omega)
        norm_num [pow10] at this
        apply near_of x 3 (by omega)
        rw [abs_of_neg hx', abs_le]; norm_num; constructor <;> linarith
  · -- the usual range: three decimals
    push Not at c0 c1 c2
    refine ⟨3, ?_, le_refl _⟩
    unfold Spec.neededDecimals
    have : (-(1999 : ℚ) / 2 < x ∧ x < (19999 : ℚ) / 2) := by constructor <;> linarith [c2.1, c2.2]
    simp only [this, and_self, if_true]

/-- three decimals throughout the usual range -/
theorem class_usual (x : ℚ) (h1 : -(1999 : ℚ) / 2 < x) (h2 : x < (19999 : ℚ) / 2) : xyzClass x = 3 := by
  unfold xyzClass
  have c0 : ¬ (x ≥ (1999999 : ℚ) / 2 ∨ x ≤ -((199999 : ℚ) / 2)) := by rintro (c | c) <;> linarith
  have c1 : ¬ (x ≥ (199999 : ℚ) / 2 ∨ x ≤ -((19999 : ℚ) / 2)) := by rintro (c | c) <;> linarith
  have c2 : ¬ (x ≥ (19999 : ℚ) / 2 ∨ x ≤ -((1999 : ℚ) / 2)) := by rintro (c | c) <;> linarith
  simp only [c0, c1, c2, if_false]

/-! ### the printed field denotes the value -/

theorem round_err (x : ℚ) (k : ℕ) : |Py.round x k - x| ≤ Spec.halfUnit k := by
  rw [round_eq]
  have hp := pow10_cast_pos k
  have h := roundHE_sub_le (x * ((pow10 k : ℕ) : ℚ))
  unfold Spec.halfUnit
  have e : ((10 ^ k : ℕ) : ℚ) = ((pow10 k : ℕ) : ℚ) := rfl
  rw [e]
  have : (roundHE (x * ((pow10 k : ℕ) : ℚ)) : ℚ) / ((pow10 k : ℕ) : ℚ) - x =
      ((roundHE (x * ((pow10 k : ℕ) : ℚ)) : ℚ) - x * ((pow10 k : ℕ) : ℚ)) / ((pow10 k : ℕ) : ℚ) := by
    field_simp
  rw [this, abs_div, abs_of_pos hp, div_le_div_iff₀ hp (by positivity)]
  calc |(roundHE (x * ((pow10 k : ℕ) : ℚ)) : ℚ) - x * ((pow10 k : ℕ) : ℚ)| * (2 * ((pow10 k : ℕ) : ℚ))
      ≤ 1 / 2 * (2 * ((pow10 k : ℕ) : ℚ)) := by
        apply mul_le_mul_of_nonneg_right h (by positivity)
    _ = 1 * ((pow10 k : ℕ) : ℚ) := by ring

theorem reprSlack_nonneg (x : ℚ) : 0 ≤ Spec.reprSlack x := by
  unfold Spec.reprSlack
  rw [absR_eq_abs]
  positivity

theorem coordOK_xyz (x : ℚ) (h : Spec.CoordInRange x) :
    Spec.coordOK x (fmtFloatR 8 (xyzClass x) x) = true := by
  obtain ⟨need, hn, hle⟩ := needed_le x h
  unfold Spec.coordOK
  simp only [fmtFloatR_length _ _ _ (width x h), strip_fmtFloatR, decimalsOf_fmtFixed, parseFloat_fmtFixed, hn,
    decide_true, Bool.true_and, Bool.and_eq_true, decide_eq_true_eq]
  refine ⟨hle, ?_⟩
  rw [absR_eq_abs]
  linarith [round_err x (xyzClass x), reprSlack_nonneg x]

/-- occupancy / B-factor in [−99.99, 999.99] fit their 6 columns with two decimals -/
theorem width2 (x : ℚ) (h1 : -(9999 : ℚ) / 100 ≤ x) (h2 : x ≤ (99999 : ℚ) / 100) : (fmtFixed x 2).length ≤ 6 := by
  by_cases hx : 0 ≤ x
  · have := len_le_pos x 2 2 hx (by norm_num [pow10]; linarith)
    simpa [tailLen] using this
  · have := len_le_neg x 2 1 (not_le.mp hx) (by norm_num [pow10]; linarith)
    simpa [tailLen] using this

theorem fixed2OK_fmt (x : ℚ) (h1 : -(9999 : ℚ) / 100 ≤ x) (h2 : x ≤ (99999 : ℚ) / 100) :
    Spec.fixed2OK x (fmtFloatR 6 2 x) = true := by
  unfold Spec.fixed2OK
  simp only [fmtFloatR_length _ _ _ (width2 x h1 h2), strip_fmtFloatR, parseFloat_fmtFixed,
    decide_true, Bool.true_and, decide_eq_true_eq]
  rw [absR_eq_abs]
  have := round_err x 2
  have e : Spec.halfUnit 2 = 1 / 200 := by unfold Spec.halfUnit; norm_num
  rw [e] at this
  linarith [reprSlack_nonneg x]

end Proofs.Xyz
