/-
  Evaluation side of the tie: MicroSql's SELECT on the parsed statement is the model's `sqlSelect`; the translated loop
  over the keywords is the model's `scan` (helper lemmas; the theorems are in Proofs/SqlTie.lean).
-/
import PdbVerif.Proofs.SqlText

set_option linter.unusedVariables false
set_option linter.unusedSimpArgs false

namespace SqlProofs
open Tbl Model MicroSql GenSql

/-! ### evaluation: MicroSql's SELECT is the model's `sqlSelect` -/

def CondSpec.sqlCond (db : Db) (s : CondSpec) : Option SqlCond := (sqlCol db s.name).map (fun c => { col := c, neg := s.neg, vals := s.vals })

theorem mapM_congr_mem {ε α β : Type} (f g : α → Except ε β) : ∀ (l : List α), (∀ x ∈ l, f x = g x) → l.mapM f = l.mapM g
  | [], _ => rfl
  | a :: t, h => by
    simp only [List.mapM_cons, h a (by simp), mapM_congr_mem f g t (fun x hx => h x (by simp [hx]))]

theorem resolveCols_eq (db : Db) (columns : Py.Str) (hc : colsPlain columns = true) :
    resolveCols db (colsAst columns) = sqlCols db columns := by
  unfold colsAst sqlCols
  by_cases hs : columns = ['*']
  · subst hs; rfl
  · have hs' : ¬ columns = "*".toList := hs
    simp only [hs, hs', if_false, resolveCols]
    have hp : ∀ p ∈ Py.splitOn ',' columns, isName (trimSql p) = true := by
      simp only [colsPlain, Bool.or_eq_true, beq_iff_eq, hs, false_or, List.all_eq_true] at hc
      exact hc
    rw [List.mapM_map]
    apply mapM_congr_mem
    intro p hp1
    rw [strip_padded p _ (padded_trim p) (hp p hp1)]
    simp only [Function.comp, resolveName]
    cases sqlCol db (trimSql p) <;> rfl

/-- the conditions with their columns resolved -/
def sqlConds (db : Db) : List CondSpec → Option (List SqlCond)
  | [] => some []
  | s :: t => match sqlCol db s.name, sqlConds db t with
    | some c, some cs => some ({ col := c, neg := s.neg, vals := s.vals } :: cs)
    | _, _ => none

theorem resolve_conds (db : Db) : ∀ (ss : List CondSpec) (cs : List SqlCond), sqlConds db ss = some cs →
    (ss.map CondSpec.cond).mapM (fun cd => resolveName db cd.name) = .ok (cs.map (·.col)) ∧
    bindParams ((cs.map (·.col)).zip (ss.map CondSpec.cond)) (ss.flatMap (·.vals)) =
      .ok (cs.map (fun c => { col := c.col, neg := c.neg, vals := c.vals }))
  | [], cs, h => by
    simp only [sqlConds, Option.some.injEq] at h; subst h
    exact ⟨rfl, rfl⟩
  | s :: t, cs, h => by
    simp only [sqlConds] at h
    cases h1 : sqlCol db s.name with
    | none => simp [h1] at h
    | some c =>
      cases h2 : sqlConds db t with
      | none => simp [h1, h2] at h
      | some cs' =>
        simp only [h1, h2, Option.some.injEq] at h; subst h
        obtain ⟨ih1, ih2⟩ := resolve_conds db t cs' h2
        constructor
        · simp only [List.map_cons, List.mapM_cons, bind, Except.bind, pure, Except.pure]
          rw [ih1]
          simp [resolveName, CondSpec.cond, h1]
        · simp only [List.map_cons, List.zip_cons_cons, List.flatMap_cons, bindParams, CondSpec.cond, List.length_append]
          rw [if_neg (by omega), List.drop_left, List.take_left]
          rw [ih2]

theorem holds_eq (db : Db) (c : SqlCond) (rp : Row × Nat) :
    Bound.holds db { col := c.col, neg := c.neg, vals := c.vals } rp = c.holds (c.bound db) rp := by
  simp only [Bound.holds, SqlCond.holds, SqlCond.bound, List.any_map, sqlEq, Function.comp_def]

theorem where_eq (db : Db) (cs : List SqlCond) (rp : Row × Nat) :
    (cs.map (fun c => ({ col := c.col, neg := c.neg, vals := c.vals } : Bound))).all (fun b => b.holds db rp) = sqlWhere db cs rp := by
  simp only [sqlWhere, List.all_map, Function.comp_def, holds_eq]

/-- **MicroSql's SELECT = the model's `sqlSelect`** for the statement the translated builder emits -/
theorem execSelect_eq (db : Db) (columns tn : Py.Str) (ss : List CondSpec) (cs : List SqlCond)
    (hc : colsPlain columns = true) (hcs : sqlConds db ss = some cs) :
    execSelect db (colsAst columns) tn (ss.map CondSpec.cond) (ss.flatMap (·.vals)) =
      (match findTab db tn with
       | none => .error .operational
       | some tab =>
         match sqlCols db columns with
         | .error e => .error e
         | .ok cols => .ok (sqlSelect db tab cols cs)) := by
  unfold execSelect
  cases findTab db tn with
  | none => rfl
  | some tab =>
    obtain ⟨h1, h2⟩ := resolve_conds db ss cs hcs
    simp only [resolveCols_eq db columns hc, bind, Except.bind]
    cases sqlCols db columns with
    | error e => rfl
    | ok cols =>
      simp only [h1, h2, pure, Except.pure, sqlSelect]
      congr 2
      exact List.filter_congr (fun rp _ => where_eq db cs rp)


/-! ### the translated loop is the model's `scan` -/

/-- exception classes: the translated statements' into the model's -/
def errOf : GErr → Model.Err
  | .valueError m => if m = tooManyMsg then .tooManyVars else .valueError
  | .typeError => .typeError
  | .indexError => .indexError

theorem ratTrunc_eq (q : Rat) : Rt.ratTrunc q = Model.ratTrunc q := rfl

theorem genPlus1_eq_model (v : Val) : (genPlus1 v).mapError errOf = pyIntPlus1 v := by
  cases v <;> simp [genPlus1, Rt.addInt, Rt.int, pyIntPlus1, Except.bind, Except.map, Except.mapError, errOf, ratTrunc_eq]

theorem mapM_mapError {ε ε' α β : Type} (f : α → Except ε β) (g : α → Except ε' β) (m : ε → ε')
    (h : ∀ x, (f x).mapError m = g x) : ∀ (l : List α), (l.mapM f).mapError m = l.mapM g
  | [] => rfl
  | a :: t => by
    have ih := mapM_mapError f g m h t
    simp only [List.mapM_cons, bind, Except.bind, pure, Except.pure]
    rw [← h a, ← ih]
    cases f a with
    | error e => rfl
    | ok b => cases List.mapM f t <;> rfl

theorem genVals_eq_model (k : Py.Str) (a : Arg) : (genVals k a).mapError errOf = scanVals k a.vals := by
  unfold genVals scanVals
  by_cases h : k = rowIDName
  · simp only [h, if_true]; exact mapM_mapError _ _ _ genPlus1_eq_model _
  · simp only [h, if_false]; rfl

/-- the keyword list has no over-long list -/
def NoLong (kw : List Kw) : Prop := ∀ k ∈ kw, isLong k.arg = false

/-- every key (without `no_`) names a column -/
def KeysResolve (db : Db) (kw : List Kw) : Prop := ∀ k ∈ kw, (sqlCol db (stripNo k.key).2).isSome = true

theorem scan_eq_specs (db : Db) : ∀ (kw : List Kw), NoLong kw → KeysResolve db kw →
    (match specsOf kw with
     | .error e => scan db kw = .error (errOf e)
     | .ok none => False
     | .ok (some ss) => ∃ cs, sqlConds db ss = some cs ∧ scan db kw = .ok (.conds cs (ss.flatMap (·.vals)).length))
  | [], _, _ => ⟨[], rfl, rfl⟩
  | k :: rest, hl, hk => by
    have ih := scan_eq_specs db rest (fun x hx => hl x (by simp [hx])) (fun x hx => hk x (by simp [hx]))
    have hl0 : isLong k.arg = false := hl k (by simp)
    obtain ⟨c, hc⟩ := Option.isSome_iff_exists.1 (hk k (by simp))
    have hg := genVals_eq_model (stripNo k.key).2 k.arg
    simp only [specsOf, scan, hl0, Bool.false_eq_true, if_false]
    cases hgv : genVals (stripNo k.key).2 k.arg with
    | error e =>
      rw [hgv] at hg
      simp only [Except.mapError] at hg
      simp only [← hg]
    | ok t =>
      rw [hgv] at hg
      simp only [Except.mapError] at hg
      simp only [← hg, Model.mkCond, hc]
      have hlen := genVals_length _ _ _ hgv
      cases hs : specsOf rest with
      | error e => rw [hs] at ih; simp only [] at ih; simp only [ih]
      | ok o =>
        rw [hs] at ih
        cases o with
        | none => exact ih.elim
        | some ss =>
          obtain ⟨cs, h1, h2⟩ := ih
          refine ⟨{ col := c, neg := (stripNo k.key).1, vals := t } :: cs, ?_, ?_⟩
          · simp only [sqlConds, hc, h1]
          · simp only [h2, List.flatMap_cons, List.length_append, hlen]

end SqlProofs
