/-
  The quaternion kernel: `Gen.quat_rot` of a unit quaternion is a proper rotation, the objective
  `tr(quat_rot q · R)` is the quadratic form of `Gen.quat_F R`, every proper rotation over ℝ is
  `quat_rot` of a unit quaternion (rank-one argument: the products `qᵢqₖ` are linear in the entries of
  the rotation), and a dominated eigenpair maximises the quadratic form.  Helper lemmas only.
-/
import Mathlib.Analysis.SpecialFunctions.Pow.Real
import PdbVerif.Proofs.SO3
import PdbVerif.Model.Superpose

set_option linter.unusedSectionVars false
set_option linter.unusedVariables false

namespace Proofs.Quat
open Py Py.Mat3 Spec Proofs.M3 Proofs.SO3

section field
variable {α : Type} [Field α] [LinearOrder α] [IsStrictOrderedRing α]

theorem quat_objective (q : Vec4 α) (R : Mat3 α) :
    tr ((Gen.quat_rot q.w q.x q.y q.z).mul R) = Mat4.quad (Gen.quat_F R) q := by
  simp only [Gen.quat_rot, Gen.quat_F, tr, mul, Mat4.quad, Vec4.dot, Mat4.mulVec]; ring

theorem quat_proper (q : Vec4 α) (h : Vec4.dot q q = 1) : IsRotation (Gen.quat_rot q.w q.x q.y q.z) := by
  simp only [Vec4.dot] at h
  refine ⟨⟨?_, ?_⟩, ?_⟩
  · ext <;> simp only [Gen.quat_rot, mul, T, one]
    · linear_combination (q.w*q.w + q.x*q.x + q.y*q.y + q.z*q.z + 1) * h
    · ring
    · ring
    · ring
    · linear_combination (q.w*q.w + q.x*q.x + q.y*q.y + q.z*q.z + 1) * h
    · ring
    · ring
    · ring
    · linear_combination (q.w*q.w + q.x*q.x + q.y*q.y + q.z*q.z + 1) * h
  · ext <;> simp only [Gen.quat_rot, mul, T, one]
    · linear_combination (q.w*q.w + q.x*q.x + q.y*q.y + q.z*q.z + 1) * h
    · ring
    · ring
    · ring
    · linear_combination (q.w*q.w + q.x*q.x + q.y*q.y + q.z*q.z + 1) * h
    · ring
    · ring
    · ring
    · linear_combination (q.w*q.w + q.x*q.x + q.y*q.y + q.z*q.z + 1) * h
  · simp only [Gen.quat_rot, det]
    linear_combination ((q.w*q.w + q.x*q.x + q.y*q.y + q.z*q.z)^2 + (q.w*q.w + q.x*q.x + q.y*q.y + q.z*q.z) + 1) * h

/-- a dominated eigenpair attains the maximum of the quadratic form on the unit sphere -/
theorem eig_max {F : Mat4 α} {lam : α} {q : Vec4 α} (h : Model.EigContract F lam q)
    (r : Vec4 α) (hr : Vec4.dot r r = 1) : Mat4.quad F r ≤ Mat4.quad F q := by
  have h1 := h.top r
  rw [hr, _root_.mul_one] at h1
  have h2 : Mat4.quad F q = lam := by
    have hu := h.unit
    unfold Mat4.quad
    rw [h.eigen]
    simp only [Vec4.dot] at hu ⊢
    linear_combination lam * hu
  rw [h2]; exact h1

/-- an orthogonal eigendecomposition `F eₖ = lₖ eₖ` (columns `e₀..e₃` orthonormal and complete) whose
    first eigenvalue is the largest gives the `EigContract` for `(l₀, e₀)` -/
theorem eigContract_of_decomposition (F : Mat4 α) (l0 l1 l2 l3 : α) (e0 e1 e2 e3 : Vec4 α)
    (h0 : F.mulVec e0 = ⟨l0 * e0.w, l0 * e0.x, l0 * e0.y, l0 * e0.z⟩)
    (u0 : Vec4.dot e0 e0 = 1)
    (quadDecomp : ∀ r : Vec4 α, Mat4.quad F r =
        l0 * (Vec4.dot e0 r)^2 + l1 * (Vec4.dot e1 r)^2 + l2 * (Vec4.dot e2 r)^2 + l3 * (Vec4.dot e3 r)^2)
    (complete : ∀ r : Vec4 α, Vec4.dot r r =
        (Vec4.dot e0 r)^2 + (Vec4.dot e1 r)^2 + (Vec4.dot e2 r)^2 + (Vec4.dot e3 r)^2)
    (m1 : l1 ≤ l0) (m2 : l2 ≤ l0) (m3 : l3 ≤ l0) : Model.EigContract F l0 e0 := by
  refine ⟨h0, u0, fun r => ?_⟩
  rw [quadDecomp r, complete r]
  nlinarith [mul_nonneg (sub_nonneg.2 m1) (sq_nonneg (Vec4.dot e1 r)),
             mul_nonneg (sub_nonneg.2 m2) (sq_nonneg (Vec4.dot e2 r)),
             mul_nonneg (sub_nonneg.2 m3) (sq_nonneg (Vec4.dot e3 r))]

end field

/-! ### every proper rotation is `quat_rot` of a unit quaternion (over ℝ: a square root is needed) -/

/-- a symmetric 4×4 array `t` whose column 0 satisfies the rank-one identities and `t₀₀ > 0`
    is `4·q qᵀ` for the normalised column -/
theorem rank_one_col {t00 t01 t02 t03 t11 t12 t13 t22 t23 t33 : ℝ} (hpos : 0 < t00)
    (h11 : t01 * t01 = t11 * t00) (h12 : t01 * t02 = t12 * t00) (h13 : t01 * t03 = t13 * t00)
    (h22 : t02 * t02 = t22 * t00) (h23 : t02 * t03 = t23 * t00) (h33 : t03 * t03 = t33 * t00) :
    ∃ q0 q1 q2 q3 : ℝ,
      4 * (q0 * q0) = t00 ∧ 4 * (q0 * q1) = t01 ∧ 4 * (q0 * q2) = t02 ∧ 4 * (q0 * q3) = t03 ∧
      4 * (q1 * q1) = t11 ∧ 4 * (q1 * q2) = t12 ∧ 4 * (q1 * q3) = t13 ∧
      4 * (q2 * q2) = t22 ∧ 4 * (q2 * q3) = t23 ∧ 4 * (q3 * q3) = t33 := by
  obtain ⟨s, hs, hss⟩ : ∃ s : ℝ, 0 < s ∧ s * s = t00 :=
    ⟨Real.sqrt t00, Real.sqrt_pos.2 hpos, Real.mul_self_sqrt hpos.le⟩
  have hs0 : s ≠ 0 := ne_of_gt hs
  have h00 : t00 ≠ 0 := ne_of_gt hpos
  have key : ∀ x y : ℝ, 4 * (x / (2 * s) * (y / (2 * s))) = x * y / t00 := by
    intro x y; rw [← hss]; field_simp; ring
  refine ⟨t00 / (2 * s), t01 / (2 * s), t02 / (2 * s), t03 / (2 * s), ?_, ?_, ?_, ?_, ?_, ?_, ?_, ?_, ?_, ?_⟩
  all_goals rw [key, div_eq_iff h00]
  all_goals first
    | ring1
    | linear_combination h11
    | linear_combination h12
    | linear_combination h13
    | linear_combination h22
    | linear_combination h23
    | linear_combination h33

theorem quat_surjective (R : Mat3 ℝ) (hR : IsRotation R) :
    ∃ q : Vec4 ℝ, Vec4.dot q q = 1 ∧ Gen.quat_rot q.w q.x q.y q.z = R := by
  have H := rel_of_rot hR
  obtain ⟨kg, kh, ki⟩ := cross12 H
  obtain ⟨ka, kb, kc⟩ := cross23 H
  obtain ⟨kd, ke, kf⟩ := cross31 H
  obtain ⟨r1, r2, r3, r12, r13, r23, _⟩ := H
  have hc := hR.1.2
  have c1 := congrArg Mat3.a hc; have c12 := congrArg Mat3.b hc; have c13 := congrArg Mat3.c hc
  have c2 := congrArg Mat3.e hc; have c23 := congrArg Mat3.f hc; have c3 := congrArg Mat3.i hc
  simp only [mul, T, one] at c1 c12 c13 c2 c23 c3
  obtain ⟨a, b, c, d, e, f, g, h, i⟩ := R
  simp only at kg kh ki ka kb kc kd ke kf r1 r2 r3 r12 r13 r23 c1 c12 c13 c2 c23 c3
  -- the products qᵢqₖ·4, linear in the entries
  -- T00 = 1+a+e+i, T11 = 1+a-e-i, T22 = 1-a+e-i, T33 = 1-a-e+i,
  -- T01 = h-f, T02 = c-g, T03 = d-b, T12 = b+d, T13 = c+g, T23 = f+h
  have finish : ∀ q0 q1 q2 q3 : ℝ,
      4 * (q0 * q0) = 1+a+e+i → 4 * (q0 * q1) = h-f → 4 * (q0 * q2) = c-g → 4 * (q0 * q3) = d-b →
      4 * (q1 * q1) = 1+a-e-i → 4 * (q1 * q2) = b+d → 4 * (q1 * q3) = c+g →
      4 * (q2 * q2) = 1-a+e-i → 4 * (q2 * q3) = f+h → 4 * (q3 * q3) = 1-a-e+i →
      ∃ q : Vec4 ℝ, Vec4.dot q q = 1 ∧ Gen.quat_rot q.w q.x q.y q.z = (⟨a, b, c, d, e, f, g, h, i⟩ : Mat3 ℝ) := by
    intro q0 q1 q2 q3 p00 p01 p02 p03 p11 p12 p13 p22 p23 p33
    refine ⟨⟨q0, q1, q2, q3⟩, ?_, ?_⟩
    · simp only [Vec4.dot]; linear_combination (1/4) * (p00 + p11 + p22 + p33)
    · ext <;> simp only [Gen.quat_rot]
      · linear_combination (1/4) * (p00 + p11 - p22 - p33)
      · linear_combination (1/2) * (p12 - p03)
      · linear_combination (1/2) * (p13 + p02)
      · linear_combination (1/2) * (p12 + p03)
      · linear_combination (1/4) * (p00 - p11 + p22 - p33)
      · linear_combination (1/2) * (p23 - p01)
      · linear_combination (1/2) * (p13 - p02)
      · linear_combination (1/2) * (p23 + p01)
      · linear_combination (1/4) * (p00 - p11 - p22 + p33)
  -- one of the four diagonal entries is positive (they sum to 4)
  by_cases h0 : 0 < 1+a+e+i
  · obtain ⟨q0, q1, q2, q3, p00, p01, p02, p03, p11, p12, p13, p22, p23, p33⟩ :=
      rank_one_col (t00 := 1+a+e+i) (t01 := h-f) (t02 := c-g) (t03 := d-b) (t11 := 1+a-e-i) (t12 := b+d)
        (t13 := c+g) (t22 := 1-a+e-i) (t23 := f+h) (t33 := 1-a-e+i) h0
        (by linear_combination r2 + r3 - c1 - 2 * ka)
        (by linear_combination -r12 - c12 - kb - kd)
        (by linear_combination -r13 - c13 - kg - kc)
        (by linear_combination r1 + r3 - c2 - 2 * ke)
        (by linear_combination -r23 - c23 - kh - kf)
        (by linear_combination -r3 + c1 + c2 - 2 * ki)
    exact finish q0 q1 q2 q3 p00 p01 p02 p03 p11 p12 p13 p22 p23 p33
  by_cases h1 : 0 < 1+a-e-i
  · -- column 1: roles (0,1,2,3) ↦ (1,0,2,3)
    obtain ⟨q1, q0, q2, q3, p11, p01, p12, p13, p00, p02, p03, p22, p23, p33⟩ :=
      rank_one_col (t00 := 1+a-e-i) (t01 := h-f) (t02 := b+d) (t03 := c+g) (t11 := 1+a+e+i) (t12 := c-g)
        (t13 := d-b) (t22 := 1-a+e-i) (t23 := f+h) (t33 := 1-a-e+i) h1
        (by linear_combination r2 + r3 - c1 - 2 * ka)
        (by linear_combination r13 - c13 + kg - kc)
        (by linear_combination -r12 + c12 + kb - kd)
        (by linear_combination -r3 + c1 + c2 + 2 * ki)
        (by linear_combination r23 + c23 - kh - kf)
        (by linear_combination r1 + r3 - c2 + 2 * ke)
    exact finish q0 q1 q2 q3 p00 (by linear_combination p01) p02 p03 p11 p12 p13 p22 p23 p33
  by_cases h2 : 0 < 1-a+e-i
  · -- column 2: roles (0,1,2,3) ↦ (2,0,1,3)
    obtain ⟨q2, q0, q1, q3, p22, p02, p12, p23, p00, p01, p03, p11, p13, p33⟩ :=
      rank_one_col (t00 := 1-a+e-i) (t01 := c-g) (t02 := b+d) (t03 := f+h) (t11 := 1+a+e+i) (t12 := h-f)
        (t13 := d-b) (t22 := 1+a-e-i) (t23 := c+g) (t33 := 1-a-e+i) h2
        (by linear_combination r1 + r3 - c2 - 2 * ke)
        (by linear_combination -r23 + c23 - kh + kf)
        (by linear_combination r12 - c12 + kb - kd)
        (by linear_combination -r3 + c1 + c2 + 2 * ki)
        (by linear_combination r13 + c13 - kg - kc)
        (by linear_combination r2 + r3 - c1 + 2 * ka)
    exact finish q0 q1 q2 q3 p00 p01 (by linear_combination p02) p03 p11 (by linear_combination p12) p13 p22 p23 p33
  · -- column 3: roles (0,1,2,3) ↦ (3,0,1,2)
    have h3 : 0 < 1-a-e+i := by
      push Not at h0 h1 h2
      linarith
    obtain ⟨q3, q0, q1, q2, p33, p03, p13, p23, p00, p01, p02, p11, p12, p22⟩ :=
      rank_one_col (t00 := 1-a-e+i) (t01 := d-b) (t02 := c+g) (t03 := f+h) (t11 := 1+a+e+i) (t12 := h-f)
        (t13 := c-g) (t22 := 1+a-e-i) (t23 := b+d) (t33 := 1-a+e-i) h3
        (by linear_combination -r3 + c1 + c2 - 2 * ki)
        (by linear_combination r23 - c23 - kh + kf)
        (by linear_combination -r13 + c13 + kg - kc)
        (by linear_combination r1 + r3 - c2 + 2 * ke)
        (by linear_combination r12 + c12 - kb - kd)
        (by linear_combination r2 + r3 - c1 + 2 * ka)
    exact finish q0 q1 q2 q3 p00 p01 p02 (by linear_combination p03) p11 p12 (by linear_combination p13) p22
      (by linear_combination p23) p33

end Proofs.Quat
