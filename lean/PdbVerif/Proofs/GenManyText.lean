/-
  The TEXT side of the external methods (`GenM.Ext.text`, what the driver runs against the real code: rows written by the translated
  `data2pdb` loop body, tables parsed by the record loop, errors kept) agrees with the hand model's side with the concrete round trip
  (`GenM.Ext.model Model.textRoundtrip`, what the equalities of Proofs/GenMany.lean are stated for) on rows that fit the PDB columns.
-/
import PdbVerif.Proofs.GenMany
import PdbVerif.Proofs.TableWorldText

set_option linter.unusedVariables false
set_option linter.unusedSimpArgs false

namespace Proofs.GenMany
open Tbl GenM Model TableProofs

theorem not_endmdl_export (a : Py.Atom) : Py.startsWith (Proofs.Line.exportPieces a).line Gen.endmdl_prefix = false := by
  simp only [Py.startsWith, Gen.endmdl_prefix, Proofs.Line.Pieces.line, Proofs.Line.Pieces.segs, List.flatten_cons, List.cons_append]
  rfl

theorem mapM_ofRow_toRow : ∀ (l : List Py.Atom), (l.map Py.Atom.toRow).mapM Py.Atom.ofRow = some l
  | [] => rfl
  | a :: t => by simp only [List.map_cons, List.mapM_cons, ofRow_toRow, mapM_ofRow_toRow t]; rfl

/-- **the text side agrees with the hand model's round trip** on rows that fit the PDB columns (C02's `Fits`, non-blank chain,
    coordinates in range): every row is written by the translated `data2pdb` loop body, and the table parsed from those lines holds,
    row by row, the read-back rows `rbRow` (= `Model.textRoundtrip`, Props/C15 `roundtrip_is_readBack`), with `_nModel = 0`; an empty
    list of lines is IndexError — what `Model.newTable Model.textRoundtrip` says -/
theorem text_table_eq (T : Table) (h : ∀ r ∈ T, RowFits r) (tn : Py.Str) :
    ∃ lines, T.mapM (fun r => Gen.data2pdb_line r.atom) = .ok lines ∧
      Ext.textTable lines tn =
        (match newTable Model.textRoundtrip (Rt.cleanName tn) T with | .ok t => .ok (t, 0) | .error e => .error e) := by
  have h1 : T.mapM (fun r => Gen.data2pdb_line r.atom) = .ok (T.map (fun r => (Proofs.Line.exportPieces r.atom).line)) := by
    apply except_mapM_ok
    intro r hr
    obtain ⟨hf, _, hx, hy, hz⟩ := h r hr
    exact Proofs.Line.export_eq r.atom hf hx hy hz
  refine ⟨_, h1, ?_⟩
  unfold Ext.textTable newTable
  rw [textRoundtrip_eq T h]
  cases T with
  | nil => rfl
  | cons r0 t =>
    have hne : (List.map (fun r => (Proofs.Line.exportPieces r.atom).line) (r0 :: t)).isEmpty = false := rfl
    rw [hne, Proofs.ParseRows.parse_eq Proofs.Parse.parseAtomLine_eq, Spec.parse, parseFrom_export _ h]
    simp only [Bool.false_eq_true, if_false, List.isEmpty_cons]
    rw [show List.map (fun r => (rbRow r).atom.toRow) (r0 :: t) = List.map Py.Atom.toRow (List.map (fun r => (rbRow r).atom) (r0 :: t)) by
      rw [List.map_map]; rfl, mapM_ofRow_toRow]
    simp only [List.map_map]
    have hcount : (List.filter (fun l => Py.startsWith l Gen.endmdl_prefix)
        (List.map (fun r => (Proofs.Line.exportPieces r.atom).line) (r0 :: t))).length = 0 := by
      rw [List.length_eq_zero_iff, List.filter_eq_nil_iff]
      intro l hl
      obtain ⟨r, _, rfl⟩ := List.mem_map.1 hl
      simp [not_endmdl_export]
    rw [hcount]
    rfl

/-- …hence the text side's `pdb2sql.__init__` (after its CREATE TABLE statement) on the exported lines of fitting rows IS the hand model's side with the concrete round trip -/
theorem text_init_eq_model (T : Table) (h : ∀ r ∈ T, RowFits r) (tn : Py.Str) :
    ∃ lines, T.mapM (fun r => Gen.data2pdb_line r.atom) = .ok lines ∧
      Ext.text.pdb2sql_init lines tn = (Ext.model Model.textRoundtrip).pdb2sql_init T (Rt.cleanName tn) := by
  obtain ⟨lines, h1, h2⟩ := text_table_eq T h tn
  refine ⟨lines, h1, ?_⟩
  simp only [Ext.text, Ext.model, h2]
  cases newTable Model.textRoundtrip (Rt.cleanName tn) T <;> rfl
end Proofs.GenMany
