/-
  Generic list lemmas for the table model (cluster B): insertion sort without duplicates, chunking,
  splitting a filter of a sorted list, `mapM` in `Option` / `Except`.
-/
import Mathlib.Data.List.Basic
import Mathlib.Data.List.Pairwise
import Mathlib.Data.List.Forall2
import Mathlib.Data.List.Lex
import Mathlib.Data.Char
import Mathlib.Tactic.Linarith
import PdbVerif.Model.Table

set_option linter.unusedVariables false
set_option linter.unusedSimpArgs false

namespace TableProofs
open Tbl

/-! ### `sortDedup` -/

section sort
variable {α : Type} [DecidableEq α] (lt : α → α → Bool)

theorem mem_insertSorted (a x : α) (l : List α) : x ∈ insertSorted lt a l ↔ x = a ∨ x ∈ l := by
  induction l with
  | nil => simp [insertSorted]
  | cons b t ih =>
    unfold insertSorted
    split_ifs with h1 h2
    · simp
    · subst h2; simp
    · simp [ih]; tauto

theorem mem_sortDedup (x : α) (l : List α) : x ∈ sortDedup lt l ↔ x ∈ l := by
  induction l with
  | nil => simp [sortDedup]
  | cons a t ih =>
    have : sortDedup lt (a :: t) = insertSorted lt a (sortDedup lt t) := rfl
    rw [this, mem_insertSorted, ih]; simp

/-- `lt` is a strict total order -/
structure StrictTotal : Prop where
  irrefl : ∀ a, lt a a = false
  trans : ∀ a b c, lt a b = true → lt b c = true → lt a c = true
  total : ∀ a b, lt a b = false → a ≠ b → lt b a = true

variable {lt}

theorem pairwise_insertSorted (h : StrictTotal lt) (a : α) (l : List α)
    (hl : l.Pairwise (fun x y => lt x y = true)) :
    (insertSorted lt a l).Pairwise (fun x y => lt x y = true) := by
  induction l with
  | nil => simp [insertSorted]
  | cons b t ih =>
    unfold insertSorted
    rw [List.pairwise_cons] at hl
    split_ifs with h1 h2
    · rw [List.pairwise_cons]
      refine ⟨?_, List.pairwise_cons.2 hl⟩
      intro y hy
      rcases List.mem_cons.1 hy with rfl | hy
      · exact h1
      · exact h.trans _ _ _ h1 (hl.1 y hy)
    · exact List.pairwise_cons.2 hl
    · rw [List.pairwise_cons]
      refine ⟨?_, ih hl.2⟩
      intro y hy
      rcases (mem_insertSorted lt a y t).1 hy with rfl | hy
      · exact h.total _ _ (by simpa using h1) h2
      · exact hl.1 y hy

theorem pairwise_sortDedup (h : StrictTotal lt) (l : List α) :
    (sortDedup lt l).Pairwise (fun x y => lt x y = true) := by
  induction l with
  | nil => simp [sortDedup]
  | cons a t ih => exact pairwise_insertSorted h a _ ih

/-- two strictly ascending lists with the same members are equal -/
theorem eq_of_pairwise_of_mem_iff (h : StrictTotal lt) :
    ∀ (l₁ l₂ : List α), l₁.Pairwise (fun x y => lt x y = true) → l₂.Pairwise (fun x y => lt x y = true) →
      (∀ x, x ∈ l₁ ↔ x ∈ l₂) → l₁ = l₂
  | [], [], _, _, _ => rfl
  | [], b :: t, _, _, hm => by have := (hm b).2 (by simp); simp at this
  | a :: t, [], _, _, hm => by have := (hm a).1 (by simp); simp at this
  | a :: t₁, b :: t₂, h1, h2, hm => by
    rw [List.pairwise_cons] at h1 h2
    have hab : a = b := by
      by_contra hne
      have ha : a ∈ t₂ := by
        have := (hm a).1 (by simp); rcases List.mem_cons.1 this with h | h
        · exact absurd h hne
        · exact h
      have hb : b ∈ t₁ := by
        have := (hm b).2 (by simp); rcases List.mem_cons.1 this with h | h
        · exact absurd h.symm hne
        · exact h
      have l1 := h1.1 b hb
      have l2 := h2.1 a ha
      have := h.trans _ _ _ l1 l2
      rw [h.irrefl] at this; exact Bool.noConfusion this
    subst hab
    congr 1
    apply eq_of_pairwise_of_mem_iff h t₁ t₂ h1.2 h2.2
    intro x
    constructor
    · intro hx
      have := (hm x).1 (List.mem_cons_of_mem _ hx)
      rcases List.mem_cons.1 this with rfl | h'
      · have := h1.1 x hx; rw [h.irrefl] at this; exact Bool.noConfusion this
      · exact h'
    · intro hx
      have := (hm x).2 (List.mem_cons_of_mem _ hx)
      rcases List.mem_cons.1 this with rfl | h'
      · have := h2.1 x hx; rw [h.irrefl] at this; exact Bool.noConfusion this
      · exact h'

end sort

theorem intLt_strict : StrictTotal Model.intLt where
  irrefl a := by simp [Model.intLt]
  trans a b c := by simp only [Model.intLt, decide_eq_true_eq]; omega
  total a b := by simp only [Model.intLt, decide_eq_false_iff_not, decide_eq_true_eq]; omega

theorem strLt_strict : StrictTotal strLt := by
  refine ⟨?_, ?_, ?_⟩
  · intro a; simp [strLt]
  · intro a b c; simp only [strLt, decide_eq_true_eq]; exact fun h1 h2 => lt_trans h1 h2
  · intro a b; simp only [strLt, decide_eq_false_iff_not, decide_eq_true_eq]
    intro h1 h2; rcases lt_trichotomy a b with h | h | h
    · exact absurd h h1
    · exact absurd h h2
    · exact h

/-! ### chunks -/

section chunks
variable {α : Type}

theorem chunksAux_flatten (n : Nat) (hn : 0 < n) : ∀ (f : Nat) (l : List α), l.length ≤ f →
    (Model.chunksAux n f l).flatten = l
  | 0, l, h => by
    have : l = [] := List.length_eq_zero_iff.1 (Nat.le_zero.1 h)
    subst this; simp [Model.chunksAux]
  | f + 1, l, h => by
    unfold Model.chunksAux
    split_ifs with he
    · have : l = [] := by simpa using he
      subst this; simp
    · rw [List.flatten_cons, chunksAux_flatten n hn f (l.drop n), List.take_append_drop]
      have : l ≠ [] := by simpa using he
      have : 0 < l.length := List.length_pos_iff.2 this
      simp only [List.length_drop]; omega

theorem chunks_flatten (n : Nat) (hn : 0 < n) (l : List α) : (Model.chunks n l).flatten = l :=
  chunksAux_flatten n hn _ l (Nat.le_refl _)

theorem chunksAux_length_le (n : Nat) (hn : 0 < n) : ∀ (f : Nat) (l : List α), ∀ c ∈ Model.chunksAux n f l, c.length ≤ n ∧ c ≠ []
  | 0, l => by simp [Model.chunksAux]
  | f + 1, l => by
    unfold Model.chunksAux
    split_ifs with he
    · simp
    · intro c hc
      rcases List.mem_cons.1 hc with rfl | hc
      · constructor
        · simp [List.length_take]
        · have : l ≠ [] := by simpa using he
          intro h
          rcases List.take_eq_nil_iff.1 h with h | h
          · omega
          · exact this h
      · exact chunksAux_length_le n hn f _ c hc

theorem chunks_head (n : Nat) (hn : 0 < n) (l : List α) (hl : n ≤ l.length) :
    ∃ rest, Model.chunks n l = l.take n :: rest := by
  unfold Model.chunks
  cases hlen : l.length with
  | zero => omega
  | succ f =>
    unfold Model.chunksAux
    have : l ≠ [] := by intro h; subst h; simp at hlen
    simp [this]

theorem chunks_spec (n : Nat) (hn : 0 < n) (l : List α) :
    (Model.chunks n l).flatten = l ∧ ∀ c ∈ Model.chunks n l, c.length ≤ n ∧ c ≠ [] :=
  ⟨chunks_flatten n hn l, chunksAux_length_le n hn _ l⟩

end chunks

/-! ### a filter of a list sorted by a key splits along a cut of the key -/

theorem filter_or_split {α : Type} (key : α → Int) (A B : α → Bool) :
    ∀ (E : List α), E.Pairwise (fun x y => key x < key y) →
      (∀ a b, A a = true → B b = true → key a < key b) →
      E.filter (fun x => A x || B x) = E.filter A ++ E.filter B
  | [], _, _ => by simp
  | e :: E', hp, hAB => by
    rw [List.pairwise_cons] at hp
    have ih := filter_or_split key A B E' hp.2 hAB
    by_cases hA : A e = true
    · have hB : B e = false := by
        by_contra h
        have := hAB e e hA (by simpa using h)
        omega
      simp [List.filter_cons, hA, hB, ih]
    · have hA' : A e = false := by simpa using hA
      by_cases hB : B e = true
      · have hnone : E'.filter A = [] := by
          rw [List.filter_eq_nil_iff]
          intro x hx hAx
          have h1 := hAB x e hAx hB
          have h2 := hp.1 x hx
          omega
        simp [List.filter_cons, hA', hB, ih, hnone]
      · have hB' : B e = false := by simpa using hB
        simp [List.filter_cons, hA', hB', ih]

/-- consecutive pieces of an ascending list of keys select consecutive pieces of a list sorted by the key -/
theorem filter_pieces {α : Type} (key : α → Int) (E : List α) (hE : E.Pairwise (fun x y => key x < key y)) :
    ∀ (cs : List (List Int)), cs.flatten.Pairwise (· < ·) →
      (cs.map (fun c => E.filter (fun x => c.contains (key x)))).flatten = E.filter (fun x => cs.flatten.contains (key x))
  | [], _ => by simp
  | c :: rest, hp => by
    rw [List.flatten_cons, List.pairwise_append] at hp
    have ih := filter_pieces key E hE rest hp.2.1
    rw [List.map_cons, List.flatten_cons, ih, List.flatten_cons]
    have := filter_or_split key (fun x => c.contains (key x)) (fun x => rest.flatten.contains (key x)) E hE
      (by intro a b ha hb
          simp only [List.contains_iff_mem] at ha hb
          exact hp.2.2 _ ha _ hb)
    rw [← this]
    congr 1
    funext x
    simp [List.contains_iff_mem, List.mem_append]

/-! ### `mapM` -/

theorem option_mapM_eq_some {α β : Type} (f : α → Option β) :
    ∀ (l : List α) (l' : List β), l.mapM f = some l' ↔ List.Forall₂ (fun a b => f a = some b) l l'
  | [], l' => by cases l' <;> simp
  | a :: t, l' => by
    rw [List.mapM_cons]
    cases hfa : f a with
    | none => simp; intro h; cases h; simp_all
    | some b =>
      cases ht : t.mapM f with
      | none =>
        simp
        intro h
        cases h with
        | cons h1 h2 => have := (option_mapM_eq_some f t _).2 h2; simp_all
      | some t' =>
        simp
        constructor
        · rintro rfl
          exact List.Forall₂.cons hfa ((option_mapM_eq_some f t t').1 ht)
        · intro h
          cases h with
          | cons h1 h2 =>
            have := (option_mapM_eq_some f t _).2 h2
            simp_all

theorem except_mapM_ok {ε α β : Type} (f : α → Except ε β) (g : α → β) :
    ∀ (l : List α), (∀ a ∈ l, f a = .ok (g a)) → l.mapM f = .ok (l.map g)
  | [], _ => rfl
  | a :: t, h => by
    rw [List.mapM_cons, h a (by simp), except_mapM_ok f g t (fun x hx => h x (List.mem_cons_of_mem _ hx))]
    rfl

end TableProofs
