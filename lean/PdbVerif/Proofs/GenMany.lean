/-
  The GENERATED many2sql / interface constructors (Gen/Many.lean) on the hand model's side of the external methods
  (`GenM.Ext.model rt`: PDB data = rows, a new table = `Model.newTable rt`) ARE the derivations of the hand model
  `Model.derive` (Model/TableWorld.lean) the C15 theorems are stated about — for every round trip `rt`, every world and every
  argument, error branches inside the equation.  `get_all` = `Model.get_all` is in Proofs/GenManyNf.lean.
-/
import PdbVerif.Proofs.GenManyNf
import PdbVerif.Model.TableWorld

set_option linter.unusedVariables false
set_option linter.unusedSimpArgs false

namespace Proofs.GenMany
open Tbl GenM Model

/-- the object a constructor returns: its kind and the generated database -/
def asObj (kind : ObjKind) (r : Except Model.Err Db) : Except Model.Err Obj :=
  match r with
  | .ok db => .ok { kind := kind, db := db }
  | .error e => .error e

theorem atomName_eq : sql2pdb_tablename = atomName := by decide
theorem initName_eq : pdb2sql_init_tablename = atomName := by decide

/-- `pdb2sql.__init__` on the hand model's side: `Model.newTable` -/
theorem model_pdb2sql_init (rt : Table → Table) (rows : Table) (kw : InitKw (Ext.model rt).Data) (tn : Py.Str)
    (hkw : kw.getD (.str pdb2sql_init_tablename) = .str tn) :
    Rt.pdb2sql_init (Ext.model rt) pdb2sql_init_tablename (Elem.data (D := (Ext.model rt).Data) rows) kw =
      (match newTable rt tn rows with | .ok t => .ok { tabs := [t] } | .error e => .error e) := by
  simp only [Rt.pdb2sql_init, hkw, Rt.asName, Rt.readable, ok_bind, Ext.model] <;> try rfl

theorem model_create_table (rt : Table → Table) (db : Db) (rows : Table) (tn : Py.Str) :
    Rt.create_table (Ext.model rt) db (Elem.data (D := (Ext.model rt).Data) rows) (Elem.str (D := (Ext.model rt).Data) tn) =
      (match newTable rt tn rows with | .ok t => .ok { db with tabs := db.tabs ++ [t] } | .error e => .error e) := by
  simp only [Rt.create_table, Rt.asName, Rt.readable, ok_bind, Ext.model] <;> try rfl

/-- **`interface(db)`** = the hand model's derivation, for every round trip and every world -/
theorem interface_init_eq_model (rt : Table → Table) (w : World) (k : Nat) (o : Obj) (hk : w[k]? = some o) :
    asObj .single (interface_init (Ext.model rt) (.obj o.db) none) = Model.derive rt w (.deriveInterface k) := by
  rw [interface_init_nf, convert_input_nf]
  simp only [Model.derive, hk, atomName_eq]
  cases Model.exportRows o.db atomName [] with
  | error e => rfl
  | ok rows =>
    simp only [ok_bind]
    rw [model_pdb2sql_init rt rows none atomName (by rw [initName_eq]; rfl)]
    cases newTable rt atomName rows <;> rfl


/-- a loop that adds one table per element to the object under construction -/
theorem foldlM_tabs {α : Type} {F : Db → α → Except Model.Err Db} (g : α → Except Model.Err Tab)
    (hF : ∀ db x, F db x = (g x >>= fun t => .ok { db with tabs := db.tabs ++ [t] })) :
    ∀ (l : List α) (db : Db), List.foldlM F db l = (l.mapM g >>= fun ts => .ok { db with tabs := db.tabs ++ ts })
  | [], db => by simp [pure_eq_ok, ok_bind]
  | x :: xs, db => by
    rw [List.foldlM_cons, hF, List.mapM_cons]
    cases g x with
    | error e => rfl
    | ok t =>
      simp only [ok_bind, bind_assoc, pure_eq_ok]
      rw [foldlM_tabs g hF xs]
      cases List.mapM g xs with
      | error e => rfl
      | ok ts => simp [ok_bind, List.append_assoc]

theorem model_sql2pdb (rt : Table → Table) (db : Db) (tn : Py.Str) (kw : List Kw) :
    Rt.sql2pdb (Ext.model rt) (Elem.obj (D := (Ext.model rt).Data) db) tn kw =
      (match exportRows db tn kw with | .ok d => .ok (Elem.data (D := (Ext.model rt).Data) d) | .error e => .error e) := by
  simp only [Rt.sql2pdb]
  cases exportRows db tn kw <;> rfl

/-- export of one table and creation of the new one, as the hand model writes it -/
def deriveTab (rt : Table → Table) (db : Db) (kw : List Kw) : Tab → Except Model.Err Tab :=
  fun t => exportRows db t.name kw >>= newTable rt t.name

/-- **`many2sql_db(**kw)`** = the hand model's derivation for every multi-structure object, world and selection (with no table at all:
    UnboundLocalError on both sides, `call_no_tables`) -/
theorem call_eq_model (rt : Table → Table) (w : World) (k : Nat) (o : Obj) (hk : w[k]? = some o) (hkind : o.kind = .many)
    (kw : List Kw) :
    asObj .many (many2sql_call (Ext.model rt) o.db kw) = Model.derive rt w (.deriveSub k kw) := by
  rw [call_nf]
  simp only [Model.derive, hk, hkind]
  cases htabs : o.db.tabs with
  | nil => rfl
  | cons t0 rest =>
    simp only [List.mapM_cons]
    have hfold := foldlM_tabs (F := fun db (t : Tab) => Rt.sql2pdb (Ext.model rt) (Elem.obj o.db) t.name kw >>= fun d =>
        Rt.create_table (Ext.model rt) db d (Elem.str t.name)) (deriveTab rt o.db kw) (by
      intro db x
      show (Rt.sql2pdb (Ext.model rt) (Elem.obj o.db) x.name kw >>= fun d => Rt.create_table (Ext.model rt) db d (Elem.str x.name)) = _
      rw [model_sql2pdb]
      unfold deriveTab
      cases exportRows o.db x.name kw with
      | error e => rfl
      | ok rows =>
        simp only [ok_bind]
        rw [model_create_table]
        cases newTable rt x.name rows <;> rfl)
    simp only [hfold, init_single]
    rw [model_sql2pdb]
    simp only [deriveTab]
    cases exportRows o.db t0.name kw with
    | error e => rfl
    | ok rows =>
      simp only [ok_bind]
      rw [init_single, convert_input_nf]
      simp only [ok_bind]
      rw [model_pdb2sql_init rt rows (some (.str t0.name)) t0.name rfl]
      cases newTable rt t0.name rows with
      | error e => rfl
      | ok t =>
        simp only [ok_bind]
        rw [show (fun t : Tab => exportRows o.db t.name kw >>= newTable rt t.name) = deriveTab rt o.db kw from rfl]
        cases List.mapM (deriveTab rt o.db kw) rest with
        | error e => rfl
        | ok ts => rfl

/-- with no table at all (never the case for an object the library built): `new_db` is never bound in the source — UnboundLocalError -/
theorem call_no_tables (rt : Table → Table) (db : Db) (h : db.tabs = []) (kw : List Kw) :
    many2sql_call (Ext.model rt) db kw = .error (.unmodelled "UnboundLocalError") := by
  rw [call_nf, h]

/-! ### `many2sql([db, …])` -/

theorem manyName_pos (i : Nat) (h : 1 ≤ i) : manyName i = ['A', 'T', 'O', 'M'] ++ Py.intStr (Int.ofNat i) := by
  have h0 : i ≠ 0 := by omega
  have h1 : ¬ ((i : Int) < 0) := by omega
  simp only [manyName, h0, if_false, Py.intStr, Int.ofNat_eq_natCast, h1, Int.natAbs_natCast]
  rfl

theorem manyName_zero : manyName 0 = ['A', 'T', 'O', 'M'] := by decide

/-- one structure of `many2sql([...])` in the hand model: export of the `atom` table, new table `ATOM<i>` -/
def manyTab (rt : Table → Table) : Obj × Nat → Except Model.Err Tab :=
  fun oi => exportRows oi.1.db atomName [] >>= newTable rt (manyName oi.2)

/-- the hand model looks the objects up in the world one by one; with every index in range that is the list of the objects -/
theorem mapM_lookup (rt : Table → Table) (w : World) (f : Nat × Nat → Except Model.Err Tab)
    (hf : ∀ k i o, w[k]? = some o → f (k, i) = manyTab rt (o, i)) : ∀ (ks : List Nat) (objs : List Obj) (s : Nat),
    ks.mapM (fun k => w[k]?) = some objs → (ks.zipIdx s).mapM f = (objs.zipIdx s).mapM (manyTab rt)
  | [], objs, s, h => by
    simp only [List.mapM_nil, pure, Option.some.injEq] at h
    subst h; rfl
  | k :: ks, objs, s, h => by
    rw [List.mapM_cons] at h
    cases hk : w[k]? with
    | none => rw [hk] at h; cases h
    | some o =>
      rw [hk] at h
      cases hks : ks.mapM (fun k => w[k]?) with
      | none => rw [hks] at h; cases h
      | some os =>
        rw [hks] at h
        simp only [bind, Option.bind, pure, Option.some.injEq] at h
        subst h
        simp only [List.zipIdx_cons, List.mapM_cons, hf k s o hk]
        rw [mapM_lookup rt w f hf ks os (s + 1) hks]

/-- the tables after the first, on the hand model's side -/
theorem createRest_model (rt : Table → Table) : ∀ (os : List Obj) (s : Nat) (db : Db), 1 ≤ s →
    createRest (Ext.model rt) db (os.map (fun o => Elem.obj o.db))
        ((List.range' s os.length).map (fun i => Elem.str (['A', 'T', 'O', 'M'] ++ Py.intStr (Int.ofNat i)))) =
      ((os.zipIdx s).mapM (manyTab rt) >>= fun ts => .ok { db with tabs := db.tabs ++ ts })
  | [], s, db, _ => by simp [createRest, pure_eq_ok, ok_bind]
  | o :: os, s, db, hs => by
    simp only [List.map_cons, List.length_cons, List.range'_succ, createRest, convert_input_nf, List.zipIdx_cons, List.mapM_cons,
      manyTab, manyName_pos s hs, atomName_eq]
    cases exportRows o.db atomName [] with
    | error e => rfl
    | ok rows =>
      simp only [ok_bind]
      rw [model_create_table]
      cases newTable rt _ rows with
      | error e => rfl
      | ok t =>
        simp only [ok_bind]
        rw [createRest_model rt os (s + 1) _ (by omega)]
        cases List.mapM (manyTab rt) (os.zipIdx (s + 1)) with
        | error e => rfl
        | ok ts => simp [pure_eq_ok, ok_bind, List.append_assoc]

/-- **`many2sql([db₁, db₂, …])`** = the hand model's derivation, for every round trip and every world (every index in range) -/
theorem init_eq_model (rt : Table → Table) (w : World) (ks : List Nat) (objs : List Obj) (hobjs : ks.mapM (fun k => w[k]?) = some objs) :
    asObj .many (many2sql_init (Ext.model rt) (.list (objs.map (fun o => Elem.obj o.db))) .none) = Model.derive rt w (.deriveMany ks) := by
  rw [init_nf]
  simp only [Model.derive, ok_bind, List.length_map]
  rw [mapM_lookup rt w _ (by intro k i o h; simp only [h]; rfl) ks objs 0 hobjs]
  cases objs with
  | nil => rfl
  | cons o os =>
    simp only [List.map_cons, createAll, defaultNames, convert_input_nf, List.length_cons, Nat.add_sub_cancel, List.zipIdx_cons,
      List.mapM_cons, manyTab, manyName_zero, atomName_eq]
    cases exportRows o.db atomName [] with
    | error e => rfl
    | ok rows =>
      simp only [ok_bind]
      rw [model_pdb2sql_init rt rows (some (.str ['A', 'T', 'O', 'M'])) ['A', 'T', 'O', 'M'] rfl]
      cases newTable rt _ rows with
      | error e => rfl
      | ok t =>
        simp only [ok_bind, Nat.zero_add]
        rw [createRest_model rt os 1 _ (by omega)]
        cases List.mapM (manyTab rt) (os.zipIdx 1) with
        | error e => rfl
        | ok ts => rfl
end Proofs.GenMany
