/-
  Helper lemmas for C07 / C11 (cluster E), part 10: the slices the raw-column readers take from a record do not overlap
  the serial-number, occupancy, B-factor and element columns.  Helper lemmas only.
-/
import Mathlib.Data.List.Forall2
import Mathlib.Data.Int.Cast.Basic
import Mathlib.Data.Nat.Cast.Defs
import PdbVerif.Proofs.RmsdMap

set_option linter.unusedVariables false
set_option linter.unusedSimpArgs false

namespace Proofs.Rmsd
open Model Model.Rmsd Py Proofs.Contacts

/-! ### the raw-column readers never look at columns 7–11, 55–66, 77–78 -/

theorem slice_nat (s : Str) (a b : Nat) : slice s (a : Int) (b : Int) = (s.take (min b s.length)).drop (min a s.length) := by
  unfold slice normIdx
  have ha : ¬ ((a : Int) < 0) := by omega
  have hb : ¬ ((b : Int) < 0) := by omega
  simp only [ha, hb, if_false, Int.toNat_natCast]

theorem slice_congr {l l' : Str} (hlen : l.length = l'.length) (a b : Nat)
    (h : ∀ i, a ≤ i → i < b → l[i]? = l'[i]?) : slice l (a : Int) (b : Int) = slice l' (a : Int) (b : Int) := by
  rw [slice_nat, slice_nat, ← hlen]
  apply List.ext_getElem?
  intro j
  rw [List.getElem?_drop, List.getElem?_drop, List.getElem?_take, List.getElem?_take]
  by_cases hj : min a l.length + j < min b l.length
  · simp only [hj, if_true]
    exact h _ (by omega) (by omega)
  · simp only [hj, if_false]

theorem getItem1_congr {l l' : Str} (hlen : l.length = l'.length) (i : Nat) (h : l[i]? = l'[i]?) :
    getItem1 l (i : Int) = getItem1 l' (i : Int) := by
  unfold getItem1 getItem
  have hi : ¬ ((i : Int) < 0) := by omega
  simp only [hi, if_false, Int.toNat_natCast, h]

theorem isAtomLine_congr {l l' : Str} (h : ∀ i, i < 4 → l[i]? = l'[i]?) : isAtomLine l = isAtomLine l' := by
  unfold isAtomLine startsWith
  have ht : l.take 4 = l'.take 4 := by
    apply List.ext_getElem?
    intro j
    rw [List.getElem?_take, List.getElem?_take]
    by_cases hj : j < 4
    · simp only [hj, if_true]; exact h j hj
    · simp only [hj, if_false]
  have key : ∀ s : Str, (['A', 'T', 'O', 'M'] : Str).isPrefixOf s = ((s.take 4) == ['A', 'T', 'O', 'M']) := by
    intro s
    match s with
    | [] => rfl
    | [a] => simp [List.isPrefixOf]
    | [a, b] => simp [List.isPrefixOf]
    | [a, b, c] => simp [List.isPrefixOf]
    | a :: b :: c :: d :: rest =>
      simp only [List.isPrefixOf, List.take, BEq.comm (a := 'A'), BEq.comm (a := 'T'), BEq.comm (a := 'O'), BEq.comm (a := 'M')]
      simp [Bool.and_assoc]
  rw [key, key, ht]

/-- the three things every raw reader extracts from a record are the same for two record texts that differ in the
    serial-number, occupancy, B-factor and element columns only -/
theorem raw_ignores {l l' : Str} (h : Spec.Inv.LineSameButIgnored l l') :
    isAtomLine l = isAtomLine l' ∧ rawKey l = rawKey l' ∧ rawXyz l = rawXyz l' := by
  obtain ⟨hlen, hcol⟩ := h
  have hc : ∀ i, (i < 6 ∨ (11 ≤ i ∧ i < 54) ∨ (66 ≤ i ∧ i < 76) ∨ 78 ≤ i) → l[i]? = l'[i]? := by
    intro i hi
    apply hcol
    simp only [Spec.Inv.ignoredColumn, Bool.or_eq_false_iff, Bool.and_eq_false_iff, decide_eq_false_iff_not]
    omega
  refine ⟨isAtomLine_congr (fun i hi => hc i (by omega)), ?_, ?_⟩
  · unfold rawKey rawChain
    have e21 := getItem1_congr hlen 21 (hc 21 (by omega))
    have e72 := getItem1_congr hlen 72 (hc 72 (by omega))
    have s1 := slice_congr hlen 22 26 (fun i h1 h2 => hc i (by omega))
    have s2 := slice_congr hlen 12 16 (fun i h1 h2 => hc i (by omega))
    simp only [Nat.cast_ofNat] at e21 e72 s1 s2
    simp only [e21, e72, s1, s2]
  · unfold rawXyz
    have s1 := slice_congr hlen 30 38 (fun i h1 h2 => hc i (by omega))
    have s2 := slice_congr hlen 38 46 (fun i h1 h2 => hc i (by omega))
    have s3 := slice_congr hlen 46 54 (fun i h1 h2 => hc i (by omega))
    simp only [Nat.cast_ofNat] at s1 s2 s3
    simp only [s1, s2, s3]

/-- hence whole files: the same records are selected and read identically -/
theorem rawPts_ignores {ls ls' : List Str} (h : List.Forall₂ Spec.Inv.LineSameButIgnored ls ls') : rawPts ls' = rawPts ls := by
  unfold rawPts
  induction h with
  | nil => rfl
  | cons hl _ ih =>
    obtain ⟨h1, h2, h3⟩ := raw_ignores hl
    simp only [List.filter_cons, ← h1]
    split
    · simp only [List.mapM_cons, ih, rawPt, h2, h3]
    · exact ih

theorem rawKeys_ignores {ls ls' : List Str} (h : List.Forall₂ Spec.Inv.LineSameButIgnored ls ls') : rawKeys ls' = rawKeys ls := by
  unfold rawKeys
  induction h with
  | nil => rfl
  | cons hl _ ih =>
    obtain ⟨h1, h2, h3⟩ := raw_ignores hl
    simp only [List.filter_cons, ← h1]
    split
    · simp only [List.mapM_cons, ih, h2]
    · exact ih

/-- a decidable sufficient condition (used by the examples) -/
theorem lineSame_of_check {l l' : Str} (hlen : l.length = l'.length)
    (h : (List.range l.length).all (fun i => Spec.Inv.ignoredColumn i || (l[i]? == l'[i]?)) = true) :
    Spec.Inv.LineSameButIgnored l l' := by
  refine ⟨hlen, fun i hi => ?_⟩
  by_cases hlt : i < l.length
  · have := List.all_eq_true.mp h i (List.mem_range.mpr hlt)
    simpa [hi] using this
  · rw [List.getElem?_eq_none (by omega), List.getElem?_eq_none (by omega)]

end Proofs.Rmsd
