/-
  The translated `_format_get_output`: its normal form (`formatSpec`; the in-place loop over the rows is a `mapM`), and
  the proof that on rows of one length whose rowID cell is an int — what a SELECT returns — it is the model's `finish`.
-/
import PdbVerif.Proofs.SqlExec

set_option linter.unusedVariables false
set_option linter.unusedSimpArgs false

namespace SqlProofs
open Tbl Model GenSql

/-! ### `_format_get_output` -/

/-- `row[index] -= 1` -/
def rowDecr (index : Int) (row : List Val) : Except GErr (List Val) :=
  (Rt.getItem row index).bind (fun x => (Rt.subInt x 1).bind (fun x' => Rt.setItem row index x'))

theorem getItem_append_length {α : Type} (a : List α) (x : α) (b : List α) : Rt.getItem (a ++ x :: b) (a.length : Int) = .ok x := by
  unfold Rt.getItem
  simp only [show ¬ ((a.length : Int) < 0) by omega, if_false, Int.toNat_natCast]
  simp

theorem setItem_append_length {α : Type} (a : List α) (x y : α) (b : List α) :
    Rt.setItem (a ++ x :: b) (a.length : Int) y = .ok (a ++ y :: b) := by
  unfold Rt.setItem
  simp only [show ¬ ((a.length : Int) < 0) by omega, if_false, Int.toNat_natCast]
  simp

/-- the body of `for i in range(len(data)): data[i][index] -= 1` as translated -/
def decrBody (index : Int) (it_ : Int) (st_ : List (List Val)) : Except GErr (List (List Val)) := do
  let t2 ← Rt.getItem st_ it_
  let t3 ← Rt.getItem t2 index
  let t4 ← Rt.subInt t3 (1 : Int)
  let t5 ← Rt.setItem t2 index t4
  let t6 ← Rt.setItem st_ it_ t5
  let data_1 := t6
  pure data_1

theorem decrBody_at (index : Int) (done : List (List Val)) (r : List Val) (rest : List (List Val)) :
    decrBody index (done.length : Int) (done ++ r :: rest) = (rowDecr index r).map (fun r' => done ++ r' :: rest) := by
  unfold decrBody rowDecr
  simp only [getItem_append_length, bind, Except.bind]
  cases h1 : Rt.getItem r index with
  | error e => rfl
  | ok x =>
    simp only []
    cases h2 : Rt.subInt x 1 with
    | error e => rfl
    | ok x' =>
      simp only []
      cases h3 : Rt.setItem r index x' with
      | error e => rfl
      | ok r' => simp [setItem_append_length, pure, Except.pure, Except.map]

/-- the in-place loop visits every row once -/
theorem decr_loop (index : Int) : ∀ (todo done : List (List Val)),
    Rt.forM ((List.range' done.length todo.length).map (fun (k : Nat) => (k : Int))) (done ++ todo) (decrBody index)
      = (todo.mapM (rowDecr index)).map (done ++ ·)
  | [], done => by simp [Rt.forM, Except.map, pure, Except.pure]
  | r :: rest, done => by
    simp only [List.length_cons, List.range'_succ, List.map_cons, Rt.forM, decrBody_at, List.mapM_cons, bind, Except.bind]
    cases h1 : rowDecr index r with
    | error e => rfl
    | ok r' =>
      have ih := decr_loop index rest (done ++ [r'])
      simp only [List.length_append, List.length_singleton, List.append_assoc, List.singleton_append] at ih
      simp only [Except.map, ih]
      cases List.mapM (rowDecr index) rest <;> simp [Except.map, pure, Except.pure]

theorem range_eq (n : Nat) : Rt.range (n : Int) = (List.range' 0 n).map (fun (k : Nat) => (k : Int)) := by
  unfold Rt.range; simp [List.range_eq_range']

theorem decr_all (index : Int) (data : List (List Val)) :
    Rt.forM (Rt.range (Rt.len data)) data (decrBody index) = data.mapM (rowDecr index) := by
  have := decr_loop index data []
  simp only [List.length_nil, List.nil_append] at this
  unfold Rt.len
  rw [range_eq, this]
  cases List.mapM (rowDecr index) data <;> simp [Except.map]

/-- the last part of `_format_get_output`: flatten one-column rows -/
def flattenOut (data : List (List Val)) : Except GErr (List Item) :=
  (Rt.getItem data 0).bind (fun r0 =>
    if r0.length = 1 then (data.mapM (fun d => Rt.getItem d 0)).map (List.map Item.one)
    else .ok (data.map Item.many))

/-- **normal form of the translated `_format_get_output`** -/
def formatSpec (data : List (List Val)) (columns : Py.Str) : Except GErr (List Item) :=
  if data = [] then .ok []
  else if Py.strIn rowIDName columns = true then
    (Rt.index (Py.splitOn ',' columns) rowIDName).bind (fun index => (data.mapM (rowDecr index)).bind flattenOut)
  else flattenOut data

theorem len_eq_zero {α : Type} (l : List α) : (Rt.len l = (0 : Int)) ↔ l = [] := by
  unfold Rt.len; cases l <;> simp; omega

theorem len_eq_one {α : Type} (l : List α) : (Rt.len l = (1 : Int)) ↔ l.length = 1 := by
  unfold Rt.len; omega

theorem decrBody_def (index : Int) : (fun (it_ : Int) (st_ : List (List Val)) => (do
          let t2 ← Rt.getItem st_ it_
          let t3 ← Rt.getItem t2 index
          let t4 ← Rt.subInt t3 (1 : Int)
          let t5 ← Rt.setItem t2 index t4
          let t6 ← Rt.setItem st_ it_ t5
          let data_1 := t6
          pure data_1 : Except GErr (List (List Val)))) = decrBody index := rfl

theorem flatten_nf (data : List (List Val)) :
    (do let t8 ← Rt.getItem data (0 : Int)
        if ((Rt.len t8) = (1 : Int)) then
          let t10 ← List.mapM (fun d => do let t9 ← Rt.getItem d (0 : Int); pure t9) data
          let data_3 := t10
          pure (List.map Item.one data_3)
        else
          pure (List.map Item.many data) : Except GErr (List Item)) = flattenOut data := by
  unfold flattenOut
  simp only [bind, Except.bind, len_eq_one]
  cases Rt.getItem data 0 with
  | error e => rfl
  | ok r0 =>
    simp only []
    by_cases h : r0.length = 1
    · simp only [h, if_true]
      cases List.mapM (fun d : List Val => Rt.getItem d 0) data <;> rfl
    · simp only [h, if_false]; rfl

theorem format_get_output_nf (data : List (List Val)) (columns : Py.Str) :
    format_get_output data columns = formatSpec data columns := by
  unfold format_get_output formatSpec
  by_cases h0 : data = []
  · subst h0; simp [len_eq_zero, pure, Except.pure]
  · simp only [len_eq_zero, h0, if_false, rowID_lit, decrBody_def, decr_all]
    by_cases h1 : Py.strIn rowIDName columns = true
    · simp only [h1, if_true, bind, Except.bind]
      cases Rt.index (Py.splitOn ',' columns) rowIDName with
      | error e => rfl
      | ok index =>
        simp only []
        cases hd : List.mapM (rowDecr index) data with
        | error e => rfl
        | ok data' =>
          simp only []
          have := flatten_nf data'
          simp only [bind, Except.bind] at this
          exact this
    · simp only [h1, if_false]
      exact flatten_nf data


/-! ### the translated `_format_get_output` is the model's `finish` on what a SELECT returns -/

theorem getItem_nat {α : Type} (l : List α) (i : Nat) (x : α) (h : l[i]? = some x) : Rt.getItem l (i : Int) = .ok x := by
  unfold Rt.getItem
  simp only [show ¬ ((i : Int) < 0) by omega, if_false, Int.toNat_natCast, h]

theorem setItem_nat {α : Type} (l : List α) (i : Nat) (x : α) (h : i < l.length) : Rt.setItem l (i : Int) x = .ok (l.set i x) := by
  unfold Rt.setItem
  simp only [show ¬ ((i : Int) < 0) by omega, if_false, Int.toNat_natCast, h, if_true]

theorem rowDecr_int (index : Nat) (row : List Val) (i : Int) (h : row[index]? = some (.int i)) :
    rowDecr (index : Int) row = .ok (row.modify index decr) := by
  have hlt : index < row.length := by
    by_contra hc; rw [List.getElem?_eq_none (by omega)] at h; cases h
  unfold rowDecr
  rw [getItem_nat _ _ _ h]
  simp only [Except.bind, Rt.subInt, setItem_nat _ _ _ hlt]
  congr 1
  rw [List.modify_eq_set_getElem?, h]
  rfl

theorem errOf_index : errOf (.valueError "x not in list") = .valueError := by decide

theorem mapM_ok_of {ε α β : Type} (f : α → Except ε β) (g : α → β) : ∀ (l : List α), (∀ x ∈ l, f x = .ok (g x)) → l.mapM f = .ok (l.map g)
  | [], _ => rfl
  | a :: t, h => by
    simp only [List.mapM_cons, h a (by simp), mapM_ok_of f g t (fun x hx => h x (by simp [hx])), bind, Except.bind, pure,
      Except.pure, List.map_cons]

theorem flattenOut_eq (r0 : List Val) (rest : List (List Val)) (n : Nat) (hlen : ∀ r ∈ r0 :: rest, r.length = n) :
    flattenOut (r0 :: rest) = .ok (if n = 1 then (r0 :: rest).map (fun r => Item.one (r.headD (.int 0))) else (r0 :: rest).map Item.many) := by
  unfold flattenOut
  have h0 : Rt.getItem (r0 :: rest) 0 = .ok r0 := getItem_nat (r0 :: rest) 0 r0 rfl
  simp only [h0, Except.bind, hlen r0 (by simp)]
  by_cases h1 : n = 1
  · simp only [h1, if_true]
    have : (r0 :: rest).mapM (fun d : List Val => Rt.getItem d 0) = .ok ((r0 :: rest).map (fun r => r.headD (.int 0))) := by
      apply mapM_ok_of
      intro r hr
      have hl := hlen r hr
      cases r with
      | nil => simp [h1] at hl
      | cons a t => exact getItem_nat (a :: t) 0 a rfl
    rw [this]; simp [Except.map]
  · simp only [h1, if_false]

/-- for rows of one length whose rowID cell (when rowID is asked for) is an int -/
theorem format_eq_finish (columns : Py.Str) (data : List (List Val)) (n : Nat) (hlen : ∀ r ∈ data, r.length = n)
    (hint : ∀ index, (Py.splitOn ',' columns).idxOf? rowIDName = some index → ∀ r ∈ data, ∃ i, r[index]? = some (Val.int i)) :
    (formatSpec data columns).mapError errOf = finish columns data := by
  cases data with
  | nil => simp [formatSpec, finish, Except.mapError]
  | cons r0 rest =>
    unfold formatSpec finish fixRowID
    simp only [List.cons_ne_nil, if_false]
    by_cases hs : Py.strIn rowIDName columns = true
    · simp only [hs, if_true, Rt.index]
      cases hi : (Py.splitOn ',' columns).idxOf? rowIDName with
      | none => simp only [Except.bind, Except.mapError, errOf_index]
      | some index =>
        have hrows : (r0 :: rest).mapM (rowDecr (index : Int)) = .ok ((r0 :: rest).map (fun r => r.modify index decr)) := by
          apply mapM_ok_of
          intro r hr
          obtain ⟨i, hi'⟩ := hint index hi r hr
          exact rowDecr_int index r i hi'
        simp only [Except.bind, hrows, List.map_cons]
        rw [flattenOut_eq _ _ n (by
          intro r hr
          rcases List.mem_cons.1 hr with rfl | hr
          · rw [List.length_modify]; exact hlen r0 (by simp)
          · obtain ⟨r', hr', rfl⟩ := List.mem_map.1 hr
            rw [List.length_modify]; exact hlen r' (by simp [hr']))]
        simp only [Except.mapError, hlen r0 (by simp)]
        by_cases h1 : n = 1 <;> simp [h1]
    · simp only [hs, if_false, Bool.false_eq_true]
      rw [flattenOut_eq r0 rest n hlen]
      simp only [Except.mapError, hlen r0 (by simp)]
      by_cases h1 : n = 1 <;> simp [h1]

end SqlProofs
