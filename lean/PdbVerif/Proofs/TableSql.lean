/-
  The SQL layer of the table model against the property's vocabulary: comparison with affinity = "equals /
  matches its decimal string form", identifier resolution on well-formed databases, WHERE = "every condition holds".
-/
import PdbVerif.Proofs.TableBasic

set_option linter.unusedVariables false
set_option linter.unusedSimpArgs false

namespace TableProofs
open Tbl Model

/-- a stored value is normalised for the declared type of its column: a TEXT column holds texts; the other
    columns never hold a text that looks like a number (SQLite converts it on the way in) -/
def normalVal (d : Decl) (v : Val) : Prop :=
  match d with
  | .text => ∃ s, v = .text s
  | _ => ∀ s, v = .text s → numOfText s = none

/-- well-formed database: names of added columns are new (SQLite compares identifiers case-insensitively and
    refuses duplicates), every row has one cell per added column, cells are normalised -/
structure WF (db : Db) : Prop where
  names : (db.colnames.map Py.lower).Nodup
  cells : ∀ t ∈ db.tabs, ∀ r ∈ t.rows, r.extra.length = db.extra.length ∧
            ∀ k, k < db.extra.length → normalVal (db.extra.getD k ⟨[], .numeric⟩).decl (r.extra.getD k (.int 0))

theorem decl_ne_text_iff (k : Kind) : (k.decl != Decl.text) = (k != Kind.text) := by cases k <;> rfl

theorem normal_std (r : Row) (s : StdCol) : normalVal s.kind.decl (r.std s) := by
  cases s <;> simp [normalVal, StdCol.kind, Kind.decl, Row.std]

/-- **comparison = matching**: SQLite's `=` with the column's affinity applied to the bound value is
    "the attribute equals the value; numeric attributes also match their decimal string form" -/
theorem cmpEq_applyAff (d : Decl) (a v : Val) (hn : normalVal d a) :
    cmpEq a (applyAff d v) = Spec.valMatches (d != .text) a v := by
  cases d
  case text =>
    obtain ⟨s, rfl⟩ := hn
    cases v <;> simp [applyAff, cmpEq, Spec.valMatches]
  all_goals
    simp only [normalVal] at hn
    cases a with
    | int i =>
      cases v with
      | int j => simp [applyAff, cmpEq, Spec.valMatches]
      | real q => simp [applyAff, cmpEq, Spec.valMatches]
      | text t =>
        cases h : numOfText t with
        | none => simp [applyAff, cmpEq, Spec.valMatches, h]
        | some q => simp [applyAff, cmpEq, Spec.valMatches, h]; exact eq_comm
    | real p =>
      cases v with
      | int j => simp [applyAff, cmpEq, Spec.valMatches]
      | real q => simp [applyAff, cmpEq, Spec.valMatches]
      | text t =>
        cases h : numOfText t with
        | none => simp [applyAff, cmpEq, Spec.valMatches, h]
        | some q => simp [applyAff, cmpEq, Spec.valMatches, h]; exact eq_comm
    | text s =>
      have hs := hn s rfl
      cases v with
      | int j => simp [applyAff, cmpEq, Spec.valMatches]
      | real q => simp [applyAff, cmpEq, Spec.valMatches]
      | text t =>
        cases h : numOfText t with
        | none => simp [applyAff, cmpEq, Spec.valMatches, h]
        | some q =>
          simp [applyAff, cmpEq, Spec.valMatches, h]
          rintro rfl
          simp [hs] at h

/-! ### identifiers -/

theorem findIdx?_congr' {α : Type} (p q : α → Bool) : ∀ (l : List α), (∀ x ∈ l, p x = q x) → l.findIdx? p = l.findIdx? q
  | [], _ => rfl
  | a :: t, h => by
    rw [List.findIdx?_cons, List.findIdx?_cons, h a (by simp),
      findIdx?_congr' p q t (fun x hx => h x (List.mem_cons_of_mem _ hx))]

theorem find?_eq_none_of {α : Type} (p : α → Bool) (l : List α) (h : ∀ x ∈ l, p x = false) : l.find? p = none := by
  rw [List.find?_eq_none]; intro x hx; simp [h x hx]

theorem inj_of_nodup_map {α β : Type} (f : α → β) : ∀ (l : List α), (l.map f).Nodup → ∀ x ∈ l, ∀ y ∈ l, f x = f y → x = y
  | [], _, x, hx, _, _, _ => by simp at hx
  | a :: t, h, x, hx, y, hy, hxy => by
    rw [List.map_cons, List.nodup_cons] at h
    rcases List.mem_cons.1 hx with rfl | hx' <;> rcases List.mem_cons.1 hy with rfl | hy'
    · rfl
    · exact absurd (hxy ▸ List.mem_map_of_mem hy') h.1
    · exact absurd (hxy ▸ List.mem_map_of_mem hx') h.1
    · exact inj_of_nodup_map f t h.2 x hx' y hy' hxy

theorem stdNames_facts :
    (StdCol.all.find? (fun c => ciEq c.pyName rowIDName) = none) ∧
    (∀ c : StdCol, StdCol.all.find? (fun c' => ciEq c'.pyName c.pyName) = some c) ∧
    (∀ c : StdCol, StdCol.all.find? (fun c' => c'.pyName = c.pyName) = some c) ∧
    (∀ c : StdCol, c.pyName ≠ rowIDName) ∧
    (rowidAliases.contains (Py.lower rowIDName) = true) := by
  refine ⟨by decide, ?_, ?_, ?_, by decide⟩ <;> intro c <;> cases c <;> decide

theorem mem_stdNames (c : StdCol) : c.pyName ∈ StdCol.all.map StdCol.pyName := by
  cases c <;> decide

/-- on a well-formed database SQLite's (case-insensitive) resolution of a listed attribute name is the exact one -/
theorem sqlCol_eq_resolve (db : Db) (h : WF db) (k : Py.Str) (hk : k ∈ db.colnames) :
    sqlCol db k = resolve db.extraNames k := by
  obtain ⟨f1, f2, f3, f4, f5⟩ := stdNames_facts
  have hnd := h.names
  have hinj := inj_of_nodup_map Py.lower db.colnames hnd
  have hrow : rowIDName ∈ db.colnames := by simp [Db.colnames, Tbl.colnames]
  have hstd : ∀ c : StdCol, c.pyName ∈ db.colnames := by
    intro c; simp only [Db.colnames, Tbl.colnames, List.mem_cons, List.mem_append]
    exact Or.inr (Or.inl (mem_stdNames c))
  have hext : ∀ n ∈ db.extraNames, n ∈ db.colnames := by
    intro n hn; simp only [Db.colnames, Tbl.colnames, List.mem_cons, List.mem_append]
    exact Or.inr (Or.inr hn)
  -- case-insensitive equality with a listed name is equality
  have hci : ∀ n ∈ db.colnames, ciEq n k = decide (n = k) := by
    intro n hn
    by_cases hnk : n = k
    · subst hnk; simp [ciEq]
    · have : Py.lower n ≠ Py.lower k := fun hl => hnk (hinj n hn k hk hl)
      simp [ciEq, this, hnk]
  simp only [Db.colnames, Tbl.colnames, List.mem_cons, List.mem_append, List.mem_map] at hk
  rcases hk with rfl | ⟨c, _, rfl⟩ | hk
  · -- rowID
    have hx : db.extraNames.findIdx? (fun n => ciEq n rowIDName) = none := by
      rw [List.findIdx?_eq_none_iff]
      intro n hn
      rw [hci n (hext n hn)]
      simp only [decide_eq_false_iff_not]
      rintro rfl
      have : db.colnames = rowIDName :: (StdCol.all.map StdCol.pyName ++ db.extraNames) := rfl
      rw [this, List.map_cons, List.nodup_cons] at hnd
      exact hnd.1 (List.mem_map_of_mem (List.mem_append_right _ hn))
    have f5' : Py.lower rowIDName ∈ rowidAliases := by decide
    simp [sqlCol, resolve, f1, hx, f5']
  · -- a standard attribute
    simp [sqlCol, resolve, f2, f3, f4]
  · -- an added column
    have hne : k ≠ rowIDName := by
      rintro rfl
      have : db.colnames = rowIDName :: (StdCol.all.map StdCol.pyName ++ db.extraNames) := rfl
      rw [this, List.map_cons, List.nodup_cons] at hnd
      exact hnd.1 (List.mem_map_of_mem (List.mem_append_right _ hk))
    have hnostd : ∀ c : StdCol, c.pyName ≠ k := by
      rintro c rfl
      have : db.colnames = rowIDName :: (StdCol.all.map StdCol.pyName ++ db.extraNames) := rfl
      rw [this, List.map_cons, List.nodup_cons, List.map_append] at hnd
      have := (List.nodup_append.1 hnd.2).2.2 _ (List.mem_map_of_mem (mem_stdNames c)) _ (List.mem_map_of_mem hk)
      exact this rfl
    have h1 : StdCol.all.find? (fun c => ciEq c.pyName k) = none :=
      find?_eq_none_of _ _ (fun c _ => by rw [hci _ (hstd c)]; simp [hnostd c])
    have h2 : StdCol.all.find? (fun c => c.pyName = k) = none :=
      find?_eq_none_of _ _ (fun c _ => by simp [hnostd c])
    have h3 : db.extraNames.findIdx? (fun n => ciEq n k) = db.extraNames.idxOf? k := by
      unfold List.idxOf?
      apply findIdx?_congr'
      intro n hn
      rw [hci n (hext n hn)]
      exact (beq_eq_decide n k).symm
    have h4 : ∃ i, db.extraNames.idxOf? k = some i := by
      cases hh : db.extraNames.idxOf? k with
      | some i => exact ⟨i, rfl⟩
      | none =>
        unfold List.idxOf? at hh
        rw [List.findIdx?_eq_none_iff] at hh
        have := hh k hk
        simp at this
    obtain ⟨i, hi⟩ := h4
    simp [sqlCol, resolve, hne, h1, h2, h3, hi]

theorem resolve_of_mem (names : List Py.Str) (k : Py.Str) (hk : k ∈ Tbl.colnames names) :
    ∃ c, resolve names k = some c := by
  obtain ⟨f1, f2, f3, f4, f5⟩ := stdNames_facts
  unfold resolve
  by_cases h0 : k = rowIDName
  · exact ⟨.rowID, by simp [h0]⟩
  · simp only [h0, if_false]
    cases hf : StdCol.all.find? (fun c => c.pyName = k) with
    | some c => exact ⟨.std c, rfl⟩
    | none =>
      simp only [Tbl.colnames, List.mem_cons, List.mem_append, List.mem_map] at hk
      rcases hk with rfl | ⟨c, _, rfl⟩ | hk
      · exact absurd rfl h0
      · rw [f3 c] at hf; cases hf
      · cases hh : names.idxOf? k with
        | some i => exact ⟨.extra i, by simp⟩
        | none =>
          unfold List.idxOf? at hh
          rw [List.findIdx?_eq_none_iff] at hh
          have := hh k hk
          simp at this

theorem resolve_eq_rowID_iff (names : List Py.Str) (k : Py.Str) : resolve names k = some .rowID ↔ k = rowIDName := by
  unfold resolve
  by_cases h0 : k = rowIDName
  · simp [h0]
  · simp only [h0, if_false, iff_false]
    cases StdCol.all.find? (fun c => c.pyName = k) with
    | some c => simp
    | none => cases names.idxOf? k <;> simp

/-! ### conditions -/

/-- every keyword names a listed attribute (after `no_`) -/
def KeysOK (db : Db) (kw : List Kw) : Prop := ∀ k ∈ kw, (stripNo k.key).2 ∈ db.colnames

/-- rowID conditions list integers -/
def RowIDInts (kw : List Kw) : Prop :=
  ∀ k ∈ kw, (stripNo k.key).2 = rowIDName → ∀ v ∈ k.arg.vals, ∃ i, v = Val.int i

/-- `RowIDInts` and `KeysOK` by evaluation, for concrete queries -/
def rowIDIntsCheck (kw : List Kw) : Bool :=
  kw.all (fun k => (stripNo k.key).2 != rowIDName || k.arg.vals.all (fun v => match v with | .int _ => true | _ => false))

theorem rowIDInts_of_check (kw : List Kw) (h : rowIDIntsCheck kw = true) : RowIDInts kw := by
  intro k hk h0 v hv
  unfold rowIDIntsCheck at h
  rw [List.all_eq_true] at h
  have := h k hk
  simp only [h0, bne_self_eq_false, Bool.false_or, List.all_eq_true] at this
  have := this v hv
  cases v with
  | int i => exact ⟨i, rfl⟩
  | real q => simp at this
  | text s => simp at this

def plus1 : Val → Val
  | .int i => .int (i + 1)
  | v => v

/-- the SQL condition the loop of `get` builds for a keyword, against the property's condition -/
def CondRel (db : Db) (k : Kw) (sc : SqlCond) (c : Spec.Cond) : Prop :=
  resolve db.extraNames (stripNo k.key).2 = some c.col ∧ c.neg = (stripNo k.key).1 ∧ c.vals = k.arg.vals ∧
  sc.col = c.col ∧ sc.neg = c.neg ∧
  sc.vals = (if (stripNo k.key).2 = rowIDName then k.arg.vals.map plus1 else k.arg.vals)

theorem stripNo_eq_splitNo (k : Py.Str) : stripNo k = Spec.splitNo k := rfl

theorem mapM_plus1 : ∀ (vs : List Val), (∀ v ∈ vs, ∃ i, v = Val.int i) → vs.mapM pyIntPlus1 = .ok (vs.map plus1) := by
  intro vs h
  apply except_mapM_ok
  intro v hv
  obtain ⟨i, rfl⟩ := h v hv
  rfl

/-- one turn of the loop on a keyword that is not over-long -/
theorem scan_step (db : Db) (h : WF db) (k : Kw) (hk : (stripNo k.key).2 ∈ db.colnames)
    (hr : (stripNo k.key).2 = rowIDName → ∀ v ∈ k.arg.vals, ∃ i, v = Val.int i) :
    ∃ sc c, scanVals (stripNo k.key).2 k.arg.vals = .ok sc.vals ∧
      mkCond db (stripNo k.key).2 (stripNo k.key).1 sc.vals = .ok sc ∧
      Spec.condOf db.extraNames k = some c ∧ CondRel db k sc c := by
  obtain ⟨col, hcol⟩ := resolve_of_mem db.extraNames _ hk
  have hsql := sqlCol_eq_resolve db h _ hk
  rw [hcol] at hsql
  let vals' := if (stripNo k.key).2 = rowIDName then k.arg.vals.map plus1 else k.arg.vals
  refine ⟨⟨col, (stripNo k.key).1, vals'⟩, ⟨col, (stripNo k.key).1, k.arg.vals⟩, ?_, ?_, ?_, ?_⟩
  · unfold scanVals
    by_cases h0 : (stripNo k.key).2 = rowIDName
    · simp only [h0, if_true, vals']; exact mapM_plus1 _ (hr h0)
    · simp [h0, vals']
  · simp [mkCond, hsql]
  · simp only [Spec.condOf, ← stripNo_eq_splitNo, hcol, Option.map_some]
  · exact ⟨hcol, rfl, rfl, rfl, rfl, rfl⟩

def plainCount (kw : List Kw) : Nat := (kw.map (fun k => k.arg.vals.length)).sum

/-- the loop over keywords none of which is over-long -/
theorem scan_short (db : Db) (h : WF db) : ∀ (kw : List Kw), KeysOK db kw → RowIDInts kw →
    (∀ k ∈ kw, isLong k.arg = false) →
    ∃ conds q, scan db kw = .ok (.conds conds (plainCount kw)) ∧ kw.mapM (Spec.condOf db.extraNames) = some q ∧
      List.Forall₂ (fun k (sq : SqlCond × Spec.Cond) => CondRel db k sq.1 sq.2) kw (conds.zip q) ∧
      conds.length = kw.length ∧ q.length = kw.length
  | [], _, _, _ => ⟨[], [], rfl, rfl, List.Forall₂.nil, rfl, rfl⟩
  | k :: rest, hk, hr, hs => by
    obtain ⟨sc, c, h1, h2, h3, h4⟩ := scan_step db h k (hk k (by simp)) (hr k (by simp))
    obtain ⟨conds, q, i1, i2, i3, i4, i5⟩ := scan_short db h rest (fun x hx => hk x (List.mem_cons_of_mem _ hx))
      (fun x hx => hr x (List.mem_cons_of_mem _ hx)) (fun x hx => hs x (List.mem_cons_of_mem _ hx))
    refine ⟨sc :: conds, c :: q, ?_, ?_, ?_, by simp [i4], by simp [i5]⟩
    · simp only [scan, hs k (by simp), h1, h2, i1, plainCount, List.map_cons, List.sum_cons]
      rfl
    · rw [List.mapM_cons, h3, i2]; rfl
    · exact List.Forall₂.cons h4 i3

/-- the loop stops at the first over-long list -/
theorem scan_long (db : Db) (h : WF db) : ∀ (l1 : List Kw) (k : Kw) (l2 : List Kw), KeysOK db l1 → RowIDInts l1 →
    (∀ x ∈ l1, isLong x.arg = false) → isLong k.arg = true →
    scan db (l1 ++ k :: l2) = .ok (.long l1.length k.key (stripNo k.key).1 k.arg.vals)
  | [], k, l2, _, _, _, hl => by simp [scan, hl]
  | x :: l1, k, l2, hk, hr, hs, hl => by
    obtain ⟨sc, c, h1, h2, h3, h4⟩ := scan_step db h x (hk x (by simp)) (hr x (by simp))
    have ih := scan_long db h l1 k l2 (fun y hy => hk y (List.mem_cons_of_mem _ hy))
      (fun y hy => hr y (List.mem_cons_of_mem _ hy)) (fun y hy => hs y (List.mem_cons_of_mem _ hy)) hl
    simp only [List.cons_append, scan, hs x (by simp), h1, h2, ih, List.length_cons]
    rfl

/-! ### WHERE = "every condition holds" -/

/-- the rows of a well-formed database -/
def RowOK (db : Db) (r : Row) : Prop :=
  r.extra.length = db.extra.length ∧
    ∀ k, k < db.extra.length → normalVal (db.extra.getD k ⟨[], .numeric⟩).decl (r.extra.getD k (.int 0))

theorem WF.rowOK {db : Db} (h : WF db) {t : Tab} (ht : t ∈ db.tabs) {r : Row} (hr : r ∈ t.rows) : RowOK db r :=
  h.cells t ht r hr

theorem getD_default {α : Type} (l : List α) (k : Nat) (d : α) (h : l.length ≤ k) : l.getD k d = d := by
  rw [List.getD_eq_getElem?_getD, List.getElem?_eq_none h]; rfl

theorem normal_cell (db : Db) (r : Row) (hr : RowOK db r) (p : Nat) (c : Col) :
    normalVal (affOf db c) (cell c p r) := by
  cases c with
  | rowID => simp [affOf, cell, normalVal]
  | std s => exact normal_std r s
  | extra k =>
    by_cases hk : k < db.extra.length
    · exact hr.2 k hk
    · have h1 : db.extra.getD k ⟨[], .numeric⟩ = ⟨[], .numeric⟩ :=
        getD_default _ _ _ (Nat.le_of_not_lt hk)
      have h2 : r.extra.getD k (.int 0) = .int 0 :=
        getD_default _ _ _ (by rw [hr.1]; exact Nat.le_of_not_lt hk)
      show normalVal (db.extra.getD k ⟨[], .numeric⟩).decl (r.extra.getD k (.int 0))
      rw [h1, h2]; simp [normalVal]

theorem aff_numeric (db : Db) (c : Col) : (affOf db c != Decl.text) = Spec.isNumeric db.extra c := by
  cases c with
  | rowID => rfl
  | std s => simp only [affOf, affOfKind, Spec.isNumeric]; exact decl_ne_text_iff s.kind
  | extra k => rfl

theorem any_map_congr {α β : Type} (f : α → β) (p : β → Bool) (q : α → Bool) :
    ∀ (l : List α), (∀ x ∈ l, p (f x) = q x) → (l.map f).any p = l.any q
  | [], _ => rfl
  | a :: t, h => by
    simp only [List.map_cons, List.any_cons, h a (by simp),
      any_map_congr f p q t (fun x hx => h x (List.mem_cons_of_mem _ hx))]

theorem holds_rel (db : Db) (r : Row) (hr : RowOK db r) (p : Nat) (k : Kw) (sc : SqlCond) (c : Spec.Cond)
    (hrel : CondRel db k sc c)
    (hint : (stripNo k.key).2 = rowIDName → ∀ v ∈ k.arg.vals, ∃ i, v = Val.int i) :
    sc.holds (sc.bound db) (r, p) = c.holds db.extra p r := by
  obtain ⟨hres, hneg, hvals, hcol, hneg', hsv⟩ := hrel
  unfold SqlCond.holds SqlCond.bound Spec.Cond.holds
  rw [hneg']
  dsimp only
  refine congrArg (fun b => b != c.neg) ?_
  rw [hsv, hcol, hvals]
  by_cases h0 : (stripNo k.key).2 = rowIDName
  · have hc : c.col = .rowID := by
      have := (resolve_eq_rowID_iff db.extraNames _).2 h0
      rw [hres] at this; exact Option.some.inj this
    simp only [h0, if_true, hc, List.map_map]
    apply any_map_congr (applyAff (affOf db Col.rowID) ∘ plus1)
    intro v hv
    obtain ⟨i, rfl⟩ := hint h0 v hv
    simp [plus1, affOf, applyAff, cmpEq, sqlCell, cell, Spec.isNumeric, Spec.valMatches]
  · have hc : c.col ≠ .rowID := by
      intro hc
      apply h0
      rw [← resolve_eq_rowID_iff db.extraNames, hres, hc]
    simp only [h0, if_false]
    apply any_map_congr
    intro v hv
    have hcell : sqlCell c.col p r = cell c.col p r := by
      cases hcc : c.col with
      | rowID => exact absurd hcc hc
      | std s => rfl
      | extra k => rfl
    simp only [hcell]
    rw [cmpEq_applyAff _ _ _ (normal_cell db r hr p c.col), aff_numeric]

/-- WHERE clause of the built conditions = "every keyword condition holds" -/
theorem where_eq_sat (db : Db) (r : Row) (hr : RowOK db r) (p : Nat) :
    ∀ (kw : List Kw) (conds : List SqlCond) (q : List Spec.Cond), RowIDInts kw →
      List.Forall₂ (fun k (sq : SqlCond × Spec.Cond) => CondRel db k sq.1 sq.2) kw (conds.zip q) →
      conds.length = kw.length → q.length = kw.length →
      sqlWhere db conds (r, p) = Spec.sat db.extra q (r, p) := by
  intro kw conds q hint hrel h1 h2
  unfold sqlWhere Spec.sat
  simp only [List.all_map]
  induction kw generalizing conds q with
  | nil =>
    cases conds <;> cases q <;> simp_all
  | cons k rest ih =>
    cases conds with
    | nil => simp at h1
    | cons sc conds =>
      cases q with
      | nil => simp at h2
      | cons c q =>
        simp only [List.zip_cons_cons, List.forall₂_cons] at hrel
        simp only [List.all_cons, Function.comp]
        rw [holds_rel db r hr p k sc c hrel.1 (hint k (by simp))]
        congr 1
        exact ih conds q (fun x hx => hint x (List.mem_cons_of_mem _ hx)) hrel.2 (by simpa using h1) (by simpa using h2)

end TableProofs
