/-
  The SQL layer of the table model against the property's vocabulary: comparison with affinity = "equals /
  matches its decimal string form", identifier resolution on well-formed databases, WHERE = "every condition holds".
-/
import PdbVerif.Proofs.TableBasic

set_option linter.unusedVariables false
set_option linter.unusedSimpArgs false

namespace TableProofs
open Tbl Model

/-- a stored value is normalised for the declared type of its column: a TEXT column holds texts; the other
    columns never hold a text that looks like a number (SQLite converts it on the way in) -/
def normalVal (d : Decl) (v : Val) : Prop :=
  match d with
  | .text => ∃ s, v = .text s
  | _ => ∀ s, v = .text s → numOfText s = none

/-- well-formed database: names of added columns are new (SQLite compares identifiers case-insensitively and
    refuses duplicates), every row has one cell per added column, cells are normalised -/
structure WF (db : Db) : Prop where
  names : (db.colnames.map Py.lower).Nodup
  cells : ∀ t ∈ db.tabs, ∀ r ∈ t.rows, r.extra.length = db.extra.length ∧
            ∀ k, k < db.extra.length → normalVal (db.extra.getD k ⟨[], .numeric⟩).decl (r.extra.getD k (.int 0))

theorem decl_ne_text_iff (k : Kind) : (k.decl != Decl.text) = (k != Kind.text) := by cases k <;> rfl

theorem normal_std (r : Row) (s : StdCol) : normalVal s.kind.decl (r.std s) := by
  cases s <;> simp [normalVal, StdCol.kind, Kind.decl, Row.std]

/-- **comparison = matching**: SQLite's `=` with the column's affinity applied to the bound value is
    "the attribute equals the value; numeric attributes also match their decimal string form" -/
theorem cmpEq_applyAff (d : Decl) (a v : Val) (hn : normalVal d a) :
    cmpEq a (applyAff d v) = Spec.valMatches (d != .text) a v := by
  cases d
  case text =>
    obtain ⟨s, rfl⟩ := hn
    cases v <;> simp [applyAff, cmpEq, Spec.valMatches]
  all_goals
    simp only [normalVal] at hn
    cases a with
    | int i =>
      cases v with
      | int j => simp [applyAff, cmpEq, Spec.valMatches]
      | real q => simp [applyAff, cmpEq, Spec.valMatches]
      | text t =>
        cases h : numOfText t with
        | none => simp [applyAff, cmpEq, Spec.valMatches, h]
        | some q => simp [applyAff, cmpEq, Spec.valMatches, h]; exact eq_comm
    | real p =>
      cases v with
      | int j => simp [applyAff, cmpEq, Spec.valMatches]
      | real q => simp [applyAff, cmpEq, Spec.valMatches]
      | text t =>
        cases h : numOfText t with
        | none => simp [applyAff, cmpEq, Spec.valMatches, h]
        | some q => simp [applyAff, cmpEq, Spec.valMatches, h]; exact eq_comm
    | text s =>
      have hs := hn s rfl
      cases v with
      | int j => simp [applyAff, cmpEq, Spec.valMatches]
      | real q => simp [applyAff, cmpEq, Spec.valMatches]
      | text t =>
        cases h : numOfText t with
        | none => simp [applyAff, cmpEq, Spec.valMatches, h]
        | some q =>
          simp [applyAff, cmpEq, Spec.valMatches, h]
          rintro rfl
          simp [hs] at h

end TableProofs
