/-
  C08: the property's domain ("two-chain complex with chains X < Y", Spec.C08.IsTwoChain) in the model's vocabulary
  (`get_chains() = [X, Y]`), and a decidable form of the side conditions for concrete examples.  Helper lemmas only.
-/
import PdbVerif.Proofs.FnatClash

set_option linter.unusedSectionVars false
set_option linter.unusedVariables false

namespace Proofs.Fnat
open Py Model Model.Fnat Proofs.Contacts
open Spec.C08 (IsTwoChain NamesConsistent)

theorem getChains_of_twoChain {t : List Atom} {X Y : Str} (h : IsTwoChain t X Y) : getChains t = [X, Y] := by
  unfold getChains
  apply sortedSet_eq_of_asc strictTotal_ltStr
  · show List.Pairwise _ [X, Y]
    simp only [List.pairwise_cons, List.mem_cons, List.mem_nil_iff, or_false, forall_eq, List.not_mem_nil, false_imp_iff,
      implies_true, List.Pairwise.nil, and_true]
    exact (str_lt_iff _ _).2 h.lt
  · intro z
    simp only [List.mem_map, List.mem_cons, List.mem_nil_iff, or_false]
    constructor
    · rintro ⟨a, ha, rfl⟩; exact h.only a ha
    · rintro (rfl | rfl)
      · obtain ⟨a, ha, hc⟩ := h.first; exact ⟨a, ha, hc⟩
      · obtain ⟨a, ha, hc⟩ := h.second; exact ⟨a, ha, hc⟩

theorem twoChain_of_getChains {t : List Atom} {X Y : Str} (h : getChains t = [X, Y]) : IsTwoChain t X Y := by
  obtain ⟨_, hXY, h1, h2⟩ := two_of_getChains h
  exact ⟨(str_lt_iff _ _).1 hXY, fun a ha => chain_cases h ha, mem_getChains.1 h1, mem_getChains.1 h2⟩

theorem namesConsistent_self {t : List Atom} (h : NamesConsistent t) : NamesConsistent (t ++ t) := by
  intro a ha b hb
  have ha' : a ∈ t := by rcases List.mem_append.1 ha with h | h <;> exact h
  have hb' : b ∈ t := by rcases List.mem_append.1 hb with h | h <;> exact h
  exact h a ha' b hb'

end Proofs.Fnat
