/-
  Helper lemmas for C05 / C14, part 7: the order of the keys of `index_contact` in the all-chains call; the all-chains
  call returns the Spec's dictionary entry for entry.
-/
import PdbVerif.Proofs.ContactsSpec

set_option linter.unusedVariables false
set_option linter.unusedSimpArgs false
set_option linter.unusedSectionVars false
namespace Proofs.Contacts
open Model Py
open Spec.Contact (Params passes near touches isHydrogen chainAtoms partners atoms residuesAt resOf)

/-! ### the order of the keys of `index_contact` -/

/-- append the elements of `l` that are new, in order -/
def addNew {κ : Type} [DecidableEq κ] (ks l : List κ) : List κ :=
  l.foldl (fun acc k => if k ∈ acc then acc else acc ++ [k]) ks

section
variable {κ ν : Type} [DecidableEq κ]

theorem addNew_append (ks a b : List κ) : addNew ks (a ++ b) = addNew (addNew ks a) b := by
  simp [addNew, List.foldl_append]

theorem addNew_cons (ks : List κ) (x : κ) (l : List κ) :
    addNew ks (x :: l) = addNew (if x ∈ ks then ks else ks ++ [x]) l := rfl

theorem mem_addNew {ks l : List κ} {k : κ} : k ∈ addNew ks l ↔ k ∈ ks ∨ k ∈ l := by
  induction l generalizing ks with
  | nil => simp [addNew]
  | cons x xs ih =>
    rw [addNew_cons, ih]
    by_cases h : x ∈ ks
    · simp only [h, if_true, List.mem_cons]
      constructor
      · rintro (h1 | h1)
        · exact Or.inl h1
        · exact Or.inr (Or.inr h1)
      · rintro (h1 | h1 | h1)
        · exact Or.inl h1
        · exact Or.inl (h1 ▸ h)
        · exact Or.inr h1
    · simp only [h, if_false, List.mem_append, List.mem_cons, List.not_mem_nil, or_false]
      constructor
      · rintro ((h1 | h1) | h1)
        · exact Or.inl h1
        · exact Or.inr (Or.inl h1)
        · exact Or.inr (Or.inr h1)
      · rintro (h1 | h1 | h1)
        · exact Or.inl (Or.inl h1)
        · exact Or.inl (Or.inr h1)
        · exact Or.inr h1

theorem addNew_of_subset {ks l : List κ} (h : ∀ k ∈ l, k ∈ ks) : addNew ks l = ks := by
  induction l with
  | nil => rfl
  | cons x xs ih =>
    rw [addNew_cons]
    simp only [h x (by simp), if_true]
    exact ih (fun k hk => h k (by simp [hk]))

theorem addNew_nil_of_nodup {l : List κ} (h : l.Nodup) : addNew [] l = l := by
  have : ∀ ks : List κ, (ks ++ l).Nodup → addNew ks l = ks ++ l := by
    induction l with
    | nil => intro ks _; simp [addNew]
    | cons x xs ih =>
      intro ks hn
      have hx : x ∉ ks := by
        intro hx
        exact (List.nodup_append.mp hn).2.2 x hx x (by simp) rfl
      rw [addNew_cons]
      simp only [hx, if_false]
      rw [ih (List.nodup_cons.mp h).2 (ks ++ [x]) (by simpa using hn)]
      simp
  simpa using this [] (by simpa using h)

theorem keys_applyEvents_addNew (d : Dict κ (List ν)) (evs : List (κ × List ν)) :
    (applyEvents d evs).keys = addNew d.keys (evs.map (·.1)) := by
  induction evs generalizing d with
  | nil => rfl
  | cons e es ih =>
    have : applyEvents d (e :: es) = applyEvents (d.extend e.1 e.2) es := rfl
    rw [this, ih, keys_extend, List.map_cons, addNew_cons]
end

/-- the keys after the events of a list of chain pairs: only the first two events of every pair matter -/
theorem addNew_pairEvents (a : ContactArgs) (t : List Atom) (ks : List Str) (cl : List (Str × Str)) :
    addNew ks ((cl.flatMap (pairEvents a t)).map (·.1)) = addNew ks (cl.flatMap (fun cc => [cc.1, cc.2])) := by
  induction cl generalizing ks with
  | nil => rfl
  | cons cc cs ih =>
    simp only [List.flatMap_cons, List.map_append, addNew_append]
    rw [ih]
    congr 1
    have : (pairEvents a t cc).map (·.1) = [cc.1, cc.2] ++ (icEvents cc.1 cc.2 (selOf a t cc)).map (·.1) := by
      simp [pairEvents]
    rw [this, addNew_append]
    apply addNew_of_subset
    intro k hk
    rw [mem_addNew]
    refine Or.inr ?_
    simp only [icEvents, List.mem_map, List.mem_flatMap, List.mem_cons, List.not_mem_nil, or_false] at hk
    obtain ⟨e, ⟨x, _, rfl | rfl⟩, rfl⟩ := hk <;> simp

theorem addNew_star (x : Str) (zs ks : List Str) (hz : zs ≠ []) :
    addNew ks ((zs.map (fun y => (x, y))).flatMap (fun cc => [cc.1, cc.2])) = addNew ks (x :: zs) := by
  induction zs generalizing ks with
  | nil => exact absurd rfl hz
  | cons z zs' ih =>
    simp only [List.map_cons, List.flatMap_cons]
    rw [addNew_append]
    by_cases hz' : zs' = []
    · subst hz'; simp [addNew]
    · rw [ih _ hz']
      have hx : x ∈ addNew ks [x, z] := mem_addNew.mpr (Or.inr (by simp))
      rw [addNew_cons]
      simp only [hx, if_true]
      rw [← addNew_append]
      rfl

theorem addNew_combinations2 (l ks : List Str) :
    addNew ks ((combinations2 l).flatMap (fun cc => [cc.1, cc.2])) = if 2 ≤ l.length then addNew ks l else ks := by
  induction l generalizing ks with
  | nil => simp [combinations2, addNew]
  | cons x xs ih =>
    cases xs with
    | nil => simp [combinations2, addNew]
    | cons y ys =>
      have h2 : 2 ≤ (x :: y :: ys).length := by simp
      simp only [h2, if_true]
      rw [combinations2, List.flatMap_append, addNew_append, addNew_star x (y :: ys) ks (by simp), ih]
      have hsub : addNew (addNew ks (x :: y :: ys)) (y :: ys) = addNew ks (x :: y :: ys) :=
        addNew_of_subset (fun k hk => mem_addNew.mpr (Or.inr (List.mem_cons_of_mem _ hk)))
      split
      · exact hsub
      · rfl

theorem keys_icAfterLoop_all (t : List Atom) (a : ContactArgs) (hall : a.allchains = true) (h2 : 2 ≤ (getChains t).length) :
    (icAfterLoop t a).keys = getChains t := by
  unfold icAfterLoop
  rw [keys_applyEvents_addNew, callChains_all hall, addNew_pairEvents, addNew_combinations2]
  simp only [h2, if_true, Dict.keys, List.map_nil]
  exact addNew_nil_of_nodup (asc_nodup strictTotal_ltStr (asc_getChains t))

/-- after the per-chain post-processing the dictionary is the Spec's, entry for entry and in the same order -/
theorem icMapped_all (t : List Atom) (a : ContactArgs) (hall : a.allchains = true) (h2 : 2 ≤ (getChains t).length)
    (hext : a.extend = false) :
    (icAfterLoop t a).map (fun e => (e.1, extendIf a t (sortedSet ltNat e.2))) = Spec.Contact.allChains (params a) t := by
  have hd := nodup_keys_icAfterLoop t a
  rw [eq_map_keys _ hd, keys_icAfterLoop_all t a hall h2, List.map_map, Spec.Contact.allChains, chainIDs_eq]
  apply List.map_congr_left
  intro X hX
  simp only [Function.comp, Prod.mk.injEq, true_and, extendIf, hext, Bool.false_eq_true, if_false]
  rw [Spec.Contact.contactAtomsAll, sortDistinct_eq, natLt_eq]
  apply sortedSet_congr strictTotal_ltNat
  intro z
  rw [mem_getD_icAfterLoop_all hall hX]
  simp [Spec.Contact.contactAtomsAll, sortDistinct_eq]

/-- the all-chains call (at least two chains, no extension) with the Spec's dictionary -/
theorem contactRun_all_spec (t : List Atom) (a : ContactArgs) (hall : a.allchains = true) (h2 : 2 ≤ (getChains t).length)
    (hext : a.extend = false) :
    contactRun t a = .ok (Spec.Contact.allChains (params a) t, pairsAfterLoop t a) := by
  rw [contactRun_all t a hall h2, icMapped_all t a hall h2 hext]

theorem contactSets_all (t : List Atom) (a : ContactArgs) (hall : a.allchains = true) (h2 : 2 ≤ (getChains t).length)
    (hext : a.extend = false) : contactSets t a = .ok (Spec.Contact.allChains (params a) t) := by
  simp [contactSets, contactRun_all_spec t a hall h2 hext, Except.map]

end Proofs.Contacts
