/-
  Helper lemmas for C09 (route agreement), written by cluster E on top of the C07 pair theorems, part 15:
  `fast_eq_sql_irmsd`, `fast_eq_sql_lrmsd` (the fast and the SQL route of a measure hand the kernel permutations of the same
  list — the definition's —, hence equal deviations, equal minimum, equal fit-then-evaluate value) and `zone_sources_agree`
  (zone computed in memory = written to an absent file = read back from that file; also for the SQL i-RMSD routine reading
  the file).  Imports `Proofs.Zone` (the string-level zone round trip), not `Props.C09`, so that Props/C09.lean can
  re-export these statements.  Helper lemmas only.
-/
import PdbVerif.Proofs.RmsdInv
import PdbVerif.Proofs.RmsdMsd
import PdbVerif.Proofs.Zone

set_option linter.unusedVariables false
set_option linter.unusedSimpArgs false
set_option linter.unusedSectionVars false

namespace Proofs.Routes
open Py Model Model.Rmsd Spec.Rmsd Proofs.Rmsd Proofs.Msd Proofs.Contacts

/-! ### the zone written to a file and read back is the zone computed in memory -/

theorem mapM_bind {α β γ : Type} (f : α → Except Err β) (g : β → Except Err γ) :
    ∀ (l : List α) (L : List β), l.mapM f = .ok L → L.mapM g = l.mapM (fun x => f x >>= g)
  | [], L, h => by
    simp only [List.mapM_nil, pure, Except.pure, Except.ok.injEq] at h; subst h; rfl
  | a :: l, L, h => by
    rw [List.mapM_cons] at h
    cases hf : f a with
    | error e => simp [hf, bind, Except.bind] at h
    | ok b =>
      cases hl : l.mapM f with
      | error e => simp [hf, hl, bind, Except.bind] at h
      | ok bs =>
        simp only [hf, hl, bind, Except.bind, pure, Except.pure, Except.ok.injEq] at h
        subst h
        rw [List.mapM_cons, List.mapM_cons, mapM_bind f g l bs hl, hf]
        rfl

theorem readZone_of_mapM : ∀ (lines : List Str) (rs : List (Str × Int)) (acc : Zone),
    lines.mapM Gen.read_zone_line = .ok rs →
    lines.foldlM (fun (d : Zone) line => do
      let r ← Gen.read_zone_line line
      pure ((d.setDefault r.1 []).extend r.1 [r.2])) acc =
    .ok (rs.foldl (fun (d : Zone) res => (d.setDefault res.1 []).extend res.1 [res.2]) acc)
  | [], rs, acc, h => by
    simp only [List.mapM_nil, pure, Except.pure, Except.ok.injEq] at h; subst h; rfl
  | line :: lines, rs, acc, h => by
    rw [List.mapM_cons] at h
    cases hf : Gen.read_zone_line line with
    | error e => simp [hf, bind, Except.bind] at h
    | ok r =>
      cases hl : lines.mapM Gen.read_zone_line with
      | error e => simp [hf, hl, bind, Except.bind] at h
      | ok rs' =>
        simp only [hf, hl, bind, Except.bind, pure, Except.pure, Except.ok.injEq] at h
        subst h
        rw [List.foldlM_cons]
        simp only [hf, bind, Except.bind, pure, Except.pure, List.foldl_cons]
        exact readZone_of_mapM lines rs' _ hl

/-- the line `_write_zone` writes (same statement as `Props.C09.zone_line_format`; restated here so that Props/C09.lean can
    import this file) -/
theorem zone_line_format' (chain : Str) (num : Int) :
    Gen.zone_line chain num =
      .ok ("zone ".toList ++ chain ++ intStr num ++ ['-'] ++ chain ++ intStr num ++ ['\n']) := by
  rw [Proofs.Zone.zone_line_eq]; simp

/-- a whole written zone is read back residue by residue (`Props.C09.read_write_zone_file`, from `Proofs.Zone.read_write_zone`) -/
theorem read_write_zone_file' (zs : List (Char × Int)) (h : ∀ z ∈ zs, z.1 ≠ '-' ∧ Py.isSpace z.1 = false) :
    zs.mapM (fun z => Gen.zone_line [z.1] z.2 >>= Gen.read_zone_line) = .ok (zs.map fun z => ([z.1], z.2)) := by
  induction zs with
  | nil => rfl
  | cons z zs ih =>
    have hz := h z (List.mem_cons_self ..)
    have ih' := ih (fun w hw => h w (List.mem_cons_of_mem _ hw))
    rw [List.mapM_cons, Proofs.Zone.read_write_zone z.1 z.2 hz.1 hz.2, ih']
    rfl

/-- every chain identifier of the residue list is one character other than `-` and blanks -/
def ChainsWritable (zl : List (Str × Int)) : Prop := ∀ r ∈ zl, ∃ c : Char, r.1 = [c] ∧ c ≠ '-' ∧ isSpace c = false

/-- **zone_sources_agree (files).**  The text `_write_zone` writes for a residue list is read back by `read_zone` as the
    dictionary `compute_izone` / `compute_lzone` build in memory from the same list. -/
theorem read_written_zone (zl : List (Str × Int)) (hw : ChainsWritable zl) :
    ∃ text, zoneText zl = .ok text ∧ readZone text = .ok (zoneOfResidues zl) := by
  -- the residue list with its chains as characters
  have hzs : ∃ zs : List (Char × Int), zl = zs.map (fun z => ([z.1], z.2)) ∧ ∀ z ∈ zs, z.1 ≠ '-' ∧ isSpace z.1 = false := by
    induction zl with
    | nil => exact ⟨[], rfl, by simp⟩
    | cons r zl ih =>
      obtain ⟨zs, h1, h2⟩ := ih (fun x hx => hw x (List.mem_cons_of_mem _ hx))
      obtain ⟨c, hc, hd, hs⟩ := hw r (by simp)
      refine ⟨(c, r.2) :: zs, ?_, ?_⟩
      · simp only [List.map_cons, ← h1, ← hc]
      · intro z hz
        rcases List.mem_cons.mp hz with rfl | hz
        · exact ⟨hd, hs⟩
        · exact h2 z hz
  obtain ⟨zs, rfl, hzs⟩ := hzs
  have hrw := read_write_zone_file' zs hzs
  -- every line is written
  have hlines : ∃ text, (zs.map (fun z => (([z.1] : Str), z.2))).mapM (fun r => Gen.zone_line r.1 r.2) = .ok text := by
    refine ⟨(zs.map (fun z => (([z.1] : Str), z.2))).map (fun r =>
      "zone ".toList ++ r.1 ++ intStr r.2 ++ ['-'] ++ r.1 ++ intStr r.2 ++ ['\n']), ?_⟩
    generalize zs.map (fun z => (([z.1] : Str), z.2)) = L
    induction L with
    | nil => rfl
    | cons r L ih => rw [List.mapM_cons, zone_line_format', ih]; rfl
  obtain ⟨text, htext⟩ := hlines
  refine ⟨text, htext, ?_⟩
  have hread : text.mapM Gen.read_zone_line = .ok (zs.map (fun z => ([z.1], z.2))) := by
    rw [mapM_bind _ _ _ _ htext, List.mapM_map]
    exact hrw
  unfold readZone zoneOfResidues
  exact readZone_of_mapM text _ [] hread


/-- the chains of a table are writable when every record's chain identifier is one character other than `-` and blanks -/
def TableChainsWritable (t : List Atom) : Prop := ∀ a ∈ t, ∃ c : Char, a.chainID = [c] ∧ c ≠ '-' ∧ isSpace c = false

theorem izone_writable {ref : List Atom} (h : TableChainsWritable ref) {c : Rat} {zl : List (Str × Int)}
    (hz : computeIzone ref c = .ok zl) : ChainsWritable zl := by
  intro r hr
  unfold computeIzone at hz
  split at hz
  · rename_i c0 c1 _
    cases hcs : contactSets ref (izoneArgs c c0 c1) with
    | error e => simp [hcs, bind, Except.bind] at hz
    | ok d =>
      simp only [hcs, bind, Except.bind, pure, Except.pure, Except.ok.injEq] at hz
      subst hz
      simp only [sortedResidues, mem_sortedSet, List.mem_map, backboneRowsAt, rowsAt, List.mem_filter] at hr
      obtain ⟨x, ⟨⟨hx, _⟩, _⟩, rfl⟩ := hr
      exact h x.1 (List.mem_of_getElem? (List.mem_zipIdx_iff_getElem?.mp hx))
  · cases hz

theorem lzone_writable {ref : List Atom} (h : TableChainsWritable ref) {zl : List (Str × Int)}
    (hz : computeLzone ref = .ok zl) : ChainsWritable zl := by
  intro r hr
  unfold computeLzone at hz
  split at hz
  · simp only [Except.ok.injEq] at hz
    subst hz
    simp only [sortedResidues, mem_sortedSet, List.mem_map, chainRows, List.mem_filter] at hr
    obtain ⟨x, ⟨hx, _⟩, rfl⟩ := hr
    exact h x.1 (List.mem_of_getElem? (List.mem_zipIdx_iff_getElem?.mp hx))
  · cases hz

/-- **zone_sources_agree.**  For a reference whose chain identifiers are single characters other than `-` and blanks,
    both fast routines return the same outcome — error class and ordered pair lists — whether the zone is computed in
    memory (`izone=None`), computed and written to an absent file, or read from the file such a run left behind. -/
theorem zone_sources_agree (dl rl : List Str) (tdec : Except Err (List Atom)) (ref : List Atom)
    (hw : TableChainsWritable ref) (c : Rat) (check enforce : Bool) :
    irmsdFast dl rl tdec (.ok ref) .write c check enforce = irmsdFast dl rl tdec (.ok ref) .compute c check enforce ∧
    lrmsdFast dl rl tdec (.ok ref) .write check enforce = lrmsdFast dl rl tdec (.ok ref) .compute check enforce ∧
    (∀ text, izoneFileText (.ok ref) c = .ok text →
      irmsdFast dl rl tdec (.ok ref) (.read text) c check enforce = irmsdFast dl rl tdec (.ok ref) .compute c check enforce) ∧
    (∀ text, lzoneFileText (.ok ref) = .ok text →
      lrmsdFast dl rl tdec (.ok ref) (.read text) check enforce = lrmsdFast dl rl tdec (.ok ref) .compute check enforce) := by
  refine ⟨rfl, rfl, ?_, ?_⟩
  · intro text htext
    unfold izoneFileText at htext
    simp only [bind, Except.bind] at htext
    cases hz : computeIzone ref c with
    | error e => simp [hz] at htext
    | ok zl =>
      simp only [hz] at htext
      obtain ⟨text', h1, h2⟩ := read_written_zone zl (izone_writable hw hz)
      rw [h1] at htext; cases htext
      have : zoneFrom (.read text) (do let t ← (Except.ok ref : Except Err (List Atom)); computeIzone t c) =
          zoneFrom .compute (do let t ← (Except.ok ref : Except Err (List Atom)); computeIzone t c) := by
        simp only [zoneFrom, bind, Except.bind, hz, Except.map, h2]
      unfold irmsdFast
      rw [this]
  · intro text htext
    unfold lzoneFileText at htext
    simp only [bind, Except.bind] at htext
    cases hz : computeLzone ref with
    | error e => simp [hz] at htext
    | ok zl =>
      simp only [hz] at htext
      obtain ⟨text', h1, h2⟩ := read_written_zone zl (lzone_writable hw hz)
      rw [h1] at htext; cases htext
      have : zoneFrom (.read text) (do let t ← (Except.ok ref : Except Err (List Atom)); computeLzone t) =
          zoneFrom .compute (do let t ← (Except.ok ref : Except Err (List Atom)); computeLzone t) := by
        simp only [zoneFrom, bind, Except.bind, hz, Except.map, h2]
      unfold lrmsdFast
      rw [this]


/-! ### the fast and the SQL route of a measure use the same pairs -/

theorem isMinMsd_unique {α : Type} [Field α] [LinearOrder α] [IsStrictOrderedRing α] {m m' : α}
    {l : List (Vec3 α × Vec3 α)} (h : IsMinMsd m l) (h' : IsMinMsd m' l) : m = m' := by
  obtain ⟨⟨g, hg, hgm⟩, hmin⟩ := h
  obtain ⟨⟨g', hg', hgm'⟩, hmin'⟩ := h'
  exact le_antisymm (hgm' ▸ hmin g' hg') (hgm ▸ hmin' g hg)

theorem coordsOf_perm {a b : List Pair} (h : (a.map idPair).Perm (b.map idPair)) : (coordsOf a).Perm (coordsOf b) := by
  rw [← coords_idPair, ← coords_idPair]; exact h.map _

/-- **fast_eq_sql_irmsd.**  On a consistent two-chain pair (raw readers agreeing with the tables), whenever both i-RMSD
    routines return a value they were computed from the same pairs up to order — both lists are permutations of the
    definition's list —: the same deviation under every motion, the same minimum over rigid motions, and, with optimal
    kernels (any method on either side), the same radicand.  With enforcement off the fast routine returns a value exactly
    when the SQL routine does. -/
theorem fast_eq_sql_irmsd (dl rl : List Str) (dec ref : List Atom) (hd : RawAgrees dl dec) (hr : RawAgrees rl ref)
    (hc : Consistent dec ref) (src : ZoneSrc) (hsrc : src = .compute ∨ src = .write) (c : Rat) (enforce : Bool) :
    (∀ ff ef fs es, irmsdFast dl rl (.ok dec) (.ok ref) src c true enforce = .value ff ef →
      irmsdSql (.ok dec) (.ok ref) none c = .value fs es →
      ef = ff ∧ es = fs ∧ (ff.map idPair).Perm (fs.map idPair) ∧
      (∀ g : Motion ℝ, msd g (realPairs (coordsOf ff)) = msd g (realPairs (coordsOf fs))) ∧
      (∀ m : ℝ, IsMinMsd m (realPairs (coordsOf ff)) ↔ IsMinMsd m (realPairs (coordsOf fs))) ∧
      (∀ (rot rot' : List (Vec3 ℝ) → List (Vec3 ℝ) → Except Err (Mat3 ℝ)),
        KernelOptimalAt rot (realPairs (coordsOf ff)) → KernelOptimalAt rot' (realPairs (coordsOf fs)) →
        radicand rot (realPairs (coordsOf ff)) (realPairs (coordsOf ef)) =
          radicand rot' (realPairs (coordsOf fs)) (realPairs (coordsOf es)))) ∧
    (enforce = false →
      ((∃ ff ef, irmsdFast dl rl (.ok dec) (.ok ref) src c true enforce = .value ff ef) ↔
       (∃ fs es, irmsdSql (.ok dec) (.ok ref) none c = .value fs es))) := by
  have hcons := cons_of_consistent hc
  have pf := irmsdFast_pairs hd hr hcons src hsrc c enforce
  have ps := irmsdSql_pairs hcons c
  refine ⟨?_, ?_⟩
  · intro ff ef fs es hf hs
    rw [hf] at pf; rw [hs] at ps
    obtain ⟨hne, he, _, hpf⟩ := pf
    obtain ⟨hne', he', _, hps⟩ := ps
    have hperm : (ff.map idPair).Perm (fs.map idPair) := hpf.trans hps.symm
    have hreal := realPairs_perm (coordsOf_perm hperm)
    refine ⟨he, he', hperm, fun g => msd_perm g hreal, fun m => ⟨isMinMsd_perm hreal, isMinMsd_perm hreal.symm⟩, ?_⟩
    intro rot rot' hk hk'
    subst he; subst he'
    have n1 : realPairs (coordsOf ef) ≠ [] := realPairs_ne_nil (by simpa [coordsOf] using hne)
    have n2 : realPairs (coordsOf es) ≠ [] := realPairs_ne_nil (by simpa [coordsOf] using hne')
    obtain ⟨m, hm, hmin⟩ := radicand_isMin _ n1 hk
    obtain ⟨m', hm', hmin'⟩ := radicand_isMin _ n2 hk'
    rw [hm, hm', isMinMsd_unique (isMinMsd_perm hreal hmin) hmin']
  · intro henf
    constructor
    · rintro ⟨ff, ef, hf⟩
      rw [hf] at pf
      cases hs : irmsdSql (.ok dec) (.ok ref) none c with
      | value fs es => exact ⟨fs, es, rfl⟩
      | err e =>
        rw [hs] at ps
        have := pf.2.2.2
        rw [ps.2] at this
        exact absurd (List.map_eq_nil_iff.mp (List.Perm.eq_nil this)) pf.1
    · rintro ⟨fs, es, hs⟩
      rw [hs] at ps
      cases hf : irmsdFast dl rl (.ok dec) (.ok ref) src c true enforce with
      | value ff ef => exact ⟨ff, ef, rfl⟩
      | err e =>
        rw [hf] at pf
        rcases pf with h | h
        · rw [henf] at h; exact absurd h.2.1 (by simp)
        · have := ps.2.2.2
          rw [h.2] at this
          exact absurd (List.map_eq_nil_iff.mp (List.Perm.eq_nil this)) ps.1

/-- **fast_eq_sql_lrmsd.**  Likewise for the L-RMSD: both routines fit on permutations of the same list (common backbone
    atoms of the longer chain of the reference) and evaluate on permutations of the same list (shorter chain); hence the same
    deviations under every motion and the same fit-then-evaluate values; both check residues with the same backbone names, so
    they raise the enforced mismatch together, and they return a value on exactly the same inputs. -/
theorem fast_eq_sql_lrmsd (dl rl : List Str) (dec ref : List Atom) (hd : RawAgrees dl dec) (hr : RawAgrees rl ref)
    (hc : Consistent dec ref) (src : ZoneSrc) (hsrc : src = .compute ∨ src = .write) (enforce : Bool) :
    (∀ ff ef fs es, lrmsdFast dl rl (.ok dec) (.ok ref) src true enforce = .value ff ef →
      lrmsdSql (.ok dec) (.ok ref) enforce = .value fs es →
      (ff.map idPair).Perm (fs.map idPair) ∧ (ef.map idPair).Perm (es.map idPair) ∧
      (∀ g : Motion ℝ, msd g (realPairs (coordsOf ff)) = msd g (realPairs (coordsOf fs)) ∧
                        msd g (realPairs (coordsOf ef)) = msd g (realPairs (coordsOf es))) ∧
      (∀ m : ℝ, IsFitThenEval m (realPairs (coordsOf ff)) (realPairs (coordsOf ef)) ↔
                 IsFitThenEval m (realPairs (coordsOf fs)) (realPairs (coordsOf es)))) ∧
    ((∃ ff ef, lrmsdFast dl rl (.ok dec) (.ok ref) src true enforce = .value ff ef) ↔
     (∃ fs es, lrmsdSql (.ok dec) (.ok ref) enforce = .value fs es)) := by
  have hcons := cons_of_consistent hc
  have pf := lrmsdFast_pairs hd hr hcons src hsrc enforce
  have ps := lrmsdSql_pairs hcons enforce
  refine ⟨?_, ?_⟩
  · intro ff ef fs es hf hs
    rw [hf] at pf; rw [hs] at ps
    have hp1 : (ff.map idPair).Perm (fs.map idPair) := pf.2.2.2.1.trans ps.2.2.2.1.symm
    have hp2 : (ef.map idPair).Perm (es.map idPair) := pf.2.2.2.2.trans ps.2.2.2.2.symm
    have r1 := realPairs_perm (coordsOf_perm hp1)
    have r2 := realPairs_perm (coordsOf_perm hp2)
    exact ⟨hp1, hp2, fun g => ⟨msd_perm g r1, msd_perm g r2⟩,
      fun m => ⟨isFitThenEval_perm r1 r2, isFitThenEval_perm r1.symm r2.symm⟩⟩
  · -- the two checks look at the same atoms
    have hck : checkResidues dec ref (some lrmsdFastNames) enforce = checkResidues dec ref (some lrmsdSqlNames) enforce := by
      have : ∀ t : List Atom, t.filter (nameOK (some lrmsdFastNames)) = t.filter (nameOK (some lrmsdSqlNames)) := by
        intro t
        apply List.filter_congr
        intro a _
        simp only [nameOK]
        rw [Bool.eq_iff_iff]
        simp only [decide_eq_true_eq, ← lrmsd_names_iff, ← sql_names_iff]
      unfold checkResidues getResidues residueNames
      simp only [this]
    constructor
    · rintro ⟨ff, ef, hf⟩
      rw [hf] at pf
      cases hs : lrmsdSql (.ok dec) (.ok ref) enforce with
      | value fs es => exact ⟨fs, es, rfl⟩
      | err e =>
        rw [hs] at ps
        rcases ps with h | h | h
        · -- the SQL route raised the enforced mismatch: then so did the fast route
          exfalso
          have hrun := lrmsdFast_run hd hr src hsrc enforce
          obtain ⟨c0, c1, hch, _⟩ := hcons.two
          obtain ⟨zl, hzl, _⟩ := mem_computeLzone hch
          rw [hrun, hzl] at hf
          have he : enforce = true := h.2.1
          subst he
          rw [hck, h.2.2] at hf
          cases hf
        · have := pf.2.2.2.1; rw [h.2] at this
          exact absurd (List.map_eq_nil_iff.mp (List.Perm.eq_nil this)) pf.1
        · have := pf.2.2.2.2; rw [h.2] at this
          exact absurd (List.map_eq_nil_iff.mp (List.Perm.eq_nil this)) pf.2.1
    · rintro ⟨fs, es, hs⟩
      rw [hs] at ps
      cases hf : lrmsdFast dl rl (.ok dec) (.ok ref) src true enforce with
      | value ff ef => exact ⟨ff, ef, rfl⟩
      | err e =>
        rw [hf] at pf
        rcases pf with h | h | h
        · exfalso
          obtain ⟨c0, c1, hch, hchd⟩ := hcons.two
          have he : enforce = true := h.2.1
          subst he
          unfold lrmsdSql at hs
          simp [hch, hchd, bind, Except.bind, chainAt, ← hck, h.2.2, Outcome.ofExcept] at hs
        · have := ps.2.2.2.1; rw [h.2] at this
          exact absurd (List.map_eq_nil_iff.mp (List.Perm.eq_nil this)) ps.1
        · have := ps.2.2.2.2; rw [h.2] at this
          exact absurd (List.map_eq_nil_iff.mp (List.Perm.eq_nil this)) ps.2.1


/-! ### the SQL i-RMSD routine with a zone file -/

theorem getD_of_not_mem {κ ν : Type} [DecidableEq κ] : ∀ (d : Dict κ (List ν)) (k : κ), k ∉ d.keys → d.getD k = []
  | [], _, _ => rfl
  | (k', v) :: d, k, h => by
    simp only [Dict.keys, List.map_cons, List.mem_cons, not_or] at h
    have hne : ¬ k' = k := fun e => h.1 e.symm
    simp only [Dict.getD, if_neg hne]
    exact getD_of_not_mem d k h.2

theorem zone_entry_iff (zl : List (Str × Int)) (ch : Str) (rs : Int) :
    (∃ e ∈ zoneOfResidues zl, e.1 = ch ∧ e.2.contains rs = true) ↔ (ch, rs) ∈ zl := by
  rw [← zone_has_iff]
  have hnd : (zoneOfResidues zl).keys.Nodup := by
    rw [zoneOfResidues_eq]; exact nodup_keys_applyEvents (by simp [Dict.keys]) _
  unfold Zone.has
  constructor
  · rintro ⟨e, he, rfl, hrs⟩
    have : (zoneOfResidues zl).getD e.1 = e.2 := getD_of_mem hnd he
    rw [this]; exact hrs
  · intro h
    by_cases hk : ch ∈ (zoneOfResidues zl).keys
    · exact ⟨(ch, (zoneOfResidues zl).getD ch), mem_of_mem_keys hk, rfl, h⟩
    · rw [getD_of_not_mem _ _ hk] at h; simp at h

/-- **zone_sources_agree (SQL i-RMSD).**  On a consistent pair whose reference chains can be written to a zone file, the SQL
    i-RMSD routine returns the same outcome from the zone file a fast run left behind as from the zone it computes itself. -/
theorem irmsdSql_zone_file (dec ref : List Atom) (hc : Consistent dec ref) (hw : TableChainsWritable ref) (c : Rat)
    (text : List Str) (htext : izoneFileText (.ok ref) c = .ok text) :
    irmsdSql (.ok dec) (.ok ref) (some text) c = irmsdSql (.ok dec) (.ok ref) none c := by
  have hcons := cons_of_consistent hc
  obtain ⟨c0, c1, hch, hchd⟩ := hcons.two
  obtain ⟨d, hd, hrows⟩ := izone_rows (c := c) hch
  obtain ⟨zl, hzl, hmem⟩ := mem_computeIzone (c := c) hch
  have hnR : ∀ a ∈ ref, ∀ b ∈ ref, a.chainID = b.chainID → a.resSeq = b.resSeq → a.resName = b.resName :=
    fun a ha b hb => hcons.names a (List.mem_append_right _ ha) b (List.mem_append_right _ hb)
  unfold izoneFileText at htext
  simp only [bind, Except.bind, hzl] at htext
  obtain ⟨text', h1, h2⟩ := read_written_zone zl (izone_writable hw hzl)
  rw [h1] at htext; cases htext
  have hL : ∀ r ∈ backboneRowsAt ref (flattenContacts d), r ∈ ref.zipIdx := fun r hr => ((hrows r).mp hr).1
  -- the two index lists select the same rows
  have hsame : rowsAt ref (izoneRowID ref (zoneOfResidues zl)) =
      rowsAt ref ((backboneRowsAt ref (flattenContacts d)).map (·.2)) := by
    unfold rowsAt
    apply List.filter_congr
    intro r hr
    rw [Bool.eq_iff_iff]
    have hright : ((backboneRowsAt ref (flattenContacts d)).map (·.2)).contains r.2 = true ↔
        r ∈ backboneRowsAt ref (flattenContacts d) := by
      have := mem_rowsAt_map_snd hL r
      simp only [rowsAt, List.mem_filter, hr, true_and] at this
      exact this
    rw [hright, hrows]
    have hrr : r.1 ∈ ref := List.mem_of_getElem? (List.mem_zipIdx_iff_getElem?.mp hr)
    simp only [izoneRowID, List.contains_eq_mem, decide_eq_true_eq, List.mem_flatMap, List.mem_map, List.mem_filter,
      Bool.and_eq_true]
    constructor
    · rintro ⟨e, he, r', ⟨hr', ⟨hc', hrs'⟩, hbb'⟩, h2'⟩
      have : r' = r := pos_inj hr' hr h2'
      subst this
      have hz : (r'.1.chainID, r'.1.resSeq) ∈ zl :=
        (zone_entry_iff zl _ _).mp ⟨e, he, hc'.symm, by simpa using hrs'⟩
      obtain ⟨x, hx, hxbb, hxc, hxs, y, hy, hres, q, hq, hqc, hwc⟩ := (hmem _ _).mp hz
      refine ⟨hr, (model_backbone_iff _).mpr hbb', y, hy, ?_, q, hq, hqc, hwc⟩
      simp only [resKey, Prod.mk.injEq] at hres ⊢
      exact ⟨hres.1.trans hxc, hres.2.1.trans hxs, hnR y hy r'.1 hrr (hres.1.trans hxc) (hres.2.1.trans hxs)⟩
    · rintro ⟨_, hbb, y, hy, hres, q, hq, hqc, hwc⟩
      have hz : (r.1.chainID, r.1.resSeq) ∈ zl := (hmem _ _).mpr ⟨r.1, hrr, hbb, rfl, rfl, y, hy, hres, q, hq, hqc, hwc⟩
      obtain ⟨e, he, hec, hers⟩ := (zone_entry_iff zl _ _).mpr hz
      exact ⟨e, he, r, ⟨hr, ⟨hec.symm, by simpa using hers⟩, (model_backbone_iff _).mp hbb⟩, rfl⟩
  unfold irmsdSql
  simp only [hch, hchd, bind, Except.bind, pure, Except.pure, chainAt, hd, h2, ne_eq, not_true_eq_false, if_false,
    List.getElem?_cons_zero, List.getElem?_cons_succ, hsame]

end Proofs.Routes
