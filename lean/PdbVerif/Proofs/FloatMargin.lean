/-
  The binary64 contact decision equals the exact one outside an explicit margin (C05, C08, C14).  Helper lemmas and the main
  theorems; re-exported by Props/C05K.lean, Props/C08K.lean, Props/C14K.lean.

  WHAT THE LIBRARY COMPUTES
    interface.py:125 (get_contact_atoms; used by get_contact_residues, compute_clashes, the izone / lzone / Fnat-pdb2sql routes)
        np.sqrt(np.sum((xyz2 - x0)**2, 1)) <= cutoff
    StructureSimilarity.py:454-456 (compute_fnat_fast)
        dist_min = np.min(np.array([np.sqrt(np.sum((np.array(p1) - np.array(p2))**2)) for p1 in xyzA for p2 in xyzB]))
        if dist_min <= cutoff                  -- a minimum of finitely many r is ≤ c iff one of them is: the same test per pair
    compute_clashes (StructureSimilarity.py:1257) calls get_contact_atoms(cutoff=3.0, excludeH=True): although its docstring says
    "separated by <3.0 Å", the test it performs is the NON-strict `<= 3.0` above.  The strict variant is proved as well
    (`strict_inside`, `strict_outside`, `strict_decision_eq`) but no code path of the library uses it.
    Cutoffs in the source: 8.5 (interface defaults), 5.0 / 5 (Fnat), 10.0 / 10 (izone, lzone), 3.0 (clashes); 4.0 and 10.0 also occur
    as CAPRI thresholds on RMSDs (not distances between atoms).  All are binary64 numbers and multiples of 1/1000.
  In binary64, for one row of three, NumPy evaluates (checked bit-for-bit by the harness, py/props/c05.py `extra_checks`):
        dx = fl (x₂ − x₁)          one subtraction per coordinate
        sx = fl (dx · dx)          `**2` with the scalar 2 is `np.square`, a multiplication
        s  = fl (fl (sx + sy) + sz)   a reduction over fewer than 8 elements is a left-to-right loop
        r  = fl (√s)               IEEE square root, correctly rounded
        r ≤ c                      c the double of the cutoff
  which is `fdist2` / `fdist` below.

  WHAT IS ASSUMED: `RoundOK fl Rep u` — `fl : ℝ → ℝ` is monotone, fixes the representable numbers `Rep` (containing 0, closed under
  negation) and has relative error `u` (`= 2⁻⁵³` for binary64: `u53`).  This is the IEEE-754 contract of round-to-nearest in the
  absence of overflow and underflow; `fl` itself stays abstract.  (For PDB inputs neither can occur: |coordinates| ≤ 10⁴, and a
  non-zero difference of two doubles of three-decimal numbers is at least 2⁻⁶², its square at least 2⁻¹²⁴ ≫ 2⁻¹⁰²².)
  The same laws are PROVED for the executable `Py.toDouble` on ℚ (`toDouble_real_laws`, Proofs/FloatRel.lean).
  Representability of the COORDINATES is not needed by any theorem (only `c ∈ Rep` is).

  WHAT IS PROVED (d² the exact squared distance of the two points the float computation starts from)
    fdist2_bounds      (1−u)⁵·d² ≤ s ≤ (1+u)⁵·d²
    contact_inside     d² ≤ c²·(1 − 5u)  →  r ≤ c                 (monotonicity absorbs the square root: costs nothing)
    contact_outside    d² > c²·(1 + 8u)  →  ¬ r ≤ c   (c < r)     (7u + O(u²) is needed by this proof; u ≤ 1/64)
    strict_inside      d² < c²·(1 − 8u)  →  r < c
    strict_outside     d² ≥ c²·(1 + 6u)  →  ¬ r < c   (c ≤ r)
    contact_decision_eq / strict_decision_eq     |d² − c²| > 8u·c²  →  (r ≤ c ↔ d² ≤ c²)   resp.  (r < c ↔ d² < c²)
    residue_pair_decision_eq   the `np.min … <= cutoff` test of compute_fnat_fast, every atom pair outside the margin
    text_decision_eq   the library works on x = fl X, the text says X, |X| ≤ M:  |D² − c²| > margin u M c = u·c·(8c + 10M)
                       →  (r ≤ c ↔ D² ≤ c²),   D² the exact squared distance of the TEXT coordinates
    pdb_decision_eq    the same with u = 2⁻⁵³, M = 10⁴:  pdbMargin c = 2⁻⁵³·c·(8c + 10⁵)
                       (c = 3: 3.3·10⁻¹¹, 5: 5.6·10⁻¹¹, 8.5: 9.4·10⁻¹¹, 10: 1.1·10⁻¹⁰ Å²; i.e. about 10⁻⁴ units of 10⁻⁶ Å²;
                        input rounding, ≤ 10⁴·2⁻⁵³ < 2⁻³⁹ per coordinate, dominates the arithmetic by three orders of magnitude)
    pdb_lattice_decision_eq   squared distances of three-decimal coordinates are multiples of 10⁻⁶ and pdbMargin c < 10⁻⁷ for c ≤ 1001, hence
                       for every decimal cutoff n/1000 ≤ 1000 (c its double) the float decision equals the INTEGER comparison
                       Σ Δ² ≤ n² of the text digits unless Σ Δ² = n² exactly — that single case stays undecided (and is really
                       undecided: it depends on the roundings of the six `float()` conversions).
-/
import Mathlib.Tactic.Linarith
import Mathlib.Tactic.Ring
import Mathlib.Tactic.NormNum
import Mathlib.Tactic.Positivity
import Mathlib.Tactic.GCongr
import Mathlib.Analysis.Real.Sqrt
import PdbVerif.Proofs.FloatRel

namespace Proofs.FloatMargin

/-- IEEE contract of a rounding operator (round to nearest, no overflow / underflow). -/
structure RoundOK (fl : ℝ → ℝ) (Rep : Set ℝ) (u : ℝ) : Prop where
  mono : ∀ {x y : ℝ}, x ≤ y → fl x ≤ fl y
  fix : ∀ {x : ℝ}, x ∈ Rep → fl x = x
  rel : ∀ x : ℝ, |fl x - x| ≤ u * |x|
  zero_mem : (0 : ℝ) ∈ Rep
  neg_mem : ∀ {x : ℝ}, x ∈ Rep → -x ∈ Rep

/-- correctly rounded square root -/
noncomputable def fsqrt (fl : ℝ → ℝ) (x : ℝ) : ℝ := fl (Real.sqrt x)

structure Pt where
  x : ℝ
  y : ℝ
  z : ℝ

/-- exact squared distance -/
def d2 (p q : Pt) : ℝ := (q.x - p.x) ^ 2 + (q.y - p.y) ^ 2 + (q.z - p.z) ^ 2

/-- the radicand as NumPy evaluates it for one row of three -/
def fdist2 (fl : ℝ → ℝ) (p q : Pt) : ℝ :=
  fl (fl (fl (fl (q.x - p.x) * fl (q.x - p.x)) + fl (fl (q.y - p.y) * fl (q.y - p.y)))
      + fl (fl (q.z - p.z) * fl (q.z - p.z)))

noncomputable def fdist (fl : ℝ → ℝ) (p q : Pt) : ℝ := fsqrt fl (fdist2 fl p q)

variable {fl : ℝ → ℝ} {Rep : Set ℝ} {u : ℝ}

theorem RoundOK.u_nonneg (h : RoundOK fl Rep u) : 0 ≤ u := by
  have := h.rel 1
  have h0 : 0 ≤ |fl 1 - 1| := abs_nonneg _
  simp only [abs_one, mul_one] at this
  linarith

theorem RoundOK.fl_zero (h : RoundOK fl Rep u) : fl 0 = 0 := h.fix h.zero_mem

theorem RoundOK.le_of_nonneg (h : RoundOK fl Rep u) {x : ℝ} (hx : 0 ≤ x) :
    (1 - u) * x ≤ fl x ∧ fl x ≤ (1 + u) * x := by
  have := h.rel x
  rw [abs_of_nonneg hx, abs_le] at this
  constructor <;> linarith [this.1, this.2]

theorem RoundOK.nonneg (h : RoundOK fl Rep u) {x : ℝ} (hx : 0 ≤ x) : 0 ≤ fl x := by
  rw [← h.fl_zero]; exact h.mono hx

/-- the square of a rounded number -/
theorem RoundOK.sq_bounds (h : RoundOK fl Rep u) (hu1 : u ≤ 1) (a : ℝ) :
    (1 - u) ^ 2 * a ^ 2 ≤ fl a * fl a ∧ fl a * fl a ≤ (1 + u) ^ 2 * a ^ 2 := by
  have hu := h.u_nonneg
  have hr := h.rel a
  have t1 : |fl a| ≤ (1 + u) * |a| := by
    have : |fl a| ≤ |fl a - a| + |a| := by
      have := abs_add_le (fl a - a) a
      simpa using this
    linarith
  have t2 : (1 - u) * |a| ≤ |fl a| := by
    have : |a| ≤ |a - fl a| + |fl a| := by
      have := abs_add_le (a - fl a) (fl a)
      simpa using this
    rw [abs_sub_comm] at this
    linarith
  have ha := abs_nonneg a
  have hf := abs_nonneg (fl a)
  have e1 : fl a * fl a = |fl a| ^ 2 := by rw [sq_abs]; ring
  have e2 : a ^ 2 = |a| ^ 2 := by rw [sq_abs]
  rw [e1, e2, ← mul_pow, ← mul_pow]
  constructor
  · exact pow_le_pow_left₀ (mul_nonneg (by linarith) ha) t2 2
  · exact pow_le_pow_left₀ hf t1 2

/-- one squared coordinate difference, rounded twice -/
theorem RoundOK.sqterm_bounds (h : RoundOK fl Rep u) (hu1 : u ≤ 1) (a : ℝ) :
    (1 - u) ^ 3 * a ^ 2 ≤ fl (fl a * fl a) ∧ fl (fl a * fl a) ≤ (1 + u) ^ 3 * a ^ 2 := by
  have hu := h.u_nonneg
  obtain ⟨s1, s2⟩ := h.sq_bounds hu1 a
  have hnn : 0 ≤ fl a * fl a := mul_self_nonneg _
  obtain ⟨r1, r2⟩ := h.le_of_nonneg hnn
  have h1u : 0 ≤ 1 - u := by linarith
  constructor
  · calc (1 - u) ^ 3 * a ^ 2 = (1 - u) * ((1 - u) ^ 2 * a ^ 2) := by ring
      _ ≤ (1 - u) * (fl a * fl a) := mul_le_mul_of_nonneg_left s1 h1u
      _ ≤ _ := r1
  · calc fl (fl a * fl a) ≤ (1 + u) * (fl a * fl a) := r2
      _ ≤ (1 + u) * ((1 + u) ^ 2 * a ^ 2) := mul_le_mul_of_nonneg_left s2 (by linarith)
      _ = _ := by ring

/-- **forward error of the radicand**: five roundings on every path from a coordinate to the sum -/
theorem fdist2_bounds (h : RoundOK fl Rep u) (hu1 : u ≤ 1) (p q : Pt) :
    (1 - u) ^ 5 * d2 p q ≤ fdist2 fl p q ∧ fdist2 fl p q ≤ (1 + u) ^ 5 * d2 p q := by
  have hu := h.u_nonneg
  have h1u : 0 ≤ 1 - u := by linarith
  have h1p : 0 ≤ 1 + u := by linarith
  obtain ⟨x1, x2⟩ := h.sqterm_bounds hu1 (q.x - p.x)
  obtain ⟨y1, y2⟩ := h.sqterm_bounds hu1 (q.y - p.y)
  obtain ⟨z1, z2⟩ := h.sqterm_bounds hu1 (q.z - p.z)
  set A := (q.x - p.x) ^ 2 with hA
  set B := (q.y - p.y) ^ 2 with hB
  set C := (q.z - p.z) ^ 2 with hC
  have hA0 : 0 ≤ A := sq_nonneg _
  have hB0 : 0 ≤ B := sq_nonneg _
  have hC0 : 0 ≤ C := sq_nonneg _
  set sx := fl (fl (q.x - p.x) * fl (q.x - p.x)) with hsx
  set sy := fl (fl (q.y - p.y) * fl (q.y - p.y)) with hsy
  set sz := fl (fl (q.z - p.z) * fl (q.z - p.z)) with hsz
  have sx0 : 0 ≤ sx := h.nonneg (mul_self_nonneg _)
  have sy0 : 0 ≤ sy := h.nonneg (mul_self_nonneg _)
  have sz0 : 0 ≤ sz := h.nonneg (mul_self_nonneg _)
  obtain ⟨t1, t2⟩ := h.le_of_nonneg (add_nonneg sx0 sy0)
  have t0 : 0 ≤ fl (sx + sy) := h.nonneg (add_nonneg sx0 sy0)
  obtain ⟨w1, w2⟩ := h.le_of_nonneg (add_nonneg t0 sz0)
  have p3 : 0 ≤ (1 - u) ^ 3 := pow_nonneg h1u 3
  have q3 : 0 ≤ (1 + u) ^ 3 := pow_nonneg h1p 3
  have e : fdist2 fl p q = fl (fl (sx + sy) + sz) := rfl
  have ed : d2 p q = A + B + C := rfl
  rw [e, ed]
  constructor
  · -- lower
    have a1 : (1 - u) ^ 3 * (A + B) ≤ sx + sy := by linarith
    have a2 : (1 - u) ^ 4 * (A + B) ≤ fl (sx + sy) := by
      calc (1 - u) ^ 4 * (A + B) = (1 - u) * ((1 - u) ^ 3 * (A + B)) := by ring
        _ ≤ (1 - u) * (sx + sy) := mul_le_mul_of_nonneg_left a1 h1u
        _ ≤ _ := t1
    have a3 : (1 - u) ^ 4 * C ≤ sz := by
      have : (1 - u) ^ 4 * C ≤ (1 - u) ^ 3 * C := by
        have : (1 - u) ^ 4 ≤ (1 - u) ^ 3 := pow_le_pow_of_le_one h1u (by linarith) (by norm_num)
        exact mul_le_mul_of_nonneg_right this hC0
      linarith
    calc (1 - u) ^ 5 * (A + B + C) = (1 - u) * ((1 - u) ^ 4 * (A + B) + (1 - u) ^ 4 * C) := by ring
      _ ≤ (1 - u) * (fl (sx + sy) + sz) := mul_le_mul_of_nonneg_left (by linarith) h1u
      _ ≤ _ := w1
  · -- upper
    have a1 : sx + sy ≤ (1 + u) ^ 3 * (A + B) := by linarith
    have a2 : fl (sx + sy) ≤ (1 + u) ^ 4 * (A + B) := by
      calc fl (sx + sy) ≤ (1 + u) * (sx + sy) := t2
        _ ≤ (1 + u) * ((1 + u) ^ 3 * (A + B)) := mul_le_mul_of_nonneg_left a1 h1p
        _ = _ := by ring
    have a3 : sz ≤ (1 + u) ^ 4 * C := by
      have : (1 + u) ^ 3 * C ≤ (1 + u) ^ 4 * C := by
        have : (1 + u) ^ 3 ≤ (1 + u) ^ 4 := pow_le_pow_right₀ (by linarith) (by norm_num)
        exact mul_le_mul_of_nonneg_right this hC0
      linarith
    calc fl (fl (sx + sy) + sz) ≤ (1 + u) * (fl (sx + sy) + sz) := w2
      _ ≤ (1 + u) * ((1 + u) ^ 4 * (A + B) + (1 + u) ^ 4 * C) :=
          mul_le_mul_of_nonneg_left (by linarith) h1p
      _ = _ := by ring

theorem d2_nonneg (p q : Pt) : 0 ≤ d2 p q := by unfold d2; positivity

theorem fdist2_nonneg (h : RoundOK fl Rep u) (p q : Pt) : 0 ≤ fdist2 fl p q := by
  unfold fdist2
  apply h.nonneg
  apply add_nonneg
  · apply h.nonneg
    exact add_nonneg (h.nonneg (mul_self_nonneg _)) (h.nonneg (mul_self_nonneg _))
  · exact h.nonneg (mul_self_nonneg _)

/-! ### polynomial facts about the constants -/

theorem poly_in5 {u : ℝ} (hu : 0 ≤ u) : (1 + u) ^ 5 * (1 - 5 * u) ≤ 1 := by
  have : (1 + u) ^ 5 * (1 - 5 * u) = 1 - (15 * u ^ 2 + 40 * u ^ 3 + 45 * u ^ 4 + 24 * u ^ 5 + 5 * u ^ 6) := by ring
  rw [this]
  have : 0 ≤ 15 * u ^ 2 + 40 * u ^ 3 + 45 * u ^ 4 + 24 * u ^ 5 + 5 * u ^ 6 := by positivity
  linarith

theorem poly_in8 {u : ℝ} (hu : 0 ≤ u) : (1 + u) ^ 7 * (1 - 8 * u) ≤ 1 := by
  have : (1 + u) ^ 7 * (1 - 8 * u) = 1 - (u + 35 * u ^ 2 + 133 * u ^ 3 + 245 * u ^ 4 + 259 * u ^ 5 + 161 * u ^ 6
      + 55 * u ^ 7 + 8 * u ^ 8) := by ring
  rw [this]
  have : 0 ≤ u + 35 * u ^ 2 + 133 * u ^ 3 + 245 * u ^ 4 + 259 * u ^ 5 + 161 * u ^ 6 + 55 * u ^ 7 + 8 * u ^ 8 := by
    positivity
  linarith

theorem bernoulli_sub {u : ℝ} (hu1 : u ≤ 1) (n : ℕ) : 1 - n * u ≤ (1 - u) ^ n := by
  have := one_add_mul_le_pow (a := -u) (by linarith) n
  simpa [sub_eq_add_neg] using this

theorem poly_out8 {u : ℝ} (hu : 0 ≤ u) (hu1 : u ≤ 1 / 64) : 1 ≤ (1 - u) ^ 7 * (1 + 8 * u) := by
  have b := bernoulli_sub (by linarith) 7
  push_cast at b
  have : (1 - 7 * u) * (1 + 8 * u) ≤ (1 - u) ^ 7 * (1 + 8 * u) :=
    mul_le_mul_of_nonneg_right b (by linarith)
  nlinarith

theorem poly_out6 {u : ℝ} (hu : 0 ≤ u) (hu1 : u ≤ 1 / 64) : 1 ≤ (1 - u) ^ 5 * (1 + 6 * u) := by
  have b := bernoulli_sub (by linarith) 5
  push_cast at b
  have : (1 - 5 * u) * (1 + 6 * u) ≤ (1 - u) ^ 5 * (1 + 6 * u) :=
    mul_le_mul_of_nonneg_right b (by linarith)
  nlinarith

/-! ### the decision `fdist ≤ c` -/

/-- inside: `d² ≤ c²(1 − 5u)` makes the float test `r ≤ c` succeed -/
theorem contact_inside (h : RoundOK fl Rep u) (hu1 : u ≤ 1) {c : ℝ} (hc : c ∈ Rep) (hc0 : 0 ≤ c) (p q : Pt)
    (hd : d2 p q ≤ c ^ 2 * (1 - 5 * u)) : fdist fl p q ≤ c := by
  have hu := h.u_nonneg
  obtain ⟨_, up⟩ := fdist2_bounds h hu1 p q
  have h5 : 0 ≤ (1 + u) ^ 5 := by positivity
  have s_le : fdist2 fl p q ≤ c ^ 2 := by
    calc fdist2 fl p q ≤ (1 + u) ^ 5 * d2 p q := up
      _ ≤ (1 + u) ^ 5 * (c ^ 2 * (1 - 5 * u)) := mul_le_mul_of_nonneg_left hd h5
      _ = c ^ 2 * ((1 + u) ^ 5 * (1 - 5 * u)) := by ring
      _ ≤ c ^ 2 * 1 := mul_le_mul_of_nonneg_left (poly_in5 hu) (sq_nonneg c)
      _ = c ^ 2 := mul_one _
  have : Real.sqrt (fdist2 fl p q) ≤ c := by
    have := Real.sqrt_le_sqrt s_le
    rwa [Real.sqrt_sq hc0] at this
  unfold fdist fsqrt
  calc fl (Real.sqrt (fdist2 fl p q)) ≤ fl c := h.mono this
    _ = c := h.fix hc

/-- lower bound of the rounded root: `(1-u)²·s > c²` gives `fl √s > c` -/
theorem fsqrt_gt (h : RoundOK fl Rep u) (hu1 : u ≤ 1) {c s : ℝ} (hc0 : 0 ≤ c)
    (hs : c ^ 2 < (1 - u) ^ 2 * s) : c < fsqrt fl s := by
  have h1u : 0 ≤ 1 - u := by linarith
  have h1 : c < Real.sqrt ((1 - u) ^ 2 * s) := (Real.lt_sqrt hc0).mpr hs
  have h2 : Real.sqrt ((1 - u) ^ 2 * s) = (1 - u) * Real.sqrt s := by
    rw [Real.sqrt_mul (sq_nonneg _), Real.sqrt_sq h1u]
  rw [h2] at h1
  exact lt_of_lt_of_le h1 (h.le_of_nonneg (Real.sqrt_nonneg s)).1

/-- upper bound of the rounded root: `(1+u)²·s < c²` gives `fl √s < c` -/
theorem fsqrt_lt (h : RoundOK fl Rep u) {c s : ℝ} (hc0 : 0 ≤ c) (hs0 : 0 ≤ s)
    (hs : (1 + u) ^ 2 * s < c ^ 2) : fsqrt fl s < c := by
  have hu := h.u_nonneg
  have h1p : 0 ≤ 1 + u := by linarith
  have hcpos : 0 < c := by
    rcases hc0.lt_or_eq with h0 | h0
    · exact h0
    · exfalso; rw [← h0] at hs
      have : 0 ≤ (1 + u) ^ 2 * s := by positivity
      simp at hs; linarith
  have h1 : Real.sqrt ((1 + u) ^ 2 * s) < c := (Real.sqrt_lt' hcpos).mpr hs
  have h2 : Real.sqrt ((1 + u) ^ 2 * s) = (1 + u) * Real.sqrt s := by
    rw [Real.sqrt_mul (sq_nonneg _), Real.sqrt_sq h1p]
  rw [h2] at h1
  exact lt_of_le_of_lt (h.le_of_nonneg (Real.sqrt_nonneg s)).2 h1

/-- outside: `d² > c²(1 + 8u)` makes the float test `r ≤ c` fail -/
theorem contact_outside (h : RoundOK fl Rep u) (hu1 : u ≤ 1 / 64) {c : ℝ} (hc0 : 0 ≤ c) (p q : Pt)
    (hd : c ^ 2 * (1 + 8 * u) < d2 p q) : c < fdist fl p q := by
  have hu := h.u_nonneg
  have hu1' : u ≤ 1 := by linarith
  obtain ⟨lo, _⟩ := fdist2_bounds h hu1' p q
  have h1u : 0 < 1 - u := by linarith
  have h7 : 0 < (1 - u) ^ 7 := by positivity
  apply fsqrt_gt h hu1' hc0
  calc c ^ 2 = c ^ 2 * 1 := (mul_one _).symm
    _ ≤ c ^ 2 * ((1 - u) ^ 7 * (1 + 8 * u)) := mul_le_mul_of_nonneg_left (poly_out8 hu hu1) (sq_nonneg c)
    _ = (1 - u) ^ 7 * (c ^ 2 * (1 + 8 * u)) := by ring
    _ < (1 - u) ^ 7 * d2 p q := mul_lt_mul_of_pos_left hd h7
    _ = (1 - u) ^ 2 * ((1 - u) ^ 5 * d2 p q) := by ring
    _ ≤ (1 - u) ^ 2 * fdist2 fl p q := mul_le_mul_of_nonneg_left lo (sq_nonneg _)

/-! ### the strict decision `fdist < c` -/

/-- inside, strict test: `d² < c²(1 − 8u)` makes `r < c` succeed -/
theorem strict_inside (h : RoundOK fl Rep u) (hu1 : u ≤ 1) {c : ℝ} (hc0 : 0 ≤ c) (p q : Pt)
    (hd : d2 p q < c ^ 2 * (1 - 8 * u)) : fdist fl p q < c := by
  have hu := h.u_nonneg
  obtain ⟨_, up⟩ := fdist2_bounds h hu1 p q
  have h7 : 0 < (1 + u) ^ 7 := by positivity
  apply fsqrt_lt h hc0 (fdist2_nonneg h p q)
  calc (1 + u) ^ 2 * fdist2 fl p q ≤ (1 + u) ^ 2 * ((1 + u) ^ 5 * d2 p q) :=
        mul_le_mul_of_nonneg_left up (sq_nonneg _)
    _ = (1 + u) ^ 7 * d2 p q := by ring
    _ < (1 + u) ^ 7 * (c ^ 2 * (1 - 8 * u)) := mul_lt_mul_of_pos_left hd h7
    _ = c ^ 2 * ((1 + u) ^ 7 * (1 - 8 * u)) := by ring
    _ ≤ c ^ 2 * 1 := mul_le_mul_of_nonneg_left (poly_in8 hu) (sq_nonneg c)
    _ = c ^ 2 := mul_one _

/-- outside, strict test: `d² ≥ c²(1 + 6u)` makes `r < c` fail -/
theorem strict_outside (h : RoundOK fl Rep u) (hu1 : u ≤ 1 / 64) {c : ℝ} (hc : c ∈ Rep) (hc0 : 0 ≤ c) (p q : Pt)
    (hd : c ^ 2 * (1 + 6 * u) ≤ d2 p q) : c ≤ fdist fl p q := by
  have hu := h.u_nonneg
  have hu1' : u ≤ 1 := by linarith
  obtain ⟨lo, _⟩ := fdist2_bounds h hu1' p q
  have h5 : 0 ≤ (1 - u) ^ 5 := by
    have : 0 ≤ 1 - u := by linarith
    positivity
  have s_ge : c ^ 2 ≤ fdist2 fl p q := by
    calc c ^ 2 = c ^ 2 * 1 := (mul_one _).symm
      _ ≤ c ^ 2 * ((1 - u) ^ 5 * (1 + 6 * u)) := mul_le_mul_of_nonneg_left (poly_out6 hu hu1) (sq_nonneg c)
      _ = (1 - u) ^ 5 * (c ^ 2 * (1 + 6 * u)) := by ring
      _ ≤ (1 - u) ^ 5 * d2 p q := mul_le_mul_of_nonneg_left hd h5
      _ ≤ _ := lo
  have : c ≤ Real.sqrt (fdist2 fl p q) := by
    have := Real.sqrt_le_sqrt s_ge
    rwa [Real.sqrt_sq hc0] at this
  unfold fdist fsqrt
  calc c = fl c := (h.fix hc).symm
    _ ≤ _ := h.mono this

/-! ### both directions at once: outside the relative margin `8u` the float decision IS the exact decision -/

/-- **`np.sqrt(np.sum((p - q)**2)) <= c` equals `d² ≤ c²` whenever `|d² − c²| > 8u·c²`** -/
theorem contact_decision_eq (h : RoundOK fl Rep u) (hu1 : u ≤ 1 / 64) {c : ℝ} (hc : c ∈ Rep) (hc0 : 0 ≤ c) (p q : Pt)
    (hm : 8 * u * c ^ 2 < |d2 p q - c ^ 2|) : (fdist fl p q ≤ c ↔ d2 p q ≤ c ^ 2) := by
  have hu := h.u_nonneg
  have hc2 : 0 ≤ u * c ^ 2 := by positivity
  rcases le_or_gt (d2 p q) (c ^ 2) with hle | hgt
  · rw [abs_of_nonpos (by linarith)] at hm
    exact ⟨fun _ => hle, fun _ => contact_inside h (by linarith) hc hc0 p q (by nlinarith)⟩
  · rw [abs_of_pos (by linarith)] at hm
    have := contact_outside h hu1 hc0 p q (by nlinarith)
    exact ⟨fun hh => absurd hh (not_le.mpr this), fun hh => absurd hh (not_le.mpr hgt)⟩

/-- the same for a strict test `… < c` -/
theorem strict_decision_eq (h : RoundOK fl Rep u) (hu1 : u ≤ 1 / 64) {c : ℝ} (hc : c ∈ Rep) (hc0 : 0 ≤ c) (p q : Pt)
    (hm : 8 * u * c ^ 2 < |d2 p q - c ^ 2|) : (fdist fl p q < c ↔ d2 p q < c ^ 2) := by
  have hu := h.u_nonneg
  have hc2 : 0 ≤ u * c ^ 2 := by positivity
  rcases lt_or_ge (d2 p q) (c ^ 2) with hlt | hge
  · rw [abs_of_neg (by linarith)] at hm
    exact ⟨fun _ => hlt, fun _ => strict_inside h (by linarith) hc0 p q (by nlinarith)⟩
  · rw [abs_of_nonneg (by linarith)] at hm
    have := strict_outside h hu1 hc hc0 p q (by nlinarith)
    exact ⟨fun hh => absurd hh (not_lt.mpr this), fun hh => absurd hh (not_lt.mpr hge)⟩

/-- `compute_fnat_fast`: the residue pair `(A, B)` counts when `np.min` of the float distances of all atom pairs is `≤ c`
    (the subtraction there is `p1 − p2`, `p1` from `A`) -/
noncomputable def distMin (fl : ℝ → ℝ) (A B : List Pt) : Option ℝ :=
  (A.flatMap fun p1 => B.map fun p2 => fdist fl p2 p1).min?

/-- **Fnat residue-pair decision**: if every atom pair is outside the relative margin `8u`, the float decision `dist_min ≤ c`
    is the exact one "some atom pair has `d² ≤ c²`" -/
theorem residue_pair_decision_eq (h : RoundOK fl Rep u) (hu1 : u ≤ 1 / 64) {c : ℝ} (hc : c ∈ Rep) (hc0 : 0 ≤ c)
    (A B : List Pt) (hm : ∀ p1 ∈ A, ∀ p2 ∈ B, 8 * u * c ^ 2 < |d2 p2 p1 - c ^ 2|) {m : ℝ}
    (hmin : distMin fl A B = some m) : (m ≤ c ↔ ∃ p1 ∈ A, ∃ p2 ∈ B, d2 p2 p1 ≤ c ^ 2) := by
  unfold distMin at hmin
  obtain ⟨hmem, hle⟩ := List.min?_eq_some_iff.mp hmin
  simp only [List.mem_flatMap, List.mem_map] at hmem hle
  obtain ⟨p1, hp1, p2, hp2, rfl⟩ := hmem
  constructor
  · intro hh
    exact ⟨p1, hp1, p2, hp2, (contact_decision_eq h hu1 hc hc0 p2 p1 (hm p1 hp1 p2 hp2)).mp hh⟩
  · rintro ⟨q1, hq1, q2, hq2, hd⟩
    have := (contact_decision_eq h hu1 hc hc0 q2 q1 (hm q1 hq1 q2 hq2)).mpr hd
    exact le_trans (hle _ ⟨q1, hq1, q2, hq2, rfl⟩) this

/-- the hypotheses are satisfiable: exact arithmetic is a (degenerate) instance for every `u ≥ 0` -/
theorem roundOK_id {u : ℝ} (hu : 0 ≤ u) : RoundOK id Set.univ u :=
  ⟨fun h => h, fun _ => rfl, fun x => by simp; positivity, trivial, fun _ => trivial⟩

/-! ### the three laws of the correctly rounded square root -/

theorem fsqrt_mono (h : RoundOK fl Rep u) {x y : ℝ} (hxy : x ≤ y) : fsqrt fl x ≤ fsqrt fl y :=
  h.mono (Real.sqrt_le_sqrt hxy)

theorem fsqrt_fix (h : RoundOK fl Rep u) {x : ℝ} (hx : Real.sqrt x ∈ Rep) : fsqrt fl x = Real.sqrt x := h.fix hx

theorem fsqrt_sq (h : RoundOK fl Rep u) {c : ℝ} (hc : c ∈ Rep) (hc0 : 0 ≤ c) : fsqrt fl (c ^ 2) = c := by
  unfold fsqrt; rw [Real.sqrt_sq hc0]; exact h.fix hc

theorem fsqrt_rel (h : RoundOK fl Rep u) (x : ℝ) : |fsqrt fl x - Real.sqrt x| ≤ u * Real.sqrt x := by
  have := h.rel (Real.sqrt x)
  rwa [abs_of_nonneg (Real.sqrt_nonneg x)] at this

/-! ### input rounding: the library computes on `fl X`, the text says `X` -/

/-- every coordinate of `p` is within `e` of the coordinate of `P` -/
structure Near (e : ℝ) (p P : Pt) : Prop where
  x : |p.x - P.x| ≤ e
  y : |p.y - P.y| ≤ e
  z : |p.z - P.z| ≤ e

/-- every coordinate has magnitude at most `M` -/
structure InBox (M : ℝ) (P : Pt) : Prop where
  x : |P.x| ≤ M
  y : |P.y| ≤ M
  z : |P.z| ≤ M

/-- the point as the library holds it after `float()` of each column -/
def flPt (fl : ℝ → ℝ) (P : Pt) : Pt := ⟨fl P.x, fl P.y, fl P.z⟩

theorem RoundOK.input_abs (h : RoundOK fl Rep u) {X M : ℝ} (hX : |X| ≤ M) : |fl X - X| ≤ u * M :=
  le_trans (h.rel X) (mul_le_mul_of_nonneg_left hX h.u_nonneg)

theorem near_flPt (h : RoundOK fl Rep u) {M : ℝ} {P : Pt} (hP : InBox M P) : Near (u * M) (flPt fl P) P :=
  ⟨h.input_abs hP.x, h.input_abs hP.y, h.input_abs hP.z⟩

theorem sq_perturb {a A η : ℝ} (hη : |a - A| ≤ η) :
    A ^ 2 - 2 * η * |A| ≤ a ^ 2 ∧ a ^ 2 ≤ A ^ 2 + 2 * η * |A| + η ^ 2 := by
  have hη0 : 0 ≤ η := le_trans (abs_nonneg _) hη
  have hA := abs_nonneg A
  have h1 : |A * (a - A)| ≤ |A| * η := by
    rw [abs_mul]; exact mul_le_mul_of_nonneg_left hη hA
  obtain ⟨l1, l2⟩ := abs_le.mp h1
  have h2 : (a - A) ^ 2 ≤ η ^ 2 := by
    rw [← sq_abs (a - A)]; exact pow_le_pow_left₀ (abs_nonneg _) hη 2
  have h3 : 0 ≤ (a - A) ^ 2 := sq_nonneg _
  have e : a ^ 2 = A ^ 2 + 2 * (A * (a - A)) + (a - A) ^ 2 := by ring
  constructor <;> nlinarith

theorem diff_near {e x1 X1 x2 X2 : ℝ} (h1 : |x1 - X1| ≤ e) (h2 : |x2 - X2| ≤ e) :
    |(x2 - x1) - (X2 - X1)| ≤ 2 * e := by
  have : (x2 - x1) - (X2 - X1) = (x2 - X2) - (x1 - X1) := by ring
  rw [this]
  have := abs_sub (x2 - X2) (x1 - X1)
  linarith

/-- sum of the absolute coordinate differences -/
def s1 (P Q : Pt) : ℝ := |Q.x - P.x| + |Q.y - P.y| + |Q.z - P.z|

theorem s1_nonneg (P Q : Pt) : 0 ≤ s1 P Q := by unfold s1; positivity

theorem s1_sq_le (P Q : Pt) : s1 P Q ^ 2 ≤ 3 * d2 P Q := by
  unfold s1 d2
  have e1 := sq_abs (Q.x - P.x)
  have e2 := sq_abs (Q.y - P.y)
  have e3 := sq_abs (Q.z - P.z)
  nlinarith [sq_nonneg (|Q.x - P.x| - |Q.y - P.y|), sq_nonneg (|Q.x - P.x| - |Q.z - P.z|),
    sq_nonneg (|Q.y - P.y| - |Q.z - P.z|)]

/-- effect of perturbing every coordinate by at most `e` on the exact squared distance -/
theorem d2_perturb {e : ℝ} {p q P Q : Pt} (hp : Near e p P) (hq : Near e q Q) :
    d2 P Q - 2 * (2 * e) * s1 P Q ≤ d2 p q ∧ d2 p q ≤ d2 P Q + 2 * (2 * e) * s1 P Q + 3 * (2 * e) ^ 2 := by
  obtain ⟨x1, x2⟩ := sq_perturb (diff_near hp.x hq.x)
  obtain ⟨y1, y2⟩ := sq_perturb (diff_near hp.y hq.y)
  obtain ⟨z1, z2⟩ := sq_perturb (diff_near hp.z hq.z)
  unfold d2 s1
  constructor <;> nlinarith

/-- the margin, in `d²`, outside which the decision is proved: `8u·c²` for the arithmetic (the larger of the two
    one-sided constants) plus `5·η·c` for the input rounding, `η = 2uM` the largest error of a coordinate difference -/
def margin (u M c : ℝ) : ℝ := u * c * (8 * c + 10 * M)

theorem text_inside (h : RoundOK fl Rep u) (hu1 : u ≤ 1 / 64) {c M : ℝ} (hc : c ∈ Rep) (hc0 : 0 < c) (hM : 0 ≤ M)
    (hsmall : 128 * (u * M) ≤ c) {p q P Q : Pt} (hp : Near (u * M) p P) (hq : Near (u * M) q Q)
    (hd : d2 P Q < c ^ 2 - margin u M c) : fdist fl p q ≤ c := by
  have hu := h.u_nonneg
  have he : 0 ≤ u * M := mul_nonneg hu hM
  obtain ⟨_, up⟩ := d2_perturb hp hq
  have hS0 := s1_nonneg P Q
  have hS := s1_sq_le P Q
  have hP0 := d2_nonneg P Q
  have hm0 : 0 ≤ margin u M c := by unfold margin; positivity
  have hS2 : s1 P Q ≤ 2 * c := by
    have : s1 P Q ^ 2 ≤ (2 * c) ^ 2 := by nlinarith
    exact le_of_sq_le_sq this (by linarith) |> fun h => h
  apply contact_inside h (by linarith) hc hc0.le
  unfold margin at hd hm0
  set e := u * M with he_def
  have k1 : 2 * (2 * e) * s1 P Q ≤ 8 * e * c := by nlinarith
  have k2 : 3 * (2 * e) ^ 2 ≤ 2 * e * c := by nlinarith
  have k3 : u * c * (8 * c + 10 * M) = 8 * u * c ^ 2 + 10 * e * c := by rw [he_def]; ring
  nlinarith

theorem text_outside (h : RoundOK fl Rep u) (hu1 : u ≤ 1 / 64) {c M : ℝ} (hc0 : 0 < c) (hM : 0 ≤ M)
    (hsmall : 128 * (u * M) ≤ c) {p q P Q : Pt} (hp : Near (u * M) p P) (hq : Near (u * M) q Q)
    (hd : c ^ 2 + margin u M c < d2 P Q) : c < fdist fl p q := by
  have hu := h.u_nonneg
  have he : 0 ≤ u * M := mul_nonneg hu hM
  obtain ⟨lo, _⟩ := d2_perturb hp hq
  have hS0 := s1_nonneg P Q
  have hS := s1_sq_le P Q
  apply contact_outside h hu1 hc0.le
  unfold margin at hd
  set e := u * M with he_def
  set S := s1 P Q with hS_def
  set D := d2 P Q with hD_def
  have k3 : u * c * (8 * c + 10 * M) = 8 * u * c ^ 2 + 10 * e * c := by rw [he_def]; ring
  rw [k3] at hd
  -- 2·S·(2c) ≤ S² + 4c² ≤ 3D + 4c²
  have k1 : 4 * c * S ≤ 3 * D + 4 * c ^ 2 := by nlinarith [sq_nonneg (S - 2 * c)]
  -- multiply the goal by 2c
  have goal2 : 2 * c * (c ^ 2 * (1 + 8 * u)) < 2 * c * d2 p q := by
    have l1 : 2 * c * d2 p q ≥ 2 * c * D - 2 * e * (4 * c * S) := by nlinarith
    have l2 : 2 * e * (4 * c * S) ≤ 2 * e * (3 * D + 4 * c ^ 2) := mul_le_mul_of_nonneg_left k1 (by linarith)
    have l3 : 0 < 2 * c - 6 * e := by linarith
    have l4 : (c ^ 2 + (8 * u * c ^ 2 + 10 * e * c)) * (2 * c - 6 * e) < D * (2 * c - 6 * e) :=
      mul_lt_mul_of_pos_right hd l3
    have l5 : 8 * u * c ^ 2 + 10 * e * c ≤ c ^ 2 := by nlinarith
    nlinarith
  exact lt_of_mul_lt_mul_left goal2 (by linarith)

/-- **combined margin theorem in terms of the TEXT coordinates** `P`, `Q` (every coordinate of magnitude ≤ `M`), the library
    working on `fl` of each: outside `margin u M c` the float decision is the exact decision on the text coordinates -/
theorem text_decision_eq (h : RoundOK fl Rep u) (hu1 : u ≤ 1 / 64) {c M : ℝ} (hc : c ∈ Rep) (hc0 : 0 < c) (hM : 0 ≤ M)
    (hsmall : 128 * (u * M) ≤ c) {P Q : Pt} (hP : InBox M P) (hQ : InBox M Q)
    (hm : margin u M c < |d2 P Q - c ^ 2|) :
    (fdist fl (flPt fl P) (flPt fl Q) ≤ c ↔ d2 P Q ≤ c ^ 2) := by
  have hu := h.u_nonneg
  have hm0 : 0 ≤ margin u M c := by unfold margin; positivity
  have np := near_flPt h hP
  have nq := near_flPt h hQ
  rcases le_or_gt (d2 P Q) (c ^ 2) with hle | hgt
  · rw [abs_of_nonpos (by linarith)] at hm
    exact ⟨fun _ => hle, fun _ => text_inside h hu1 hc hc0 hM hsmall np nq (by linarith)⟩
  · rw [abs_of_pos (by linarith)] at hm
    have := text_outside h hu1 hc0 hM hsmall np nq (by linarith)
    exact ⟨fun hh => absurd hh (not_le.mpr this), fun hh => absurd hh (not_le.mpr hgt)⟩

/-! ### binary64 and PDB files: `u = 2⁻⁵³`, three decimals, `|coordinate| ≤ 9999.999 ≤ 10⁴` -/

/-- unit roundoff of binary64 -/
noncomputable def u53 : ℝ := 1 / 2 ^ 53

theorem u53_pos : 0 < u53 := by unfold u53; positivity
theorem u53_le : u53 ≤ 1 / (9 * 10 ^ 15) := by unfold u53; norm_num
theorem u53_le64 : u53 ≤ 1 / 64 := by unfold u53; norm_num

/-- `margin` for binary64 and PDB coordinates: `2⁻⁵³·c·(8c + 10⁵)` (in Å²); for `c = 8.5` this is `9.44·10⁻¹¹` -/
noncomputable def pdbMargin (c : ℝ) : ℝ := margin u53 10000 c

theorem pdbMargin_eq (c : ℝ) : pdbMargin c = 1 / 2 ^ 53 * c * (8 * c + 100000) := by
  unfold pdbMargin margin u53; ring

theorem pdb_decision_eq (h : RoundOK fl Rep u53) {c : ℝ} (hc : c ∈ Rep) (hc1 : 1 / 2000 ≤ c) {P Q : Pt}
    (hP : InBox 10000 P) (hQ : InBox 10000 Q) (hm : pdbMargin c < |d2 P Q - c ^ 2|) :
    (fdist fl (flPt fl P) (flPt fl Q) ≤ c ↔ d2 P Q ≤ c ^ 2) := by
  have hu := u53_le
  have hu0 := u53_pos
  refine text_decision_eq h u53_le64 hc (by linarith) (by norm_num) ?_ hP hQ hm
  have : 128 * (u53 * 10000) ≤ 128 * (1 / (9 * 10 ^ 15) * 10000) := by
    apply mul_le_mul_of_nonneg_left _ (by norm_num)
    exact mul_le_mul_of_nonneg_right hu (by norm_num)
  have e : (128 : ℝ) * (1 / (9 * 10 ^ 15) * 10000) ≤ 1 / 2000 := by norm_num
  linarith

/-- the margin is far below the spacing `10⁻⁶` of squared distances of three-decimal coordinates -/
theorem pdbMargin_lt {c : ℝ} (hc0 : 0 ≤ c) (hc1 : c ≤ 1001) : pdbMargin c < 1 / 10 ^ 7 := by
  have hu := u53_le
  have hu0 := u53_pos
  unfold pdbMargin margin
  have h1 : c * (8 * c + 10 * 10000) ≤ 1001 * (8 * 1001 + 10 * 10000) := by nlinarith
  have h2 : u53 * c * (8 * c + 10 * 10000) = u53 * (c * (8 * c + 10 * 10000)) := by ring
  rw [h2]
  have h3 : 0 ≤ c * (8 * c + 10 * 10000) := by positivity
  calc u53 * (c * (8 * c + 10 * 10000)) ≤ 1 / (9 * 10 ^ 15) * (c * (8 * c + 10 * 10000)) :=
        mul_le_mul_of_nonneg_right hu h3
    _ ≤ 1 / (9 * 10 ^ 15) * (1001 * (8 * 1001 + 10 * 10000)) := mul_le_mul_of_nonneg_left h1 (by norm_num)
    _ < 1 / 10 ^ 7 := by norm_num

/-- a point given by its three PDB columns in thousandths of an Ångström -/
noncomputable def ofMilli (i j k : ℤ) : Pt := ⟨(i : ℝ) / 1000, (j : ℝ) / 1000, (k : ℝ) / 1000⟩

/-- squared distance in units of `10⁻⁶ Å²`: an integer -/
def n2 (i1 j1 k1 i2 j2 k2 : ℤ) : ℤ := (i2 - i1) ^ 2 + (j2 - j1) ^ 2 + (k2 - k1) ^ 2

theorem d2_ofMilli (i1 j1 k1 i2 j2 k2 : ℤ) :
    d2 (ofMilli i1 j1 k1) (ofMilli i2 j2 k2) = (n2 i1 j1 k1 i2 j2 k2 : ℝ) / 10 ^ 6 := by
  unfold d2 ofMilli n2; push_cast; ring

theorem inBox_ofMilli {i j k : ℤ} (hi : |i| ≤ 10 ^ 7) (hj : |j| ≤ 10 ^ 7) (hk : |k| ≤ 10 ^ 7) :
    InBox 10000 (ofMilli i j k) := by
  have cast : ∀ m : ℤ, |m| ≤ 10 ^ 7 → |(m : ℝ) / 1000| ≤ 10000 := by
    intro m hm
    have : |(m : ℝ)| ≤ 10 ^ 7 := by exact_mod_cast hm
    rw [abs_div, abs_of_pos (by norm_num : (0 : ℝ) < 1000), div_le_iff₀ (by norm_num)]
    linarith
  exact ⟨cast i hi, cast j hj, cast k hk⟩

/-- **PDB inputs: the only undecided case is a squared text distance EXACTLY equal to the squared decimal cutoff.**
    Coordinates are three-decimal numbers `i/1000` of magnitude ≤ 10⁴ parsed by a correctly rounded `float()`; the cutoff `c` is
    the double of the decimal `n/1000 ≤ 1000` (`c = n/1000` itself when that is representable: 8.5, 5.0, 10.0, 3.0, 4.0).  Then
    the binary64 test `np.sqrt(np.sum((p-q)**2)) <= c` holds iff the INTEGER comparison `Σ Δ² ≤ n²` holds, unless `Σ Δ² = n²`. -/
theorem pdb_lattice_decision_eq (h : RoundOK fl Rep u53) {c : ℝ} (hc : c ∈ Rep) {n : ℤ} (hn1 : 1 ≤ n) (hn2 : n ≤ 10 ^ 6)
    (hcn : |c - (n : ℝ) / 1000| ≤ u53 * ((n : ℝ) / 1000))
    {i1 j1 k1 i2 j2 k2 : ℤ} (hi1 : |i1| ≤ 10 ^ 7) (hj1 : |j1| ≤ 10 ^ 7) (hk1 : |k1| ≤ 10 ^ 7)
    (hi2 : |i2| ≤ 10 ^ 7) (hj2 : |j2| ≤ 10 ^ 7) (hk2 : |k2| ≤ 10 ^ 7)
    (hne : n2 i1 j1 k1 i2 j2 k2 ≠ n ^ 2) :
    (fdist fl (flPt fl (ofMilli i1 j1 k1)) (flPt fl (ofMilli i2 j2 k2)) ≤ c ↔ n2 i1 j1 k1 i2 j2 k2 ≤ n ^ 2) := by
  have hu := u53_le
  have hu0 := u53_pos
  set N := n2 i1 j1 k1 i2 j2 k2 with hN
  set C : ℝ := (n : ℝ) / 1000 with hC
  have hnR1 : (1 : ℝ) ≤ n := by exact_mod_cast hn1
  have hnR2 : (n : ℝ) ≤ 10 ^ 6 := by exact_mod_cast hn2
  have hC1 : 1 / 1000 ≤ C := by rw [hC]; rw [le_div_iff₀ (by norm_num)]; linarith
  have hC2 : C ≤ 1000 := by rw [hC]; rw [div_le_iff₀ (by norm_num)]; linarith
  obtain ⟨c1, c2⟩ := abs_le.mp hcn
  have huC : u53 * C ≤ 1 / 10 ^ 12 := by
    calc u53 * C ≤ 1 / (9 * 10 ^ 15) * 1000 := mul_le_mul hu hC2 (by linarith) (by norm_num)
      _ ≤ 1 / 10 ^ 12 := by norm_num
  have huC0 : 0 ≤ u53 * C := by positivity
  have hc_lo : 1 / 2000 ≤ c := by linarith
  have hc_hi : c ≤ 1001 := by linarith
  -- c² is within 10⁻⁸ of C²
  have hcc : |c ^ 2 - C ^ 2| ≤ 1 / 10 ^ 8 := by
    have e : c ^ 2 - C ^ 2 = (c - C) * (c + C) := by ring
    rw [e, abs_mul]
    have a1 : |c - C| ≤ 1 / 10 ^ 12 := le_trans hcn huC
    have a2 : |c + C| ≤ 2001 := by rw [abs_of_nonneg (by linarith)]; linarith
    calc |c - C| * |c + C| ≤ 1 / 10 ^ 12 * 2001 := mul_le_mul a1 a2 (abs_nonneg _) (by norm_num)
      _ ≤ 1 / 10 ^ 8 := by norm_num
  obtain ⟨cc1, cc2⟩ := abs_le.mp hcc
  have hmar := pdbMargin_lt (by linarith : (0 : ℝ) ≤ c) hc_hi
  have hd := d2_ofMilli i1 j1 k1 i2 j2 k2
  rw [← hN] at hd
  have hC2' : C ^ 2 = ((n ^ 2 : ℤ) : ℝ) / 10 ^ 6 := by rw [hC]; push_cast; ring
  have key := pdb_decision_eq h hc hc_lo (inBox_ofMilli hi1 hj1 hk1) (inBox_ofMilli hi2 hj2 hk2)
  rw [hd] at key
  rcases lt_or_gt_of_ne hne with hlt | hgt
  · -- N ≤ n² − 1
    have : (N : ℝ) + 1 ≤ ((n ^ 2 : ℤ) : ℝ) := by exact_mod_cast hlt
    have hD : (N : ℝ) / 10 ^ 6 ≤ C ^ 2 - 1 / 10 ^ 6 := by
      rw [hC2']; rw [div_le_iff₀ (by norm_num)]
      have : (((n ^ 2 : ℤ) : ℝ) / 10 ^ 6 - 1 / 10 ^ 6) * 10 ^ 6 = ((n ^ 2 : ℤ) : ℝ) - 1 := by ring
      linarith
    have hk := key (by rw [abs_of_nonpos (by linarith)]; linarith)
    exact ⟨fun _ => hlt.le, fun _ => hk.mpr (by linarith)⟩
  · have : ((n ^ 2 : ℤ) : ℝ) + 1 ≤ (N : ℝ) := by exact_mod_cast hgt
    have hD : C ^ 2 + 1 / 10 ^ 6 ≤ (N : ℝ) / 10 ^ 6 := by
      rw [hC2']; rw [le_div_iff₀ (by norm_num)]
      have : (((n ^ 2 : ℤ) : ℝ) / 10 ^ 6 + 1 / 10 ^ 6) * 10 ^ 6 = ((n ^ 2 : ℤ) : ℝ) + 1 := by ring
      linarith
    have hk := key (by rw [abs_of_pos (by linarith)]; linarith)
    constructor
    · intro hh
      have := hk.mp hh
      exfalso; linarith
    · intro hh; exfalso; exact absurd hh (not_le.mpr hgt)

/-! ### link to the executable model `Py.toDouble`

`fl : ℝ → ℝ` stays abstract (the IEEE-754 contract: Lean proves nothing about the hardware).  What IS proved is that the executable
rounding of the framework, `Py.toDouble : ℚ → ℚ` (round to nearest even, 53 bits, unbounded exponent), obeys the same laws on the
rationals with `Rep = Set.range Py.toDouble` and `u = 2⁻⁵³` (`toDouble_real_laws`, from `Proofs/FloatRel.lean`), and that for ANY `fl`
agreeing with it on the rationals the radicand of the theorems above is the rational the driver can compute (`fdist2_exec`), so
that only the final correctly rounded square root is not executable. -/

theorem toDouble_real_laws :
    (∀ x y : ℚ, x ≤ y → ((Py.toDouble x : ℚ) : ℝ) ≤ ((Py.toDouble y : ℚ) : ℝ)) ∧
    (∀ x : ℚ, x ∈ Set.range Py.toDouble → ((Py.toDouble x : ℚ) : ℝ) = (x : ℝ)) ∧
    (∀ x : ℚ, |((Py.toDouble x : ℚ) : ℝ) - (x : ℝ)| ≤ u53 * |(x : ℝ)|) ∧
    ((0 : ℚ) ∈ Set.range Py.toDouble) ∧
    (∀ x : ℚ, x ∈ Set.range Py.toDouble → -x ∈ Set.range Py.toDouble) := by
  obtain ⟨l1, l2, l3, l4, l5⟩ := Py.toDouble_laws
  refine ⟨fun x y hxy => by exact_mod_cast l1 x y hxy, fun x hx => by rw [l2 x hx], fun x => ?_, l4, l5⟩
  have := (Rat.cast_le (K := ℝ)).mpr (l3 x)
  unfold u53
  push_cast at this
  exact this

/-- `fl` restricted to the rationals is the executable rounding -/
def Agrees (fl : ℝ → ℝ) : Prop := ∀ q : ℚ, fl (q : ℝ) = ((Py.toDouble q : ℚ) : ℝ)

/-- the radicand, executable -/
def fdist2Q (x1 y1 z1 x2 y2 z2 : ℚ) : ℚ :=
  Py.toDouble (Py.toDouble (Py.toDouble (Py.toDouble (x2 - x1) * Py.toDouble (x2 - x1))
      + Py.toDouble (Py.toDouble (y2 - y1) * Py.toDouble (y2 - y1)))
    + Py.toDouble (Py.toDouble (z2 - z1) * Py.toDouble (z2 - z1)))

theorem fdist2_exec (hag : Agrees fl) (x1 y1 z1 x2 y2 z2 : ℚ) :
    fdist2 fl ⟨x1, y1, z1⟩ ⟨x2, y2, z2⟩ = (fdist2Q x1 y1 z1 x2 y2 z2 : ℝ) := by
  unfold fdist2 fdist2Q
  simp only [← Rat.cast_sub, hag _, ← Rat.cast_mul, ← Rat.cast_add]

/-- the executable radicand decides the float test except in a band of relative width `2u` above `c²` -/
theorem exec_inside (h : RoundOK fl Rep u) (hag : Agrees fl) {c : ℝ} (hc : c ∈ Rep) (hc0 : 0 ≤ c) (x1 y1 z1 x2 y2 z2 : ℚ)
    (hs : (fdist2Q x1 y1 z1 x2 y2 z2 : ℝ) ≤ c ^ 2) : fdist fl ⟨x1, y1, z1⟩ ⟨x2, y2, z2⟩ ≤ c := by
  unfold fdist; rw [fdist2_exec hag]
  calc fsqrt fl _ ≤ fsqrt fl (c ^ 2) := fsqrt_mono h hs
    _ = c := fsqrt_sq h hc hc0

theorem exec_outside (h : RoundOK fl Rep u) (hu1 : u ≤ 1) (hag : Agrees fl) {c : ℝ} (hc0 : 0 ≤ c) (x1 y1 z1 x2 y2 z2 : ℚ)
    (hs : c ^ 2 < (1 - u) ^ 2 * (fdist2Q x1 y1 z1 x2 y2 z2 : ℝ)) : c < fdist fl ⟨x1, y1, z1⟩ ⟨x2, y2, z2⟩ := by
  unfold fdist; rw [fdist2_exec hag]
  exact fsqrt_gt h hu1 hc0 hs

end Proofs.FloatMargin
