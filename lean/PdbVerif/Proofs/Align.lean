/-
  Lemmas for `align` (C18): the two successive rotations read from `Gen.align_steps` map the vector with
  spherical angles (φ, θ) onto the requested axis; successive default-centre rotations are one rotation
  about the centroid; the scatter matrix is equivariant; principal directions follow.  Helper lemmas only.
-/
import Mathlib.Analysis.SpecialFunctions.Trigonometric.Basic
import PdbVerif.Proofs.Transform
import PdbVerif.Proofs.Residual
import PdbVerif.Model.Align
import PdbVerif.Spec.C18

set_option linter.unusedSectionVars false
set_option linter.unusedVariables false

namespace Proofs.Align
open Py Py.Mat3 Spec Model Proofs.M3 Proofs.Rod Proofs.Tr

theorem steps_x : alignSteps "x" = some [((0, 0, 1), .negPhi), ((0, 1, 0), .halfPiMinusTheta)] := by decide
theorem steps_y : alignSteps "y" = some [((0, 0, 1), .halfPiMinusPhi), ((1, 0, 0), .thetaMinusHalfPi)] := by decide
theorem steps_z : alignSteps "z" = some [((0, 0, 1), .negPhi), ((0, 1, 0), .negTheta)] := by decide

section field
variable {α : Type} [Field α] [LinearOrder α] [IsStrictOrderedRing α]

theorem mats_x (cp sp ct st : α) :
    alignMats cp sp ct st "x" = some [Gen.rodrigues cp (-sp) 0 0 1, Gen.rodrigues st ct 0 1 0] := by
  simp [alignMats, steps_x, stepMat, AngleExpr.cs]
theorem mats_y (cp sp ct st : α) :
    alignMats cp sp ct st "y" = some [Gen.rodrigues sp cp 0 0 1, Gen.rodrigues st (-ct) 1 0 0] := by
  simp [alignMats, steps_y, stepMat, AngleExpr.cs]
theorem mats_z (cp sp ct st : α) :
    alignMats cp sp ct st "z" = some [Gen.rodrigues cp (-sp) 0 0 1, Gen.rodrigues ct (-st) 0 1 0] := by
  simp [alignMats, steps_z, stepMat, AngleExpr.cs]

theorem compose_two (M1 M2 : Mat3 α) : composeMats [M1, M2] = M2.mul M1 := by
  simp [composeMats, M3.mul_one]

theorem maps_x {v : Vec3 α} {r cp sp ct st : α} (h : SphericalContract v r cp sp ct st) :
    ((Gen.rodrigues st ct 0 1 0).mul (Gen.rodrigues cp (-sp) 0 0 1)).mulVec v = ⟨r, 0, 0⟩ := by
  obtain ⟨hx, hy, hz, hp, ht⟩ := h
  ext <;> simp only [Gen.rodrigues, mul, mulVec, hx, hy, hz]
  · linear_combination (r*st*st) * hp + r * ht
  · ring
  · linear_combination (-ct*r*st) * hp

theorem maps_y {v : Vec3 α} {r cp sp ct st : α} (h : SphericalContract v r cp sp ct st) :
    ((Gen.rodrigues st (-ct) 1 0 0).mul (Gen.rodrigues sp cp 0 0 1)).mulVec v = ⟨0, r, 0⟩ := by
  obtain ⟨hx, hy, hz, hp, ht⟩ := h
  ext <;> simp only [Gen.rodrigues, mul, mulVec, hx, hy, hz]
  · ring
  · linear_combination (r*st*st) * hp + r * ht
  · linear_combination (-ct*r*st) * hp

theorem maps_z {v : Vec3 α} {r cp sp ct st : α} (h : SphericalContract v r cp sp ct st) :
    ((Gen.rodrigues ct (-st) 0 1 0).mul (Gen.rodrigues cp (-sp) 0 0 1)).mulVec v = ⟨0, 0, r⟩ := by
  obtain ⟨hx, hy, hz, hp, ht⟩ := h
  ext <;> simp only [Gen.rodrigues, mul, mulVec, hx, hy, hz]
  · linear_combination (ct*r*st) * hp
  · ring
  · linear_combination (r*st*st) * hp + r * ht

/-- each step matrix is a proper rotation -/
theorem stepMat_rot (cp sp ct st : α) (hp : cp * cp + sp * sp = 1) (ht : ct * ct + st * st = 1)
    (u : Int × Int × Int) (e : AngleExpr)
    (hu : Vec3.normSq (⟨((u.1 : Int) : α), ((u.2.1 : Int) : α), ((u.2.2 : Int) : α)⟩ : Vec3 α) = 1) :
    IsRotation (stepMat cp sp ct st (u, e)) := by
  unfold stepMat
  have hcs : (e.cs cp sp ct st).1 * (e.cs cp sp ct st).1 + (e.cs cp sp ct st).2 * (e.cs cp sp ct st).2 = 1 := by
    cases e <;> simp only [AngleExpr.cs] <;> first | linear_combination hp | linear_combination ht
  exact rodrigues_rot _ _ ⟨_, _, _⟩ hcs hu

/-! ### successive default-centre rotations = one rotation about the centroid -/

theorem rotateAbout_comp (A M : Mat3 α) (c : Vec3 α) (X : List (Vec3 α)) :
    rotateAbout M c (rotateAbout A c X) = rotateAbout (M.mul A) c X := by
  unfold rotateAbout
  rw [List.map_map]
  apply List.map_congr_left
  intro p _
  ext <;> simp only [Function.comp, Vec3.add, Vec3.sub, mulVec, mul] <;> ring

theorem rotateAbout_one (c : Vec3 α) (X : List (Vec3 α)) : rotateAbout Mat3.one c X = X := by
  unfold rotateAbout
  conv_rhs => rw [← List.map_id X]
  apply List.map_congr_left
  intro p _
  ext <;> simp [Vec3.add, Vec3.sub, mulVec, Mat3.one]

theorem rotateAbout_ne_nil (A : Mat3 α) (c : Vec3 α) {X : List (Vec3 α)} (h : X ≠ []) : rotateAbout A c X ≠ [] := by
  unfold rotateAbout; simpa using h

theorem applyMats_from (mats : List (Mat3 α)) (X : List (Vec3 α)) (hX : X ≠ []) (A : Mat3 α) :
    mats.foldl (fun X M => rotate M none X) (rotateAbout A (mean X) X) =
      rotateAbout (mats.foldl (fun acc M => Mat3.mul M acc) A) (mean X) X := by
  induction mats generalizing A with
  | nil => rfl
  | cons M mats ih =>
    simp only [List.foldl_cons]
    have : rotate M none (rotateAbout A (mean X) X) = rotateAbout (M.mul A) (mean X) X := by
      unfold rotate
      simp only
      have hc := Proofs.Tr.centroid_fixed A X hX
      rw [hc, rotateAbout_comp]
    rw [this]
    exact ih (M.mul A)

/-- `_align_along_axis` moves the array by ONE linear map about the centroid of the array -/
theorem applyMats_eq (mats : List (Mat3 α)) (X : List (Vec3 α)) (hX : X ≠ []) :
    applyMats mats X = rotateAbout (composeMats mats) (mean X) X := by
  unfold applyMats composeMats
  have := applyMats_from mats X hX Mat3.one
  rw [rotateAbout_one] at this
  exact this

theorem composeMats_rot (mats : List (Mat3 α)) (h : ∀ M ∈ mats, IsRotation M) : IsRotation (composeMats mats) := by
  unfold composeMats
  suffices H : ∀ A : Mat3 α, IsRotation A → IsRotation (mats.foldl (fun acc M => Mat3.mul M acc) A) from H _ rot_one
  induction mats with
  | nil => intro A hA; exact hA
  | cons M mats ih =>
    intro A hA
    simp only [List.foldl_cons]
    exact ih (fun M' hM' => h M' (List.mem_cons_of_mem _ hM')) _ (rot_mul (h M (List.mem_cons_self ..)) hA)

/-! ### scatter matrix -/

theorem outer_mulVec (M : Mat3 α) (u : Vec3 α) :
    Mat3.outer (M.mulVec u) (M.mulVec u) = (M.mul (Mat3.outer u u)).mul M.T := by
  ext <;> simp only [Mat3.outer, mulVec, mul, T] <;> ring

theorem mul_add_mul (M A B : Mat3 α) : (M.mul (Mat3.add A B)).mul M.T = Mat3.add ((M.mul A).mul M.T) ((M.mul B).mul M.T) := by
  ext <;> simp only [Mat3.add, mul, T] <;> ring

theorem mul_zero_mul (M : Mat3 α) : (M.mul Mat3.zero).mul M.T = Mat3.zero := by
  ext <;> simp [Mat3.zero, mul, T]

/-- `Σ (g p − g m)(g p − g m)ᵀ = M (Σ (p − m)(p − m)ᵀ) Mᵀ` for `g p = M(p − c) + c` -/
theorem scatterAbout_map (M : Mat3 α) (c m : Vec3 α) (X : List (Vec3 α)) :
    scatterAbout (Vec3.add (M.mulVec (Vec3.sub m c)) c) (X.map (fun p => Vec3.add (M.mulVec (Vec3.sub p c)) c)) =
      (M.mul (scatterAbout m X)).mul M.T := by
  induction X with
  | nil => simp [scatterAbout, mul_zero_mul]
  | cons p X ih =>
    simp only [List.map_cons, scatterAbout, ih, mul_add_mul]
    rw [sub_about, outer_mulVec]

theorem centroid_map (M : Mat3 α) (c : Vec3 α) (X : List (Vec3 α)) (hX : X ≠ []) :
    centroid (X.map (fun p => Vec3.add (M.mulVec (Vec3.sub p c)) c)) = Vec3.add (M.mulVec (Vec3.sub (centroid X) c)) c := by
  have hn : ((X.length : Nat) : α) ≠ 0 := by
    have : 0 < X.length := List.length_pos_iff.2 hX
    exact_mod_cast (Nat.pos_iff_ne_zero.1 this)
  rw [← Proofs.Residual.mean_eq, ← Proofs.Residual.mean_eq]
  have e := vsum_map_about M c X
  have hm : mean (X.map (fun p => Vec3.add (M.mulVec (Vec3.sub p c)) c)) =
      ⟨(Model.vsum (X.map (fun p => Vec3.add (M.mulVec (Vec3.sub p c)) c))).x / ((X.length : Nat) : α),
       (Model.vsum (X.map (fun p => Vec3.add (M.mulVec (Vec3.sub p c)) c))).y / ((X.length : Nat) : α),
       (Model.vsum (X.map (fun p => Vec3.add (M.mulVec (Vec3.sub p c)) c))).z / ((X.length : Nat) : α)⟩ := by
    simp [mean]
  rw [hm, e]
  ext <;> simp only [mean, Vec3.add, Vec3.sub, Vec3.smul, mulVec] <;> field_simp

/-- **covariance is equivariant**: moving every point by `p ↦ M(p − c) + c` turns the scatter matrix `S`
    (about the centroid) into `M S Mᵀ` -/
theorem scatter_map (M : Mat3 α) (c : Vec3 α) (X : List (Vec3 α)) (hX : X ≠ []) :
    scatter (X.map (fun p => Vec3.add (M.mulVec (Vec3.sub p c)) c)) = (M.mul (scatter X)).mul M.T := by
  unfold scatter
  rw [centroid_map M c X hX, scatterAbout_map]

theorem quadForm_conj (M S : Mat3 α) (w : Vec3 α) :
    quadForm ((M.mul S).mul M.T) w = quadForm S (M.T.mulVec w) := by
  simp only [quadForm, Vec3.dot, mulVec, mul, T]; ring

/-! ### principal directions through an orthogonal change of frame -/

theorem T_mulVec_axis {M : Mat3 α} (hM : Orthogonal M) {v e : Vec3 α} {r : α} (hr : r ≠ 0)
    (hMv : M.mulVec v = Vec3.smul r e) : M.T.mulVec e = Vec3.smul (1 / r) v := by
  have h1 : M.T.mulVec (M.mulVec v) = v := by rw [← mulVec_mul, hM.2, one_mulVec]
  rw [hMv, mulVec_smul] at h1
  have hx := congrArg Vec3.x h1; have hy := congrArg Vec3.y h1; have hz := congrArg Vec3.z h1
  simp only [Vec3.smul] at hx hy hz
  ext <;> simp only [Vec3.smul]
  · rw [← hx]; field_simp
  · rw [← hy]; field_simp
  · rw [← hz]; field_simp

theorem normSq_of_maps {M : Mat3 α} (hM : Orthogonal M) {v e : Vec3 α} {r : α}
    (hMv : M.mulVec v = Vec3.smul r e) (he : Vec3.normSq e = 1) : Vec3.normSq v = r * r := by
  rw [← orth_normSq hM v, hMv]
  simp only [Vec3.normSq, Vec3.dot, Vec3.smul] at he ⊢
  linear_combination (r * r) * he

/-- if `v` is an eigenvector of `S` and `M v = r·e`, then `e` is an eigenvector of `M S Mᵀ` for the same
    eigenvalue, which is its Rayleigh quotient at `e` -/
theorem eigen_transfer {M S : Mat3 α} (hM : Orthogonal M) {v e : Vec3 α} {r lam : α} (hr : r ≠ 0)
    (hMv : M.mulVec v = Vec3.smul r e) (he : Vec3.normSq e = 1) (hS : S.mulVec v = Vec3.smul lam v) :
    ((M.mul S).mul M.T).mulVec e = Vec3.smul lam e ∧ quadForm ((M.mul S).mul M.T) e = lam := by
  have hT := T_mulVec_axis hM hr hMv
  have h1 : ((M.mul S).mul M.T).mulVec e = Vec3.smul lam e := by
    rw [mulVec_mul, mulVec_mul, hT, mulVec_smul, hS, mulVec_smul, mulVec_smul, hMv]
    ext <;> simp only [Vec3.smul] <;> field_simp
  refine ⟨h1, ?_⟩
  unfold quadForm
  rw [h1]
  simp only [Vec3.normSq, Vec3.dot, Vec3.smul] at he ⊢
  linear_combination lam * he

/-- dominance of the quadratic form is invariant under the change of frame -/
theorem dominance_transfer {M S : Mat3 α} (hM : Orthogonal M) {lam : α}
    (h : ∀ w, quadForm S w ≤ lam * Vec3.normSq w) (w : Vec3 α) :
    quadForm ((M.mul S).mul M.T) w ≤ lam * Vec3.normSq w := by
  rw [quadForm_conj, ← orth_normSq (orth_T hM) w]
  exact h _

theorem dominance_transfer_min {M S : Mat3 α} (hM : Orthogonal M) {lam : α}
    (h : ∀ w, lam * Vec3.normSq w ≤ quadForm S w) (w : Vec3 α) :
    lam * Vec3.normSq w ≤ quadForm ((M.mul S).mul M.T) w := by
  rw [quadForm_conj, ← orth_normSq (orth_T hM) w]
  exact h _

/-- a strict gap (every direction perpendicular to `v` has strictly smaller Rayleigh quotient) carries over:
    the top direction of `M S Mᵀ` is `e` and nothing else -/
theorem gap_transfer {M S : Mat3 α} (hM : Orthogonal M) {v e : Vec3 α} {r lam : α} (hr : r ≠ 0)
    (hMv : M.mulVec v = Vec3.smul r e)
    (h : ∀ w, Vec3.dot w v = 0 → 0 < Vec3.normSq w → quadForm S w < lam * Vec3.normSq w)
    (w : Vec3 α) (hw : Vec3.dot w e = 0) (hw0 : 0 < Vec3.normSq w) :
    quadForm ((M.mul S).mul M.T) w < lam * Vec3.normSq w := by
  have hT := T_mulVec_axis hM hr hMv
  rw [quadForm_conj, ← orth_normSq (orth_T hM) w]
  apply h
  · have hv : v = Vec3.smul r (M.T.mulVec e) := by
      rw [hT]; ext <;> simp only [Vec3.smul] <;> field_simp
    rw [hv]
    have := orth_dot (orth_T hM) w e
    simp only [Vec3.dot, Vec3.smul] at this hw ⊢
    linear_combination r * this + r * hw
  · rw [orth_normSq (orth_T hM) w]; exact hw0

end field
/-! ### real angles -/

/-- the value of an angle expression of the source -/
noncomputable def evalAngle (φ θ : ℝ) : AngleExpr → ℝ
  | .negPhi => -φ
  | .halfPiMinusTheta => Real.pi / 2 - θ
  | .halfPiMinusPhi => Real.pi / 2 - φ
  | .thetaMinusHalfPi => θ - Real.pi / 2
  | .negTheta => -θ

/-- the symbolic (cos, sin) of each angle expression are the real cosine and sine of its value -/
theorem cs_eval (φ θ : ℝ) (e : AngleExpr) :
    e.cs (Real.cos φ) (Real.sin φ) (Real.cos θ) (Real.sin θ) = (Real.cos (evalAngle φ θ e), Real.sin (evalAngle φ θ e)) := by
  cases e <;> simp only [AngleExpr.cs, evalAngle, Real.cos_neg, Real.sin_neg, Real.cos_pi_div_two_sub,
    Real.sin_pi_div_two_sub, Real.cos_sub_pi_div_two, Real.sin_sub_pi_div_two]

/-- the matrix of one step with the real angle the code passes to `rot_xyz_around_axis` -/
noncomputable def stepMatReal (φ θ : ℝ) (step : (Int × Int × Int) × AngleExpr) : Mat3 ℝ :=
  Gen.rodrigues (Real.cos (evalAngle φ θ step.2)) (Real.sin (evalAngle φ θ step.2))
    ((step.1.1 : Int) : ℝ) ((step.1.2.1 : Int) : ℝ) ((step.1.2.2 : Int) : ℝ)

theorem stepMatReal_eq (φ θ : ℝ) (step : (Int × Int × Int) × AngleExpr) :
    stepMatReal φ θ step = stepMat (Real.cos φ) (Real.sin φ) (Real.cos θ) (Real.sin θ) step := by
  unfold stepMatReal stepMat; rw [cs_eval]

end Proofs.Align
