/-
  Helper lemmas for C07 / C11 (cluster E), part 8: the definition's pair lists under changes of the structures —
  reordering of the records (same pairs up to order), and maps of every record that respect identities (rigid motion,
  renumbering, changes of the ignored columns): the pairs are mapped pointwise.  Helper lemmas only.
-/
import PdbVerif.Proofs.RmsdCheck
import PdbVerif.Spec.C11

set_option linter.unusedVariables false
set_option linter.unusedSimpArgs false
set_option linter.unusedSectionVars false

namespace Proofs.Rmsd
open Model Model.Rmsd Py Proofs.Contacts
open Spec.Rmsd (commonBackbone atomWith atInterface interfacePairs ligandFitPairs ligandEvalPairs chains chainSize longShort isBackbone)

/-- the coordinate pairs (decoy point, reference point) of a list of model pairs -/
def coordsOf (l : List Pair) : List (Vec3 Rat × Vec3 Rat) := l.map (fun p => (p.1.2, p.2.2))

theorem coords_idPair (l : List Pair) : Spec.Rmsd.coords (l.map idPair) = coordsOf l := by
  simp [Spec.Rmsd.coords, coordsOf, idPair, List.map_map, Function.comp_def]

/-! ### reordering the records of a structure -/

theorem atomWith_perm {t t' : List Atom} (h : t'.Perm t) (hn : (t.map keyOf).Nodup) (k : Key) :
    atomWith t' k = atomWith t k := by
  have hn' : (t'.map keyOf).Nodup := (h.map keyOf).nodup_iff.mpr hn
  cases h1 : atomWith t k with
  | none =>
    cases h2 : atomWith t' k with
    | none => rfl
    | some a =>
      obtain ⟨ha, hk⟩ := (atomWith_eq_some hn').mp h2
      rw [(atomWith_eq_some hn).mpr ⟨h.mem_iff.mp ha, hk⟩] at h1
      cases h1
  | some a =>
    obtain ⟨ha, hk⟩ := (atomWith_eq_some hn).mp h1
    exact (atomWith_eq_some hn').mpr ⟨h.mem_iff.mpr ha, hk⟩

theorem any_perm {α : Type} {l l' : List α} (h : l'.Perm l) (p : α → Bool) : l'.any p = l.any p := by
  rw [Bool.eq_iff_iff]
  simp only [List.any_eq_true]
  exact ⟨fun ⟨x, hx, hp⟩ => ⟨x, h.mem_iff.mp hx, hp⟩, fun ⟨x, hx, hp⟩ => ⟨x, h.mem_iff.mpr hx, hp⟩⟩

theorem atInterface_perm {ref ref' : List Atom} (h : ref'.Perm ref) (c : Rat) (ch : Str) (rs : Int) :
    atInterface ref' c ch rs = atInterface ref c ch rs := by
  unfold Spec.Rmsd.atInterface
  rw [any_perm h]
  congr 1
  funext a
  rw [any_perm h]

theorem commonBackbone_perm {dec dec' ref ref' : List Atom} (hd : dec'.Perm dec) (hr : ref'.Perm ref)
    (hn : (dec.map keyOf).Nodup) (sel : Atom → Bool) :
    (commonBackbone dec' ref' sel).Perm (commonBackbone dec ref sel) := by
  unfold Spec.Rmsd.commonBackbone
  have hf : (fun r => if (isBackbone r && sel r) = true then (atomWith dec' (Spec.Rmsd.key r)).map (fun d => (Spec.Rmsd.key r, Spec.Rmsd.pos d, Spec.Rmsd.pos r)) else none) =
      (fun r => if (isBackbone r && sel r) = true then (atomWith dec (Spec.Rmsd.key r)).map (fun d => (Spec.Rmsd.key r, Spec.Rmsd.pos d, Spec.Rmsd.pos r)) else none) := by
    funext r
    rw [atomWith_perm hd hn]
  rw [hf]
  exact hr.filterMap _

theorem chains_perm {t t' : List Atom} (h : t'.Perm t) : chains t' = chains t := by
  rw [chains_eq, chains_eq]
  unfold getChains
  exact sortedSet_congr strictTotal_ltStr (fun z => (h.map _).mem_iff)

theorem chainSize_perm {t t' : List Atom} (h : t'.Perm t) (ch : Str) : chainSize t' ch = chainSize t ch := by
  unfold Spec.Rmsd.chainSize
  exact (h.filter _).length_eq

theorem longShort_perm {t t' : List Atom} (h : t'.Perm t) : longShort t' = longShort t := by
  unfold Spec.Rmsd.longShort
  rw [chains_perm h]
  split <;> simp only [chainSize_perm h]

theorem interfacePairs_perm {dec dec' ref ref' : List Atom} (hd : dec'.Perm dec) (hr : ref'.Perm ref)
    (hn : (dec.map keyOf).Nodup) (c : Rat) :
    (interfacePairs dec' ref' c).Perm (interfacePairs dec ref c) := by
  unfold Spec.Rmsd.interfacePairs
  have : (fun r : Atom => atInterface ref' c r.chainID r.resSeq) = (fun r : Atom => atInterface ref c r.chainID r.resSeq) := by
    funext r; exact atInterface_perm hr c _ _
  rw [this]
  exact commonBackbone_perm hd hr hn _

theorem ligandFitPairs_perm {dec dec' ref ref' : List Atom} (hd : dec'.Perm dec) (hr : ref'.Perm ref)
    (hn : (dec.map keyOf).Nodup) : (ligandFitPairs dec' ref').Perm (ligandFitPairs dec ref) := by
  unfold Spec.Rmsd.ligandFitPairs
  rw [longShort_perm hr]
  split
  · exact commonBackbone_perm hd hr hn _
  · exact List.Perm.refl _

theorem ligandEvalPairs_perm {dec dec' ref ref' : List Atom} (hd : dec'.Perm dec) (hr : ref'.Perm ref)
    (hn : (dec.map keyOf).Nodup) : (ligandEvalPairs dec' ref').Perm (ligandEvalPairs dec ref) := by
  unfold Spec.Rmsd.ligandEvalPairs
  rw [longShort_perm hr]
  split
  · exact commonBackbone_perm hd hr hn _
  · exact List.Perm.refl _

/-- the hypotheses of the property are insensitive to the order of the records -/
theorem cons_perm {dec dec' ref ref' : List Atom} (hd : dec'.Perm dec) (hr : ref'.Perm ref) (hc : Cons dec ref) :
    Cons dec' ref' := by
  refine ⟨(hd.map keyOf).nodup_iff.mpr hc.nodupD, (hr.map keyOf).nodup_iff.mpr hc.nodupR, ?_, ?_⟩
  · intro a ha b hb
    have ha' : a ∈ dec ++ ref := by
      rcases List.mem_append.mp ha with h | h
      · exact List.mem_append_left _ (hd.mem_iff.mp h)
      · exact List.mem_append_right _ (hr.mem_iff.mp h)
    have hb' : b ∈ dec ++ ref := by
      rcases List.mem_append.mp hb with h | h
      · exact List.mem_append_left _ (hd.mem_iff.mp h)
      · exact List.mem_append_right _ (hr.mem_iff.mp h)
    exact hc.names a ha' b hb'
  · obtain ⟨c0, c1, h0, h1⟩ := hc.two
    refine ⟨c0, c1, ?_, ?_⟩
    · rw [← h0, ← chains_eq, ← chains_eq]; exact chains_perm hr
    · rw [← h1, ← chains_eq, ← chains_eq]; exact chains_perm hd


/-! ### changing every record by a map that respects identities -/

theorem atomWith_map {f : Atom → Atom} {kf : Key → Key} (hinj : Function.Injective kf)
    (hk : ∀ a, Spec.Rmsd.key (f a) = kf (Spec.Rmsd.key a)) (t : List Atom) (k : Key) :
    atomWith (t.map f) (kf k) = (atomWith t k).map f := by
  unfold Spec.Rmsd.atomWith
  rw [List.find?_map]
  congr 2
  funext a
  simp only [Function.comp, hk]
  rw [Bool.eq_iff_iff]
  simp only [decide_eq_true_eq]
  exact ⟨fun h => hinj h, fun h => by rw [h]⟩

theorem commonBackbone_map {fD fR : Atom → Atom} {kf : Key → Key} {pd pr : Spec.Rmsd.P3 → Spec.Rmsd.P3}
    (hinj : Function.Injective kf)
    (hkD : ∀ a, Spec.Rmsd.key (fD a) = kf (Spec.Rmsd.key a)) (hkR : ∀ a, Spec.Rmsd.key (fR a) = kf (Spec.Rmsd.key a))
    (hpD : ∀ a, Spec.Rmsd.pos (fD a) = pd (Spec.Rmsd.pos a)) (hpR : ∀ a, Spec.Rmsd.pos (fR a) = pr (Spec.Rmsd.pos a))
    (hbb : ∀ a, isBackbone (fR a) = isBackbone a) (dec ref : List Atom) (sel sel' : Atom → Bool)
    (hsel : ∀ r ∈ ref, sel' (fR r) = sel r) :
    commonBackbone (dec.map fD) (ref.map fR) sel' =
      (commonBackbone dec ref sel).map (fun p => (kf p.1, pd p.2.1, pr p.2.2)) := by
  unfold Spec.Rmsd.commonBackbone
  rw [List.filterMap_map, List.map_filterMap]
  apply List.filterMap_congr
  intro r hr
  simp only [Function.comp, hbb, hsel r hr, hkR, atomWith_map hinj hkD]
  split
  · cases atomWith dec (Spec.Rmsd.key r) with
    | none => rfl
    | some d => simp [hpD, hpR]
  · rfl

theorem atInterface_map {f : Atom → Atom} (δ : Int) (hc : ∀ a, (f a).chainID = a.chainID)
    (hs : ∀ a, (f a).resSeq = a.resSeq + δ) (c : Rat)
    (hw : ∀ a b, Spec.Rmsd.within c (Spec.Rmsd.pos (f a)) (Spec.Rmsd.pos (f b)) = Spec.Rmsd.within c (Spec.Rmsd.pos a) (Spec.Rmsd.pos b))
    (ref : List Atom) (ch : Str) (rs : Int) :
    atInterface (ref.map f) c ch (rs + δ) = atInterface ref c ch rs := by
  unfold Spec.Rmsd.atInterface
  rw [List.any_map]
  congr 1
  funext a
  have h1 : decide ((f a).resSeq = rs + δ) = decide (a.resSeq = rs) := by
    rw [Bool.eq_iff_iff]; simp only [decide_eq_true_eq, hs]; omega
  have h2 : ((fun b : Atom => decide (b.chainID ≠ ch) && Spec.Rmsd.within c (Spec.Rmsd.pos (f a)) (Spec.Rmsd.pos b)) ∘ f) =
      fun b => decide (b.chainID ≠ ch) && Spec.Rmsd.within c (Spec.Rmsd.pos a) (Spec.Rmsd.pos b) := by
    funext b; simp only [Function.comp, hc, hw]
  simp only [Function.comp, hc, h1, List.any_map, h2]

theorem chains_map {f : Atom → Atom} (hc : ∀ a, (f a).chainID = a.chainID) (t : List Atom) : chains (t.map f) = chains t := by
  unfold Spec.Rmsd.chains
  rw [List.map_map]
  congr 2
  funext a; exact hc a

theorem chainSize_map {f : Atom → Atom} (hc : ∀ a, (f a).chainID = a.chainID) (t : List Atom) (ch : Str) :
    chainSize (t.map f) ch = chainSize t ch := by
  unfold Spec.Rmsd.chainSize
  rw [List.filter_map, List.length_map]
  congr 2
  funext a; simp [Function.comp, hc]

theorem longShort_map {f : Atom → Atom} (hc : ∀ a, (f a).chainID = a.chainID) (t : List Atom) :
    longShort (t.map f) = longShort t := by
  unfold Spec.Rmsd.longShort
  rw [chains_map hc]
  split <;> simp only [chainSize_map hc]

/-! ### membership in the definition's pair list; missing atoms; identical structures -/

theorem mem_commonBackbone {dec ref : List Atom} (hd : (dec.map keyOf).Nodup) (sel : Atom → Bool) (p : Spec.Rmsd.IdPair) :
    p ∈ commonBackbone dec ref sel ↔
      ∃ r ∈ ref, (isBackbone r && sel r) = true ∧ ∃ d ∈ dec, keyOf d = keyOf r ∧ p = (keyOf r, posOf d, posOf r) := by
  simp only [Spec.Rmsd.commonBackbone, List.mem_filterMap]
  constructor
  · rintro ⟨r, hr, hsome⟩
    split at hsome
    · rename_i hsel
      cases hw : atomWith dec (Spec.Rmsd.key r) with
      | none => simp [hw] at hsome
      | some d =>
        simp only [hw, Option.map_some, Option.some.injEq] at hsome
        obtain ⟨hd', hk⟩ := (atomWith_eq_some hd).mp hw
        exact ⟨r, hr, hsel, d, hd', hk, hsome.symm⟩
    · cases hsome
  · rintro ⟨r, hr, hsel, d, hd', hk, rfl⟩
    refine ⟨r, hr, ?_⟩
    rw [if_pos hsel, key_eq, (atomWith_eq_some hd).mpr ⟨hd', hk⟩]
    rfl

/-- every pair of the definition joins an identity present in both structures -/
theorem commonBackbone_keys {dec ref : List Atom} (hd : (dec.map keyOf).Nodup) (sel : Atom → Bool) {p : Spec.Rmsd.IdPair}
    (h : p ∈ commonBackbone dec ref sel) : p.1 ∈ dec.map keyOf ∧ p.1 ∈ ref.map keyOf := by
  obtain ⟨r, hr, _, d, hd', hk, rfl⟩ := (mem_commonBackbone hd sel p).mp h
  exact ⟨List.mem_map.mpr ⟨d, hd', hk⟩, List.mem_map.mpr ⟨r, hr, rfl⟩⟩

/-- atoms missing from the decoy are left out, everything else stays: the pairs for the incomplete decoy
    `dec.filter keep` are the pairs for `dec` whose decoy atom was kept -/
theorem commonBackbone_filter {dec ref : List Atom} (hd : (dec.map keyOf).Nodup) (sel : Atom → Bool) (keep : Atom → Bool)
    (p : Spec.Rmsd.IdPair) :
    p ∈ commonBackbone (dec.filter keep) ref sel ↔
      p ∈ commonBackbone dec ref sel ∧ ∃ d ∈ dec, keep d = true ∧ keyOf d = p.1 := by
  have hd' : ((dec.filter keep).map keyOf).Nodup := (List.Sublist.map _ List.filter_sublist).nodup hd
  rw [mem_commonBackbone hd', mem_commonBackbone hd]
  constructor
  · rintro ⟨r, hr, hsel, d, hdm, hk, rfl⟩
    obtain ⟨h1, h2⟩ := List.mem_filter.mp hdm
    exact ⟨⟨r, hr, hsel, d, h1, hk, rfl⟩, d, h1, h2, hk⟩
  · rintro ⟨⟨r, hr, hsel, d, hdm, hk, rfl⟩, d2, hd2, hkeep, hk2⟩
    have : d2 = d := eq_of_key_eq hd hd2 hdm (hk2.trans hk.symm)
    subst this
    exact ⟨r, hr, hsel, d2, List.mem_filter.mpr ⟨hd2, hkeep⟩, hk, rfl⟩

/-- a decoy identical to the reference: every pair has equal coordinates -/
theorem commonBackbone_self {ref : List Atom} (hr : (ref.map keyOf).Nodup) (sel : Atom → Bool) {p : Spec.Rmsd.IdPair}
    (h : p ∈ commonBackbone ref ref sel) : p.2.1 = p.2.2 := by
  obtain ⟨r, hr', _, d, hd', hk, rfl⟩ := (mem_commonBackbone hr sel p).mp h
  rw [eq_of_key_eq hr hd' hr' hk]


end Proofs.Rmsd
