/-
  Algebra behind C13 over an arbitrary ordered field: `Model.superposeSelection` applies one motion
  `p ↦ R·p + (q̄ − R·p̄)` to every point; the sum of squared deviations of any rigid motion splits into the
  residual of its rotation on the centred sets plus `n·‖offset‖²`; hence an optimal kernel rotation gives an
  optimal rigid motion.  Helper lemmas only.
-/
import Mathlib.Tactic.Linarith
import Mathlib.Tactic.Ring
import Mathlib.Tactic.LinearCombination
import Mathlib.Tactic.FieldSimp
import Mathlib.Algebra.Order.Field.Basic
import PdbVerif.Proofs.Mat3
import PdbVerif.Proofs.SO3
import PdbVerif.Proofs.Residual
import PdbVerif.Model.Superpose
import PdbVerif.Spec.C13

set_option linter.unusedSectionVars false
set_option linter.unusedVariables false

namespace Proofs.SupCore
open Py Py.Mat3 Spec Spec.C13 Model

variable {α : Type} [Field α] [LinearOrder α] [IsStrictOrderedRing α]

/-- the motion that `superpose_selection` applies once the kernel returned `R` -/
def motionOf (R : Mat3 α) (P Q : List (Vec3 α)) : Motion α :=
  { R := R, t := Vec3.sub (Model.mean Q) (R.mulVec (Model.mean P)) }

/-- the centred selections handed to the kernel -/
def centred (P : List (Vec3 α)) : List (Vec3 α) := P.map (fun p => Vec3.add p (Vec3.neg (Model.mean P)))

theorem step_eq (R : Mat3 α) (P Q : List (Vec3 α)) (p : Vec3 α) :
    Vec3.sub (Vec3.add (R.mulVec (Vec3.sub (Vec3.add p (Vec3.neg (Model.mean P))) Vec3.zero)) Vec3.zero) (Vec3.neg (Model.mean Q)) =
      (motionOf R P Q).apply p := by
  ext <;> simp only [motionOf, Motion.apply, Vec3.add, Vec3.sub, Vec3.neg, Vec3.zero, mulVec] <;> ring

/-- `superpose_selection` succeeds exactly when the kernel does, and then moves every point by `motionOf R P Q` -/
theorem superposeSelection_ok {kernel : List (Vec3 α) → List (Vec3 α) → Except Err (Mat3 α)}
    {xyz P Q out : List (Vec3 α)} (h : superposeSelection kernel xyz P Q = .ok out) :
    ∃ R, kernel (centred P) (centred Q) = .ok R ∧ out = xyz.map (motionOf R P Q).apply := by
  unfold superposeSelection at h
  simp only at h
  cases hk : kernel (List.map (fun p => Vec3.add p (Vec3.neg (Model.mean P))) P)
      (List.map (fun p => Vec3.add p (Vec3.neg (Model.mean Q))) Q) with
  | error e => rw [hk] at h; cases h
  | ok R =>
    rw [hk] at h
    refine ⟨R, hk, ?_⟩
    injection h with h
    rw [← h]
    simp only [rotateAbout, List.map_map]
    apply List.map_congr_left
    intro p _
    exact step_eq R P Q p

/-! ### sums -/

/-- `Σ ‖f pₖ − qₖ‖²` over two lists read in parallel -/
def resid (f : Vec3 α → Vec3 α) : List (Vec3 α) → List (Vec3 α) → α
  | p :: P, q :: Q => Vec3.normSq (Vec3.sub (f p) q) + resid f P Q
  | _, _ => 0

theorem sqDev_moved_zip (m : Motion α) (P Q : List (Vec3 α)) :
    sqDev (moved m (P.zip Q)) = resid m.apply P Q := by
  induction P generalizing Q with
  | nil => simp [moved, sqDev, resid]
  | cons p P ih =>
    cases Q with
    | nil => simp [moved, sqDev, resid]
    | cons q Q =>
      have := ih Q
      simp only [moved] at this
      simp [moved, sqDev, resid, this]

theorem sqResidual_eq_resid (U : Mat3 α) (P Q : List (Vec3 α)) : sqResidual U P Q = resid U.mulVec P Q := by
  induction P generalizing Q with
  | nil => simp [sqResidual, resid]
  | cons p P ih =>
    cases Q with
    | nil => simp [sqResidual, resid]
    | cons q Q => simp [sqResidual, resid, ih]

theorem resid_nonneg (f : Vec3 α → Vec3 α) (P Q : List (Vec3 α)) : 0 ≤ resid f P Q := by
  induction P generalizing Q with
  | nil => simp [resid]
  | cons p P ih =>
    cases Q with
    | nil => simp [resid]
    | cons q Q =>
      simp only [resid]
      have := ih Q
      have h2 : 0 ≤ Vec3.normSq (Vec3.sub (f p) q) := by
        simp only [Vec3.normSq, Vec3.dot]
        nlinarith [mul_self_nonneg (Vec3.sub (f p) q).x, mul_self_nonneg (Vec3.sub (f p) q).y, mul_self_nonneg (Vec3.sub (f p) q).z]
      linarith

/-- the decomposition: for any motion `(R', t')` and any two "centres" `c`, `d`,
    `Σ‖R'p + t' − q‖² = Σ‖R'(p − c) − (q − d)‖² + 2 w·(R'(Σp − n c) − (Σq − n d)) + n‖w‖²`, `w = R'c + t' − d` -/
theorem resid_split (m : Motion α) (c d : Vec3 α) :
    ∀ (P Q : List (Vec3 α)), P.length = Q.length →
      resid m.apply P Q =
        resid m.R.mulVec (P.map (fun p => Vec3.add p (Vec3.neg c))) (Q.map (fun q => Vec3.add q (Vec3.neg d)))
        + 2 * Vec3.dot (Vec3.sub (Vec3.add (m.R.mulVec c) m.t) d)
            (Vec3.sub (m.R.mulVec (Vec3.sub (Model.vsum P) (Vec3.smul ((P.length : Nat) : α) c)))
                      (Vec3.sub (Model.vsum Q) (Vec3.smul ((Q.length : Nat) : α) d)))
        + ((P.length : Nat) : α) * Vec3.normSq (Vec3.sub (Vec3.add (m.R.mulVec c) m.t) d)
  | [], [], _ => by
    simp [resid, Model.vsum, Vec3.zero, Vec3.sub, Vec3.smul, Vec3.dot, mulVec]
  | [], _ :: _, h => by simp at h
  | _ :: _, [], h => by simp at h
  | p :: P, q :: Q, h => by
    have ih := resid_split m c d P Q (by simpa using h)
    simp only [resid, List.map_cons, Model.vsum, List.length_cons, Nat.cast_succ]
    rw [ih]
    simp only [Motion.apply, Vec3.normSq, Vec3.dot, Vec3.sub, Vec3.add, Vec3.neg, Vec3.smul, mulVec]
    ring

theorem natCast_ne_zero {n : Nat} (h : n ≠ 0) : ((n : Nat) : α) ≠ 0 := by
  exact_mod_cast h

/-- `Σp − n·p̄ = 0` -/
theorem vsum_sub_mean (P : List (Vec3 α)) (h : P ≠ []) :
    Vec3.sub (Model.vsum P) (Vec3.smul ((P.length : Nat) : α) (Model.mean P)) = Vec3.zero := by
  have hn : ((P.length : Nat) : α) ≠ 0 := natCast_ne_zero (by simpa using h)
  ext <;> simp only [Vec3.sub, Vec3.smul, Model.mean, Vec3.zero] <;> field_simp <;> ring

theorem mulVec_zero (R : Mat3 α) : R.mulVec Vec3.zero = Vec3.zero := by
  ext <;> simp [mulVec, Vec3.zero]

theorem dot_zero_right (w : Vec3 α) : Vec3.dot w (Vec3.sub Vec3.zero Vec3.zero) = 0 := by
  simp [Vec3.dot, Vec3.sub, Vec3.zero]

/-- any motion: deviation = residual of its rotation on the centred sets + `n‖w‖²` -/
theorem resid_centred (m : Motion α) (P Q : List (Vec3 α)) (hlen : P.length = Q.length) (hP : P ≠ []) :
    resid m.apply P Q = resid m.R.mulVec (centred P) (centred Q)
      + ((P.length : Nat) : α) * Vec3.normSq (Vec3.sub (Vec3.add (m.R.mulVec (Model.mean P)) m.t) (Model.mean Q)) := by
  have hQ : Q ≠ [] := by
    intro hq; rw [hq] at hlen; simp at hlen; exact hP hlen
  rw [resid_split m (Model.mean P) (Model.mean Q) P Q hlen, vsum_sub_mean P hP, vsum_sub_mean Q hQ, mulVec_zero, dot_zero_right]
  simp [centred]

theorem normSq_nonneg (v : Vec3 α) : 0 ≤ Vec3.normSq v := by
  simp only [Vec3.normSq, Vec3.dot]
  nlinarith [mul_self_nonneg v.x, mul_self_nonneg v.y, mul_self_nonneg v.z]

/-- the model's motion has no offset -/
theorem motionOf_offset (R : Mat3 α) (P Q : List (Vec3 α)) :
    Vec3.sub (Vec3.add ((motionOf R P Q).R.mulVec (Model.mean P)) (motionOf R P Q).t) (Model.mean Q) = Vec3.zero := by
  ext <;> simp only [motionOf, Vec3.sub, Vec3.add, Vec3.zero] <;> ring

theorem normSq_zero : Vec3.normSq (Vec3.zero : Vec3 α) = 0 := by simp [Vec3.normSq, Vec3.dot, Vec3.zero]

theorem resid_motionOf (R : Mat3 α) (P Q : List (Vec3 α)) (hlen : P.length = Q.length) (hP : P ≠ []) :
    resid (motionOf R P Q).apply P Q = sqResidual R (centred P) (centred Q) := by
  rw [resid_centred _ P Q hlen hP, motionOf_offset, normSq_zero, mul_zero, add_zero, sqResidual_eq_resid]
  rfl

/-- **optimal rotation on the centred sets ⇒ optimal rigid motion on the sets** -/
theorem optimalOn_of_optimalRotation {R : Mat3 α} {P Q : List (Vec3 α)} (hlen : P.length = Q.length) (hP : P ≠ [])
    (hopt : OptimalRotation R (centred P) (centred Q)) : OptimalOn (motionOf R P Q) (P.zip Q) := by
  refine ⟨hopt.1, fun m' hm' => ?_⟩
  rw [sqDev_moved_zip, sqDev_moved_zip, resid_motionOf R P Q hlen hP, resid_centred m' P Q hlen hP]
  have h1 := hopt.2 m'.R hm'
  rw [sqResidual_eq_resid m'.R] at h1
  have h2 : 0 ≤ ((P.length : Nat) : α) * Vec3.normSq (Vec3.sub (Vec3.add (m'.R.mulVec (Model.mean P)) m'.t) (Model.mean Q)) :=
    mul_nonneg (Nat.cast_nonneg _) (normSq_nonneg _)
  linarith

end Proofs.SupCore
