/-
  Tie #1 for the quaternion kernel and the `method` dispatch of superpose.py: the definitions py/translate_ext_sup.py generates from
  the current source (`GenSup.get_rotation_matrix_quaternion`, `GenSup.get_rotation_matrix`, Gen/Sup.lean) are proved equal to the
  hand models `Model.quaternion` / `Model.getRotationMatrix` (Model/Superpose.lean) the C06 theorems are about, for every input
  (error branches inside the equations; `np.linalg.eigh` a parameter: `l, U` as the model's pairs `(l[k], U[:, k])`).
  One normal-form lemma per unit (`quaternion_nf`, `gensup_get_rotation_matrix_dispatch`); nothing quotes generated text.
-/
import Mathlib.Tactic.SplitIfs
import PdbVerif.Proofs.GenSupWorld
import PdbVerif.Proofs.GenKernels
import PdbVerif.Props.C06

set_option linter.unusedSectionVars false
set_option linter.unusedVariables false
set_option linter.unusedSimpArgs false

namespace Proofs.SupTie
open Py Model Proofs.GenSupWorld Proofs.GenKernels

section numeric
variable {α : Type} [Add α] [Sub α] [Mul α] [Neg α] [Div α] [NatCast α] [OfNat α 0] [OfNat α 1] [OfNat α 2]
  [LT α] [DecidableLT α]

/-- `np.argmax` of the four eigenvalues: the model's list scan is the runtime's comparison cascade -/
theorem argmax_eq_argmax4 (l : Vec4 α) : argmax [l.w, l.x, l.y, l.z] = GenSup.Rt.argmax4 l := by
  simp only [argmax, argmaxFrom, GenSup.Rt.argmax4]
  split_ifs <;> rfl

theorem argmax4_lt (l : Vec4 α) : GenSup.Rt.argmax4 l = 0 ∨ GenSup.Rt.argmax4 l = 1 ∨ GenSup.Rt.argmax4 l = 2 ∨ GenSup.Rt.argmax4 l = 3 := by
  simp only [GenSup.Rt.argmax4]
  split_ifs <;> simp

/-- the column the model picks from the pairs is the column `argmax4` of `U` -/
theorem eigPairs_pick (eigh : Mat4 α → Vec4 α × Mat4 α) (F : Mat4 α) :
    (eigPairs eigh F)[argmax ((eigPairs eigh F).map Prod.fst)]? =
      some (match GenSup.Rt.argmax4 (eigh F).1 with
            | 0 => (eigh F).1.w | 1 => (eigh F).1.x | 2 => (eigh F).1.y | _ => (eigh F).1.z,
            GenSup.Rt.col4 (eigh F).2 (GenSup.Rt.argmax4 (eigh F).1)) := by
  simp only [eigPairs, List.map_cons, List.map_nil, argmax_eq_argmax4]
  rcases argmax4_lt (eigh F).1 with h | h | h | h <;> rw [h] <;> rfl

/-- normal form of the generated quaternion kernel: guards, `R = PᵀQ`, the key matrix, `eigh`, `argmax`, the column, the rotation -/
theorem quaternion_nf (eigh : Mat4 α → Vec4 α × Mat4 α) (eps : α) (P Q : List (Vec3 α)) :
    GenSup.get_rotation_matrix_quaternion eigh eps P Q =
      if P.length ≠ Q.length then .error .valueError
      else if uncentred eps P || uncentred eps Q then .error .valueError
      else
        let q := GenSup.Rt.col4 (eigh (Gen.quat_F (dotPtQ P Q))).2 (GenSup.Rt.argmax4 (eigh (Gen.quat_F (dotPtQ P Q))).1)
        .ok (Gen.quat_rot q.w q.x q.y q.z) := by
  simp only [GenSup.get_rotation_matrix_quaternion, Np.shape, np_uncentred, Np.dotTP, Np.T, np_outerSum]
  rfl

theorem gensup_quaternion_eq_model (eigh : Mat4 α → Vec4 α × Mat4 α) (eps : α) (P Q : List (Vec3 α)) (hP : P.length ≠ 0) :
    GenSup.get_rotation_matrix_quaternion eigh eps P Q = Model.quaternion (eigPairs eigh) eps P Q := by
  rw [quaternion_nf]
  simp only [Model.quaternion, guards, eigPairs_pick]
  by_cases hn : P.length = Q.length
  · simp only [hn, ne_eq, not_true_eq_false, if_false]
    rw [← hn]
    simp only [hP, if_false]
    cases hu : (uncentred eps P || uncentred eps Q) <;> simp
  · simp only [hn, ne_eq, not_false_eq_true, if_true]


/-! ### the dispatch -/

theorem gensup_get_rotation_matrix_dispatch (kab quat : List (Vec3 α) → List (Vec3 α) → Except Err (Mat3 α))
    (p q : List (Vec3 α)) (method : String) :
    GenSup.get_rotation_matrix kab quat p q method =
      match methodOf method with
      | some .svd => kab p q
      | some .quaternion => quat p q
      | none => .error .valueError := by
  simp only [GenSup.get_rotation_matrix, methodOf]
  by_cases h1 : method.toLower = "svd"
  · simp only [h1, if_true]; cases kab p q <;> rfl
  · by_cases h2 : method.toLower = "quaternion"
    · simp only [h1, h2, if_false, if_true]; cases quat p q <;> rfl
    · simp only [h1, h2, if_false]

theorem gensup_quaternion_lits : GenSup.get_rotation_matrix_quaternion_lits = [Gen.quat_eps] := rfl


end numeric

/-! ### the dispatch with the translated kernels behind it = the model's dispatch -/
section ordered
variable {α : Type} [Add α] [Sub α] [Mul α] [Neg α] [Div α] [NatCast α] [OfNat α 0] [OfNat α 1] [OfNat α 2]
  [LT α] [DecidableLT α]

/-- `get_rotation_matrix(P, Q, method)` with the two translated kernels (`GenK.get_rotation_matrix_Kabsh`,
    `GenSup.get_rotation_matrix_quaternion`) is `Model.getRotationMatrix` (non-empty point set: the model reports the empty one
    as outside the property) -/
theorem gensup_get_rotation_matrix_eq_model (svd : Mat3 α → Mat3 α × Vec3 α × Mat3 α) (eigh : Mat4 α → Vec4 α × Mat4 α)
    (keps qeps : α) (P Q : List (Vec3 α)) (method : String) (hP : P.length ≠ 0) :
    GenSup.get_rotation_matrix (GenK.get_rotation_matrix_Kabsh svd keps) (GenSup.get_rotation_matrix_quaternion eigh qeps) P Q method =
      Model.getRotationMatrix svd (eigPairs eigh) keps qeps (methodOf method) P Q := by
  rw [gensup_get_rotation_matrix_dispatch]
  cases methodOf method with
  | none => rfl
  | some m =>
    cases m
    · exact genk_get_rotation_matrix_Kabsh_eq_model svd keps P Q hP
    · exact gensup_quaternion_eq_model eigh qeps P Q hP

end ordered

/-! ### transfer: the C06 theorems, restated about the generated quaternion kernel -/
section transfer
open Spec Proofs.Guards

/-- C06 *proper*, about the generated `get_rotation_matrix_quaternion` -/
theorem gensup_quaternion_proper {α : Type} [Field α] [LinearOrder α] [IsStrictOrderedRing α]
    (eigh : Mat4 α → Vec4 α × Mat4 α) (eps : α) (P Q : List (Vec3 α)) (U : Mat3 α)
    (hP : P.length ≠ 0) (heig : EigOK (eigPairs eigh) P Q) (h : GenSup.get_rotation_matrix_quaternion eigh eps P Q = .ok U) :
    IsRotation U :=
  Props.C06.quaternion_proper (eigPairs eigh) eps P Q U heig (gensup_quaternion_eq_model eigh eps P Q hP ▸ h)

/-- C06 *optimal* (over ℝ), about the generated `get_rotation_matrix_quaternion` -/
theorem gensup_quaternion_optimal (eigh : Mat4 ℝ → Vec4 ℝ × Mat4 ℝ) (eps : ℝ) (P Q : List (Vec3 ℝ)) (U : Mat3 ℝ)
    (hP : P.length ≠ 0) (heig : EigOK (eigPairs eigh) P Q) (h : GenSup.get_rotation_matrix_quaternion eigh eps P Q = .ok U) :
    OptimalRotation U P Q :=
  Props.C06.quat_optimal (eigPairs eigh) eps P Q U heig (gensup_quaternion_eq_model eigh eps P Q hP ▸ h)

end transfer

end Proofs.SupTie
