/-
  Tie #1 for `superpose.get_intersection` and the lemmas about the runtime of Gen/Sup.lean that the `superpose()` equality
  (Proofs/GenSup.lean) uses: keyword dictionaries (`kwargs['name'] = ...`), the table accessor, `update('x,y,z', .)` on all rows,
  `rstrip('.pdb')`.  `gensup_get_intersection_eq_model`: the generated function, run in the world of the hand model's own
  many2sql steps (Proofs/GenSupWorld.lean), IS `Model.SupDb.getIntersection` — same pairs, same errors in the same order.
-/
import Mathlib.Tactic.SplitIfs
import PdbVerif.Proofs.GenSupWorld
import PdbVerif.Proofs.GenKernels
import PdbVerif.Proofs.SuperposeDb

set_option linter.unusedSectionVars false
set_option linter.unusedVariables false
set_option linter.unusedSimpArgs false

namespace Proofs.SupTie
open Py Model Proofs.GenSupWorld Proofs.GenKernels GenSup

/-! ### get_intersection -/

theorem npArrayXYZ_triple (l : List (Vec3 Rat)) : GenSup.Rt.npArrayXYZ (l.map triple) = l := by
  simp only [GenSup.Rt.npArrayXYZ, List.map_map]
  conv_rhs => rw [← List.map_id l]
  apply List.map_congr_left
  intro v _
  rfl

theorem npArrayXYZ_fst (j : List (Vec3 Rat × Vec3 Rat)) :
    GenSup.Rt.npArrayXYZ (j.map (fun p => triple p.1)) = j.map (·.1) := by
  simp only [GenSup.Rt.npArrayXYZ, List.map_map]; rfl

theorem npArrayXYZ_snd (j : List (Vec3 Rat × Vec3 Rat)) :
    GenSup.Rt.npArrayXYZ (j.map (fun p => triple p.2)) = j.map (·.2) := by
  simp only [GenSup.Rt.npArrayXYZ, List.map_map]; rfl

theorem except_map_eq_bind {ε β γ : Type} (f : β → γ) (x : Except ε β) : x.map f = x >>= (fun b => pure (f b)) := by
  cases x <;> rfl

theorem ok_bind {ε β γ : Type} (a : β) (f : β → Except ε γ) : ((Except.ok a : Except ε β) >>= f) = f a := rfl
theorem error_bind {ε β γ : Type} (e : ε) (f : β → Except ε γ) : ((Except.error e : Except ε β) >>= f) = .error e := rfl

theorem gensup_get_intersection_eq_model (db1 db2 : GenSup.Rt.Db) (kw : GenSup.Rt.Kwargs) :
    GenSup.get_intersection many2sql many2sqlCall many2sqlGetIntersection db1 db2 kw =
      (SupDb.getIntersection db1.rows db2.rows (GenSup.Rt.kwTest kw)).map
        (fun pairs => (pairs.map (·.1), pairs.map (·.2))) := by
  simp only [except_map_eq_bind, GenSup.get_intersection, SupDb.getIntersection, GenSup.Rt.sql2pdb, many2sql, many2sqlCall,
    many2sqlGetIntersection, SupDb.sql2pdb, List.mapM_cons, List.mapM_nil, bind_assoc, pure_bind, ne_eq, not_true_eq_false,
    if_false, Py.Rt.getItem, ok_bind, List.getElem?_cons_zero, List.getElem?_cons_succ, npArrayXYZ_fst, npArrayXYZ_snd]


/-! ### runtime lemmas -/

theorem rstripChars_pdb (s : Str) : GenSup.Rt.rstripChars s (['.', 'p', 'd', 'b'] : Str) = SupDb.rstripPdb s := by
  simp only [GenSup.Rt.rstripChars, SupDb.rstripPdb]
  congr 2
  funext c
  simp [List.mem_cons, Bool.or_assoc]

/-- `kwargs[k] = v` on a dictionary without the key `k` adds the condition of `k` -/
theorem kwTest_setItem (kw : Rt.Kwargs) (k : Str) (v : List Val) (a : Atom) (h : Py.Dict.contains kw k = false) :
    Rt.kwTest (Py.Dict.setItem kw k v) a = (Rt.kwTest kw a && Rt.kwHolds k v a) := by
  induction kw with
  | nil => simp [Py.Dict.setItem, Rt.kwTest]
  | cons p kw ih =>
    obtain ⟨k', v'⟩ := p
    simp only [Py.Dict.contains] at h
    by_cases hk : k' = k
    · simp [hk] at h
    · simp only [hk, if_false] at h
      have := ih h
      simp only [Rt.kwTest] at this ⊢
      simp only [Py.Dict.setItem, hk, if_false, List.all_cons, this, Bool.and_assoc]

theorem kwCheck_setItem (kw : Rt.Kwargs) (k : Str) (v : List Val) (h : Rt.kwCheck kw = .ok ())
    (hk : Rt.kwCheck [(k, v)] = .ok ()) : Rt.kwCheck (Py.Dict.setItem kw k v) = .ok () := by
  induction kw with
  | nil => simpa [Py.Dict.setItem] using hk
  | cons p kw ih =>
    obtain ⟨k', v'⟩ := p
    simp only [Rt.kwCheck] at h
    split_ifs at h with h1 h2
    by_cases hkk : k' = k
    · subst hkk; simp [Py.Dict.setItem, Rt.kwCheck, h1, h2, h]
    · simp [Py.Dict.setItem, hkk, Rt.kwCheck, h1, h2, ih h]

theorem kwHolds_name (bb : List Str) (a : Atom) :
    Rt.kwHolds (['n', 'a', 'm', 'e'] : Str) (Rt.kwStrs bb) a = decide (a.name ∈ bb) := by
  have h1 : Rt.stripNo (['n', 'a', 'm', 'e'] : Str) = (false, (['n', 'a', 'm', 'e'] : Str)) := by decide
  have h2 : Rt.cell (['n', 'a', 'm', 'e'] : Str) a = some (.text a.name) := by
    simp [Rt.cell]
  simp only [Rt.kwHolds, h1, h2, Rt.kwStrs, Bool.false_eq_true, if_false]
  congr 1
  simp

theorem kwCheck_name (v : List Val) : Rt.kwCheck [((['n', 'a', 'm', 'e'] : Str), v)] = .ok () := by
  simp only [Rt.kwCheck]
  decide


/-! ### tables -/

theorem zipIdx_filter_fst (p : Atom → Bool) (t : List Atom) (k : Nat) :
    ((t.zipIdx k).filter (fun r => p r.1)).map Prod.fst = t.filter p := by
  induction t generalizing k with
  | nil => rfl
  | cons a t ih =>
    simp only [List.zipIdx_cons, List.filter_cons]
    cases p a <;> simp [ih]

theorem zipIdx_map_fst' (t : List Atom) (k : Nat) : (t.zipIdx k).map Prod.fst = t := by
  induction t generalizing k with
  | nil => rfl
  | cons a t ih => simp [List.zipIdx_cons, ih]

theorem getFrom_all_length (db : List Atom) (i : Nat) : (getFrom (fun _ _ => true) i db).length = db.length := by
  induction db generalizing i with
  | nil => rfl
  | cons a db ih => simp [getFrom, ih]

theorem updFrom_all (db : List Atom) (vals : List (Vec3 Rat)) (i : Nat) (h : vals.length = db.length) :
    updFrom (fun _ _ => true) i db vals = (db.zip vals).map (fun p => SupDb.setPos p.1 p.2) := by
  induction db generalizing i vals with
  | nil => rfl
  | cons a db ih =>
    cases vals with
    | nil => simp at h
    | cons v vals =>
      simp only [List.length_cons, Nat.add_right_cancel_iff] at h
      simp only [updFrom, if_true, ih vals (i + 1) h, List.zip_cons_cons, List.map_cons]
      rfl

theorem updateXYZ_all (db : List Atom) (vals : List (Vec3 Rat)) (h : vals.length = db.length) (hne : db ≠ []) :
    Model.updateXYZ (fun _ _ => true) vals db = .ok ((db.zip vals).map (fun p => SupDb.setPos p.1 p.2)) := by
  have h1 : db.length ≠ 0 := fun e => hne (List.length_eq_zero_iff.mp e)
  have h0 : vals.length ≠ 0 := by rw [h]; exact h1
  simp only [Model.updateXYZ, h0, if_false, getXYZ, getFrom_all_length, h, ne_eq, not_true_eq_false, updFrom_all db vals 0 h]
  simp only [h1, if_false]

theorem superposeSelection_length {k : List (Vec3 Rat) → List (Vec3 Rat) → Except Err (Mat3 Rat)} {X P Q Y : List (Vec3 Rat)}
    (h : superposeSelection k X P Q = .ok Y) : Y.length = X.length := by
  simp only [superposeSelection] at h
  split at h
  · cases h
  · cases h; simp [rotateAbout]


end Proofs.SupTie
