/-
  The translated `compute_clashes` and `compute_fnat_pdb2sql` (Gen/Sim.lean: `GenS.*`, regenerated from StructureSimilarity.py on every
  run by py/translate_ext_sim.py) ARE the hand models `Model.Fnat.clashes` / `Model.Fnat.fnatSql` (Model/Fnat.lean) — for every
  table, cutoff and chain pair, error branches inside the equation.  The generated functions call the translated contact routines
  `GenC.get_contact_atoms` / `GenC.get_contact_residues`; their equality with the contact model is Proofs/GenContacts.lean.  The
  iteration order of Python sets is a parameter (`ord`), any permutation qualifies (`OrderOK`).
-/
import PdbVerif.Proofs.GenContacts
import PdbVerif.Proofs.GenRmsdFnat
import PdbVerif.Gen.Sim

set_option linter.unusedVariables false
set_option linter.unusedSimpArgs false

namespace Proofs.GenSim
open Py Model Proofs.GenRmsd
open Proofs.GenContacts (SetOrderOK setOrderOK_of_perm genc_get_contact_atoms_eq_model genc_get_contact_residues_eq_model outSum)

/-- an admissible iteration order of Python sets, at every element type: `list(s)` is a permutation of `s` -/
def OrderOK (ord : ∀ {α : Type}, List α → List α) : Prop := ∀ (α : Type) (l : List α), (@ord α l).Perm l

theorem orderOK_id : OrderOK (fun {α} l => l) := fun _ l => List.Perm.refl l
theorem orderOK_reverse : OrderOK (fun {α} l => l.reverse) := fun _ l => List.reverse_perm l

theorem OrderOK.setOrderOK {ord : ∀ {α : Type}, List α → List α} (h : OrderOK ord) : SetOrderOK (@ord _) :=
  setOrderOK_of_perm _ (h _)

theorem foldlM_len (d : List (Nat × List Nat)) (n : Nat) :
    List.foldlM (fun (acc : Nat) (v : List Nat) => (Except.ok (acc + v.length) : Except Err Nat)) n (Py.Dict.values d)
      = Except.ok (d.foldl (fun n e => n + e.2.length) n) := by
  rw [foldlM_pure]
  simp [Py.Dict.values, List.foldl_map]

theorem gens_compute_clashes_eq_model (ord : ∀ {α : Type}, List α → List α) (hord : OrderOK ord)
    (p2s : Str → Except Err (List Atom)) (pdb chain1 chain2 : Str) :
    GenS.compute_clashes ord p2s pdb chain1 chain2 = p2s pdb >>= fun t => Model.Fnat.clashes t chain1 chain2 := by
  unfold GenS.compute_clashes
  apply bind_congr'; intro t
  have h := genc_get_contact_atoms_eq_model (@ord _) hord.setOrderOK t (Model.Fnat.clashArgs chain1 chain2)
  simp only [Model.Fnat.clashArgs, Gen.clash_cutoff, Gen.clash_excludeH, Gen.clash_return_pairs] at h
  dsimp only
  rw [h]
  simp only [Model.Fnat.clashes, Model.Fnat.clashArgs, Gen.clash_cutoff, Gen.clash_excludeH, Gen.clash_return_pairs,
    Model.contactAtoms, Model.contactPairs]
  cases hr : Model.contactRun t _ with
  | error e => rfl
  | ok r =>
    simp only [Except.map, outSum, Py.Rt.asLeft, ok_bind, pure_eq_ok, if_true, bind_assoc, bind_ok_eq]
    exact foldlM_len r.2 0


/-! ### `compute_fnat_pdb2sql` -/

theorem foldlM_flatten (d : List (ResKey × List ResKey)) :
    List.foldlM (fun (acc : List (ResKey × ResKey)) (it : ResKey × List ResKey) =>
        (Except.ok (acc ++ it.2.map (fun e => (it.1, e))) : Except Err _)) [] (Py.Dict.items d)
      = Except.ok (Model.Fnat.flattenPairs d) := by
  rw [foldlM_pure, Py.Dict.items, Proofs.GenContacts.foldl_append_flatMap]
  simp [Model.Fnat.flattenPairs]

theorem nCommon_eq (ref dec : List (ResKey × ResKey)) :
    (GenR.Rt2.setInter (Py.Rt.set ref) dec).length = Model.Fnat.nCommonSql ref dec := by
  simp only [GenR.Rt2.setInter, Model.Fnat.nCommonSql, Proofs.GenContacts.set_eq, List.contains_eq_mem]
  congr 2
  funext p
  exact decide_eq_decide.mpr Iff.rfl

theorem divNat_round (a b : Nat) :
    (GenS.Rt3.divNat a b >>= fun q => (Except.ok (Py.round q 6) : Except Err Rat)) = Model.Fnat.ratio (a, b) := by
  unfold GenS.Rt3.divNat Model.Fnat.ratio
  by_cases h : b = 0 <;> simp [h, ok_bind, error_bind, throw_eq_error, pure_eq_ok]

/-- the part of `compute_fnat_pdb2sql` after the two tables were built (`interface(file, fix_chainID=True)`) -/
theorem gens_fnat_pdb2sql_core (ord : ∀ {α : Type}, List α → List α) (hord : OrderOK ord)
    (p2s : Str → Except Err (List Atom)) (decoy ref : Str) (cutoff : Rat) (td tr : List Atom)
    (hd : p2s decoy = .ok td) (hr : p2s ref = .ok tr) :
    GenS.compute_fnat_pdb2sql ord p2s Model.Fnat.fixChainID decoy ref cutoff = Model.Fnat.fnatSql tr td cutoff := by
  unfold GenS.compute_fnat_pdb2sql Model.Fnat.fnatSql
  simp only [hd, hr, ok_bind]
  apply bind_congr'; intro sd
  apply bind_congr'; intro sr
  rw [Proofs.GenContacts.get_chains_eq_model]
  rcases hch : getChains sr with _ | ⟨c0, _ | ⟨c1, _ | ⟨c2, rest⟩⟩⟩
  · simp [throw_eq_error]
  · simp [throw_eq_error]
  · have h1 := genc_get_contact_residues_eq_model (@ord _) hord.setOrderOK sd (Model.Fnat.pairArgs cutoff c0 c1)
    have h2 := genc_get_contact_residues_eq_model (@ord _) hord.setOrderOK sr (Model.Fnat.pairArgs cutoff c0 c1)
    simp only [Model.Fnat.pairArgs, Gen.fnat_ref_excludeH, Gen.fnat_ref_only_backbone, if_true] at h1 h2
    simp only [List.length_cons, List.length_nil, ne_eq, decide_not, Nat.reduceAdd, decide_true, Bool.not_true,
      Bool.false_eq_true, if_false, (getItem_two c0 c1).1, (getItem_two c0 c1).2, ok_bind, pure_eq_ok, h1, h2,
      Model.Fnat.pairArgs, Gen.fnat_ref_excludeH, Gen.fnat_ref_only_backbone]
    cases hpd : contactResiduePairs sd _ with
    | error e => rfl
    | ok pd =>
      simp only [Except.map, ok_bind, Py.Rt.asLeft]
      cases hpr : contactResiduePairs sr _ with
      | error e => rfl
      | ok pr =>
        simp only [Except.map, ok_bind, Py.Rt.asLeft, foldlM_flatten, nCommon_eq, bind_assoc]
        exact divNat_round _ _
  · simp [throw_eq_error]

/-- a decoy file that does not parse: the parser's exception is the routine's -/
theorem gens_fnat_pdb2sql_decoy_error (ord : ∀ {α : Type}, List α → List α) (p2s : Str → Except Err (List Atom))
    (fix : List Atom → Except Err (List Atom)) (decoy ref : Str) (cutoff : Rat) (e : Err) (hd : p2s decoy = .error e) :
    GenS.compute_fnat_pdb2sql ord p2s fix decoy ref cutoff = .error e := by
  unfold GenS.compute_fnat_pdb2sql
  simp only [hd, error_bind]

end Proofs.GenSim
