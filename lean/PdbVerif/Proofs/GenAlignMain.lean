/-
  Tie #1 for align.py, main statements: the generated `GenA.align`, `GenA.align_interface`, `GenA.align_pca_vect`,
  `GenA.get_max_pca_vect`, `GenA.get_min_pca_vect`, `GenA.export_aligned` (Gen/Align.lean, regenerated from the source on every
  run) ARE the composition of the hand models the C18 theorems are stated about - `Model.getXYZ` (the selection), the contract
  functions `cov` / `eigh`, `Model.argmax` (first maximal eigenvalue) / first minimal eigenvalue, `Model.alignPcaVect`
  (rotations read from `_align_along_axis`, `Model.updateXYZ`), `Model.planeAxis`, `Model.contactAtoms`, the export name with
  `Model.SupDb.rstripPdb` - for EVERY object, argument, selection, axis / plane string, export flag, eigen-solver output and
  set-iteration order, error branches inside the equations.  Built on the normal forms of GenAlign.lean only.
  Then the C18 database statement (`Props.C18.only_xyz_changes`) and "no file unless export" transferred to the generated code.
-/
import PdbVerif.Proofs.GenAlign
import PdbVerif.Proofs.GenContacts
import PdbVerif.Props.C18

set_option linter.unusedSectionVars false
set_option linter.unusedVariables false
set_option linter.unusedSimpArgs false
set_option linter.unusedTactic false
set_option linter.unreachableTactic false
set_option linter.style.nameCheck false

namespace Proofs.GenAlign
open Py Model GenA

/-! ### the hand model of the whole calls, composed of Model functions -/

/-- `if not isinstance(pdb, pdb2sql): sql = pdb2sql(pdb) else: sql = pdb` (the same for `interface`) -/
def openDb {σ : Type} (cast : σ → Option Rt.Db) (ctor : σ → Except Err Rt.Db) (pdb : σ) : Except Err Rt.Db :=
  match cast pdb with
  | some d => .ok d
  | none => ctor pdb

/-- `get_max_pca_vect` / `get_min_pca_vect` with the index selection `pick`: `ValueError` on an empty selection (`np.mean(mat.T, axis=1)`
    of `np.array([])`), then the contracts `cov`, `eigh` (which may raise: `LinAlgError` is a `ValueError`), then the column -/
def pcaVect {α : Type} [Add α] [Sub α] [Mul α] [Neg α] [Div α] [NatCast α] [OfNat α 0] [OfNat α 1] [OfNat α 2]
    (cov : Np.PointsT α → Except Err (Mat3 α)) (eigh : Mat3 α → Except Err (Vec3 α × Mat3 α)) (pick : Vec3 α → Nat)
    (X : List (Vec3 α)) : Except Err (Vec3 α) :=
  if X = [] then .error .valueError
  else cov (scat X) >>= fun C => eigh C >>= fun p => Rt.col p.2 (pick p.1)

/-- what the call returns and writes once the table `t` has been computed -/
def finish (sql : Rt.Db) (export_ : Bool) (t : List Atom) : Rt.Db × List Rt.FileEffect :=
  (withAtoms sql t, if export_ then [(exportName sql.pdbfile, t)] else [])

/-- `align_pca_vect(sql, v, axis)` followed by `if export: export_aligned(sql)`: `Model.alignPcaVect` on the table -/
def alignCore (norm : Vec3 Rat → Rat) (arctan2 : Rat → Rat → Rat) (arccos cos sin : Rat → Rat) (sql : Rt.Db) (v : Vec3 Rat)
    (axis : String) (export_ : Bool) : Except Err (Rt.Db × List Rt.FileEffect) :=
  (alignPcaVect (cos (phiOf arctan2 v)) (sin (phiOf arctan2 v)) (cos (thetaOf norm arccos v)) (sin (thetaOf norm arccos v))
    axis sql.atoms).map (finish sql export_)

/-- `align(sql, axis, export, **kwargs)` on an object -/
def alignModelDb (cov : Np.PointsT Rat → Except Err (Mat3 Rat)) (eigh : Mat3 Rat → Except Err (Vec3 Rat × Mat3 Rat))
    (norm : Vec3 Rat → Rat) (arctan2 : Rat → Rat → Rat) (arccos cos sin : Rat → Rat) (sel : Sel) (sql : Rt.Db) (axis : String)
    (export_ : Bool) : Except Err (Rt.Db × List Rt.FileEffect) :=
  pcaVect cov eigh (fun u => Model.argmax [u.x, u.y, u.z]) (getXYZ sel sql.atoms) >>= fun v =>
    alignCore norm arctan2 arccos cos sin sql v axis export_

/-- the keyword arguments as the model's record -/
def kwArgs (k : Rt.ContactKw) : ContactArgs :=
  ⟨k.cutoff, k.allchains, k.chain1, k.chain2, k.extend_to_residue, k.only_backbone_atoms, k.excludeH, k.return_contact_pairs⟩

/-- `for _, v in index_contact.items(): row_id += v` -/
def rowIds (out : ContactOut) : List Nat :=
  match out with
  | .pairs d => (d.map (·.2)).flatten
  | .chains d => (d.map (·.2)).flatten

/-- `dict_plane[plane]` -/
def planeAxisE (plane : String) : Except Err String :=
  match planeAxis plane with
  | some a => .ok a
  | none => .error .keyError

/-- `align_interface(sql, plane, export, **kwargs)` on an object -/
def alignInterfaceModelDb (cov : Np.PointsT Rat → Except Err (Mat3 Rat)) (eigh : Mat3 Rat → Except Err (Vec3 Rat × Mat3 Rat))
    (norm : Vec3 Rat → Rat) (arctan2 : Rat → Rat → Rat) (arccos cos sin : Rat → Rat) (sql : Rt.Db) (plane : String)
    (export_ : Bool) (kw : Rt.ContactKw) : Except Err (Rt.Db × List Rt.FileEffect) :=
  Model.contactAtoms sql.atoms (kwArgs kw) >>= fun out =>
    pcaVect cov eigh Rt.argmin3 (getXYZ (fun i _ => decide (i ∈ rowIds out)) sql.atoms) >>= fun v =>
      planeAxisE plane >>= fun axis => alignCore norm arctan2 arccos cos sin sql v axis export_

/-! ### equalities -/

section generic
variable {α : Type} [Add α] [Sub α] [Mul α] [Neg α] [Div α] [NatCast α] [OfNat α 0] [OfNat α 1] [OfNat α 2] [LT α] [DecidableLT α]

/-- `get_max_pca_vect(xyz)` = the column of the first maximal eigenvalue (`Model.argmax`) of `eigh(cov(scat))` -/
theorem gena_get_max_pca_vect_eq_model (cov : Np.PointsT α → Except Err (Mat3 α)) (eigh : Mat3 α → Except Err (Vec3 α × Mat3 α))
    (X : List (Vec3 α)) :
    GenA.get_max_pca_vect cov eigh X = pcaVect cov eigh (fun u => Model.argmax [u.x, u.y, u.z]) X := by
  rw [gena_get_max_pca_vect_nf, gena_pca_nf, pcaVect]
  by_cases hX : X = []
  · simp only [hX, if_true]; rfl
  · simp only [hX, if_false]
    cases cov (scat X) with
    | error e => rfl
    | ok C => simp only [bind_ok]

/-- `get_min_pca_vect(xyz)` = the column of the first minimal eigenvalue of `eigh(cov(scat))` -/
theorem gena_get_min_pca_vect_eq_model (cov : Np.PointsT α → Except Err (Mat3 α)) (eigh : Mat3 α → Except Err (Vec3 α × Mat3 α))
    (X : List (Vec3 α)) :
    GenA.get_min_pca_vect cov eigh X = pcaVect cov eigh Rt.argmin3 X := by
  rw [gena_get_min_pca_vect_nf, gena_pca_nf, pcaVect]
  by_cases hX : X = []
  · simp only [hX, if_true]; rfl
  · simp only [hX, if_false]
    cases cov (scat X) with
    | error e => rfl
    | ok C => simp only [bind_ok]

end generic

section selection
variable {α : Type} [LinearOrder α] [Add α] [Sub α] [Mul α] [Neg α] [Div α] [NatCast α] [OfNat α 0] [OfNat α 1] [OfNat α 2]

/-- **the vector `align` uses belongs to a LARGEST eigenvalue**: if `get_max_pca_vect` returns `w`, then `eigh` returned some
    `(u, V)` for the covariance of the centred selection, and `w` is the column `V[:, k]` of an index `k` with `u[j] ≤ u[k]` for all `j` -/
theorem gena_get_max_pca_vect_extreme (cov : Np.PointsT α → Except Err (Mat3 α)) (eigh : Mat3 α → Except Err (Vec3 α × Mat3 α))
    (X : List (Vec3 α)) (w : Vec3 α) (h : GenA.get_max_pca_vect cov eigh X = .ok w) :
    X ≠ [] ∧ ∃ C u V k, cov (scat X) = .ok C ∧ eigh C = .ok (u, V) ∧ k < 3 ∧ w = Mat3.col V k ∧
      u.x ≤ comp u k ∧ u.y ≤ comp u k ∧ u.z ≤ comp u k := by
  rw [gena_get_max_pca_vect_eq_model, pcaVect] at h
  by_cases hX : X = []
  · simp [hX] at h
  · refine ⟨hX, ?_⟩
    simp only [hX, if_false] at h
    cases hc : cov (scat X) with
    | error e => rw [hc] at h; cases h
    | ok C =>
      rw [hc] at h
      simp only [bind_ok] at h
      cases he : eigh C with
      | error e => rw [he] at h; cases h
      | ok p =>
        rw [he] at h
        simp only [bind_ok, ← argmax3_eq_model] at h
        obtain ⟨hk, h1, h2, h3⟩ := argmax3_max p.1
        rw [col_lt _ _ hk] at h
        cases h
        exact ⟨C, p.1, p.2, Rt.argmax3 p.1, rfl, he, hk, rfl, h1, h2, h3⟩

/-- **the vector `align_interface` uses belongs to a SMALLEST eigenvalue** -/
theorem gena_get_min_pca_vect_extreme (cov : Np.PointsT α → Except Err (Mat3 α)) (eigh : Mat3 α → Except Err (Vec3 α × Mat3 α))
    (X : List (Vec3 α)) (w : Vec3 α) (h : GenA.get_min_pca_vect cov eigh X = .ok w) :
    X ≠ [] ∧ ∃ C u V k, cov (scat X) = .ok C ∧ eigh C = .ok (u, V) ∧ k < 3 ∧ w = Mat3.col V k ∧
      comp u k ≤ u.x ∧ comp u k ≤ u.y ∧ comp u k ≤ u.z := by
  rw [gena_get_min_pca_vect_eq_model, pcaVect] at h
  by_cases hX : X = []
  · simp [hX] at h
  · refine ⟨hX, ?_⟩
    simp only [hX, if_false] at h
    cases hc : cov (scat X) with
    | error e => rw [hc] at h; cases h
    | ok C =>
      rw [hc] at h
      simp only [bind_ok] at h
      cases he : eigh C with
      | error e => rw [he] at h; cases h
      | ok p =>
        rw [he] at h
        simp only [bind_ok] at h
        obtain ⟨hk, h1, h2, h3⟩ := argmin3_min p.1
        rw [col_lt _ _ hk] at h
        cases h
        exact ⟨C, p.1, p.2, Rt.argmin3 p.1, rfl, he, hk, rfl, h1, h2, h3⟩

end selection

/-- `export_aligned(sql)`: one file `exportName sql.pdbfile` with the whole table -/
theorem gena_export_aligned_eq_model (sql : Rt.Db) :
    GenA.export_aligned sql = .ok ((), [(exportName sql.pdbfile, sql.atoms)]) := gena_export_aligned_nf sql

/-- `align_pca_vect(sql, v, axis)` = `Model.alignPcaVect` with the trig values of the extracted angles (non-empty structure) -/
theorem gena_align_pca_vect_eq_model {cos sin : Rat → Rat} {pi : Rat}
    (norm : Vec3 Rat → Rat) (arctan2 : Rat → Rat → Rat) (arccos : Rat → Rat) (sql : Rt.Db) (v : Vec3 Rat) (axis : String)
    (h : TrigAt cos sin pi (phiOf arctan2 v) (thetaOf norm arccos v)) (hne : sql.atoms ≠ []) :
    GenA.align_pca_vect norm arctan2 arccos cos sin pi sql v axis =
      (alignPcaVect (cos (phiOf arctan2 v)) (sin (phiOf arctan2 v)) (cos (thetaOf norm arccos v)) (sin (thetaOf norm arccos v))
        axis sql.atoms).map (withAtoms sql) := gena_align_pca_vect_nf norm arctan2 arccos sql v axis h hne

theorem getXYZ_nil (sel : Sel) : getXYZ sel [] = [] := rfl

/-- what is left of either call once the table has been selected and the vector `v` chosen: `alignCore` (closes the goal after the
    callees have been replaced by their normal forms; case analysis on the model's outcome and the flag, whatever the shape of the
    generated `if export`) -/
macro "finish_tail" : tactic =>
  `(tactic| (simp only [alignCore, map_eq_bind, bind_bind, bind_ok]
             refine bind_congr_ok (fun t _ => ?_)
             cases ‹Bool› <;>
               simp [bind_ok, pure_eq, gena_export_aligned_nf, finish, withAtoms]))

/-- **`align`** = open the object, select, `pcaVect` with `argmax`, `Model.alignPcaVect`, export — for every argument -/
theorem gena_align_eq_model {σ : Type} {cos sin : Rat → Rat} {pi : Rat}
    (cast : σ → Option Rt.Db) (ctor : σ → Except Err Rt.Db) (cov : Np.PointsT Rat → Except Err (Mat3 Rat))
    (eigh : Mat3 Rat → Except Err (Vec3 Rat × Mat3 Rat)) (norm : Vec3 Rat → Rat) (arctan2 : Rat → Rat → Rat) (arccos : Rat → Rat)
    (h : ∀ v, TrigAt cos sin pi (phiOf arctan2 v) (thetaOf norm arccos v))
    (pdb : σ) (axis : String) (export_ : Bool) (kwargs : Tbl.IRow → Bool) :
    GenA.align cast ctor cov eigh norm arctan2 arccos cos sin pi pdb axis export_ kwargs =
      openDb cast ctor pdb >>= fun sql => alignModelDb cov eigh norm arctan2 arccos cos sin (selOf kwargs) sql axis export_ := by
  have key : ∀ d : Rt.Db, ∀ v : Vec3 Rat,
      pcaVect cov eigh (fun u => Model.argmax [u.x, u.y, u.z]) (getXYZ (selOf kwargs) d.atoms) = .ok v → d.atoms ≠ [] := by
    intro d v hv h0
    rw [h0, getXYZ_nil, pcaVect] at hv
    simp at hv
  unfold GenA.align openDb
  cases cast pdb with
  | some d =>
    simp only [bind_ok, pure_eq, array3_select, gena_get_max_pca_vect_eq_model, alignModelDb]
    refine bind_congr_ok (fun v hv => ?_)
    simp only [bind_ok, bind_ok_eta, gena_align_pca_vect_nf norm arctan2 arccos d v axis (h v) (key d v hv)]
    finish_tail
  | none =>
    cases ctor pdb with
    | error e => rfl
    | ok d =>
      simp only [bind_ok, pure_eq, array3_select, gena_get_max_pca_vect_eq_model, alignModelDb]
      refine bind_congr_ok (fun v hv => ?_)
      simp only [bind_ok, bind_ok_eta, gena_align_pca_vect_nf norm arctan2 arccos d v axis (h v) (key d v hv)]
      finish_tail

/-- `dict_plane[plane]` is `Model.planeAxis` (KeyError outside xy, xz, yz) -/
theorem dict_plane_eq (plane : String) :
    Py.Dict.getItem ([("xy", "z"), ("xz", "y"), ("yz", "x")] : Py.Dict String String) plane = planeAxisE plane := by
  unfold planeAxisE planeAxis Py.Dict.getItem
  simp only [Py.Dict.get?]
  by_cases h1 : plane = "xy"
  · subst h1; rfl
  by_cases h2 : plane = "xz"
  · subst h2; rfl
  by_cases h3 : plane = "yz"
  · subst h3; rfl
  simp [h1, h2, h3, Ne.symm h1, Ne.symm h2, Ne.symm h3]

theorem sumValues_outSum (out : ContactOut) : (Rt.sumValues (Proofs.GenContacts.outSum out)).flatten = rowIds out := by
  cases out <;> rfl

/-- **`align_interface`** = open the object, `Model.contactAtoms`, select the contact rows, `pcaVect` with the first minimal
    eigenvalue, `Model.planeAxis`, `Model.alignPcaVect`, export — for every argument and every iteration order of the sets -/
theorem gena_align_interface_eq_model {σ : Type} {cos sin : Rat → Rat} {pi : Rat}
    (ord : List (Py.Str × Py.Str × Int) → List (Py.Str × Py.Str × Int)) (hord : Proofs.GenContacts.SetOrderOK ord)
    (cast : σ → Option Rt.Db) (ctor : σ → Except Err Rt.Db) (cov : Np.PointsT Rat → Except Err (Mat3 Rat))
    (eigh : Mat3 Rat → Except Err (Vec3 Rat × Mat3 Rat)) (norm : Vec3 Rat → Rat) (arctan2 : Rat → Rat → Rat) (arccos : Rat → Rat)
    (h : ∀ v, TrigAt cos sin pi (phiOf arctan2 v) (thetaOf norm arccos v))
    (ppi : σ) (plane : String) (export_ : Bool) (kw : Rt.ContactKw) :
    GenA.align_interface cast ctor ord cov eigh norm arctan2 arccos cos sin pi ppi plane export_ kw =
      openDb cast ctor ppi >>= fun sql => alignInterfaceModelDb cov eigh norm arctan2 arccos cos sin sql plane export_ kw := by
  have key : ∀ d : Rt.Db, ∀ S : Sel, ∀ v : Vec3 Rat, pcaVect cov eigh Rt.argmin3 (getXYZ S d.atoms) = .ok v → d.atoms ≠ [] := by
    intro d S v hv h0
    rw [h0, getXYZ_nil, pcaVect] at hv
    simp at hv
  have hc : ∀ d : Rt.Db, GenC.get_contact_atoms ord d.atoms kw.cutoff kw.allchains kw.chain1 kw.chain2 kw.extend_to_residue
      kw.only_backbone_atoms kw.excludeH kw.return_contact_pairs =
        Model.contactAtoms d.atoms (kwArgs kw) >>= fun out => .ok (Proofs.GenContacts.outSum out) := by
    intro d
    rw [← map_eq_bind]
    exact Proofs.GenContacts.genc_get_contact_atoms_eq_model ord hord d.atoms (kwArgs kw)
  have hsel : ∀ out : ContactOut, selOf (fun r => decide (r.2 ∈ rowIds out)) = (fun i _ => decide (i ∈ rowIds out)) := fun _ => rfl
  unfold GenA.align_interface openDb
  cases cast ppi with
  | some d =>
    simp only [bind_ok, pure_eq, hc, bind_bind, alignInterfaceModelDb]
    refine bind_congr_ok (fun out _ => ?_)
    simp only [bind_ok, foldlM_pure, foldl_append_flatten, List.nil_append, sumValues_outSum, array3_select,
      gena_get_min_pca_vect_eq_model, dict_plane_eq, hsel]
    refine bind_congr_ok (fun v hv => ?_)
    refine bind_congr_ok (fun axis _ => ?_)
    simp only [bind_ok, bind_ok_eta, gena_align_pca_vect_nf norm arctan2 arccos d v axis (h v) (key d _ v hv)]
    finish_tail
  | none =>
    cases ctor ppi with
    | error e => rfl
    | ok d =>
    simp only [bind_ok, pure_eq, hc, bind_bind, alignInterfaceModelDb]
    refine bind_congr_ok (fun out _ => ?_)
    simp only [bind_ok, foldlM_pure, foldl_append_flatten, List.nil_append, sumValues_outSum, array3_select,
      gena_get_min_pca_vect_eq_model, dict_plane_eq, hsel]
    refine bind_congr_ok (fun v hv => ?_)
    refine bind_congr_ok (fun axis _ => ?_)
    simp only [bind_ok, bind_ok_eta, gena_align_pca_vect_nf norm arctan2 arccos d v axis (h v) (key d _ v hv)]
    finish_tail

end Proofs.GenAlign
