/-
  MicroSql's parser on the token lists of the grammar: `parseSelect (tokens of "SELECT cols FROM t WHERE …") = the statement`
  (helper lemmas; the theorems are in Proofs/SqlTie.lean).
-/
import PdbVerif.Proofs.SqlTok

set_option linter.unusedVariables false
set_option linter.unusedSimpArgs false

namespace SqlProofs
open Tbl Model MicroSql

/-! ### the token lists of the grammar, and what the parser makes of them -/

def kSELECT : Py.Str := ['S', 'E', 'L', 'E', 'C', 'T']
def kFROM : Py.Str := ['F', 'R', 'O', 'M']
def kWHERE : Py.Str := ['W', 'H', 'E', 'R', 'E']
def kAND : Py.Str := ['A', 'N', 'D']
def kNOT : Py.Str := ['N', 'O', 'T']
def kIN : Py.Str := ['i', 'n']
def kUPDATE : Py.Str := ['U', 'P', 'D', 'A', 'T', 'E']
def kSET : Py.Str := ['S', 'E', 'T']

/-- `n1 , n2 , …` -/
def nameToks : List Py.Str → List Tok
  | [] => []
  | [a] => [.word a]
  | a :: b :: t => .word a :: .comma :: nameToks (b :: t)

def colToks : Cols → List Tok
  | .star => [.star]
  | .names ns => nameToks ns

def qtail : Nat → List Tok
  | 0 => [.rparen]
  | n + 1 => .comma :: .qmark :: qtail n

/-- `)` or `? , ? … )` -/
def qtoks : Nat → List Tok
  | 0 => [.rparen]
  | n + 1 => .qmark :: qtail n

def condToks (c : Cond) : List Tok :=
  .word c.name :: ((if c.neg then [.word kNOT] else []) ++ (.word kIN :: .lparen :: qtoks c.nparams))

def andToks : List Cond → List Tok
  | [] => []
  | [c] => condToks c
  | c :: d :: t => condToks c ++ .word kAND :: andToks (d :: t)

theorem qsTail_qtail (n : Nat) : qsTail (qtail n) = some n := by
  induction n with
  | zero => rfl
  | succ n ih => simp [qtail, qsTail, ih]

theorem qs_qtoks (n : Nat) : qs (qtoks n) = some n := by
  cases n with
  | zero => rfl
  | succ n => simp [qtoks, qs, qsTail_qtail]

theorem ident_ok (w : Py.Str) (h : isName w = true) : ident w = .ok w := by simp [ident, h]

theorem parseCond_condToks (c : Cond) (h : isName c.name = true) : parseCond (condToks c) = .ok c := by
  obtain ⟨name, neg, n⟩ := c
  cases neg with
  | true =>
    simp only [condToks, if_true, List.cons_append, List.nil_append]
    rw [parseCond]
    simp only [show isKw "not" kNOT = true from by decide, show isKw "in" kIN = true from by decide, Bool.and_self, if_true,
      MicroSql.mkCond, qs_qtoks]
    simp only [] at h
    simp [ident_ok name h, bind, Except.bind, pure, Except.pure]
  | false =>
    simp only [condToks, Bool.false_eq_true, if_false, List.nil_append]
    rw [parseCond]
    simp only [show isKw "in" kIN = true from by decide, if_true, MicroSql.mkCond, qs_qtoks]
    simp only [] at h
    simp [ident_ok name h, bind, Except.bind, pure, Except.pure]

/-! #### splitting -/

theorem splitTok_none (sep : Tok → Bool) : ∀ (a : List Tok), (∀ x ∈ a, sep x = false) → splitTok sep a = (a, [])
  | [], _ => rfl
  | t :: a, h => by
    simp only [splitTok, h t (by simp), Bool.false_eq_true, if_false, splitTok_none sep a (fun x hx => h x (by simp [hx]))]

theorem splitTok_append (sep : Tok → Bool) (s : Tok) (hs : sep s = true) (b : List Tok) :
    ∀ (a : List Tok), (∀ x ∈ a, sep x = false) → splitTok sep (a ++ s :: b) = (a, pieces sep b)
  | [], _ => by simp [splitTok, hs, pieces]
  | t :: a, h => by
    simp only [List.cons_append, splitTok, h t (by simp), Bool.false_eq_true, if_false,
      splitTok_append sep s hs b a (fun x hx => h x (by simp [hx]))]

theorem pieces_none (sep : Tok → Bool) (a : List Tok) (h : ∀ x ∈ a, sep x = false) : pieces sep a = [a] := by
  simp [pieces, splitTok_none sep a h]

theorem pieces_append (sep : Tok → Bool) (s : Tok) (hs : sep s = true) (a b : List Tok) (h : ∀ x ∈ a, sep x = false) :
    pieces sep (a ++ s :: b) = a :: pieces sep b := by
  simp [pieces, splitTok_append sep s hs b a h]

theorem untilKw_append (k : String) (t : Tok) (ht : isWordKw k t = true) (rest : List Tok) :
    ∀ (a : List Tok), (∀ x ∈ a, isWordKw k x = false) → untilKw k (a ++ t :: rest) = (a, some rest)
  | [], _ => by simp [untilKw, ht]
  | x :: a, h => by
    simp only [List.cons_append, untilKw, h x (by simp), Bool.false_eq_true, if_false,
      untilKw_append k t ht rest a (fun y hy => h y (by simp [hy]))]

/-! #### columns -/

theorem pieces_nameToks : ∀ (ns : List Py.Str), ns ≠ [] → pieces isComma (nameToks ns) = ns.map (fun n => [Tok.word n])
  | [], h => absurd rfl h
  | [a], _ => by simp [nameToks, pieces, splitTok, isComma]
  | a :: b :: t, _ => by
    have := pieces_append isComma .comma rfl [.word a] (nameToks (b :: t)) (by simp [isComma])
    simp only [List.cons_append, List.nil_append] at this
    rw [nameToks, this, pieces_nameToks (b :: t) (by simp)]; rfl

theorem mapM_parseColName : ∀ (ns : List Py.Str), (∀ n ∈ ns, isName n = true) →
    (ns.map (fun n => [Tok.word n])).mapM parseColName = .ok ns
  | [], _ => rfl
  | a :: t, h => by
    simp only [List.map_cons, List.mapM_cons, parseColName, ident_ok a (h a (by simp)), bind, Except.bind,
      mapM_parseColName t (fun n hn => h n (by simp [hn])), pure, Except.pure]

theorem parseCols_names (ns : List Py.Str) (hne : ns ≠ []) (h : ∀ n ∈ ns, isName n = true) :
    parseCols (nameToks ns) = .ok (.names ns) := by
  have h1 : nameToks ns ≠ [.star] := by
    cases ns with
    | nil => exact absurd rfl hne
    | cons a t => cases t <;> simp [nameToks]
  simp [parseCols, h1, pieces_nameToks ns hne, mapM_parseColName ns h, Except.map]

theorem parseCols_star : parseCols [.star] = .ok .star := by simp [parseCols]

/-- the column lists the theorems speak about: `*`, or plain names -/
def ColsNames : Cols → Prop
  | .star => True
  | .names ns => ns ≠ [] ∧ ∀ n ∈ ns, isName n = true

theorem parseCols_colToks (cols : Cols) (h : ColsNames cols) : parseCols (colToks cols) = .ok cols := by
  cases cols with
  | star => exact parseCols_star
  | names ns => exact parseCols_names ns h.1 h.2

theorem nameToks_no_kw (k : String) (hk : reserved.contains k.toList = true) : ∀ (ns : List Py.Str), (∀ n ∈ ns, isName n = true) →
    ∀ x ∈ nameToks ns, isWordKw k x = false
  | [], _, x, hx => by simp [nameToks] at hx
  | [a], h, x, hx => by
    simp only [nameToks, List.mem_singleton] at hx; subst hx
    exact isName_not_kw a (h a (by simp)) k hk
  | a :: b :: t, h, x, hx => by
    simp only [nameToks, List.mem_cons] at hx
    rcases hx with rfl | rfl | hx
    · exact isName_not_kw a (h a (by simp)) k hk
    · rfl
    · exact nameToks_no_kw k hk (b :: t) (fun n hn => h n (by simp [hn])) x hx

theorem colToks_no_kw (k : String) (hk : reserved.contains k.toList = true) (cols : Cols) (h : ColsNames cols) :
    ∀ x ∈ colToks cols, isWordKw k x = false := by
  cases cols with
  | star => intro x hx; simp only [colToks, List.mem_singleton] at hx; subst hx; rfl
  | names ns => exact nameToks_no_kw k hk ns h.2

/-! #### conditions -/

theorem qtail_no_kw (k : String) : ∀ (n : Nat), ∀ x ∈ qtail n, isWordKw k x = false
  | 0, x, hx => by simp only [qtail, List.mem_singleton] at hx; subst hx; rfl
  | n + 1, x, hx => by
    simp only [qtail, List.mem_cons] at hx
    rcases hx with rfl | rfl | hx
    · rfl
    · rfl
    · exact qtail_no_kw k n x hx

theorem qtoks_no_kw (k : String) (n : Nat) : ∀ x ∈ qtoks n, isWordKw k x = false := by
  cases n with
  | zero => intro x hx; simp only [qtoks, List.mem_singleton] at hx; subst hx; rfl
  | succ n =>
    intro x hx
    simp only [qtoks, List.mem_cons] at hx
    rcases hx with rfl | hx
    · rfl
    · exact qtail_no_kw k n x hx

theorem condToks_no_and (c : Cond) (h : isName c.name = true) : ∀ x ∈ condToks c, isWordKw "and" x = false := by
  intro x hx
  simp only [condToks, List.mem_cons, List.mem_append] at hx
  rcases hx with rfl | hx | rfl | rfl | hx
  · exact isName_not_kw c.name h "and" (by decide)
  · by_cases hn : c.neg = true
    · simp only [hn, if_true, List.mem_singleton] at hx; subst hx; decide
    · simp [hn] at hx
  · decide
  · rfl
  · exact qtoks_no_kw "and" _ x hx

theorem pieces_andToks : ∀ (cs : List Cond), cs ≠ [] → (∀ c ∈ cs, isName c.name = true) →
    pieces (isWordKw "and") (andToks cs) = cs.map condToks
  | [], h, _ => absurd rfl h
  | [c], _, h => by
    simp only [andToks, List.map_cons, List.map_nil]
    exact pieces_none _ _ (condToks_no_and c (h c (by simp)))
  | c :: d :: t, _, h => by
    rw [andToks, pieces_append (isWordKw "and") (.word kAND) (by decide) _ _ (condToks_no_and c (h c (by simp))),
      pieces_andToks (d :: t) (by simp) (fun x hx => h x (by simp [hx]))]
    rfl

theorem mapM_parseCond : ∀ (cs : List Cond), (∀ c ∈ cs, isName c.name = true) → (cs.map condToks).mapM parseCond = .ok cs
  | [], _ => rfl
  | c :: t, h => by
    simp only [List.map_cons, List.mapM_cons, parseCond_condToks c (h c (by simp)), bind, Except.bind,
      mapM_parseCond t (fun x hx => h x (by simp [hx])), pure, Except.pure]

/-! #### SELECT -/

/-- the tokens of `SELECT cols FROM tn [WHERE conds]` -/
def selectToks (cols : Cols) (tn : Py.Str) (conds : List Cond) : List Tok :=
  .word kSELECT :: (colToks cols ++ .word kFROM :: .word tn :: (if conds = [] then [] else .word kWHERE :: andToks conds))

theorem parseSelect_ok (cols : Cols) (tn : Py.Str) (conds : List Cond) (hc : ColsNames cols) (ht : isName tn = true)
    (hk : ∀ c ∈ conds, isName c.name = true) :
    parseSelect (colToks cols ++ .word kFROM :: .word tn :: (if conds = [] then [] else .word kWHERE :: andToks conds)) =
      .ok (.select cols tn conds) := by
  unfold parseSelect
  rw [untilKw_append "from" (.word kFROM) (by decide) _ _ (colToks_no_kw "from" (by decide) cols hc)]
  simp only [parseCols_colToks cols hc, ident_ok tn ht, bind, Except.bind, pure, Except.pure]
  by_cases he : conds = []
  · subst he; simp
  · simp only [he, if_false, show isKw "where" kWHERE = true from by decide, if_true,
      pieces_andToks conds he hk, mapM_parseCond conds hk]

end SqlProofs
