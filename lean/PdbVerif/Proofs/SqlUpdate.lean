/-
  C04 side of the tie: the statement text and data rows the TRANSLATED `update` / `update_column` hand to `executemany`,
  executed by MicroSql, are the model's `execMany` — hence `Model.update` and `Model.updateColumn` are consequences of
  the translated text + the MicroSql contract.
-/
import PdbVerif.Proofs.SqlTie

set_option linter.unusedVariables false
set_option linter.unusedSimpArgs false

namespace SqlProofs
open Tbl Model MicroSql GenSql

/-! ### `update`: the translated statement text and data rows -/

theorem to_sql_value_id (v : Val) : to_sql_value v = v := by simp [to_sql_value, Rt.isNpGeneric]

theorem map_to_sql_value (l : List Val) : List.map (fun v => to_sql_value v) l = l := by
  induction l with
  | nil => rfl
  | cons a t ih => simp [to_sql_value_id, ih]

/-- a loop that appends one computed element per turn is a `mapM` -/
theorem forM_append {α β : Type} (f : α → Except GErr β) : ∀ (xs : List α) (acc : List β),
    Rt.forM xs acc (fun it st => (f it).map (fun y => st ++ [y])) = (xs.mapM f).map (acc ++ ·)
  | [], acc => by simp [Rt.forM, Except.map, pure, Except.pure]
  | x :: xs, acc => by
    simp only [Rt.forM, List.mapM_cons, bind, Except.bind]
    cases h : f x with
    | error e => rfl
    | ok y =>
      show Rt.forM xs (acc ++ [y]) (fun it st => (f it).map (fun y => st ++ [y])) = _
      rw [forM_append f xs (acc ++ [y])]
      cases List.mapM f xs <;> simp [Except.map, pure, Except.pure]

/-- `'UPDATE {tablename} SET ' + ', '.join(c + '=?' …) + ' WHERE rowID=?'` -/
def updateText (tn : Py.Str) (columns : List Py.Str) : Py.Str :=
  ['U', 'P', 'D', 'A', 'T', 'E', ' '] ++ tn ++ [' ', 'S', 'E', 'T', ' '] ++
    Rt.join [',', ' '] (columns.map (fun x => x ++ ['=', '?'])) ++ [' ', 'W', 'H', 'E', 'R', 'E', ' ', 'r', 'o', 'w', 'I', 'D', '=', '?']

/-- one data row: the values, then `rowID[i] + 1` -/
def updateRow (rowID : List Int) (p : Int × List Val) : Except GErr (List Val) :=
  (Rt.getItem rowID p.1).map (fun r => p.2 ++ [Val.int (r + 1)])

/-- **normal form of the translated tail of `update`** -/
theorem update_exec_nf (tn : Py.Str) (columns : List Py.Str) (values : List (List Val)) (rowID : List Int) :
    update_exec tn columns values rowID = ((Rt.enumerate values).mapM (updateRow rowID)).map (fun d => (updateText tn columns, d)) := by
  unfold update_exec
  have hb : (fun (it_ : Int × List Val) (st_ : List (List Val)) => (do
      let tmp_data := (List.map (fun v => (to_sql_value v)) it_.2)
      let t1 ← Rt.getItem rowID it_.1
      let tmp_data_1 := (tmp_data ++ [(Val.int (t1 + (1 : Int)))])
      let data_1 := (st_ ++ [tmp_data_1])
      pure data_1 : Except GErr (List (List Val)))) = (fun it st => (updateRow rowID it).map (fun y => st ++ [y])) := by
    funext it_ st_
    simp only [map_to_sql_value, updateRow, bind, Except.bind]
    cases Rt.getItem rowID it_.1 <;> rfl
  rw [hb]
  simp only [bind, Except.bind, forM_append]
  cases List.mapM (updateRow rowID) (Rt.enumerate values) <;> simp [Except.map, pure, Except.pure, updateText]


/-! #### the UPDATE text, tokenized and parsed -/

def setToks : List Py.Str → List Tok
  | [] => []
  | [c] => [.word c, .eq, .qmark]
  | c :: d :: t => .word c :: .eq :: .qmark :: .comma :: setToks (d :: t)

theorem tokenize_set (c : Py.Str) (hc : isName c = true) (rest : Py.Str) :
    tokenize (c ++ '=' :: '?' :: rest) = .word c :: .eq :: .qmark :: tokenize rest := by
  rw [tokenize_append_punct c '=' .eq _ (name_noQuote c hc) (by decide), tokenize_name c hc, tokenize_punct '?' .qmark _ (by decide)]
  rfl

theorem tokenize_sets : ∀ (cols : List Py.Str), (∀ c ∈ cols, isName c = true) → ∀ (rest : Py.Str),
    tokenize (Rt.join [',', ' '] (cols.map (fun x => x ++ ['=', '?'])) ++ rest) = setToks cols ++ tokenize rest
  | [], _, rest => by simp [Rt.join, setToks]
  | [c], h, rest => by
    simp only [List.map_cons, List.map_nil, Rt.join, setToks, List.append_assoc, List.cons_append, List.nil_append]
    exact tokenize_set c (h c (by simp)) rest
  | c :: d :: t, h, rest => by
    have ih := tokenize_sets (d :: t) (fun x hx => h x (by simp [hx])) rest
    simp only [List.map_cons] at ih ⊢
    rw [Rt.join, setToks]
    simp only [List.append_assoc, List.cons_append, List.nil_append]
    rw [tokenize_set c (h c (by simp)), tokenize_punct ',' .comma _ (by decide), tokenize_space, ih]

def updateToks (tn : Py.Str) (cols : List Py.Str) : List Tok :=
  .word kUPDATE :: .word tn :: .word kSET :: (setToks cols ++ [.word kWHERE, .word rowIDName, .eq, .qmark])

theorem tokenize_updateText (tn : Py.Str) (cols : List Py.Str) (ht : isName tn = true) (hc : ∀ c ∈ cols, isName c = true) :
    tokenize (updateText tn cols) = updateToks tn cols := by
  unfold updateText updateToks
  simp only [List.append_assoc]
  show tokenize (['U', 'P', 'D', 'A', 'T', 'E'] ++ ' ' :: (tn ++ ' ' :: (['S', 'E', 'T'] ++ ' ' ::
    (Rt.join [',', ' '] (cols.map (fun x => x ++ ['=', '?'])) ++ [' ', 'W', 'H', 'E', 'R', 'E', ' ', 'r', 'o', 'w', 'I', 'D', '=', '?'])))) = _
  rw [tokenize_append_space _ _ (by decide), tokenize_append_space tn _ (name_noQuote tn ht), tokenize_append_space _ _ (by decide),
    tokenize_sets cols hc, tokenize_name tn ht]
  have : tokenize [' ', 'W', 'H', 'E', 'R', 'E', ' ', 'r', 'o', 'w', 'I', 'D', '=', '?'] = [.word kWHERE, .word rowIDName, .eq, .qmark] := by decide
  rw [this]
  rfl

theorem setToks_no_where : ∀ (cols : List Py.Str), (∀ c ∈ cols, isName c = true) → ∀ x ∈ setToks cols, isWordKw "where" x = false
  | [], _, x, hx => by simp [setToks] at hx
  | [c], h, x, hx => by
    simp only [setToks, List.mem_cons, List.not_mem_nil, or_false] at hx
    rcases hx with rfl | rfl | rfl
    · exact isName_not_kw c (h c (by simp)) "where" (by decide)
    · rfl
    · rfl
  | c :: d :: t, h, x, hx => by
    simp only [setToks, List.mem_cons] at hx
    rcases hx with rfl | rfl | rfl | rfl | hx
    · exact isName_not_kw c (h c (by simp)) "where" (by decide)
    · rfl
    · rfl
    · rfl
    · exact setToks_no_where (d :: t) (fun y hy => h y (by simp [hy])) x hx

theorem pieces_setToks : ∀ (cols : List Py.Str), cols ≠ [] →
    pieces isComma (setToks cols) = cols.map (fun c => [Tok.word c, Tok.eq, Tok.qmark])
  | [], h => absurd rfl h
  | [c], _ => by simp [setToks, pieces, splitTok, isComma]
  | c :: d :: t, _ => by
    have := pieces_append isComma .comma rfl [.word c, .eq, .qmark] (setToks (d :: t)) (by simp [isComma])
    simp only [List.cons_append, List.nil_append] at this
    rw [setToks, this, pieces_setToks (d :: t) (by simp)]; rfl

theorem mapM_parseSet : ∀ (cols : List Py.Str), (∀ c ∈ cols, isName c = true) →
    (cols.map (fun c => [Tok.word c, Tok.eq, Tok.qmark])).mapM parseSet = .ok cols
  | [], _ => rfl
  | c :: t, h => by
    simp only [List.map_cons, List.mapM_cons, parseSet, ident_ok c (h c (by simp)), bind, Except.bind,
      mapM_parseSet t (fun x hx => h x (by simp [hx])), pure, Except.pure]

/-- the UPDATE text of the translated `update` parses to the statement `UPDATE tn SET cols… WHERE rowID=?` -/
theorem parse_updateText (tn : Py.Str) (cols : List Py.Str) (ht : isName tn = true) (hne : cols ≠ [])
    (hc : ∀ c ∈ cols, isName c = true) : parse (updateText tn cols) = .ok (.update tn cols rowIDName) := by
  unfold parse
  rw [tokenize_updateText tn cols ht hc]
  unfold updateToks
  simp only [show isKw "select" kUPDATE = false from by decide, show isKw "update" kUPDATE = true from by decide, if_true,
    Bool.false_eq_true, if_false]
  unfold parseUpdate
  simp only [show isKw "set" kSET = true from by decide, if_true]
  rw [untilKw_append "where" (.word kWHERE) (by decide) _ _ (setToks_no_where cols hc)]
  simp only [ident_ok tn ht, pieces_setToks cols hne, mapM_parseSet cols hc, show ident rowIDName = .ok rowIDName from by decide,
    bind, Except.bind, pure, Except.pure]


/-! #### executing it -/

theorem stepUpdate_row (db : Db) (tn : Py.Str) (cs : List Col) (vals : List Val) (rid : Int) :
    stepUpdate db tn cs (vals ++ [Val.int rid]) =
      (if vals.length ≠ cs.length then .error .programming else updateAt db tn (cs.zip vals) rid) := by
  unfold stepUpdate
  simp only [List.length_append, List.length_singleton, List.getLast?_append, List.getLast?_singleton, Option.some_or,
    List.dropLast_concat]
  by_cases h : vals.length = cs.length <;> simp [h]

theorem runUpdates_eq (tn : Py.Str) (cs : List Col) : ∀ (rows : List (List Val × Int)) (db : Db),
    runUpdates tn cs db (rows.map (fun p => p.1 ++ [Val.int p.2])) = execMany db tn cs rows
  | [], db => rfl
  | (vals, rid) :: rest, db => by
    simp only [List.map_cons, runUpdates, execMany, stepUpdate_row]
    by_cases h : vals.length = cs.length
    · simp only [h, ne_eq, not_true_eq_false, if_false]
      cases updateAt db tn (cs.zip vals) rid with
      | error e => rfl
      | ok db' => exact runUpdates_eq tn cs rest db'
    · simp [h]

theorem update_rows (values : List (List Val)) : ∀ (rowID pre : List Int) (k : Nat), pre.length = k → rowID.length = values.length →
    ((values.zipIdx k).map (fun p => (((p.2 : Nat) : Int), p.1))).mapM (updateRow (pre ++ rowID)) =
      .ok ((values.zip rowID).map (fun p => p.1 ++ [Val.int (p.2 + 1)])) := by
  induction values with
  | nil => intro rowID pre k _ _; rfl
  | cons v vs ih =>
    intro rowID pre k hk hl
    cases rowID with
    | nil => simp at hl
    | cons r rs =>
      have h1 : updateRow (pre ++ r :: rs) ((k : Int), v) = .ok (v ++ [Val.int (r + 1)]) := by
        unfold updateRow; rw [← hk, getItem_append_length]; rfl
      have ih' := ih rs (pre ++ [r]) (k + 1) (by simp [hk]) (by simpa using hl)
      simp only [List.append_assoc, List.singleton_append] at ih'
      simp only [List.zipIdx_cons, List.map_cons, List.mapM_cons, h1, ih', bind, Except.bind, pure, Except.pure, List.zip_cons_cons]

/-- **The tail of `update`**: the statement text and the data rows of the translated builder, executed by MicroSql's
    `executemany`, are the model's `execMany` on (value row, rowid) pairs — including the prepare error for an unknown
    column and the per-row errors.  (`columns`: the names after the split; `rowID`: the answer of `get('rowID', …)`.) -/
theorem update_tail_eq_sql (db : Db) (tn : Py.Str) (columns : List Py.Str) (values : List (List Val)) (rowID : List Int)
    (ht : isName tn = true) (hne : columns ≠ []) (hc : ∀ c ∈ columns, isName c = true)
    (hfind : (findTab db tn).isSome = true) (hrow : sqlCol db rowIDName = some .rowID) (hlen : rowID.length = values.length) :
    (match columns.mapM (sqlCol db) with
     | none => ((db, Except.error Model.Err.operational) : Db × Except Model.Err Unit)
     | some cs => execMany db tn cs (values.zip (rowID.map (· + 1)))) =
    (match update_exec tn columns values rowID with
     | .error e => (db, Except.error (errOf e))
     | .ok (text, data) => MicroSql.executemany db text data) := by
  have hrows := update_rows values rowID [] 0 rfl hlen
  simp only [List.nil_append] at hrows
  rw [update_exec_nf]
  unfold Rt.enumerate
  rw [hrows]
  simp only [Except.map, MicroSql.executemany, parse_updateText tn columns ht hne hc, prepareUpdate]
  obtain ⟨tab, htab⟩ := Option.isSome_iff_exists.1 hfind
  simp only [htab, hrow]
  cases hcs : columns.mapM (sqlCol db) with
  | none => rfl
  | some cs =>
    simp only []
    have := runUpdates_eq tn cs (values.zip (rowID.map (· + 1))) db
    rw [← this]
    congr 1
    rw [List.zip_map_right, List.map_map]
    rfl


/-! ### `update_column` -/

theorem int_eq_model (v : Val) : (Rt.int v).mapError errOf = pyInt v := by
  cases v with
  | int i => rfl
  | real q => rfl
  | text s =>
    simp only [Rt.int, pyInt]
    cases Py.parseInt s <;> simp [Except.mapError, errOf, tooManyMsg]

def genPair (p : Val × Val) : Except GErr (List Val) := (Rt.int p.2).map (fun t => [p.1, Val.int (t + 1)])
def modelPair (p : Val × Val) : Except Model.Err (List Val × Int) := (pyInt p.2).map (fun i => ([p.1], i + 1))
def pairRow (p : List Val × Int) : List Val := p.1 ++ [Val.int p.2]

theorem genPair_model (x : Val × Val) : (genPair x).mapError errOf = (modelPair x).map pairRow := by
  unfold genPair modelPair
  rw [← int_eq_model x.2]
  cases Rt.int x.2 <;> rfl

theorem mapM_genPair (l : List (Val × Val)) : (l.mapM genPair).mapError errOf = (l.mapM modelPair).map (List.map pairRow) := by
  rw [mapM_post]
  exact mapM_mapError _ _ _ genPair_model l

/-- the data rows of `update_column` as (value row, rowid) pairs -/
def columnPairs (values : List Val) : Option (List Val) → Except Model.Err (List (List Val × Int))
  | none => .ok (values.zipIdx.map (fun vi => ([vi.1], (vi.2 : Int) + 1)))
  | some idx => (values.zip idx).mapM modelPair

/-- **normal form of the translated `update_column`**: the text, and the data rows = the model's pairs -/
theorem update_column_exec_nf (colname : Py.Str) (values : List Val) (index : Option (List Val)) (tn : Py.Str) :
    (update_column_exec colname values index tn).mapError errOf =
      (columnPairs values index).map (fun d => (updateText tn [colname], d.map pairRow)) := by
  have htext : ['U', 'P', 'D', 'A', 'T', 'E', ' '] ++ tn ++ [' ', 'S', 'E', 'T', ' '] ++ colname ++
      ['=', '?', ' ', 'W', 'H', 'E', 'R', 'E', ' ', 'r', 'o', 'w', 'I', 'D', '=', '?'] = updateText tn [colname] := by
    simp [updateText, Rt.join]
  unfold update_column_exec columnPairs
  cases index with
  | none =>
    simp only [htext, pure, Except.pure, Except.mapError, Except.map, Rt.enumerate, List.map_map, to_sql_value_id]
    congr 2
  | some idx =>
    have hl : (fun (p_1 : Val × Val) => (do let t1 ← Rt.int p_1.2; pure [(to_sql_value p_1.1), (Val.int (t1 + (1 : Int)))] : Except GErr (List Val))) = genPair := by
      funext x; unfold genPair; simp only [to_sql_value_id, bind, Except.bind]; cases Rt.int x.2 <;> rfl
    rw [hl]
    simp only [htext, bind, Except.bind]
    have hm := mapM_genPair (values.zip idx)
    revert hm
    cases List.mapM genPair (values.zip idx) with
    | error e =>
      intro hm; simp only [Except.mapError] at hm ⊢
      cases hmm : List.mapM modelPair (values.zip idx) with
      | error e' => rw [hmm] at hm; simp only [Except.map, Except.error.injEq] at hm ⊢; exact hm
      | ok d' => rw [hmm] at hm; simp [Except.map] at hm
    | ok d =>
      intro hm; simp only [Except.mapError, pure, Except.pure] at hm ⊢
      cases hmm : List.mapM modelPair (values.zip idx) with
      | error e' => rw [hmm] at hm; simp [Except.map] at hm
      | ok d' => rw [hmm] at hm; simp only [Except.map, Except.ok.injEq] at hm ⊢; rw [hm]

theorem updateColumn_pairs (db : Db) (colname : Py.Str) (values : List Val) (index : Option (List Val)) (tn : Py.Str) :
    updateColumn db colname values index tn =
      (match columnPairs values index with
       | .error e => (db, .error e)
       | .ok d =>
         match findTab db tn, sqlCol db colname with
         | some _, some c => execMany db tn [c] d
         | _, _ => (db, .error .operational)) := by
  unfold updateColumn columnPairs
  cases index with
  | none => rfl
  | some idx =>
    have : (fun (vi : Val × Val) => (do let i ← pyInt vi.2; pure ([vi.1], i + 1) : Except Model.Err (List Val × Int))) = modelPair := by
      funext x; unfold modelPair; simp only [bind, Except.bind]; cases pyInt x.2 <;> rfl
    rw [this]; rfl

/-- **`update_column` = MicroSql on the translated text and rows**: for every database, column name, value list and
    index list -/
theorem updateColumn_eq_sql (db : Db) (colname : Py.Str) (values : List Val) (index : Option (List Val)) (tn : Py.Str)
    (ht : isName tn = true) (hc : isName colname = true) (hrow : sqlCol db rowIDName = some .rowID) :
    updateColumn db colname values index tn =
      (match update_column_exec colname values index tn with
       | .error e => (db, Except.error (errOf e))
       | .ok (text, data) => MicroSql.executemany db text data) := by
  rw [updateColumn_pairs]
  have hnf := update_column_exec_nf colname values index tn
  cases hp : columnPairs values index with
  | error e =>
    rw [hp] at hnf
    cases hg : update_column_exec colname values index tn with
    | error e' => rw [hg] at hnf; simp only [Except.mapError, Except.map] at hnf; injection hnf with h; rw [← h]
    | ok r => rw [hg] at hnf; simp [Except.mapError, Except.map] at hnf
  | ok d =>
    rw [hp] at hnf
    cases hg : update_column_exec colname values index tn with
    | error e' => rw [hg] at hnf; simp [Except.mapError, Except.map] at hnf
    | ok r =>
      rw [hg] at hnf
      simp only [Except.mapError, Except.map, Except.ok.injEq] at hnf
      subst hnf
      simp only [MicroSql.executemany, parse_updateText tn [colname] ht (by simp) (by simpa using hc), prepareUpdate,
        List.mapM_cons, List.mapM_nil, hrow]
      cases findTab db tn with
      | none => rfl
      | some tab =>
        cases hcol : sqlCol db colname with
        | none => simp [hcol]
        | some c =>
          simp only [hcol, bind, Option.bind, pure]
          exact (runUpdates_eq tn [c] d db).symm


/-! ### `update` as a whole -/

/-- **`update` computed from the translated builder**: the checks of the source, the rowIDs of the selection from
    `get('rowID', …)`, then the translated statement text and data rows executed by MicroSql -/
def updateCoreViaSql (db : Db) (columns : Py.Str) (values : List (List Val)) (tn : Py.Str) (kw : List Kw) :
    Db × Except Model.Err Unit :=
  let cols : List Py.Str := updNames columns
  match values with
  | [] => (db, .error .indexError)
  | _ :: _ =>
    if values.any (fun val => val.length ≠ cols.length) then (db, .error .valueError) else
    match Model.get db rowIDName tn kw >>= asInts with
    | .error e => (db, .error e)
    | .ok rowID =>
      if rowID.length ≠ values.length then (db, .error .valueError) else
      match update_exec tn cols values rowID with
      | .error e => (db, .error (errOf e))
      | .ok (text, data) => MicroSql.executemany db text data

theorem updNames_ne_nil (columns : Py.Str) : updNames columns ≠ [] := by
  unfold updNames
  by_cases h : columns.contains ',' = true
  · simp only [h, if_true]; exact splitOn_ne_nil' ',' columns
  · simp only [h, if_false, Bool.false_eq_true]; simp

/-- **`update` (one model) = the translated statement and rows run by MicroSql** -/
theorem updateCore_eq_sql (db : Db) (columns : Py.Str) (values : List (List Val)) (tn : Py.Str) (kw : List Kw)
    (ht : isName tn = true) (hc : ∀ c ∈ updNames columns, isName c = true)
    (hfind : (findTab db tn).isSome = true) (hrow : sqlCol db rowIDName = some .rowID) :
    updateCore db columns values tn kw = updateCoreViaSql db columns values tn kw := by
  unfold updateCore updateCoreViaSql
  cases values with
  | nil => rfl
  | cons v vs =>
    simp only []
    by_cases hany : (v :: vs).any (fun val => val.length ≠ (updNames columns).length) = true
    · simp only [hany, if_true]
    · simp only [hany, if_false, Bool.false_eq_true]
      cases hget : (Model.get db rowIDName tn kw >>= asInts) with
      | error e => rfl
      | ok rowID =>
        simp only []
        by_cases hlen' : rowID.length = (v :: vs).length
        · rw [if_neg (by simpa using hlen'), if_neg (by simpa using hlen')]
          exact update_tail_eq_sql db tn (updNames columns) (v :: vs) rowID ht (updNames_ne_nil columns) hc hfind hrow hlen'
        · rw [if_pos (by simpa using hlen'), if_pos (by simpa using hlen')]

theorem update_eq_sql (db : Db) (columns : Py.Str) (values : List (List Val)) (tn : Py.Str) (kw : List Kw)
    (hvalid : validColsUpdate db columns = true) (hdisp : hasModelKey kw = true ∨ db.nModel = 0)
    (ht : isName tn = true) (hc : ∀ c ∈ updNames columns, isName c = true)
    (hfind : (findTab db tn).isSome = true) (hrow : sqlCol db rowIDName = some .rowID) :
    Model.update db columns values tn kw = updateCoreViaSql db columns values tn kw := by
  have hd : (!hasModelKey kw && decide (db.nModel > 0)) = false := by
    rcases hdisp with h | h <;> simp [h]
  unfold Model.update
  simp only [hvalid, Bool.not_true, Bool.false_eq_true, if_false, hd]
  exact updateCore_eq_sql db columns values tn kw ht hc hfind hrow

end SqlProofs
