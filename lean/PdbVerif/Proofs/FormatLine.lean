/-
  Helper lemmas for C02: an ATOM line as a list of fixed-width segments, and the columns of such a line.
  Helper lemmas only.
-/
import Mathlib.Tactic.Linarith
import PdbVerif.Gen.Str
import PdbVerif.Spec.C02
import PdbVerif.Proofs.Str

set_option linter.unusedSimpArgs false
set_option linter.unusedVariables false
set_option linter.unnecessarySeqFocus false
set_option linter.unusedSectionVars false
set_option linter.unreachableTactic false
set_option linter.unusedTactic false

namespace Proofs.Line
open Py

/-- columns `a..b` of a line assembled from segments: the segment that starts at column `a` and ends at `b` -/
theorem rawCols_flatten (pre : List Str) (mid : Str) (post : List Str) (a b : Nat)
    (ha : pre.flatten.length + 1 = a) (hb : pre.flatten.length + mid.length = b) :
    Spec.rawCols ((pre ++ mid :: post).flatten) a b = mid := by
  subst ha hb
  unfold Spec.rawCols
  simp only [List.flatten_append, List.flatten_cons, Nat.add_sub_cancel]
  rw [← List.append_assoc, List.take_append_of_le_length (by simp), List.take_of_length_le (by simp),
    List.drop_left']
  rfl

/-- the thirteen variable pieces of an ATOM line -/
structure Pieces where
  serial : Str
  name : Str
  alt : Str
  resn : Str
  chain : Str
  resseq : Str
  icode : Str
  x : Str
  y : Str
  z : Str
  occ : Str
  temp : Str
  elem : Str

def Pieces.segs (p : Pieces) : List Str :=
  [['A', 'T', 'O', 'M', ' ', ' '], p.serial, [' '], p.name, p.alt, p.resn, [' '], p.chain, p.resseq, p.icode,
   [' ', ' ', ' '], p.x, p.y, p.z, p.occ, p.temp, spaces 10, p.elem, spaces 2]

def Pieces.line (p : Pieces) : Str := p.segs.flatten

structure Pieces.WF (p : Pieces) : Prop where
  serial : p.serial.length = 5
  name : p.name.length = 4
  alt : p.alt.length = 1
  resn : p.resn.length = 3
  chain : p.chain.length = 1
  resseq : p.resseq.length = 4
  icode : p.icode.length = 1
  x : p.x.length = 8
  y : p.y.length = 8
  z : p.z.length = 8
  occ : p.occ.length = 6
  temp : p.temp.length = 6
  elem : p.elem.length = 2

section
variable {p : Pieces} (w : p.WF)
include w

theorem line_length : p.line.length = 80 := by
  simp [Pieces.line, Pieces.segs, w.serial, w.name, w.alt, w.resn, w.chain, w.resseq, w.icode, w.x, w.y, w.z,
    w.occ, w.temp, w.elem]

theorem c_record : Spec.rawCols p.line 1 6 = ['A', 'T', 'O', 'M', ' ', ' '] :=
  rawCols_flatten [] _ _ 1 6 (by simp) (by simp)
theorem c_serial : Spec.rawCols p.line 7 11 = p.serial :=
  rawCols_flatten [_] _ _ 7 11 (by simp) (by simp [w.serial])
theorem c_12 : Spec.rawCols p.line 12 12 = [' '] :=
  rawCols_flatten [_, _] _ _ 12 12 (by simp [w.serial]) (by simp [w.serial])
theorem c_name : Spec.rawCols p.line 13 16 = p.name :=
  rawCols_flatten [_, _, _] _ _ 13 16 (by simp [w.serial]) (by simp [w.serial, w.name])
theorem c_alt : Spec.rawCols p.line 17 17 = p.alt :=
  rawCols_flatten [_, _, _, _] _ _ 17 17 (by simp [w.serial, w.name]) (by simp [w.serial, w.name, w.alt])
theorem c_resn : Spec.rawCols p.line 18 20 = p.resn :=
  rawCols_flatten [_, _, _, _, _] _ _ 18 20 (by simp [w.serial, w.name, w.alt])
    (by simp [w.serial, w.name, w.alt, w.resn])
theorem c_21 : Spec.rawCols p.line 21 21 = [' '] :=
  rawCols_flatten [_, _, _, _, _, _] _ _ 21 21 (by simp [w.serial, w.name, w.alt, w.resn])
    (by simp [w.serial, w.name, w.alt, w.resn])
theorem c_chain : Spec.rawCols p.line 22 22 = p.chain :=
  rawCols_flatten [_, _, _, _, _, _, _] _ _ 22 22 (by simp [w.serial, w.name, w.alt, w.resn])
    (by simp [w.serial, w.name, w.alt, w.resn, w.chain])
theorem c_resseq : Spec.rawCols p.line 23 26 = p.resseq :=
  rawCols_flatten [_, _, _, _, _, _, _, _] _ _ 23 26 (by simp [w.serial, w.name, w.alt, w.resn, w.chain])
    (by simp [w.serial, w.name, w.alt, w.resn, w.chain, w.resseq])
theorem c_icode : Spec.rawCols p.line 27 27 = p.icode :=
  rawCols_flatten [_, _, _, _, _, _, _, _, _] _ _ 27 27 (by simp [w.serial, w.name, w.alt, w.resn, w.chain, w.resseq])
    (by simp [w.serial, w.name, w.alt, w.resn, w.chain, w.resseq, w.icode])
theorem c_28 : Spec.rawCols p.line 28 30 = [' ', ' ', ' '] :=
  rawCols_flatten [_, _, _, _, _, _, _, _, _, _] _ _ 28 30
    (by simp [w.serial, w.name, w.alt, w.resn, w.chain, w.resseq, w.icode])
    (by simp [w.serial, w.name, w.alt, w.resn, w.chain, w.resseq, w.icode])
theorem c_x : Spec.rawCols p.line 31 38 = p.x :=
  rawCols_flatten [_, _, _, _, _, _, _, _, _, _, _] _ _ 31 38
    (by simp [w.serial, w.name, w.alt, w.resn, w.chain, w.resseq, w.icode])
    (by simp [w.serial, w.name, w.alt, w.resn, w.chain, w.resseq, w.icode, w.x])
theorem c_y : Spec.rawCols p.line 39 46 = p.y :=
  rawCols_flatten [_, _, _, _, _, _, _, _, _, _, _, _] _ _ 39 46
    (by simp [w.serial, w.name, w.alt, w.resn, w.chain, w.resseq, w.icode, w.x])
    (by simp [w.serial, w.name, w.alt, w.resn, w.chain, w.resseq, w.icode, w.x, w.y])
theorem c_z : Spec.rawCols p.line 47 54 = p.z :=
  rawCols_flatten [_, _, _, _, _, _, _, _, _, _, _, _, _] _ _ 47 54
    (by simp [w.serial, w.name, w.alt, w.resn, w.chain, w.resseq, w.icode, w.x, w.y])
    (by simp [w.serial, w.name, w.alt, w.resn, w.chain, w.resseq, w.icode, w.x, w.y, w.z])
theorem c_occ : Spec.rawCols p.line 55 60 = p.occ :=
  rawCols_flatten [_, _, _, _, _, _, _, _, _, _, _, _, _, _] _ _ 55 60
    (by simp [w.serial, w.name, w.alt, w.resn, w.chain, w.resseq, w.icode, w.x, w.y, w.z])
    (by simp [w.serial, w.name, w.alt, w.resn, w.chain, w.resseq, w.icode, w.x, w.y, w.z, w.occ])
theorem c_temp : Spec.rawCols p.line 61 66 = p.temp :=
  rawCols_flatten [_, _, _, _, _, _, _, _, _, _, _, _, _, _, _] _ _ 61 66
    (by simp [w.serial, w.name, w.alt, w.resn, w.chain, w.resseq, w.icode, w.x, w.y, w.z, w.occ])
    (by simp [w.serial, w.name, w.alt, w.resn, w.chain, w.resseq, w.icode, w.x, w.y, w.z, w.occ, w.temp])
theorem c_67 : Spec.rawCols p.line 67 76 = spaces 10 :=
  rawCols_flatten [_, _, _, _, _, _, _, _, _, _, _, _, _, _, _, _] _ _ 67 76
    (by simp [w.serial, w.name, w.alt, w.resn, w.chain, w.resseq, w.icode, w.x, w.y, w.z, w.occ, w.temp])
    (by simp [w.serial, w.name, w.alt, w.resn, w.chain, w.resseq, w.icode, w.x, w.y, w.z, w.occ, w.temp])
theorem c_elem : Spec.rawCols p.line 77 78 = p.elem :=
  rawCols_flatten [_, _, _, _, _, _, _, _, _, _, _, _, _, _, _, _, _] _ _ 77 78
    (by simp [w.serial, w.name, w.alt, w.resn, w.chain, w.resseq, w.icode, w.x, w.y, w.z, w.occ, w.temp])
    (by simp [w.serial, w.name, w.alt, w.resn, w.chain, w.resseq, w.icode, w.x, w.y, w.z, w.occ, w.temp, w.elem])
theorem c_79 : Spec.rawCols p.line 79 80 = spaces 2 :=
  rawCols_flatten [_, _, _, _, _, _, _, _, _, _, _, _, _, _, _, _, _, _] _ [] 79 80
    (by simp [w.serial, w.name, w.alt, w.resn, w.chain, w.resseq, w.icode, w.x, w.y, w.z, w.occ, w.temp, w.elem])
    (by simp [w.serial, w.name, w.alt, w.resn, w.chain, w.resseq, w.icode, w.x, w.y, w.z, w.occ, w.temp, w.elem])
/-- the segID columns 73–76 are blank -/
theorem c_seg : Spec.cols p.line 73 76 = [] := by
  have h : Spec.rawCols p.line 73 76 = Spec.rawCols (Spec.rawCols p.line 67 76) 7 10 := by
    unfold Spec.rawCols
    simp only [List.take_drop, List.drop_drop, List.take_take]
    congr 1 <;> omega
  unfold Spec.cols
  rw [h, c_67 w]
  decide

end

end Proofs.Line
