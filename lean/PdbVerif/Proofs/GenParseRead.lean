/-
  The translated `pdb2sql.read_pdb` (Gen/ParseLoop.lean: `GenP.read_pdb`, regenerated from pdb2sqlcore.py on every run) IS the hand
  model `Model.readPdb` of Model/Parse.lean, for every input form (bytes, str = path or whole text incl. the
  `count('\nATOM ') > 3` rule, Path, list / ndarray of str / bytes) and every file system, errors included (`pdbfile[0]` of an
  empty container is IndexError, a directory or a missing file FileNotFoundError); inputs the model's `Input` type does not have
  (first element neither str nor bytes, any other class) are ValueError.  `str.count` counts NON-overlapping occurrences, the
  model counts all: they agree on this needle (`count_atom`).
-/
import PdbVerif.Proofs.GenParseRt
set_option linter.unusedVariables false
set_option linter.unusedSimpArgs false
namespace Proofs.GenParse
open Py

/-! ### `str.count` on the needle of `read_pdb` -/

theorem countAux_atom : ∀ (s : Str),
    GenP.Rt.countAux ['\n', 'A', 'T', 'O', 'M', ' '] 0 s = Model.countSub ['\n', 'A', 'T', 'O', 'M', ' '] s
  | [] => rfl
  | c :: cs => by
    by_cases h : (['\n', 'A', 'T', 'O', 'M', ' '] : Str).isPrefixOf (c :: cs) = true
    · obtain ⟨rest, hr⟩ := List.isPrefixOf_iff_prefix.mp h
      have hlen : rest.length < (c :: cs).length := by rw [← hr]; simp; omega
      have ih := countAux_atom rest
      have hc : c = '\n' := by simp at hr; exact hr.1.symm
      have hcs : cs = 'A' :: 'T' :: 'O' :: 'M' :: ' ' :: rest := by simp at hr; exact hr.2.symm
      subst hc; subst hcs
      simp [GenP.Rt.countAux, Model.countSub, List.isPrefixOf, ih]
    · have ih := countAux_atom cs
      simp only [GenP.Rt.countAux, Model.countSub, h, if_false, Bool.false_eq_true, ih, Nat.zero_add]
termination_by s => s.length
decreasing_by
  · exact hlen
  · simp

theorem count_atom (s : Str) :
    GenP.Rt.count s ['\n', 'A', 'T', 'O', 'M', ' '] = ((Model.countSub Model.atomNeedle s : Nat) : Int) := by
  simp [GenP.Rt.count, countAux_atom, Model.atomNeedle]

/-! ### the inputs and the file system of the hand model, seen by the translated code -/

def toObj : Model.Input → GenP.Rt.Obj
  | .str s => .str s | .bytes s => .bytes s | .path p => .path p
  | .listStr l => .listStr l | .listBytes l => .listBytes l
  | .ndarrayStr l => .ndarrayStr l | .ndarrayBytes l => .ndarrayBytes l

def toFS (fs : Model.FS) : GenP.Rt.FS :=
  { pathExists := fun p => (fs p).isSome,
    isfile := fun p => match fs p with | some (.file _) => true | _ => false,
    readlines := fun p => match fs p with | some (.file c) => .ok (Model.readlines c) | _ => .error .fileNotFound }

theorem mapM_decode_bytes (f : GenP.Rt.Obj → Except Err Str) (hf : ∀ s, f (.bytes s) = .ok s) :
    ∀ l : List Str, GenP.Rt.mapM f (l.map GenP.Rt.Obj.bytes) = Except.ok l
  | [] => rfl
  | x :: xs => by simp [GenP.Rt.mapM, hf, mapM_decode_bytes f hf xs]

theorem read_str (fs : Model.FS) (s : Str) : GenP.read_pdb (toFS fs) (.str s) = Model.readStr fs s := by
  unfold GenP.read_pdb Model.readStr
  simp only [GenP.Rt.isinstance, GenP.Rt.asStr, toFS, count_atom, ok_bind, pure_eq_ok, throw_eq_error, bind_assoc]
  cases hfs : fs s with
  | none =>
    by_cases hc : Model.countSub Model.atomNeedle s > 3
    · have : ((Model.countSub Model.atomNeedle s : Nat) : Int) > 3 := by omega
      simp [hfs, hc, this, ok_bind]
    · have : ¬ ((Model.countSub Model.atomNeedle s : Nat) : Int) > 3 := by omega
      simp [hfs, hc, this, ok_bind, error_bind]
  | some nd =>
    cases nd with
    | file c => simp [hfs, ok_bind]
    | dir => simp [hfs, ok_bind, error_bind]


theorem read_bytes (fs : Model.FS) (s : Str) : GenP.read_pdb (toFS fs) (.bytes s) = Model.readStr fs s := by
  rw [← read_str]
  unfold GenP.read_pdb
  simp [GenP.Rt.isinstance, GenP.Rt.decode, ok_bind, pure_eq_ok]

theorem read_path (fs : Model.FS) (p : Str) :
    GenP.read_pdb (toFS fs) (.path p) =
      (match fs p with | some (.file c) => Except.ok (Model.readlines c) | _ => Except.error Err.fileNotFound) := by
  unfold GenP.read_pdb
  simp only [GenP.Rt.isinstance, GenP.Rt.asPath, toFS, ok_bind, pure_eq_ok, throw_eq_error, bind_assoc]
  cases hfs : fs p with
  | none => simp [GenP.Rt.isinstance, GenP.Rt.asPath, hfs, error_bind, ok_bind, pure_eq_ok]
  | some nd =>
    cases nd with
    | file c => simp [GenP.Rt.isinstance, GenP.Rt.asPath, hfs, ok_bind, pure_eq_ok]
    | dir => simp [GenP.Rt.isinstance, GenP.Rt.asPath, hfs, ok_bind, error_bind, pure_eq_ok]

theorem read_listStr (fs : GenP.Rt.FS) (l : List Str) :
    GenP.read_pdb fs (.listStr l) = if l.isEmpty then Except.error Err.indexError else Except.ok l := by
  unfold GenP.read_pdb
  cases l with
  | nil => simp [GenP.Rt.isinstance, GenP.Rt.item, Py.listGet, error_bind, map_eq_bind, exceptMap_eq_bind]
  | cons x xs => simp [GenP.Rt.isinstance, GenP.Rt.item, Py.listGet, GenP.Rt.asLines, ok_bind, pure_eq_ok, map_eq_bind, exceptMap_eq_bind]

theorem read_listBytes (fs : GenP.Rt.FS) (l : List Str) :
    GenP.read_pdb fs (.listBytes l) = if l.isEmpty then Except.error Err.indexError else Except.ok l := by
  unfold GenP.read_pdb
  cases l with
  | nil => simp [GenP.Rt.isinstance, GenP.Rt.item, Py.listGet, error_bind, map_eq_bind, exceptMap_eq_bind]
  | cons x xs =>
    simp [GenP.Rt.isinstance, GenP.Rt.item, Py.listGet, GenP.Rt.iter, ok_bind, pure_eq_ok, map_eq_bind, exceptMap_eq_bind]
    rw [show (GenP.Rt.Obj.bytes x :: List.map GenP.Rt.Obj.bytes xs) = List.map GenP.Rt.Obj.bytes (x :: xs) from rfl,
      mapM_decode_bytes _ (fun s => rfl)]
    simp [ok_bind]

theorem read_ndarrayStr (fs : GenP.Rt.FS) (l : List Str) :
    GenP.read_pdb fs (.ndarrayStr l) = if l.isEmpty then Except.error Err.indexError else Except.ok l := by
  unfold GenP.read_pdb
  cases l with
  | nil => simp [GenP.Rt.isinstance, GenP.Rt.tolist, GenP.Rt.item, Py.listGet, error_bind, ok_bind, map_eq_bind, exceptMap_eq_bind]
  | cons x xs => simp [GenP.Rt.isinstance, GenP.Rt.tolist, GenP.Rt.item, Py.listGet, GenP.Rt.asLines, ok_bind, pure_eq_ok, map_eq_bind, exceptMap_eq_bind]

theorem read_ndarrayBytes (fs : GenP.Rt.FS) (l : List Str) :
    GenP.read_pdb fs (.ndarrayBytes l) = if l.isEmpty then Except.error Err.indexError else Except.ok l := by
  unfold GenP.read_pdb
  cases l with
  | nil => simp [GenP.Rt.isinstance, GenP.Rt.tolist, GenP.Rt.item, Py.listGet, error_bind, ok_bind, map_eq_bind, exceptMap_eq_bind]
  | cons x xs =>
    simp [GenP.Rt.isinstance, GenP.Rt.tolist, GenP.Rt.item, Py.listGet, GenP.Rt.iter, ok_bind, pure_eq_ok, map_eq_bind,
      exceptMap_eq_bind]
    rw [show (GenP.Rt.Obj.bytes x :: List.map GenP.Rt.Obj.bytes xs) = List.map GenP.Rt.Obj.bytes (x :: xs) from rfl,
      mapM_decode_bytes _ (fun s => rfl)]
    simp [ok_bind]

/-- anything that is not bytes / str / Path / list / ndarray: ValueError -/
theorem read_other (fs : GenP.Rt.FS) : GenP.read_pdb fs .other = Except.error Err.valueError := by
  unfold GenP.read_pdb
  simp [GenP.Rt.isinstance, error_bind, throw_eq_error, ok_bind, pure_eq_ok]

/-- a list / array whose first element is neither str nor bytes: ValueError; empty: IndexError -/
theorem read_listOther (fs : GenP.Rt.FS) (n : Nat) :
    GenP.read_pdb fs (.listOther n) = if n = 0 then Except.error Err.indexError else Except.error Err.valueError := by
  unfold GenP.read_pdb
  by_cases h : n = 0
  · subst h; simp [GenP.Rt.isinstance, GenP.Rt.item, error_bind, ok_bind, pure_eq_ok]
  · have h0 : 0 < n := by omega
    simp [GenP.Rt.isinstance, GenP.Rt.item, h, h0, ok_bind, error_bind, throw_eq_error, pure_eq_ok]

theorem read_ndarrayOther (fs : GenP.Rt.FS) (n : Nat) :
    GenP.read_pdb fs (.ndarrayOther n) = if n = 0 then Except.error Err.indexError else Except.error Err.valueError := by
  unfold GenP.read_pdb
  by_cases h : n = 0
  · subst h; simp [GenP.Rt.isinstance, GenP.Rt.tolist, GenP.Rt.item, error_bind, ok_bind]
  · have h0 : 0 < n := by omega
    simp [GenP.Rt.isinstance, GenP.Rt.tolist, GenP.Rt.item, h, h0, ok_bind, error_bind, throw_eq_error, pure_eq_ok]

/-- **`GenP.read_pdb` = `Model.readPdb`** for every input form and every file system -/
theorem genp_read_pdb_eq_model (fs : Model.FS) (i : Model.Input) :
    GenP.read_pdb (toFS fs) (toObj i) = Model.readPdb fs i := by
  cases i with
  | str s => exact read_str fs s
  | bytes s => exact read_bytes fs s
  | path p => rw [toObj, read_path]; rfl
  | listStr l => rw [toObj, read_listStr]; cases l <;> rfl
  | listBytes l => rw [toObj, read_listBytes]; cases l <;> rfl
  | ndarrayStr l => rw [toObj, read_ndarrayStr]; cases l <;> rfl
  | ndarrayBytes l => rw [toObj, read_ndarrayBytes]; cases l <;> rfl

end Proofs.GenParse
