/-
  Helper lemmas for C02: the exported line of a row that fits (`Gen.data2pdb_line`) as segments, its column
  layout against `Spec.lineFailures`, and reading it back with `Spec.parseRecord`.  Helper lemmas only.
-/
import Mathlib.Tactic.SplitIfs
import Mathlib.Tactic.Linarith
import Mathlib.Tactic.NormNum
import Mathlib.Tactic.FieldSimp
import Mathlib.Tactic.Ring
import Mathlib.Tactic.Positivity
import PdbVerif.Gen.Str
import PdbVerif.Spec.C02
import PdbVerif.Proofs.Str
import PdbVerif.Proofs.Digits
import PdbVerif.Proofs.Format
import PdbVerif.Proofs.FormatXyz
import PdbVerif.Proofs.FormatLine
import PdbVerif.Proofs.Parse

set_option linter.unusedSimpArgs false
set_option linter.unusedVariables false
set_option linter.unnecessarySeqFocus false

namespace Proofs.Line
open Py

/-! ### the atom-name rule always yields a 4-column field that strips to the name -/

theorem atomname_shape (d : Atom) (h1 : 1 ≤ d.name.length) :
    ∃ nm, Gen._format_atomname d = .ok nm ∧
      (nm = center 4 d.name ∨ nm = ljust 4 d.name ∨ nm = rjust 4 d.name) := by
  -- written so as not to depend on the order or nesting of the branches of the translated function:
  -- unfold, evaluate `name[0]` (defined because the name is non-empty), split every `if`, close each leaf
  unfold Gen._format_atomname Py.len
  match hn : d.name, h1 with
  | c :: r, _ =>
    have g : Py.getItem1 (c :: r) (0 : Int) = .ok [c] := rfl
    simp only [g, bind, Except.bind, pure, Except.pure]
    split_ifs <;>
      first
        | exact ⟨_, rfl, Or.inl rfl⟩
        | exact ⟨_, rfl, Or.inr (Or.inl rfl)⟩
        | exact ⟨_, rfl, Or.inr (Or.inr rfl)⟩

theorem mem_pad {c : Char} {w : Nat} {s nm : Str}
    (h : nm = center w s ∨ nm = ljust w s ∨ nm = rjust w s) (hc : c ∈ nm) : c = ' ' ∨ c ∈ s := by
  rcases h with h | h | h <;> subst h <;> simp only [center, ljust, rjust, spaces, List.mem_append] at hc
  · rcases hc with (hc | hc) | hc
    · exact Or.inl (List.eq_of_mem_replicate hc)
    · exact Or.inr hc
    · exact Or.inl (List.eq_of_mem_replicate hc)
  · rcases hc with hc | hc
    · exact Or.inr hc
    · exact Or.inl (List.eq_of_mem_replicate hc)
  · rcases hc with hc | hc
    · exact Or.inl (List.eq_of_mem_replicate hc)
    · exact Or.inr hc

theorem no_nl_pad {w : Nat} {s nm : Str}
    (h : nm = center w s ∨ nm = ljust w s ∨ nm = rjust w s) (hs : '\n' ∉ s) : '\n' ∉ nm := by
  intro hc
  rcases mem_pad h hc with h | h
  · revert h; decide
  · exact hs h

theorem atomname_ok (d : Atom) (h1 : 1 ≤ d.name.length) (h4 : d.name.length ≤ 4) :
    ∃ nm, Gen._format_atomname d = .ok nm ∧ nm.length = 4 ∧ strip nm = strip d.name ∧
      ('\n' ∉ d.name → '\n' ∉ nm) := by
  obtain ⟨nm, hok, hsh⟩ := atomname_shape d h1
  refine ⟨nm, hok, ?_, ?_, no_nl_pad hsh⟩
  · rcases hsh with h | h | h <;> subst h
    · rw [center_length]; omega
    · rw [ljust_length]; omega
    · rw [rjust_length]; omega
  · rcases hsh with h | h | h <;> subst h
    · exact strip_center _ _
    · exact strip_ljust _ _
    · exact strip_rjust _ _

/-! ### the line as segments -/

def pieces (d : Atom) (nm sx sy sz : Str) : Pieces :=
  { serial := rjust 5 (intStr d.serial), name := nm, alt := rjust 1 d.altLoc, resn := rjust 3 d.resName,
    chain := rjust 1 d.chainID, resseq := rjust 4 (intStr d.resSeq), icode := rjust 1 d.iCode,
    x := sx, y := sy, z := sz, occ := fmtFloatR 6 2 d.occ, temp := fmtFloatR 6 2 d.temp,
    elem := rjust 2 d.element }

theorem data2pdb_line_eq (d : Atom) (nm sx sy sz : Str) (hn : Gen._format_atomname d = .ok nm)
    (hx : Gen._format_xyz d.x = .ok sx) (hy : Gen._format_xyz d.y = .ok sy) (hz : Gen._format_xyz d.z = .ok sz) :
    Gen.data2pdb_line d = .ok (pieces d nm sx sy sz).line := by
  unfold Gen.data2pdb_line
  simp only [hn, hx, hy, hz, bind, Except.bind, pure, Except.pure]
  have r10 : rep [' '] 10 = spaces 10 := by decide
  have r2 : rep [' '] 2 = spaces 2 := by decide
  rw [r10, r2]
  refine congrArg Except.ok ?_
  simp only [Pieces.line, Pieces.segs, pieces, List.flatten_cons, List.flatten_nil, List.append_nil, List.append_assoc]

/-- the code's alignment rule is the documented one, case by case -/
theorem atomname_nameField (d : Atom) (h1 : 1 ≤ d.name.length) (h4 : d.name.length ≤ 4) :
    Gen._format_atomname d = .ok (Spec.nameField d.name d.element) := by
  unfold Gen._format_atomname Py.len Spec.nameField
  match hn : d.name, h1, h4 with
  | [c], _, _ =>
    simp [pure, Except.pure, center, spaces]
  | [c, e], _, _ =>
    by_cases hel : [c, e] = d.element
    · simp [pure, Except.pure, ljust, spaces, ← hel]
    · simp [pure, Except.pure, center, spaces, hel]
  | [c, e, f], _, _ =>
    have g : Py.getItem1 [c, e, f] (0 : Int) = .ok [c] := rfl
    simp only [g, bind, Except.bind, pure, Except.pure, Proofs.Parse.strIn_digit]
    by_cases hdg : Spec.isDigitChar c = true
    · simp [hdg, ljust, spaces]
    · simp [hdg, rjust, spaces]
  | [c, e, f, g], _, _ =>
    simp [pure, Except.pure, center, spaces]

/-! ### exporting a row that fits -/

/-- the line `data2pdb` writes for the row `a`, as segments -/
def exportPieces (a : Atom) : Pieces :=
  pieces a (Spec.nameField a.name a.element)
    (fmtFloatR 8 (Proofs.Xyz.xyzClass a.x) a.x) (fmtFloatR 8 (Proofs.Xyz.xyzClass a.y) a.y)
    (fmtFloatR 8 (Proofs.Xyz.xyzClass a.z) a.z)

theorem rjust_len_eq (w : Nat) (s : Str) (h : s.length ≤ w) : (rjust w s).length = w := by
  rw [rjust_length]; omega

theorem export_wf (a : Atom) (hf : Spec.Fits a) (hx : Spec.CoordInRange a.x) (hy : Spec.CoordInRange a.y)
    (hz : Spec.CoordInRange a.z) : (exportPieces a).WF := by
  obtain ⟨s1, s2, r1, r2, n1, n4, ns, al, als, rn1, rn3, rns, cl, cs, il, is_, e1, e2, es, o1, o2, t1, t2, _⟩ := hf
  obtain ⟨nm, hnm, hlen, _, _⟩ := atomname_ok a n1 n4
  rw [atomname_nameField a n1 n4] at hnm
  have hnm' : Spec.nameField a.name a.element = nm := by injection hnm
  constructor
  · exact rjust_len_eq _ _ (intStr_length_le a.serial 4 (by norm_num; omega) (by norm_num; omega))
  · show (Spec.nameField a.name a.element).length = 4
    rw [hnm']; exact hlen
  · exact rjust_len_eq _ _ al
  · exact rjust_len_eq _ _ rn3
  · exact rjust_len_eq _ _ cl
  · exact rjust_len_eq _ _ (intStr_length_le a.resSeq 3 (by norm_num; omega) (by norm_num; omega))
  · exact rjust_len_eq _ _ il
  · exact fmtFloatR_length _ _ _ (Proofs.Xyz.width _ hx)
  · exact fmtFloatR_length _ _ _ (Proofs.Xyz.width _ hy)
  · exact fmtFloatR_length _ _ _ (Proofs.Xyz.width _ hz)
  · exact fmtFloatR_length _ _ _ (Proofs.Xyz.width2 _ o1 o2)
  · exact fmtFloatR_length _ _ _ (Proofs.Xyz.width2 _ t1 t2)
  · exact rjust_len_eq _ _ e2

theorem export_eq (a : Atom) (hf : Spec.Fits a) (hx : Spec.CoordInRange a.x) (hy : Spec.CoordInRange a.y)
    (hz : Spec.CoordInRange a.z) : Gen.data2pdb_line a = .ok (exportPieces a).line := by
  have n1 := hf.2.2.2.2.1
  have n4 := hf.2.2.2.2.2.1
  exact data2pdb_line_eq a _ _ _ _ (atomname_nameField a n1 n4)
    (Proofs.Xyz.format_xyz_eq _ hx) (Proofs.Xyz.format_xyz_eq _ hy) (Proofs.Xyz.format_xyz_eq _ hz)

theorem strip_nameField (a : Atom) (hf : Spec.Fits a) : strip (Spec.nameField a.name a.element) = a.name := by
  have n1 := hf.2.2.2.2.1
  have n4 := hf.2.2.2.2.2.1
  have ns := hf.2.2.2.2.2.2.1
  obtain ⟨nm, hnm, _, hs, _⟩ := atomname_ok a n1 n4
  rw [atomname_nameField a n1 n4] at hnm
  have hnm' : Spec.nameField a.name a.element = nm := by injection hnm
  rw [hnm', hs, ns]

/-- every clause of the column layout holds for the exported line -/
theorem lineFailures_nil (a : Atom) (hf : Spec.Fits a) (hx : Spec.CoordInRange a.x) (hy : Spec.CoordInRange a.y)
    (hz : Spec.CoordInRange a.z) : Spec.lineFailures a (exportPieces a).line = [] := by
  have w := export_wf a hf hx hy hz
  have hname := strip_nameField a hf
  obtain ⟨s1, s2, r1, r2, n1, n4, ns, al, als, rn1, rn3, rns, cl, cs, il, is_, e1, e2, es, o1, o2, t1, t2, _⟩ := hf
  unfold Spec.lineFailures
  simp only [Spec.cols, line_length w, c_record w, c_serial w, c_12 w, c_name w, c_alt w, c_resn w, c_21 w,
    c_chain w, c_resseq w, c_icode w, c_28 w, c_x w, c_y w, c_z w, c_occ w, c_temp w, c_67 w, c_elem w, c_79 w]
  have b1 : Spec.blank [' '] = true := by decide
  have b3 : Spec.blank [' ', ' ', ' '] = true := by decide
  have b10 : Spec.blank (spaces 10) = true := by decide
  have b2 : Spec.blank (spaces 2) = true := by decide
  have hrec : (['A', 'T', 'O', 'M', ' ', ' '] : Str) = "ATOM  ".toList := by decide
  simp only [exportPieces, pieces, strip_rjust, strip_intStr, hname, als, rns, cs, is_, es, b1, b3, b10, b2, hrec,
    Proofs.Xyz.coordOK_xyz _ hx, Proofs.Xyz.coordOK_xyz _ hy, Proofs.Xyz.coordOK_xyz _ hz,
    Proofs.Xyz.fixed2OK_fmt _ o1 o2, Proofs.Xyz.fixed2OK_fmt _ t1 t2, decide_true, if_true, List.append_nil]

/-! ### reading the exported line back -/

theorem fmtFloatR_no_nl (w k : Nat) (x : ℚ) : '\n' ∉ fmtFloatR w k x := by
  unfold fmtFloatR
  exact no_nl_pad (Or.inr (Or.inr rfl)) (fmtFixed_no_nl x k)

theorem rjust_no_nl (w : Nat) (s : Str) (h : '\n' ∉ s) : '\n' ∉ rjust w s :=
  no_nl_pad (Or.inr (Or.inr rfl)) h

theorem export_no_nl (a : Atom) (hf : Spec.Fits a) : '\n' ∉ (exportPieces a).line := by
  have n1 := hf.2.2.2.2.1
  have n4 := hf.2.2.2.2.2.1
  obtain ⟨nm, hnm, _, _, hnl⟩ := atomname_ok a n1 n4
  rw [atomname_nameField a n1 n4] at hnm
  have hnm' : Spec.nameField a.name a.element = nm := by injection hnm
  obtain ⟨_, _, _, _, _, _, _, _, _, _, _, _, _, _, _, _, _, _, _, _, _, _, _, l1, l2, l3, l4, l5, l6⟩ := hf
  have k1 : '\n' ∉ Spec.nameField a.name a.element := by rw [hnm']; exact hnl l1
  intro hc
  simp only [Pieces.line, Pieces.segs, exportPieces, pieces, List.mem_flatten, List.mem_cons, List.not_mem_nil,
    or_false] at hc
  obtain ⟨seg, hseg, hin⟩ := hc
  rcases hseg with h | h | h | h | h | h | h | h | h | h | h | h | h | h | h | h | h | h | h <;> subst h
  · revert hin; decide
  · exact rjust_no_nl _ _ (intStr_no_nl _) hin
  · revert hin; decide
  · exact k1 hin
  · exact rjust_no_nl _ _ l2 hin
  · exact rjust_no_nl _ _ l3 hin
  · revert hin; decide
  · exact rjust_no_nl _ _ l4 hin
  · exact rjust_no_nl _ _ (intStr_no_nl _) hin
  · exact rjust_no_nl _ _ l5 hin
  · revert hin; decide
  · exact fmtFloatR_no_nl _ _ _ hin
  · exact fmtFloatR_no_nl _ _ _ hin
  · exact fmtFloatR_no_nl _ _ _ hin
  · exact fmtFloatR_no_nl _ _ _ hin
  · exact fmtFloatR_no_nl _ _ _ hin
  · revert hin; decide
  · exact rjust_no_nl _ _ l6 hin
  · revert hin; decide

theorem takeWhile_all {α : Type} (q : α → Bool) (l : List α) (h : ∀ c ∈ l, q c = true) : l.takeWhile q = l := by
  induction l with
  | nil => rfl
  | cons c r ih =>
    rw [List.takeWhile_cons, h c (by simp)]
    simp only [if_true]
    rw [ih (fun d hd => h d (by simp [hd]))]

theorem recordText_of_no_nl (l : Str) (h : '\n' ∉ l) : Spec.recordText l = l := by
  unfold Spec.recordText
  apply takeWhile_all
  intro c hc
  simp only [decide_eq_true_eq]
  intro e; subst e; exact h hc

theorem pad80_of_length (l : Str) (h : l.length = 80) : Spec.pad80 l = l := by
  unfold Spec.pad80; rw [h]; simp

/-- the row read back from the exported line: text and integer attributes unchanged, every real attribute
    rounded to the number of decimals it was printed with -/
def readBack (a : Atom) : Atom :=
  { a with x := Py.round a.x (Proofs.Xyz.xyzClass a.x), y := Py.round a.y (Proofs.Xyz.xyzClass a.y),
           z := Py.round a.z (Proofs.Xyz.xyzClass a.z), occ := Py.round a.occ 2, temp := Py.round a.temp 2 }

theorem parseRecord_export (a : Atom) (hf : Spec.Fits a) (hch : a.chainID ≠ [])
    (hx : Spec.CoordInRange a.x) (hy : Spec.CoordInRange a.y) (hz : Spec.CoordInRange a.z) (n : Int) :
    Spec.parseRecord (exportPieces a).line n = .ok ({ readBack a with model := n }).toRow := by
  have w := export_wf a hf hx hy hz
  have hname := strip_nameField a hf
  have hnl := export_no_nl a hf
  obtain ⟨s1, s2, r1, r2, n1, n4, ns, al, als, rn1, rn3, rns, cl, cs, il, is_, e1, e2, es, o1, o2, t1, t2, _⟩ := hf
  unfold Spec.parseRecord
  rw [recordText_of_no_nl _ hnl]
  have h80 := line_length w
  have : ¬ ((exportPieces a).line.length > 80) := by omega
  simp only [this, if_false, pad80_of_length _ h80]
  simp only [Spec.cols, c_serial w, c_name w, c_alt w, c_resn w, c_chain w, c_resseq w, c_icode w, c_x w, c_y w,
    c_z w, c_occ w, c_temp w, c_elem w]
  have hel : a.element ≠ [] := by intro h; rw [h] at e1; simp at e1
  have hocc : fmtFixed a.occ 2 ≠ [] := fmtFixed_ne_nil _ _
  have htemp : fmtFixed a.temp 2 ≠ [] := fmtFixed_ne_nil _ _
  simp only [exportPieces, pieces, strip_rjust, strip_intStr, hname, als, rns, cs, is_, es, strip_fmtFloatR,
    parseFloat_fmtFixed, hch, hel, hocc, htemp, if_false, bind, Except.bind, pure, Except.pure]
  have p1 : parseInt (intStr a.serial) = .ok a.serial := parseInt_intStr _
  have p2 : parseInt (intStr a.resSeq) = .ok a.resSeq := parseInt_intStr _
  simp only [p1, p2]
  rfl

/-! ### the read-back row against the original -/

theorem readBackOK_export (a : Atom) :
    Spec.readBackOK a (readBack a) (Proofs.Xyz.xyzClass a.x) (Proofs.Xyz.xyzClass a.y) (Proofs.Xyz.xyzClass a.z) = true := by
  have e : ∀ (x : ℚ) (k : Nat), Spec.absR (x - Py.round x k) ≤ Spec.halfUnit k + Spec.reprSlack x := by
    intro x k
    rw [Proofs.Xyz.absR_eq_abs, abs_sub_comm]
    linarith [Proofs.Xyz.round_err x k, Proofs.Xyz.reprSlack_nonneg x]
  have h2 : Spec.halfUnit 2 = 1 / 200 := by unfold Spec.halfUnit; norm_num
  have e2 : ∀ (x : ℚ), Spec.absR (x - Py.round x 2) ≤ 1 / 200 + Spec.reprSlack x := by
    intro x; rw [← h2]; exact e x 2
  unfold Spec.readBackOK readBack
  simp only [decide_true, Bool.true_and, Bool.and_true, e, e2, Bool.and_self]

/-! ### rounding twice; values that are already decimal -/

theorem round_scaled (m : ℤ) (k : ℕ) :
    Py.round ((m : ℚ) / ((pow10 k : ℕ) : ℚ)) k = (m : ℚ) / ((pow10 k : ℕ) : ℚ) := by
  have hp := pow10_cast_pos k
  rw [round_eq]
  have : (m : ℚ) / ((pow10 k : ℕ) : ℚ) * ((pow10 k : ℕ) : ℚ) = (m : ℚ) := by field_simp
  rw [this, roundHE_intCast]

theorem round_round (x : ℚ) (k : ℕ) : Py.round (Py.round x k) k = Py.round x k := by
  rw [round_eq x k]; exact round_scaled _ k

theorem fxN_round (x : ℚ) (k : ℕ) : fxN (Py.round x k) k = fxN x k := by
  have hp := pow10_cast_pos k
  unfold fxN
  rw [round_eq]
  have : (roundHE (x * ((pow10 k : ℕ) : ℚ)) : ℚ) / ((pow10 k : ℕ) : ℚ) * ((pow10 k : ℕ) : ℚ) =
      (roundHE (x * ((pow10 k : ℕ) : ℚ)) : ℚ) := by field_simp
  rw [this, roundHE_intCast]

/-- printing the rounded value prints the same text, unless a negative value rounded to zero
    (the model has no negative zero) -/
theorem fmtFixed_round (x : ℚ) (k : ℕ) (h : ¬ (x < 0 ∧ Py.round x k = 0)) :
    fmtFixed (Py.round x k) k = fmtFixed x k := by
  have hp := pow10_cast_pos k
  rw [fmtFixed_eq, fmtFixed_eq]
  have hN := fxN_round x k
  have hI : fxI (Py.round x k) k = fxI x k := by unfold fxI fxM; rw [hN]
  have hF : fxF (Py.round x k) k = fxF x k := by unfold fxF fxM; rw [hN]
  rw [hI, hF]
  have hsign : (Py.round x k < 0) ↔ (x < 0) := by
    have hr : Py.round x k = ((fxN x k : ℤ) : ℚ) / ((pow10 k : ℕ) : ℚ) := round_eq x k
    constructor
    · intro hlt
      by_contra hx
      have := fxN_nonneg k hx
      have : (0 : ℚ) ≤ Py.round x k := by rw [hr]; apply div_nonneg; exact_mod_cast this; exact hp.le
      linarith
    · intro hx
      have hn := fxN_nonpos k hx
      have hne : Py.round x k ≠ 0 := fun h0 => h ⟨hx, h0⟩
      have hle : Py.round x k ≤ 0 := by
        rw [hr]; apply div_nonpos_of_nonpos_of_nonneg; exact_mod_cast hn; exact hp.le
      exact lt_of_le_of_ne hle hne
  by_cases hx : x < 0
  · simp only [hx, hsign.mpr hx, if_true]
  · have : ¬ Py.round x k < 0 := fun h => hx (hsign.mp h)
    simp only [hx, this, if_false]

end Proofs.Line
