/-
  The table accessor of the translated contact code, `Py.Tbl.select` (Py/Dict.lean), IS the selection of C03:
  `Spec.selected` (Spec/C03.lean: the atoms for which every keyword condition holds, each once, in input order, with their
  positions) on the table of the atoms, for the three shapes of `self.get(...)` that interface.py uses —
  `chainID=c`, `rowID=[...]`, `chainID=c, resName=n, resSeq=s` — with the condition the translator emits for each keyword
  (`key=value` → equality, `key=[values]` → membership).  (That `get` computes `Spec.get` is C03 / C03K.)
-/
import PdbVerif.Py.Dict
import PdbVerif.Spec.C03

set_option linter.unusedVariables false

namespace Proofs.GenContacts
open Tbl

/-- the ATOM table of a structure without added columns -/
def tableOf (t : List Py.Atom) : Tbl.Table := t.map (fun a => { atom := a })

/-- a translated accessor whose condition agrees with the C03 conditions `q` row by row selects what C03 selects -/
theorem select_eq_spec {β : Type} (t : List Py.Atom) (q : List Spec.Cond) (cond : Py.Tbl.IRow → Bool) (proj : Py.Tbl.IRow → β)
    (h : ∀ a i, cond (a, i) = Spec.sat [] q ({ atom := a }, i)) :
    Py.Tbl.select t cond proj = (Spec.selected [] (tableOf t) q).map (fun ri => proj (ri.1.atom, ri.2)) := by
  simp only [Py.Tbl.select, Spec.selected, tableOf, List.zipIdx_map, List.filter_map, List.map_map]
  congr 1
  apply List.filter_congr
  intro x _
  exact h x.1 x.2

theorem holds_chainID (c : Py.Str) (a : Py.Atom) (i : Nat) :
    Spec.Cond.holds [] ⟨.std .chainID, false, [.text c]⟩ i { atom := a } = decide (a.chainID = c) := by
  simp only [Spec.Cond.holds, Spec.isNumeric, StdCol.kind, Tbl.cell, Row.std, Spec.valMatches, List.any_cons, List.any_nil, Bool.or_false, Bool.bne_false]
  rw [Bool.eq_iff_iff]
  simp

theorem holds_resName (n : Py.Str) (a : Py.Atom) (i : Nat) :
    Spec.Cond.holds [] ⟨.std .resName, false, [.text n]⟩ i { atom := a } = decide (a.resName = n) := by
  simp only [Spec.Cond.holds, Spec.isNumeric, StdCol.kind, Tbl.cell, Row.std, Spec.valMatches, List.any_cons, List.any_nil, Bool.or_false, Bool.bne_false]
  rw [Bool.eq_iff_iff]
  simp

theorem holds_resSeq (s : Int) (a : Py.Atom) (i : Nat) :
    Spec.Cond.holds [] ⟨.std .resSeq, false, [.int s]⟩ i { atom := a } = decide (a.resSeq = s) := by
  simp only [Spec.Cond.holds, Spec.isNumeric, StdCol.kind, Tbl.cell, Row.std, Spec.valMatches, List.any_cons, List.any_nil, Bool.or_false, Bool.bne_false]
  rw [Bool.eq_iff_iff]
  simp

theorem holds_rowID (S : List Nat) (a : Py.Atom) (i : Nat) :
    Spec.Cond.holds [] ⟨.rowID, false, List.map (fun (k : Nat) => Val.int (k : Int)) S⟩ i { atom := a } = decide (i ∈ S) := by
  simp only [Spec.Cond.holds, Spec.isNumeric, Tbl.cell, List.any_map, Function.comp_def, Spec.valMatches, Bool.bne_false]
  induction S with
  | nil => simp
  | cons k S ih =>
    simp only [List.any_cons, ih, List.mem_cons]
    by_cases h : i = k
    · simp [h]
    · have : ¬ ((i : Int) = (k : Int)) := fun e => h (Int.ofNat_inj.mp e)
      simp [h, this]

/-- `self.get(cols, chainID=c)` -/
theorem select_chain_is_c03 {β : Type} (t : List Py.Atom) (c : Py.Str) (proj : Py.Tbl.IRow → β) :
    Py.Tbl.select t (fun r => decide (r.1.chainID = c)) proj =
      (Spec.selected [] (tableOf t) [⟨.std .chainID, false, [.text c]⟩]).map (fun ri => proj (ri.1.atom, ri.2)) :=
  select_eq_spec t _ _ proj (fun a i => by simp [Spec.sat, holds_chainID])

/-- `self.get(cols, rowID=[...])` -/
theorem select_rowID_is_c03 {β : Type} (t : List Py.Atom) (S : List Nat) (proj : Py.Tbl.IRow → β) :
    Py.Tbl.select t (fun r => decide (r.2 ∈ S)) proj =
      (Spec.selected [] (tableOf t) [⟨.rowID, false, List.map (fun (k : Nat) => Val.int (k : Int)) S⟩]).map (fun ri => proj (ri.1.atom, ri.2)) :=
  select_eq_spec t _ _ proj (fun a i => by simp [Spec.sat, holds_rowID])

/-- `self.get(cols, chainID=c, resName=n, resSeq=s)` -/
theorem select_residue_is_c03 {β : Type} (t : List Py.Atom) (c n : Py.Str) (s : Int) (proj : Py.Tbl.IRow → β) :
    Py.Tbl.select t (fun r => decide (r.1.chainID = c) && decide (r.1.resName = n) && decide (r.1.resSeq = s)) proj =
      (Spec.selected [] (tableOf t) [⟨.std .chainID, false, [.text c]⟩, ⟨.std .resName, false, [.text n]⟩, ⟨.std .resSeq, false, [.int s]⟩]).map
        (fun ri => proj (ri.1.atom, ri.2)) :=
  select_eq_spec t _ _ proj (fun a i => by simp [Spec.sat, holds_chainID, holds_resName, holds_resSeq, Bool.and_assoc])

end Proofs.GenContacts
