/-
  C17 side of the tie: the final queries of the chunked path of `get` (`SELECT … WHERE rowID in (?,…)`, translated turn
  `GenSql.get_rows_step`) mean "the listed rows in table order" — the summands of `Model.fetchRows`; `Model.chunks` are the
  slices the source takes; the translated loop leaves through the chunked branch exactly when `Model.scan` says so.
-/
import PdbVerif.Proofs.SqlTie

set_option linter.unusedVariables false
set_option linter.unusedSimpArgs false

namespace SqlProofs
open Tbl Model MicroSql GenSql

/-! ### the chunked path: the final queries `SELECT … WHERE rowID in (?,…)` -/

/-- the condition of the final query of the chunked path for the rows `c` (0-based positions) -/
def rowSpec (c : List Int) : CondSpec := { name := rowIDName, neg := false, vals := c.map (fun r => Val.int (r + 1)) }

/-- **normal form of the translated turn of the final loop** -/
theorem get_rows_step_nf (columns tn : Py.Str) (rows : List Int) (i size : Int) :
    get_rows_step columns tn rows i size =
      (selectText columns tn [rowSpec (Rt.slice rows i (i + size))], (Rt.slice rows i (i + size)).map (fun r => r + 1)) := by
  simp [get_rows_step, selectText, selectHead, rowSpec, CondSpec.text, condText, qmarks, Rt.join, Rt.len, rowIDName]

theorem rowSpec_vals (c : List Int) : (c.map (fun r => r + 1)).map Val.int = (rowSpec c).vals := by
  simp [rowSpec]

/-- **the final query of the chunked path means: the listed rows, in table order, projected on the columns** — the
    text and the rowids of the translated turn, evaluated by MicroSql, are the model's
    `sqlSelect … [rowID in (r+1 …)]` that `Model.fetchRows` concatenates -/
theorem rows_step_eq_model (db : Db) (columns tn : Py.Str) (rows : List Int) (i size : Int)
    (hc : colsPlain columns = true) (ht : isName tn = true) (hrow : sqlCol db rowIDName = some .rowID) :
    MicroSql.query db (get_rows_step columns tn rows i size).1 ((get_rows_step columns tn rows i size).2.map Val.int) =
      (match findTab db tn with
       | none => .error .operational
       | some tab =>
         match sqlCols db columns with
         | .error e => .error e
         | .ok cols => .ok (sqlSelect db tab cols
             [{ col := .rowID, neg := false, vals := (Rt.slice rows i (i + size)).map (fun r => Val.int (r + 1)) }])) := by
  rw [get_rows_step_nf]
  simp only [rowSpec_vals]
  have hname : ∀ s ∈ [rowSpec (Rt.slice rows i (i + size))], isName s.name = true := by
    intro s hs; simp only [List.mem_singleton] at hs; subst hs; show isName rowIDName = true; decide
  unfold MicroSql.query
  rw [parse_selectText columns tn _ hc ht (by simp) hname]
  have hcs : sqlConds db [rowSpec (Rt.slice rows i (i + size))] =
      some [{ col := .rowID, neg := false, vals := (Rt.slice rows i (i + size)).map (fun r => Val.int (r + 1)) }] := by
    simp [sqlConds, rowSpec, hrow]
  have := execSelect_eq db columns tn [rowSpec (Rt.slice rows i (i + size))] _ hc hcs
  simp only [List.flatMap_cons, List.flatMap_nil, List.append_nil] at this
  exact this


/-! #### `Model.chunks` are the slices `rows[i:i + chunck_size]` at `i = 0, size, 2·size, …` -/

theorem slice_nat {α : Type} (l : List α) (a n : Nat) : Rt.slice l (a : Int) ((a : Int) + (n : Int)) = (l.drop a).take n := by
  unfold Rt.slice Py.normIdx
  have h1 : ¬ ((a : Int) + (n : Int) < 0) := by omega
  have h2 : ¬ ((a : Int) < 0) := by omega
  simp only [h1, h2, if_false]
  have e1 : ((a : Int) + (n : Int)).toNat = a + n := by omega
  rw [e1, Int.toNat_natCast]
  by_cases ha : a ≤ l.length
  · rw [Nat.min_eq_left ha, ← List.take_eq_take_min, List.drop_take]
    congr 1; omega
  · have ha' : l.length ≤ a := by omega
    rw [Nat.min_eq_right ha', Nat.min_eq_right (by omega), List.take_length, List.drop_length, List.drop_of_length_le ha']
    simp

theorem chunksAux_getElem {α : Type} (n : Nat) : ∀ (j f : Nat) (l : List α) (c : List α),
    (Model.chunksAux n f l)[j]? = some c → c = (l.drop (j * n)).take n
  | j, 0, l, c, h => by simp [Model.chunksAux] at h
  | 0, f + 1, l, c, h => by
    unfold Model.chunksAux at h
    by_cases he : l.isEmpty = true
    · simp [he] at h
    · simp only [he, if_false, Bool.false_eq_true, List.getElem?_cons_zero, Option.some.injEq] at h
      simp [← h]
  | j + 1, f + 1, l, c, h => by
    unfold Model.chunksAux at h
    by_cases he : l.isEmpty = true
    · simp [he] at h
    · simp only [he, if_false, Bool.false_eq_true, List.getElem?_cons_succ] at h
      have := chunksAux_getElem n j f (l.drop n) c h
      rw [this, List.drop_drop]
      congr 2; rw [Nat.succ_mul]; omega

/-- the j-th chunk of `Model.chunks` is the slice the source takes at `i = j · chunck_size` -/
theorem chunks_getElem {α : Type} (n : Nat) (l : List α) (j : Nat) (c : List α) (h : (Model.chunks n l)[j]? = some c) :
    c = Rt.slice l ((j * n : Nat) : Int) (((j * n : Nat) : Int) + (n : Int)) := by
  rw [slice_nat]; exact chunksAux_getElem n j _ l c h

/-- **`Model.fetchRows`, summand by summand**: the j-th turn of the translated final loop (`i = j·max_sql_values`),
    evaluated by MicroSql, returns the j-th summand of `Model.fetchRows` -/
theorem fetchRows_turn (db : Db) (columns tn : Py.Str) (tab : Tab) (cols : List Col) (sorted : List Int)
    (hc : colsPlain columns = true) (ht : isName tn = true) (hrow : sqlCol db rowIDName = some .rowID)
    (hfind : findTab db tn = some tab) (hcols : sqlCols db columns = .ok cols) (j : Nat) (c : List Int)
    (hj : (Model.chunks Gen.max_sql_values sorted)[j]? = some c) :
    MicroSql.query db (get_rows_step columns tn sorted ((j * Gen.max_sql_values : Nat) : Int) (Gen.max_sql_values : Int)).1
        ((get_rows_step columns tn sorted ((j * Gen.max_sql_values : Nat) : Int) (Gen.max_sql_values : Int)).2.map Val.int) =
      .ok (sqlSelect db tab cols [{ col := .rowID, neg := false, vals := c.map (fun r => Val.int (r + 1)) }]) := by
  rw [rows_step_eq_model db columns tn sorted _ _ hc ht hrow, hfind, hcols, ← chunks_getElem _ _ _ _ hj]


/-! #### when the chunked path is taken -/

theorem scan_specs (db : Db) : ∀ (kw : List Kw), KeysResolve db kw →
    (match specsOf kw with
     | .error e => scan db kw = .error (errOf e)
     | .ok none => ∃ idx key neg vs, scan db kw = .ok (.long idx key neg vs)
     | .ok (some ss) => ∃ cs n, scan db kw = .ok (.conds cs n))
  | [], _ => ⟨[], 0, rfl⟩
  | k :: rest, hk => by
    have ih := scan_specs db rest (fun x hx => hk x (by simp [hx]))
    obtain ⟨c, hc⟩ := Option.isSome_iff_exists.1 (hk k (by simp))
    have hg := genVals_eq_model (stripNo k.key).2 k.arg
    simp only [specsOf, scan]
    by_cases hl : isLong k.arg = true
    · simp only [hl, if_true]; exact ⟨_, _, _, _, rfl⟩
    · simp only [hl, if_false, Bool.false_eq_true]
      cases hgv : genVals (stripNo k.key).2 k.arg with
      | error e => rw [hgv] at hg; simp only [Except.mapError] at hg; simp only [← hg]
      | ok t =>
        rw [hgv] at hg; simp only [Except.mapError] at hg
        simp only [← hg, Model.mkCond, hc]
        cases hs : specsOf rest with
        | error e => rw [hs] at ih; simp only [] at ih; simp only [ih]
        | ok o =>
          rw [hs] at ih
          cases o with
          | none => obtain ⟨i, key, ng, vs, h⟩ := ih; simp only [h]; exact ⟨_, _, _, _, rfl⟩
          | some ss => obtain ⟨cs, n, h⟩ := ih; simp only [h]; exact ⟨_, _, rfl⟩

/-- **the translated loop leaves through the chunked branch exactly when the model's `scan` meets an over-long list** -/
theorem chunked_iff (db : Db) (columns tn : Py.Str) (kw : List Kw) (hkr : KeysResolve db kw) :
    (∃ idx key neg vs, scan db kw = .ok (.long idx key neg vs)) ↔ get_query columns tn kw = .ok (.ret ()) := by
  have h := scan_specs db kw hkr
  rw [get_query_nf]
  cases hs : specsOf kw with
  | error e =>
    rw [hs] at h; simp only [] at h
    simp [h, queryResult]
  | ok o =>
    rw [hs] at h
    cases o with
    | none => simp only [] at h; simp only [queryResult, iff_true]; exact h
    | some ss =>
      obtain ⟨cs, n, h⟩ := h
      simp only [h, queryResult]
      constructor
      · rintro ⟨_, _, _, _, h'⟩; cases h'
      · intro h'
        by_cases hm : (ss.flatMap (·.vals)).length > Gen.SQLITE_LIMIT_VARIABLE_NUMBER
        · rw [if_pos hm] at h'; cases h'
        · rw [if_neg hm] at h'; cases h'

end SqlProofs
