/-
  The translated wrappers and modifying methods of Gen/Get.lean against the hand models of Model/Table.lean:
  `get_xyz`, `get_residues`, `get_chains` (through `get_eq_model`), `update_column`, `add_column` (through the SQL tie of
  Proofs/SqlUpdate, SqlAlter), `update` (validation, shape checks before anything is modified, the rowID selection through the
  translated `get`, statement and rows run by MicroSql) and `update_xyz`.
-/
import PdbVerif.Proofs.GenGet

set_option linter.unusedVariables false
set_option linter.unusedSimpArgs false

namespace GenGetProofs
open Tbl Model MicroSql GenSql SqlProofs GenG

/-! ### wrappers of `get` -/

theorem get_xyz_eq_model (db : Db) (tn : Py.Str) (kw : List Kw) (hp : PlainNames "x,y,z".toList tn kw)
    (hrow : sqlCol db rowIDName = some .rowID) (hnd : (kw.map (·.key)).Nodup) :
    GenG.get_xyz db tn kw = Model.get_xyz db tn kw := by
  unfold GenG.get_xyz get_xyz_body Model.get_xyz
  have hlit : ("x,y,z".toList : Py.Str) = ['x', ',', 'y', ',', 'z'] := rfl
  rw [hlit] at hp ⊢
  simp only [bind, Except.bind, get_eq_model db _ tn kw hp hrow hnd]

theorem rows_eq (r : Model.Result) : E.rows r = (match r with
    | .models _ => .error .typeError
    | .data items => items.mapM itemRow) := by
  cases r with
  | models p => rfl
  | data items =>
    simp only [E.rows]
    congr 1

theorem firstOcc_eq {α : Type} [DecidableEq α] (l : List α) : E.firstOcc l = Model.firstOcc l := by
  induction l with
  | nil => rfl
  | cons a t ih => simp [E.firstOcc, Model.firstOcc, ih]

theorem get_residues_eq_model (db : Db) (tn : Py.Str) (kw : List Kw) (hp : PlainNames "chainID,resName,resSeq".toList tn kw)
    (hrow : sqlCol db rowIDName = some .rowID) (hnd : (kw.map (·.key)).Nodup) :
    GenG.get_residues db tn kw = Model.get_residues db tn kw := by
  unfold GenG.get_residues get_residues_body Model.get_residues
  have hlit : ("chainID,resName,resSeq".toList : Py.Str) =
      ['c', 'h', 'a', 'i', 'n', 'I', 'D', ',', 'r', 'e', 's', 'N', 'a', 'm', 'e', ',', 'r', 'e', 's', 'S', 'e', 'q'] := rfl
  rw [hlit] at hp ⊢
  simp only [bind, Except.bind, get_eq_model db _ tn kw hp hrow hnd, rows_eq, List.map_id', firstOcc_eq]
  cases Model.get db _ tn kw with
  | error e => rfl
  | ok r =>
    cases r with
    | models p => rfl
    | data items => simp only []; cases List.mapM itemRow items <;> rfl

theorem textSet_eq (r : Model.Result) : E.textSet r = (match r with
    | .models _ => .error .typeError
    | .data items => items.mapM itemText) := by
  cases r with
  | models p => rfl
  | data items =>
    simp only [E.textSet]
    congr 1

theorem get_chains_eq_model (db : Db) (tn : Py.Str) (kw : List Kw) (hp : PlainNames "chainID".toList tn kw)
    (hrow : sqlCol db rowIDName = some .rowID) (hnd : (kw.map (·.key)).Nodup) :
    GenG.get_chains db tn kw = Model.get_chains db tn kw := by
  unfold GenG.get_chains get_chains_body Model.get_chains
  have hlit : ("chainID".toList : Py.Str) = ['c', 'h', 'a', 'i', 'n', 'I', 'D'] := rfl
  rw [hlit] at hp ⊢
  simp only [bind, Except.bind, get_eq_model db _ tn kw hp hrow hnd, textSet_eq, E.sortedStr]
  cases Model.get db _ tn kw with
  | error e => rfl
  | ok r =>
    cases r with
    | models p => rfl
    | data items => simp only []; cases List.mapM itemText items <;> rfl

/-! ### `update_column`, `add_column` -/

theorem run_many (su : E.SelfUpdate) (db : Db) (q : Py.Str) (d : List (List Val)) :
    E.run su db (.ok (E.Plan.mk [] (E.Effect.many q d))) = MicroSql.executemany db q d := by
  simp only [E.run, E.runPlan, E.runCalls, E.runEffect, E.executemany]

theorem update_column_body_nf (sg : SelfGet) (db : Db) (colname : Py.Str) (values : List Val) (index : Option (List Val)) (tn : Py.Str) :
    update_column_body sg db colname values index tn =
      (match update_column_exec colname values index tn with
       | .error e => .error (errOf e)
       | .ok (q, d) => .ok (E.Plan.mk [] (E.Effect.many q d))) := by
  unfold update_column_body update_column_exec
  cases index with
  | none => rfl
  | some idx =>
    simp only [bind, Except.bind, py_eq]
    generalize (List.mapM _ (List.zip values idx) : Except GErr (List (List Val))) = m
    cases m <;> rfl

/-- **`GenG.update_column = Model.updateColumn`**, every value list and index list (`index=None`: all rows in order;
    `zip` truncates; `int(ind)` errors) -/
theorem update_column_eq_model (db : Db) (colname : Py.Str) (values : List Val) (index : Option (List Val)) (tn : Py.Str)
    (ht : isName tn = true) (hc : isName colname = true) (hrow : sqlCol db rowIDName = some .rowID) :
    GenG.update_column db colname values index tn = Model.updateColumn db colname values index tn := by
  rw [updateColumn_eq_sql db colname values index tn ht hc hrow]
  unfold GenG.update_column
  rw [update_column_body_nf]
  cases update_column_exec colname values index tn with
  | error e => rfl
  | ok r => obtain ⟨q, d⟩ := r; exact run_many _ db q d

/-- **`GenG.add_column = Model.addColumn`** for every way `str` renders the value as a literal SQLite reads back as that value -/
theorem add_column_eq_model (db : Db) (str : Val → Py.Str) (colname coltype : Py.Str) (value : Val) (tn : Py.Str)
    (ht : isName tn = true) (hn : NoQuote colname) (hty : IsWord coltype) (hlit : IsWord (str value))
    (hval : litVal (str value) = some value) :
    GenG.add_column str db colname coltype value tn = Model.addColumn db colname coltype value tn := by
  rw [← addColumn_eq_sql db str colname coltype value tn ht hn hty hlit hval]
  rfl

/-! ### `update` -/

theorem update_for_i_nf (sg : SelfGet) (db : Db) (valid : List Py.Str) (i : Py.Str) (st : Unit) :
    update_for_i sg db valid i st = if valid.contains i = true then .ok () else .error .valueError := by
  unfold update_for_i
  by_cases h : i ∈ valid
  · simp [h, pure, Except.pure]
  · simp [h, raise_value]

theorem validate_upd_eq (sg : SelfGet) (db : Db) (columns : Py.Str) :
    E.unit (if columns ≠ ['*'] then
        (E.forM (Py.splitOn ',' columns) () (fun it_ st_ => update_for_i sg db (E.get_colnames db) it_ st_)).bind (fun _ => pure ())
      else pure ()) = if validColsUpdate db columns = true then .ok () else .error .valueError := by
  have hb : (fun (it_ : Py.Str) (st_ : Unit) => update_for_i sg db (E.get_colnames db) it_ st_) =
      (fun it _ => if (fun i => db.colnames.contains i) it = true then .ok () else .error .valueError) := by
    funext it_ st_; rw [update_for_i_nf]; rfl
  rw [hb, forM_guard]
  unfold validColsUpdate E.unit
  rw [star_lit]
  by_cases hs : columns = ['*']
  · simp [hs, pure, Except.pure]
  · by_cases ha : (Py.splitOn ',' columns).all (fun i => db.colnames.contains i) = true
    · simp only [hs, ha, if_true, ne_eq, not_false_eq_true, decide_false, Bool.false_or, Except.bind]; rfl
    · simp only [hs, ha, if_false, ne_eq, not_false_eq_true, if_true, decide_false, Bool.false_or, Except.bind]; rfl

/-- a loop that appends one computed element per turn is a `mapM` -/
theorem forM_append_E {α β : Type} (f : α → Except Model.Err β) : ∀ (xs : List α) (acc : List β),
    E.forM xs acc (fun it st => (f it).map (fun y => st ++ [y])) = (xs.mapM f).map (acc ++ ·)
  | [], acc => by simp [E.forM, Except.map, pure, Except.pure]
  | x :: xs, acc => by
    simp only [E.forM, List.mapM_cons, bind, Except.bind]
    cases h : f x with
    | error e => rfl
    | ok y =>
      show E.forM xs (acc ++ [y]) (fun it st => (f it).map (fun y => st ++ [y])) = _
      rw [forM_append_E f xs (acc ++ [y])]
      cases List.mapM f xs <;> simp [Except.map, pure, Except.pure]

theorem update_for_i_val_nf (sg : SelfGet) (db : Db) (rowID : List Int) (it : Int × List Val) (st : List (List Val)) :
    update_for_i_val sg db rowID it st = ((updateRow rowID it).mapError errOf).map (fun y => st ++ [y]) := by
  unfold update_for_i_val updateRow
  simp only [bind, Except.bind, py_eq, map_to_sql_value]
  cases Rt.getItem rowID it.1 <;> rfl

/-- the rows loop and the final `executemany` of the translated `update` = the fragment `GenSql.update_exec` run by MicroSql -/
theorem update_exec_run (sg : SelfGet) (su : E.SelfUpdate) (db : Db) (tn : Py.Str) (cols : List Py.Str) (values : List (List Val)) (rowID : List Int) :
    E.run su db ((E.forM (Rt.enumerate values) [] (fun it_ st_ => update_for_i_val sg db rowID it_ st_)).bind (fun st =>
      pure (E.Plan.mk [] (E.Effect.many
        (['U', 'P', 'D', 'A', 'T', 'E', ' '] ++ tn ++ [' ', 'S', 'E', 'T', ' '] ++ Rt.join [',', ' '] (List.map (fun x => x ++ ['=', '?']) cols) ++
          [' ', 'W', 'H', 'E', 'R', 'E', ' ', 'r', 'o', 'w', 'I', 'D', '=', '?']) st)))) =
      (match update_exec tn cols values rowID with
       | .error e => (db, Except.error (errOf e))
       | .ok (text, data) => MicroSql.executemany db text data) := by
  have hb : (fun (it_ : Int × List Val) (st_ : List (List Val)) => update_for_i_val sg db rowID it_ st_) =
      (fun it st => ((fun it => (updateRow rowID it).mapError errOf) it).map (fun y => st ++ [y])) := by
    funext it_ st_; rw [update_for_i_val_nf]
  rw [hb, forM_append_E, update_exec_nf, ← mapM_mapError (updateRow rowID) _ errOf (fun x => rfl)]
  cases List.mapM (updateRow rowID) (Rt.enumerate values) with
  | error e => rfl
  | ok d =>
    simp only [Except.mapError, Except.map, List.nil_append, Except.bind, pure, Except.pure]
    rw [run_many]
    simp [updateText]

theorem any_len (values : List (List Val)) (cols : List Py.Str) :
    (List.any values (fun val => decide ((Rt.len val) ≠ (Rt.len cols)))) = values.any (fun val => val.length ≠ cols.length) := by
  induction values with
  | nil => rfl
  | cons v t ih =>
    simp only [List.any_cons, ih]
    congr 1
    simp [Rt.len]

theorem strIn_comma : ∀ (s : Py.Str), Py.strIn [','] s = s.contains ','
  | [] => rfl
  | c :: t => by
    have ih := strIn_comma t
    by_cases h : c = ','
    · subst h; simp [Py.strIn, List.isPrefixOf]
    · have h2 : ¬ (',' = c) := fun e => h e.symm
      have h' : (',' == c) = false := by
        cases hc : (',' == c) with
        | false => rfl
        | true => exact absurd (beq_iff_eq.1 hc) h2
      simp [Py.strIn, List.isPrefixOf, h, h', h2, ih]

/-- the body of `update` after the dispatch, for the column list `cols` -/
def coreVia (db : Db) (cols : List Py.Str) (values : List (List Val)) (tn : Py.Str) (kw : List Kw) : Db × Except Model.Err Unit :=
  match values with
  | [] => (db, .error .indexError)
  | _ :: _ =>
    if values.any (fun val => val.length ≠ cols.length) then (db, .error .valueError) else
    match Model.get db rowIDName tn kw >>= asInts with
    | .error e => (db, .error e)
    | .ok rowID =>
      if rowID.length ≠ values.length then (db, .error .valueError) else
      match update_exec tn cols values rowID with
      | .error e => (db, .error (errOf e))
      | .ok (text, data) => MicroSql.executemany db text data

/-- the shape checks of the translated `update`, in the order of the source, around any continuation `K` that agrees with the
    fragment `GenSql.update_exec` run by MicroSql -/
theorem tail_gen (su : E.SelfUpdate) (db : Db) (cols : List Py.Str) (values : List (List Val)) (tn : Py.Str) (kw : List Kw)
    (K : List Int → Except Model.Err E.Plan)
    (hK : ∀ ids, E.run su db (K ids) = (match update_exec tn cols values ids with
       | .error e => (db, Except.error (errOf e))
       | .ok (text, data) => MicroSql.executemany db text data)) :
    E.run su db ((E.py (Rt.getItem values (0 : Int))).bind (fun t1 =>
      if (List.any values (fun val => decide ((Rt.len val) ≠ (Rt.len cols))) = true) then
        E.raise (GenSql.Err.valueError "Number of cloumns does not match between argument columns and values")
      else (Model.get db rowIDName tn kw).bind (fun t2 => (E.rowIDs t2).bind (fun t3 =>
        if (Rt.len t3) ≠ (Rt.len values) then
          E.raise (GenSql.Err.valueError "Number of data values incompatible with the given conditions")
        else K t3)))) = coreVia db cols values tn kw := by
  unfold coreVia
  cases values with
  | nil => rfl
  | cons v vs =>
    have hg0 : Rt.getItem (v :: vs) (0 : Int) = (.ok v : Except GErr (List Val)) := rfl
    simp only [hg0, py_eq, Except.mapError, bind_ok, any_len]
    by_cases hany : ((v :: vs).any fun val => decide (val.length ≠ cols.length)) = true
    · simp only [hany, if_true]; rfl
    · simp only [hany, if_false, Bool.false_eq_true]
      cases hm : Model.get db rowIDName tn kw with
      | error e => rfl
      | ok r =>
        simp only [bind_ok, rowIDs_eq, bind, Except.bind]
        cases ha : asInts r with
        | error e => rfl
        | ok ids =>
          simp only []
          by_cases hlen : ids.length = (v :: vs).length
          · have h1 : ¬ (Rt.len ids ≠ Rt.len (v :: vs)) := by simp [Rt.len, hlen]
            have h2 : ¬ (ids.length ≠ (v :: vs).length) := by simp [hlen]
            simp only [h1, h2, if_false]
            exact hK ids
          · have h1 : (Rt.len ids ≠ Rt.len (v :: vs)) := by
              intro e; apply hlen; unfold Rt.len at e; exact Int.ofNat.inj e
            have h2 : (ids.length ≠ (v :: vs).length) := hlen
            simp only [h1, h2, if_true, ne_eq, not_false_eq_true]; rfl

/-- **one activation of the translated `update` = `Model.update`** when no per-model dispatch happens (whatever `self.update` is): validation (ValueError, nothing modified), the shape
    checks in the order of the source (`values[0]` IndexError, row widths, `get('rowID')` through the translated `get`, number of
    rows) all before anything is modified, then the statement and rows run by MicroSql -/
theorem update_step (su : E.SelfUpdate) (db : Db) (columns : Py.Str) (values : List (List Val)) (tn : Py.Str) (kw : List Kw)
    (hdisp : hasModelKey kw = true ∨ db.nModel = 0)
    (ht : isName tn = true) (hc : ∀ c ∈ updNames columns, isName c = true) (hfind : (findTab db tn).isSome = true)
    (hk : ∀ k ∈ kw, isName (stripNo k.key).2 = true) (hrow : sqlCol db rowIDName = some .rowID) (hnd : (kw.map (·.key)).Nodup) :
    E.run su db (update_body (GenG.get db) db columns values tn kw) = Model.update db columns values tn kw := by
  have hd : (!hasModelKey kw && decide (db.nModel > 0)) = false := by
    rcases hdisp with h | h <;> simp [h]
  have hndp : ¬ ((['m', 'o', 'd', 'e', 'l'] : Py.Str) ∉ E.keys kw ∧ E.nModel db > 0) := by
    intro h; have := (dispatch_iff db kw).1 h; rw [hd] at this; cases this
  have hget : GenG.get db rowIDName tn kw = Model.get db rowIDName tn kw :=
    get_eq_model db rowIDName tn kw ⟨by decide, ht, hk⟩ hrow hnd
  unfold Model.update update_body
  simp only [bind]
  rw [validate_upd_eq]
  by_cases hv : validColsUpdate db columns = true
  · simp only [hv, if_true, bind_ok, hndp, if_false, Bool.not_true, Bool.false_eq_true, hd, rowID_lit, hget]
    rw [updateCore_eq_sql db columns values tn kw ht hc hfind hrow]
    have hcore : updateCoreViaSql db columns values tn kw = coreVia db (updNames columns) values tn kw := rfl
    rw [hcore]
    unfold updNames
    rw [← strIn_comma]
    by_cases hcomma : Py.strIn [','] columns = true
    · simp only [hcomma, if_true]
      exact tail_gen _ db _ values tn kw _ (fun ids => update_exec_run _ _ db tn _ values ids)
    · simp only [hcomma, if_false, Bool.false_eq_true]
      exact tail_gen _ db _ values tn kw _ (fun ids => update_exec_run _ _ db tn _ values ids)
  · simp only [hv, if_false, Bool.false_eq_true, bind_error, Bool.not_false, if_true]
    rfl

/-- `GenG.update = Model.update` when no per-model dispatch happens (superseded by `update_eq_model` of GenGetV) -/
theorem update_eq_model_partial (db : Db) (columns : Py.Str) (values : List (List Val)) (tn : Py.Str) (kw : List Kw)
    (hdisp : hasModelKey kw = true ∨ db.nModel = 0)
    (ht : isName tn = true) (hc : ∀ c ∈ updNames columns, isName c = true) (hfind : (findTab db tn).isSome = true)
    (hk : ∀ k ∈ kw, isName (stripNo k.key).2 = true) (hrow : sqlCol db rowIDName = some .rowID) (hnd : (kw.map (·.key)).Nodup) :
    GenG.update db columns values tn kw = Model.update db columns values tn kw :=
  update_step (updateF 1) db columns values tn kw hdisp ht hc hfind hk hrow hnd

/-- `update_xyz` is `update` on `'x,y,z'` -/
theorem update_xyz_eq_update (db : Db) (xyz : List (List Val)) (tn : Py.Str) (kw : List Kw) :
    GenG.update_xyz db xyz tn kw = GenG.updateF 2 db ['x', ',', 'y', ',', 'z'] xyz tn kw := by
  unfold GenG.update_xyz update_xyz_body
  simp only [E.run, E.runPlan, E.runCalls, E.runEffect, pure, Except.pure, List.nil_append]
  cases GenG.updateF 2 db ['x', ',', 'y', ',', 'z'] xyz tn kw with
  | mk d r => cases r <;> rfl

end GenGetProofs
