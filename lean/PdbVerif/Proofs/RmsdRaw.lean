/-
  Helper lemmas for C07 / C11 (cluster E), part 14: `RawAgrees` derived.  What the raw-column readers of the fast routines
  (`line[21]` / `line[72]`, `int(line[22:26])`, `line[12:16].strip()`, `float(line[30:38])` …) read from a record is what
  the parser (`Model.parse`, via `Props.C01.parse_rows` = the wwPDB columns of the padded record text) stored in the
  table — provided the chain column 22 is not blank, or it is blank and the segID is one character in column 73.
  Helper lemmas only.
-/
import PdbVerif.Props.C01
import PdbVerif.Proofs.RmsdFast

set_option linter.unusedVariables false
set_option linter.unusedSimpArgs false
set_option linter.unusedTactic false
set_option linter.unreachableTactic false
set_option linter.unnecessarySeqFocus false

namespace Proofs.Rmsd
open Model Model.Rmsd Py

/-! ### blanks at the end of a text do not matter to `strip`, `int()`, `float()` -/

theorem dropWhile_all {α : Type} (p : α → Bool) : ∀ (l : List α), (∀ c ∈ l, p c = true) → l.dropWhile p = []
  | [], _ => rfl
  | x :: xs, h => by
    rw [List.dropWhile_cons, if_pos (h x (by simp))]
    exact dropWhile_all p xs (fun c hc => h c (List.mem_cons_of_mem _ hc))

theorem dropWhile_head {α : Type} (p : α → Bool) : ∀ (l : List α) (c : α) (t : List α), l.dropWhile p = c :: t → p c = false
  | [], _, _, h => by simp at h
  | x :: xs, c, t, h => by
    rw [List.dropWhile_cons] at h
    by_cases hx : p x = true
    · rw [if_pos hx] at h; exact dropWhile_head p xs c t h
    · rw [if_neg hx] at h
      simp only [List.cons.injEq] at h
      rw [← h.1]; simpa using hx

theorem dropWhile_idem' {α : Type} (p : α → Bool) (l : List α) : (l.dropWhile p).dropWhile p = l.dropWhile p := by
  cases h : l.dropWhile p with
  | nil => rfl
  | cons c t =>
    have := dropWhile_head p l c t h
    rw [List.dropWhile_cons, if_neg (by simpa using this)]

theorem mem_takeWhile' {α : Type} (p : α → Bool) : ∀ (l : List α) (c : α), c ∈ l.takeWhile p → p c = true
  | [], _, h => by simp at h
  | x :: xs, c, h => by
    rw [List.takeWhile_cons] at h
    by_cases hx : p x = true
    · rw [if_pos hx] at h
      rcases List.mem_cons.mp h with rfl | h
      · exact hx
      · exact mem_takeWhile' p xs c h
    · rw [if_neg hx] at h; simp at h

theorem lstrip_ws {w : Str} (hw : ∀ c ∈ w, isSpace c = true) : lstrip w = [] := dropWhile_all _ w hw

theorem rstrip_append_ws (s : Str) {w : Str} (hw : ∀ c ∈ w, isSpace c = true) : rstrip (s ++ w) = rstrip s := by
  unfold rstrip
  rw [List.reverse_append, List.dropWhile_append_of_pos]
  intro a ha; exact hw a (List.mem_reverse.mp ha)

theorem strip_append_ws (s : Str) {w : Str} (hw : ∀ c ∈ w, isSpace c = true) : strip (s ++ w) = strip s := by
  unfold strip
  have : lstrip (s ++ w) = if (lstrip s).isEmpty then lstrip w else lstrip s ++ w := by
    unfold lstrip; exact List.dropWhile_append
  rw [this]
  split
  · rename_i h
    have h' : lstrip s = [] := by simpa using h
    rw [h', lstrip_ws hw]
  · rw [rstrip_append_ws _ hw]

theorem lstrip_idem (s : Str) : lstrip (lstrip s) = lstrip s := by
  unfold lstrip; exact dropWhile_idem' _ _

theorem strip_idem (s : Str) : strip (strip s) = strip s := by
  -- `strip s` is a prefix of `lstrip s` followed by blanks only
  have hsplit : ∃ w, (∀ c ∈ w, isSpace c = true) ∧ lstrip s = strip s ++ w := by
    refine ⟨((lstrip s).reverse.takeWhile isSpace).reverse, ?_, ?_⟩
    · intro c hc
      exact mem_takeWhile' _ _ c (List.mem_reverse.mp hc)
    · unfold strip rstrip
      rw [← List.reverse_append, List.takeWhile_append_dropWhile, List.reverse_reverse]
  obtain ⟨w, hw, hs⟩ := hsplit
  -- strip (strip s) = rstrip (lstrip (strip s)); the head of `strip s` is not blank
  have h4 : lstrip (strip s) = strip s := by
    cases hss : strip s with
    | nil => rfl
    | cons c t =>
      have hc : isSpace c = false := by
        have hl : lstrip s = c :: (t ++ w) := by rw [hs, hss]; rfl
        exact dropWhile_head isSpace s c _ hl
      unfold lstrip; simp [List.dropWhile_cons, hc]
  unfold strip at h4 ⊢
  rw [h4]
  -- rstrip (rstrip x) = rstrip x
  unfold rstrip
  rw [List.reverse_reverse, dropWhile_idem']

theorem parseInt_strip (s : Str) : parseInt (strip s) = parseInt s := by
  unfold parseInt; rw [strip_idem]

theorem parseFloat_strip (s : Str) : parseFloat (strip s) = parseFloat s := by
  unfold parseFloat; rw [strip_idem]

theorem rawCols_append_ws (t : Str) {w : Str} (hw : ∀ c ∈ w, isSpace c = true) (a b : Nat) :
    ∃ w', (∀ c ∈ w', isSpace c = true) ∧ Spec.rawCols (t ++ w) a b = Spec.rawCols t a b ++ w' := by
  unfold Spec.rawCols
  rw [List.take_append, List.drop_append]
  refine ⟨_, ?_, rfl⟩
  intro c hc
  exact hw c (List.mem_of_mem_take (List.mem_of_mem_drop hc))

theorem cols_append_ws (t : Str) {w : Str} (hw : ∀ c ∈ w, isSpace c = true) (a b : Nat) :
    Spec.cols (t ++ w) a b = Spec.cols t a b := by
  obtain ⟨w', hw', h⟩ := rawCols_append_ws t hw a b
  unfold Spec.cols
  rw [h, strip_append_ws _ hw']

theorem spaces_ws (n : Nat) : ∀ c ∈ spaces n, isSpace c = true := by
  intro c hc
  rw [List.eq_of_mem_replicate hc]; decide

theorem cols_pad80 (t : Str) (a b : Nat) : Spec.cols (Spec.pad80 t) a b = Spec.cols t a b :=
  cols_append_ws t (spaces_ws _) a b


/-! ### one record: what the parser stored is what the raw readers read -/

theorem bind_ok {α β : Type} {x : Except Err α} {f : α → Except Err β} {b : β} (h : (x >>= f) = .ok b) :
    ∃ a, x = .ok a ∧ f a = .ok b := by
  cases x with
  | error e => cases h
  | ok a => exact ⟨a, rfl, h⟩

/-- the fields of a row the parser produced, in terms of the columns of the padded record text -/
theorem parseRecord_fields (raw : Str) (n : Int) (r : Row) (h : Spec.parseRecord raw n = .ok r) :
    ∃ a : Atom, Atom.ofRow r = some a ∧
      a.name = Spec.cols (Spec.pad80 (Spec.recordText raw)) 13 16 ∧
      a.chainID = (if Spec.cols (Spec.pad80 (Spec.recordText raw)) 22 22 = []
                   then Spec.cols (Spec.pad80 (Spec.recordText raw)) 73 76
                   else Spec.cols (Spec.pad80 (Spec.recordText raw)) 22 22) ∧
      parseInt (Spec.cols (Spec.pad80 (Spec.recordText raw)) 23 26) = .ok a.resSeq ∧
      parseFloat (Spec.cols (Spec.pad80 (Spec.recordText raw)) 31 38) = .ok a.x ∧
      parseFloat (Spec.cols (Spec.pad80 (Spec.recordText raw)) 39 46) = .ok a.y ∧
      parseFloat (Spec.cols (Spec.pad80 (Spec.recordText raw)) 47 54) = .ok a.z := by
  unfold Spec.parseRecord at h
  by_cases hlen : (Spec.recordText raw).length > 80
  · simp [hlen] at h
  · simp only [hlen, if_false] at h
    generalize Spec.pad80 (Spec.recordText raw) = l at h ⊢
    obtain ⟨serial, h1, h⟩ := bind_ok h
    by_cases a : Spec.cols l 22 22 = []
    · rw [if_pos a] at h
      obtain ⟨chain, hc, h⟩ := bind_ok h
      have hch : chain = Spec.cols l 73 76 := by
        split_ifs at hc <;> first | (cases hc; rfl) | cases hc
      obtain ⟨resSeq, h2, h⟩ := bind_ok h
      obtain ⟨x, h3, h⟩ := bind_ok h
      obtain ⟨y, h4, h⟩ := bind_ok h
      obtain ⟨z, h5, h⟩ := bind_ok h
      split_ifs at h <;>
        (repeat (obtain ⟨_, _, h⟩ := bind_ok h)) <;>
        (cases h; exact ⟨_, rfl, rfl, by simp [a, hch], h2, h3, h4, h5⟩)
    · rw [if_neg a] at h
      obtain ⟨chain, hc, h⟩ := bind_ok h
      have hch : chain = Spec.cols l 22 22 := by cases hc; rfl
      obtain ⟨resSeq, h2, h⟩ := bind_ok h
      obtain ⟨x, h3, h⟩ := bind_ok h
      obtain ⟨y, h4, h⟩ := bind_ok h
      obtain ⟨z, h5, h⟩ := bind_ok h
      split_ifs at h <;>
        (repeat (obtain ⟨_, _, h⟩ := bind_ok h)) <;>
        (cases h; exact ⟨_, rfl, rfl, by simp [a, hch], h2, h3, h4, h5⟩)


/-- everything after the record text (after the first line break) is blank: a line as `readlines` or `split` yields it -/
def TailBlank (l : Str) : Prop := ∀ c ∈ l.drop (Spec.recordText l).length, isSpace c = true

/-- column 22 of the record text holds a non-blank character -/
def ChainColumn (l : Str) : Prop := Spec.cols (Spec.recordText l) 22 22 ≠ []

/-- column 22 is a blank and the segID (columns 73–76) is a single character standing in column 73 -/
def SegIdChain (l : Str) : Prop :=
  (Spec.recordText l)[21]? = some ' ' ∧ ∃ c, (Spec.recordText l)[72]? = some c ∧ Spec.cols (Spec.recordText l) 73 76 = [c]

theorem drop_length_takeWhile {α : Type} (p : α → Bool) : ∀ l : List α, l.drop (l.takeWhile p).length = l.dropWhile p
  | [] => rfl
  | x :: xs => by
    rw [List.takeWhile_cons, List.dropWhile_cons]
    by_cases hx : p x = true
    · simp only [hx, if_true, List.length_cons, List.drop_succ_cons]; exact drop_length_takeWhile p xs
    · simp only [hx, if_false, List.length_nil, List.drop_zero, Bool.false_eq_true]

theorem split_tail (l : Str) (h : TailBlank l) :
    ∃ w, (∀ c ∈ w, isSpace c = true) ∧ l = Spec.recordText l ++ w := by
  refine ⟨l.drop (Spec.recordText l).length, h, ?_⟩
  unfold Spec.recordText
  rw [drop_length_takeWhile, List.takeWhile_append_dropWhile]

theorem rawCols_single (t : Str) (k : Nat) : Spec.rawCols t (k + 1) (k + 1) = (t[k]?).toList := by
  unfold Spec.rawCols
  simp only [Nat.add_sub_cancel]
  rw [List.drop_take]
  simp only [Nat.add_sub_cancel_left]
  cases h : t[k]? with
  | none =>
    have : t.length ≤ k := by simpa using h
    rw [List.drop_eq_nil_of_le this]; rfl
  | some c =>
    have hk : k < t.length := by
      rcases Nat.lt_or_ge k t.length with h' | h'
      · exact h'
      · rw [List.getElem?_eq_none h'] at h; cases h
    rw [List.drop_eq_getElem_cons hk]
    have : t[k] = c := by
      rw [List.getElem?_eq_getElem hk] at h; exact Option.some.inj h
    simp [this]

theorem getItem1_of (l : Str) (k : Nat) (c : Char) (h : l[k]? = some c) : getItem1 l (k : Int) = .ok [c] := by
  unfold getItem1 getItem
  have hi : ¬ ((k : Int) < 0) := by omega
  simp only [hi, if_false, Int.toNat_natCast, h]

theorem getElem?_append_of_some {t w : Str} {k : Nat} {c : Char} (h : t[k]? = some c) : (t ++ w)[k]? = some c := by
  have hk : k < t.length := by
    rcases Nat.lt_or_ge k t.length with h' | h'
    · exact h'
    · rw [List.getElem?_eq_none h'] at h; cases h
  rw [List.getElem?_append_left hk]; exact h

/-- **One record.**  If the parser accepts the record and stores the atom `a`, and the record either has a non-blank
    chain column 22 or a blank column 22 with a one-character segID in column 73, then the raw-column readers
    (`line[21]` / `line[72]`, `int(line[22:26])`, `line[12:16].strip()`, `float(line[30:38])` …) read exactly the identity and
    the coordinates of `a`. -/
theorem rawPt_of_parseRecord (l : Str) (n : Int) (r : Row) (h : Spec.parseRecord l n = .ok r) (ht : TailBlank l)
    (hc : ChainColumn l ∨ SegIdChain l) :
    ∃ a : Atom, Atom.ofRow r = some a ∧ rawPt l = .ok (ptOf a) := by
  obtain ⟨a, ha, hname, hchain, hrs, hx, hy, hz⟩ := parseRecord_fields l n r h
  refine ⟨a, ha, ?_⟩
  obtain ⟨w, hw, hl⟩ := split_tail l ht
  unfold ChainColumn SegIdChain at hc
  generalize Spec.recordText l = t at *
  -- columns of the padded text, of the text and of the raw line agree after `strip`
  have hcol : ∀ a' b', Spec.cols (Spec.pad80 t) a' b' = Spec.cols l a' b' := by
    intro a' b'; rw [cols_pad80, hl, cols_append_ws t hw]
  have hint : ∀ a' b' : Nat, parseInt (slice l (a' : Int) (b' : Int)) = parseInt (Spec.cols (Spec.pad80 t) (a' + 1) b') := by
    intro a' b'; rw [hcol, ← Proofs.Parse.strip_slice_cols, parseInt_strip]
  have hflt : ∀ a' b' : Nat, parseFloat (slice l (a' : Int) (b' : Int)) = parseFloat (Spec.cols (Spec.pad80 t) (a' + 1) b') := by
    intro a' b'; rw [hcol, ← Proofs.Parse.strip_slice_cols, parseFloat_strip]
  have hnm : strip (slice l (12 : Nat) (16 : Nat)) = a.name := by
    rw [Proofs.Parse.strip_slice_cols, ← hcol, hname]
  have hi := hint 22 26
  have f1 := hflt 30 38
  have f2 := hflt 38 46
  have f3 := hflt 46 54
  simp only [Nat.cast_ofNat] at hi f1 f2 f3 hnm
  -- the chain
  have hch : rawChain l = .ok a.chainID := by
    unfold rawChain
    rcases hc with hc | ⟨h21, c, h72, hseg⟩
    · have h22 : Spec.cols t 22 22 ≠ [] := hc
      unfold Spec.cols at h22
      rw [rawCols_single t 21] at h22
      cases h21 : t[21]? with
      | none => simp [h21, Proofs.Rmsd.strip_idem] at h22; exact absurd rfl h22
      | some c =>
        simp only [h21, Option.toList_some, Py.strip_single] at h22
        have hsp : isSpace c = false := by
          cases hs : isSpace c
          · rfl
          · simp [hs] at h22
        have hcc : Spec.cols (Spec.pad80 t) 22 22 = [c] := by
          rw [cols_pad80]; unfold Spec.cols
          rw [rawCols_single t 21, h21]
          simp [Py.strip_single, hsp]
        have hne : ([c] : Str) ≠ [' '] := by
          intro e; simp only [List.cons.injEq, and_true] at e
          rw [e] at hsp; revert hsp; decide
        have e21 := getItem1_of (t ++ w) 21 c (getElem?_append_of_some h21)
        simp only [Nat.cast_ofNat] at e21
        rw [hl, e21]
        simp only [bind, Except.bind, hne, if_false, pure, Except.pure]
        rw [hchain, hcc]
        simp
    · have hcc : Spec.cols (Spec.pad80 t) 22 22 = [] := by
        rw [cols_pad80]; unfold Spec.cols
        rw [rawCols_single t 21, h21]
        simp [Py.strip_single, Py.isSpace_space]
      have e21 := getItem1_of (t ++ w) 21 ' ' (getElem?_append_of_some h21)
      have e72 := getItem1_of (t ++ w) 72 c (getElem?_append_of_some h72)
      simp only [Nat.cast_ofNat] at e21 e72
      rw [hl, e21]
      simp only [bind, Except.bind, if_true]
      rw [e72, hchain, hcc, if_pos rfl, cols_pad80, hseg]
  unfold rawPt rawKey rawXyz
  simp only [hch, hi, f1, f2, f3, hrs, hx, hy, hz, hnm, bind, Except.bind, pure, Except.pure]
  rfl


/-! ### a whole file -/

theorem isAtomLine_eq (l : Str) : isAtomLine l = Spec.isAtomRecord l := rfl

theorem mapM_rawPt_of_forall₂ : ∀ (A : List (Str × Int)) (rows : List Row),
    List.Forall₂ (fun p r => Spec.parseRecord p.1 p.2 = .ok r) A rows →
    (∀ p ∈ A, TailBlank p.1 ∧ (ChainColumn p.1 ∨ SegIdChain p.1)) →
    (A.map (·.1)).mapM rawPt = .ok ((rows.filterMap Atom.ofRow).map ptOf)
  | _, _, .nil, _ => rfl
  | p :: A, r :: rows, .cons hpr hrest, hside => by
    obtain ⟨a, ha, hraw⟩ := rawPt_of_parseRecord p.1 p.2 r hpr (hside p (by simp)).1 (hside p (by simp)).2
    have ih := mapM_rawPt_of_forall₂ A rows hrest (fun q hq => hside q (List.mem_cons_of_mem _ hq))
    rw [List.map_cons, List.mapM_cons, hraw, ih, List.filterMap_cons, ha]
    rfl

/-- **RawAgrees, derived.**  When the parser (`Model.parse`, the model of `pdb2sql(file)`; `Props.C01.parse_rows`) accepts
    the file, every ATOM record's text is followed by blanks only (a line as `readlines` / `split` yields it) and has a
    non-blank chain column 22 — or a blank one with a one-character segID in column 73 —, the raw-column readers of the fast
    routines see exactly the identities and coordinates of the parsed table. -/
theorem rawAgrees_of_parse (lines : List Str) (rows : List Row) (hp : Model.parse lines = .ok rows)
    (hside : ∀ l ∈ lines, isAtomLine l = true → TailBlank l ∧ (ChainColumn l ∨ SegIdChain l)) :
    RawAgrees lines (rows.filterMap Atom.ofRow) := by
  rw [Props.C01.parse_rows] at hp
  have hf := Proofs.ParseRows.no_silent_alteration (ls := lines) (n := 0) (t := rows) hp
  have hfst := Proofs.ParseRows.atomsFrom_map_fst lines 0
  refine ⟨?_⟩
  unfold rawPts
  have hfilter : lines.filter isAtomLine = (Proofs.ParseRows.atomsFrom lines 0).map (·.1) := by
    rw [hfst]; rfl
  rw [hfilter]
  apply mapM_rawPt_of_forall₂ _ _ hf
  intro p hp'
  have hmem : p.1 ∈ lines.filter isAtomLine := by rw [hfilter]; exact List.mem_map.mpr ⟨p, hp', rfl⟩
  obtain ⟨h1, h2⟩ := List.mem_filter.mp hmem
  exact hside p.1 h1 h2

/-- the table a successful parse yields has one atom per row (the rows have the parser's shape) -/
theorem table_length (lines : List Str) (rows : List Row) (hp : Model.parse lines = .ok rows) :
    (rows.filterMap Atom.ofRow).length = rows.length := by
  rw [Props.C01.parse_rows] at hp
  have hf := Proofs.ParseRows.no_silent_alteration (ls := lines) (n := 0) (t := rows) hp
  clear hp
  generalize Proofs.ParseRows.atomsFrom lines 0 = A at hf
  induction hf with
  | nil => rfl
  | cons hpr _ ih =>
    obtain ⟨a, ha, _⟩ := parseRecord_fields _ _ _ hpr
    rw [List.filterMap_cons, ha, List.length_cons, List.length_cons, ih]

/-- the table `pdb2sql(lines)` builds: the rows of the parser model as atoms -/
abbrev tableOfRows (rows : List Row) : List Atom := rows.filterMap Atom.ofRow

/-- the side condition on one ATOM record under which the raw-column readers and the parser agree: after the record text
    (up to the first line break) only blanks follow, and EITHER the chain column 22 is not blank (the normal case) OR it is a
    blank and the segID is a single character standing in column 73.  (Outside it they differ: with a blank column 22 the raw
    readers take the single character `line[72]`, the parser the stripped segID of columns 73–76 — `"AB"` in 73–74, or `"A"` in
    column 74, give different chain identifiers; a tab in column 22 is "blank" for the parser and a chain `"\t"` for the raw
    readers.) -/
def RecordSide (l : Str) : Prop := TailBlank l ∧ (ChainColumn l ∨ SegIdChain l)

def FileSide (lines : List Str) : Prop := ∀ l ∈ lines, isAtomLine l = true → RecordSide l


end Proofs.Rmsd
