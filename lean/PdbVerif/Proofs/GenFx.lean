/-
  Translated effect programs (Gen/Fx.lean, namespace `GenF`): lemmas about `Py.Fx.Prog` and ONE NORMAL-FORM LEMMA PER
  GENERATED UNIT — the program written out as a tree of effect nodes.  Every equality with a hand model
  (Proofs/GenFxStore.lean: Model/Store.lean, C20; Proofs/GenFxFiles.lean: Model/Effects.lean and Model/Export.lean, C16 / C02)
  is built on these, so a harmless rewrite of the source only has to get through the normal form again.
  The loop lemmas take the loop body from the goal by unification; no proof quotes generated text.
-/
import PdbVerif.Gen.Fx
import PdbVerif.Proofs.GenFxSem
import PdbVerif.Model.Export
set_option linter.unusedVariables false
set_option linter.unusedSimpArgs false
namespace Proofs.GenFx
open Py Py.Fx

section
variable {P C : Type} {α β : Type}
@[simp] theorem pure_eq (a : α) : (pure a : Fx.Prog P C α) = Fx.Prog.pure a := rfl
@[simp] theorem bind_eq (m : Fx.Prog P C α) (f : α → Fx.Prog P C β) : m >>= f = m.bind f := rfl

@[simp] theorem bind_pure_right (m : Fx.Prog P C α) : m.bind Fx.Prog.pure = m := by
  induction m with
  | isfile p k ih => simp only [Fx.Prog.bind]; congr 1; funext b; exact ih b
  | pathExists p k ih => simp only [Fx.Prog.bind]; congr 1; funext b; exact ih b
  | mkstemp d a b k ih => simp only [Fx.Prog.bind]; congr 1; funext n; exact ih n
  | readlines p k ih => simp only [Fx.Prog.bind]; congr 1; funext c; exact ih c
  | _ => simp_all [Fx.Prog.bind]

@[simp] theorem bind_pure_unit (m : Fx.Prog P C Unit) : (m.bind fun _ => Fx.Prog.pure ()) = m := bind_pure_right m

@[simp] theorem bind_pure_right' (m : Fx.Prog P C α) : (m.bind fun a => Fx.Prog.pure a) = m := bind_pure_right m

theorem bind_assoc {γ : Type} (m : Fx.Prog P C α) (f : α → Fx.Prog P C β) (g : β → Fx.Prog P C γ) :
    (m.bind f).bind g = m.bind (fun a => (f a).bind g) := by
  induction m with
  | isfile p k ih => simp only [Fx.Prog.bind]; congr 1; funext b; exact ih b
  | pathExists p k ih => simp only [Fx.Prog.bind]; congr 1; funext b; exact ih b
  | mkstemp d a b k ih => simp only [Fx.Prog.bind]; congr 1; funext n; exact ih n
  | readlines p k ih => simp only [Fx.Prog.bind]; congr 1; funext c; exact ih c
  | _ => simp_all [Fx.Prog.bind]

/-- `f.write(c)` for each chunk, in order -/
def writes (p : P) : List C → Fx.Prog P C Unit
  | [] => .pure ()
  | c :: cs => .write p c (writes p cs)

/-- the same for chunks computed by code that may raise: the first error stops the loop -/
def writesE (p : P) : List (Except Py.Err C) → Fx.Prog P C Unit
  | [] => .pure ()
  | .ok c :: cs => .write p c (writesE p cs)
  | .error e :: _ => .raise e

theorem writesE_ok (p : P) (cs : List C) : writesE p (cs.map Except.ok) = writes p cs := by
  induction cs with
  | nil => rfl
  | cons c cs ih => simp [writesE, writes, ih]

/-- loop lemma: `for x in xs: t = g(x); f.write(t)` -/
theorem forEach_write {ι : Type} (f : Fx.File P) (g : ι → Except Py.Err C) (xs : List ι) :
    (Fx.forEach xs () (fun _ x => (Fx.liftE (g x)).bind (fun t => Fx.write f t)) : Fx.Prog P C Unit) = writesE f.path (xs.map g) := by
  induction xs with
  | nil => rfl
  | cons x xs ih =>
    unfold Fx.forEach at ih ⊢
    simp only [List.foldlM_cons, List.map_cons, bind_eq]
    cases h : g x with
    | error e => rfl
    | ok c =>
      show Fx.Prog.write f.path c (List.foldlM _ () xs) = Fx.Prog.write f.path c _
      rw [ih]

/-- loop lemma: `for x in xs: f.write(h(x))` -/
theorem forEach_write_pure {ι : Type} (f : Fx.File P) (h : ι → C) (xs : List ι) :
    (Fx.forEach xs () (fun _ x => Fx.write f (h x)) : Fx.Prog P C Unit) = writes f.path (xs.map h) := by
  induction xs with
  | nil => rfl
  | cons x xs ih =>
    unfold Fx.forEach at ih ⊢
    simp only [List.foldlM_cons, List.map_cons, bind_eq]
    show Fx.Prog.write f.path (h x) (List.foldlM _ () xs) = Fx.Prog.write f.path (h x) _
    rw [ih]

theorem writes_bind_finally (p : P) (cs : List C) (r : Unit → Fx.Prog P C α) (fin : Fx.Prog P C Unit) :
    ((writes p cs).bind r).finally_ fin = (writes p cs).bind (fun u => (r u).finally_ fin) := by
  induction cs with
  | nil => rfl
  | cons c cs ih => simp [writes, Fx.Prog.bind, Fx.Prog.finally_, ih]
end

/-! ### normal forms -/

section nf
variable {P C : Type}

/-- `_create_sql`: in memory — connect, cursor; on a file — isfile, (remove), connect, cursor.  Always exactly `self.sqlfile`. -/
theorem create_sql_nf (self : Fx.Self P) :
    (GenF._create_sql self : Fx.Prog P C _) =
      match self.sqlfile with
      | none => .connect none (.cursor none (.pure { self with conn := some ⟨none⟩, c := some ⟨none⟩ }))
      | some p => .isfile p (fun b =>
          if b then .remove p (.connect (some p) (.cursor (some p) (.pure { self with conn := some ⟨some p⟩, c := some ⟨some p⟩ })))
          else .connect (some p) (.cursor (some p) (.pure { self with conn := some ⟨some p⟩, c := some ⟨some p⟩ }))) := by
  cases h : self.sqlfile with
  | none => simp [GenF._create_sql, h, Fx.connectMemory, Fx.attr, Fx.cursor, Fx.Prog.bind]
  | some p =>
    simp only [GenF._create_sql, h, Fx.need, Fx.isfile, Fx.remove, Fx.connect, Fx.attr, Fx.cursor, Fx.Prog.bind, bind_eq, pure_eq,
      Option.isNone_some, Bool.false_eq_true, if_false]

theorem commit_nf (self : Fx.Self P) :
    (GenF._commit self : Fx.Prog P C _) =
      match self.conn with
      | some c => .commit c.db (.pure self)
      | none => .raise (.unmodelled "AttributeError") := by
  cases h : self.conn <;> simp [GenF._commit, h, Fx.attr, Fx.commit, Fx.Prog.bind]

/-- `_close(rmdb)`: in memory — close; remove — close, isfile, (remove) of exactly `self.sqlfile`; keep — commit, close -/
theorem close_nf (self : Fx.Self P) (rmdb : Bool) :
    (GenF._close self rmdb : Fx.Prog P C _) =
      match self.conn with
      | none => .raise (.unmodelled "AttributeError")
      | some c =>
        match self.sqlfile with
        | none => .close c.db (.pure self)
        | some p =>
          if rmdb then .close c.db (.isfile p (fun b => if b then .remove p (.pure self) else .pure self))
          else .commit c.db (.close c.db (.pure self)) := by
  -- uniform over the shape of the source (nested or flattened `if`s): all eight cases, then the `isfile` continuation by cases
  cases hc : self.conn <;> cases hs : self.sqlfile <;> cases rmdb <;>
    simp [GenF._close, commit_nf, hc, hs, Fx.attr, Fx.close, Fx.need, Fx.isfile, Fx.remove, Fx.Prog.bind] <;>
    (try (congr 1; funext b; cases b <;> simp [Fx.Prog.bind]))

theorem close_rmdb_default : GenF._close_rmdb_default = true := rfl

/-- `pdb2sql.__init__` orders: `_create_sql`, then `_create_table`, then (option) `_fix_chainID` -/
theorem init_nf {F : Type} (ct : Fx.Self P → F → Py.Str → Fx.Prog P C (Fx.Self P)) (fx : Fx.Self P → Fx.Prog P C (Fx.Self P))
    (self : Fx.Self P) (pdbfile : F) (tablename : Py.Str) :
    GenF.pdb2sql_init ct fx self pdbfile tablename =
      (GenF._create_sql self).bind (fun s1 => (ct s1 pdbfile tablename).bind (fun s2 => if s2.fix_chainID then fx s2 else .pure s2)) := by
  simp only [GenF.pdb2sql_init, bind_eq, pure_eq]
  congr 1; funext s1; congr 1; funext s2
  cases s2.fix_chainID <;> simp

/-- loop lemma (pure code): `for d in xs: line = g(d); acc.append(line)` -/
theorem foldlM_append_eq_mapM {ι β : Type} (g : ι → Except Py.Err β) (xs : List ι) (acc : List β) :
    List.foldlM (fun acc d => do let line ← g d; pure (acc ++ [line])) acc xs = (xs.mapM g).map (acc ++ ·) := by
  induction xs generalizing acc with
  | nil => simp [pure, Except.pure, Except.map]
  | cons d ds ih =>
    rw [List.foldlM_cons, List.mapM_cons]
    cases h : g d with
    | error e => rfl
    | ok l =>
      show List.foldlM _ (acc ++ [l]) ds = _
      rw [ih]
      cases List.mapM g ds <;> simp [Except.map, bind, Except.bind, pure, Except.pure]

/-- `data2pdb`: one translated line per row, in row order; the first row that cannot be written raises -/
theorem data2pdb_nf (data : List Py.Atom) : GenF.data2pdb data = data.mapM Gen.data2pdb_line := by
  unfold GenF.data2pdb
  rw [foldlM_append_eq_mapM]
  cases List.mapM Gen.data2pdb_line data <;> simp [Except.map, bind, Except.bind, pure, Except.pure]

/-- the column string `sql2pdb` asks for -/
def sql2pdbCols : Py.Str := Fx.joinStr [','] GenF.col_keys

theorem sql2pdb_nf {K : Type} (get : Py.Str → Py.Str → K → Except Py.Err (List Py.Atom)) (tablename : Py.Str) (kw : K) :
    GenF.sql2pdb get tablename kw = (get sql2pdbCols tablename kw >>= fun data => data.mapM Gen.data2pdb_line) := by
  unfold GenF.sql2pdb sql2pdbCols
  simp only [data2pdb_nf]

/-- `exportpdb`: open (`'a'` when `append`, else `'w'`) BEFORE the rows are fetched; then every line followed by one newline; close -/
theorem exportpdb_nf {K : Type} (get : Py.Str → Py.Str → K → Except Py.Err (List Py.Atom)) (fname : P) (append : Bool)
    (tablename : Py.Str) (kw : K) :
    GenF.exportpdb get fname append tablename kw =
      .openw fname (if append then .a else .w)
        (match GenF.sql2pdb get tablename kw with
         | .ok lines => (writes fname (lines.map (· ++ ['\n']))).bind (fun _ => .fclose fname (.pure ()))
         | .error e => .raise e) := by
  unfold GenF.exportpdb
  cases append <;>
  · simp only [Fx.openw, bind_eq, pure_eq, Fx.Prog.bind, Bool.false_eq_true, if_false, if_true]
    cases GenF.sql2pdb get tablename kw with
    | error e => rfl
    | ok lines =>
      simp only [Fx.liftE, Fx.Prog.bind]
      rw [forEach_write_pure]
      simp [Fx.fclose, Fx.Prog.bind]

/-- the file part of `read_zone`: not a file -> FileNotFoundError (nothing is opened); else all lines -/
theorem read_zone_io_nf (f : P) :
    (GenF.read_zone_io f : Fx.Prog P C _) = .isfile f (fun b => if b then .readlines f .pure else .raise .fileNotFound) := by
  unfold GenF.read_zone_io
  simp only [Fx.isfile, Fx.readlines, Fx.raise, bind_eq, pure_eq, Fx.Prog.bind]
  congr 1; funext b; cases b <;> simp [Fx.Prog.bind]

/-- the zone-file branch of `compute_lrmsd_fast`: no name -> compute, nothing saved; a name that is not a file -> compute
    and save under exactly that name; a file -> read it -/
theorem lrmsd_fast_zone_nf {Z : Type} (cl : Bool → Option P → Fx.Prog P C Z) (rz : P → Fx.Prog P C Z) (lzone : Option P) :
    GenF.compute_lrmsd_fast_zone cl rz lzone =
      match lzone with
      | none => cl false none
      | some f => .isfile f (fun b => if b then rz f else cl true (some f)) := by
  cases lzone with
  | none => simp [GenF.compute_lrmsd_fast_zone]
  | some f =>
    simp only [GenF.compute_lrmsd_fast_zone, Fx.need, Fx.isfile, bind_eq, pure_eq, Fx.Prog.bind, Option.isNone_some, Bool.false_eq_true, if_false]
    congr 1; funext b; cases b <;> simp

theorem irmsd_fast_zone_nf {Z Q : Type} (ci : Q → Bool → Option P → Fx.Prog P C Z) (rz : P → Fx.Prog P C Z) (izone : Option P) (cutoff : Q) :
    GenF.compute_irmsd_fast_zone ci rz izone cutoff =
      match izone with
      | none => ci cutoff false none
      | some f => .isfile f (fun b => if b then rz f else ci cutoff true (some f)) := by
  cases izone with
  | none => simp [GenF.compute_irmsd_fast_zone]
  | some f =>
    simp only [GenF.compute_irmsd_fast_zone, Fx.need, Fx.isfile, bind_eq, pure_eq, Fx.Prog.bind, Option.isNone_some, Bool.false_eq_true, if_false]
    congr 1; funext b; cases b <;> simp

/-- the file part of `get_izone_rowID`: not a file -> FileNotFoundError, else `read_zone` -/
theorem izone_rowID_io_nf {Z : Type} (rz : P → Fx.Prog P C Z) (izone : P) :
    GenF.get_izone_rowID_io rz izone = .isfile izone (fun b => if b then rz izone else .raise .fileNotFound) := by
  unfold GenF.get_izone_rowID_io
  simp only [Fx.isfile, Fx.raise, bind_eq, pure_eq, Fx.Prog.bind]
  congr 1; funext b; cases b <;> simp
end nf

section nfStr

/-- `_write_zone`: `mkstemp` in the directory of the target (`.` when it has none), prefix = the target's base name + `.`,
    suffix `.tmp`; one write per residue (the translated line) into that file; close (also when a line raises); then
    `os.replace(tmp, filename)` -/
theorem write_zone_nf (filename : Py.Str) (data : List (Py.Str × Int)) :
    GenF._write_zone filename data =
      .mkstemp (Fx.strOr (Fx.splitPath filename).1 ['.']) ((Fx.splitPath filename).2 ++ ['.']) ['.', 't', 'm', 'p'] (fun n =>
        ((writesE n (data.map Gen.zone_line_of)).finally_ (.fclose n (.pure ()))).bind (fun _ => .replace n filename (.pure ()))) := by
  unfold GenF._write_zone
  simp only [Fx.mkstemp, bind_eq, pure_eq, Fx.Prog.bind, Fx.withFile, Fx.fdopen, Fx.replace, Fx.fclose]
  congr 1; funext n
  rw [forEach_write]
  simp

/-- the default name of a saved zone / pickle: the text of `self.ref` before its first `.`, plus the suffix -/
def refStem (self_ref : Py.Str) : Except Py.Err Py.Str := Py.listGet (Py.splitOn '.' self_ref) (0 : Int)

/-- `if save_file:` of `compute_lzone`: `_write_zone` under the given name, or under `<ref stem>.lzone` -/
theorem lzone_save_nf (self_ref : Py.Str) (save : Bool) (filename : Option Py.Str) (data : List (Py.Str × Int)) :
    GenF.compute_lzone_save self_ref save filename data =
      if save then
        match filename with
        | some f => GenF._write_zone f data
        | none => (Fx.liftE (refStem self_ref)).bind (fun st => GenF._write_zone (st ++ ['.', 'l', 'z', 'o', 'n', 'e']) data)
      else .pure () := by
  cases save <;> cases filename <;> simp [GenF.compute_lzone_save, refStem, Fx.need, Fx.Prog.bind]

theorem izone_save_nf (self_ref : Py.Str) (save : Bool) (filename : Option Py.Str) (data : List (Py.Str × Int)) :
    GenF.compute_izone_save self_ref save filename data =
      if save then
        match filename with
        | some f => GenF._write_zone f data
        | none => (Fx.liftE (refStem self_ref)).bind (fun st => GenF._write_zone (st ++ ['.', 'i', 'z', 'o', 'n', 'e']) data)
      else .pure () := by
  cases save <;> cases filename <;> simp [GenF.compute_izone_save, refStem, Fx.need, Fx.Prog.bind]

/-- `if save_file:` of `compute_residue_pairs_ref`: open(name,'wb'), dump, close -/
theorem pairs_save_nf {C D : Type} (self_ref : Py.Str) (pickle : D → C) (save : Bool) (filename : Option Py.Str) (x : D) :
    GenF.compute_residue_pairs_ref_save self_ref pickle save filename x =
      if save then
        (match filename with
          | some f => Fx.Prog.pure f
          | none => (Fx.liftE (refStem self_ref)).bind (fun st => .pure (st ++ "residue_contact_pairs.pckl".toList))).bind
          (fun f => .openw f .wb (.write f (pickle x) (.fclose f (.pure ()))))
      else .pure () := by
  cases save <;> cases filename <;>
    simp [GenF.compute_residue_pairs_ref_save, refStem, Fx.need, Fx.openw, Fx.write, Fx.fclose, Fx.Prog.bind, bind_assoc]

/-- the export branch of `compute_lrmsd_pdb2sql`: `<exportpath>/lrmsd_decoy.pdb` from the decoy object, then
    `<exportpath>/lrmsd_ref.pdb` from the reference object (default `append`, default table, no selection), then both are closed -/
theorem lrmsd_sql_export_nf {O V : Type} (ex : O → Py.Str → Bool → Py.Str → List (Py.Str × V) → Fx.Prog Py.Str Py.Str Unit)
    (cl : O → Bool → Fx.Prog Py.Str Py.Str Unit) (exportpath : Option Py.Str) (d r : O) :
    GenF.compute_lrmsd_pdb2sql_export ex cl exportpath d r =
      match exportpath with
      | some e => (ex d (e ++ "/lrmsd_decoy.pdb".toList) GenF.exportpdb_append_default GenF.exportpdb_tablename_default []).bind fun _ =>
          (ex r (e ++ "/lrmsd_ref.pdb".toList) GenF.exportpdb_append_default GenF.exportpdb_tablename_default []).bind fun _ =>
          (cl d GenF._close_rmdb_default).bind fun _ => cl r GenF._close_rmdb_default
      | none => (cl d GenF._close_rmdb_default).bind fun _ => cl r GenF._close_rmdb_default := by
  cases exportpath <;>
    simp [GenF.compute_lrmsd_pdb2sql_export, Fx.need, Fx.Prog.bind, GenF.exportpdb_append_default, GenF.exportpdb_tablename_default,
      GenF._close_rmdb_default]

theorem irmsd_sql_export_nf {O V : Type} (ex : O → Py.Str → Bool → Py.Str → List (Py.Str × V) → Fx.Prog Py.Str Py.Str Unit)
    (cl : O → Bool → Fx.Prog Py.Str Py.Str Unit) (exportpath : Option Py.Str) (d r : O) (id ir : V) :
    GenF.compute_irmsd_pdb2sql_export ex cl exportpath d r id ir =
      match exportpath with
      | some e => (ex d (e ++ "/irmsd_decoy.pdb".toList) GenF.exportpdb_append_default GenF.exportpdb_tablename_default [("rowID".toList, id)]).bind fun _ =>
          (ex r (e ++ "/irmsd_ref.pdb".toList) GenF.exportpdb_append_default GenF.exportpdb_tablename_default [("rowID".toList, ir)]).bind fun _ =>
          (cl d GenF._close_rmdb_default).bind fun _ => cl r GenF._close_rmdb_default
      | none => (cl d GenF._close_rmdb_default).bind fun _ => cl r GenF._close_rmdb_default := by
  cases exportpath <;>
    simp [GenF.compute_irmsd_pdb2sql_export, Fx.need, Fx.Prog.bind, GenF.exportpdb_append_default, GenF.exportpdb_tablename_default,
      GenF._close_rmdb_default]
end nfStr
end Proofs.GenFx
