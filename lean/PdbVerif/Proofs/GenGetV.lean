/-
  The per-model loop of the translated `update` (Gen/Get.lean) = `Model.updateModels`: the calls `self.update(..., model=m)` run
  one after the other on the database the previous one left, an exception stops the loop with what was done so far.
  With `update_step` (GenGetU) this gives the full `GenG.update = Model.update`.
-/
import PdbVerif.Proofs.GenGetU

set_option linter.unusedVariables false
set_option linter.unusedSimpArgs false

namespace GenGetProofs
open Tbl Model MicroSql GenSql SqlProofs GenG

/-! ### what an UPDATE leaves unchanged -/

/-- same added columns, same number of models, same table names -/
structure Same (a b : Db) : Prop where
  extra : b.extra = a.extra
  nModel : b.nModel = a.nModel
  names : b.tabs.map (·.name) = a.tabs.map (·.name)

theorem Same.rfl' (a : Db) : Same a a := ⟨rfl, rfl, rfl⟩
theorem Same.trans {a b c : Db} (h1 : Same a b) (h2 : Same b c) : Same a c :=
  ⟨h2.extra.trans h1.extra, h2.nModel.trans h1.nModel, h2.names.trans h1.names⟩

theorem replaceTab_same (db : Db) (tn : Py.Str) (rows : Table) : Same db (replaceTab db tn rows) := by
  refine ⟨rfl, rfl, ?_⟩
  simp only [replaceTab, List.map_map]
  apply List.map_congr_left
  intro t _
  simp only [Function.comp]
  by_cases h : ciEq t.name tn = true <;> simp [h]

theorem updateAt_same (db : Db) (tn : Py.Str) (assign : List (Col × Val)) (rid : Int) (db' : Db)
    (h : updateAt db tn assign rid = .ok db') : Same db db' := by
  unfold updateAt at h
  cases hf : findTab db tn with
  | none => rw [hf] at h; cases h
  | some tab =>
    rw [hf] at h
    simp only [] at h
    by_cases hr : rid < 1 ∨ rid > tab.rows.length
    · rw [if_pos hr] at h; cases h; exact Same.rfl' db
    · rw [if_neg hr] at h
      cases hg : tab.rows[(rid - 1).toNat]? with
      | none => rw [hg] at h; cases h; exact Same.rfl' db
      | some r =>
        rw [hg] at h
        simp only [bind, Except.bind, pure, Except.pure] at h
        cases hs : setCells db assign r with
        | error e => rw [hs] at h; cases h
        | ok r' => rw [hs] at h; cases h; exact replaceTab_same _ _ _

theorem execMany_same (tn : Py.Str) (cols : List Col) : ∀ (rows : List (List Val × Int)) (db : Db), Same db (execMany db tn cols rows).1
  | [], db => Same.rfl' db
  | (vals, rid) :: rest, db => by
    unfold execMany
    by_cases hl : vals.length ≠ cols.length
    · rw [if_pos hl]; exact Same.rfl' db
    · rw [if_neg hl]
      cases hu : updateAt db tn (cols.zip vals) rid with
      | error e => exact Same.rfl' db
      | ok db' => exact (updateAt_same db tn _ rid db' hu).trans (execMany_same tn cols rest db')

theorem updateCore_same (db : Db) (columns : Py.Str) (values : List (List Val)) (tn : Py.Str) (kw : List Kw) :
    Same db (updateCore db columns values tn kw).1 := by
  unfold updateCore
  cases values with
  | nil => exact Same.rfl' db
  | cons v vs =>
    simp only []
    split
    · exact Same.rfl' db
    · split
      · exact Same.rfl' db
      · split
        · exact Same.rfl' db
        · split
          · exact Same.rfl' db
          · exact execMany_same _ _ _ _

theorem sqlCol_same {a b : Db} (h : Same a b) (k : Py.Str) : sqlCol b k = sqlCol a k := by
  unfold sqlCol Db.extraNames; rw [h.extra]

theorem validUpd_same {a b : Db} (h : Same a b) (columns : Py.Str) : validColsUpdate b columns = validColsUpdate a columns := by
  unfold validColsUpdate Db.colnames Db.extraNames; rw [h.extra]

theorem findTab_same {a b : Db} (h : Same a b) (tn : Py.Str) : (findTab b tn).isSome = (findTab a tn).isSome := by
  have key : ∀ (tabs : List Tab), (tabs.find? (fun t => ciEq t.name tn)).isSome = (tabs.map (·.name)).any (fun n => ciEq n tn) := by
    intro tabs
    induction tabs with
    | nil => rfl
    | cons t rest ih =>
      by_cases hc : ciEq t.name tn = true
      · simp [List.find?_cons, hc]
      · simp [List.find?_cons, hc, ih]
  unfold findTab
  rw [key, key, h.names]

/-! ### the per-model loop -/

def mkCall (columns : Py.Str) (values : List (List Val)) (tn : Py.Str) (kw : List Kw) (m : Nat) : E.Call :=
  ⟨columns, values, tn, kw ++ [⟨modelKey, .scalar (.int m)⟩]⟩

theorem update_for_iModel_nf (sg : SelfGet) (db : Db) (columns : Py.Str) (values : List (List Val)) (tn : Py.Str) (m : Int)
    (st : List Kw × List E.Call) :
    update_for_iModel sg db columns values tn m st =
      .ok (E.setKw st.1 modelKey (.scalar (.int m)), st.2 ++ [⟨columns, values, tn, E.setKw st.1 modelKey (.scalar (.int m))⟩]) := rfl

/-- the translated loop collects one call per model, the keyword `model` set in place -/
theorem updLoop_eq (sg : SelfGet) (db : Db) (columns : Py.Str) (values : List (List Val)) (tn : Py.Str) (kw : List Kw)
    (hnot : modelKey ∉ E.keys kw) : ∀ (ms : List Nat) (kwS : List Kw) (acc : List E.Call),
    (∀ a, E.setKw kwS modelKey a = kw ++ [⟨modelKey, a⟩]) →
      ∃ kwE, E.forM (ms.map (fun (k : Nat) => (k : Int))) (kwS, acc) (fun it_ st_ => update_for_iModel sg db columns values tn it_ st_) =
        .ok (kwE, acc ++ ms.map (mkCall columns values tn kw))
  | [], kwS, acc, _ => ⟨kwS, by simp [E.forM]⟩
  | m :: ms, kwS, acc, hinv => by
    obtain ⟨kwE, ih⟩ := updLoop_eq sg db columns values tn kw hnot ms (kw ++ [⟨modelKey, .scalar (.int m)⟩])
      (acc ++ [mkCall columns values tn kw m]) (fun a => setKw_last modelKey a _ kw hnot)
    refine ⟨kwE, ?_⟩
    simp only [List.map_cons, E.forM, update_for_iModel_nf, hinv]
    simp only [update_for_iModel_nf] at ih
    rw [show (⟨columns, values, tn, kw ++ [⟨modelKey, .scalar (.int (m : Int))⟩]⟩ : E.Call) = mkCall columns values tn kw m from rfl, ih]
    simp

/-- **the calls of the per-model loop, run one after the other = `Model.updateModels`** -/
theorem runCalls_eq (columns : Py.Str) (values : List (List Val)) (tn : Py.Str) (kw : List Kw) (db0 : Db)
    (hnot : modelKey ∉ E.keys kw) (hv : validColsUpdate db0 columns = true)
    (ht : isName tn = true) (hc : ∀ c ∈ updNames columns, isName c = true) (hfind : (findTab db0 tn).isSome = true)
    (hk : ∀ k ∈ kw, isName (stripNo k.key).2 = true) (hrow : sqlCol db0 rowIDName = some .rowID) (hnd : (kw.map (·.key)).Nodup) :
    ∀ (ms : List Nat) (db : Db), Same db0 db →
      E.runCalls (updateF 1) db (ms.map (mkCall columns values tn kw)) = updateModels columns values tn kw ms db
  | [], db, _ => rfl
  | m :: ms, db, hs => by
    have hkw' : ∀ k ∈ kw ++ [(⟨modelKey, .scalar (.int m)⟩ : Kw)], isName (stripNo k.key).2 = true := by
      intro x hx
      rcases List.mem_append.1 hx with hx | hx
      · exact hk x hx
      · simp only [List.mem_singleton] at hx; subst hx; show isName (stripNo modelKey).2 = true; decide
    have hnd' : ((kw ++ [(⟨modelKey, .scalar (.int m)⟩ : Kw)]).map (·.key)).Nodup := by
      rw [List.map_append, List.nodup_append]
      refine ⟨hnd, by simp, ?_⟩
      intro a ha b hb
      simp only [List.map_cons, List.map_nil, List.mem_singleton] at hb
      subst hb
      intro e; subst e; exact hnot ha
    have hmk : hasModelKey (kw ++ [(⟨modelKey, .scalar (.int m)⟩ : Kw)]) = true := by simp [hasModelKey]
    have hstep : updateF 1 db columns values tn (kw ++ [⟨modelKey, .scalar (.int m)⟩]) =
        updateCore db columns values tn (kw ++ [⟨modelKey, .scalar (.int m)⟩]) := by
      show E.run (updateF 0) db (update_body (GenG.get db) db columns values tn _) = _
      rw [update_step (updateF 0) db columns values tn _ (Or.inl hmk) ht hc (by rw [findTab_same hs]; exact hfind) hkw'
        (by rw [sqlCol_same hs]; exact hrow) hnd']
      unfold Model.update
      simp only [validUpd_same hs, hv, hmk, Bool.not_true, Bool.false_and, Bool.false_eq_true, if_false]
    simp only [List.map_cons, E.runCalls, updateModels, mkCall, hstep]
    have hs' := hs.trans (updateCore_same db columns values tn (kw ++ [⟨modelKey, .scalar (.int m)⟩]))
    cases hu : updateCore db columns values tn (kw ++ [⟨modelKey, .scalar (.int m)⟩]) with
    | mk db' r =>
      rw [hu] at hs'
      cases r with
      | error e => rfl
      | ok u =>
        cases u
        exact runCalls_eq columns values tn kw db0 hnot hv ht hc hfind hk hrow hnd ms db' hs'

/-- **`GenG.update = Model.update`** for every database, column string, value rows, table name and keyword list: validation,
    the per-model loop (each `self.update` on the database the previous one left; an exception stops it with what was done), the
    shape checks in the order of the source before anything is modified, `get('rowID')` through the translated `get`, the
    statement and rows run by MicroSql -/
theorem update_eq_model (db : Db) (columns : Py.Str) (values : List (List Val)) (tn : Py.Str) (kw : List Kw)
    (ht : isName tn = true) (hc : ∀ c ∈ updNames columns, isName c = true) (hfind : (findTab db tn).isSome = true)
    (hk : ∀ k ∈ kw, isName (stripNo k.key).2 = true) (hrow : sqlCol db rowIDName = some .rowID) (hnd : (kw.map (·.key)).Nodup) :
    GenG.update db columns values tn kw = Model.update db columns values tn kw := by
  by_cases hd : (!hasModelKey kw && decide (db.nModel > 0)) = true
  · have hdk := (dispatch_iff db kw).2 hd
    have hnot : modelKey ∉ E.keys kw := hdk.1
    show E.run (updateF 1) db (update_body (GenG.get db) db columns values tn kw) = _
    unfold Model.update update_body
    simp only [bind]
    rw [validate_upd_eq]
    by_cases hv : validColsUpdate db columns = true
    · simp only [hv, if_true, bind_ok, hdk, and_self, Bool.not_true, Bool.false_eq_true, if_false, hd, not_false_eq_true]
      have hr : Rt.range (E.nModel db) = (List.range db.nModel).map (fun (k : Nat) => (k : Int)) := by
        unfold E.nModel; rw [range_eq, List.range_eq_range']
      obtain ⟨kwE, hloop⟩ := updLoop_eq (GenG.get db) db columns values tn kw hnot (List.range db.nModel) kw []
        (fun a => setKw_absent modelKey a kw hnot)
      rw [hr, hloop]
      simp only [bind_ok, pure, Except.pure, List.nil_append, E.run, E.runPlan,
        runCalls_eq columns values tn kw db hnot hv ht hc hfind hk hrow hnd (List.range db.nModel) db (Same.rfl' db), E.runEffect]
      cases updateModels columns values tn kw (List.range db.nModel) db with
      | mk d r => cases r with
        | error e => rfl
        | ok u => cases u; rfl
    · simp only [hv, if_false, Bool.false_eq_true, bind_error, Bool.not_false, if_true]
      rfl
  · have hd' : (!hasModelKey kw && decide (db.nModel > 0)) = false := by simpa using hd
    have hdisp : hasModelKey kw = true ∨ db.nModel = 0 := by
      simp only [Bool.and_eq_false_iff, Bool.not_eq_false', decide_eq_false_iff_not] at hd'
      rcases hd' with h | h
      · exact Or.inl h
      · exact Or.inr (by omega)
    exact update_eq_model_partial db columns values tn kw hdisp ht hc hfind hk hrow hnd

/-- **`GenG.update_xyz = Model.update` on `'x,y,z'`** (`Model.step (.updateXyz …)`) -/
theorem update_xyz_eq_model (db : Db) (xyz : List (List Val)) (tn : Py.Str) (kw : List Kw)
    (ht : isName tn = true) (hfind : (findTab db tn).isSome = true)
    (hk : ∀ k ∈ kw, isName (stripNo k.key).2 = true) (hrow : sqlCol db rowIDName = some .rowID) (hnd : (kw.map (·.key)).Nodup) :
    GenG.update_xyz db xyz tn kw = Model.update db "x,y,z".toList xyz tn kw := by
  rw [update_xyz_eq_update]
  exact update_eq_model db _ xyz tn kw ht (by decide) hfind hk hrow hnd

end GenGetProofs
