/- Model-driver operations of cluster E (C07, C11): the data-flow models of the four RMSD routines. -/
import PdbVerif.Driver.ECommon
import PdbVerif.Model.Parse
import PdbVerif.Model.Contacts
import PdbVerif.Model.RmsdFast
import PdbVerif.Model.RmsdSql
import PdbVerif.Gen.Rmsd
import PdbVerif.Driver.ExtSim

namespace Driver.ModelE
open Lean Driver Driver.ECommon Py Model Model.Rmsd

/-- `pdb2sql(lines)`: the parser's model, rows as atoms -/
def tableOf (lines : List Str) : Except Err (List Atom) := do
  let rows ← Model.parse lines
  rows.mapM (fun r => match Atom.ofRow r with
    | some a => pure a
    | none => throw (Err.unmodelled "row shape"))

def mpairJ (p : Pair) : Json := pairJ p.1.2 p.2.2
def mpairsJ (l : List Pair) : Json := .arr (l.map mpairJ).toArray

/-- every pair joins two records of the same identity -/
def byIdentity (l : List Pair) : Bool := l.all (fun p => decide (p.1.1 = p.2.1))

def outcomeJ (o : Outcome) : Json :=
  match o with
  | .err e => Json.mkObj [("out", errJ e)]
  | .value fit eval =>
    Json.mkObj [("out", .str "value"), ("fit", mpairsJ fit), ("eval", mpairsJ eval),
      ("by_identity", .bool (byIdentity fit && byIdentity eval))]

def zoneSrc : ZoneArg → ZoneSrc
  | .compute => .compute
  | .write => .write
  | .read l => .read l

def linesJ (l : Except Err (List Str)) : Json := exceptJ (fun ls => Json.arr (ls.map strJ).toArray) l

/-- the raw-column readers and the parser agree on identity and coordinates of every record -/
def rawAgrees (lines : List Str) (t : Except Err (List Atom)) : Bool :=
  match rawPts lines, t with
  | .ok ps, .ok rows => decide (ps = rows.map ptOf)
  | _, _ => false

structure Run where
  irmsdFast : Outcome
  irmsdSql : Outcome
  lrmsdFast : Outcome
  lrmsdSql : Outcome

def runAll (dl rl : List Str) (iz lz : ZoneArg) (cutoff : Rat) (check enforce : Bool) : Run :=
  let td := tableOf dl
  let tr := tableOf rl
  { irmsdFast := Rmsd.irmsdFast dl rl td tr (zoneSrc iz) cutoff check enforce
    irmsdSql := Rmsd.irmsdSql td tr (match iz with | .read l => some l | _ => none) cutoff
    lrmsdFast := Rmsd.lrmsdFast dl rl td tr (zoneSrc lz) check enforce
    lrmsdSql := Rmsd.lrmsdSql td tr enforce }

/-! ### C11: relations between the model's outputs on a pair and on its transformed copy -/

def outClass : Outcome → String
  | .value _ _ => "value"
  | .err e => "ERR:" ++ e.tag

def mapPair (fd fr : P3 → P3) (fk : Key → Key) (p : Pair) : Pair := ((fk p.1.1, fd p.1.2), (fk p.2.1, fr p.2.2))

/-- both runs return a value and the variant's pair lists are the images of the base's, in the same order -/
def relMapped (f : Pair → Pair) (b v : Outcome) : Bool :=
  match b, v with
  | .value fb eb, .value fv ev => decide (fv = fb.map f) && decide (ev = eb.map f)
  | .err e, .err e' => decide (e = e')
  | _, _ => false

/-- same identities in the same order (coordinates not compared) -/
def relKeys (b v : Outcome) : Bool :=
  let ks (l : List Pair) := l.map (fun p => (p.1.1, p.2.1))
  match b, v with
  | .value fb eb, .value fv ev => decide (ks fv = ks fb) && decide (ks ev = ks eb)
  | .err e, .err e' => decide (e = e')
  | _, _ => false

/-- the variant returns the same pairs up to order, or raises -/
def relPermOrError (b v : Outcome) : Bool :=
  match b, v with
  | .value fb eb, .value fv ev => fv.isPerm fb && ev.isPerm eb
  | _, .err _ => true
  | .err _, .value _ _ => false

def clashArgs : ContactArgs :=
  { cutoff := Gen.clash_cutoff, allchains := false, chain1 := "A".toList, chain2 := "B".toList, extend := false,
    bb := false, noH := Gen.clash_excludeH, retPairs := Gen.clash_return_pairs }

/-- `compute_clashes(pdb)` with the default chains: number of listed atom pairs -/
def clashCount (t : Except Err (List Atom)) : Except Err Nat := do
  let t ← t
  let d ← contactPairs t clashArgs
  pure (d.foldl (fun n e => n + e.2.length) 0)

def fnatArgs (c0 c1 : Str) : ContactArgs :=
  { cutoff := Gen.fnat_sql_cutoff_default, allchains := false, chain1 := c0, chain2 := c1, extend := false,
    bb := Gen.fnat_ref_only_backbone, noH := Gen.fnat_ref_excludeH, retPairs := true }

/-- the residue contact pairs both Fnat routines start from (`get_contact_residues(cutoff=5, excludeH=True,
    return_contact_pairs=True)`), flattened -/
def residuePairs (t : Except Err (List Atom)) : Except Err (List (ResKey × ResKey)) := do
  let t ← t
  match getChains t with
  | [c0, c1] =>
    let d ← contactResiduePairs t (fnatArgs c0 c1)
    pure (d.flatMap (fun e => e.2.map (fun b => (e.1, b))))
  | _ => throw Err.valueError

def exceptEq {α : Type} [DecidableEq α] (a b : Except Err α) : Bool :=
  match a, b with
  | .ok x, .ok y => decide (x = y)
  | .error e, .error e' => decide (e = e')
  | _, _ => false

def shiftRes (δ : Int) (k : ResKey) : ResKey := (k.1, k.2.1 + δ, k.2.2)

def metaModel (kind : String) (j : Json) (bd br vd vr : List Str) (cutoff : Rat) (check enforce : Bool) : Except String Json := do
  let rb := runAll bd br .compute .compute cutoff check enforce
  let rv := runAll vd vr .compute .compute cutoff check enforce
  let clB := clashCount (tableOf bd)
  let clV := clashCount (tableOf vd)
  let rpBd := residuePairs (tableOf bd); let rpBr := residuePairs (tableOf br)
  let rpVd := residuePairs (tableOf vd); let rpVr := residuePairs (tableOf vr)
  let mk (rel : Outcome → Outcome → Bool) (clash respairs : Option Bool) : Json :=
    let one (nm : String) (b v : Outcome) : String × Json :=
      (nm, Json.mkObj [("base", .str (outClass b)), ("var", .str (outClass v)), ("rel", .bool (rel b v))])
    Json.mkObj [one "irmsd_fast" rb.irmsdFast rv.irmsdFast, one "irmsd_sql" rb.irmsdSql rv.irmsdSql,
      one "lrmsd_fast" rb.lrmsdFast rv.lrmsdFast, one "lrmsd_sql" rb.lrmsdSql rv.lrmsdSql,
      ("clashes_base", exceptJ (fun n => intJ n) clB), ("clashes_var", exceptJ (fun n => intJ n) clV),
      ("clashes", match clash with | some x => .bool x | none => .null),
      ("residue_pairs", match respairs with | some x => .bool x | none => .null)]
  let sameContacts := exceptEq rpBd rpVd && exceptEq rpBr rpVr
  match kind with
  | "rigid_exact" =>
    let g ← jMotion (← jVal j "motion")
    let both := (← jStr j "which") == "both"
    let f := mapPair (applyMotion g) (if both then applyMotion g else id) id
    pure (mk (relMapped f) (some (exceptEq clB clV)) (some sameContacts))
  | "rigid" => pure (mk relKeys none none)
  | "columns" => pure (mk (relMapped id) (some (exceptEq clB clV)) (some sameContacts))
  | "renumber" =>
    let δ ← jInt j "delta"
    let fk : Key → Key := fun k => (k.1, k.2.1 + δ, k.2.2)
    let sh (x : Except Err (List (ResKey × ResKey))) := x.map (fun l => l.map (fun p => (shiftRes δ p.1, shiftRes δ p.2)))
    pure (mk (relMapped (mapPair id id fk)) (some (exceptEq clB clV)) (some (exceptEq (sh rpBd) rpVd && exceptEq (sh rpBr) rpVr)))
  | "hydrogens" => pure (mk (fun _ _ => true) (some (exceptEq clB clV)) (some sameContacts))
  | "permute" => pure (mk relPermOrError none none)
  | _ => throw s!"unknown meta kind {kind}"

/-! ### the GENERATED raw-line readers and zone reader (Gen/Rmsd.lean, translated from StructureSimilarity.py on every run) -/

/-- `[[chain, [n, ...]], ...]` → a `resData` dictionary in insertion order -/
def jZoneDict (j : Json) (k : String) : Except String (Py.Dict Str (List Int)) := do
  let a ← jArr j k
  a.toList.mapM (fun e => match e with
    | .arr #[c, .arr ns] => do
      let c ← asStr c
      let ns ← ns.toList.mapM asInt
      pure (c.toList, ns)
    | _ => throw "zone entry: [chain, [numbers]] expected")

def jKeyList (j : Json) (k : String) : Except String (List (Str × Int × Str)) := do
  let a ← jArr j k
  a.toList.mapM (fun e => match e with
    | .arr #[c, n, nm] => do pure ((← asStr c).toList, ← asInt n, (← asStr nm).toList)
    | _ => throw "key: [chain, number, name] expected")

def p3sJ (l : List (Vec3 Rat)) : Json := .arr (l.map (fun p => Json.arr (p3J p).toArray)).toArray
def keysJ (l : List (Str × Int × Str)) : Json := .arr (l.map keyJ).toArray
def zoneDictJ (z : Py.Dict Str (List Int)) : Json :=
  .arr (z.map (fun e => Json.arr #[strJ e.1, .arr (e.2.map intJ).toArray])).toArray

/-- op `gen_readers`: `GenR.get_data_zone_backbone`, `GenR.get_xyz_zone_backbone` (both return forms), `GenR._get_xyz` on the
    lines, zone, name list and index of the case; `GenR.read_zone` on the zone file of the case -/
def genReaders (j : Json) : Except String Json := do
  let lines ← jLines j "lines"
  let zone ← jZoneDict j "zone"
  let names ← jLines j "names"
  let index ← jKeyList j "index"
  let rd : Str → Except Err (List Str) := fun _ => .ok lines
  let sumJ {α β : Type} (f : α → Json) (g : β → Json) (x : Except Err (Sum α β)) : Json :=
    exceptJ (fun s => match s with | .inl a => f a | .inr b => g b) x
  let dataT := GenR.get_data_zone_backbone rd [] zone true names
  let dataF := GenR.get_data_zone_backbone rd [] zone false names
  let xyzT := GenR.get_xyz_zone_backbone rd [] zone true names
  let xyzF := GenR.get_xyz_zone_backbone rd [] zone false names
  let gx := GenR._get_xyz rd [] index
  let zfile : Option (List Str) := match jLines j "zone_file" with | .ok l => some l | .error _ => none
  let rz := GenR.read_zone (fun _ => zfile.isSome) (fun _ => .ok (zfile.getD [])) []
  pure (Json.mkObj [
    ("data_true", sumJ (fun (p : _ × _) => Json.arr #[keysJ p.1, keysJ p.2]) keysJ dataT),
    ("data_false", sumJ (fun (p : _ × _) => Json.arr #[keysJ p.1, keysJ p.2]) keysJ dataF),
    ("xyz_true", sumJ (fun (p : _ × _) => Json.arr #[p3sJ p.1, p3sJ p.2]) p3sJ xyzT),
    ("xyz_false", sumJ (fun (p : _ × _) => Json.arr #[p3sJ p.1, p3sJ p.2]) p3sJ xyzF),
    ("get_xyz", exceptJ p3sJ gx),
    ("read_zone", exceptJ zoneDictJ rz)])

def op (name : String) (j : Json) : Except String (Option Json) := do
  match name with
  | "gen_readers" => pure (some (← genReaders j))
  | "gen_zones" =>
    -- the GENERATED zone computations (Gen/Rmsd.lean) on the parsed reference, `save_file=True`: the dictionary and the file written
    let rl ← jLines j "ref"
    let cutoff ← jRat j "cutoff"
    let p2s : Str → Except Err (List Atom) := fun _ => tableOf rl
    let outJ (x : Except Err (Py.Dict Str (List Int) × List GenR.Rt2.Write)) : Json :=
      exceptJ (fun zw => Json.mkObj [("zone", zoneDictJ zw.1),
        ("files", .arr (zw.2.map (fun f => Json.arr #[strJ f.1, .arr (f.2.map strJ).toArray])).toArray)]) x
    pure (some (Json.mkObj [
      ("lzone", outJ (GenR.compute_lzone p2s "ref".toList true (some "LZ".toList))),
      ("izone", outJ (GenR.compute_izone p2s (fun t c c0 c1 => contactSets t (izoneArgs c c0 c1)) "ref".toList cutoff true (some "IZ".toList)))]))
  | "rmsd" =>
    let dl ← jLines j "dec"
    let rl ← jLines j "ref"
    let cutoff ← jRat j "cutoff"
    let check ← jBool j "check"
    let enforce ← jBool j "enforce"
    let iz ← jZone j "izone"
    let lz ← jZone j "lzone"
    let r := runAll dl rl iz lz cutoff check enforce
    let td := tableOf dl
    let tr := tableOf rl
    pure (some (Json.mkObj [
      ("irmsd_fast", outcomeJ r.irmsdFast), ("irmsd_sql", outcomeJ r.irmsdSql),
      ("lrmsd_fast", outcomeJ r.lrmsdFast), ("lrmsd_sql", outcomeJ r.lrmsdSql),
      ("izone_text", linesJ (izoneFileText tr cutoff)), ("lzone_text", linesJ (lzoneFileText tr)),
      ("raw_agrees", .bool (rawAgrees dl td && rawAgrees rl tr))]))
  | "meta" =>
    let b ← jVal j "base"
    let v ← jVal j "var"
    let r ← metaModel (← jStr j "kind") j (← jLines b "dec") (← jLines b "ref") (← jLines v "dec") (← jLines v "ref")
      (← jRat j "cutoff") (← jBool j "check") (← jBool j "enforce")
    pure (some r)
  | _ => (do match ← ExtSim.op name j with | some r => pure (some r) | none => pure none)

end Driver.ModelE
