/- JSON transport of the table vocabulary (cluster B): values, rows, databases, keyword arguments, operations.
   Imports the vocabulary only (never Gen or Model), so both drivers can use it. -/
import PdbVerif.Driver.Json
import PdbVerif.Spec.C03
import PdbVerif.Spec.C04
import PdbVerif.Spec.C15

namespace Driver.B
open Lean Driver Tbl

/-- int = JSON number, text = JSON string, real = {"r": "num/den"} -/
def valOfJson (j : Json) : Except String Val :=
  match j with
  | .str s => .ok (.text s.toList)
  | .num _ => do let i ← asInt j; pure (.int i)
  | .obj _ => do let q ← jRat j "r"; pure (.real q)
  | _ => .error "value: number, string or {r:…} expected"

def valJ : Val → Json
  | .int i => intJ i
  | .real q => Json.mkObj [("r", ratJ q)]
  | .text s => strJ s

def valsOfJson (j : Json) : Except String (List Val) :=
  match j with
  | .arr a => a.toList.mapM valOfJson
  | _ => .error "array of values expected"

/-- a record: the 14 standard attributes in column order, then the added cells -/
def rowOfJson (j : Json) : Except String Row :=
  match j with
  | .arr a =>
    if a.size < 14 then .error "row: at least 14 fields expected" else do
    let v (k : Nat) : Except String Val := valOfJson a[k]!
    let i (k : Nat) : Except String Int := do match ← v k with | .int i => pure i | _ => throw s!"row field {k}: int expected"
    let q (k : Nat) : Except String Rat := do match ← v k with | .real q => pure q | .int i => pure (i : Rat) | _ => throw s!"row field {k}: real expected"
    let s (k : Nat) : Except String Py.Str := do match ← v k with | .text s => pure s | _ => throw s!"row field {k}: text expected"
    let f0 ← i 0; let f1 ← s 1; let f2 ← s 2; let f3 ← s 3; let f4 ← s 4; let f5 ← i 5; let f6 ← s 6
    let f7 ← q 7; let f8 ← q 8; let f9 ← q 9; let f10 ← q 10; let f11 ← q 11; let f12 ← s 12; let f13 ← i 13
    let atom : Py.Atom := { serial := f0, name := f1, altLoc := f2, resName := f3, chainID := f4, resSeq := f5,
                            iCode := f6, x := f7, y := f8, z := f9, occ := f10, temp := f11, element := f12, model := f13 }
    let extra ← (a.toList.drop 14).mapM valOfJson
    pure { atom := atom, extra := extra }
  | _ => .error "row: array expected"

def rowJ (r : Row) : Json :=
  .arr ((StdCol.all.map (fun c => valJ (r.std c)) ++ r.extra.map valJ).toArray)

/-- formula-generated table (the harness builds the same records): `n` records, variation `salt` -/
def genRow (salt : Nat) (i : Nat) : Row :=
  let names : List String := ["CA", "N", "C", "O", "CB"]
  let resn : List String := ["ALA", "GLY", "TRP"]
  let chains : List String := ["A", "B", "C"]
  let k := i + salt
  { atom := { serial := (i : Int) + 1, name := (names.getD (k % 5) "").toList, altLoc := [],
              resName := (resn.getD ((k / 5) % 3) "").toList, chainID := (chains.getD ((i / 700) % 3) "").toList,
              resSeq := ((i / 5 : Nat) : Int), iCode := [], x := mkRat (k % 97 : Nat) 8, y := mkRat (k % 13 : Nat) 4,
              z := -(mkRat (k % 7 : Nat) 2), occ := 1, temp := mkRat (k % 11 : Nat) 4, element := "C".toList, model := 0 },
    extra := [] }

def rowsOfJson (j : Json) : Except String Table :=
  match j.getObjVal? "rows" with
  | .ok (.arr a) => a.toList.mapM rowOfJson
  | _ =>
    match j.getObjVal? "gen" with
    | .ok g => do
      let n ← jInt g "n"; let salt ← jInt g "salt"
      pure ((List.range n.toNat).map (genRow salt.toNat))
    | _ => .error "table: rows or gen expected"

def declOfString : String → Except String Decl
  | "integer" => .ok .integer | "real" => .ok .real | "numeric" => .ok .numeric | "text" => .ok .text
  | s => .error s!"bad decl {s}"

def declJ : Decl → Json
  | .integer => "integer" | .real => "real" | .numeric => "numeric" | .text => "text"

def dbOfJson (j : Json) : Except String Db := do
  let tabs ← (← jArr j "tabs").toList.mapM (fun t => do
    let name ← jStr t "name"
    let rows ← rowsOfJson t
    pure ({ name := name.toList, rows := rows } : Tab))
  let extra ← match j.getObjVal? "extra" with
    | .ok (.arr a) => a.toList.mapM (fun e => do
        let n ← jStr e "name"; let d ← jStr e "decl"
        pure ({ name := n.toList, decl := ← declOfString d } : ColDef))
    | _ => pure []
  let nModel ← match j.getObjVal? "nModel" with
    | .ok v => (do let i ← asInt v; pure i.toNat)
    | _ => pure 0
  pure { tabs := tabs, extra := extra, nModel := nModel }

def dbJ (db : Db) : Json :=
  Json.mkObj [("tabs", .arr (db.tabs.map (fun t => Json.mkObj [("name", strJ t.name), ("rows", .arr (t.rows.map rowJ).toArray)])).toArray),
              ("colnames", .arr (db.colnames.map strJ).toArray)]

/-- {"k": key, "v": scalar} or {"k": key, "l": [values]} or {"k": key, "range": [start, stop, step]} -/
def kwOfJson (j : Json) : Except String Kw := do
  let k ← jStr j "k"
  match j.getObjVal? "v" with
  | .ok v => pure { key := k.toList, arg := .scalar (← valOfJson v) }
  | _ =>
    match j.getObjVal? "l" with
    | .ok l => pure { key := k.toList, arg := .list (← valsOfJson l) }
    | _ => .error "kw: v or l expected"

def kwsOfJson (j : Json) (field : String) : Except String (List Kw) :=
  match j.getObjVal? field with
  | .ok (.arr a) => a.toList.mapM kwOfJson
  | _ => .ok []

def itemJ : Item → Json
  | .one v => valJ v
  | .many vs => .arr (vs.map valJ).toArray

def itemsJ (l : List Item) : Json := .arr (l.map itemJ).toArray

def strOf (j : Json) (k : String) : Except String Py.Str := do let s ← jStr j k; pure s.toList

def opOfJson (j : Json) : Except String Tbl.Op := do
  let name ← jStr j "name"
  match name with
  | "update" =>
    let values ← (← jArr j "values").toList.mapM valsOfJson
    pure (Tbl.Op.update (← strOf j "columns") values (← strOf j "tn") (← kwsOfJson j "kw"))
  | "update_xyz" =>
    let values ← (← jArr j "values").toList.mapM valsOfJson
    pure (Tbl.Op.updateXyz values (← strOf j "tn") (← kwsOfJson j "kw"))
  | "update_column" =>
    let values ← valsOfJson (.arr (← jArr j "values"))
    let index ← match j.getObjVal? "index" with
      | .ok (.arr a) => (do let l ← a.toList.mapM valOfJson; pure (some l))
      | _ => pure none
    pure (Tbl.Op.updateColumn (← strOf j "colname") values index (← strOf j "tn"))
  | "add_column" =>
    let v ← match j.getObjVal? "value" with | .ok v => valOfJson v | _ => throw "add_column: value"
    pure (Tbl.Op.addColumn (← strOf j "colname") (← strOf j "coltype") v (← strOf j "tn"))
  | "fix_chainID" => pure Tbl.Op.fixChainID
  | n => .error s!"unknown modification {n}"

/-- one step of a history: a modification, or a query on the current state -/
inductive HistItem
  | modify (op : Tbl.Op)
  | query (columns tn : Py.Str) (kw : List Kw)

def histItemOfJson (j : Json) : Except String HistItem := do
  match ← jStr j "name" with
  | "get" => pure (.query (← strOf j "columns") (← strOf j "tn") (← kwsOfJson j "kw"))
  | _ => pure (.modify (← opOfJson j))

def wopOfJson (j : Json) : Except String WOp := do
  match ← jStr j "w" with
  | "modify" => pure (WOp.modify (← jInt j "k").toNat (← opOfJson (← j.getObjVal? "op")))
  | "sub" => pure (WOp.deriveSub (← jInt j "k").toNat (← kwsOfJson j "kw"))
  | "interface" => pure (WOp.deriveInterface (← jInt j "k").toNat)
  | "many" => pure (WOp.deriveMany ((← (← jArr j "ks").toList.mapM asInt).map Int.toNat))
  | n => .error s!"unknown world step {n}"

def objOfJson (j : Json) : Except String Obj := do
  let kind ← jStr j "kind"
  pure { kind := if kind == "many" then .many else .single, db := ← dbOfJson (← j.getObjVal? "db") }

/-- the text round trip on tables whose values are exactly representable in the PDB columns: the model number
    is not exported (every atom comes back in model 0) and added columns are dropped -/
def roundtripRepresentable (T : Table) : Table :=
  T.map (fun r => { atom := { r.atom with model := 0 }, extra := [] })

def worldJ (w : List Obj) : Json := .arr (w.map (fun o => dbJ o.db)).toArray

end Driver.B
