/- Driver operations of contributor `Fx` (translated-code ties): run GENERATED effect programs (Gen/Fx.lean) in a small concrete
   world so the harness can compare the calls they make — with their arguments, in order — with the traces recorded from the real code.
   Wired into the cluster drivers by a fall-through; return `none` for names that are not yours. -/
import PdbVerif.Driver.Json
import PdbVerif.Driver.SpecF
import PdbVerif.Model.Effects
import PdbVerif.Gen.Fx

namespace Driver.ExtFx
open Lean Driver Py

def sJ (s : Py.Str) : Json := .str (String.ofList s)
def oJ : Option Py.Str → Json
  | some p => sJ p
  | none => .str ":memory:"

def eventJ : Fx.Event Py.Str Py.Str → Json
  | .isfile p b => .arr #[.str "isfile", sJ p, .bool b]
  | .pathExists p b => .arr #[.str "exists", sJ p, .bool b]
  | .remove p => .arr #[.str "remove", sJ p]
  | .connect d => .arr #[.str "connect", oJ d]
  | .cursor d => .arr #[.str "cursor", oJ d]
  | .commit d => .arr #[.str "commit", oJ d]
  | .close d => .arr #[.str "close", oJ d]
  | .openw p m => .arr #[.str "open", sJ p, .str m.tag]
  | .write p c => .arr #[.str "write", sJ p, sJ c]
  | .fclose p => .arr #[.str "fclose", sJ p]
  | .mkstemp d a b n => .arr #[.str "mkstemp", sJ d, sJ a, sJ b, sJ n]
  | .replace s d => .arr #[.str "replace", sJ s, sJ d]
  | .readlines p => .arr #[.str "readlines", sJ p]

def optS (j : Json) (k : String) : Option Py.Str :=
  match j.getObjVal? k with
  | .ok (.str s) => some s.toList
  | _ => none

def optB (j : Json) (k : String) (d : Bool) : Bool :=
  match j.getObjVal? k with
  | .ok (.bool b) => b
  | _ => d

def strs (j : Json) (k : String) : List Py.Str :=
  match j.getObjVal? k with
  | .ok (.arr a) => a.toList.filterMap (fun x => match x with | .str s => some s.toList | _ => none)
  | _ => []

/-- files of the world: [[name, [chunk, …]], …] -/
def filesOf (j : Json) : List (Py.Str × List Py.Str) :=
  match j.getObjVal? "files" with
  | .ok (.arr a) => a.toList.filterMap (fun x => match x with
      | .arr #[.str n, .arr cs] => some (n.toList, cs.toList.filterMap (fun c => match c with | .str s => some s.toList | _ => none))
      | _ => none)
  | _ => []

def zoneOf (j : Json) : Except String (List (Py.Str × Int)) := do
  let a ← jArr j "data"
  a.toList.mapM (fun x => match x with
    | .arr #[.str c, n] => do pure (c.toList, ← asInt n)
    | _ => .error "zone entry")

def selfJ (s : Fx.Self Py.Str) : Json :=
  Json.mkObj [("sqlfile", oJ s.sqlfile), ("conn", match s.conn with | some c => oJ c.db | none => .null),
    ("c", match s.c with | some c => oJ c.db | none => .null)]

def answer {α : Type} (toJ : α → Json) (r : List (Fx.Event Py.Str Py.Str) × Fx.World Py.Str Py.Str × Except Py.Err α) : Json :=
  Json.mkObj [("events", .arr (r.1.map eventJ).toArray),
    ("outcome", match r.2.2 with | .ok _ => .str "ok" | .error e => errJ e),
    ("value", match r.2.2 with | .ok a => toJ a | .error _ => .null),
    ("files", .arr (r.2.1.files.map (fun f => Json.arr #[sJ f.1, sJ f.2.flatten])).toArray)]

/-- the object as the harness describes it: `sqlfile` (absent = None), `connected` (the connection exists already) -/
def selfOf (j : Json) : Fx.Self Py.Str :=
  let sq := optS j "sqlfile"
  let connected := optB j "connected" false
  { sqlfile := sq, verbose := optB j "verbose" false, fix_chainID := optB j "fix_chainID" false,
    conn := if connected then some ⟨sq⟩ else none, c := if connected then some ⟨sq⟩ else none }

/-- stand-ins for the callee programs that are parameters of a unit: each makes ONE recognisable call -/
def markCompute (tag : Py.Str) (save : Bool) (fn : Option Py.Str) : Fx.Prog Py.Str Py.Str Py.Str :=
  .pathExists (tag ++ (if save then "(save_file=True,filename=".toList else "(save_file=False,filename=".toList) ++ (fn.getD "None".toList) ++ [')'])
    (fun _ => .pure "computed".toList)
def markRead (f : Py.Str) : Fx.Prog Py.Str Py.Str Py.Str := .pathExists ("read_zone(".toList ++ f ++ [')']) (fun _ => .pure "read".toList)

/-! ### the hand model's program of a fast routine / zone routine when the ZONE COMPUTATION FAILS on the reference (a reference without
    exactly two chains, or one that does not parse): `Work.computeErr` set; same answer format as `Driver.ModelF.effectsOp` -/

open Spec.C16 Model.C16 in
def zoneFailWork : Model.C16.Work String (List String) String where
  compute := fun _ rc => rc
  computeErr := fun _ _ => some .valueError
  render := id
  parse := fun c => if c == ["garbage"] then .error .valueError else .ok c
  check := fun r stage _ => match r, stage with
    | .lzone, 0 | .izone, 0 => .error .valueError        -- the zone ROUTINES fail at their first check (Model.C16.prog: `checked`)
    | _, _ => .ok ()
  score := fun _ _ _ => .ok "value"
  exportLines := fun _ _ _ => ["ATOM"]
  sameAtoms := fun _ => true

open Spec.C16 Model.C16 in
def zoneFailOp (r : Routine) (j : Json) : Except String Json := do
  let zone := match j.getObjVal? "zone" with | .ok (.str s) => s | _ => "none"
  let a : Args String := { decoy := "decoy", ref := "ref", tmp := "tmp", zone := if zone == "none" then none else some "zone" }
  let fs : FS String String := fun p =>
    if p == "decoy" then some ["d"] else if p == "ref" then some ["r"]
    else if p == "zone" && zone == "present" then some ["z"] else none
  let t : Prog String String String := prog zoneFailWork r a
  let res := t.exec fs
  let outcome : Json := match res.2 with | .ok _ => .str "ok" | .error e => .str e.tag
  let final := ["decoy", "ref", "zone", "tmp", "out1", "out2"].filter (fun p => (res.1 p).isSome)
  pure (Json.mkObj [("trace", .arr ((t.trace fs).map Driver.SpecF.actJ).toArray), ("outcome", outcome),
    ("final", .arr (final.map Json.str).toArray)])

def op (name : String) (j : Json) : Except String (Option Json) := do
  let chk := optB j "check" true
  match name with
  | "effects_zonefail_lrmsd_fast" => return some (← zoneFailOp (.lrmsdFast chk) j)
  | "effects_zonefail_irmsd_fast" => return some (← zoneFailOp (.irmsdFast chk) j)
  | "effects_zonefail_lzone" => return some (← zoneFailOp .lzone j)
  | "effects_zonefail_izone" => return some (← zoneFailOp .izone j)
  | _ => pure ()
  if name != "fx_run" then return none
  let fn ← jStr j "fn"
  let tmp := (optS j "tmpname").getD "TMP".toList
  let w : Fx.World Py.Str Py.Str := { files := filesOf j, tmpName := fun _ _ _ => tmp }
  match fn with
  | "create_sql" => pure (some (answer selfJ ((GenF._create_sql (selfOf j)).run w)))
  | "commit" => pure (some (answer selfJ ((GenF._commit (selfOf j)).run w)))
  | "close" => pure (some (answer selfJ ((GenF._close (selfOf j) (optB j "rmdb" GenF._close_rmdb_default)).run w)))
  | "init" =>
    -- `_create_table` / `_fix_chainID` are parameters: one recognisable call each
    let ct : Fx.Self Py.Str → Py.Str → Py.Str → Fx.Prog Py.Str Py.Str (Fx.Self Py.Str) :=
      fun s f t => .pathExists ("_create_table(".toList ++ f ++ [','] ++ t ++ [')']) (fun _ => .pure s)
    let fx : Fx.Self Py.Str → Fx.Prog Py.Str Py.Str (Fx.Self Py.Str) := fun s => .pathExists "_fix_chainID()".toList (fun _ => .pure s)
    pure (some (answer selfJ ((GenF.pdb2sql_init ct fx (selfOf j) ((optS j "pdbfile").getD []) ((optS j "tablename").getD "atom".toList)).run w)))
  | "write_zone" =>
    let data ← zoneOf j
    pure (some (answer (fun _ => Json.null) ((GenF._write_zone ((optS j "filename").getD []) data).run w)))
  | "read_zone_io" =>
    pure (some (answer (fun (ls : List Py.Str) => Json.arr (ls.map sJ).toArray) ((GenF.read_zone_io ((optS j "filename").getD [])).run w)))
  | "lrmsd_zone" =>
    pure (some (answer sJ ((GenF.compute_lrmsd_fast_zone (markCompute "compute_lzone".toList) markRead (optS j "zone")).run w)))
  | "irmsd_zone" =>
    pure (some (answer sJ ((GenF.compute_irmsd_fast_zone (fun (_ : Unit) => markCompute "compute_izone".toList) markRead (optS j "zone") ()).run w)))
  | "izone_rowid" =>
    pure (some (answer sJ ((GenF.get_izone_rowID_io markRead ((optS j "zone").getD [])).run w)))
  | "lzone_save" =>
    let data ← zoneOf j
    pure (some (answer (fun _ => Json.null) ((GenF.compute_lzone_save ((optS j "ref").getD []) (optB j "save_file" true) (optS j "filename") data).run w)))
  | "izone_save" =>
    let data ← zoneOf j
    pure (some (answer (fun _ => Json.null) ((GenF.compute_izone_save ((optS j "ref").getD []) (optB j "save_file" true) (optS j "filename") data).run w)))
  | "pairs_save" =>
    pure (some (answer (fun _ => Json.null)
      ((GenF.compute_residue_pairs_ref_save ((optS j "ref").getD []) (fun (_ : Unit) => "PICKLE".toList) (optB j "save_file" true) (optS j "filename") ()).run w)))
  | "exportpdb" =>
    let rows ← (← jArr j "rows").toList.mapM atomOfJson
    let get : Py.Str → Py.Str → Unit → Except Py.Err (List Py.Atom) := fun _ _ _ => .ok rows
    pure (some (answer (fun _ => Json.mkObj [("cols", sJ (Fx.joinStr [','] GenF.col_keys))])
      ((GenF.exportpdb get ((optS j "fname").getD []) (optB j "append" GenF.exportpdb_append_default)
        ((optS j "tablename").getD GenF.exportpdb_tablename_default) ()).run w)))
  | "sql2pdb" =>
    let rows ← (← jArr j "rows").toList.mapM atomOfJson
    let get : Py.Str → Py.Str → Unit → Except Py.Err (List Py.Atom) := fun _ _ _ => .ok rows
    pure (some (Json.mkObj [("lines", exceptJ (fun (ls : List Py.Str) => Json.arr (ls.map sJ).toArray) (GenF.sql2pdb get "atom".toList ()))]))
  | "lrmsd_export" | "irmsd_export" =>
    -- the objects are their names; `exportpdb` / `_close` are parameters: one recognisable call each
    let ex : Py.Str → Py.Str → Bool → Py.Str → List (Py.Str × Py.Str) → Fx.Prog Py.Str Py.Str Unit :=
      fun o f a t kw => .openw f (if a then .a else .w)
        (.write f (o ++ ".exportpdb(tablename=".toList ++ t ++ (kw.flatMap (fun kv => [','] ++ kv.1 ++ ['='] ++ kv.2)) ++ [')']) (.fclose f (.pure ())))
    let cl : Py.Str → Bool → Fx.Prog Py.Str Py.Str Unit := fun o rm => .close (some (o ++ (if rm then "._close(rmdb=True)" else "._close(rmdb=False)").toList)) (.pure ())
    let ep := optS j "exportpath"
    if fn == "lrmsd_export" then
      pure (some (answer (fun _ => Json.null) ((GenF.compute_lrmsd_pdb2sql_export ex cl ep "sql_decoy".toList "sql_ref".toList).run w)))
    else
      pure (some (answer (fun _ => Json.null)
        ((GenF.compute_irmsd_pdb2sql_export ex cl ep "sql_decoy".toList "sql_ref".toList "index_contact_decoy".toList "index_contact_ref".toList).run w)))
  | _ => .error s!"fx_run: unknown fn {fn}"

end Driver.ExtFx
