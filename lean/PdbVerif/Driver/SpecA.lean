/- Spec-driver operations of cluster A (see Driver/Main.lean). Imports Spec/* only — never Gen or Model. -/
import PdbVerif.Driver.Json

namespace Driver.SpecA
open Lean Driver

def op (name : String) (j : Json) : Except String (Option Json) := do
  match name with
  | _ => pure none

end Driver.SpecA
