/- Spec-driver operations of cluster A (C01 parsing, C02 export, zone-file lines of C09). Imports Spec/* only. -/
import PdbVerif.Driver.Json
import PdbVerif.Spec.C01
import PdbVerif.Spec.C02

namespace Driver.SpecA
open Lean Driver Py

def valJ : Val → Json
  | .int i => .arr #[.str "i", intJ i]
  | .real r => .arr #[.str "r", ratJ r]
  | .text s => .arr #[.str "t", strJ s]

def rowJ (r : Row) : Json := .arr (r.map valJ).toArray
def rowsJ (rs : List Row) : Json := .arr (rs.map rowJ).toArray

def op (name : String) (j : Json) : Except String (Option Json) := do
  match name with
  | "parse" =>
    -- the abstract text: its records (lines without the newline)
    let recs ← (← jArr j "records").toList.mapM fun x => do let s ← asStr x; pure s.toList
    match j.getObjVal? "accepted" with
    | .ok (.bool false) => pure (some (.str "ERR:FileNotFoundError"))
    | _ => pure (some (exceptJ rowsJ (Spec.parse recs)))
  | "format" =>
    let a ← atomOfJson (← jVal j "row")
    -- what the implementation wrote for this row (a line, or the exception it raised)
    let line ← jStr j "impl_line"
    let inRange (x : Rat) : Bool := decide (-(19999999 : Rat) / 2 < x ∧ x < (199999999 : Rat) / 2)
    if !(inRange a.x && inRange a.y && inRange a.z) then
      -- a coordinate that cannot fit must raise instead of overflowing
      pure (some (Json.mkObj [("must_raise", .bool true)]))
    else
      pure (some (Json.mkObj [("must_raise", .bool false),
        ("failures", .arr ((Spec.lineFailures a line.toList).map Json.str).toArray)]))
  | "format_xyz" =>
    let x ← jRat j "x"
    let field ← jStr j "impl_field"
    let inRange : Bool := decide (-(19999999 : Rat) / 2 < x ∧ x < (199999999 : Rat) / 2)
    pure (some (Json.mkObj [("must_raise", .bool (!inRange)), ("ok", .bool (Spec.coordOK x field.toList)),
      ("needed", match Spec.neededDecimals x with | some k => intJ k | none => .null)]))
  | "roundtrip" =>
    let a ← atomOfJson (← jVal j "row")
    let b ← atomOfJson (← jVal j "impl_row")
    let ks ← jArr j "ks"
    let k (i : Nat) : Except String Nat := do let v ← asInt ks[i]!; pure v.toNat
    pure (some (.bool (Spec.readBackOK a b (← k 0) (← k 1) (← k 2))))
  | "export" =>
    -- one row through export, re-parse and re-export; `impl_*` = what the implementation produced
    let a ← atomOfJson (← jVal j "row")
    let inRange (x : Rat) : Bool := decide (-(19999999 : Rat) / 2 < x ∧ x < (199999999 : Rat) / 2)
    if !(inRange a.x && inRange a.y && inRange a.z) then
      pure (some (Json.mkObj [("must_raise", .bool true)]))
    else
      let line ← jStr j "impl_line"
      let fails := Spec.lineFailures a line.toList
      match j.getObjVal? "impl_row" with
      | .ok (.arr r) =>
        let b ← atomOfJson (.arr r)
        let ks ← jArr j "ks"
        let k (i : Nat) : Except String Nat := do let v ← asInt ks[i]!; pure v.toNat
        let line2 ← jStr j "impl_line2"
        pure (some (Json.mkObj [("must_raise", .bool false), ("failures", .arr (fails.map Json.str).toArray),
          ("readback", .bool (Spec.readBackOK a b (← k 0) (← k 1) (← k 2))),
          ("reexport", .bool (Spec.reexportOK b line.toList line2.toList))]))
      | _ =>
        pure (some (Json.mkObj [("must_raise", .bool false), ("failures", .arr (fails.map Json.str).toArray)]))
  | "zone" =>
    -- a zone written for (chain, num) must be read back as (chain, num)
    let chain ← jStr j "chain"; let num ← jInt j "num"
    pure (some (Json.mkObj [("chain", .str chain), ("num", intJ num)]))
  | _ => pure none

end Driver.SpecA
