/- Model-driver operations of cluster A (C01 parsing, C02 export, zone-file lines of C09). -/
import PdbVerif.Driver.Json
import PdbVerif.Model.Parse
import PdbVerif.Driver.ExtParse

namespace Driver.ModelA
open Lean Driver Py

def valJ : Val → Json
  | .int i => .arr #[.str "i", intJ i]
  | .real r => .arr #[.str "r", ratJ r]
  | .text s => .arr #[.str "t", strJ s]

def rowJ (r : Row) : Json := .arr (r.map valJ).toArray
def rowsJ (rs : List Row) : Json := .arr (rs.map rowJ).toArray

def strList (a : Array Json) : Except String (List Str) :=
  a.toList.mapM fun j => do let s ← asStr j; pure s.toList

def fsOf (j : Json) : Except String Model.FS := do
  -- {"path": "...", "kind": "file"|"dir"|"none", "content": "..."}
  match j.getObjVal? "fs" with
  | .ok f =>
    let p ← jStr f "path"
    let k ← jStr f "kind"
    if k = "file" then
      let c ← jStr f "content"
      pure (fun q => if q = p.toList then some (Model.Node.file c.toList) else none)
    else if k = "dir" then pure (fun q => if q = p.toList then some Model.Node.dir else none)
    else pure (fun _ => none)
  | _ => pure (fun _ => none)

def op (name : String) (j : Json) : Except String (Option Json) := do
  match name with
  | "parse" =>
    let form ← jStr j "form"
    let fs ← fsOf j
    let inp : Model.Input ←
      match form with
      | "str" => do let s ← jStr j "arg"; pure (Model.Input.str s.toList)
      | "bytes" => do let s ← jStr j "arg"; pure (Model.Input.bytes s.toList)
      | "path" => do let s ← jStr j "arg"; pure (Model.Input.path s.toList)
      | "listStr" => do let l ← strList (← jArr j "arg"); pure (Model.Input.listStr l)
      | "listBytes" => do let l ← strList (← jArr j "arg"); pure (Model.Input.listBytes l)
      | "ndarrayStr" => do let l ← strList (← jArr j "arg"); pure (Model.Input.ndarrayStr l)
      | "ndarrayBytes" => do let l ← strList (← jArr j "arg"); pure (Model.Input.ndarrayBytes l)
      | f => throw s!"unknown form {f}"
    pure (some (exceptJ rowsJ (Model.readTable fs inp)))
  | "format" =>
    let a ← atomOfJson (← jVal j "row")
    pure (some (exceptJ strJ (Gen.data2pdb_line a)))
  | "format_xyz" =>
    let x ← jRat j "x"
    pure (some (exceptJ strJ (Gen._format_xyz x)))
  | "roundtrip" =>
    let a ← atomOfJson (← jVal j "row")
    -- export the row, parse the exported line again: what a derived database holds
    let r : Except Err Row := do
      let l ← Gen.data2pdb_line a
      Model.parseAtomLine l a.model
    pure (some (exceptJ rowJ r))
  | "export" =>
    let a ← atomOfJson (← jVal j "row")
    match Gen.data2pdb_line a with
    | .error e => pure (some (errJ e))
    | .ok l =>
      let row := Model.parseAtomLine l a.model
      let l2 : Except Err Str := do
        let r ← row
        match Atom.ofRow r with
        | some b => Gen.data2pdb_line b
        | none => throw (.unmodelled "row shape")
      pure (some (Json.mkObj [("line", strJ l), ("row", exceptJ rowJ row), ("line2", exceptJ strJ l2)]))
  | "zone" =>
    let chain ← jStr j "chain"; let num ← jInt j "num"
    let r : Except Err (Str × Str × Int) := do
      let l ← Gen.zone_line chain.toList num
      let (c, n) ← Gen.read_zone_line l
      pure (l, c, n)
    pure (some (exceptJ (fun (l, c, n) => Json.mkObj [("line", strJ l), ("chain", strJ c), ("num", intJ n)]) r))
  | "read_zone_line" =>
    let l ← jStr j "line"
    pure (some (exceptJ (fun (c, n) => Json.mkObj [("chain", strJ c), ("num", intJ n)]) (Gen.read_zone_line l.toList)))
  | _ => (do match ← ExtParse.op name j with | some r => pure (some r) | none => pure none)

end Driver.ModelA
