/- JSON helpers for the line-protocol drivers (core `Lean.Data.Json`; no Mathlib). -/
import Lean.Data.Json
import PdbVerif.Py.Num
import PdbVerif.Py.Atom

namespace Driver
open Lean

def ratOfString (s : String) : Option Rat :=
  match s.splitOn "/" with
  | [n] => n.toInt?.map (fun i => (i : Rat))
  | [n, d] => do
    let n ← n.toInt?
    let d ← d.toNat?
    if d = 0 then none else some (mkRat n d)
  | _ => none

def ratToString (q : Rat) : String := s!"{q.num}/{q.den}"

def jVal (j : Json) (k : String) : Except String Json :=
  match j.getObjVal? k with
  | .ok v => .ok v
  | .error _ => .error s!"missing field {k}"

def jStr (j : Json) (k : String) : Except String String :=
  match j.getObjVal? k with
  | .ok (.str s) => .ok s
  | _ => .error s!"missing string field {k}"

def jRat (j : Json) (k : String) : Except String Rat := do
  let s ← jStr j k
  match ratOfString s with
  | some q => .ok q
  | none => .error s!"bad rational in {k}: {s}"

def jInt (j : Json) (k : String) : Except String Int :=
  match j.getObjVal? k with
  | .ok v => match v.getInt? with
    | .ok i => .ok i
    | .error _ => .error s!"bad int field {k}"
  | _ => .error s!"missing int field {k}"

def jBool (j : Json) (k : String) : Except String Bool :=
  match j.getObjVal? k with
  | .ok (.bool b) => .ok b
  | _ => .error s!"missing bool field {k}"

def jArr (j : Json) (k : String) : Except String (Array Json) :=
  match j.getObjVal? k with
  | .ok (.arr a) => .ok a
  | _ => .error s!"missing array field {k}"

def asStr (j : Json) : Except String String :=
  match j with | .str s => .ok s | _ => .error "expected string"

def asRat (j : Json) : Except String Rat := do
  let s ← asStr j
  match ratOfString s with | some q => .ok q | none => .error s!"bad rational {s}"

def asInt (j : Json) : Except String Int :=
  match j.getInt? with | .ok i => .ok i | .error _ => .error "expected int"

def strJ (s : Py.Str) : Json := .str (String.ofList s)
def ratJ (q : Rat) : Json := .str (ratToString q)
def intJ (i : Int) : Json := .num (JsonNumber.fromInt i)

def errJ (e : Py.Err) : Json := .str ("ERR:" ++ e.tag)

def exceptJ {α} (f : α → Json) : Except Py.Err α → Json
  | .ok a => f a
  | .error e => errJ e

/-- row of the ATOM table: 14 standard attributes in column order -/
def atomOfJson (j : Json) : Except String Py.Atom := do
  match j with
  | .arr a =>
    if a.size != 14 then .error "atom: 14 fields expected" else
    let s (k : Nat) : Except String Py.Str := do let t ← asStr a[k]!; pure t.toList
    pure { serial := ← asInt a[0]!, name := ← s 1, altLoc := ← s 2, resName := ← s 3, chainID := ← s 4,
           resSeq := ← asInt a[5]!, iCode := ← s 6, x := ← asRat a[7]!, y := ← asRat a[8]!, z := ← asRat a[9]!,
           occ := ← asRat a[10]!, temp := ← asRat a[11]!, element := ← s 12, model := ← asInt a[13]! }
  | _ => .error "atom: array expected"

def atomJ (a : Py.Atom) : Json :=
  .arr #[intJ a.serial, strJ a.name, strJ a.altLoc, strJ a.resName, strJ a.chainID, intJ a.resSeq, strJ a.iCode,
         ratJ a.x, ratJ a.y, ratJ a.z, ratJ a.occ, ratJ a.temp, strJ a.element, intJ a.model]

/-- main loop: one JSON object per input line, one JSON value per output line -/
partial def loop (handle : Json → Except String Json) (h : IO.FS.Stream) (out : IO.FS.Stream) : IO Unit := do
  let line ← h.getLine
  if line.isEmpty then return ()
  let t := line.trimAscii.toString
  if t.isEmpty then loop handle h out else
  let res : Json :=
    match Json.parse t with
    | .error e => Json.mkObj [("driver_error", .str s!"parse: {e}")]
    | .ok j =>
      match handle j with
      | .ok r => r
      | .error e => Json.mkObj [("driver_error", .str e)]
  out.putStrLn res.compress
  loop handle h out


abbrev Op := String → Json → Except String (Option Json)

/-- answer `{"model": …, "spec": …}` for one case -/
def handleBoth (specOp modelOp : Op) (j : Json) : Except String Json := do
  let op ← jStr j "op"
  let m ← modelOp op j
  let s ← specOp op j
  match m, s with
  | none, none => .error s!"unknown op {op}"
  | _, _ => pure (Json.mkObj [("model", m.getD .null), ("spec", s.getD .null)])

def handleSpec (specOp : Op) (j : Json) : Except String Json := do
  let op ← jStr j "op"
  match ← specOp op j with
  | none => .error s!"unknown op {op}"
  | some s => pure (Json.mkObj [("spec", s)])

end Driver
