/- Spec-driver operations of cluster C (contacts: C05, C14). Imports Spec/* only — never Gen or Model. -/
import PdbVerif.Driver.CommonC
import PdbVerif.Spec.C05
import PdbVerif.Spec.C14

namespace Driver.SpecC
open Lean Driver Driver.CommonC Spec.Contact

/-- the case carries the backbone names (the harness reads them from the library object) -/
def params (j : Json) (r : RawArgs) : Except String Params := do
  let bb ← jArr j "backbone"
  let names ← bb.toList.mapM (fun x => do let s ← asStr x; pure s.toList)
  pure { backbone := names, filters := { bb := r.bb, noH := r.noH }, cutoff := r.cutoff }

/-- `"NA"`: the case lies outside what the property speaks about (unknown chain, a chain paired with itself,
    all chains of a structure with fewer than two chains) -/
def na : Json := .str "NA"

def inDomain (r : RawArgs) : Bool :=
  let cs := chainIDs r.atoms
  if r.allchains then decide (cs.length ≥ 2)
  else cs.contains r.chain1 && cs.contains r.chain2 && r.chain1 != r.chain2

def specSets (P : Params) (r : RawArgs) : List (Py.Str × List Nat) :=
  let sets := if r.allchains then allChains P r.atoms else twoChains P r.atoms r.chain1 r.chain2
  if r.extend then sets.map (fun e => (e.1, extension P.backbone r.atoms e.2 r.bb)) else sets

def specPairs (P : Params) (r : RawArgs) : List (Nat × List Nat) :=
  if r.allchains then pairMapAll P r.atoms else pairMap P r.atoms r.chain1 r.chain2

def op (name : String) (j : Json) : Except String (Option Json) := do
  match name with
  | "contact_atoms" =>
    let r ← rawArgs j
    let P ← params j r
    if !inDomain r then pure (some na)
    else if r.pairs then pure (some (pairsJ (specPairs P r)))
    else pure (some (chainsJ (specSets P r)))
  | "contact_residues" =>
    let r ← rawArgs j
    let P ← params j r
    if !inDomain r then pure (some na)
    else if r.pairs then pure (some (resPairsJ (residuePairMap r.atoms (specPairs P r))))
    else pure (some (resChainsJ (residueSets r.atoms (specSets P { r with extend := false }))))
  | "backbone_names" => pure (some (.str "NA"))
  | "contact_defaults" => pure (some (.str "NA"))
  | _ => pure none

end Driver.SpecC
