import PdbVerif.Driver.SpecOps
import PdbVerif.Driver.ModelOps

namespace Driver
open Lean

/-- answer `{"model": …, "spec": …}` for one case -/
def handleBoth (j : Json) : Except String Json := do
  let op ← jStr j "op"
  let m ← modelOp op j
  let s ← specOp op j
  match m, s with
  | none, none => .error s!"unknown op {op}"
  | _, _ => pure (Json.mkObj [("model", m.getD .null), ("spec", s.getD .null)])

def handleSpec (j : Json) : Except String Json := do
  let op ← jStr j "op"
  match ← specOp op j with
  | none => .error s!"unknown op {op}"
  | some s => pure (Json.mkObj [("spec", s)])

def mainBoth : IO Unit := do loop handleBoth (← IO.getStdin) (← IO.getStdout)
def mainSpec : IO Unit := do loop handleSpec (← IO.getStdin) (← IO.getStdout)

end Driver
