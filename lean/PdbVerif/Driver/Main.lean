import PdbVerif.Driver.SpecOps
import PdbVerif.Driver.ModelOps
import PdbVerif.Driver.SpecA
import PdbVerif.Driver.SpecB
import PdbVerif.Driver.SpecC
import PdbVerif.Driver.SpecD
import PdbVerif.Driver.SpecE
import PdbVerif.Driver.SpecF
import PdbVerif.Driver.ModelA
import PdbVerif.Driver.ModelB
import PdbVerif.Driver.ModelC
import PdbVerif.Driver.ModelD
import PdbVerif.Driver.ModelE
import PdbVerif.Driver.ModelF

namespace Driver
open Lean

def firstSome (fs : List (String → Json → Except String (Option Json))) (op : String) (j : Json) :
    Except String (Option Json) := do
  for f in fs do
    match ← f op j with
    | some r => return some r
    | none => pure ()
  return none

def allSpec : List (String → Json → Except String (Option Json)) :=
  [specOp, SpecA.op, SpecB.op, SpecC.op, SpecD.op, SpecE.op, SpecF.op]
def allModel : List (String → Json → Except String (Option Json)) :=
  [modelOp, ModelA.op, ModelB.op, ModelC.op, ModelD.op, ModelE.op, ModelF.op]

/-- answer `{"model": …, "spec": …}` for one case -/
def handleBoth (j : Json) : Except String Json := do
  let op ← jStr j "op"
  let m ← firstSome allModel op j
  let s ← firstSome allSpec op j
  match m, s with
  | none, none => .error s!"unknown op {op}"
  | _, _ => pure (Json.mkObj [("model", m.getD .null), ("spec", s.getD .null)])

def mainBoth : IO Unit := do loop handleBoth (← IO.getStdin) (← IO.getStdout)

end Driver
