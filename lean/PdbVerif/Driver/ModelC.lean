/- Model-driver operations of cluster C (contacts: C05, C14): the hand-written model of interface.py. -/
import PdbVerif.Driver.CommonC
import PdbVerif.Model.Contacts

namespace Driver.ModelC
open Lean Driver Driver.CommonC

def args (r : RawArgs) : Model.ContactArgs :=
  { cutoff := r.cutoff, allchains := r.allchains, chain1 := r.chain1, chain2 := r.chain2,
    extend := r.extend, bb := r.bb, noH := r.noH, retPairs := r.pairs }

def op (name : String) (j : Json) : Except String (Option Json) := do
  match name with
  | "contact_atoms" =>
    let r ← rawArgs j
    pure (some (exceptJ (fun o => match o with
      | Model.ContactOut.chains d => chainsJ d
      | Model.ContactOut.pairs d => pairsJ d) (Model.contactAtoms r.atoms (args r))))
  | "contact_residues" =>
    let r ← rawArgs j
    if r.pairs then pure (some (exceptJ resPairsJ (Model.contactResiduePairs r.atoms (args r))))
    else pure (some (exceptJ resChainsJ (Model.contactResidueSets r.atoms (args r))))
  | "contact_defaults" =>
    pure (some (Json.mkObj [("atoms", ratJ Gen.contact_cutoff_default), ("residues", ratJ Gen.contact_residues_cutoff_default)]))
  | "backbone_names" =>
    pure (some (Json.arr (Model.backbone.map strJ).toArray))
  | _ => pure none

end Driver.ModelC
