/- Model-driver operations of cluster C (contacts: C05, C14): the hand-written model of interface.py, and — when the request
   carries `"gen": true` — the GENERATED translation of the same functions (Gen/Contacts.lean, namespace GenC) next to it. -/
import PdbVerif.Driver.CommonC
import PdbVerif.Model.Contacts
import PdbVerif.Gen.Contacts

namespace Driver.ModelC
open Lean Driver Driver.CommonC

def args (r : RawArgs) : Model.ContactArgs :=
  { cutoff := r.cutoff, allchains := r.allchains, chain1 := r.chain1, chain2 := r.chain2,
    extend := r.extend, bb := r.bb, noH := r.noH, retPairs := r.pairs }

/-- `"gen": true` in the request: answer with the hand model AND the generated function -/
def wantsGen (j : Json) : Bool :=
  match j.getObjVal? "gen" with
  | .ok (.bool b) => b
  | _ => false

/-- an iteration order of Python sets other than the order of first insertion (sampled next to `id`; the theorems of
    Props/C14K hold for every order that keeps the elements) -/
def revOrder (l : List (Py.Str × Py.Str × Int)) : List (Py.Str × Py.Str × Int) := l.reverse

/-- the GENERATED `get_contact_atoms` (Gen/Contacts.lean) -/
def genAtoms (ord : List (Py.Str × Py.Str × Int) → List (Py.Str × Py.Str × Int)) (r : RawArgs) : Json :=
  exceptJ (fun o => match o with
    | Sum.inl d => pairsJ d
    | Sum.inr d => chainsJ d)
    (GenC.get_contact_atoms ord r.atoms r.cutoff r.allchains r.chain1 r.chain2 r.extend r.bb r.noH r.pairs)

/-- the GENERATED `get_contact_residues` (Gen/Contacts.lean) -/
def genResidues (ord : List (Py.Str × Py.Str × Int) → List (Py.Str × Py.Str × Int)) (r : RawArgs) : Json :=
  exceptJ (fun o => match o with
    | Sum.inl d => resPairsJ d
    | Sum.inr d => resChainsJ d)
    (GenC.get_contact_residues ord r.atoms r.cutoff r.allchains r.chain1 r.chain2 r.noH r.bb r.pairs)

/-- hand model and generated function side by side; the second iteration order of sets only matters where a set is iterated
    (`extend_to_residue`), and is evaluated on small tables -/
def both (hand : Json) (gen : (List (Py.Str × Py.Str × Int) → List (Py.Str × Py.Str × Int)) → Json) (r : RawArgs) : Json :=
  Json.mkObj ([("hand", hand), ("gen", gen id)] ++ (if r.extend && r.atoms.length ≤ 400 then [("gen_rev", gen revOrder)] else []))

def op (name : String) (j : Json) : Except String (Option Json) := do
  match name with
  | "contact_atoms" =>
    let r ← rawArgs j
    let hand := exceptJ (fun o => match o with
      | Model.ContactOut.chains d => chainsJ d
      | Model.ContactOut.pairs d => pairsJ d) (Model.contactAtoms r.atoms (args r))
    if wantsGen j then pure (some (both hand (fun ord => genAtoms ord r) r)) else pure (some hand)
  | "contact_residues" =>
    let r ← rawArgs j
    let hand := if r.pairs then exceptJ resPairsJ (Model.contactResiduePairs r.atoms (args r))
      else exceptJ resChainsJ (Model.contactResidueSets r.atoms (args r))
    if wantsGen j then pure (some (both hand (fun ord => genResidues ord r) r)) else pure (some hand)
  | "gen_backbone_names" =>
    pure (some (Json.arr (GenC.backbone_atoms.map strJ).toArray))
  | "contact_defaults" =>
    pure (some (Json.mkObj [("atoms", ratJ Gen.contact_cutoff_default), ("residues", ratJ Gen.contact_residues_cutoff_default)]))
  | "backbone_names" =>
    pure (some (Json.arr (Model.backbone.map strJ).toArray))
  | _ => pure none

end Driver.ModelC
