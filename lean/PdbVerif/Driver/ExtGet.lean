/- Driver operations of contributor `Get` (translated-code ties): run GENERATED functions so the harness can compare them with the real code.
   Wired into the cluster drivers by a fall-through; return `none` for names that are not yours. -/
import PdbVerif.Driver.Json
import PdbVerif.Driver.BJson
import PdbVerif.Gen.Get

namespace Driver.ExtGet
open Lean Driver Driver.B Tbl

def errJ (e : Model.Err) : Json := .str ("ERR:" ++ e.tag)

def resultJ : Except Model.Err Model.Result → Json
  | .ok (.data items) => itemsJ items
  | .ok (.models per) => Json.mkObj [("models", .arr (per.map itemsJ).toArray)]
  | .error e => errJ e

def outJ : Except Model.Err Unit → Json
  | .ok _ => "ok"
  | .error e => errJ e

/-- one modification through the GENERATED methods (`vstr` = Python's `str(value)` of an `add_column`, carried by the case);
    `_fix_chainID` is not translated: the hand model -/
def genStep (db : Db) (op : Tbl.Op) (vstr : Py.Str) : Db × Except Model.Err Unit :=
  match op with
  | .update c v tn kw => GenG.update db c v tn kw
  | .updateXyz v tn kw => GenG.update_xyz db v tn kw
  | .updateColumn c v i tn => GenG.update_column db c v i tn
  | .addColumn n ty v tn => GenG.add_column (fun _ => vstr) db n ty v tn
  | .fixChainID => Model.fixChainID db

/-- a history through the generated methods, in the format of `ModelB.runHist` -/
def runHistG (db : Db) : List (HistItem × Py.Str) → List Json
  | [] => []
  | (.modify op, vstr) :: rest =>
    let (db', out) := genStep db op vstr
    Json.mkObj [("out", outJ out), ("db", dbJ db')] :: runHistG db' rest
  | (.query columns tn kw, _) :: rest =>
    Json.mkObj [("out", resultJ (GenG.get db columns tn kw)), ("db", dbJ db)] :: runHistG db rest

/-- the GENERATED `get` / wrappers / modifying methods (Gen/Get.lean: whole functions, MicroSql as the engine) -/
def op (name : String) (j : Json) : Except String (Option Json) := do
  match name with
  | "g_table_names" =>
    let db ← dbOfJson (← j.getObjVal? "db")
    pure (some (match GenG._get_table_names db with
      | .ok l => Json.arr (l.map strJ).toArray
      | .error e => errJ e))
  | "g_get_xyz" =>
    let db ← dbOfJson (← j.getObjVal? "db")
    let tn ← strOf j "tn"; let kw ← kwsOfJson j "kw"
    pure (some (Json.mkObj [("gen", resultJ (GenG.get_xyz db tn kw)), ("hand", resultJ (Model.get_xyz db tn kw))]))
  | "g_get_residues" =>
    let db ← dbOfJson (← j.getObjVal? "db")
    let f := fun (r : Except Model.Err (List (List Val))) => match r with
      | .ok l => Json.arr (l.map (fun vs => Json.arr (vs.map valJ).toArray)).toArray
      | .error e => errJ e
    let tn ← strOf j "tn"; let kw ← kwsOfJson j "kw"
    pure (some (Json.mkObj [("gen", f (GenG.get_residues db tn kw)), ("hand", f (Model.get_residues db tn kw))]))
  | "g_get_chains" =>
    let db ← dbOfJson (← j.getObjVal? "db")
    let f := fun (r : Except Model.Err (List Py.Str)) => match r with
      | .ok l => Json.arr (l.map strJ).toArray
      | .error e => errJ e
    let tn ← strOf j "tn"; let kw ← kwsOfJson j "kw"
    pure (some (Json.mkObj [("gen", f (GenG.get_chains db tn kw)), ("hand", f (Model.get_chains db tn kw))]))
  | "g_hist" =>
    let db ← dbOfJson (← j.getObjVal? "db")
    let ops ← (← jArr j "ops").toList.mapM (fun o => do
      let it ← histItemOfJson o
      let vs := match o.getObjVal? "value_str" with | .ok (.str s) => s.toList | _ => []
      pure (it, vs))
    pure (some (Json.mkObj [("gen", .arr (runHistG db ops).toArray)]))
  | "g_get" =>
    let db ← dbOfJson (← j.getObjVal? "db")
    let columns ← strOf j "columns"; let tn ← strOf j "tn"; let kw ← kwsOfJson j "kw"
    pure (some (Json.mkObj [("gen", resultJ (GenG.get db columns tn kw)), ("hand", resultJ (Model.get db columns tn kw))]))
  | _ => pure none

end Driver.ExtGet
