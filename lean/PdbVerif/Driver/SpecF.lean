/- Spec-driver operations of cluster F (C16, C20). Imports Spec/* only — never Gen or Model. -/
import PdbVerif.Driver.Json
import PdbVerif.Spec.C16
import PdbVerif.Spec.C20

namespace Driver.SpecF
open Lean Driver

/-! ## C16: the property judges an observed effect trace -/

/-- roles of the canonical path names the harness uses -/
def roleOf (s : String) : Spec.C16.Role :=
  if s == "decoy" || s == "ref" then .input
  else if s == "zone" then .cache
  else if s == "tmp" then .temp
  else if s == "out1" || s == "out2" then .output
  else .other

def argS (a : Array Json) (i : Nat) : Except String String :=
  match a[i]? with
  | some (.str s) => .ok s
  | _ => .error s!"trace event: missing argument {i}"

def actOfJson (j : Json) : Except String (Spec.C16.Act String) := do
  match j with
  | .arr a =>
    let k ← argS a 0
    match k with
    | "exists" => pure (.pathExists (← argS a 1))
    | "isFile" => pure (.isFile (← argS a 1))
    | "read" => pure (.readAll (← argS a 1))
    | "mkstemp" => pure (.createTemp (← argS a 1))
    | "append" => pure (.append (← argS a 1))
    | "openw" => pure (.openTrunc (← argS a 1))
    | "replace" => pure (.replace (← argS a 1) (← argS a 2))
    | "remove" => pure (.remove (← argS a 1))
    | "dbopen" => pure (.dbOpen (← argS a 1))
    | "dbmem" => pure .dbMem
    | "shell" => pure .shell
    | _ => .error s!"trace event: unknown kind {k}"
  | _ => .error "trace event: array expected"

def actJ : Spec.C16.Act String → Json
  | .pathExists p => .arr #[.str "exists", .str p]
  | .isFile p => .arr #[.str "isFile", .str p]
  | .readAll p => .arr #[.str "read", .str p]
  | .createTemp p => .arr #[.str "mkstemp", .str p]
  | .append p => .arr #[.str "append", .str p]
  | .openTrunc p => .arr #[.str "openw", .str p]
  | .replace s d => .arr #[.str "replace", .str s, .str d]
  | .remove p => .arr #[.str "remove", .str p]
  | .dbOpen p => .arr #[.str "dbopen", .str p]
  | .dbMem => .arr #[.str "dbmem"]
  | .shell => .arr #[.str "shell"]

def judgeTrace (j : Json) : Except String Json := do
  let tr ← jArr j "trace"
  let acts ← tr.toList.mapM actOfJson
  let bad := Spec.C16.traceBad roleOf acts
  pure (Json.mkObj [("ok", .bool (Spec.C16.traceOk roleOf acts)), ("bad", .arr (bad.map actJ).toArray)])

/-! ## C20: the abstract course of a scenario -/

structure DRow where
  id : Nat
  tag : Int
  cols : List String
  deriving DecidableEq, Repr

def readJ : Spec.C20.Read DRow → Json
  | .noFile => .str "nofile"
  | .noTable => .str "notable"
  | .notADatabase => .str "notadb"
  | .table rows =>
    let ids := rows.map (·.id)
    let tags := (rows.map (·.tag)).eraseDups
    let colsets := (rows.map (·.cols)).eraseDups
    Json.mkObj [("n", intJ rows.length), ("ids_contiguous", .bool (ids == List.range rows.length)),
      ("tags", .arr (tags.map intJ).toArray),
      ("cols", .arr (colsets.map (fun cs => Json.arr (cs.map Json.str).toArray)).toArray)]

/-- statement-level JSON operations → model operations (`["insert", n]` = the n rows of one executemany) -/
def opsOfJson (a : Array Json) : Except String (List (Spec.C20.Op DRow)) := do
  let mut out : List (Spec.C20.Op DRow) := []
  for j in a do
    match j with
    | .arr x =>
      let k ← argS x 0
      match k with
      | "open" => out := out ++ [.openDb]
      | "create" => out := out ++ [.createTable]
      | "insert" =>
        let n ← match x[1]? with | some v => asInt v | none => .error "insert: count"
        out := out ++ (List.range n.toNat).map (fun i => Spec.C20.Op.insertRow ⟨i, 0, []⟩)
      | "update" =>
        let t ← match x[1]? with | some v => asInt v | none => .error "update: tag"
        out := out ++ [.update (fun r => { r with tag := t })]
      | "addcol" =>
        let c ← argS x 1
        out := out ++ [.addColumn (fun r => { r with cols := r.cols ++ [c] })]
      | "commit" => out := out ++ [.commit]
      | "close_keep" => out := out ++ [.closeKeep]
      | "close_remove" => out := out ++ [.closeRemove]
      | _ => throw s!"unknown store op {k}"
    | _ => throw "store op: array expected"
  pure out

def r0OfJson (j : Json) : Except String (Spec.C20.Read DRow) := do
  match (← jStr j "r0") with
  | "nofile" => pure .noFile
  | "olddb" => pure (.table [⟨999, 0, []⟩])
  | "garbage" => pure .notADatabase
  | s => .error s!"bad r0 {s}"

def heldJ : Option (List DRow) → Json
  | none => .str "notable"
  | some rows => readJ (.table rows)

def op (name : String) (j : Json) : Except String (Option Json) := do
  if name.startsWith "effects_" then
    return some (← judgeTrace j)
  match name with
  | "store_scenario" =>
    let a ← jArr j "ops"
    let k ← jInt j "k"
    let ops ← opsOfJson (if k < 0 then a else a.extract 0 k.toNat)
    let r0 ← r0OfJson j
    let sp := Spec.C20.spec r0 ops
    pure (some (Json.mkObj [("seen", readJ sp.seen), ("held", heldJ sp.held), ("dirty", .bool sp.dirty)]))
  | _ => pure none

end Driver.SpecF
