/- driver entry points of cluster B -/
import PdbVerif.Driver.SpecB
import PdbVerif.Driver.ModelB

namespace Driver
def mainBothB : IO Unit := do loop (handleBoth SpecB.op ModelB.op) (← IO.getStdin) (← IO.getStdout)
end Driver
