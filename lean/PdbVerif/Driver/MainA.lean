/- driver entry points of cluster A -/
import PdbVerif.Driver.SpecA
import PdbVerif.Driver.ModelA

namespace Driver
def mainBothA : IO Unit := do loop (handleBoth SpecA.op ModelA.op) (← IO.getStdin) (← IO.getStdout)
end Driver
