/- Spec-driver operations of cluster E (C07, C11). Imports Spec/* only — never Gen or Model. -/
import PdbVerif.Driver.ECommon
import PdbVerif.Spec.C07
import PdbVerif.Spec.C11

namespace Driver.SpecE
open Lean Driver Driver.ECommon Py Spec.Rmsd

def idPairJ (p : IdPair) : Json := pairJ p.2.1 p.2.2
def pairsJ (l : List IdPair) : Json := .arr (l.map idPairJ).toArray

/-- the Spec's answer for one decoy/reference pair -/
def rmsdSpec (dec ref : List Atom) (cutoff : Rat) : Json :=
  Json.mkObj [
    ("defined", .bool true),
    ("consistent", .bool (consistent dec ref)),
    ("same_atoms", .bool (sameAtoms dec ref)),
    ("missing_any", .bool (missingSomewhere none dec ref)),
    ("missing_backbone", .bool (missingSomewhere (some backboneNames) dec ref)),
    ("interface", pairsJ (interfacePairs dec ref cutoff)),
    ("lig_fit", pairsJ (ligandFitPairs dec ref)),
    ("lig_eval", pairsJ (ligandEvalPairs dec ref))]

structure Side where
  dec : List Atom
  ref : List Atom

def jSide (j : Json) (k : String) : Except String (Option Side) := do
  let s ← jVal j k
  match ← jRowsOpt s "dec_rows", ← jRowsOpt s "ref_rows" with
  | some d, some r => pure (some ⟨d, r⟩)
  | _, _ => pure none

def isPermOf (a b : List IdPair) : Bool := a.isPerm b

open Spec.Inv in
/-- relation between the Spec's objects of the base pair and of its transformed copy -/
def metaSpec (kind : String) (j : Json) (b v : Side) (cutoff : Rat) : Except String Json := do
  let iB := interfacePairs b.dec b.ref cutoff
  let iV := interfacePairs v.dec v.ref cutoff
  let fB := ligandFitPairs b.dec b.ref
  let fV := ligandFitPairs v.dec v.ref
  let eB := ligandEvalPairs b.dec b.ref
  let eV := ligandEvalPairs v.dec v.ref
  let cons := consistent b.dec b.ref
  let fnatSame := decide (Spec.C08.fnat 5 v.ref v.dec = Spec.C08.fnat 5 b.ref b.dec)
  let clashSame := decide (Spec.C08.clashes v.dec = Spec.C08.clashes b.dec)
  let mk (premise irmsd fit eval : Bool) (fnat clashes : Option Bool) : Json :=
    Json.mkObj [("premise", .bool premise), ("consistent", .bool cons), ("irmsd", .bool irmsd), ("lrmsd_fit", .bool fit),
      ("lrmsd_eval", .bool eval),
      ("fnat", match fnat with | some x => .bool x | none => .null),
      ("clashes", match clashes with | some x => .bool x | none => .null)]
  match kind with
  | "rigid_exact" =>
    let (R, t) ← jMotion (← jVal j "motion")
    let g : Motion Rat := ⟨R, t⟩
    let both := (← jStr j "which") == "both"
    let premise := decide (v.dec = move g b.dec) && decide (v.ref = if both then move g b.ref else b.ref)
    let f := if both then moveBoth g else moveDecoy g
    pure (mk premise (decide (iV = iB.map f)) (decide (fV = fB.map f)) (decide (eV = eB.map f)) (some fnatSame) (some clashSame))
  | "rigid" =>
    -- coordinates are rounded to the text precision: only the identities of the pairs can be compared exactly
    let ks (l : List IdPair) := l.map (·.1)
    pure (mk true (decide (ks iV = ks iB)) (decide (ks fV = ks fB)) (decide (ks eV = ks eB)) none none)
  | "columns" =>
    let premise := sameButIgnoredAll b.dec v.dec && sameButIgnoredAll b.ref v.ref
    pure (mk premise (decide (iV = iB)) (decide (fV = fB)) (decide (eV = eB)) (some fnatSame) (some clashSame))
  | "renumber" =>
    let δ ← jInt j "delta"
    let premise := decide (v.dec = renumber δ b.dec) && decide (v.ref = renumber δ b.ref)
    pure (mk premise (decide (iV = iB.map (shiftPair δ))) (decide (fV = fB.map (shiftPair δ)))
      (decide (eV = eB.map (shiftPair δ))) (some fnatSame) (some clashSame))
  | "hydrogens" =>
    let premise := decide (heavy v.dec = heavy b.dec) && decide (heavy v.ref = heavy b.ref)
    pure (mk premise true true true (some fnatSame) (some clashSame))
  | "permute" =>
    let premise := b.dec.isPerm v.dec && b.ref.isPerm v.ref
    pure (mk premise (isPermOf iV iB) (isPermOf fV fB) (isPermOf eV eB) (some fnatSame) (some clashSame))
  | _ => throw s!"unknown meta kind {kind}"

def op (name : String) (j : Json) : Except String (Option Json) := do
  match name with
  | "rmsd" =>
    let cutoff ← jRat j "cutoff"
    match ← jRowsOpt j "dec_rows", ← jRowsOpt j "ref_rows" with
    | some dec, some ref => pure (some (rmsdSpec dec ref cutoff))
    | _, _ => pure (some (Json.mkObj [("defined", .bool false)]))
  | "meta" =>
    let cutoff ← jRat j "cutoff"
    let kind ← jStr j "kind"
    match ← jSide j "base", ← jSide j "var" with
    | some b, some v => do let r ← metaSpec kind j b v cutoff; pure (some r)
    | _, _ => pure (some (Json.mkObj [("defined", .bool false)]))
  | _ => pure none

end Driver.SpecE
