/- Operations of the Model driver: the generated / hand-written models of the code. -/
import PdbVerif.Driver.Json
import PdbVerif.Py.Float
import PdbVerif.Gen.Consts
import PdbVerif.Gen.Str
import PdbVerif.Gen.Score
import PdbVerif.Gen.Mat

namespace Driver.ModelZ
open Lean Driver

def op (name : String) (j : Json) : Except String (Option Json) := do
  match name with
  | "capri" =>
    let f ← jRat j "f"; let l ← jRat j "l"; let i ← jRat j "i"
    pure (some (exceptJ strJ (Gen.compute_CapriClass f l i Gen.compute_CapriClass_system_default)))
  | "dockq" =>
    let f ← jRat j "f"; let l ← jRat j "l"; let i ← jRat j "i"; let d1 ← jRat j "d1"; let d2 ← jRat j "d2"
    pure (some (exceptJ ratJ (Gen.compute_DockQScore Py.toDouble f l i d1 d2)))
  | _ => pure none

end Driver.ModelZ
