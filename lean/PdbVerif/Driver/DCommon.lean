/- JSON helpers shared by the Spec and Model drivers of cluster D (vectors, matrices, point lists, tables). -/
import PdbVerif.Driver.Json
import PdbVerif.Py.Mat

namespace Driver.D
open Lean Driver Py

def asArr (j : Json) : Except String (Array Json) :=
  match j with | .arr a => .ok a | _ => .error "expected array"

def asRatList (j : Json) : Except String (List Rat) := do
  let a ← asArr j
  a.toList.mapM asRat

def vec3OfList (l : List Rat) : Except String (Vec3 Rat) :=
  match l with
  | [x, y, z] => .ok ⟨x, y, z⟩
  | _ => .error "vec3: 3 numbers expected"

def vec4OfList (l : List Rat) : Except String (Vec4 Rat) :=
  match l with
  | [w, x, y, z] => .ok ⟨w, x, y, z⟩
  | _ => .error "vec4: 4 numbers expected"

def mat3OfList (l : List Rat) : Except String (Mat3 Rat) :=
  match l with
  | [a, b, c, d, e, f, g, h, i] => .ok ⟨a, b, c, d, e, f, g, h, i⟩
  | _ => .error "mat3: 9 numbers expected (row-major)"

def asVec3 (j : Json) : Except String (Vec3 Rat) := do vec3OfList (← asRatList j)
def asVec4 (j : Json) : Except String (Vec4 Rat) := do vec4OfList (← asRatList j)
def asMat3 (j : Json) : Except String (Mat3 Rat) := do mat3OfList (← asRatList j)

def field (j : Json) (k : String) : Except String Json :=
  match j.getObjVal? k with
  | .ok v => .ok v
  | .error _ => .error s!"missing field {k}"

def hasField (j : Json) (k : String) : Bool :=
  match j.getObjVal? k with
  | .ok .null => false
  | .ok _ => true
  | .error _ => false

def jVec3 (j : Json) (k : String) : Except String (Vec3 Rat) := do asVec3 (← field j k)
def jMat3 (j : Json) (k : String) : Except String (Mat3 Rat) := do asMat3 (← field j k)

def jPoints (j : Json) (k : String) : Except String (List (Vec3 Rat)) := do
  let a ← jArr j k
  a.toList.mapM asVec3

def jBoolList (j : Json) (k : String) : Except String (List Bool) := do
  let a ← jArr j k
  a.toList.mapM (fun x => match x with | .bool b => .ok b | _ => .error "expected bool")

def jAtoms (j : Json) (k : String) : Except String (List Py.Atom) := do
  let a ← jArr j k
  a.toList.mapM atomOfJson

def vec3J (v : Vec3 Rat) : Json := .arr #[ratJ v.x, ratJ v.y, ratJ v.z]
def mat3J (M : Mat3 Rat) : Json :=
  .arr #[ratJ M.a, ratJ M.b, ratJ M.c, ratJ M.d, ratJ M.e, ratJ M.f, ratJ M.g, ratJ M.h, ratJ M.i]
def pointsJ (X : List (Vec3 Rat)) : Json := .arr (X.map vec3J).toArray
def atomsJ (db : List Py.Atom) : Json := .arr (db.map atomJ).toArray

/-- selection given as a mask over rowIDs -/
def maskSel (mask : List Bool) : Nat → Py.Atom → Bool := fun i _ => mask.getD i false

def absR (x : Rat) : Rat := if x < 0 then -x else x
def maxR (l : List Rat) : Rat := l.foldl (fun a b => if a < b then b else a) 0
def mat3Entries (M : Mat3 Rat) : List Rat := [M.a, M.b, M.c, M.d, M.e, M.f, M.g, M.h, M.i]
def maxAbsDiff3 (M N : Mat3 Rat) : Rat :=
  maxR ((List.zip (mat3Entries M) (mat3Entries N)).map (fun p => absR (p.1 - p.2)))

end Driver.D
