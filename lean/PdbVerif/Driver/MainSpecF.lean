/- Spec-only driver entry point of cluster F (used when the Model no longer builds) -/
import PdbVerif.Driver.SpecF

namespace Driver
def mainSpecF : IO Unit := do loop (handleSpec SpecF.op) (← IO.getStdin) (← IO.getStdout)
end Driver
