/- Spec-only driver entry point of cluster G (used when the Model no longer builds) -/
import PdbVerif.Driver.SpecG

namespace Driver
def mainSpecG : IO Unit := do loop (handleSpec SpecG.op) (← IO.getStdin) (← IO.getStdout)
end Driver
