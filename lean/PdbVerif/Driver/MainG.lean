/- driver entry points of cluster G -/
import PdbVerif.Driver.SpecG
import PdbVerif.Driver.ModelG

namespace Driver
def mainBothG : IO Unit := do loop (handleBoth SpecG.op ModelG.op) (← IO.getStdin) (← IO.getStdout)
end Driver
