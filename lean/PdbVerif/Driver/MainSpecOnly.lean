import PdbVerif.Driver.SpecOps
import PdbVerif.Driver.SpecA
import PdbVerif.Driver.SpecB
import PdbVerif.Driver.SpecC
import PdbVerif.Driver.SpecD
import PdbVerif.Driver.SpecE
import PdbVerif.Driver.SpecF

namespace Driver
open Lean

def handleSpec (j : Json) : Except String Json := do
  let op ← jStr j "op"
  for f in [specOp, SpecA.op, SpecB.op, SpecC.op, SpecD.op, SpecE.op, SpecF.op] do
    match ← f op j with
    | some s => return Json.mkObj [("spec", s)]
    | none => pure ()
  .error s!"unknown op {op}"

def mainSpec : IO Unit := do loop handleSpec (← IO.getStdin) (← IO.getStdout)

end Driver
