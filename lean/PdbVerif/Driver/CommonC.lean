/- JSON decoding / encoding shared by the Spec and Model drivers of cluster C (contacts).  Imports neither Spec, Gen nor Model. -/
import PdbVerif.Driver.Json

namespace Driver.CommonC
open Lean Driver

structure RawArgs where
  atoms : List Py.Atom
  cutoff : Rat
  allchains : Bool
  chain1 : Py.Str
  chain2 : Py.Str
  extend : Bool
  bb : Bool
  noH : Bool
  pairs : Bool

def rawArgs (j : Json) : Except String RawArgs := do
  let arr ← jArr j "atoms"
  let atoms ← arr.toList.mapM atomOfJson
  pure { atoms, cutoff := ← jRat j "cutoff", allchains := ← jBool j "allchains",
         chain1 := (← jStr j "chain1").toList, chain2 := (← jStr j "chain2").toList,
         extend := ← jBool j "extend", bb := ← jBool j "bb", noH := ← jBool j "noH", pairs := ← jBool j "pairs" }

def natJ (n : Nat) : Json := .num (JsonNumber.fromNat n)
def natsJ (l : List Nat) : Json := .arr (l.map natJ).toArray
def resJ (k : Py.Str × Int × Py.Str) : Json := .arr #[strJ k.1, intJ k.2.1, strJ k.2.2]

/-- canonical form of a dictionary: entries sorted by key (`lt` on keys) -/
def sortEntries {κ ν : Type} (lt : κ → κ → Bool) (d : List (κ × ν)) : List (κ × ν) :=
  (d.toArray.qsort (fun a b => lt a.1 b.1)).toList

def dictJ {κ ν : Type} (lt : κ → κ → Bool) (kj : κ → Json) (vj : ν → Json) (d : List (κ × ν)) : Json :=
  .arr ((sortEntries lt d).map (fun e => Json.arr #[kj e.1, vj e.2])).toArray

def strLt (a b : Py.Str) : Bool := decide (a < b)
def natLt (a b : Nat) : Bool := decide (a < b)
def resLt (a b : Py.Str × Int × Py.Str) : Bool :=
  strLt a.1 b.1 || (a.1 == b.1 && (decide (a.2.1 < b.2.1) || (a.2.1 == b.2.1 && strLt a.2.2 b.2.2)))

def chainsJ (d : List (Py.Str × List Nat)) : Json := Json.mkObj [("chains", dictJ strLt strJ natsJ d)]
def pairsJ (d : List (Nat × List Nat)) : Json := Json.mkObj [("pairs", dictJ natLt natJ natsJ d)]
def resChainsJ (d : List (Py.Str × List (Py.Str × Int × Py.Str))) : Json :=
  Json.mkObj [("chains", dictJ strLt strJ (fun l => Json.arr (l.map resJ).toArray) d)]
def resPairsJ (d : List ((Py.Str × Int × Py.Str) × List (Py.Str × Int × Py.Str))) : Json :=
  Json.mkObj [("pairs", dictJ resLt resJ (fun l => Json.arr (l.map resJ).toArray) d)]

end Driver.CommonC
