/- Spec-driver operations of cluster G. Imports Spec/* only — never Gen or Model. -/
import PdbVerif.Driver.Json

namespace Driver.SpecG
open Lean Driver

def op (name : String) (j : Json) : Except String (Option Json) := do
  match name with
  | _ => pure none

end Driver.SpecG
