/- Spec-driver operations of cluster G. Imports Spec/* only — never Gen or Model. -/
import PdbVerif.Driver.Json
import PdbVerif.Driver.GCommon
import PdbVerif.Spec.C08
import PdbVerif.Spec.C13

namespace Driver.SpecG
open Lean Driver Driver.GCommon

/-- the chains of a structure, ascending, when there are exactly two -/
def twoChains (s : List Py.Atom) : Option (Py.Str × Py.Str) :=
  match Spec.C08.distinct (s.map (·.chainID)) with
  | [a, b] => if a < b then some (a, b) else some (b, a)
  | _ => none

def namesConsistentB (s : List Py.Atom) : Bool :=
  -- one name per residue: compare every atom with the first atom of its residue
  let firsts := Spec.C08.distinct (s.map (fun a => (Spec.C08.resOf a, a.resName)))
  decide ((firsts.map (·.1)).length = (Spec.C08.distinct (firsts.map (·.1))).length)

def op (name : String) (j : Json) : Except String (Option Json) := do
  match name with
  | "fnat" =>
    let ref ← jAtoms j "ref_atoms"; let dec ← jAtoms j "dec_atoms"
    -- "default": the property's default cutoff, 5 Å
    let c ← if (jStr j "cutoff") matches .ok "default" then pure (5 : Rat) else jRat j "cutoff"
    let R := Spec.C08.contacts c ref
    let v : Json := match Spec.C08.fnat c ref dec with
      | some q => ratJ q
      | none => .str "UNDEFINED"
    let tr := twoChains ref
    let td := twoChains dec
    pure (some (Json.mkObj [
      ("value", v), ("n_ref", natJ R.length), ("n_preserved", natJ (Spec.C08.preserved c ref dec).length),
      ("ref_two_chains", boolJ tr.isSome), ("same_chains", boolJ (tr.isSome && tr == td)),
      ("names_consistent", boolJ (namesConsistentB (ref ++ dec)))]))
  | "clashes" =>
    let s ← jAtoms j "atoms"
    pure (some (Json.mkObj [("value", natJ (Spec.C08.clashes s)),
      ("at_cutoff", natJ (s.flatMap (fun a => s.filter (fun b =>
          Spec.C08.chainLt a.chainID b.chainID && !Spec.C08.isHydrogen a && !Spec.C08.isHydrogen b &&
          decide (Spec.C08.sqDist a b = 9)))).length),
      ("two_chains", boolJ (twoChains s).isSome)]))
  | "fnat_history" =>
    -- the definition's value for every call of the sequence, each at its own cutoff
    let ref ← jAtoms j "ref_atoms"; let dec ← jAtoms j "dec_atoms"
    let calls ← jArr j "calls"
    let answers ← calls.toList.mapM (fun (cj : Json) => do
      let route ← jStr cj "route"
      if route == "clashes" then
        pure (Json.mkObj [("value", natJ (Spec.C08.clashes dec)), ("n_ref", natJ 0)])
      else
        let c ← if (jStr cj "cutoff") matches .ok "default" then pure (5 : Rat) else jRat cj "cutoff"
        let v : Json := match Spec.C08.fnat c ref dec with
          | some q => ratJ q
          | none => .str "UNDEFINED"
        pure (Json.mkObj [("value", v), ("n_ref", natJ (Spec.C08.contacts c ref).length)]))
    let tr := twoChains ref
    let td := twoChains dec
    pure (some (Json.mkObj [
      ("values", Json.arr answers.toArray),
      ("ref_two_chains", boolJ tr.isSome), ("same_chains", boolJ (tr.isSome && tr == td)),
      ("names_consistent", boolJ (namesConsistentB (ref ++ dec)))]))
  | "superpose" =>
    -- the property evaluated on what was observed: the tables before and after the call, the files that appeared, and a
    -- candidate motion (R, t) fitted by the harness
    let mb ← jAtoms j "mobile"; let ma ← jAtoms j "mobile_after"
    let tb ← jAtoms j "target"; let ta ← jAtoms j "target_after"
    let sel ← jSel j "sel"; let ob ← jBool j "only_backbone"
    let bbNames ← jStrList j "backbone"
    let p : Py.Atom → Bool := fun a => sel.test a && (!ob || bbNames.contains a.name)
    let R ← mat3OfList (← jRatList j "fit_R"); let t ← vec3OfList (← jRatList j "fit_t")
    let m : Spec.C13.Motion Rat := { R := R, t := t }
    let sameCount := decide (ma.length = mb.length)
    let attrsSame := sameCount && (List.zip mb ma).all (fun q => decide (Spec.C13.SameButPosition q.1 q.2))
    -- largest squared distance between an observed new position and the candidate motion applied to the old one
    let motionDefect := Spec.rmax ((List.zip mb ma).map (fun q =>
      Py.Vec3.normSq (Py.Vec3.sub (Spec.C13.pos q.2) (m.apply (Spec.C13.pos q.1)))))
    let orthDefect := Spec.rmax [Spec.maxAbsDiff (R.mul R.T) Py.Mat3.one, Spec.maxAbsDiff (R.T.mul R) Py.Mat3.one]
    let detDefect := Spec.rabs (R.det - 1)
    -- handedness: the signed volume spanned by four atoms of the whole structure (indices chosen by the harness), before and after
    let idx ← if jHas j "fit_idx" then jIntList j "fit_idx" else pure []
    let triple (t : List Py.Atom) : Rat :=
      match idx.map (fun i => (t.getD i.toNat default)) with
      | [a0, a1, a2, a3] =>
        let o := Spec.C13.pos a0
        Py.Vec3.dot (Py.Vec3.sub (Spec.C13.pos a1) o) (Py.Vec3.cross (Py.Vec3.sub (Spec.C13.pos a2) o) (Py.Vec3.sub (Spec.C13.pos a3) o))
      | _ => 0
    let sh := Spec.C13.shared p mb tb
    let shAfter := Spec.C13.sharedPos p ma ta
    pure (some (Json.mkObj [
      ("count_same", boolJ sameCount), ("attrs_same", boolJ attrsSame), ("target_same", boolJ (decide (ta = tb))),
      ("motion_defect", ratJ motionDefect), ("orth_defect", ratJ orthDefect), ("det_defect", ratJ detDefect),
      ("triple_before", ratJ (triple mb)), ("triple_after", ratJ (if sameCount then triple ma else 0)),
      ("n_shared", natJ sh.length),
      ("unique_ident", boolJ (decide (Spec.C13.UniqueIdent p mb) && decide (Spec.C13.UniqueIdent p tb))),
      ("shared_before", Json.arr (sh.map (fun q => Json.arr #[vecJ (Spec.C13.pos q.1), vecJ (Spec.C13.pos q.2)])).toArray),
      ("sq_dev_after", ratJ (Spec.C13.sqDev shAfter))]))
  | _ => pure none

end Driver.SpecG
