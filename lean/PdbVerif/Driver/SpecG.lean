/- Spec-driver operations of cluster G. Imports Spec/* only — never Gen or Model. -/
import PdbVerif.Driver.Json
import PdbVerif.Driver.GCommon
import PdbVerif.Spec.C08

namespace Driver.SpecG
open Lean Driver Driver.GCommon

/-- the chains of a structure, ascending, when there are exactly two -/
def twoChains (s : List Py.Atom) : Option (Py.Str × Py.Str) :=
  match Spec.C08.distinct (s.map (·.chainID)) with
  | [a, b] => if a < b then some (a, b) else some (b, a)
  | _ => none

def namesConsistentB (s : List Py.Atom) : Bool :=
  -- one name per residue: compare every atom with the first atom of its residue
  let firsts := Spec.C08.distinct (s.map (fun a => (Spec.C08.resOf a, a.resName)))
  decide ((firsts.map (·.1)).length = (Spec.C08.distinct (firsts.map (·.1))).length)

def op (name : String) (j : Json) : Except String (Option Json) := do
  match name with
  | "fnat" =>
    let ref ← jAtoms j "ref_atoms"; let dec ← jAtoms j "dec_atoms"
    -- "default": the property's default cutoff, 5 Å
    let c ← if (jStr j "cutoff") matches .ok "default" then pure (5 : Rat) else jRat j "cutoff"
    let R := Spec.C08.contacts c ref
    let v : Json := match Spec.C08.fnat c ref dec with
      | some q => ratJ q
      | none => .str "UNDEFINED"
    let tr := twoChains ref
    let td := twoChains dec
    pure (some (Json.mkObj [
      ("value", v), ("n_ref", natJ R.length), ("n_preserved", natJ (Spec.C08.preserved c ref dec).length),
      ("ref_two_chains", boolJ tr.isSome), ("same_chains", boolJ (tr.isSome && tr == td)),
      ("names_consistent", boolJ (namesConsistentB (ref ++ dec)))]))
  | "clashes" =>
    let s ← jAtoms j "atoms"
    pure (some (Json.mkObj [("value", natJ (Spec.C08.clashes s)),
      ("at_cutoff", natJ (s.flatMap (fun a => s.filter (fun b =>
          Spec.C08.chainLt a.chainID b.chainID && !Spec.C08.isHydrogen a && !Spec.C08.isHydrogen b &&
          decide (Spec.C08.sqDist a b = 9)))).length),
      ("two_chains", boolJ (twoChains s).isSome)]))
  | _ => pure none

end Driver.SpecG
