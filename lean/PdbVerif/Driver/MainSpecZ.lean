/- Spec-only driver entry point of cluster Z (used when the Model no longer builds) -/
import PdbVerif.Driver.SpecZ

namespace Driver
def mainSpecZ : IO Unit := do loop (handleSpec SpecZ.op) (← IO.getStdin) (← IO.getStdout)
end Driver
