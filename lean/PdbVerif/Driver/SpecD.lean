/- Spec-driver operations of cluster D (C06, C10, C18). Imports Spec/* only — never Gen or Model. -/
import PdbVerif.Driver.Json
import PdbVerif.Driver.DCommon
import PdbVerif.Spec.C06
import PdbVerif.Spec.C10
import PdbVerif.Spec.C18

namespace Driver.SpecD
open Lean Driver Driver.D Py

def certJ (c : Spec.Certificate) : Json :=
  Json.mkObj [("orth", ratJ c.orthDefect), ("det", ratJ c.detDefect), ("asym", ratJ c.asymDefect),
              ("minMinor", ratJ c.minMinor), ("residual", ratJ c.residual)]

def scaleMat (M : Mat3 Rat) (k : Rat) : Mat3 Rat :=
  ⟨M.a / k, M.b / k, M.c / k, M.d / k, M.e / k, M.f / k, M.g / k, M.h / k, M.i / k⟩

/-- `Spec.MustReject` decided on rationals -/
def mustReject (eps : Rat) (P Q : List (Vec3 Rat)) : Bool :=
  let unc (X : List (Vec3 Rat)) : Bool :=
    let m := Spec.centroid X
    decide (eps < absR m.x) || decide (eps < absR m.y) || decide (eps < absR m.z)
  decide (P.length ≠ Q.length) || unc P || unc Q

/-- certificate of the rotation `U` the implementation returned for the pair (P, Q); `scale` normalises the
    cross-covariance so that the tolerances are absolute -/
def rotationCert (j : Json) : Except String Json := do
  let P ← jPoints j "P"; let Q ← jPoints j "Q"
  let eps ← jRat j "eps"
  let rej := mustReject eps P Q
  if !hasField j "U" then
    pure (Json.mkObj [("mustReject", .bool rej)])
  else
    let U ← jMat3 j "U"
    let scale ← jRat j "scale"
    let B := scaleMat (Spec.crossCov P Q) scale
    pure (Json.mkObj [("mustReject", .bool rej), ("cert", certJ (Spec.certificate U B P Q)),
                      ("sumSq", ratJ (Spec.sumSq P + Spec.sumSq Q))])

def isometryOfJson (j : Json) : Except String (Spec.Isometry × Spec.Selection) := do
  let kind ← jStr j "kind"
  let mask ← jBoolList j "sel"
  let sel := maskSel mask
  match kind with
  | "translation" => pure (.translation (← jVec3 j "vect"), sel)
  | "rot_axis" => pure (.axisAngle (← jRat j "c") (← jRat j "s") (← jVec3 j "axis"), sel)
  | "rot_euler" =>
    pure (.euler (← jRat j "ca") (← jRat j "sa") (← jRat j "cb") (← jRat j "sb") (← jRat j "cg") (← jRat j "sg"), sel)
  | "rot_mat" => pure (.matrix (← jMat3 j "mat"), sel)
  | _ => throw s!"unknown isometry kind {kind}"

def op (name : String) (j : Json) : Except String (Option Json) := do
  match name with
  /- ---- C06 ---- -/
  | "kabsch" => pure (some (← rotationCert j))
  | "quat" => pure (some (← rotationCert j))
  | "guard" => pure (some (← rotationCert j))
  | "superpose_sel" =>
    -- when the whole mobile array is the selection itself, the result must be optimally superposed on the
    -- target: same centroid, and the identity is the optimal rotation of the centred pair
    if !hasField j "out" then pure (some .null) else
    let out ← jPoints j "out"; let tar ← jPoints j "selTar"
    let scale ← jRat j "scale"
    let co := Spec.centroid out; let ct := Spec.centroid tar
    let Pc := out.map (fun p => Vec3.sub p co); let Qc := tar.map (fun p => Vec3.sub p ct)
    let B := scaleMat (Spec.crossCov Pc Qc) scale
    pure (some (Json.mkObj [("centroidShift", ratJ (maxR [absR (co.x - ct.x), absR (co.y - ct.y), absR (co.z - ct.z)])),
                            ("cert", certJ (Spec.certificate Mat3.one B Pc Qc))]))
  /- ---- C10 ---- -/
  | "transform_seq" =>
    let db ← jAtoms j "db"
    let steps ← jArr j "steps"
    let ts ← steps.toList.mapM isometryOfJson
    -- the property speaks of non-empty selections; the first empty one is reported as such
    let rec go (ts : List (Spec.Isometry × Spec.Selection)) (db : List Py.Atom) : Json :=
      match ts with
      | [] => atomsJ db
      | (t, sel) :: rest =>
        if (Spec.selectedXYZ sel db).length = 0 then .str "EMPTY-SELECTION"
        else go rest (Spec.applyIsometry t sel db)
    pure (some (go ts db))
  | "rotate_xyz" =>
    let X ← jPoints j "X"
    let kind ← jStr j "kind"
    let c ← if hasField j "center" then jVec3 j "center" else pure (Spec.centroid X)
    let g : Vec3 Rat → Vec3 Rat ← match kind with
      | "rot_axis" => do pure (Spec.axisRotate (← jRat j "c") (← jRat j "s") (← jVec3 j "axis"))
      | "rot_euler" => do
        pure (Spec.eulerRotate (← jRat j "ca") (← jRat j "sa") (← jRat j "cb") (← jRat j "sb") (← jRat j "cg") (← jRat j "sg"))
      | "rot_mat" => do let M ← jMat3 j "mat"; pure M.mulVec
      | _ => throw s!"unknown rotate kind {kind}"
    pure (some (pointsJ (X.map (Spec.about g c))))
  | "axis_angle" =>
    -- the property: unit axis, angle in [0, 2π); evaluated on what the implementation returned
    if !hasField j "axis_out" then pure (some .null) else
    let ax ← jVec3 j "axis_out"; let an ← jRat j "angle_out"; let twoPi ← jRat j "twoPi"
    pure (some (Json.mkObj [("unitDefect", ratJ (absR (Vec3.normSq ax - 1))),
                            ("inRange", .bool (decide (0 ≤ an) && decide (an < twoPi)))]))
  /- ---- C18 ---- -/
  | "align" =>
    if !hasField j "out" then pure (some .null) else
    let db ← jAtoms j "db"; let out ← jAtoms j "out"
    let mask ← jBoolList j "sel"
    let axis ← jStr j "axis"
    let least ← jBool j "least"
    match (Spec.axisVec axis : Option (Vec3 Rat)) with
    | none => pure (some (.str "NO-SUCH-AXIS"))
    | some e =>
      let c := Spec.alignCertificate least e mask db out
      pure (some (Json.mkObj [("offAxis", ratJ c.offAxis), ("minMinor", ratJ c.minMinor),
                              ("centroidShift", ratJ c.centroidShift), ("gramDefect", ratJ c.gramDefect),
                              ("orientDefect", ratJ c.orientDefect), ("attrsChanged", intJ c.attrsChanged)]))
  | "align_axis" =>
    let axis ← jStr j "axis"
    pure (some (.str (match (Spec.axisVec axis : Option (Vec3 Rat)) with | none => "NO-SUCH-AXIS" | some _ => "AXIS")))
  | _ => pure none

end Driver.SpecD
