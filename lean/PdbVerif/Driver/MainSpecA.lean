/- Spec-only driver entry point of cluster A (used when the Model no longer builds) -/
import PdbVerif.Driver.SpecA

namespace Driver
def mainSpecA : IO Unit := do loop (handleSpec SpecA.op) (← IO.getStdin) (← IO.getStdout)
end Driver
