/- Model-driver operations of cluster B (C03, C04, C17, C15, C19): the hand-written models of the table layer. -/
import PdbVerif.Driver.Json
import PdbVerif.Driver.BJson
import PdbVerif.Model.Table
import PdbVerif.Model.TableWorld
import PdbVerif.Model.TableJoin
import PdbVerif.Model.TableWorldText
import PdbVerif.Model.MicroSql
import PdbVerif.Gen.Sql
import PdbVerif.Driver.ExtMany
import PdbVerif.Driver.ExtGet

namespace Driver.ModelB
open Lean Driver Driver.B Tbl

def errJ (e : Model.Err) : Json := .str ("ERR:" ++ e.tag)

def resultJ : Except Model.Err Model.Result → Json
  | .ok (.data items) => itemsJ items
  | .ok (.models per) => Json.mkObj [("models", .arr (per.map itemsJ).toArray)]
  | .error e => errJ e

def outJ : Except Model.Err Unit → Json
  | .ok _ => "ok"
  | .error e => errJ e

/-- a history: after every step the outcome (the answer, for a query), and the whole state (`get('*')` of every
    table, `get_colnames()`) -/
def runHist (db : Db) : List HistItem → List Json
  | [] => []
  | .modify op :: rest =>
    let (db', out) := Model.step db op
    Json.mkObj [("out", outJ out), ("db", dbJ db')] :: runHist db' rest
  | .query columns tn kw :: rest =>
    Json.mkObj [("out", resultJ (Model.get db columns tn kw)), ("db", dbJ db)] :: runHist db rest

def runWorld (w : Model.World) : List WOp → List Json
  | [] => []
  | op :: rest =>
    let (w', out) := Model.wstep Model.textRoundtrip w op
    Json.mkObj [("out", outJ out), ("objs", worldJ w')] :: runWorld w' rest

/-! ### the translated SQL builders (Gen/Sql.lean) and MicroSql: the text and the bound values the library must send -/

def gerrJ : GenSql.Err → Json
  | .valueError m => .str (if m = "Too many SQL variables" then "ERR:ValueError:TooManyVars" else "ERR:ValueError")
  | .typeError => "ERR:TypeError"
  | .indexError => "ERR:IndexError"

def stmtJ (text : Py.Str) (vals : List Val) : Json := Json.mkObj [("text", strJ text), ("vals", .arr (vals.map valJ).toArray)]

def manyJ (text : Py.Str) (rows : List (List Val)) : Json :=
  Json.mkObj [("text", strJ text), ("rows", .arr (rows.map (fun r => Json.arr (r.map valJ).toArray)).toArray)]

def intsOf (j : Json) (k : String) : Except String (List Int) := do (← jArr j k).toList.mapM asInt

def sqlOp (name : String) (j : Json) : Except String (Option Json) := do
  match name with
  | "sql_get" =>                       -- what `get` hands to `self.c.execute` on the non-chunked path
    let columns ← strOf j "columns"; let tn ← strOf j "tn"; let kw ← kwsOfJson j "kw"
    if kw.isEmpty then pure (some (stmtJ (GenSql.get_nokw columns tn) []))
    else pure (some (match GenSql.get_query columns tn kw with
      | .error e => gerrJ e
      | .ok (.ret _) => "CHUNKED"
      | .ok (.cont (text, vals)) => stmtJ text vals))
  | "sql_rows_step" =>                 -- one turn of the final loop of the chunked path
    let r := GenSql.get_rows_step (← strOf j "columns") (← strOf j "tn") (← intsOf j "rows") (← jInt j "i") (← jInt j "size")
    pure (some (stmtJ r.1 (r.2.map Val.int)))
  | "sql_format" =>                    -- `_format_get_output`
    let data ← (← jArr j "data").toList.mapM valsOfJson
    pure (some (match GenSql.format_get_output data (← strOf j "columns") with
      | .error e => gerrJ e
      | .ok items => itemsJ items))
  | "sql_update" =>                    -- what `update` hands to `self.c.executemany`
    let cols ← (← jArr j "columns").toList.mapM (fun x => do let s ← asStr x; pure s.toList)
    let values ← (← jArr j "values").toList.mapM valsOfJson
    pure (some (match GenSql.update_exec (← strOf j "tn") cols values (← intsOf j "rowID") with
      | .error e => gerrJ e
      | .ok (text, rows) => manyJ text rows))
  | "sql_update_column" =>
    let values ← valsOfJson (.arr (← jArr j "values"))
    let index ← match j.getObjVal? "index" with
      | .ok (.arr a) => (do let l ← a.toList.mapM valOfJson; pure (some l))
      | _ => pure none
    pure (some (match GenSql.update_column_exec (← strOf j "colname") values index (← strOf j "tn") with
      | .error e => gerrJ e
      | .ok (text, rows) => manyJ text rows))
  | "sql_add_column" =>                -- `str(value)` travels with the case (Python's `str` is a parameter of the translation)
    let v ← valOfJson (← j.getObjVal? "value")
    let vs ← strOf j "value_str"
    pure (some (strJ (GenSql.add_column_exec (fun _ => vs) (← strOf j "colname") (← strOf j "coltype") v (← strOf j "tn"))))
  | "sql_intersection" =>              -- what `get_intersection` hands to `self.conn.execute`, and `ncol`
    let names ← (← jArr j "names").toList.mapM (fun x => do let s ← asStr x; pure s.toList)
    let m ← (← jArr j "match").toList.mapM (fun x => do let s ← asStr x; pure s.toList)
    let column ← strOf j "column"
    pure (some (match GenSql.intersection_query names column m with
      | .error e => gerrJ e
      | .ok text => Json.mkObj [("text", strJ text), ("ncol", intJ (GenSql.intersection_ncol names column))]))
  | "sql_intersection_split" =>        -- the cutting of the joined rows into one row list per structure
    let rows ← (← jArr j "rows").toList.mapM valsOfJson
    pure (some (match GenSql.intersection_split rows (← jInt j "ntable") (← jInt j "ncol") with
      | .error e => gerrJ e
      | .ok per => .arr (per.map (fun t => Json.arr (t.map (fun r => Json.arr (r.map valJ).toArray)).toArray)).toArray))
  | "sql_query" =>                     -- MicroSql on a statement text the real code sent
    let db ← dbOfJson (← j.getObjVal? "db")
    let params ← valsOfJson (.arr (← jArr j "params"))
    pure (some (match MicroSql.query db (← strOf j "text") params with
      | .error e => errJ e
      | .ok rows => .arr (rows.map (fun r => Json.arr (r.map valJ).toArray)).toArray))
  | "sql_executemany" =>
    let db ← dbOfJson (← j.getObjVal? "db")
    let rows ← (← jArr j "rows").toList.mapM valsOfJson
    let r := MicroSql.executemany db (← strOf j "text") rows
    pure (some (Json.mkObj [("out", outJ r.2), ("db", dbJ r.1)]))
  | "sql_alter" =>
    let db ← dbOfJson (← j.getObjVal? "db")
    let r := MicroSql.execAlter db (← strOf j "text")
    pure (some (Json.mkObj [("out", outJ r.2), ("db", dbJ r.1)]))
  | _ => pure none

def op (name : String) (j : Json) : Except String (Option Json) := do
  match name with
  | "get" =>
    let db ← dbOfJson (← j.getObjVal? "db")
    pure (some (resultJ (Model.get db (← strOf j "columns") (← strOf j "tn") (← kwsOfJson j "kw"))))
  | "get_xyz" =>
    let db ← dbOfJson (← j.getObjVal? "db")
    pure (some (resultJ (Model.get_xyz db (← strOf j "tn") (← kwsOfJson j "kw"))))
  | "get_residues" =>
    let db ← dbOfJson (← j.getObjVal? "db")
    pure (some (match Model.get_residues db (← strOf j "tn") (← kwsOfJson j "kw") with
      | .ok l => .arr (l.map (fun vs => Json.arr (vs.map valJ).toArray)).toArray
      | .error e => errJ e))
  | "get_chains" =>
    let db ← dbOfJson (← j.getObjVal? "db")
    pure (some (match Model.get_chains db (← strOf j "tn") (← kwsOfJson j "kw") with
      | .ok l => .arr (l.map strJ).toArray
      | .error e => errJ e))
  | "get_all" =>
    let db ← dbOfJson (← j.getObjVal? "db")
    let cols ← strOf j "columns"; let kw ← kwsOfJson j "kw"
    -- the source loops over the tables and raises at the first failing one
    pure (some (match Model.get_all db cols kw with
      | .ok l => .arr (l.map (fun r => resultJ (.ok r))).toArray
      | .error e => errJ e))
  | "hist" =>
    let db ← dbOfJson (← j.getObjVal? "db")
    let ops ← (← jArr j "ops").toList.mapM histItemOfJson
    pure (some (.arr (runHist db ops).toArray))
  | "intersection" =>
    let db ← dbOfJson (← j.getObjVal? "db")
    let m ← (← jArr j "match").toList.mapM (fun x => do let s ← asStr x; pure s.toList)
    pure (some (match Model.getIntersection db (← strOf j "column") m with
      | .ok per => .arr (per.map (fun rows => Json.arr (rows.map (fun vs => Json.arr (vs.map valJ).toArray)).toArray)).toArray
      | .error e => errJ e))
  | "intersect" =>
    let db ← dbOfJson (← j.getObjVal? "db")
    let m ← (← jArr j "match").toList.mapM (fun x => do let s ← asStr x; pure s.toList)
    pure (some (match Model.intersect Model.textRoundtrip db m with
      | .ok db' => dbJ db'
      | .error e => errJ e))
  | "world" =>
    let objs ← (← jArr j "objs").toList.mapM objOfJson
    let ops ← (← jArr j "ops").toList.mapM wopOfJson
    pure (some (.arr (runWorld objs ops).toArray))
  | _ => (do match ← ExtMany.op name j with | some r => pure (some r) | none => (do match ← ExtGet.op name j with | some r => pure (some r) | none => sqlOp name j))

end Driver.ModelB
