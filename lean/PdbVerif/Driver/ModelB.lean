/- Model-driver operations of cluster B (see Driver/Main.lean): generated (Gen) and hand-written (Model) code models. -/
import PdbVerif.Driver.Json

namespace Driver.ModelB
open Lean Driver

def op (name : String) (j : Json) : Except String (Option Json) := do
  match name with
  | _ => pure none

end Driver.ModelB
