/- Model-driver operations of cluster B (C03, C04, C17, C15, C19): the hand-written models of the table layer. -/
import PdbVerif.Driver.Json
import PdbVerif.Driver.BJson
import PdbVerif.Model.Table
import PdbVerif.Model.TableWorld
import PdbVerif.Model.TableJoin
import PdbVerif.Model.TableWorldText

namespace Driver.ModelB
open Lean Driver Driver.B Tbl

def errJ (e : Model.Err) : Json := .str ("ERR:" ++ e.tag)

def resultJ : Except Model.Err Model.Result → Json
  | .ok (.data items) => itemsJ items
  | .ok (.models per) => Json.mkObj [("models", .arr (per.map itemsJ).toArray)]
  | .error e => errJ e

def outJ : Except Model.Err Unit → Json
  | .ok _ => "ok"
  | .error e => errJ e

/-- a history: after every step the outcome (the answer, for a query), and the whole state (`get('*')` of every
    table, `get_colnames()`) -/
def runHist (db : Db) : List HistItem → List Json
  | [] => []
  | .modify op :: rest =>
    let (db', out) := Model.step db op
    Json.mkObj [("out", outJ out), ("db", dbJ db')] :: runHist db' rest
  | .query columns tn kw :: rest =>
    Json.mkObj [("out", resultJ (Model.get db columns tn kw)), ("db", dbJ db)] :: runHist db rest

def runWorld (w : Model.World) : List WOp → List Json
  | [] => []
  | op :: rest =>
    let (w', out) := Model.wstep Model.textRoundtrip w op
    Json.mkObj [("out", outJ out), ("objs", worldJ w')] :: runWorld w' rest

def op (name : String) (j : Json) : Except String (Option Json) := do
  match name with
  | "get" =>
    let db ← dbOfJson (← j.getObjVal? "db")
    pure (some (resultJ (Model.get db (← strOf j "columns") (← strOf j "tn") (← kwsOfJson j "kw"))))
  | "get_xyz" =>
    let db ← dbOfJson (← j.getObjVal? "db")
    pure (some (resultJ (Model.get_xyz db (← strOf j "tn") (← kwsOfJson j "kw"))))
  | "get_residues" =>
    let db ← dbOfJson (← j.getObjVal? "db")
    pure (some (match Model.get_residues db (← strOf j "tn") (← kwsOfJson j "kw") with
      | .ok l => .arr (l.map (fun vs => Json.arr (vs.map valJ).toArray)).toArray
      | .error e => errJ e))
  | "get_chains" =>
    let db ← dbOfJson (← j.getObjVal? "db")
    pure (some (match Model.get_chains db (← strOf j "tn") (← kwsOfJson j "kw") with
      | .ok l => .arr (l.map strJ).toArray
      | .error e => errJ e))
  | "get_all" =>
    let db ← dbOfJson (← j.getObjVal? "db")
    let cols ← strOf j "columns"; let kw ← kwsOfJson j "kw"
    -- the source loops over the tables and raises at the first failing one
    pure (some (match Model.get_all db cols kw with
      | .ok l => .arr (l.map (fun r => resultJ (.ok r))).toArray
      | .error e => errJ e))
  | "hist" =>
    let db ← dbOfJson (← j.getObjVal? "db")
    let ops ← (← jArr j "ops").toList.mapM histItemOfJson
    pure (some (.arr (runHist db ops).toArray))
  | "intersection" =>
    let db ← dbOfJson (← j.getObjVal? "db")
    let m ← (← jArr j "match").toList.mapM (fun x => do let s ← asStr x; pure s.toList)
    pure (some (match Model.getIntersection db (← strOf j "column") m with
      | .ok per => .arr (per.map (fun rows => Json.arr (rows.map (fun vs => Json.arr (vs.map valJ).toArray)).toArray)).toArray
      | .error e => errJ e))
  | "intersect" =>
    let db ← dbOfJson (← j.getObjVal? "db")
    let m ← (← jArr j "match").toList.mapM (fun x => do let s ← asStr x; pure s.toList)
    pure (some (match Model.intersect Model.textRoundtrip db m with
      | .ok db' => dbJ db'
      | .error e => errJ e))
  | "world" =>
    let objs ← (← jArr j "objs").toList.mapM objOfJson
    let ops ← (← jArr j "ops").toList.mapM wopOfJson
    pure (some (.arr (runWorld objs ops).toArray))
  | _ => pure none

end Driver.ModelB
