/- Driver operations of contributor `Sim` (translated-code ties): run GENERATED functions so the harness can compare them with the real code.
   Wired into the cluster drivers by a fall-through; return `none` for names that are not yours.

   `sim_fnat`   (cluster G)  `GenS.compute_fnat_pdb2sql` and `GenS.compute_clashes` on record lines (parser = the parser's model, `_fix_chainID` = its
                             model), each with two iteration orders of Python sets (identity, reversed)
   `sim_sql`    (cluster E)  `GenS.check_residues`, `GenS.get_identical_atoms`, `GenS.get_izone_rowID`, `GenS.compute_lrmsd_pdb2sql`,
                             `GenS.compute_irmsd_pdb2sql` on record lines.  The rotation kernel is a parameter of the two routes: the harness sends
                             what NumPy's kernel was called with and what it returned in the real run (`{"P","Q","R"}` | `{"err"}` | null); the
                             parameter checks that the generated code calls it with the same arrays (1e-6) and answers with the recorded matrix.
   `sim_export` (cluster E)  the export variants `GenS.compute_lrmsd_pdb2sql_export` / `GenS.compute_irmsd_pdb2sql_export`: value and exported rows -/
import PdbVerif.Driver.Json
import PdbVerif.Driver.GCommon
import PdbVerif.Model.Fnat
import PdbVerif.Gen.Sim

namespace Driver.ExtSim
open Lean Driver Driver.GCommon Py

def tableOf (lines : List Str) : Except Err (List Atom) := Model.Fnat.tableOfLines lines

/-- the world: two named files -/
def world (dec ref : List Str) (name : Str) : Except Err (List Atom) :=
  if name = "dec".toList then tableOf dec else if name = "ref".toList then tableOf ref else .error .fileNotFound

def ordId : ∀ {α : Type}, List α → List α := fun l => l
def ordRev : ∀ {α : Type}, List α → List α := fun l => l.reverse

def p3J (p : Vec3 Rat) : Json := .arr #[ratJ p.x, ratJ p.y, ratJ p.z]
def p3sJ (l : List (Vec3 Rat)) : Json := .arr (l.map p3J).toArray

def jPoints (j : Json) (k : String) : Except String (List (Vec3 Rat)) := do
  let a ← jArr j k
  a.toList.mapM (fun row => match row with
    | .arr #[x, y, z] => do pure ⟨← asRat x, ← asRat y, ← asRat z⟩
    | _ => throw "point: three numbers expected")

def close (a b : Rat) : Bool := decide (a - b ≤ 1 / 1000000) && decide (b - a ≤ 1 / 1000000)
def closeP (p q : Vec3 Rat) : Bool := close p.x q.x && close p.y q.y && close p.z q.z
/-- remove the first recorded pair that is close to `(p, q)` -/
def takeClose (p q : Vec3 Rat) : List (Vec3 Rat × Vec3 Rat) → Option (List (Vec3 Rat × Vec3 Rat))
  | [] => none
  | x :: xs => if closeP p x.1 && closeP q x.2 then some xs else (takeClose p q xs).map (x :: ·)

/-- the same (decoy, reference) pairs up to 1e-6, in any order (the order of the real run is the iteration order of a Python set) -/
def samePairs : List (Vec3 Rat × Vec3 Rat) → List (Vec3 Rat × Vec3 Rat) → Bool
  | [], rec => rec.isEmpty
  | x :: xs, rec => match takeClose x.1 x.2 rec with
    | some rest => samePairs xs rest
    | none => false

/-- the rotation kernel as recorded in the real run -/
def kernelOf (j : Json) (k : String) : Except String (List (Vec3 Rat) → List (Vec3 Rat) → Unit → Except Err (Mat3 Rat)) := do
  match j.getObjVal? k with
  | .ok (.null) | .error _ => pure (fun _ _ _ => .error (.unmodelled "kernel not called in the real run"))
  | .ok kj =>
    match kj.getObjVal? "R" with
    | .ok _ => do
      let R ← mat3OfList (← jRatList kj "R")
      let P ← jPoints kj "P"
      let Q ← jPoints kj "Q"
      pure (fun p q _ => if p.length = q.length && P.length = Q.length && samePairs (p.zip q) (P.zip Q) then .ok R else .error (.unmodelled "kernel called with other arrays than in the real run"))
    | .error _ =>
      match kj.getObjVal? "err" with
      | .ok (.str "ERR:ValueError") => pure (fun _ _ _ => .error .valueError)
      | .ok (.str "ERR:TypeError") => pure (fun _ _ _ => .error .typeError)
      | _ => pure (fun _ _ _ => .error (.unmodelled "kernel: unknown record"))

def optNames (j : Json) (k : String) : Except String (Option (List Str)) :=
  match j.getObjVal? k with
  | .ok (.null) | .error _ => pure none
  | .ok _ => do pure (some (← jLines j k))

def op (name : String) (j : Json) : Except String (Option Json) := do
  match name with
  | "sim_fnat" =>
    let refL ← jLines j "ref_lines"; let decL ← jLines j "dec_lines"
    let cutoff ← jRat j "cutoff"
    let w := world decL refL
    let fn (ord : ∀ {α : Type}, List α → List α) := GenS.compute_fnat_pdb2sql ord w Model.Fnat.fixChainID "dec".toList "ref".toList cutoff
    let c1 := (← jStr j "chain1").toList; let c2 := (← jStr j "chain2").toList
    let cl (ord : ∀ {α : Type}, List α → List α) := GenS.compute_clashes ord w "dec".toList c1 c2
    pure (some (Json.mkObj [("fnat", exceptJ ratJ (fn ordId)), ("fnat_rev", exceptJ ratJ (fn ordRev)),
      ("clashes", exceptJ natJ (cl ordId)), ("clashes_rev", exceptJ natJ (cl ordRev))]))
  | "sim_sql" =>
    let refL ← jLines j "ref"; let decL ← jLines j "dec"
    let cutoff ← jRat j "cutoff"
    let enforce ← jBool j "enforce"
    let names ← optNames j "names"
    let w := world decL refL
    let origin : Vec3 Rat := (GenS.__init__ "dec".toList "ref".toList false enforce).origin
    -- check_residues(**kw)
    let cr := GenS.check_residues w "dec".toList "ref".toList enforce names
    -- get_identical_atoms(db1, db2, chain, **kw), for every chain asked for, with two set orders (the harness compares sorted)
    let chains ← jLines j "chains"
    let ident (ord : ∀ {α : Type}, List α → List α) : Json := .arr (chains.map (fun c =>
      exceptJ (fun (p : List (Vec3 Rat) × List (Vec3 Rat)) => Json.arr #[p3sJ p.1, p3sJ p.2])
        (do let td ← w "dec".toList; let tr ← w "ref".toList; GenS.get_identical_atoms ord td tr c names))).toArray
    -- get_izone_rowID(sql_ref, izone) on the zone file of the case
    let zfile : Option (List Str) := match jLines j "izone" with | .ok l => some l | .error _ => none
    let isfile : Str → Bool := fun _ => zfile.isSome
    let readlines : Str → Except Err (List Str) := fun _ => .ok (zfile.getD [])
    let rowid (bb : Bool) := do let tr ← w "ref".toList; GenS.get_izone_rowID isfile readlines tr "IZ".toList bb
    let natsJ (l : List Nat) : Json := .arr (l.map natJ).toArray
    -- the routes
    let kl ← kernelOf j "kernel_l"
    let ki ← kernelOf j "kernel_i"
    let lr (ord : ∀ {α : Type}, List α → List α) := GenS.compute_lrmsd_pdb2sql ord w kl "dec".toList "ref".toList enforce origin () names
    let ir (ord : ∀ {α : Type}, List α → List α) := GenS.compute_irmsd_pdb2sql ord isfile readlines w ki "dec".toList "ref".toList origin cutoff ()
      (if zfile.isSome then some "IZ".toList else none)
    pure (some (Json.mkObj [
      ("check_residues", exceptJ (fun b => Json.bool b) cr),
      ("identical", ident ordId), ("identical_rev", ident ordRev),
      ("izone_rowID", exceptJ natsJ (rowid true)), ("izone_rowID_all", exceptJ natsJ (rowid false)),
      ("lrmsd", exceptJ ratJ (lr ordId)), ("lrmsd_rev", exceptJ ratJ (lr ordRev)),
      ("irmsd", exceptJ ratJ (ir ordId)), ("irmsd_rev", exceptJ ratJ (ir ordRev))]))
  | "sim_export" =>
    -- the export variants of the two SQL routes (`exportpath` = "OUT"): value and the files written (name, exported rows)
    let refL ← jLines j "ref"; let decL ← jLines j "dec"
    let cutoff ← jRat j "cutoff"
    let enforce ← jBool j "enforce"
    let w := world decL refL
    let origin : Vec3 Rat := (GenS.__init__ "dec".toList "ref".toList false enforce).origin
    let kl ← kernelOf j "kernel_l"
    let ki ← kernelOf j "kernel_i"
    let rowJ (a : Atom) : Json := .arr #[strJ a.chainID, intJ a.resSeq, strJ a.name, ratJ a.x, ratJ a.y, ratJ a.z]
    let outJ (x : Except Err (Rat × List GenS.Rt3.Export)) : Json :=
      exceptJ (fun r => Json.mkObj [("value", ratJ r.1),
        ("files", .arr (r.2.map (fun f => Json.arr #[strJ f.1, .arr (f.2.map rowJ).toArray])).toArray)]) x
    pure (some (Json.mkObj [
      ("lrmsd", outJ (GenS.compute_lrmsd_pdb2sql_export ordId w kl "dec".toList "ref".toList enforce origin "OUT".toList () none)),
      ("irmsd", outJ (GenS.compute_irmsd_pdb2sql_export ordRev (fun _ => false) (fun _ => .ok []) w ki "dec".toList "ref".toList origin cutoff ()
        none "OUT".toList))]))
  | _ => pure none

end Driver.ExtSim
