/- Spec-only driver entry point of cluster B (used when the Model no longer builds) -/
import PdbVerif.Driver.SpecB

namespace Driver
def mainSpecB : IO Unit := do loop (handleSpec SpecB.op) (← IO.getStdin) (← IO.getStdout)
end Driver
