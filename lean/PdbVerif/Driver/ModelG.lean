/- Model-driver operations of cluster G: generated (Gen) and hand-written (Model) code models. -/
import PdbVerif.Driver.Json
import PdbVerif.Driver.GCommon
import PdbVerif.Model.Fnat

namespace Driver.ModelG
open Lean Driver Driver.GCommon

def op (name : String) (j : Json) : Except String (Option Json) := do
  match name with
  | "fnat" =>
    let refL ← jLines j "ref_lines"; let decL ← jLines j "dec_lines"
    -- "default": the call passes no cutoff and the routines use their own default arguments
    let isDefault := (jStr j "cutoff") matches .ok "default"
    let cf ← if isDefault then pure Gen.fnat_fast_cutoff_default else jRat j "cutoff"
    let cs ← if isDefault then pure Gen.fnat_sql_cutoff_default else jRat j "cutoff"
    let fast := Model.Fnat.fnatFastFiles refL decL cf
    let sql := Model.Fnat.fnatSqlFiles refL decL cs
    pure (some (Json.mkObj [("fast", exceptJ ratJ fast), ("sql", exceptJ ratJ sql),
      ("raw_agrees", boolJ (match Model.Fnat.tableOfLines decL with
        | .ok t => Model.Fnat.rawAgrees decL t
        | .error _ => false))]))
  | "clashes" =>
    let ls ← jLines j "lines"
    let c1 := (← jStr j "chain1").toList; let c2 := (← jStr j "chain2").toList
    pure (some (exceptJ natJ (Model.Fnat.clashesFile ls c1 c2)))
  | _ => pure none

end Driver.ModelG
