/- Model-driver operations of cluster G: generated (Gen) and hand-written (Model) code models. -/
import PdbVerif.Driver.Json

namespace Driver.ModelG
open Lean Driver

def op (name : String) (j : Json) : Except String (Option Json) := do
  match name with
  | _ => pure none

end Driver.ModelG
