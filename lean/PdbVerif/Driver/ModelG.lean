/- Model-driver operations of cluster G: generated (Gen) and hand-written (Model) code models. -/
import PdbVerif.Driver.Json
import PdbVerif.Driver.GCommon
import PdbVerif.Model.Fnat
import PdbVerif.Model.SuperposeDb
import PdbVerif.Gen.Rmsd
import PdbVerif.Driver.ExtSup
import PdbVerif.Driver.ExtSim

namespace Driver.ModelG
open Lean Driver Driver.GCommon

def op (name : String) (j : Json) : Except String (Option Json) := do
  match name with
  | "gen_fnat_fast" =>
    -- the GENERATED fast route (Gen/Rmsd.lean, translated from StructureSimilarity.compute_fnat_fast on every run); the parser and
    -- the residue contact routine are its parameters: the parser's model and the contact model with the arguments of the call
    let refL ← jLines j "ref_lines"; let decL ← jLines j "dec_lines"
    let isDefault := (jStr j "cutoff") matches .ok "default"
    let cf ← if isDefault then pure Gen.fnat_fast_cutoff_default else jRat j "cutoff"
    let v := GenR.compute_fnat_fast (fun _ => .ok decL) (fun _ => Model.Fnat.tableOfLines refL)
      (fun t c c1 c2 => Model.contactResiduePairs t (Model.Fnat.pairArgs c c1 c2)) [] [] cf
    pure (some (exceptJ ratJ v))
  | "fnat" =>
    let refL ← jLines j "ref_lines"; let decL ← jLines j "dec_lines"
    -- "default": the call passes no cutoff and the routines use their own default arguments
    let isDefault := (jStr j "cutoff") matches .ok "default"
    let cf ← if isDefault then pure Gen.fnat_fast_cutoff_default else jRat j "cutoff"
    let cs ← if isDefault then pure Gen.fnat_sql_cutoff_default else jRat j "cutoff"
    let fast := Model.Fnat.fnatFastFiles refL decL cf
    let sql := Model.Fnat.fnatSqlFiles refL decL cs
    pure (some (Json.mkObj [("fast", exceptJ ratJ fast), ("sql", exceptJ ratJ sql),
      ("raw_agrees", boolJ (match Model.Fnat.tableOfLines decL with
        | .ok t => Model.Fnat.rawAgrees decL t
        | .error _ => false))]))
  | "clashes" =>
    let ls ← jLines j "lines"
    let c1 := (← jStr j "chain1").toList; let c2 := (← jStr j "chain2").toList
    pure (some (exceptJ natJ (Model.Fnat.clashesFile ls c1 c2)))
  | "fnat_history" =>
    -- a sequence of calls on ONE StructureSimilarity object: the routines are functions of (files, cutoff), so the model answers
    -- every call on its own, whatever was called before
    let refL ← jLines j "ref_lines"; let decL ← jLines j "dec_lines"
    let calls ← jArr j "calls"
    let answers ← calls.toList.mapM (fun (cj : Json) => do
      let route ← jStr cj "route"
      let isDefault := (jStr cj "cutoff") matches .ok "default"
      match route with
      | "fast" =>
        let c ← if isDefault then pure Gen.fnat_fast_cutoff_default else jRat cj "cutoff"
        pure (exceptJ ratJ (Model.Fnat.fnatFastFiles refL decL c))
      | "sql" =>
        let c ← if isDefault then pure Gen.fnat_sql_cutoff_default else jRat cj "cutoff"
        pure (exceptJ ratJ (Model.Fnat.fnatSqlFiles refL decL c))
      | "clashes" =>
        let c1 := (← jStr cj "chain1").toList; let c2 := (← jStr cj "chain2").toList
        pure (exceptJ natJ (Model.Fnat.clashesFile decL c1 c2))
      | _ => throw s!"unknown route {route}")
    pure (some (Json.mkObj [("values", Json.arr answers.toArray),
      ("raw_agrees", boolJ (match Model.Fnat.tableOfLines decL with
        | .ok t => Model.Fnat.rawAgrees decL t
        | .error _ => false))]))
  | "superpose" =>
    let mob ← jAtoms j "mobile"; let tar ← jAtoms j "target"
    let sel ← jSel j "sel"
    let ob ← jBool j "only_backbone"; let ex ← jBool j "export"
    -- what NumPy's kernel returned in the real run: a matrix, an exception, or nothing (never called)
    let kj ← jVal j "kernel"
    let kernel : List Model.SupDb.V → List Model.SupDb.V → Except Py.Err (Py.Mat3 Rat) ←
      match kj.getObjVal? "R" with
      | .ok _ => do let R ← mat3OfList (← jRatList kj "R"); pure (fun _ _ => .ok R)
      | .error _ =>
        match kj.getObjVal? "err" with
        | .ok (.str "ERR:ValueError") => pure (fun _ _ => .error Py.Err.valueError)
        | .ok (.str "ERR:TypeError") => pure (fun _ _ => .error Py.Err.typeError)
        | _ => pure (fun _ _ => .error (Py.Err.unmodelled "kernel not called in the real run"))
    let args : Model.SupDb.Args := { onlyBackbone := ob, doExport := ex, nameGiven := sel.nameGiven, sel := sel.test }
    let mdb : Model.SupDb.Db := { rows := mob, pdbfile := jOptStr j "mobile_file" }
    let tdb : Model.SupDb.Db := { rows := tar, pdbfile := jOptStr j "target_file" }
    let res := Model.SupDb.superpose kernel mdb tdb args
    -- which pairing route was taken, how many pairs, and whether the text round trip kept the selected atoms' identities
    let info : Json := match Model.SupDb.selection args with
      | .error _ => Json.null
      | .ok p =>
        let sm := mob.filter p; let st := tar.filter p
        let positional := decide (sm.map Model.SupDb.atomId = st.map Model.SupDb.atomId)
        let stable (t : List Py.Atom) : Bool := match Model.SupDb.reexportSel p t with
          | .ok u => decide (u.map Model.SupDb.atomId = (t.filter p).map Model.SupDb.atomId)
          | .error _ => false
        let npairs : Json := match Model.SupDb.matched mob tar p with
          | .ok m => natJ m.1.length
          | .error e => errJ e
        Json.mkObj [("route", .str (if positional then "positional" else "intersection")), ("pairs", npairs),
                    ("text_stable", if positional then Json.null else boolJ (stable mob && stable tar))]
    pure (some (Json.mkObj [("info", info), ("result", exceptJ (fun (o : Model.SupDb.Out) => Json.mkObj [
      ("mobile", atomsJ o.mobile), ("target", atomsJ o.target),
      ("files", Json.arr (o.files.map (fun f => Json.arr #[strJ f.1, Json.arr (f.2.map strJ).toArray])).toArray)]) res)]))
  | _ => (do match ← ExtSup.op name j with | some r => pure (some r) | none => (do match ← ExtSim.op name j with | some r => pure (some r) | none => pure none))

end Driver.ModelG
