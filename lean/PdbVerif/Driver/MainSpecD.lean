/- Spec-only driver entry point of cluster D (used when the Model no longer builds) -/
import PdbVerif.Driver.SpecD

namespace Driver
def mainSpecD : IO Unit := do loop (handleSpec SpecD.op) (← IO.getStdin) (← IO.getStdout)
end Driver
