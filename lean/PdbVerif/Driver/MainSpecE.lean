/- Spec-only driver entry point of cluster E (used when the Model no longer builds) -/
import PdbVerif.Driver.SpecE

namespace Driver
def mainSpecE : IO Unit := do loop (handleSpec SpecE.op) (← IO.getStdin) (← IO.getStdout)
end Driver
