/- Driver operations of contributor `Sup` (translated-code ties): run GENERATED functions so the harness can compare them with the real code.
   Wired into the cluster drivers by a fall-through; return `none` for names that are not yours. -/
import PdbVerif.Driver.Json

namespace Driver.ExtSup
open Lean Driver

def op (name : String) (j : Json) : Except String (Option Json) := do
  match name with
  | _ => pure none

end Driver.ExtSup
