/- Driver operations of contributor `Sup` (translated-code ties): run GENERATED functions so the harness can compare them with the real code.
   Wired into the cluster drivers by a fall-through; return `none` for names that are not yours.

   gen_superpose          `GenSup.superpose` (Gen/Sup.lean) on the tables / options / keywords of a C13 case, the kernel = the matrix NumPy
                          returned in the real run; answers with the generated function's result, the hand model's, and whether they are equal
   gen_get_intersection   `GenSup.get_intersection` on two tables and keywords (world = the hand model's many2sql steps)
   gen_quat               `GenSup.get_rotation_matrix_quaternion` with NumPy's `eigh` factors of the real run
   gen_dispatch           `GenSup.get_rotation_matrix` over the translated kernels (`GenK.get_rotation_matrix_Kabsh`, the quaternion one) -/
import PdbVerif.Driver.Json
import PdbVerif.Driver.GCommon
import PdbVerif.Driver.DCommon
import PdbVerif.Proofs.GenSupWorld
import PdbVerif.Gen.Consts

namespace Driver.ExtSup
open Lean Driver Py
open Proofs.GenSupWorld

/-- `**kwargs` as the harness writes it (an object: keyword -> list of strings / integers), in the order of the JSON object -/
def jKwargs (j : Json) (k : String) : Except String GenSup.Rt.Kwargs := do
  let o ← jVal j k
  match o with
  | .obj kvs =>
    kvs.toList.mapM (fun (kv : String × Json) => do
      let vals ← match kv.2 with
        | .arr a => a.toList.mapM (fun (v : Json) => match v with
            | .str s => pure (Py.Val.text s.toList)
            | .num n => (if n.exponent = 0 then pure (Py.Val.int n.mantissa) else throw "kwargs: integer expected")
            | _ => throw "kwargs: string or integer expected")
        | _ => throw "kwargs: list expected"
      pure (kv.1.toList, vals))
  | _ => throw "kwargs: object expected"

def kernelOf (kj : Json) : Except String (List (Vec3 Rat) → List (Vec3 Rat) → Unit → Except Py.Err (Mat3 Rat)) :=
  match kj.getObjVal? "R" with
  | .ok _ => do let R ← GCommon.mat3OfList (← GCommon.jRatList kj "R"); pure (fun _ _ _ => .ok R)
  | .error _ =>
    match kj.getObjVal? "err" with
    | .ok (.str "ERR:ValueError") => pure (fun _ _ _ => .error Py.Err.valueError)
    | .ok (.str "ERR:TypeError") => pure (fun _ _ _ => .error Py.Err.typeError)
    | _ => pure (fun _ _ _ => .error (Py.Err.unmodelled "kernel not called in the real run"))

def filesJ (fs : List (Py.Str × List Py.Str)) : Json :=
  Json.arr (fs.map (fun f => Json.arr #[strJ f.1, Json.arr (f.2.map strJ).toArray])).toArray

def pointsJ (X : List (Vec3 Rat)) : Json := .arr (X.map GCommon.vecJ).toArray

/-- `(l, U)` of `np.linalg.eigh` from the four pairs `(l[k], U[:, k])` the harness recorded -/
def eighOfPairs (lU : List (Rat × Vec4 Rat)) : Except String (Vec4 Rat × Mat4 Rat) :=
  match lU with
  | [(l0, c0), (l1, c1), (l2, c2), (l3, c3)] =>
    .ok (⟨l0, l1, l2, l3⟩,
         ⟨c0.w, c1.w, c2.w, c3.w, c0.x, c1.x, c2.x, c3.x, c0.y, c1.y, c2.y, c3.y, c0.z, c1.z, c2.z, c3.z⟩)
  | _ => .error "eig: four pairs expected"

def jEig (j : Json) (k : String) : Except String (List (Rat × Vec4 Rat)) := do
  let a ← jArr j k
  a.toList.mapM (fun p => do
    let pr ← D.asArr p
    if pr.size != 2 then throw "eig: [l, [q0,q1,q2,q3]] expected"
    let l ← asRat pr[0]!
    let q ← D.asVec4 pr[1]!
    pure (l, q))

def matResJ (r : Except Py.Err (Mat3 Rat)) : Json := exceptJ D.mat3J r

/-- same value or same exception -/
def sameResult {α : Type} [DecidableEq α] (a b : Except Py.Err α) : Bool :=
  match a, b with
  | .ok x, .ok y => decide (x = y)
  | .error x, .error y => decide (x = y)
  | _, _ => false

def op (name : String) (j : Json) : Except String (Option Json) := do
  match name with
  | "gen_superpose" =>
    let mob ← GCommon.jAtoms j "mobile"; let tar ← GCommon.jAtoms j "target"
    let kw ← jKwargs j "sel"
    let ob ← jBool j "only_backbone"; let ex ← jBool j "export"
    let kernel ← kernelOf (← jVal j "kernel")
    let byName := (jBool j "by_name") matches .ok true
    let mdb : Model.SupDb.Db := { rows := mob, pdbfile := GCommon.jOptStr j "mobile_file" }
    let tdb : Model.SupDb.Db := { rows := tar, pdbfile := GCommon.jOptStr j "target_file" }
    -- by_name: the arguments are sources and `pdb2sql(.)` (a parameter) opens them; otherwise they are databases
    let arg (d : Model.SupDb.Db) : Sum GenSup.Rt.Db GenSup.Rt.Db := if byName then .inl (toGen d) else .inr (toGen d)
    let gen := GenSup.superpose (fun (d : GenSup.Rt.Db) => .ok d) many2sql many2sqlCall many2sqlGetIntersection kernel
      (arg mdb) (arg tdb) () ob ex kw
    let model := (Model.SupDb.superpose (fun P Q => kernel P Q ()) mdb tdb (argsOf ob ex kw)).map (outOf mdb)
    let resJ := exceptJ (fun (o : GenSup.Rt.Db × List (Py.Str × List Py.Str)) => Json.mkObj [
      ("mobile", GCommon.atomsJ o.1.rows), ("pdbfile", match o.1.pdbfile with | some p => strJ p | none => Json.null),
      ("files", filesJ o.2)])
    let eq : Bool := sameResult gen model
    pure (some (Json.mkObj [("gen", resJ gen), ("model", resJ model), ("equal", .bool eq),
      ("kw_check", exceptJ (fun _ => Json.null) (GenSup.Rt.kwCheck kw))]))
  | "gen_get_intersection" =>
    let d1 ← GCommon.jAtoms j "db1"; let d2 ← GCommon.jAtoms j "db2"
    let kw ← jKwargs j "sel"
    let gen := GenSup.get_intersection many2sql many2sqlCall many2sqlGetIntersection ⟨d1, none⟩ ⟨d2, none⟩ kw
    let model := (Model.SupDb.getIntersection d1 d2 (GenSup.Rt.kwTest kw)).map (fun pairs => (pairs.map (·.1), pairs.map (·.2)))
    let resJ := exceptJ (fun (o : List (Vec3 Rat) × List (Vec3 Rat)) => Json.arr #[pointsJ o.1, pointsJ o.2])
    let eq : Bool := sameResult gen model
    pure (some (Json.mkObj [("gen", resJ gen), ("model", resJ model), ("equal", .bool eq)]))
  | "gen_quat" =>
    let P ← D.jPoints j "P"; let Q ← D.jPoints j "Q"
    let lU ← jEig j "eig"
    let gen ← match eighOfPairs lU with
      | .ok e => pure (GenSup.get_rotation_matrix_quaternion (fun _ => e) Gen.quat_eps P Q)
      | .error _ =>
        -- nothing (usable) recorded: the kernel must stop at its guards; an `eigh` that is reached answers zeros
        pure (GenSup.get_rotation_matrix_quaternion (fun _ => (⟨0, 0, 0, 0⟩, ⟨0,0,0,0, 0,0,0,0, 0,0,0,0, 0,0,0,0⟩)) Gen.quat_eps P Q)
    let model := match eighOfPairs lU with
      | .ok e => Model.quaternion (eigPairs (fun _ => e)) Gen.quat_eps P Q
      | .error _ => Model.quaternion (eigPairs (fun _ => (⟨0, 0, 0, 0⟩, ⟨0,0,0,0, 0,0,0,0, 0,0,0,0, 0,0,0,0⟩))) Gen.quat_eps P Q
    pure (some (Json.mkObj [("gen", matResJ gen), ("model", matResJ model), ("equal", .bool (sameResult gen model)),
      ("lits", Json.arr (GenSup.get_rotation_matrix_quaternion_lits.map ratJ).toArray)]))
  | "gen_dispatch" =>
    let P ← D.jPoints j "P"; let Q ← D.jPoints j "Q"
    let m ← jStr j "method"
    let svd : Mat3 Rat → Mat3 Rat × Vec3 Rat × Mat3 Rat ←
      if D.hasField j "V" then do
        let V ← D.jMat3 j "V"; let s ← D.jVec3 j "s"; let Wt ← D.jMat3 j "Wt"
        pure (fun _ => (V, s, Wt))
      else pure (fun _ => (Mat3.one, ⟨1, 1, 1⟩, Mat3.one))
    let eigh : Mat4 Rat → Vec4 Rat × Mat4 Rat ←
      if D.hasField j "eig" then do
        match eighOfPairs (← jEig j "eig") with
        | .ok e => pure (fun _ => e)
        | .error _ => pure (fun _ => (⟨0, 0, 0, 0⟩, ⟨0,0,0,0, 0,0,0,0, 0,0,0,0, 0,0,0,0⟩))
      else pure (fun _ => (⟨0, 0, 0, 0⟩, ⟨0,0,0,0, 0,0,0,0, 0,0,0,0, 0,0,0,0⟩))
    let gen := GenSup.get_rotation_matrix (GenK.get_rotation_matrix_Kabsh svd Gen.kabsch_eps)
      (GenSup.get_rotation_matrix_quaternion eigh Gen.quat_eps) P Q m
    let model := Model.getRotationMatrix svd (eigPairs eigh) Gen.kabsch_eps Gen.quat_eps (methodOf m) P Q
    pure (some (Json.mkObj [("gen", matResJ gen), ("model", matResJ model), ("equal", .bool (sameResult gen model))]))
  | _ => pure none

end Driver.ExtSup
