/- JSON decoding / encoding shared by the Spec and Model drivers of cluster E (C07, C11).  Imports neither Spec, Gen nor Model. -/
import PdbVerif.Driver.Json
import PdbVerif.Py.Mat

namespace Driver.ECommon
open Lean Driver Py

/-- an array of strings → list of `Py.Str` -/
def linesOf (j : Json) : Except String (List Str) :=
  match j with
  | .arr a => a.toList.mapM (fun x => do let s ← asStr x; pure s.toList)
  | _ => .error "array of strings expected"

def jLines (j : Json) (k : String) : Except String (List Str) := do linesOf (← jVal j k)

/-- `null` → none; array of 14-field rows → table -/
def jRowsOpt (j : Json) (k : String) : Except String (Option (List Atom)) :=
  match j.getObjVal? k with
  | .ok (.arr a) => do let l ← a.toList.mapM atomOfJson; pure (some l)
  | _ => pure none

/-- zone source: `null` (computed), `"write"` (absent file), array of lines (present file) -/
inductive ZoneArg | compute | write | read (lines : List Str)

def jZone (j : Json) (k : String) : Except String ZoneArg :=
  match j.getObjVal? k with
  | .ok (.str "write") => pure .write
  | .ok (.arr a) => do let l ← linesOf (.arr a); pure (.read l)
  | _ => pure .compute

def p3J (p : Vec3 Rat) : List Json := [ratJ p.x, ratJ p.y, ratJ p.z]

/-- one coordinate pair: six exact rationals (decoy x y z, reference x y z) -/
def pairJ (d r : Vec3 Rat) : Json := .arr (p3J d ++ p3J r).toArray

def keyJ (k : Str × Int × Str) : Json := .arr #[strJ k.1, intJ k.2.1, strJ k.2.2]

def boolJ (b : Bool) : Json := .bool b

/-- a 3×3 matrix (row major) and a translation -/
def jMotion (j : Json) : Except String (Mat3 Rat × Vec3 Rat) := do
  let r ← jArr j "R"
  let t ← jArr j "t"
  if r.size != 9 || t.size != 3 then throw "motion: R (9) and t (3) expected"
  let q (a : Array Json) (i : Nat) : Except String Rat := asRat a[i]!
  pure (⟨← q r 0, ← q r 1, ← q r 2, ← q r 3, ← q r 4, ← q r 5, ← q r 6, ← q r 7, ← q r 8⟩,
        ⟨← q t 0, ← q t 1, ← q t 2⟩)

def applyMotion (g : Mat3 Rat × Vec3 Rat) (p : Vec3 Rat) : Vec3 Rat := Vec3.add (g.1.mulVec p) g.2

end Driver.ECommon
