/- driver entry points of cluster E -/
import PdbVerif.Driver.SpecE
import PdbVerif.Driver.ModelE

namespace Driver
def mainBothE : IO Unit := do loop (handleBoth SpecE.op ModelE.op) (← IO.getStdin) (← IO.getStdout)
end Driver
