/- JSON decoding / encoding shared by the Spec and Model drivers of cluster G (C08, C13).  Imports neither Spec, Gen nor Model. -/
import PdbVerif.Driver.Json
import PdbVerif.Py.Mat

namespace Driver.GCommon
open Lean Driver

def jLines (j : Json) (k : String) : Except String (List Py.Str) := do
  let arr ← jArr j k
  arr.toList.mapM (fun x => do let s ← asStr x; pure s.toList)

def jAtoms (j : Json) (k : String) : Except String (List Py.Atom) := do
  let arr ← jArr j k
  arr.toList.mapM atomOfJson

def jStrList (j : Json) (k : String) : Except String (List Py.Str) := jLines j k

def jIntList (j : Json) (k : String) : Except String (List Int) := do
  let arr ← jArr j k
  arr.toList.mapM asInt

def jRatList (j : Json) (k : String) : Except String (List Rat) := do
  let arr ← jArr j k
  arr.toList.mapM asRat

def jOptStr (j : Json) (k : String) : Option Py.Str :=
  match j.getObjVal? k with
  | .ok (.str s) => some s.toList
  | _ => none

def jHas (j : Json) (k : String) : Bool :=
  match j.getObjVal? k with
  | .ok .null => false
  | .ok _ => true
  | .error _ => false

def natJ (n : Nat) : Json := .num (JsonNumber.fromNat n)
def boolJ (b : Bool) : Json := .bool b
def atomsJ (l : List Py.Atom) : Json := .arr (l.map atomJ).toArray
def vecJ (v : Py.Vec3 Rat) : Json := .arr #[ratJ v.x, ratJ v.y, ratJ v.z]

def mat3OfList : List Rat → Except String (Py.Mat3 Rat)
  | [a, b, c, d, e, f, g, h, i] => pure ⟨a, b, c, d, e, f, g, h, i⟩
  | _ => .error "matrix: 9 entries expected"

def vec3OfList : List Rat → Except String (Py.Vec3 Rat)
  | [x, y, z] => pure ⟨x, y, z⟩
  | _ => .error "vector: 3 entries expected"

/-- a selection as the harness writes it: for each of chainID / resSeq / name / resName an optional list of admitted values
    and an optional list of excluded values (`no_…`); an absent key does not restrict -/
structure SelSpec where
  chainID : Option (List Py.Str) := none
  resSeq : Option (List Int) := none
  name : Option (List Py.Str) := none
  resName : Option (List Py.Str) := none
  noChainID : Option (List Py.Str) := none
  noResSeq : Option (List Int) := none
  noName : Option (List Py.Str) := none
  noResName : Option (List Py.Str) := none

def optStrs (j : Json) (k : String) : Except String (Option (List Py.Str)) :=
  if jHas j k then do let l ← jStrList j k; pure (some l) else pure none

def optInts (j : Json) (k : String) : Except String (Option (List Int)) :=
  if jHas j k then do let l ← jIntList j k; pure (some l) else pure none

def jSel (j : Json) (k : String) : Except String SelSpec := do
  let o ← jVal j k
  pure { chainID := ← optStrs o "chainID", resSeq := ← optInts o "resSeq", name := ← optStrs o "name", resName := ← optStrs o "resName",
         noChainID := ← optStrs o "no_chainID", noResSeq := ← optInts o "no_resSeq", noName := ← optStrs o "no_name",
         noResName := ← optStrs o "no_resName" }

def inOpt {α : Type} [BEq α] (o : Option (List α)) (x : α) : Bool :=
  match o with | none => true | some l => l.contains x

def outOpt {α : Type} [BEq α] (o : Option (List α)) (x : α) : Bool :=
  match o with | none => true | some l => !l.contains x

def SelSpec.test (s : SelSpec) (a : Py.Atom) : Bool :=
  inOpt s.chainID a.chainID && inOpt s.resSeq a.resSeq && inOpt s.name a.name && inOpt s.resName a.resName &&
  outOpt s.noChainID a.chainID && outOpt s.noResSeq a.resSeq && outOpt s.noName a.name && outOpt s.noResName a.resName

def SelSpec.nameGiven (s : SelSpec) : Bool := s.name.isSome

end Driver.GCommon
