/- JSON decoding / encoding shared by the Spec and Model drivers of cluster G (C08, C13).  Imports neither Spec, Gen nor Model. -/
import PdbVerif.Driver.Json
import PdbVerif.Py.Mat

namespace Driver.GCommon
open Lean Driver

def jLines (j : Json) (k : String) : Except String (List Py.Str) := do
  let arr ← jArr j k
  arr.toList.mapM (fun x => do let s ← asStr x; pure s.toList)

def jAtoms (j : Json) (k : String) : Except String (List Py.Atom) := do
  let arr ← jArr j k
  arr.toList.mapM atomOfJson

def jStrList (j : Json) (k : String) : Except String (List Py.Str) := jLines j k

def jIntList (j : Json) (k : String) : Except String (List Int) := do
  let arr ← jArr j k
  arr.toList.mapM asInt

def jRatList (j : Json) (k : String) : Except String (List Rat) := do
  let arr ← jArr j k
  arr.toList.mapM asRat

def jOptStr (j : Json) (k : String) : Option Py.Str :=
  match j.getObjVal? k with
  | .ok (.str s) => some s.toList
  | _ => none

def jHas (j : Json) (k : String) : Bool :=
  match j.getObjVal? k with
  | .ok .null => false
  | .ok _ => true
  | .error _ => false

def natJ (n : Nat) : Json := .num (JsonNumber.fromNat n)
def boolJ (b : Bool) : Json := .bool b
def atomsJ (l : List Py.Atom) : Json := .arr (l.map atomJ).toArray
def vecJ (v : Py.Vec3 Rat) : Json := .arr #[ratJ v.x, ratJ v.y, ratJ v.z]

def mat3OfList : List Rat → Except String (Py.Mat3 Rat)
  | [a, b, c, d, e, f, g, h, i] => pure ⟨a, b, c, d, e, f, g, h, i⟩
  | _ => .error "matrix: 9 entries expected"

def vec3OfList : List Rat → Except String (Py.Vec3 Rat)
  | [x, y, z] => pure ⟨x, y, z⟩
  | _ => .error "vector: 3 entries expected"

end Driver.GCommon
