/- Driver operations of contributor `Many` (translated-code ties): run GENERATED functions so the harness can compare them with the real code.
   Wired into the cluster drivers by a fall-through; return `none` for names that are not yours.
   The generated functions of Gen/Many.lean (namespace GenM) are run with the TEXT side `GenM.Ext.text`: every exported row is written by the
   translated `data2pdb` loop body, every new table is parsed from those lines by the record loop; errors are kept. -/
import PdbVerif.Driver.Json
import PdbVerif.Driver.BJson
import PdbVerif.Gen.Many
import PdbVerif.Model.TableWorldText

namespace Driver.ExtMany
open Lean Driver Driver.B Tbl

abbrev X := GenM.Ext.text

def errJ (e : Model.Err) : Json := .str ("ERR:" ++ e.tag)

/-- a database with its `_nModel` -/
def dbOut : Except Model.Err Db → Json
  | .ok db => Json.mkObj [("tabs", .arr (db.tabs.map (fun t => Json.mkObj [("name", strJ t.name), ("rows", .arr (t.rows.map rowJ).toArray)])).toArray),
                           ("colnames", .arr (db.colnames.map strJ).toArray), ("nModel", intJ db.nModel)]
  | .error e => errJ e

/-- {"obj": db} | {"lines": [..]} | "a str" | anything else -/
def elemOfJson (j : Json) : Except String (GenM.Elem X.Data) :=
  match j with
  | .str s => pure (.str s.toList)
  | .obj _ =>
    match j.getObjVal? "obj" with
    | .ok d => do pure (.obj (← dbOfJson d))
    | _ =>
      match j.getObjVal? "lines" with
      | .ok (.arr a) => do pure (.data ((← a.toList.mapM asStr).map String.toList))
      | _ => pure .other
  | _ => pure .other

/-- null | [elements] | anything else -/
def argOfJson (j : Json) (k : String) : Except String (GenM.Arg X.Data) :=
  match j.getObjVal? k with
  | .ok .null => pure .none
  | .ok (.arr a) => do pure (.list (← a.toList.mapM elemOfJson))
  | .ok _ => pure .other
  | _ => pure .none

def resultJ : Model.Result → Json
  | .data items => itemsJ items
  | .models per => Json.mkObj [("models", .arr (per.map itemsJ).toArray)]

def elemOut : Except Model.Err (GenM.Elem X.Data) → Json
  | .ok (.data ls) => Json.mkObj [("lines", .arr (ls.map strJ).toArray)]
  | .ok (.str s) => strJ s
  | .ok (.obj db) => Json.mkObj [("obj", dbOut (.ok db))]
  | .ok .other => Json.mkObj [("other", .null)]
  | .error e => errJ e

def op (name : String) (j : Json) : Except String (Option Json) := do
  match name with
  | "genm_init" =>
    pure (some (dbOut (GenM.many2sql_init X (← argOfJson j "pdbfiles") (← argOfJson j "tablenames"))))
  | "model_many_named" =>
    -- the HAND model of `many2sql([db, …], tablenames=[…])` (Model/TableWorld.lean `manyNamed`) with the concrete text round trip
    let srcs ← (← jArr j "srcs").toList.mapM dbOfJson
    let names ← (← jArr j "names").toList.mapM (fun x => do let s ← asStr x; pure s.toList)
    pure (some (dbOut (Model.manyNamed Model.textRoundtrip srcs names)))
  | "genm_call" =>
    let db ← dbOfJson (← j.getObjVal? "db")
    pure (some (dbOut (GenM.many2sql_call X db (← kwsOfJson j "kw"))))
  | "genm_intersect" =>
    let db ← dbOfJson (← j.getObjVal? "db")
    let m ← match j.getObjVal? "match" with
      | .ok (.arr a) => a.toList.mapM (fun x => do let s ← asStr x; pure s.toList)
      | _ => pure GenM.intersect_match
    pure (some (dbOut (GenM.intersect X db m)))
  | "genm_get_all" =>
    let db ← dbOfJson (← j.getObjVal? "db")
    pure (some (match GenM.get_all X db (← strOf j "columns") (← kwsOfJson j "kw") with
      | .ok l => .arr (l.map resultJ).toArray
      | .error e => errJ e))
  | "genm_interface_init" =>
    let pdb ← elemOfJson (← j.getObjVal? "pdb")
    let kw : GenM.InitKw X.Data ← match j.getObjVal? "tablename" with
      | .ok t => (do pure (some (← elemOfJson t)))
      | _ => pure none
    pure (some (dbOut (GenM.interface_init X pdb kw)))
  | "genm_convert_input" =>
    pure (some (elemOut (GenM.convert_input X (← elemOfJson (← j.getObjVal? "pdb")))))
  | _ => pure none

end Driver.ExtMany
