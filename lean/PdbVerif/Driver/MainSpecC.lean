/- Spec-only driver entry point of cluster C (used when the Model no longer builds) -/
import PdbVerif.Driver.SpecC

namespace Driver
def mainSpecC : IO Unit := do loop (handleSpec SpecC.op) (← IO.getStdin) (← IO.getStdout)
end Driver
