/- driver entry points of cluster C -/
import PdbVerif.Driver.SpecC
import PdbVerif.Driver.ModelC

namespace Driver
def mainBothC : IO Unit := do loop (handleBoth SpecC.op ModelC.op) (← IO.getStdin) (← IO.getStdout)
end Driver
