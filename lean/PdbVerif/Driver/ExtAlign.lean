/- Driver operations of contributor `Align` (translated-code ties): run GENERATED functions so the harness can compare them with the real code.
   Wired into the cluster drivers by a fall-through; return `none` for names that are not yours.

   `gen_align`: runs `GenA.align` / `align_interface` / `align_pca_vect` / `export_aligned` / `get_max_pca_vect` / `get_min_pca_vect` / `pca`
   (Gen/Align.lean, regenerated from align.py on every run) with the world the harness observed while the real code ran:
   the object (table + `pdbfile`), whether the argument already was an object, the eigen-decomposition `np.linalg.eigh` returned,
   the values `norm`, `arctan2`, `arccos`, `cos`, `sin` took (finite tables keyed by the EXACT rational argument; the harness
   computes the keys with exact fractions the same way the generated code does), `np.pi`.  `np.cov` is the exact sample covariance. -/
import PdbVerif.Driver.Json
import PdbVerif.Driver.DCommon
import PdbVerif.Gen.Align

namespace Driver.ExtAlign
open Lean Driver Driver.D Py

def errOfTag (s : String) : Py.Err :=
  if s = "ERR:ValueError" then .valueError else if s = "ERR:TypeError" then .typeError
  else if s = "ERR:IndexError" then .indexError else if s = "ERR:KeyError" then .keyError
  else if s = "ERR:FileNotFoundError" then .fileNotFound else .unmodelled s

/-- `np.cov(Y)` of a 3×n array (rows = variables): exact sample covariance, `n − 1` in the denominator -/
def covExact (Y : Np.PointsT Rat) : Except Py.Err (Mat3 Rat) :=
  let m := Np.mean0 Y.cols
  let c := Np.subRow Y.cols m
  .ok (Np.mdiv (Np.outerSum c c) ((Y.cols.length : Rat) - 1))

def lookup1 (tbl : List (Rat × Rat)) (dflt : Rat) (x : Rat) : Rat :=
  match tbl.find? (fun p => p.1 = x) with
  | some p => p.2
  | none => dflt

def jPairs (j : Json) (k : String) : Except String (List (Rat × Rat)) := do
  if !hasField j k then return []
  let a ← jArr j k
  a.toList.mapM (fun p => do
    let l ← asRatList p
    match l with
    | [x, y] => pure (x, y)
    | _ => throw s!"{k}: pairs expected")

def dbJ (d : GenA.Rt.Db) : Json :=
  Json.mkObj [("pdbfile", match d.pdbfile with | some p => strJ p | none => .null), ("table", atomsJ d.atoms)]

def filesJ (l : List GenA.Rt.FileEffect) : Json :=
  .arr (l.map (fun f => Json.arr #[strJ f.1, atomsJ f.2])).toArray

def strField (j : Json) (k : String) (dflt : String) : String :=
  match j.getObjVal? k with
  | .ok (.str s) => s
  | _ => dflt

def boolField (j : Json) (k : String) (dflt : Bool) : Bool :=
  match j.getObjVal? k with
  | .ok (.bool b) => b
  | _ => dflt

def ratField (j : Json) (k : String) (dflt : Rat) : Except String Rat :=
  if hasField j k then jRat j k else pure dflt

def op (name : String) (j : Json) : Except String (Option Json) := do
  match name with
  | "gen_align" =>
    let func ← jStr j "func"
    let db ← if hasField j "db" then jAtoms j "db" else pure []
    let pdbfile : Option Py.Str := match j.getObjVal? "pdbfile" with | .ok (.str s) => some s.toList | _ => none
    let obj : GenA.Rt.Db := ⟨pdbfile, db⟩
    let isObj := boolField j "is_object" true
    let cast : Unit → Option GenA.Rt.Db := fun _ => if isObj then some obj else none
    let ctor : Unit → Except Py.Err GenA.Rt.Db := fun _ => .ok obj
    -- the eigen-decomposition observed (or the exception it raised)
    let eigh : Mat3 Rat → Except Py.Err (Vec3 Rat × Mat3 Rat) ←
      if hasField j "eig_u" then do
        let u ← jVec3 j "eig_u"; let V ← jMat3 j "eig_V"
        pure (fun _ => .ok (u, V))
      else pure (fun _ => .error (errOfTag (strField j "eig_err" "eigh was not observed")))
    let normT ← jPairs j "norm"       -- keyed by the x component of the vector (the harness gives one vector)
    let atanT ← jPairs j "arctan2"    -- keyed by y (first argument)
    let acosT ← jPairs j "arccos"
    let cosT ← jPairs j "cos"
    let sinT ← jPairs j "sin"
    let pi ← ratField j "pi" 0
    let norm : Vec3 Rat → Rat := fun v => lookup1 normT 1 v.x
    let arctan2 : Rat → Rat → Rat := fun y _ => lookup1 atanT 0 y
    let arccos : Rat → Rat := fun x => lookup1 acosT 0 x
    let cos : Rat → Rat := fun x => lookup1 cosT 1 x
    let sin : Rat → Rat := fun x => lookup1 sinT 0 x
    let axis := strField j "axis" "x"
    let exportFlag := boolField j "export" false
    match func with
    | "align" =>
      let mask ← jBoolList j "sel"
      let r := GenA.align cast ctor covExact eigh norm arctan2 arccos cos sin pi () axis exportFlag (fun r => mask.getD r.2 false)
      pure (some (exceptJ (fun p => Json.mkObj [("db", dbJ p.1), ("files", filesJ p.2)]) r))
    | "align_interface" =>
      let kw : GenA.Rt.ContactKw :=
        { cutoff := ← ratField j "cutoff" ((17 : Rat) / 2), allchains := boolField j "allchains" false,
          chain1 := (strField j "chain1" "A").toList, chain2 := (strField j "chain2" "B").toList,
          extend_to_residue := boolField j "extend_to_residue" false, only_backbone_atoms := boolField j "only_backbone_atoms" false,
          excludeH := boolField j "excludeH" false, return_contact_pairs := boolField j "return_contact_pairs" false }
      let ord : List (Py.Str × Py.Str × Int) → List (Py.Str × Py.Str × Int) := if boolField j "reverse_sets" false then List.reverse else id
      let r := GenA.align_interface cast ctor ord covExact eigh norm arctan2 arccos cos sin pi () (strField j "plane" "xy") exportFlag kw
      pure (some (exceptJ (fun p => Json.mkObj [("db", dbJ p.1), ("files", filesJ p.2)]) r))
    | "align_pca_vect" =>
      let v ← jVec3 j "vect"
      let r := GenA.align_pca_vect norm arctan2 arccos cos sin pi obj v axis
      pure (some (exceptJ (fun p => Json.mkObj [("db", dbJ p)]) r))
    | "export_aligned" =>
      let r := GenA.export_aligned obj
      pure (some (exceptJ (fun p => Json.mkObj [("files", filesJ p.2)]) r))
    | "pca" =>
      -- the matrix handed to `eigh` (= the covariance of what `pca` hands to `np.cov`), and what `pca` returns
      let X ← jPoints j "xyz"
      let leak := GenA.pca covExact (fun M => .ok ((⟨0, 0, 0⟩ : Vec3 Rat), M)) X
      let r := GenA.pca covExact eigh X
      pure (some (Json.mkObj [("cov", exceptJ (fun p => mat3J p.2) leak),
                              ("pca", exceptJ (fun p => Json.mkObj [("u", vec3J p.1), ("V", mat3J p.2)]) r),
                              ("max", exceptJ vec3J (GenA.get_max_pca_vect covExact eigh X)),
                              ("min", exceptJ vec3J (GenA.get_min_pca_vect covExact eigh X))]))
    | _ => throw s!"gen_align: unknown func {func}"
  | _ => pure none

end Driver.ExtAlign
