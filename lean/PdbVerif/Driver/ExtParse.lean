/- Driver operations of contributor `Parse` (translated-code ties): run GENERATED functions so the harness can compare them with the real code.
   Wired into the cluster drivers by a fall-through; return `none` for names that are not yours.

   `gen_create_table`  GenP._create_table (Gen/ParseLoop.lean) on one input form: the statements handed to the cursor and `_nModel`
   `gen_read_pdb`      GenP.read_pdb: the list of lines
   `gen_fix_chainID`   GenP._fix_chainID on a database of the table model: the returned `update_column` call and the database after it
   `gen_clean`         the table-name clean-up loop alone
   `gen_init`          GenP.init (`__init__`): method calls and cursor statements in order
   `gen_call`          GenP.call (`__call__`) with the table names and the exported lines as parameters -/
import PdbVerif.Driver.Json
import PdbVerif.Driver.BJson
import PdbVerif.Gen.ParseLoop
import PdbVerif.Model.Parse

namespace Driver.ExtParse
open Lean Driver Py

def valJ : Val → Json
  | .int i => .arr #[.str "i", intJ i]
  | .real r => .arr #[.str "r", ratJ r]
  | .text s => .arr #[.str "t", strJ s]

def rowsJ (rs : List (List Val)) : Json := .arr (rs.map (fun r => Json.arr (r.map valJ).toArray)).toArray

def strList (a : Array Json) : Except String (List Str) :=
  a.toList.mapM fun j => do let s ← asStr j; pure s.toList

/-- {"path": "...", "kind": "file"|"dir"|"none", "content": "..."}: one name exists at most -/
def fsOf (j : Json) : Except String GenP.Rt.FS := do
  match j.getObjVal? "fs" with
  | .ok f =>
    let p ← jStr f "path"
    let k ← jStr f "kind"
    let c := match jStr f "content" with | .ok c => c | .error _ => ""
    pure { pathExists := fun q => decide (q = p.toList) && (k == "file" || k == "dir"),
           isfile := fun q => decide (q = p.toList) && k == "file",
           readlines := fun q => if decide (q = p.toList) && k == "file" then .ok (Model.readlines c.toList) else .error .fileNotFound }
  | _ => pure { pathExists := fun _ => false, isfile := fun _ => false, readlines := fun _ => .error .fileNotFound }

def objOf (j : Json) : Except String GenP.Rt.Obj := do
  let form ← jStr j "form"
  match form with
  | "str" => do let s ← jStr j "arg"; pure (.str s.toList)
  | "bytes" => do let s ← jStr j "arg"; pure (.bytes s.toList)
  | "path" => do let s ← jStr j "arg"; pure (.path s.toList)
  | "listStr" => do let l ← strList (← jArr j "arg"); pure (.listStr l)
  | "listBytes" => do let l ← strList (← jArr j "arg"); pure (.listBytes l)
  | "ndarrayStr" => do let l ← strList (← jArr j "arg"); pure (.ndarrayStr l)
  | "ndarrayBytes" => do let l ← strList (← jArr j "arg"); pure (.ndarrayBytes l)
  | "listOther" => do let n ← jInt j "arg"; pure (.listOther n.toNat)
  | "ndarrayOther" => do let n ← jInt j "arg"; pure (.ndarrayOther n.toNat)
  | "other" => pure .other
  | f => throw s!"unknown form {f}"

def fxJ : GenP.Rt.Fx → Json
  | .execute q => Json.mkObj [("execute", strJ q)]
  | .executemany q rows => Json.mkObj [("executemany", strJ q), ("rows", rowsJ rows)]
  | .method n => Json.mkObj [("method", .str n)]

def merrJ (e : Model.Err) : Json := .str ("ERR:" ++ e.tag)

def op (name : String) (j : Json) : Except String (Option Json) := do
  match name with
  | "gen_create_table" =>
    let fs ← fsOf j
    let o ← objOf j
    let tn := match jStr j "tablename" with | .ok t => t.toList | .error _ => GenP._create_table_tablename_default
    pure (some (exceptJ (fun (r : List GenP.Rt.Fx × Int) => Json.mkObj [("fx", .arr (r.1.map fxJ).toArray), ("nModel", intJ r.2)])
      (GenP._create_table fs o tn)))
  | "gen_init" =>
    let fs ← fsOf j
    let o ← objOf j
    let tn := match jStr j "tablename" with | .ok t => t.toList | .error _ => GenP.init_tablename_default
    let fix := match jBool j "fix_chainID" with | .ok b => b | .error _ => GenP.init_fix_chainID_default
    pure (some (exceptJ (fun (r : List GenP.Rt.Fx × Int) => Json.mkObj [("fx", .arr (r.1.map fxJ).toArray), ("nModel", intJ r.2)])
      (GenP.init fs o tn fix)))
  | "gen_call" =>
    let fs ← fsOf j
    let names ← strList (← jArr j "names")
    -- what the real `sql2pdb(tablename=names[0], **kwargs)` returned (or raised) is handed over as the parameter
    let sql2pdb : Str → Except Err (List Str) ← match j.getObjVal? "lines" with
      | .ok (.arr a) => do let l ← strList a; pure (fun _ => Except.ok l)
      | _ => pure (fun _ => Except.error (.unmodelled "sql2pdb raised"))
    pure (some (exceptJ (fun (r : List GenP.Rt.Fx × Int) => Json.mkObj [("fx", .arr (r.1.map fxJ).toArray), ("nModel", intJ r.2)])
      (GenP.call fs names sql2pdb)))
  | "gen_read_pdb" =>
    let fs ← fsOf j
    let o ← objOf j
    pure (some (exceptJ (fun (l : List Str) => Json.arr (l.map strJ).toArray) (GenP.read_pdb fs o)))
  | "gen_clean" =>
    let t ← jStr j "tablename"
    let p ← jStr j "chars"
    pure (some (exceptJ strJ (GenP._create_table_for_c t.toList (GenP.Rt.chars p.toList))))
  | "gen_fix_chainID" =>
    let db ← Driver.B.dbOfJson (← jVal j "db")
    let r := GenP._fix_chainID db
    let after := GenP.Rt.runMethod db r
    let calls : Json := match r with
      | .error e => merrJ e
      | .ok fx => .arr (fx.map (fun f => match f with
          | .update_column cn vals tn => Json.arr #[strJ cn, .arr (vals.map Driver.B.valJ).toArray, strJ tn])).toArray
    pure (some (Json.mkObj [("calls", calls), ("db", Driver.B.dbJ after.1),
                            ("result", match after.2 with | .ok _ => .str "ok" | .error e => merrJ e)]))
  | _ => pure none

end Driver.ExtParse
