/- Model-driver operations of cluster F (C16, C20): the hand-written effect programs and the store model, executed. -/
import PdbVerif.Driver.Json
import PdbVerif.Driver.SpecF
import PdbVerif.Model.Effects
import PdbVerif.Model.Store
import PdbVerif.Driver.ExtFx

namespace Driver.ModelF
open Lean Driver Driver.SpecF

/-! ## C16 -/

open Spec.C16 Model.C16 in
def routineOf (name : String) (check : Bool) : Option Routine :=
  match name with
  | "effects_lrmsd_fast" => some (.lrmsdFast check)
  | "effects_irmsd_fast" => some (.irmsdFast check)
  | "effects_lrmsd_sql" => some .lrmsdSql
  | "effects_irmsd_sql" => some .irmsdSql
  | "effects_fnat_fast" => some .fnatFast
  | "effects_fnat_sql" => some .fnatSql
  | "effects_clashes" => some .clashes
  | "effects_contacts" => some .contacts
  | "effects_superpose" => some .superpose
  | "effects_align" => some .align
  | "effects_pairs_ref" => some .pairsRef
  | "effects_lzone" => some .lzone
  | "effects_izone" => some .izone
  | _ => none

/-- the uninterpreted pure work, instantiated by something: a zone is the lines it is written as; `check` fails on
    request; a zone file holding the line "garbage" does not parse -/
def dummyWork (failstage : Int) (same : Bool := true) : Model.C16.Work String (List String) String where
  compute := fun _ rc => rc
  render := id
  parse := fun c => if c == ["garbage"] then .error .valueError else .ok c
  check := fun _ stage _ => if (stage : Int) == failstage then .error .valueError else .ok ()
  score := fun _ _ _ => .ok "value"
  exportLines := fun _ _ _ => ["ATOM"]
  sameAtoms := fun _ => same

def optBool (j : Json) (k : String) (dflt : Bool) : Bool :=
  match j.getObjVal? k with
  | .ok (.bool b) => b
  | _ => dflt

def optStr (j : Json) (k : String) (dflt : String) : String :=
  match j.getObjVal? k with
  | .ok (.str s) => s
  | _ => dflt

def strList (j : Json) (k : String) : List String :=
  match j.getObjVal? k with
  | .ok (.arr a) => a.toList.filterMap (fun x => match x with | .str s => some s | _ => none)
  | _ => []

open Spec.C16 Model.C16 in
def isVisible : Act String → Bool
  | .append _ => false            -- a `write` on an open file raises no audit event
  | _ => true

open Spec.C16 Model.C16 in
def effectsOp (r : Routine) (j : Json) : Except String Json := do
  let zone := optStr j "zone" "none"
  let exports := match j.getObjVal? "exports" with | .ok v => (v.getNat?.toOption.getD 0) | _ => 0
  let missing := strList j "missing"
  let W := dummyWork (match j.getObjVal? "failstage" with | .ok v => (v.getInt?.toOption.getD (-1)) | _ => -1) (!(optBool j "intersect" false))
  let a : Args String := {
    decoy := "decoy", ref := "ref", tmp := "tmp",
    zone := if zone == "none" then none else some "zone",
    out1 := if exports ≥ 1 then some "out1" else none,
    out2 := if exports ≥ 2 then some "out2" else none }
  let fs : FS String String := fun p =>
    if p == "decoy" && !missing.contains "decoy" then some ["d"]
    else if p == "ref" && !missing.contains "ref" then some ["r"]
    else if p == "zone" && zone == "present" then some ["z"]
    else if p == "zone" && zone == "garbage" then some ["garbage"]
    else none
  let t : Prog String String String := prog W r a
  let tr := t.trace fs      -- appends included: the harness records write/flush/close of files the routine has open
  let res := t.exec fs
  let outcome : Json := match res.2 with
    | .ok _ => .str "ok"
    | .error e => .str e.tag
  let final := ["decoy", "ref", "zone", "tmp", "out1", "out2"].filter (fun p => (res.1 p).isSome)
  pure (Json.mkObj [("trace", .arr (tr.map actJ).toArray), ("outcome", outcome),
    ("final", .arr (final.map Json.str).toArray)])

/-! ## C16: a schedule of several tasks (the model's prediction for an observed interleaving) -/

open Spec.C16 Model.C16 in
/-- run task `k` up to and including its next *visible* action (invisible `append`s on its own files go with the
    visible action before them) -/
def stepVisible (s : Sys String String String) (k : Nat) : Sys String String String :=
  let s1 := s.step k
  -- absorb following invisible actions of the same task (at most a few)
  let rec absorb (fuel : Nat) (s : Sys String String String) : Sys String String String :=
    match fuel with
    | 0 => s
    | fuel + 1 =>
      match s.tasks[k]? with
      | some t => (match t.head with
        | some (.append _) => absorb fuel (s.step k)
        | _ => s)
      | none => s
  absorb 8 s1

open Spec.C16 Model.C16 in
def schedOp (j : Json) : Except String Json := do
  let tasks ← jArr j "tasks"
  let zone := optStr j "zone" "absent"
  let W := dummyWork (-1)
  let mut progs : List (Prog String String String) := []
  let mut i := 0
  for tj in tasks do
    let name ← jStr tj "routine"
    let check := optBool tj "check" true
    let usez := optBool tj "zone" true
    match routineOf name check with
    | none => throw s!"unknown routine {name}"
    | some r =>
      let exports := match tj.getObjVal? "exports" with | .ok v => (v.getNat?.toOption.getD 0) | _ => 0
      let a : Args String := { decoy := s!"decoy{i}", ref := "ref", tmp := s!"tmp{i}",
                               zone := if usez then some "zone" else none,
                               out1 := if exports ≥ 1 then some s!"out1{i}" else none,
                               out2 := if exports ≥ 2 then some s!"out2{i}" else none }
      progs := progs ++ [prog W r a]
    i := i + 1
  let fs : FS String String := fun p =>
    if p.startsWith "decoy" then some ["d"] else if p == "ref" then some ["r"]
    else if p == "zone" && zone == "present" then some ["z"] else none
  let sched ← jArr j "sched"
  let mut s : Sys String String String := ⟨fs, progs⟩
  let mut seen : List (List Json) := progs.map (fun _ => [])
  for kj in sched do
    let k := (kj.getNat?.toOption.getD 0)
    -- record the visible action task k is about to perform
    match s.tasks[k]? with
    | some t =>
      match t.head with
      | some a => if isVisible a then seen := seen.set k ((seen.getD k []) ++ [actJ a]) else pure ()
      | none => pure ()
    | none => pure ()
    s := stepVisible s k
  let outs := (List.range progs.length).map (fun i => match s.outcome i with
    | some (.ok _) => Json.str "ok"
    | some (.error e) => Json.str e.tag
    | none => Json.str "running")
  pure (Json.mkObj [("outcomes", .arr outs.toArray), ("traces", .arr (seen.map (fun l => Json.arr l.toArray)).toArray),
    ("zone_final", .bool (s.fs "zone").isSome),
    ("temps_left", .arr (((List.range progs.length).filter (fun i => (s.fs s!"tmp{i}").isSome)).map (fun i => intJ (Int.ofNat i))).toArray)])

/-! ## C20 -/

open Spec.C20 Model.C20 in
def factJ : FAct String → Option Json
  | .isFile p => some (.arr #[.str "isFile", .str p])
  | .remove p => some (.arr #[.str "remove", .str p])
  | .connect p => some (.arr #[.str "connect", .str p])
  | .shell _ => some (.arr #[.str "shell"])
  | _ => none                     -- SQLite-internal actions raise no audit event

open Spec.C20 Model.C20 in
def storeOp (j : Json) : Except String Json := do
  let a ← jArr j "ops"
  let k ← jInt j "k"
  let ops ← opsOfJson (if k < 0 then a else a.extract 0 k.toNat)
  let r0 ← jStr j "r0"
  let w : World String DRow := fun q =>
    if q == "victim" then some .other
    else if q == "db" then (if r0 == "olddb" then some (.db (some [⟨999, 0, []⟩])) else if r0 == "garbage" then some .other else none)
    else none
  let journal : String → String := fun p => p ++ "-journal"
  let st := run journal "db" w ops
  let rd := readBack (crash st) "db"
  pure (Json.mkObj [("read", readJ rd), ("trace", .arr (st.trace.filterMap factJ).toArray),
    ("victim_ok", .bool (match st.world "victim" with | some .other => true | _ => false)),
    ("journal_left", .bool (st.world "db-journal").isSome)])

def op (name : String) (j : Json) : Except String (Option Json) := do
  if name == "sched_run" then return some (← schedOp j)
  if name == "store_scenario" then return some (← storeOp j)
  match routineOf name (optBool j "check" true) with
  | some r => return some (← effectsOp r j)
  | none => ExtFx.op name j

end Driver.ModelF
