/- Operations of the Spec driver: the properties' right-hand sides, evaluated on concrete cases. -/
import PdbVerif.Driver.Json
import PdbVerif.Spec.C12
import PdbVerif.Py.Float

namespace Driver.SpecZ
open Lean Driver

def op (name : String) (j : Json) : Except String (Option Json) := do
  match name with
  | "capri" =>
    let f ← jRat j "f"; let l ← jRat j "l"; let i ← jRat j "i"
    -- published thresholds 0.1 0.3 0.5 / 1 5 10 / 1 2 4, the first two as the binary64 numbers a caller
    -- writing 0.1 / 0.3 passes (an Fnat of `0.3` must count as "in [0.3, 0.5)")
    let t01 : Rat := Py.toDouble (1/10)
    let t03 : Rat := Py.toDouble (3/10)
    let c := Spec.capriBest t01 t03 (1/2) 1 5 10 1 2 4 f l i
    let t := Spec.capriTable t01 t03 (1/2) 1 5 10 1 2 4 f l i
    pure (some (Json.mkObj [("best", strJ c.name), ("table", match t with | some c => strJ c.name | none => .str "NONE")]))
  | "dockq" =>
    let f ← jRat j "f"; let l ← jRat j "l"; let i ← jRat j "i"; let d1 ← jRat j "d1"; let d2 ← jRat j "d2"
    if d1 = 0 ∨ d2 = 0 then pure (some (.str "ERR:ZeroDivisionError"))
    else pure (some (ratJ (Spec.dockq f l i d1 d2)))
  | _ => pure none

end Driver.SpecZ
