/- driver entry points of cluster D -/
import PdbVerif.Driver.SpecD
import PdbVerif.Driver.ModelD

namespace Driver
def mainBothD : IO Unit := do loop (handleBoth SpecD.op ModelD.op) (← IO.getStdin) (← IO.getStdout)
end Driver
