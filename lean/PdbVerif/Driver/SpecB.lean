/- Spec-driver operations of cluster B (C03, C04, C17, C15, C19). Imports Spec/* only — never Gen or Model. -/
import PdbVerif.Driver.Json
import PdbVerif.Driver.BJson
import PdbVerif.Spec.C03
import PdbVerif.Spec.C04
import PdbVerif.Spec.C17
import PdbVerif.Spec.C15
import PdbVerif.Spec.C19

namespace Driver.SpecB
open Lean Driver Driver.B Tbl

/-- the limits the property statement names -/
def piece : Nat := 950
def limit : Nat := 999

def answerJ : Spec.Answer → Json
  | .rejected => "REJECTED"
  | .tooManyVariables => "TOOMANY"
  | .rows items => itemsJ items
  | .perModel per => Json.mkObj [("models", .arr (per.map itemsJ).toArray)]

/-- a history judged by the reference model; after a step the property does not speak about, the rest is `outside` -/
def runHist (db : Db) : List HistItem → List Json
  | [] => []
  | .modify op :: rest =>
    match Spec.step db op with
    | .ok db' => Json.mkObj [("out", "ok"), ("db", dbJ db')] :: runHist db' rest
    | .reject => Json.mkObj [("out", "reject"), ("db", dbJ db)] :: runHist db rest
    | .outside => (HistItem.modify op :: rest).map (fun _ => Json.mkObj [("out", "outside")])
  | .query columns tn kw :: rest =>
    Json.mkObj [("out", "answer"), ("answer", answerJ (Spec.getOn piece limit db columns tn kw)), ("db", dbJ db)] :: runHist db rest

/-- the reference tables of a family of objects: every object evolves by the reference model of C04 on its own
    tables; a derived object starts with the round-tripped snapshot of the selected atoms -/
def specDerive (w : List Obj) : WOp → Option (Option Obj)        -- none = outside; some none = must raise
  | .modify _ _ => none
  | .deriveSub k kw =>
    match w[k]? with
    | none => none
    | some o =>
      if o.db.nModel > 0 then none else
      let tabs := match o.kind with | .single => o.db.tabs.take 1 | .many => o.db.tabs
      match tabs.mapM (fun t => (Spec.derivedTable roundtripRepresentable o.db.extra t.rows kw).map (fun T => ({ name := t.name, rows := T } : Tab))) with
      | none => some none
      | some ts => if ts.isEmpty || ts.any (fun t => t.rows.isEmpty) then some none
                   else some (some { kind := o.kind, db := { tabs := ts } })
  | .deriveInterface k =>
    match w[k]? with
    | none => none
    | some o =>
      if o.db.nModel > 0 then none else
      match o.db.table? "atom".toList with
      | none => some none
      | some T => if T.isEmpty then some none
                  else some (some { kind := .single, db := { tabs := [{ name := "atom".toList, rows := roundtripRepresentable T }] } })
  | .deriveMany ks =>
    if ks.isEmpty then some none else
    match ks.zipIdx.mapM (fun (ki : Nat × Nat) => match w[ki.1]? with
        | none => none
        | some o => if o.db.nModel > 0 then none else
          (o.db.table? "atom".toList).map (fun T => ({ name := (if ki.2 = 0 then "ATOM" else s!"ATOM{ki.2}").toList, rows := roundtripRepresentable T } : Tab))) with
    | none => none
    | some ts => if ts.any (fun t => t.rows.isEmpty) then some none else some (some { kind := .many, db := { tabs := ts } })

def runWorld (w : List Obj) : List WOp → List Json
  | [] => []
  | op :: rest =>
    let outside := (op :: rest).map (fun _ => Json.mkObj [("out", "outside")])
    match op with
    | .modify k m =>
      match w[k]? with
      | none => outside
      | some o =>
        match Spec.step o.db m with
        | .ok db' => let w' := w.set k { o with db := db' }
                     Json.mkObj [("out", "ok"), ("objs", worldJ w')] :: runWorld w' rest
        | .reject => Json.mkObj [("out", "reject"), ("objs", worldJ w)] :: runWorld w rest
        | .outside => outside
    | d =>
      match specDerive w d with
      | none => outside
      | some none => Json.mkObj [("out", "reject"), ("objs", worldJ w)] :: runWorld w rest
      | some (some o) => Json.mkObj [("out", "ok"), ("objs", worldJ (w ++ [o]))] :: runWorld (w ++ [o]) rest

def specMatchCol (k : Py.Str) : Option StdCol := StdCol.all.find? (fun c => Py.lower c.pyName == Py.lower k)

/-- the property's intersection, per structure, projected on the requested attributes; "OUTSIDE" when the keys
    are not unique within a structure (the property's quantifier) or a name is not an attribute -/
def specIntersection (db : Db) (column : Py.Str) (mnames : List Py.Str) : Json :=
  let colNames := if column = "*".toList then StdCol.all.map StdCol.pyName else Py.splitOn ',' column
  match mnames.mapM specMatchCol, colNames.mapM (fun n => resolve db.extraNames (Py.strip n)) with
  | some m, some cols =>
    let tables := db.tabs.map (·.rows)
    if cols.contains .rowID || !db.extra.isEmpty then "OUTSIDE"
    else if !tables.all (fun T => decide ((T.map (Spec.keyOf m)).Nodup)) then "OUTSIDE"
    else
      let tuples := Spec.intersection m tables
      .arr ((List.range tables.length).map (fun it =>
        Json.arr (tuples.map (fun tup => Json.arr ((cols.map (fun c => cell c 0 (tup.getD it default))).map valJ).toArray)).toArray)).toArray
  | _, _ => "REJECTED"

def op (name : String) (j : Json) : Except String (Option Json) := do
  match name with
  | "get" =>
    let db ← dbOfJson (← j.getObjVal? "db")
    pure (some (answerJ (Spec.getOn piece limit db (← strOf j "columns") (← strOf j "tn") (← kwsOfJson j "kw"))))
  | "get_xyz" =>
    let db ← dbOfJson (← j.getObjVal? "db")
    pure (some (answerJ (Spec.getOn piece limit db "x,y,z".toList (← strOf j "tn") (← kwsOfJson j "kw"))))
  | "get_residues" =>
    let db ← dbOfJson (← j.getObjVal? "db")
    let kw ← kwsOfJson j "kw"
    pure (some (match db.table? (← strOf j "tn"), kw.mapM (Spec.condOf db.extraNames) with
      | some T, some q => .arr ((Spec.residues db.extra T q).map (fun vs => Json.arr (vs.map valJ).toArray)).toArray
      | _, _ => "REJECTED"))
  | "get_chains" =>
    let db ← dbOfJson (← j.getObjVal? "db")
    let kw ← kwsOfJson j "kw"
    pure (some (match db.table? (← strOf j "tn"), kw.mapM (Spec.condOf db.extraNames) with
      | some T, some q => .arr ((sortDedup Tbl.strLt ((Spec.selected db.extra T q).map (fun ri => ri.1.atom.chainID))).map strJ).toArray
      | _, _ => "REJECTED"))
  | "get_all" =>
    let db ← dbOfJson (← j.getObjVal? "db")
    pure (some (.arr ((Spec.getAll piece limit db (← strOf j "columns") (← kwsOfJson j "kw")).map answerJ).toArray))
  | "hist" =>
    let db ← dbOfJson (← j.getObjVal? "db")
    let ops ← (← jArr j "ops").toList.mapM histItemOfJson
    pure (some (.arr (runHist db ops).toArray))
  | "intersection" =>
    let db ← dbOfJson (← j.getObjVal? "db")
    let m ← (← jArr j "match").toList.mapM (fun x => do let s ← asStr x; pure s.toList)
    pure (some (specIntersection db (← strOf j "column") m))
  | "intersect" =>
    let db ← dbOfJson (← j.getObjVal? "db")
    let mn ← (← jArr j "match").toList.mapM (fun x => do let s ← asStr x; pure s.toList)
    pure (some (match mn.mapM specMatchCol with
      | none => "REJECTED"
      | some m =>
        let tables := db.tabs.map (·.rows)
        if !db.extra.isEmpty || !tables.all (fun T => decide ((T.map (Spec.keyOf m)).Nodup)) then "OUTSIDE"
        else
          let tuples := Spec.intersection m tables
          if tuples.isEmpty then "EMPTY"
          else dbJ { tabs := db.tabs.zipIdx.map (fun ti =>
            ({ name := ti.1.name, rows := roundtripRepresentable (tuples.map (fun tup => tup.getD ti.2 default)) } : Tab)) }))
  | "world" =>
    let objs ← (← jArr j "objs").toList.mapM objOfJson
    let ops ← (← jArr j "ops").toList.mapM wopOfJson
    pure (some (.arr (runWorld objs ops).toArray))
  | _ => pure none

end Driver.SpecB
