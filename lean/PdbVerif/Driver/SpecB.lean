/- Spec-driver operations of cluster B (C03, C04, C17, C15, C19). Imports Spec/* only — never Gen or Model. -/
import PdbVerif.Driver.Json
import PdbVerif.Driver.BJson
import PdbVerif.Spec.C03
import PdbVerif.Spec.C04
import PdbVerif.Spec.C17

namespace Driver.SpecB
open Lean Driver Driver.B Tbl

/-- the limits the property statement names -/
def piece : Nat := 950
def limit : Nat := 999

def answerJ : Spec.Answer → Json
  | .rejected => "REJECTED"
  | .tooManyVariables => "TOOMANY"
  | .rows items => itemsJ items
  | .perModel per => Json.mkObj [("models", .arr (per.map itemsJ).toArray)]

/-- a history judged by the reference model; after a step the property does not speak about, the rest is `outside` -/
def runHist (db : Db) : List Tbl.Op → List Json
  | [] => []
  | op :: rest =>
    match Spec.step db op with
    | .ok db' => Json.mkObj [("out", "ok"), ("db", dbJ db')] :: runHist db' rest
    | .reject => Json.mkObj [("out", "reject"), ("db", dbJ db)] :: runHist db rest
    | .outside => (op :: rest).map (fun _ => Json.mkObj [("out", "outside")])

def op (name : String) (j : Json) : Except String (Option Json) := do
  match name with
  | "get" =>
    let db ← dbOfJson (← j.getObjVal? "db")
    pure (some (answerJ (Spec.getOn piece limit db (← strOf j "columns") (← strOf j "tn") (← kwsOfJson j "kw"))))
  | "get_xyz" =>
    let db ← dbOfJson (← j.getObjVal? "db")
    pure (some (answerJ (Spec.getOn piece limit db "x,y,z".toList (← strOf j "tn") (← kwsOfJson j "kw"))))
  | "get_residues" =>
    let db ← dbOfJson (← j.getObjVal? "db")
    let kw ← kwsOfJson j "kw"
    pure (some (match db.table? (← strOf j "tn"), kw.mapM (Spec.condOf db.extraNames) with
      | some T, some q => .arr ((Spec.residues db.extra T q).map (fun vs => Json.arr (vs.map valJ).toArray)).toArray
      | _, _ => "REJECTED"))
  | "get_chains" =>
    let db ← dbOfJson (← j.getObjVal? "db")
    let kw ← kwsOfJson j "kw"
    pure (some (match db.table? (← strOf j "tn"), kw.mapM (Spec.condOf db.extraNames) with
      | some T, some q => .arr ((sortDedup Tbl.strLt ((Spec.selected db.extra T q).map (fun ri => ri.1.atom.chainID))).map strJ).toArray
      | _, _ => "REJECTED"))
  | "get_all" =>
    let db ← dbOfJson (← j.getObjVal? "db")
    pure (some (.arr ((Spec.getAll piece limit db (← strOf j "columns") (← kwsOfJson j "kw")).map answerJ).toArray))
  | "hist" =>
    let db ← dbOfJson (← j.getObjVal? "db")
    let ops ← (← jArr j "ops").toList.mapM opOfJson
    pure (some (.arr (runHist db ops).toArray))
  | _ => pure none

end Driver.SpecB
