/- driver entry points of cluster Z -/
import PdbVerif.Driver.SpecZ
import PdbVerif.Driver.ModelZ

namespace Driver
def mainBothZ : IO Unit := do loop (handleBoth SpecZ.op ModelZ.op) (← IO.getStdin) (← IO.getStdout)
end Driver
