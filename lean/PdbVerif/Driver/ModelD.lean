/- Model-driver operations of cluster D (C06, C10, C18): generated (Gen) and hand-written (Model) code models. -/
import PdbVerif.Driver.Json
import PdbVerif.Driver.DCommon
import PdbVerif.Gen.Consts
import PdbVerif.Gen.Mat
import PdbVerif.Model.Superpose
import PdbVerif.Model.Transform
import PdbVerif.Model.Align
import PdbVerif.Driver.ExtAlign

namespace Driver.ModelD
open Lean Driver Driver.D Py

def methodOf (s : String) : Option Model.Method :=
  let l := s.toLower                                    -- method.lower()
  if l = "svd" then some .svd else if l = "quaternion" then some .quaternion else none

def eigOfJson (j : Json) (k : String) : Except String (List (Rat × Vec4 Rat)) := do
  let a ← jArr j k
  a.toList.mapM (fun p => do
    let pr ← asArr p
    if pr.size != 2 then throw "eig: [l, [q0,q1,q2,q3]] expected"
    let l ← asRat pr[0]!
    let q ← asVec4 pr[1]!
    pure (l, q))

def orthDefect (M : Mat3 Rat) : Rat :=
  maxR [maxAbsDiff3 (M.mul M.T) Mat3.one, maxAbsDiff3 (M.T.mul M) Mat3.one]

def svdContractJ (A V : Mat3 Rat) (s : Vec3 Rat) (Wt : Mat3 Rat) : Json :=
  Json.mkObj [("factor", ratJ (maxAbsDiff3 A ((V.mul (Mat3.diag s.x s.y s.z)).mul Wt))),
              ("orthV", ratJ (orthDefect V)), ("orthW", ratJ (orthDefect Wt)),
              ("ordered", .bool (decide (s.y ≤ s.x) && decide (s.z ≤ s.y) && decide (0 ≤ s.z))),
              ("detWV", ratJ (Mat3.det (Wt.T.mul V.T)))]

def eigContractJ (F : Mat4 Rat) (lU : List (Rat × Vec4 Rat)) : Json :=
  let i := Model.argmax (lU.map Prod.fst)
  match lU[i]? with
  | none => Json.mkObj [("index", .str "out of range")]
  | some (l, q) =>
    let Fq := F.mulVec q
    Json.mkObj [("residual", ratJ (maxR [absR (Fq.w - l * q.w), absR (Fq.x - l * q.x), absR (Fq.y - l * q.y), absR (Fq.z - l * q.z)])),
                ("unit", ratJ (absR (Vec4.dot q q - 1))),
                ("lambda", ratJ l), ("index", intJ i),
                ("isMax", .bool (lU.all (fun p => decide (p.1 ≤ l))))]

def matResJ (r : Except Err (Mat3 Rat)) : Json := exceptJ mat3J r

/-! ### C10 -/

def transformOfJson (j : Json) : Except String (Model.Transform × Model.Sel) := do
  let kind ← jStr j "kind"
  let mask ← jBoolList j "sel"
  let sel := maskSel mask
  match kind with
  | "translation" => pure (.translation (← jVec3 j "vect"), sel)
  | "rot_axis" => pure (.rotAxis (← jRat j "c") (← jRat j "s") (← jVec3 j "axis"), sel)
  | "rot_euler" =>
    pure (.rotEuler (← jRat j "ca") (← jRat j "sa") (← jRat j "cb") (← jRat j "sb") (← jRat j "cg") (← jRat j "sg"), sel)
  | "rot_mat" => pure (.rotMat (← jMat3 j "mat"), sel)
  | _ => throw s!"unknown transform kind {kind}"

def optCenter (j : Json) : Except String (Option (Vec3 Rat)) :=
  if hasField j "center" then do pure (some (← jVec3 j "center")) else pure none

def op (name : String) (j : Json) : Except String (Option Json) := do
  match name with
  /- ---- C06 ---- -/
  | "kabsch" =>
    let P ← jPoints j "P"; let Q ← jPoints j "Q"
    let V ← jMat3 j "V"; let s ← jVec3 j "s"; let Wt ← jMat3 j "Wt"
    let r := Model.kabsch (fun _ => (V, s, Wt)) Gen.kabsch_eps P Q
    pure (some (Json.mkObj [("U", matResJ r), ("contract", svdContractJ (Model.covariance P Q) V s Wt)]))
  | "quat" =>
    let P ← jPoints j "P"; let Q ← jPoints j "Q"
    let lU ← eigOfJson j "eig"
    let r := Model.quaternion (fun _ => lU) Gen.quat_eps P Q
    pure (some (Json.mkObj [("U", matResJ r), ("contract", eigContractJ (Gen.quat_F (Model.dotPtQ P Q)) lU)]))
  | "guard" =>
    -- inputs that must be rejected before any factorisation is requested
    let P ← jPoints j "P"; let Q ← jPoints j "Q"
    let m ← jStr j "method"
    let r := Model.getRotationMatrix (fun _ => (Mat3.one, ⟨1, 1, 1⟩, Mat3.one)) (fun _ => [(1, ⟨1, 0, 0, 0⟩)])
      Gen.kabsch_eps Gen.quat_eps (methodOf m) P Q
    pure (some (Json.mkObj [("U", match r with | .error e => errJ e | .ok _ => .str "accepted")]))
  | "superpose_sel" =>
    let X ← jPoints j "xyz"; let sm ← jPoints j "selMob"; let st ← jPoints j "selTar"
    let m ← jStr j "method"
    let svd : Mat3 Rat → Mat3 Rat × Vec3 Rat × Mat3 Rat ←
      if hasField j "V" then do
        let V ← jMat3 j "V"; let s ← jVec3 j "s"; let Wt ← jMat3 j "Wt"
        pure (fun _ => (V, s, Wt))
      else pure (fun _ => (Mat3.one, ⟨1, 1, 1⟩, Mat3.one))
    let eig : Mat4 Rat → List (Rat × Vec4 Rat) ←
      if hasField j "eig" then do let lU ← eigOfJson j "eig"; pure (fun _ => lU) else pure (fun _ => [])
    let r := Model.superposeSelection (Model.getRotationMatrix svd eig Gen.kabsch_eps Gen.quat_eps (methodOf m)) X sm st
    pure (some (Json.mkObj [("xyz", exceptJ pointsJ r)]))
  /- ---- C10 ---- -/
  | "transform_seq" =>
    let db ← jAtoms j "db"
    let steps ← jArr j "steps"
    let ts ← steps.toList.mapM transformOfJson
    pure (some (exceptJ atomsJ (Model.transformSeq ts db)))
  | "rotate_xyz" =>
    let X ← jPoints j "X"
    let kind ← jStr j "kind"
    let c ← optCenter j
    match kind with
    | "rot_axis" => pure (some (pointsJ (Model.rotAxis (← jRat j "c") (← jRat j "s") (← jVec3 j "axis") c X)))
    | "rot_euler" =>
      pure (some (pointsJ (Model.rotEuler (← jRat j "ca") (← jRat j "sa") (← jRat j "cb") (← jRat j "sb") (← jRat j "cg") (← jRat j "sg") c X)))
    | "rot_mat" => pure (some (pointsJ (Model.rotate (← jMat3 j "mat") c X)))
    | _ => throw s!"unknown rotate kind {kind}"
  | "axis_angle" =>
    let ax := Model.randAxis (← jRat j "ct") (← jRat j "st") (← jRat j "cp") (← jRat j "sp")
    let an := Model.randAngle (← jRat j "twoPi") (← jRat j "u3")
    pure (some (Json.mkObj [("axis", vec3J ax), ("angle", ratJ an)]))
  /- ---- C18 ---- -/
  | "align" =>
    let db ← jAtoms j "db"
    let mask ← jBoolList j "sel"
    let axis ← jStr j "axis"
    let cp ← jRat j "cp"; let sp ← jRat j "sp"; let ct ← jRat j "ct"; let st ← jRat j "st"
    let v ← jVec3 j "v"; let r ← jRat j "r"
    let res := Model.alignPcaVect cp sp ct st axis db
    let spherical := maxR [absR (v.x - r * st * cp), absR (v.y - r * st * sp), absR (v.z - r * ct),
                           absR (cp * cp + sp * sp - 1), absR (ct * ct + st * st - 1)]
    pure (some (Json.mkObj [("table", exceptJ atomsJ res), ("spherical", ratJ spherical),
                            ("nsel", intJ ((Model.getXYZ (maskSel mask) db).length))]))
  | "align_axis" =>
    -- an axis name outside x, y, z
    let axis ← jStr j "axis"
    let db ← jAtoms j "db"
    pure (some (Json.mkObj [("table", exceptJ atomsJ (Model.alignPcaVect 1 0 1 0 axis db))]))
  | _ => (do match ← ExtAlign.op name j with | some r => pure (some r) | none => pure none)

end Driver.ModelD
