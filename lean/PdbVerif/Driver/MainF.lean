/- driver entry points of cluster F -/
import PdbVerif.Driver.SpecF
import PdbVerif.Driver.ModelF

namespace Driver
def mainBothF : IO Unit := do loop (handleBoth SpecF.op ModelF.op) (← IO.getStdin) (← IO.getStdout)
end Driver
