/-
  Cluster F (C16, C20) — pin: the complete list of effectful calls in the library source that the hand-written models
  `Model/Effects.lean` (effect programs) and `Model/Store.lean` (open / close of a database file) were written
  against.  `Gen.effects` is regenerated from /repo on every run; if any effectful call is added, removed or changes
  shape this pin stops building and the checks fall back to "tie: correspondence-only" (the robust obligations —
  no shell, no literal scratch name, no in-place zone write — live in Props/C16.lean and Props/C20.lean and are
  re-decided on the regenerated list).
-/
import PdbVerif.Gen.Effects

namespace Pins.F

def pinned : List Gen.Effect := [
  ⟨"StructureSimilarity:StructureSimilarity.compute_lrmsd_fast", "os.path.isfile", "name", "lzone", false, ""⟩,
  ⟨"StructureSimilarity:StructureSimilarity.compute_irmsd_fast", "os.path.isfile", "name", "izone", false, ""⟩,
  ⟨"StructureSimilarity:StructureSimilarity.compute_residue_pairs_ref", "pickle.dump", "name", "residue_pairs_ref", false, ""⟩,
  ⟨"StructureSimilarity:StructureSimilarity.compute_residue_pairs_ref", "open", "concat", "self.ref.split('.')[0] + 'residue_contact_pairs.pckl'", false, "wb"⟩,
  ⟨"StructureSimilarity:StructureSimilarity.compute_residue_pairs_ref", "open", "name", "filename", false, "wb"⟩,
  ⟨"StructureSimilarity:StructureSimilarity.get_izone_rowID", "os.path.isfile", "name", "izone", false, ""⟩,
  ⟨"StructureSimilarity:StructureSimilarity._write_zone", "tempfile.mkstemp", "none", "", false, ""⟩,
  ⟨"StructureSimilarity:StructureSimilarity._write_zone", "os.fdopen", "name", "fd", false, ""⟩,
  ⟨"StructureSimilarity:StructureSimilarity._write_zone", "os.replace", "name", "tmpname", false, ""⟩,
  ⟨"StructureSimilarity:StructureSimilarity.read_zone", "os.path.isfile", "name", "zone_file", false, ""⟩,
  ⟨"StructureSimilarity:StructureSimilarity.read_zone", "open", "name", "zone_file", false, "r"⟩,
  ⟨"pdb2sql_base:pdb2sql_base.exportpdb", "open", "name", "fname", false, "a"⟩,
  ⟨"pdb2sql_base:pdb2sql_base.exportpdb", "open", "name", "fname", false, "w"⟩,
  ⟨"pdb2sql_base:pdb2sql_base._close", "os.path.isfile", "name", "self.sqlfile", false, ""⟩,
  ⟨"pdb2sql_base:pdb2sql_base._close", "os.remove", "name", "self.sqlfile", false, ""⟩,
  ⟨"pdb2sqlcore:pdb2sql._create_sql", "sqlite3.connect", "literal", "':memory:'", false, ""⟩,
  ⟨"pdb2sqlcore:pdb2sql._create_sql", "os.path.isfile", "name", "sqlfile", false, ""⟩,
  ⟨"pdb2sqlcore:pdb2sql._create_sql", "sqlite3.connect", "name", "sqlfile", false, ""⟩,
  ⟨"pdb2sqlcore:pdb2sql._create_sql", "os.remove", "name", "sqlfile", false, ""⟩,
  ⟨"pdb2sqlcore:pdb2sql.read_pdb", "os.path.exists", "name", "pdbfile", false, ""⟩,
  ⟨"pdb2sqlcore:pdb2sql.read_pdb", "os.path.isfile", "name", "pdbfile", false, ""⟩,
  ⟨"pdb2sqlcore:pdb2sql.read_pdb", "open", "name", "pdbfile", false, "r"⟩,
  ⟨"pdb2sqlcore:pdb2sql.read_pdb", "pdbfile.open", "none", "", false, "r"⟩
]

theorem effects_pinned : Gen.effects = pinned := by decide

end Pins.F
