/-
  Text pins of cluster D: the literal statements of the glue code that the hand models
  Model/{Superpose,Transform,Align}.lean were written against.  `Gen.*` / `GenD.*` are regenerated from
  /repo on every run; if a glue statement changes, the corresponding `decide` fails and the check reports
  `pin:PdbVerif.Pins.D` (the hand model then rests on the correspondence run alone).
-/
import PdbVerif.Gen.Mat
import PdbVerif.Gen.MatD

namespace Pins.D

theorem kabsch_steps_pinned : Gen.kabsch_steps =
  ["A = np.dot(P.T, Q) / npts",
   "V, _, W = np.linalg.svd(A)",
   "W = W.T",
   "d = np.linalg.det(np.dot(W, V.T))",
   "Id = np.eye(3)",
   "if d < 0:\n    Id[2, 2] = -1",
   "U = np.dot(W, np.dot(Id, V.T))",
   "return U"] := by rfl

theorem align_steps_pinned : Gen.align_steps =
  [("x", [((0, 0, 1), "-phi"), ((0, 1, 0), "np.pi / 2 - theta")]),
   ("y", [((0, 0, 1), "np.pi / 2 - phi"), ((1, 0, 0), "theta - np.pi / 2")]),
   ("z", [((0, 0, 1), "-phi"), ((0, 1, 0), "-theta")])] := by rfl

theorem rotation_angle_steps_pinned : Gen.rotation_angle_steps =
  ["x, y, z = vmax", "r = np.linalg.norm(vmax)", "phi = np.arctan2(y, x)", "theta = np.arccos(z / r)", "return (phi, theta)"] := by rfl

theorem pca_steps_pinned : Gen.pca_steps =
  ["scat = (mat - np.mean(mat.T, axis=1)).T", "u, v = np.linalg.eigh(np.cov(scat))", "return (u, v)"] := by rfl

theorem superpose_selection_steps_pinned : Gen.superpose_selection_steps =
  ["sel_mob = np.copy(selection_mobile)",
   "sel_tar = np.copy(selection_target)",
   "tr_mobile = get_trans_vect(sel_mob)",
   "tr_target = get_trans_vect(sel_tar)",
   "sel_tar += tr_target",
   "sel_mob += tr_mobile",
   "rmat = get_rotation_matrix(sel_mob, sel_tar, method=method)",
   "xyz_mobile += tr_mobile",
   "origin = np.array([0, 0, 0])",
   "xyz_mobile = rotate(xyz_mobile, rmat, center=origin)",
   "xyz_mobile -= tr_target",
   "return xyz_mobile"] := by rfl

theorem get_rmsd_steps_pinned : Gen.get_rmsd_steps =
  ["n = len(P)", "return round(np.sqrt(1.0 / n * np.sum((P - Q) ** 2)), 3)"] := by rfl

theorem max_pca_return_pinned : Gen.max_pca_return = "return v[:, np.argmax(u)]" := by rfl

theorem min_pca_return_pinned : Gen.min_pca_return = "return v[:, np.argmin(u)]" := by rfl

theorem rotate_return_pinned : Gen.rotate_return = "return np.dot(rot_mat, (xyz - center).T).T + center" := by rfl

theorem rotate_default_center_pinned : Gen.rotate_default_center = "if center is None:\n    center = np.mean(xyz, 0)" := by rfl

theorem trans_vect_return_pinned : Gen.trans_vect_return = "return -np.mean(pts, 0)" := by rfl

theorem kabsch_guard_steps_pinned : GenD.kabsch_guard_steps =
  ["pshape = P.shape",
   "qshape = Q.shape",
   "if pshape[0] == qshape[0]:\n    npts = pshape[0]\nelse:\n    raise ValueError(\"Matrix don't have the same number of points\", P.shape, Q.shape)",
   "p0, q0 = (np.abs(np.mean(P, 0)), np.abs(np.mean(Q, 0)))",
   "eps = 1e-06",
   "if any(p0 > eps) or any(q0 > eps):\n    raise ValueError('You must center the fragment first', p0, q0)"] := by rfl

theorem quat_glue_steps_pinned : GenD.quat_glue_steps =
  ["pshape = P.shape",
   "qshape = Q.shape",
   "if pshape[0] != qshape[0]:\n    raise ValueError(\"Matrix don't have the same number of points\", P.shape, Q.shape)",
   "p0, q0 = (np.abs(np.mean(P, 0)), np.abs(np.mean(Q, 0)))",
   "eps = 1e-06",
   "if any(p0 > eps) or any(q0 > eps):\n    raise ValueError('You must center the fragment first', p0, q0)",
   "R = np.dot(P.T, Q)",
   "F = np.zeros((4, 4))",
   "l, U = np.linalg.eigh(F)",
   "indmax = np.argmax(l)",
   "q0, q1, q2, q3 = U[:, indmax]",
   "U = np.zeros((3, 3))",
   "return U"] := by rfl

theorem dispatch_steps_pinned : GenD.dispatch_steps =
  ["if method.lower() == 'svd':\n    mat = get_rotation_matrix_Kabsh(p, q)\nelif method.lower() == 'quaternion':\n    mat = get_rotation_matrix_quaternion(p, q)\nelse:\n    raise ValueError(f'{method} is not a valid method for rmsd alignement. Options are svd or quaternions')",
   "return mat"] := by rfl

theorem translation_steps_pinned : GenD.translation_steps =
  ["xyz = _get_xyz(db, **kwargs)",
   "xyz += vect",
   "_update(db, xyz, **kwargs)"] := by rfl

theorem rot_axis_steps_pinned : GenD.rot_axis_steps =
  ["xyz = _get_xyz(db, **kwargs)",
   "xyz = rot_xyz_around_axis(xyz, axis, angle)",
   "_update(db, xyz, **kwargs)"] := by rfl

theorem rot_euler_steps_pinned : GenD.rot_euler_steps =
  ["xyz = _get_xyz(db, **kwargs)",
   "xyz = rotation_euler(xyz, alpha, beta, gamma)",
   "_update(db, xyz, **kwargs)"] := by rfl

theorem rot_mat_steps_pinned : GenD.rot_mat_steps =
  ["xyz = _get_xyz(db, **kwargs)",
   "xyz = rotate(xyz, mat)",
   "_update(db, xyz, **kwargs)"] := by rfl

theorem get_xyz_steps_pinned : GenD.get_xyz_steps =
  ["return np.array(db.get('x,y,z', **kwargs))"] := by rfl

theorem update_steps_pinned : GenD.update_steps =
  ["db.update('x,y,z', xyz, **kwargs)"] := by rfl

theorem rotate_steps_pinned : GenD.rotate_steps =
  ["if center is None:\n    center = np.mean(xyz, 0)",
   "if not isinstance(center, (list, np.ndarray)):\n    raise TypeError('Rotation center must be list or 1D np.ndarray')",
   "return np.dot(rot_mat, (xyz - center).T).T + center"] := by rfl

theorem rot_axis_angle_steps_pinned : GenD.rot_axis_angle_steps =
  ["if seed is not None:\n    np.random.seed(seed)",
   "u1, u2 = (np.random.rand(), np.random.rand())",
   "theta = 2 * np.pi * u1",
   "phi = np.arccos(2 * u2 - 1)",
   "axis = [np.sin(phi) * np.cos(theta), np.sin(phi) * np.sin(theta), np.cos(phi)]",
   "angle = 2 * np.pi * np.random.rand()",
   "return (axis, angle)"] := by rfl

theorem rot_xyz_around_axis_glue_pinned : GenD.rot_xyz_around_axis_glue =
  ["ct, st = (np.cos(angle), np.sin(angle))",
   "ux, uy, uz = axis",
   "return rotate(xyz, rot_mat, center)"] := by rfl

theorem rotation_euler_glue_pinned : GenD.rotation_euler_glue =
  ["ca, sa = (np.cos(alpha), np.sin(alpha))",
   "cb, sb = (np.cos(beta), np.sin(beta))",
   "cg, sg = (np.cos(gamma), np.sin(gamma))",
   "return rotate(xyz, rot_mat, center)"] := by rfl

theorem align_main_steps_pinned : GenD.align_main_steps =
  ["if not isinstance(pdb, pdb2sql):\n    sql = pdb2sql(pdb)\nelse:\n    sql = pdb",
   "xyz = np.array(sql.get('x,y,z', **kwargs))",
   "vect = get_max_pca_vect(xyz)",
   "sql = align_pca_vect(sql, vect, axis)",
   "if export:\n    export_aligned(sql)",
   "return sql"] := by rfl

theorem align_interface_steps_pinned : GenD.align_interface_steps =
  ["if not isinstance(ppi, interface):\n    sql = interface(ppi)\nelse:\n    sql = ppi",
   "index_contact = sql.get_contact_atoms(**kwargs)",
   "row_id = []",
   "for _, v in index_contact.items():\n    row_id += v",
   "xyz = np.array(sql.get('x,y,z', rowID=row_id))",
   "vect = get_min_pca_vect(xyz)",
   "dict_plane = {'xy': 'z', 'xz': 'y', 'yz': 'x'}",
   "sql = align_pca_vect(sql, vect, dict_plane[plane])",
   "if export:\n    export_aligned(sql)",
   "return sql"] := by rfl

theorem align_pca_vect_steps_pinned : GenD.align_pca_vect_steps =
  ["phi, theta = get_rotation_angle(vect)",
   "xyz = np.array(sql.get('x,y,z'))",
   "xyz = _align_along_axis(xyz, axis, phi, theta)",
   "sql.update('x,y,z', xyz)",
   "return sql"] := by rfl

theorem export_aligned_steps_pinned : GenD.export_aligned_steps =
  ["if isinstance(sql.pdbfile, str):\n    fname = sql.pdbfile.rstrip('.pdb') + '_aligned.pdb'\nelse:\n    fname = 'aligned_structure.pdb'",
   "sql.exportpdb(fname)"] := by rfl

theorem align_along_axis_else_pinned : GenD.align_along_axis_else =
  ["raise ValueError('axis should be x, y ,or z')",
   "return xyz"] := by rfl

end Pins.D
