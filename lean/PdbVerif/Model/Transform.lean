/-
  Hand model of `pdb2sql/transform.py` (cluster D, property C10).  The matrices are the translated ones
  (`Gen.rodrigues`, `Gen.euler_mat`); the glue follows the statements pinned in `Pins/D.lean`
  (`Gen.rotate_return`, `Gen.rotate_default_center`, `GenD.translation_steps`, `GenD.rot_axis_steps`, …).
  Database level: a table is a list of `Py.Atom`, rowID = position; a selection is a predicate on
  (rowID, atom); `transform = update 'x,y,z' (f (get 'x,y,z' sel)) sel`.  Core Lean only.
-/
import PdbVerif.Py.Mat
import PdbVerif.Py.Str
import PdbVerif.Py.Atom
import PdbVerif.Gen.Mat
import PdbVerif.Model.Superpose

namespace Model
open Py

section
variable {α : Type} [Add α] [Sub α] [Mul α] [Neg α] [Div α] [NatCast α]
  [OfNat α 0] [OfNat α 1] [OfNat α 2]

/-- `rotate(xyz, rot_mat, center)`: `center = np.mean(xyz, 0)` when `None`, then
    `np.dot(rot_mat, (xyz - center).T).T + center` -/
def rotate (M : Mat3 α) (center : Option (Vec3 α)) (X : List (Vec3 α)) : List (Vec3 α) :=
  let c := match center with
    | none => mean X                                    -- if center is None: center = np.mean(xyz, 0)
    | some c => c
  rotateAbout M c X                                     -- return np.dot(rot_mat, (xyz - center).T).T + center

/-- `xyz += vect` -/
def translate (v : Vec3 α) (X : List (Vec3 α)) : List (Vec3 α) := X.map (fun p => Vec3.add p v)

/-- `rot_xyz_around_axis(xyz, axis, angle, center)` with `ct, st = np.cos(angle), np.sin(angle)` -/
def rotAxis (ct st : α) (u : Vec3 α) (center : Option (Vec3 α)) (X : List (Vec3 α)) : List (Vec3 α) :=
  rotate (Gen.rodrigues ct st u.x u.y u.z) center X

/-- `rotation_euler(xyz, alpha, beta, gamma, center)` with the six trig values -/
def rotEuler (ca sa cb sb cg sg : α) (center : Option (Vec3 α)) (X : List (Vec3 α)) : List (Vec3 α) :=
  rotate (Gen.euler_mat ca sa cb sb cg sg) center X

/-- `get_rot_axis_angle`: `theta = 2π·u1`, `phi = arccos(2·u2 − 1)`, axis from the trig values of
    `theta` and `phi`, `angle = 2π·u3` -/
def randAxis (ct st cp sp : α) : Vec3 α := ⟨sp * ct, sp * st, cp⟩
def randAngle (twoPi u3 : α) : α := twoPi * u3

end

/-! ### database level -/

abbrev Sel := Nat → Atom → Bool

def atomXYZ (a : Atom) : Vec3 Rat := ⟨a.x, a.y, a.z⟩
def atomSetXYZ (a : Atom) (v : Vec3 Rat) : Atom := { a with x := v.x, y := v.y, z := v.z }

/-- `db.get('x,y,z', **sel)`: the coordinates of the selected rows, in rowID order (rows from `i` on) -/
def getFrom (sel : Sel) (i : Nat) : List Atom → List (Vec3 Rat)
  | [] => []
  | a :: db => if sel i a then atomXYZ a :: getFrom sel (i + 1) db else getFrom sel (i + 1) db

def getXYZ (sel : Sel) (db : List Atom) : List (Vec3 Rat) := getFrom sel 0 db

/-- the `executemany('UPDATE ATOM SET x=?, y=?, z=? WHERE rowID=?')` of `update`: the k-th value row goes
    to the k-th selected row -/
def updFrom (sel : Sel) (i : Nat) : List Atom → List (Vec3 Rat) → List Atom
  | [], _ => []
  | a :: db, vals =>
    if sel i a then
      match vals with
      | v :: vs => atomSetXYZ a v :: updFrom sel (i + 1) db vs
      | [] => a :: updFrom sel (i + 1) db []
    else a :: updFrom sel (i + 1) db vals

/-- `db.update('x,y,z', values, **sel)`: `values[0]` on an empty array raises `IndexError`; a row count
    different from the selection raises `ValueError` -/
def updateXYZ (sel : Sel) (vals : List (Vec3 Rat)) (db : List Atom) : Except Err (List Atom) :=
  if vals.length = 0 then .error .indexError
  else if (getXYZ sel db).length ≠ vals.length then .error .valueError
  else .ok (updFrom sel 0 db vals)

inductive Transform
  | translation (v : Vec3 Rat)
  | rotAxis (ct st : Rat) (u : Vec3 Rat)
  | rotEuler (ca sa cb sb cg sg : Rat)
  | rotMat (M : Mat3 Rat)

/-- what the transform does to the array returned by `_get_xyz` (centre always the default one: the
    database-level functions do not take a centre) -/
def Transform.onXYZ : Transform → List (Vec3 Rat) → List (Vec3 Rat)
  | .translation v => translate v
  | .rotAxis ct st u => Model.rotAxis ct st u none
  | .rotEuler ca sa cb sb cg sg => Model.rotEuler ca sa cb sb cg sg none
  | .rotMat M => rotate M none

/-- error raised on an empty selection before anything is written: `xyz += vect` cannot broadcast
    (ValueError); `np.mean` of an empty array is not a list/array centre (TypeError) -/
def Transform.emptyErr : Transform → Err
  | .translation _ => .valueError
  | _ => .typeError

/-- `translation / rot_axis / rot_euler / rot_mat (db, …, **sel)`:
    `xyz = _get_xyz(db, **sel); xyz = f(xyz); _update(db, xyz, **sel)` -/
def transform (t : Transform) (sel : Sel) (db : List Atom) : Except Err (List Atom) :=
  let xyz := getXYZ sel db
  if xyz.length = 0 then .error t.emptyErr
  else updateXYZ sel (t.onXYZ xyz) db

/-- a finite composition of transforms, each with its own selection; stops at the first error -/
def transformSeq : List (Transform × Sel) → List Atom → Except Err (List Atom)
  | [], db => .ok db
  | (t, sel) :: rest, db =>
    match transform t sel db with
    | .error e => .error e
    | .ok db' => transformSeq rest db'

end Model
