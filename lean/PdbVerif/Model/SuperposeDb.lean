/-
  Hand-written executable model of `superpose.superpose` and `superpose.get_intersection` (/repo/pdb2sql/superpose.py)
  together with the parts of `many2sql` they reach (`__init__`, `__call__`, `get_intersection`: /repo/pdb2sql/many2sql.py),
  following the code's control flow.

  * a database is its ATOM table (`List Py.Atom`, rowID = position) plus the `pdbfile` attribute;
  * `**kwargs` is the selection predicate it denotes (C03) plus the flag "`name` was given";
  * `superpose_selection` is `Model.superposeSelection` (Model/Superpose.lean, pinned by `Gen.superpose_selection_steps`);
    the rotation kernel `get_rotation_matrix(·,·,method)` is a parameter (C06 is about it);
  * `sql2pdb` = `Gen.data2pdb_line` per row; re-reading text = `Model.parse`; the `INNER JOIN` of `many2sql.get_intersection`
    is a nested loop over the two tables (SQLite's row order is unspecified: consumers treat the result as a multiset);
  * the exported file is an effect: (file name, lines written).
  No Mathlib.
-/
import PdbVerif.Model.Superpose
import PdbVerif.Model.Fnat
import PdbVerif.Gen.Consts
import PdbVerif.Gen.Str

namespace Model.SupDb
open Py Model

abbrev V := Vec3 Rat

def pos (a : Atom) : V := ⟨a.x, a.y, a.z⟩
def setPos (a : Atom) (v : V) : Atom := { a with x := v.x, y := v.y, z := v.z }

/-- `atom_id = 'name,resName,resSeq,chainID'` -/
def atomId (a : Atom) : Str × Str × Int × Str := (a.name, a.resName, a.resSeq, a.chainID)

structure Db where
  rows : List Atom
  /-- `self.pdbfile` when it is a path (`none`: the database was built from lines, `os.path.basename` raises `TypeError`) -/
  pdbfile : Option Str

structure Args where
  /-- `only_backbone` -/
  onlyBackbone : Bool
  /-- `export` -/
  doExport : Bool
  /-- `'name' in kwargs` -/
  nameGiven : Bool
  /-- the rows `get(..., **kwargs)` selects -/
  sel : Atom → Bool

/-- `backbone_atoms = ['CA', 'C', 'N', 'O']` -/
def backboneNames : List Str := Gen.superpose_backbone.map String.toList

/-- `kwargs` after `if only_backbone: …` -/
def selection (a : Args) : Except Err (Atom → Bool) :=
  if a.onlyBackbone then
    if a.nameGiven then throw Err.valueError          -- raise ValueError('Atom type specified but only_backbone == True')
    else pure (fun x => a.sel x && decide (x.name ∈ backboneNames))   -- kwargs['name'] = backbone_atoms
  else pure a.sel

/-! ### `get_intersection` -/

/-- `db.sql2pdb()` / `sql2pdb(tablename=n, **kwargs)` on the rows it selects -/
def sql2pdb (t : List Atom) : Except Err (List Str) := t.mapM Gen.data2pdb_line

/-- `_create_table(pdb_data)` on a list of lines (`read_pdb` looks at `pdbfile[0]`) -/
def readTable (lines : List Str) : Except Err (List Atom) :=
  if lines.isEmpty then throw Err.indexError else Fnat.tableOfLines lines

/-- `table1.k = table2.k` for a column name as written in `match` (SQL identifiers are case-insensitive: the spellings
    used in the sources are listed) -/
def keyEq (k : String) (a b : Atom) : Bool :=
  if k = "name" then a.name == b.name
  else if k = "resname" || k = "resName" then a.resName == b.resName
  else if k = "resSeq" || k = "resseq" then a.resSeq == b.resSeq
  else if k = "chainID" || k = "chainid" then a.chainID == b.chainID
  else if k = "serial" then a.serial == b.serial
  else if k = "altLoc" || k = "altloc" then a.altLoc == b.altLoc
  else if k = "iCode" || k = "icode" then a.iCode == b.iCode
  else if k = "element" then a.element == b.element
  else if k = "model" then a.model == b.model
  else false

def matchKeys (a b : Atom) : Bool := Gen.match_default.all (fun k => keyEq k a b)

/-- the two re-exported, re-read selections that `manydb(**kwargs)` holds -/
def reexportSel (sel : Atom → Bool) (t : List Atom) : Except Err (List Atom) := do
  let l ← sql2pdb t                                   -- db.sql2pdb()
  let t1 ← readTable l                                -- many2sql(pdbdata): one table per structure
  let s ← sql2pdb (t1.filter sel)                     -- manydb(**kwargs): pdb_data = self.sql2pdb(tablename=n, **kwargs)
  readTable s                                         --                   new_db._create_table(pdb_data, tablename=n)

/-- `select ATOM.x, …, ATOM1.x, … from ATOM INNER JOIN ATOM1 on <match keys>`: the joined rows as coordinate pairs -/
def join (u1 u2 : List Atom) : List (V × V) :=
  u1.flatMap (fun a => (u2.filter (fun b => matchKeys a b)).map (fun b => (pos a, pos b)))

/-- `get_intersection(db1, db2, **kwargs)`.  (Order of evaluation in the source: both exports, both tables, then per table
    the selected export and its table; the errors of the model appear in the same order.) -/
def getIntersection (mob tar : List Atom) (sel : Atom → Bool) : Except Err (List (V × V)) := do
  let l1 ← sql2pdb mob
  let l2 ← sql2pdb tar
  let t1 ← readTable l1
  let t2 ← readTable l2
  let s1 ← sql2pdb (t1.filter sel)
  let u1 ← readTable s1
  let s2 ← sql2pdb (t2.filter sel)
  let u2 ← readTable s2
  pure (join u1 u2)

/-! ### pairing -/

/-- the two coordinate lists handed to `superpose_selection` -/
def matched (mob tar : List Atom) (sel : Atom → Bool) : Except Err (List V × List V) :=
  let selMob := mob.filter sel                        -- selection_mobile = np.array(sql_mobile.get("x,y,z", **kwargs))
  let selTar := tar.filter sel                        -- selection_target = np.array(sql_target.get("x,y,z", **kwargs))
  -- if sql_mobile.get(atom_id, **kwargs) != sql_target.get(atom_id, **kwargs):
  if selMob.map atomId ≠ selTar.map atomId then do
    let pairs ← getIntersection mob tar sel           --   selection_mobile, selection_target = get_intersection(...)
    pure (pairs.map (·.1), pairs.map (·.2))
  else pure (selMob.map pos, selTar.map pos)

/-! ### export -/

/-- `os.path.basename` -/
def basename (p : Str) : Str := ((splitOn '/' p).getLast?).getD []

/-- `s.rstrip('.pdb')`: trailing characters from the set {'.', 'p', 'd', 'b'} are removed -/
def rstripPdb (s : Str) : Str := (s.reverse.dropWhile (fun c => c = '.' || c = 'p' || c = 'd' || c = 'b')).reverse

/-- `mobile_name + '_superposed_on_' + target_name + '.pdb'` -/
def exportName (mobile target : Str) : Str :=
  rstripPdb (basename mobile) ++ "_superposed_on_".toList ++ rstripPdb (basename target) ++ ".pdb".toList

/-- a file written: name and the lines written (each followed by a newline) -/
abbrev FileEffect := Str × List Str

structure Out where
  /-- the table of the mobile database after the call -/
  mobile : List Atom
  /-- the table of the target database after the call -/
  target : List Atom
  files : List FileEffect
  deriving DecidableEq, Repr

/-- `if export: …` -/
def exportFiles (mob tar : Db) (doExport : Bool) (mobile' : List Atom) : Except Err (List FileEffect) :=
  if doExport then
    match tar.pdbfile, mob.pdbfile with
    | some tn, some mn => do
      let lines ← sql2pdb mobile'                     -- sql_mobile.exportpdb(fname)
      pure [(exportName mn tn, lines)]
    | _, _ => throw Err.typeError                     -- os.path.basename(<list>)  (the table was updated before)
  else pure []

/-- `superpose(mobile, target, method, only_backbone, export, **kwargs)` on two databases.
    `kernel P Q` is `get_rotation_matrix(P, Q, method)`. -/
def superpose (kernel : List V → List V → Except Err (Mat3 Rat)) (mob tar : Db) (a : Args) : Except Err Out := do
  let sel ← selection a
  let m ← matched mob.rows tar.rows sel
  -- an empty selection: `superpose_selection` still runs and calls the kernel on the (empty) arrays, and the kernel raises — the
  -- dispatch its ValueError for an unknown method, otherwise the guard `any(np.abs(np.mean(·, 0)) > eps)` a TypeError (np.mean of an
  -- empty array is a scalar nan).  The model raises what the kernel raises; a kernel that accepts the empty selection is outside it.
  if m.1.isEmpty then
    match superposeSelection kernel (mob.rows.map pos) m.1 m.2 with
    | .error e => throw e
    | .ok _ => throw (Err.unmodelled "the rotation kernel accepted an empty selection")
  -- xyz_mobile = np.array(sql_mobile.get("x,y,z")); xyz_mobile = superpose_selection(xyz_mobile, selection_mobile, selection_target, method)
  let xyzMobile ← superposeSelection kernel (mob.rows.map pos) m.1 m.2
  -- sql_mobile.update('x,y,z', xyz_mobile): row i gets the i-th triple
  let mobile' := (mob.rows.zip xyzMobile).map (fun p => setPos p.1 p.2)
  let files ← exportFiles mob tar a.doExport mobile'
  pure { mobile := mobile', target := tar.rows, files := files }

end Model.SupDb
