/-
  Hand model of the text/file export of `pdb2sql_base` (pdb2sql_base.py: `sql2pdb`, `exportpdb`):
  `sql2pdb` = one line per row (`Gen.data2pdb_line`, the translated loop body of `data2pdb`), in row order;
  `exportpdb` writes every line followed by one `'\n'`; with `append=True` the new text is appended to the
  text already in the file.  No Mathlib.
-/
import PdbVerif.Gen.Str
import PdbVerif.Model.Parse

namespace Model
open Py

/-- `data2pdb(rows)`: the lines of a table, in row order; the first row that cannot be written raises -/
def data2pdb (rows : List Atom) : Except Err (List Str) := rows.mapM Gen.data2pdb_line

/-- `exportpdb`: the text written for a list of lines — each line followed by one newline -/
def exportText (lines : List Str) : Str := lines.flatMap (· ++ ['\n'])

/-- `exportpdb(..., append=True)` onto a file that already holds `old`: concatenation of the texts -/
def appendText (old : Str) (lines : List Str) : Str := old ++ exportText lines

end Model
