/-
  C16 — hand-written effect programs of the library's routines (what the code does with files), following the
  control flow of /repo/pdb2sql/{StructureSimilarity,superpose,align,pdb2sqlcore,pdb2sql_base}.py as it is now:

    pdb2sql(p) / interface(p)   = sqlite3.connect(':memory:'); read_pdb(p)            (`loadPdb`)
    pdb2sql.read_pdb(p)         = os.path.exists(p); os.path.isfile(p); open(p,'r')   (`readPdb`)
    _write_zone(f, z)           = mkstemp in the directory of f; write; os.replace(tmp, f)   (`writeZone`)
    read_zone(f)                = os.path.isfile(f) (else FileNotFoundError); open(f,'r')     (`readZone`)
    exportpdb(f) / pickle       = open(f,'w'); write                                   (`writeFile`)
    lzone=/izone= argument      = None: compute in memory | not a file: compute, write | a file: read  (`zoneArg`)

  All pure work (parsing, zones, superposition, scores, PDB formatting) is the *uninterpreted* record `Work`:
  the theorems hold whatever those functions are.  The tie to the code is the effect-trace correspondence
  (py/props/c16.py: audit-hook traces of the real routines = `Prog.trace` of these programs, for every routine
  and option) plus the generated call list `Gen.effects` (Props/C16.lean, Pins/F.lean).
-/
import PdbVerif.Spec.C16

namespace Model.C16
open Spec.C16

/-- the routines of the property (score ×6, clashes, contacts, superpose, align) and the three helpers that write
    a requested file (reference pairs pickle, l-zone, i-zone) -/
inductive Routine
  | lrmsdFast (check : Bool)     -- compute_lrmsd_fast(lzone=…, check=check or enforce_residue_matching)
  | irmsdFast (check : Bool)     -- compute_irmsd_fast(izone=…, check=…)
  | lrmsdSql                     -- compute_lrmsd_pdb2sql(exportpath=…)
  | irmsdSql                     -- compute_irmsd_pdb2sql(izone=…, exportpath=…)
  | fnatFast                     -- compute_fnat_fast
  | fnatSql                      -- compute_fnat_pdb2sql
  | clashes                      -- compute_clashes(pdb)
  | contacts                     -- interface(pdb).get_contact_atoms / get_contact_residues
  | superpose                    -- superpose(mobile, target, export=…)
  | align                        -- align(pdb, export=…)
  | pairsRef                     -- compute_residue_pairs_ref(save_file=…, filename=…)
  | lzone                        -- compute_lzone(save_file=…, filename=…)
  | izone                        -- compute_izone(save_file=…, filename=…)
  deriving DecidableEq, Repr

/-- the pure work, uninterpreted -/
structure Work (L Z R : Type) where
  compute : Routine → List L → Z                         -- zone of the reference (compute_lzone / compute_izone)
  /-- the zone computation can FAIL on what was read (ValueError: not exactly two chains; a reference that does not parse): the
      code raises inside `compute_?zone`, i.e. after the reference is read and BEFORE `_write_zone` — nothing is written then -/
  computeErr : Routine → List L → Option Err := fun _ _ => none
  render : Z → List L                                     -- the lines `_write_zone` writes
  parse : List L → Except Err Z                           -- `read_zone`
  check : Routine → Nat → List (List L) → Except Err Unit -- chain / residue checks (stage 0, 1) that may raise before further I/O
  score : Routine → Option Z → List (List L) → Except Err R
  sameAtoms : List (List L) → Bool                        -- superpose: do the two selections hold the same atoms?
  exportLines : Routine → Nat → List (List L) → List L    -- what is written to the n-th requested output

/-- the paths of one call -/
structure Args (P : Type) where
  decoy : P                 -- decoy / mobile / the single structure
  ref : P                   -- reference / target
  zone : Option P := none   -- lzone= / izone= / filename= (a named zone file)
  tmp : P                   -- the name mkstemp picks if the zone file is written
  out1 : Option P := none   -- requested outputs: <exportpath>/…_decoy.pdb, the export=True file, the pickle
  out2 : Option P := none   -- <exportpath>/…_ref.pdb

section
variable {P L Z R : Type}

def finish : Except Err R → Prog P L R
  | .ok r => .done r
  | .error e => .fail e

/-- `pdb2sql.read_pdb(p)` for a path argument -/
def readPdb (p : P) (k : List L → Prog P L R) : Prog P L R :=
  .pathExists p fun b =>
    if b then .isFile p fun b2 => if b2 then .readAll p k else .fail .fileNotFound
    else .fail .fileNotFound

/-- `pdb2sql(p)` / `interface(p)`: `_create_sql` (in memory) then `_create_table` → `read_pdb` -/
def loadPdb (p : P) (k : List L → Prog P L R) : Prog P L R := .dbMem (readPdb p k)

inductive Rd (P : Type) | load (p : P) | read (p : P)

def Rd.path : Rd P → P
  | .load p => p
  | .read p => p

/-- a fixed sequence of structure reads; the continuation gets everything that was read, in order -/
def readSeq : List (Rd P) → (List (List L) → Prog P L R) → Prog P L R
  | [], k => k []
  | .load p :: rs, k => loadPdb p fun c => readSeq rs fun cs => k (c :: cs)
  | .read p :: rs, k => readPdb p fun c => readSeq rs fun cs => k (c :: cs)

/-- `exportpdb(f)` / `pickle.dump(…, open(f,'wb'))` -/
def writeFile (p : P) (lines : List L) (k : Prog P L R) : Prog P L R := .openTrunc p (.append p lines k)

/-- `_write_zone(f, z)`: complete temp file, then one atomic `os.replace` -/
def writeZone (tmp f : P) (lines : List L) (k : Prog P L R) : Prog P L R :=
  .createTemp tmp (.append tmp lines (.replace tmp f k))

/-- `read_zone(f)` -/
def readZone (W : Work L Z R) (f : P) (k : Z → Prog P L R) : Prog P L R :=
  .isFile f fun b =>
    if b then .readAll f fun c => match W.parse c with
      | .ok z => k z
      | .error e => .fail e
    else .fail .fileNotFound

/-- the zone-file cache of the fast routines: `elif not os.path.isfile(zone): compute, save … else: read_zone`;
    a zone computation that fails raises before anything is written -/
def withZone (W : Work L Z R) (zr : Routine) (ref f tmp : P) (k : Z → Prog P L R) : Prog P L R :=
  .isFile f fun b =>
    if b then readZone W f k
    else loadPdb ref fun rc => match W.computeErr zr rc with
      | some e => .fail e
      | none => writeZone tmp f (W.render (W.compute zr rc)) (k (W.compute zr rc))

/-- `lzone=None | <name>` (`zr` = which zone routine computes: `compute_lzone` or `compute_izone`) -/
def zoneArg (W : Work L Z R) (zr : Routine) (a : Args P) (k : Z → Prog P L R) : Prog P L R :=
  match a.zone with
  | none => loadPdb a.ref fun rc => match W.computeErr zr rc with
    | some e => .fail e
    | none => k (W.compute zr rc)
  | some f => withZone W zr a.ref f a.tmp k

/-- the two optional exports of the SQL score routines (`exportpath is not None`) -/
def export2 (W : Work L Z R) (r : Routine) (a : Args P) (obs : List (List L)) (res : Except Err R) : Prog P L R :=
  match a.out1, a.out2 with
  | some o1, some o2 => writeFile o1 (W.exportLines r 0 obs) (writeFile o2 (W.exportLines r 1 obs) (finish res))
  | _, _ => finish res

/-- one optional export (`export=True`, `save_file=True`) -/
def export1 (W : Work L Z R) (r : Routine) (a : Args P) (obs : List (List L)) (res : Except Err R) : Prog P L R :=
  match a.out1 with
  | some o => writeFile o (W.exportLines r 0 obs) (finish res)
  | none => finish res

/-- reads, a check that may raise (e.g. "chains differ"), more reads, a second check that may raise (e.g. residue
    numbering with `enforce_residue_matching`), the value -/
def checked (W : Work L Z R) (r : Routine) (z : Option Z) (first second : List (Rd P))
    (k : List (List L) → Except Err R → Prog P L R) : Prog P L R :=
  readSeq first fun o1 => match W.check r 0 o1 with
    | .error e => .fail e
    | .ok _ => readSeq second fun o2 => match W.check r 1 (o1 ++ o2) with
      | .error e => .fail e
      | .ok _ => k (o1 ++ o2) (W.score r z (o1 ++ o2))

/-- the effect program of each routine -/
def prog (W : Work L Z R) (r : Routine) (a : Args P) : Prog P L R :=
  match r with
  | .lrmsdFast true => zoneArg W .lzone a fun z =>
      -- check_residues (pdb2sql(ref), pdb2sql(decoy)); get_data_zone_backbone(decoy), (ref); _get_xyz ×4
      checked W r (some z) [.load a.ref, .load a.decoy]
        [.read a.decoy, .read a.ref, .read a.decoy, .read a.ref, .read a.decoy, .read a.ref] fun _ res => finish res
  | .lrmsdFast false => zoneArg W .lzone a fun z =>
      -- get_xyz_zone_backbone(decoy), (ref)
      checked W r (some z) [] [.read a.decoy, .read a.ref] fun _ res => finish res
  | .irmsdFast true => zoneArg W .izone a fun z =>
      -- check_residues; get_data_zone_backbone(decoy), (ref); _get_xyz(decoy), (ref)
      checked W r (some z) [.load a.ref, .load a.decoy]
        [.read a.decoy, .read a.ref, .read a.decoy, .read a.ref] fun _ res => finish res
  | .irmsdFast false => zoneArg W .izone a fun z =>
      checked W r (some z) [] [.read a.decoy, .read a.ref] fun _ res => finish res
  | .lrmsdSql =>
      -- pdb2sql(decoy), pdb2sql(ref); chains must agree; check_residues (pdb2sql(ref), pdb2sql(decoy)); export
      checked W r none [.load a.decoy, .load a.ref] [.load a.ref, .load a.decoy] fun obs res => export2 W r a obs res
  | .irmsdSql =>
      -- interface(decoy), interface(ref); chains must agree; izone given: get_izone_rowID = isfile else raise; read_zone
      checked W r none [.load a.decoy, .load a.ref] [] fun obs _ =>
        match a.zone with
        | none => export2 W r a obs (W.score r none obs)
        | some f => .isFile f fun b =>
            if b then readZone W f fun z => export2 W r a obs (W.score r (some z) obs)
            else .fail .fileNotFound
  | .fnatFast => checked W r none [.load a.ref] [.read a.decoy] fun _ res => finish res
  | .fnatSql => checked W r none [.load a.decoy, .load a.ref] [] fun _ res => finish res
  | .clashes => checked W r none [.load a.decoy] [] fun _ res => finish res
  | .contacts => checked W r none [.load a.decoy] [] fun _ res => finish res
  | .superpose =>
      -- rarely taken branch: selections with different atoms -> `get_intersection` builds a many2sql of both
      -- structures and a second one for the selection (two more in-memory databases, no file)
      checked W r none [.load a.decoy, .load a.ref] [] fun obs res =>
        if W.sameAtoms obs then export1 W r a obs res else .dbMem (.dbMem (export1 W r a obs res))
  | .align => checked W r none [.load a.decoy] [] fun obs res => export1 W r a obs res
  | .pairsRef => checked W r none [.load a.ref] [] fun obs res => export1 W r a obs res
  | .lzone | .izone =>
      -- compute_?zone(save_file, filename): pdb2sql/interface(ref); `_write_zone` when a name is given
      checked W r none [.load a.ref] [] fun obs res =>
        match a.zone, obs with
        | some f, rc :: _ => writeZone a.tmp f (W.render (W.compute r rc)) (finish res)
        | _, _ => finish res

/-- the roles of the paths of one call: structures are inputs, the named zone file is the cache,
    mkstemp's name is the run's own temp, export files are requested outputs -/
structure Args.Roles (role : P → Role) (a : Args P) : Prop where
  decoy : role a.decoy = .input
  ref : role a.ref = .input
  zone : ∀ f, a.zone = some f → role f = .cache
  tmp : role a.tmp = .temp
  out1 : ∀ o, a.out1 = some o → role o = .output
  out2 : ∀ o, a.out2 = some o → role o = .output

/-- the zone routine a fast score routine calls when it is given a zone file -/
def zoneRoutine : Routine → Option Routine
  | .lrmsdFast _ => some .lzone
  | .irmsdFast _ => some .izone
  | _ => none

/-- the requested outputs of one call -/
def Args.outs (a : Args P) : P → Prop := fun o => a.out1 = some o ∨ a.out2 = some o

/-- **the concurrent scenario of the property**: `calls` are computations started in one working directory `fs₀`;
    each is any routine without a zone file, or a fast score routine (`zr` = l-zone or i-zone flavour) given the
    *shared* zone file `cache` over the common reference `ref` (the documented decoy-ranking loop).
    Side conditions: structures are inputs (nobody writes them); `mkstemp` gives every call a name that is new
    (absent, different from everybody else's, not an input, not the cache); requested outputs are not inputs, not the
    cache, not a temp name; the zone that is computed and written can be read back (`read_zone (write_zone z) = z` for the zones of
    this reference: C09 `read_write_zone`; false only for the chain identifier `-`, finding C09-F4). -/
structure SharedZoneDir (fs₀ : FS P L) (isInput : P → Prop) (ref cache : P) (zr : Routine)
    (calls : List (Routine × Args P)) : Prop where
  cache_not_input : ¬ isInput cache
  inputs : ∀ c ∈ calls, isInput c.2.decoy ∧ isInput c.2.ref
  zone : ∀ c ∈ calls, c.2.zone = none ∨ (c.2.zone = some cache ∧ zoneRoutine c.1 = some zr ∧ c.2.ref = ref)
  tmp_fresh : ∀ c ∈ calls, fs₀ c.2.tmp = none ∧ ¬ isInput c.2.tmp ∧ c.2.tmp ≠ cache
  tmp_distinct : ∀ (i j : Nat) (ci cj : Routine × Args P), calls[i]? = some ci → calls[j]? = some cj → i ≠ j → ci.2.tmp ≠ cj.2.tmp
  outs : ∀ c ∈ calls, ∀ o, c.2.outs o → ¬ isInput o ∧ o ≠ cache ∧ ∀ c' ∈ calls, o ≠ c'.2.tmp

/-- the directory conditions plus: the zone that is computed and written can be read back -/
structure SharedZoneRun (W : Work L Z R) (fs₀ : FS P L) (isInput : P → Prop) (ref cache : P) (zr : Routine)
    (calls : List (Routine × Args P)) : Prop extends SharedZoneDir fs₀ isInput ref cache zr calls where
  roundtrip : ∀ rc, W.parse (W.render (W.compute zr rc)) = .ok (W.compute zr rc)

/-! ### the writer of the pinned tree (kept for the regression theorem): zone file written in place -/

/-- old `compute_?zone(save_file=True)`: `f = open(filename,'w')`, one `write` per zone line, `close` -/
def writeZoneInPlace (f : P) (lines : List L) (k : Prog P L R) : Prog P L R :=
  .openTrunc f (lines.foldr (fun l k => .append f [l] k) k)

def withZoneInPlace (W : Work L Z R) (zr : Routine) (ref f : P) (k : Z → Prog P L R) : Prog P L R :=
  .isFile f fun b =>
    if b then readZone W f k
    else loadPdb ref fun rc => writeZoneInPlace f (W.render (W.compute zr rc)) (k (W.compute zr rc))

/-- old `_create_sql` with a file name: `if isfile(f): sp.call('rm %s' % f, shell=True)`; `sqlite3.connect(f)` -/
def openDbOld [DecidableEq P] (f : P) (k : Prog P L R) : Prog P L R :=
  .isFile f fun b => if b then .shell (fun fs => fs.set f none) (.dbOpen f k) else .dbOpen f k

/-- old `compute_lrmsd_pdb2sql`: scratch databases with fixed names in the working directory
    (`pdb2sql(decoy, sqlfile='decoy.db')`, `pdb2sql(ref, sqlfile='ref.db')`), removed by `os.system('rm …')` on close -/
def lrmsdSqlFixedScratch [DecidableEq P] (W : Work L Z R) (a : Args P) (decoyDb refDb : P) : Prog P L R :=
  openDbOld decoyDb (readPdb a.decoy fun d => openDbOld refDb (readPdb a.ref fun rc =>
    .shell (fun fs => fs.set decoyDb none) (.shell (fun fs => fs.set refDb none)
      (finish (W.score .lrmsdSql none [d, rc])))))

end
end Model.C16
