/-
  From the pair lists to the number: what `superpose_selection` followed by `get_rmsd` computes from the pairs a routine
  hands over (StructureSimilarity.py, superpose.py), over any field — `Rat` when executed, `ℝ` in the theorems.  The
  rotation kernel (`get_rotation_matrix`) is a parameter; the glue is cluster D's `Model.superposeSelection`, which
  follows the translated statement list `Gen.superpose_selection_steps`; the last step follows `Gen.get_rmsd_steps`
  (`n = len(P)`; `round(np.sqrt(1.0 / n * np.sum((P - Q) ** 2)), 3)`): the RADICAND `1/n · Σ‖P − Q‖²` is returned, the
  square root and the rounding to three decimals are applied by the caller.  Core Lean only.
-/
import PdbVerif.Model.Superpose

namespace Model.Rmsd
open Py Model

section
variable {α : Type} [Add α] [Sub α] [Mul α] [Neg α] [Div α] [NatCast α]
  [OfNat α 0] [OfNat α 1] [OfNat α 2] [LT α] [DecidableLT α]

/-- `np.sum((P - Q) ** 2)` -/
def sumSq : List (Vec3 α) → List (Vec3 α) → α
  | p :: P, q :: Q => Vec3.normSq (Vec3.sub p q) + sumSq P Q
  | _, _ => 0

/-- `1.0 / n * np.sum((P - Q) ** 2)` with `n = len(P)` -/
def meanSq (P Q : List (Vec3 α)) : α := 1 / ((P.length : Nat) : α) * sumSq P Q

/-- the radicand of the value a routine returns for the fitting pairs `fit` and the evaluation pairs `eval`
    (pairs = (decoy point, reference point)):
    `xyz = superpose_selection(eval_decoy, fit_decoy, fit_ref, method)`; `get_rmsd(xyz, eval_ref)` -/
def radicand (rotmat : List (Vec3 α) → List (Vec3 α) → Except Err (Mat3 α))
    (fit eval : List (Vec3 α × Vec3 α)) : Except Err α :=
  match superposeSelection rotmat (eval.map (·.1)) (fit.map (·.1)) (fit.map (·.2)) with
  | .error e => .error e
  | .ok xyz => .ok (meanSq xyz (eval.map (·.2)))

end
end Model.Rmsd
