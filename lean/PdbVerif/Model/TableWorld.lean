/-
  Model of the derivations between database objects: `pdb2sql.__call__`, `many2sql.__call__`,
  `interface.__init__(pdb2sql)`, `many2sql.__init__([pdb2sql, …])` — each exports the selected rows as PDB text
  (`sql2pdb`) and parses it into a NEW object with its own connection.  `roundtrip` = parse ∘ format on tables
  (cluster A models it; here it is a parameter).
-/
import PdbVerif.Model.Table
import PdbVerif.Spec.C15

namespace Model
open Tbl

abbrev World := List Obj

/-- `sql2pdb(tablename=tn, **kw)` as rows: the selected rows of that table, in table order (`get` of all the
    standard columns; the selection is the one `get('rowID', …)` makes) -/
def exportRows (db : Db) (tn : Py.Str) (kw : List Kw) : Except Err Table :=
  match findTab db tn with
  | none => .error (if kw.isEmpty then .operational else .valueError)
  | some tab =>
    match get db rowIDName tn kw >>= asInts with
    | .error e => .error e
    | .ok ids => .ok (ids.filterMap (fun i => if i < 0 then none else tab.rows[i.toNat]?))

/-- `pdb2sql(pdb_data, tablename=…)` / `_create_table(pdb_data, …)`: an empty list of lines raises IndexError -/
def newTable (roundtrip : Table → Table) (name : Py.Str) (rows : Table) : Except Err Tab :=
  if rows.isEmpty then .error .indexError else .ok { name := name, rows := roundtrip rows }

def atomName : Py.Str := "atom".toList

/-- table names of `many2sql([...])`: ATOM, ATOM1, ATOM2, … -/
def manyName (i : Nat) : Py.Str := if i = 0 then "ATOM".toList else "ATOM".toList ++ Py.decDigits i

/-- the new object of a derivation (`none`: the derivation raised) -/
def derive (roundtrip : Table → Table) (w : World) : WOp → Except Err Obj
  | .modify _ _ => .error (.unmodelled "not a derivation")
  | .deriveSub k kw =>
    match w[k]? with
    | none => .error .indexError
    | some o =>
      match o.kind with
      | .single =>
        -- `pdb_data = self.sql2pdb(tablename=names[0], **kwargs); pdb2sql(pdb_data, tablename=names[0])`
        match o.db.tabs with
        | [] => .error .indexError
        | t0 :: _ =>
          match exportRows o.db t0.name kw with
          | .error e => .error e
          | .ok rows =>
            match newTable roundtrip t0.name rows with
            | .error e => .error e
            | .ok tab => .ok { kind := .single, db := { tabs := [tab] } }
      | .many =>
        -- one table per table of the source, same names
        match o.db.tabs.mapM (fun t => exportRows o.db t.name kw >>= newTable roundtrip t.name) with
        | .error e => .error e
        | .ok tabs => if tabs.isEmpty then .error .indexError else .ok { kind := .many, db := { tabs := tabs } }
  | .deriveInterface k =>
    match w[k]? with
    | none => .error .indexError
    | some o =>
      match exportRows o.db atomName [] with
      | .error e => .error e
      | .ok rows =>
        match newTable roundtrip atomName rows with
        | .error e => .error e
        | .ok tab => .ok { kind := .single, db := { tabs := [tab] } }
  | .deriveMany ks =>
    match ks.zipIdx.mapM (fun (ki : Nat × Nat) =>
        match w[ki.1]? with
        | none => (Except.error Err.indexError : Except Err Tab)
        | some o => exportRows o.db atomName [] >>= newTable roundtrip (manyName ki.2)) with
    | .error e => .error e
    | .ok tabs => if tabs.isEmpty then .error .indexError else .ok { kind := .many, db := { tabs := tabs } }

/-- one step of a history: a modification changes object k only; a derivation appends a new object -/
def wstep (roundtrip : Table → Table) (w : World) (op : WOp) : World × Except Err Unit :=
  match op with
  | .modify k m =>
    match w[k]? with
    | none => (w, .error .indexError)
    | some o =>
      let r := step o.db m
      (w.set k { o with db := r.1 }, r.2)
  | d =>
    match derive roundtrip w d with
    | .error e => (w, .error e)
    | .ok o => (w ++ [o], .ok ())

def wrun (roundtrip : Table → Table) (w : World) (ops : List WOp) : World :=
  ops.foldl (fun w op => (wstep roundtrip w op).1) w

end Model
