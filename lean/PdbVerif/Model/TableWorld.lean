/-
  Model of the derivations between database objects: `pdb2sql.__call__`, `many2sql.__call__`,
  `interface.__init__(pdb2sql)`, `many2sql.__init__([pdb2sql, …])` — each exports the selected rows as PDB text
  (`sql2pdb`) and parses it into a NEW object with its own connection.  `roundtrip` = parse ∘ format on tables
  (cluster A models it; here it is a parameter).
-/
import PdbVerif.Model.Table
import PdbVerif.Model.MicroSql
import PdbVerif.Spec.C15

namespace Model
open Tbl

abbrev World := List Obj

/-- `sql2pdb(tablename=tn, **kw)` as rows: the selected rows of that table, in table order (`get` of all the
    standard columns; the selection is the one `get('rowID', …)` makes) -/
def exportRows (db : Db) (tn : Py.Str) (kw : List Kw) : Except Err Table :=
  match findTab db tn with
  | none => .error (if kw.isEmpty then .operational else .valueError)
  | some tab =>
    match get db rowIDName tn kw >>= asInts with
    | .error e => .error e
    | .ok ids => .ok (ids.filterMap (fun i => if i < 0 then none else tab.rows[i.toNat]?))

/-- `pdb2sql(pdb_data, tablename=…)` / `_create_table(pdb_data, …)`: an empty list of lines raises IndexError -/
def newTable (roundtrip : Table → Table) (name : Py.Str) (rows : Table) : Except Err Tab :=
  if rows.isEmpty then .error .indexError else .ok { name := name, rows := roundtrip rows }

def atomName : Py.Str := "atom".toList

/-- table names of `many2sql([...])`: ATOM, ATOM1, ATOM2, … -/
def manyName (i : Nat) : Py.Str := if i = 0 then "ATOM".toList else "ATOM".toList ++ Py.decDigits i

/-- the new object of a derivation (`none`: the derivation raised) -/
def derive (roundtrip : Table → Table) (w : World) : WOp → Except Err Obj
  | .modify _ _ => .error (.unmodelled "not a derivation")
  | .deriveSub k kw =>
    match w[k]? with
    | none => .error .indexError
    | some o =>
      match o.kind with
      | .single =>
        -- `pdb_data = self.sql2pdb(tablename=names[0], **kwargs); pdb2sql(pdb_data, tablename=names[0])`
        match o.db.tabs with
        | [] => .error .indexError
        | t0 :: _ =>
          match exportRows o.db t0.name kw with
          | .error e => .error e
          | .ok rows =>
            match newTable roundtrip t0.name rows with
            | .error e => .error e
            | .ok tab => .ok { kind := .single, db := { tabs := [tab] } }
      | .many =>
        -- one table per table of the source, same names; with no table at all (never the case for an object the library built) the
        -- loop of `many2sql.__call__` does not run and `return new_db` reads an unbound local: UnboundLocalError (this exception
        -- class has no constructor of its own in `Model.Err`; the generated code names it the same way)
        match o.db.tabs.mapM (fun t => exportRows o.db t.name kw >>= newTable roundtrip t.name) with
        | .error e => .error e
        | .ok tabs => if tabs.isEmpty then .error (.unmodelled "UnboundLocalError") else .ok { kind := .many, db := { tabs := tabs } }
  | .deriveInterface k =>
    match w[k]? with
    | none => .error .indexError
    | some o =>
      match exportRows o.db atomName [] with
      | .error e => .error e
      | .ok rows =>
        match newTable roundtrip atomName rows with
        | .error e => .error e
        | .ok tab => .ok { kind := .single, db := { tabs := [tab] } }
  | .deriveMany ks =>
    match ks.zipIdx.mapM (fun (ki : Nat × Nat) =>
        match w[ki.1]? with
        | none => (Except.error Err.indexError : Except Err Tab)
        | some o => exportRows o.db atomName [] >>= newTable roundtrip (manyName ki.2)) with
    | .error e => .error e
    | .ok tabs => if tabs.isEmpty then .error .indexError else .ok { kind := .many, db := { tabs := tabs } }

/-! ### `many2sql([...], tablenames=[...])`: user-given table names -/

/-- the punctuation string of the clean-up loop of `_create_table` (`for c in "!@#…": tablename = tablename.replace(c, '_')`; the
    translated loop is `GenP._create_table_for_c`, Proofs/GenParseLoop.lean `cleanName_chars`; Proofs/GenManyNamed.lean ties the two) -/
def tablePunct : Py.Str :=
  ['!', '@', '#', '$', '%', '^', '&', '*', '(', ')', '[', ']', '{', '}', ';', ':', ',', '.', '/', '<', '>', '?', '\\', '|', '`', '~', '-', '=', '_', '+']

/-- the table name `_create_table` hands to SQLite -/
def cleanTableName (tn : Py.Str) : Py.Str := tn.map (fun c => if c ∈ tablePunct then '_' else c)

/-- `CREATE TABLE <name>` on the database built so far: the cleaned name must be a plain word (anything else — blanks, a leading digit,
    a reserved word of SQL — is a syntax error of SQLite and outside the model) and must not exist yet (SQL identifiers compare
    case-insensitively): sqlite3.OperationalError `table … already exists`; then the rows: no line at all is IndexError (`read_pdb`) -/
def addNamedTable (roundtrip : Table → Table) (db : Db) (name : Py.Str) (rows : Table) : Except Err Db :=
  let tn := cleanTableName name
  if !MicroSql.isName tn then .error (.unmodelled "table name that is not a plain word after the clean-up")
  else if (findTab db tn).isSome then .error .operational
  else match newTable roundtrip tn rows with
    | .error e => .error e
    | .ok t => .ok { db with tabs := db.tabs ++ [t] }

/-- the structures one after the other: the structure is exported first (`convert_input`), THEN its name is looked up (fewer names
    than structures: IndexError), then the table is created; surplus names are never looked at -/
def manyNamedRest (roundtrip : Table → Table) : Db → List Db → List Py.Str → Except Err Db
  | db, [], _ => .ok db
  | db, src :: rest, names =>
    match exportRows src atomName [] with
    | .error e => .error e
    | .ok rows =>
      match names with
      | [] => .error .indexError
      | n :: ns =>
        match addNamedTable roundtrip db n rows with
        | .error e => .error e
        | .ok db' => manyNamedRest roundtrip db' rest ns

/-- `many2sql([db₁, db₂, …], tablenames=[n₁, n₂, …])` for database objects `dbᵢ` and names that are `str`s (the TypeErrors of the
    other shapes are statements of the translated `__init__`): the new object holds one table per structure, in input order, under
    the names as given (cleaned); no structure at all is IndexError (`pdbfiles[0]`) -/
def manyNamed (roundtrip : Table → Table) (srcs : List Db) (names : List Py.Str) : Except Err Db :=
  match srcs with
  | [] => .error .indexError
  | _ => manyNamedRest roundtrip { tabs := [] } srcs names

/-- one step of a history: a modification changes object k only; a derivation appends a new object -/
def wstep (roundtrip : Table → Table) (w : World) (op : WOp) : World × Except Err Unit :=
  match op with
  | .modify k m =>
    match w[k]? with
    | none => (w, .error .indexError)
    | some o =>
      let r := step o.db m
      (w.set k { o with db := r.1 }, r.2)
  | d =>
    match derive roundtrip w d with
    | .error e => (w, .error e)
    | .ok o => (w ++ [o], .ok ())

def wrun (roundtrip : Table → Table) (w : World) (ops : List WOp) : World :=
  ops.foldl (fun w op => (wstep roundtrip w op).1) w

end Model
