/-
  Data-flow models of the RMSD routines of /repo/pdb2sql/StructureSimilarity.py — shared parts (cluster E: C07, C11).

  What is modelled: which atoms of decoy and reference are selected, how they are paired, in which order the
  coordinates are handed to the numeric kernel, and which exception is raised when.  The numeric kernel itself
  (`superpose_selection` / `get_rotation_matrix` / `get_rmsd`) is NOT executed here (SVD / eig are not rational
  functions): a successful run returns the two ordered lists of coordinate pairs — the pairs used for FITTING and
  the pairs used for EVALUATION — each coordinate tagged with the identity key of the record it was read from
  (provenance; the code does not carry it, the theorems use it to say "paired by identity").  The value returned by
  the library is then `round(sqrt(msd of the evaluation pairs after the optimal superposition of the fitting pairs), 3)`.

  Python floats are the exact decimal rationals of the text (`float(line[30:38])`); `dict`s are association lists in
  insertion order (`Model.Dict`); a Python `set` of keys is a list used only through membership.
  Core Lean only (the driver imports this file).
-/
import PdbVerif.Py.Atom
import PdbVerif.Py.Num
import PdbVerif.Py.List
import PdbVerif.Py.Mat
import PdbVerif.Gen.Consts
import PdbVerif.Gen.Str
import PdbVerif.Model.Contacts

namespace Model.Rmsd
open Py Model

/-- a coordinate triple -/
abbrev P3 := Vec3 Rat
/-- the identity of an atom as the routines see it: `(chainID, resSeq, name)` -/
abbrev Key := Str × Int × Str
/-- a coordinate with the key of the record it was read from -/
abbrev Pt := Key × P3
/-- one (decoy, reference) coordinate pair handed to the kernel -/
abbrev Pair := Pt × Pt

instance instDecEqKey : DecidableEq Key := inferInstance
instance instDecEqPt : DecidableEq Pt := inferInstance
instance instDecEqPair : DecidableEq Pair := inferInstance

def keyOf (a : Atom) : Key := (a.chainID, a.resSeq, a.name)
def posOf (a : Atom) : P3 := ⟨a.x, a.y, a.z⟩
def ptOf (a : Atom) : Pt := (keyOf a, posOf a)

/-! ### Python's order on strings and tuples (explicit recursion: easy to reason about) -/

/-- `a < b` on `str`: code-point lexicographic, a proper prefix is smaller -/
def strLt : Str → Str → Bool
  | [], [] => false
  | [], _ :: _ => true
  | _ :: _, [] => false
  | a :: as, b :: bs => decide (a < b) || (decide (a = b) && strLt as bs)

/-- `a < b` on tuples `(chainID, resSeq, name)` -/
def keyLt (a b : Key) : Bool :=
  strLt a.1 b.1 || (decide (a.1 = b.1) && (decide (a.2.1 < b.2.1) || (decide (a.2.1 = b.2.1) && strLt a.2.2 b.2.2)))

/-- `a < b` on tuples `(chainID, resSeq)` -/
def crLt (a b : Str × Int) : Bool :=
  strLt a.1 b.1 || (decide (a.1 = b.1) && decide (a.2 < b.2))

/-- insertion keeping earlier-inserted equal keys first when folding from the right: `x` goes before the first
    element that is not smaller than it -/
def insertByKey {β : Type} (x : Key × β) : List (Key × β) → List (Key × β)
  | [] => [x]
  | y :: ys => if keyLt y.1 x.1 then y :: insertByKey x ys else x :: y :: ys

/-- `l.sort(key=lambda atom: atom[0])`: stable sort by key -/
def sortByKey {β : Type} : List (Key × β) → List (Key × β)
  | [] => []
  | x :: xs => insertByKey x (sortByKey xs)

/-! ### the raw-column readers (`line[21]`, `line[72]`, `int(line[22:26])`, `line[12:16].strip()`, `float(line[30:38])` …) -/

/-- `line.startswith('ATOM')` -/
def isAtomLine (line : Str) : Bool := startsWith line ['A', 'T', 'O', 'M']

/-- `chainID = line[21]; if chainID == ' ': chainID = line[72]` -/
def rawChain (line : Str) : Except Err Str := do
  let c ← getItem1 line 21
  if c = [' '] then getItem1 line 72 else pure c

/-- the statements `chainID = …; resSeq = int(line[22:26]); name = line[12:16].strip()` shared by all raw readers -/
def rawKey (line : Str) : Except Err Key := do
  let c ← rawChain line
  let rs ← parseInt (slice line 22 26)
  pure (c, rs, strip (slice line 12 16))

/-- `x = float(line[30:38]); y = float(line[38:46]); z = float(line[46:54])` -/
def rawXyz (line : Str) : Except Err P3 := do
  let x ← parseFloat (slice line 30 38)
  let y ← parseFloat (slice line 38 46)
  let z ← parseFloat (slice line 46 54)
  pure ⟨x, y, z⟩

/-- body of the loops that read key and coordinates (`_get_xyz`, `get_xyz_zone_backbone`) -/
def rawPt (line : Str) : Except Err Pt := do
  let k ← rawKey line
  let p ← rawXyz line
  pure (k, p)

/-- the keys of the ATOM lines, in file order (first failing line decides the exception) -/
def rawKeys (lines : List Str) : Except Err (List Key) := (lines.filter isAtomLine).mapM rawKey
/-- keys and coordinates of the ATOM lines, in file order -/
def rawPts (lines : List Str) : Except Err (List Pt) := (lines.filter isAtomLine).mapM rawPt

/-! ### zones -/

/-- the default `name=['C', 'CA', 'N', 'O']` of the zone helpers (`get_data_zone_backbone`, `get_xyz_zone_backbone`)
    and the literal list of `get_izone_rowID` -/
def zoneNames : List Str := Gen.zone_backbone_names.map String.toList

/-- `resData`: chain ↦ list of residue numbers -/
abbrev Zone := Dict Str (List Int)

/-- the loop `for res in data_test: … resData[chain].append(num)` -/
def zoneOfResidues (dataTest : List (Str × Int)) : Zone :=
  dataTest.foldl (fun (d : Zone) res => (d.setDefault res.1 []).extend res.1 [res.2]) []

/-- `resSeq in resData[chainID]` for a chain that is a key -/
def Zone.has (z : Zone) (chain : Str) (resSeq : Int) : Bool := (Dict.getD z chain).contains resSeq

/-- `_write_zone`: one line per residue (translated format) -/
def zoneText (dataTest : List (Str × Int)) : Except Err (List Str) := dataTest.mapM (fun r => Gen.zone_line r.1 r.2)

/-- `read_zone` on the lines of an existing file -/
def readZone (lines : List Str) : Except Err Zone :=
  lines.foldlM (fun (d : Zone) line => do
    let r ← Gen.read_zone_line line
    pure ((d.setDefault r.1 []).extend r.1 [r.2])) []

/-- where the zone comes from: `None` (computed in memory), a name that is not a file (computed, written, the
    in-memory zone is used), or an existing file (its lines are read) -/
inductive ZoneSrc
  | compute
  | write
  | read (lines : List Str)
  deriving Repr

/-- `sorted(set(data_test))` for `(chainID, resSeq)` tuples -/
def sortedResidues (l : List (Str × Int)) : List (Str × Int) := sortedSet crLt l

/-- `compute_lzone`: the residues of the long chain of the reference (`nA < nB` → second chain, ties → first) -/
def computeLzone (tref : List Atom) : Except Err (List (Str × Int)) :=
  match getChains tref with
  | [c0, c1] =>
    let nA := (chainRows tref c0).length            -- len(sql_ref.get('x,y,z', chainID=chains[0]))
    let nB := (chainRows tref c1).length
    let long := if nA < nB then c1 else c0
    .ok (sortedResidues ((chainRows tref long).map (fun r => (r.1.chainID, r.1.resSeq))))
  | _ => .error .valueError                         -- exactly two chains are needed

/-- the arguments `compute_izone` / `compute_irmsd_pdb2sql` pass to `get_contact_atoms` -/
def izoneArgs (cutoff : Rat) (c0 c1 : Str) : ContactArgs :=
  { cutoff := cutoff, allchains := false, chain1 := c0, chain2 := c1, extend := Gen.izone_extend_to_residue,
    bb := Gen.izone_only_backbone, noH := Gen.izone_excludeH, retPairs := false }

/-- `for _, v in contact_ref.items(): index_contact_ref += v` -/
def flattenContacts (d : Dict Str (List Nat)) : List Nat := d.flatMap (·.2)

/-- `sql_ref.get(cols, rowID=index, name=sql_ref.backbone_atoms)`: rows in table order -/
def backboneRowsAt (t : List Atom) (idx : List Nat) : List IRow :=
  (rowsAt t idx).filter (fun r => decide (r.1.name ∈ backbone))

/-- `compute_izone`: residues of the reference's backbone atoms in the residue-extended contact set -/
def computeIzone (tref : List Atom) (cutoff : Rat) : Except Err (List (Str × Int)) :=
  match getChains tref with
  | [c0, c1] => do
    let contact ← contactSets tref (izoneArgs cutoff c0 c1)
    let idx := flattenContacts contact
    pure (sortedResidues ((backboneRowsAt tref idx).map (fun r => (r.1.chainID, r.1.resSeq))))
  | _ => .error .valueError

/-! ### check_residues -/

/-- the selection keyword `name=[…]` (absent = every atom) -/
def nameOK (names : Option (List Str)) (a : Atom) : Bool :=
  match names with
  | none => true
  | some ns => decide (a.name ∈ ns)

/-- the tuple `(chainID, resName, resSeq)` of `get_residues` -/
abbrev Res3 := Str × Str × Int
def res3 (a : Atom) : Res3 := (a.chainID, a.resName, a.resSeq)

/-- `get_residues(**kwargs)`: distinct residues of the selected rows in order of first occurrence -/
def getResidues (t : List Atom) (names : Option (List Str)) : List Res3 :=
  distinctFirst ((t.filter (nameOK names)).map res3)

/-- `get('name', chainID=r[0], resName=r[1], resSeq=r[2], **kwargs)` -/
def residueNames (t : List Atom) (names : Option (List Str)) (r : Res3) : List Str :=
  ((t.filter (nameOK names)).filter (fun a => decide (res3 a = r))).map (·.name)

/-- `check_residues(**kwargs)`: `True`, `False` (with a warning), or `ValueError` when enforcement is on -/
def checkResidues (tdec tref : List Atom) (names : Option (List Str)) (enforce : Bool) : Except Err Bool :=
  let resRef := getResidues tref names
  let resDec := getResidues tdec names
  if resRef ≠ resDec then
    if enforce then .error .valueError else .ok false
  else
    -- for r_dec, r_ref in zip(res_dec, res_ref): first residue whose atom-name lists differ
    if (resDec.zip resRef).any (fun rr => decide (residueNames tref names rr.2 ≠ residueNames tdec names rr.1)) then
      if enforce then .error .valueError else .ok false
    else .ok true

/-! ### what a routine produces -/

/-- the outcome of one routine -/
inductive Outcome
  /-- the kernel ran on these pairs: the library returns `round(sqrt(msd(eval after fitting fit)), 3)` -/
  | value (fit eval : List Pair)
  /-- the routine raised -/
  | err (e : Err)
  deriving Repr

def Outcome.ofExcept : Except Err Outcome → Outcome
  | .ok o => o
  | .error e => .err e

/-- What `superpose_selection(evalD, fitD, fitR, method)` followed by `get_rmsd(·, evalR)` does with the SHAPES of
    its arguments when the coordinates come as Python lists (fast routines):
    * different numbers of fitting points: `ValueError` ("Matrix don't have the same number of points");
    * no fitting point: `np.mean` of an empty array is a scalar `nan`, `any(p0 > eps)` raises `TypeError`;
    * no evaluation point: `[] + tr_mobile` cannot be broadcast: `ValueError`;
    * different numbers of evaluation points: `P - Q` cannot be broadcast: `ValueError` — unless one of them is a
      single point, which NumPy broadcasts silently (outside the model). -/
def kernelLists (fitD fitR evalD evalR : List Pt) : Outcome :=
  if fitD.length ≠ fitR.length then .err .valueError
  else if fitD.length = 0 then .err .typeError
  else if evalD.length = 0 then .err .valueError
  else if evalD.length = evalR.length then .value (fitD.zip fitR) (evalD.zip evalR)
  else if evalR.length = 0 then .err .valueError
  else if evalD.length = 1 ∨ evalR.length = 1 then .err (.unmodelled "numpy broadcasts a single point")
  else .err .valueError

end Model.Rmsd
