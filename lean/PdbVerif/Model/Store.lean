/-
  C20 — hand-written store model of a file-backed `pdb2sql(…, sqlfile=p)` object, following
  /repo/pdb2sql/pdb2sqlcore.py (`_create_sql`, `_create_table`, `update*`, `add_column`, `_commit`) and
  /repo/pdb2sql/pdb2sql_base.py (`_close`) as they are now:

    _create_sql      : if os.path.isfile(p): os.remove(p)          — exactly p, no shell;   sqlite3.connect(p)
    _create_table    : CREATE TABLE (DDL) ; executemany(INSERT …)  — rows join one implicit transaction
    update / update_column : executemany(UPDATE …)                 — joins / opens the implicit transaction
    add_column       : ALTER TABLE … ADD COLUMN (DDL)              — committed at once when nothing is pending
    _commit          : conn.commit()
    _close(rmdb=False) : _commit(); conn.close()
    _close(rmdb=True)  : conn.close()  (pending work is rolled back);  if os.path.isfile(p): os.remove(p)

  Disk = what is durable: the committed table of each database file, and rollback journals.  A session keeps its
  uncommitted changes as a list `pending`; `commit` applies them to the disk image in one step; a crash (process
  death) loses the session and leaves the disk as it is (a hot journal is rolled back by the next reader).
  That SQLite's journal really implements this atomic step is TRUSTED (exercised by fault injection, c20.py).
  Paths `P` are abstract: nothing in the model can look inside a file name.
-/
import PdbVerif.Spec.C20

namespace Model.C20
open Spec.C20

inductive File (Row : Type)
  | db (tbl : Option (List Row))     -- a database file and its committed ATOM table (none: no table)
  | journal                          -- a rollback journal
  | other                            -- anything else (a victim file)

abbrev World (P Row : Type) := P → Option (File Row)

inductive Change (Row : Type)
  | createTable
  | insert (r : Row)
  | map (f : Row → Row)

/-- file-system level actions of the object (for "file names are data") -/
inductive FAct (P : Type)
  | isFile (p : P)
  | remove (p : P)
  | connect (p : P)
  | close (p : P)
  | writeDb (p : P)            -- SQLite publishes a commit into the database file
  | journalCreate (p : P)      -- SQLite creates the rollback journal of the database p (the file `journal p`)
  | journalDelete (p : P)
  | shell (cmd : List P)       -- a command line handed to a shell (the pinned tree's `rm %s`)
  deriving DecidableEq, Repr

section
variable {P Row : Type}

def Change.apply : Change Row → Option (List Row) → Option (List Row)
  | .createTable, none => some []
  | .createTable, some rows => some rows
  | .insert r, t => t.map (· ++ [r])
  | .map f, t => t.map (·.map f)

def applyAll (cs : List (Change Row)) (t : Option (List Row)) : Option (List Row) := cs.foldl (fun t c => c.apply t) t

structure St (P Row : Type) where
  world : World P Row
  phase : Phase
  pending : List (Change Row)
  trace : List (FAct P)

variable [DecidableEq P]

def World.set (w : World P Row) (p : P) (v : Option (File Row)) : World P Row := fun q => if q = p then v else w q

/-- the committed table of the database file `p` -/
def diskTable (w : World P Row) (p : P) : Option (List Row) :=
  match w p with
  | some (.db t) => t
  | _ => none

/-- the table the session sees: committed state plus its own pending changes -/
def view (s : St P Row) (p : P) : Option (List Row) := applyAll s.pending (diskTable s.world p)

/-- a DML statement: opens the implicit transaction if none is open (journal appears), stays pending -/
def dml (journal : P → P) (p : P) (s : St P Row) (c : Change Row) : St P Row :=
  match view s p with
  | none => s                                   -- "no such table": the statement fails, nothing is pending
  | some _ =>
    if s.pending.isEmpty then
      { s with world := s.world.set (journal p) (some .journal), pending := [c], trace := s.trace ++ [.journalCreate p] }
    else { s with pending := s.pending ++ [c] }

/-- a DDL statement: committed at once when no transaction is open, otherwise part of the open one -/
def ddl (p : P) (s : St P Row) (c : Change Row) : St P Row :=
  if s.pending.isEmpty then
    { s with world := s.world.set p (some (.db (c.apply (diskTable s.world p)))), trace := s.trace ++ [.writeDb p] }
  else { s with pending := s.pending ++ [c] }

def commit (journal : P → P) (p : P) (s : St P Row) : St P Row :=
  if s.pending.isEmpty then s
  else { s with world := (s.world.set p (some (.db (view s p)))).set (journal p) none, pending := [],
                trace := s.trace ++ [.writeDb p, .journalDelete p] }

/-- close without commit: the open transaction is rolled back -/
def rollbackClose (journal : P → P) (p : P) (s : St P Row) : St P Row :=
  if s.pending.isEmpty then { s with phase := .closed, trace := s.trace ++ [.close p] }
  else { s with world := s.world.set (journal p) none, pending := [], phase := .closed,
                trace := s.trace ++ [.journalDelete p, .close p] }

/-- `if os.path.isfile(p): os.remove(p)` — exactly that name -/
def removeIfFile (p : P) (s : St P Row) : St P Row :=
  match s.world p with
  | some _ => { s with world := s.world.set p none, trace := s.trace ++ [.isFile p, .remove p] }
  | none => { s with trace := s.trace ++ [.isFile p] }

def step (journal : P → P) (p : P) (s : St P Row) : Op Row → St P Row
  | .openDb => match s.phase with
    | .fresh =>
      let s1 := removeIfFile p s
      { s1 with world := s1.world.set p (some (.db none)), phase := .live, pending := [], trace := s1.trace ++ [.connect p] }
    | _ => s
  | .createTable => match s.phase with
    | .live => (match view s p with
      | none => ddl p s .createTable
      | some _ => s)                              -- "table already exists": the statement fails
    | _ => s
  | .insertRow r => match s.phase with
    | .live => dml journal p s (.insert r)
    | _ => s
  | .update f => match s.phase with
    | .live => dml journal p s (.map f)
    | _ => s
  | .addColumn f => match s.phase with
    | .live => (match view s p with
      | none => s
      | some _ => ddl p s (.map f))
    | _ => s
  | .commit => match s.phase with
    | .live => commit journal p s
    | _ => s
  | .closeKeep => match s.phase with
    | .live => let s1 := commit journal p s; { s1 with phase := .closed, trace := s1.trace ++ [.close p] }
    | _ => s
  | .closeRemove => match s.phase with
    | .live => removeIfFile p (rollbackClose journal p s)
    | .closed => removeIfFile p s                 -- closing again: `conn.close()` is a no-op, the isfile/remove runs again
    | .fresh => s

def run (journal : P → P) (p : P) (w : World P Row) (ops : List (Op Row)) : St P Row :=
  ops.foldl (step journal p) ⟨w, .fresh, [], []⟩

/-- a process death: the session (and its pending changes) is gone, the disk is what it is -/
def crash (s : St P Row) : World P Row := s.world

/-- what a fresh reader finds under the name `p` (a hot journal beside it is rolled back: committed state) -/
def readBack (w : World P Row) (p : P) : Read Row :=
  match w p with
  | none => .noFile
  | some (.db none) => .noTable
  | some (.db (some rows)) => .table rows
  | some _ => .notADatabase

/-- the paths an action names -/
def FAct.paths (journal : P → P) : FAct P → List P
  | .isFile p | .remove p | .connect p | .close p | .writeDb p => [p]
  | .journalCreate p | .journalDelete p => [journal p]
  | .shell cmd => cmd

def FAct.isShell : FAct P → Bool
  | .shell _ => true
  | _ => false

/-! ### the pinned tree's open/close (kept for the regression theorem): the name is pasted into a shell command -/

/-- `sp.call('rm %s' % sqlfile, shell=True)`: the shell splits the name into words and interprets them.
    `words p` = the words the shell makes of the name (arguments of `rm`, further commands). -/
def openDbOldTrace (words : P → List P) (p : P) : List (FAct P) := [.isFile p, .shell (words p), .connect p]

end
end Model.C20
