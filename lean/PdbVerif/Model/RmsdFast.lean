/-
  Data-flow models of `compute_irmsd_fast` and `compute_lrmsd_fast` (StructureSimilarity.py): the routines that read
  the raw columns of the record lines.  See Model/RmsdCommon.lean for the conventions.  Core Lean only.

  Inputs of a run: the record lines of decoy and reference (what `pdb2sql.read_pdb` returns), their parsed tables
  (what `pdb2sql(file)` builds — `Model.parse`, computed by the caller; a parse error is the routine's error), the zone
  source, `cutoff`, `check`, `enforce_residue_matching`.
-/
import PdbVerif.Model.RmsdCommon

namespace Model.Rmsd
open Py Model

/-- `name=['C', 'CA', 'N', 'O']` of `compute_lrmsd_fast` -/
def lrmsdFastNames : List Str := Gen.lrmsd_fast_names.map String.toList

/-- the two lists filled by the loop of `get_data_zone_backbone` / `get_xyz_zone_backbone`:
    ```
    if atname in name:
        if chainID in resData.keys():
            if resSeq in resData[chainID]: in_zone.append(·)
        else: not_in_zone.append(·)
    ``` -/
def zoneSplit {β : Type} (keyOfB : β → Key) (zone : Zone) (names : List Str) (l : List β) : List β × List β :=
  let sel := l.filter (fun b => decide ((keyOfB b).2.2 ∈ names))
  (sel.filter (fun b => zone.contains (keyOfB b).1 && zone.has (keyOfB b).1 (keyOfB b).2.1),
   sel.filter (fun b => !zone.contains (keyOfB b).1))

/-- `get_data_zone_backbone(file, resData, return_not_in_zone=True, name=names)` (the two sets, as lists) -/
def dataZoneBackbone (lines : List Str) (zone : Zone) (names : List Str) : Except Err (List Key × List Key) := do
  let ks ← rawKeys lines
  pure (zoneSplit id zone names ks)

/-- `get_xyz_zone_backbone(file, resData, return_not_in_zone=True, name=names)` -/
def xyzZoneBackbone (lines : List Str) (zone : Zone) (names : List Str) : Except Err (List Pt × List Pt) := do
  let ps ← rawPts lines
  pure (zoneSplit (·.1) zone names ps)

/-- `set_ref.intersection(set_decoy)`, used only through membership -/
def interKeys (sref sdec : List Key) : List Key := sref.filter (fun k => sdec.contains k)

/-- `_get_xyz(file, index)`: the coordinates of the records whose key is in `index`, ordered by key (stable) -/
def getXyz (lines : List Str) (index : List Key) : Except Err (List Pt) := do
  let ps ← rawPts lines
  pure (sortByKey (ps.filter (fun p => index.contains p.1)))

/-- the first lines of both fast routines: zone from memory / written / read -/
def zoneFrom (src : ZoneSrc) (computed : Except Err (List (Str × Int))) : Except Err Zone :=
  match src with
  | .compute => computed.map zoneOfResidues
  | .write => computed.map zoneOfResidues
  | .read lines => readZone lines

/-- `compute_irmsd_fast(izone, method, cutoff, check)` -/
def irmsdFast (dl rl : List Str) (tdec tref : Except Err (List Atom)) (src : ZoneSrc) (cutoff : Rat)
    (check enforce : Bool) : Outcome := Outcome.ofExcept do
  -- resData = compute_izone(cutoff, …)  /  read_zone(izone)
  let zone ← zoneFrom src (do let t ← tref; computeIzone t cutoff)
  if check || enforce then
    -- self.check_residues(): pdb2sql(self.ref), pdb2sql(self.decoy)
    let tr ← tref
    let td ← tdec
    let _ ← checkResidues td tr none enforce
    let dataDecoy ← dataZoneBackbone dl zone zoneNames
    let dataRef ← dataZoneBackbone rl zone zoneNames
    let atomCommon := interKeys dataRef.1 dataDecoy.1
    let xyzDecoy ← getXyz dl atomCommon
    let xyzRef ← getXyz rl atomCommon
    pure (kernelLists xyzDecoy xyzRef xyzDecoy xyzRef)
  else
    let xyzDecoy ← xyzZoneBackbone dl zone zoneNames
    let xyzRef ← xyzZoneBackbone rl zone zoneNames
    pure (kernelLists xyzDecoy.1 xyzRef.1 xyzDecoy.1 xyzRef.1)

/-- `compute_lrmsd_fast(lzone, method, check, name)` with the default `name` -/
def lrmsdFast (dl rl : List Str) (tdec tref : Except Err (List Atom)) (src : ZoneSrc)
    (check enforce : Bool) : Outcome := Outcome.ofExcept do
  let zone ← zoneFrom src (do let t ← tref; computeLzone t)
  if check || enforce then
    let tr ← tref
    let td ← tdec
    let _ ← checkResidues td tr (some lrmsdFastNames) enforce
    let dataDecoy ← dataZoneBackbone dl zone lrmsdFastNames
    let dataRef ← dataZoneBackbone rl zone lrmsdFastNames
    let atomLong := interKeys dataRef.1 dataDecoy.1
    let xyzDecoyLong ← getXyz dl atomLong
    let xyzRefLong ← getXyz rl atomLong
    let atomShort := interKeys dataRef.2 dataDecoy.2
    let xyzDecoyShort ← getXyz dl atomShort
    let xyzRefShort ← getXyz rl atomShort
    pure (kernelLists xyzDecoyLong xyzRefLong xyzDecoyShort xyzRefShort)
  else
    let xyzDecoy ← xyzZoneBackbone dl zone lrmsdFastNames
    let xyzRef ← xyzZoneBackbone rl zone lrmsdFastNames
    pure (kernelLists xyzDecoy.1 xyzRef.1 xyzDecoy.2 xyzRef.2)

/-- the text a run with an absent zone file leaves in it -/
def izoneFileText (tref : Except Err (List Atom)) (cutoff : Rat) : Except Err (List Str) := do
  let t ← tref
  let d ← computeIzone t cutoff
  zoneText d

def lzoneFileText (tref : Except Err (List Atom)) : Except Err (List Str) := do
  let t ← tref
  let d ← computeLzone t
  zoneText d

end Model.Rmsd
