/-
  Hand-written executable model of `interface.get_contact_atoms`, `interface._extend_contact_to_residue` and
  `interface.get_contact_residues` (/repo/pdb2sql/interface.py), following the code's control flow.

  A structure is the ATOM table `t : List Py.Atom`; rowID = position in the list (`List.zipIdx`).
  Python floats are the exact rationals they denote; `np.sqrt(np.sum((xyz2 - x0)**2, 1)) <= cutoff` is modelled
  exactly as `0 ≤ cutoff ∧ d² ≤ cutoff²` (no square root is computed).  Python dicts are association lists in
  insertion order (`Dict`); a Python `set` that is only ever iterated through `sorted(·)` is the list of its insertions.
  Single-model files only (`_nModel = 0`).  No Mathlib here: the driver imports this file.

  Reusable API (other clusters import this file):
    `Model.ContactArgs`, `Model.contactRun` (everything up to the `return`), `Model.contactSets`, `Model.contactPairs`,
    `Model.contactAtoms`, `Model.extendToResidue`, `Model.contactResidueSets`, `Model.contactResiduePairs`,
    `Model.ResKey`, `Model.resKey`, `Model.getChains`, `Model.chainRows`, `Model.rowsAt`, `Model.withinCutoff`, `Model.atomDist2`,
    `Model.sortedSet`, `Model.Dict`.
-/
import PdbVerif.Py.Atom
import PdbVerif.Gen.Consts

namespace Model
open Py

/-! ### Python containers -/

/-- a Python `dict` in insertion order -/
abbrev Dict (κ : Type) (ν : Type) := List (κ × ν)

namespace Dict
variable {κ ν : Type} [DecidableEq κ]

/-- `k in d` -/
def contains : Dict κ ν → κ → Bool
  | [], _ => false
  | (k', _) :: d, k => if k' = k then true else contains d k

/-- `d.get(k)` -/
def get? : Dict κ ν → κ → Option ν
  | [], _ => none
  | (k', v') :: d, k => if k' = k then some v' else get? d k

/-- `d[k] = v` -/
def set : Dict κ ν → κ → ν → Dict κ ν
  | [], k, v => [(k, v)]
  | (k', v') :: d, k, v => if k' = k then (k', v) :: d else (k', v') :: set d k v

/-- `if k not in d: d[k] = v` -/
def setDefault (d : Dict κ ν) (k : κ) (v : ν) : Dict κ ν :=
  if d.contains k then d else d ++ [(k, v)]

/-- `d.setdefault(k, []).extend(l)`; also `d[k] += l` for a key that is present -/
def extend : Dict κ (List ν) → κ → List ν → Dict κ (List ν)
  | [], k, l => [(k, l)]
  | (k', v') :: d, k, l => if k' = k then (k', v' ++ l) :: d else (k', v') :: extend d k l

/-- value list of a key, `[]` when absent (used by the lemmas) -/
def getD : Dict κ (List ν) → κ → List ν
  | [], _ => []
  | (k', v') :: d, k => if k' = k then v' else getD d k

def keys (d : Dict κ ν) : List κ := d.map (·.1)

end Dict

/-- insertion of `x` into an ascending duplicate-free list (nothing happens when `x` is there already) -/
def insertAsc {α : Type} [DecidableEq α] (lt : α → α → Bool) (x : α) : List α → List α
  | [] => [x]
  | y :: ys => if lt x y then x :: y :: ys else if x = y then y :: ys else y :: insertAsc lt x ys

/-- Python's `sorted(set(l))` for the order `lt` -/
def sortedSet {α : Type} [DecidableEq α] (lt : α → α → Bool) (l : List α) : List α :=
  l.foldl (fun acc x => insertAsc lt x acc) []

/-- `<` on `int` -/
def ltNat (a b : Nat) : Bool := decide (a < b)
/-- `<` on `str` (code-point lexicographic) -/
def ltStr (a b : Str) : Bool := decide (a < b)

/-- distinct elements in order of first occurrence (one possible iteration order of `set(l)`) -/
def distinctFirst {α : Type} [DecidableEq α] : List α → List α
  | [] => []
  | x :: xs => x :: (distinctFirst xs).filter (fun y => decide (y ≠ x))

/-- `itertools.combinations(l, 2)` -/
def combinations2 {α : Type} : List α → List (α × α)
  | [] => []
  | x :: xs => xs.map (fun y => (x, y)) ++ combinations2 xs

/-! ### the table -/

/-- a row together with its rowID -/
abbrev IRow := Atom × Nat

/-- `self.backbone_atoms` -/
def backbone : List Str := Gen.backbone_atoms.map String.toList

/-- `get_chains()`: `sorted(set(self.get('chainID')))` -/
def getChains (t : List Atom) : List Str := sortedSet ltStr (t.map (·.chainID))

/-- `self.get('x,y,z,rowID,resName,name', chainID=chain)`: the rows of a chain in table order, with their rowIDs -/
def chainRows (t : List Atom) (chain : Str) : List IRow :=
  t.zipIdx.filter (fun r => decide (r.1.chainID = chain))

/-- `self.get(cols, rowID=idx)`: the rows whose rowID occurs in `idx`, in table order -/
def rowsAt (t : List Atom) (idx : List Nat) : List IRow :=
  t.zipIdx.filter (fun r => idx.contains r.2)

def atomDist2 (a b : Atom) : Rat :=
  (a.x - b.x) * (a.x - b.x) + (a.y - b.y) * (a.y - b.y) + (a.z - b.z) * (a.z - b.z)

/-- `np.sqrt(np.sum((xyz2 - x0)**2, 1)) <= cutoff` on exact numbers -/
def withinCutoff (cutoff : Rat) (a b : Atom) : Bool :=
  decide (0 ≤ cutoff) && decide (atomDist2 a b ≤ cutoff * cutoff)

/-- `atName[i].startswith('H')` -/
def startsWithH (n : Str) : Bool := n.head? == some 'H'

/-! ### residue keys -/

/-- the tuple `(chainID, resSeq, resName)` -/
abbrev ResKey := Str × Int × Str

/-- Python's `<` on such tuples (lexicographic) -/
def ltRes (a b : ResKey) : Bool :=
  ltStr a.1 b.1 || (decide (a.1 = b.1) && (decide (a.2.1 < b.2.1) || (decide (a.2.1 = b.2.1) && ltStr a.2.2 b.2.2)))

def resKey (a : Atom) : ResKey := (a.chainID, a.resSeq, a.resName)

/-! ### get_contact_atoms -/

structure ContactArgs where
  cutoff : Rat
  allchains : Bool
  chain1 : Str
  chain2 : Str
  /-- `extend_to_residue` -/
  extend : Bool
  /-- `only_backbone_atoms` -/
  bb : Bool
  /-- `excludeH` -/
  noH : Bool
  /-- `return_contact_pairs` -/
  retPairs : Bool
  deriving Repr

/-- the two dictionaries the double loop fills -/
structure LoopState where
  /-- `index_contact` -/
  indexContact : Dict Str (List Nat)
  /-- `index_contact_pairs` -/
  pairs : Dict Nat (List Nat)
  deriving Repr

/-- condition of the list comprehension that builds `pairs` (second-chain atom `k`) -/
def keepPartner (a : ContactArgs) (q : IRow) : Bool :=
  (decide (q.1.name ∈ backbone) || !a.bb) && !(a.noH && startsWithH q.1.name)

/-- body of `for i, x0 in enumerate(xyz1)` -/
def scanAtom (a : ContactArgs) (chain1 chain2 : Str) (rows2 : List IRow) (st : LoopState) (r : IRow) : LoopState :=
  -- contacts = np.where(np.sqrt(np.sum((xyz2 - x0)**2, 1)) <= cutoff)[0]
  let contacts := rows2.filter (fun q => withinCutoff a.cutoff q.1 r.1)
  -- if excludeH and atName1[i].startswith('H'): continue
  if a.noH && startsWithH r.1.name then st
  -- if len(contacts) > 0 and any([not only_backbone_atoms, atName1[i] in self.backbone_atoms]):
  else if decide (contacts.length > 0) && (!a.bb || decide (r.1.name ∈ backbone)) then
    let pairs := (contacts.filter (keepPartner a)).map (·.2)
    if pairs.length > 0 then
      { pairs := st.pairs.extend r.2 pairs,                                  -- setdefault(index[chain1][i], []).extend(pairs)
        indexContact := (st.indexContact.extend chain1 [r.2]).extend chain2 pairs }   -- index_contact[chain1] += [..]; index_contact[chain2] += pairs
    else st
  else st

/-- body of `for chain1, chain2 in itertools.combinations(chainIDs, 2)`.  (`xyz[chain]`, `index[chain]`, `atName[chain]`
    were filled per chain before the loop; `chainRows` is that extraction.)  The keys `chain1`, `chain2` are present in
    `index_contact` after the two `if chain not in index_contact` lines, so `+=` is `extend` on a present key. -/
def scanPair (a : ContactArgs) (t : List Atom) (st : LoopState) (cc : Str × Str) : LoopState :=
  let rows1 := chainRows t cc.1
  let rows2 := chainRows t cc.2
  let st : LoopState := { st with indexContact := (st.indexContact.setDefault cc.1 []).setDefault cc.2 [] }
  rows1.foldl (scanAtom a cc.1 cc.2 rows2) st

/-- `_extend_contact_to_residue(index1, only_backbone_atoms)` -/
def extendToResidue (t : List Atom) (index1 : List Nat) (onlyBB : Bool) : List Nat :=
  -- dataA = self.get('chainID,resName,resSeq', rowID=index1); resA = list(set(dataA))
  let dataA := (rowsAt t index1).map (fun r => resKey r.1)
  let resA := distinctFirst dataA
  let out := resA.flatMap (fun k =>
    -- self.get('rowID' / 'name', chainID=chainID, resName=resName, resSeq=resSeq)
    let rows := t.zipIdx.filter (fun r => decide (r.1.chainID = k.1 ∧ r.1.resName = k.2.2 ∧ r.1.resSeq = k.2.1))
    if onlyBB then (rows.filter (fun r => decide (r.1.name ∈ backbone))).map (·.2)
    else rows.map (·.2))
  sortedSet ltNat out

/-- `for chain in chainIDs: index_contact[chain] = f(index_contact[chain])` (KeyError when the key was never created) -/
def mapChains (f : List Nat → List Nat) (chainIDs : List Str) (d : Dict Str (List Nat)) : Except Err (Dict Str (List Nat)) :=
  chainIDs.foldlM (fun d ch =>
    match d.get? ch with
    | none => throw Err.keyError
    | some l => pure (d.set ch (f l))) d

/-- `get_contact_atoms` up to (not including) the choice of the return value: `(index_contact, index_contact_pairs)` -/
def contactRun (t : List Atom) (a : ContactArgs) : Except Err (Dict Str (List Nat) × Dict Nat (List Nat)) := do
  let chainIDs := if a.allchains then getChains t else [a.chain1, a.chain2]
  let chains := getChains t
  -- for c in chainIDs: if c not in chains: raise ValueError
  if chainIDs.any (fun c => !chains.contains c) then throw Err.valueError
  let st := (combinations2 chainIDs).foldl (scanPair a t) { indexContact := [], pairs := [] }
  -- get uniques
  let ic ← mapChains (sortedSet ltNat) chainIDs st.indexContact
  -- extend the list to entire residue
  let ic ← if a.extend then mapChains (fun l => extendToResidue t l a.bb) chainIDs ic else pure ic
  pure (ic, st.pairs)

/-- what `get_contact_atoms` returns -/
inductive ContactOut
  | chains (d : Dict Str (List Nat))
  | pairs (d : Dict Nat (List Nat))
  deriving Repr

def contactAtoms (t : List Atom) (a : ContactArgs) : Except Err ContactOut :=
  (contactRun t a).map (fun r => if a.retPairs then .pairs r.2 else .chains r.1)

/-- `get_contact_atoms(..., return_contact_pairs=False)` -/
def contactSets (t : List Atom) (a : ContactArgs) : Except Err (Dict Str (List Nat)) := (contactRun t a).map (·.1)
/-- `get_contact_atoms(..., return_contact_pairs=True)` -/
def contactPairs (t : List Atom) (a : ContactArgs) : Except Err (Dict Nat (List Nat)) := (contactRun t a).map (·.2)

/-! ### get_contact_residues -/

/-- arguments that `get_contact_residues` passes on (it has no `extend_to_residue`) -/
def residueArgs (a : ContactArgs) : ContactArgs := { a with extend := false }

/-- `get_contact_residues(..., return_contact_pairs=False)` -/
def contactResidueSets (t : List Atom) (a : ContactArgs) : Except Err (Dict Str (List ResKey)) := do
  let contactAtoms ← contactSets t (residueArgs a)
  -- residue_contact[chain] = sorted(set(tuple(r) for r in self.get('chainID,resSeq,resName', rowID=contact_atoms[chain])))
  pure (contactAtoms.map (fun e => (e.1, sortedSet ltRes ((rowsAt t e.2).map (fun r => resKey r.1)))))

/-- body of `for iat1, atoms2 in atom_pairs.items()` -/
def residuePairStep (t : List Atom) (d : Dict ResKey (List ResKey)) (e : Nat × List Nat) : Except Err (Dict ResKey (List ResKey)) :=
  -- data1 = tuple(self.get('chainID,resSeq,resName', rowID=[iat1])[0])
  match rowsAt t [e.1] with
  | [] => throw Err.indexError
  | r :: _ =>
    let data1 := resKey r.1
    -- if data1 not in residue_contact_pairs: residue_contact_pairs[data1] = set()
    let d := d.setDefault data1 []
    -- for resData in self.get('chainID,resSeq,resName', rowID=atoms2): residue_contact_pairs[data1].add(tuple(resData))
    pure (d.extend data1 ((rowsAt t e.2).map (fun r => resKey r.1)))

/-- `get_contact_residues(..., return_contact_pairs=True)` -/
def contactResiduePairs (t : List Atom) (a : ContactArgs) : Except Err (Dict ResKey (List ResKey)) := do
  let atomPairs ← contactPairs t (residueArgs a)
  let rcp ← atomPairs.foldlM (residuePairStep t) []
  -- for resData in residue_contact_pairs.keys(): residue_contact_pairs[resData] = sorted(residue_contact_pairs[resData])
  pure (rcp.map (fun e => (e.1, sortedSet ltRes e.2)))

end Model
