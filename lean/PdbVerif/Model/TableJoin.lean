/-
  Model of `many2sql.get_intersection`: `SELECT t1.cols, t2.cols, … FROM t1 INNER JOIN t2 … ON` every pair of
  tables agreeing on every match attribute — a nested-loop join — and the slicing of each joined tuple into one
  row per table.
-/
import PdbVerif.Model.Table
import PdbVerif.Gen.Consts

namespace Model
open Tbl

/-- the nested loops over the tables: every combination of one row per table, first table outermost -/
def cartesian : List Table → List (List Row)
  | [] => [[]]
  | T :: rest => T.flatMap (fun r => (cartesian rest).map (fun tup => r :: tup))

/-- `t1.attr = t2.attr` for one pair of rows and every match attribute (SQL `=` on two columns of the same type) -/
def sameKey (m : List StdCol) (r r' : Row) : Bool := m.all (fun c => cmpEq (r.std c) (r'.std c))

/-- the ON clause: every pair of tables `i1 < i2` agrees on every match attribute -/
def onClause (m : List StdCol) : List Row → Bool
  | [] => true
  | r :: rest => rest.all (fun r' => sameKey m r r') && onClause m rest

/-- the joined tuples -/
def joinRows (m : List StdCol) (tables : List Table) : List (List Row) :=
  (cartesian tables).filter (onClause m)

/-- the match attribute an SQL identifier names (`none`: not a standard attribute) -/
def matchCol (k : Py.Str) : Option StdCol := StdCol.all.find? (fun c => ciEq c.pyName k)

/-- the match attributes as far as they reach SQLite: the ON conditions are built by the loops over the PAIRS of tables, so with fewer
    than two structures the statement has no ON clause and the names in `match` are never looked at (an unknown one is no error) -/
def matchCols (db : Db) (mnames : List Py.Str) : Option (List StdCol) :=
  if db.tabs.length < 2 then some [] else mnames.mapM matchCol

/-- `get_intersection(column, match)`: per table, the list of the requested attributes of its row in every
    joined tuple (no flattening, no −1 on rowID: the code slices raw SQL rows) -/
def getIntersection (db : Db) (column : Py.Str) (mnames : List Py.Str) : Except Err (List (List (List Val))) :=
  if !db.extra.isEmpty then .error (.unmodelled "added columns in a many2sql join") else
  let colNames := if column = "*".toList then StdCol.all.map StdCol.pyName else Py.splitOn ',' column
  match matchCols db mnames, colNames.mapM (fun n => sqlCol db (Py.strip n)) with
  | some m, some cols =>
    if cols.contains .rowID then .error (.unmodelled "rowID requested from a join") else
    let joined := joinRows m (db.tabs.map (·.rows))
    .ok ((List.range db.tabs.length).map (fun it =>
      joined.map (fun tup => match tup[it]? with
        | some r => cols.map (fun c => cell c 0 r)
        | none => [])))
  | _, _ => .error .operational

/-- component `k` of every joined tuple, in the order of the join -/
def component (joined : List (List Row)) (k : Nat) : Table := joined.filterMap (fun tup => tup[k]?)

/-- `many2sql.intersect(match)`: `get_intersection('*', match)`, then for every structure its aligned rows are
    written by `data2pdb` and parsed into a table of the same name of a NEW database (`roundtrip` = parse ∘ export);
    an empty intersection cannot be turned into a database (IndexError on the empty list of lines) -/
def intersect (roundtrip : Table → Table) (db : Db) (mnames : List Py.Str) : Except Err Db :=
  if !db.extra.isEmpty then .error (.unmodelled "added columns in a many2sql join") else
  match matchCols db mnames with
  | none => .error .operational
  | some m =>
    let joined := joinRows m (db.tabs.map (·.rows))
    if joined.isEmpty || db.tabs.isEmpty then .error .indexError
    else .ok { tabs := db.tabs.zipIdx.map (fun ti => { name := ti.1.name, rows := roundtrip (component joined ti.2) }) }

end Model
