/-
  MicroSql — what the SQL *text* emitted by pdb2sql means.  This file is the SQLite contract of the table layer,
  stated once: a tokenizer and a parser for exactly the statement grammar the library emits

      SELECT cols FROM t [WHERE c [NOT] in (?,…,?) {AND c [NOT] in (?,…,?)}]        cols ::= * | c {, c}
      UPDATE t SET c=? {, c=?} WHERE rowID=?
      ALTER TABLE t ADD COLUMN 'c' type DEFAULT literal
      select t.c {, t.c} from t {INNER JOIN t} [on t.a=t.a {and t.a=t.a}] ;        (t.* for t.c; `many2sql.get_intersection`)

  and an evaluator over the table representation of `Model/Table.lean`: rows in rowid order, `rowid` = position + 1,
  parameters bound positionally, identifiers resolved as SQLite resolves them (`Model.sqlCol`, `Model.findTab`:
  case-insensitive, rowid aliases), comparison by the column's affinity applied to the bound value (`Model.sqlEq`),
  storing by the column's affinity (`Model.updateAt`).  Unknown table / column ⇒ `operational` (sqlite3.OperationalError),
  wrong number of bound values ⇒ `programming` (sqlite3.ProgrammingError).  Text outside the grammar — other
  statements, expressions, qualified or quoted identifiers, words that are SQL keywords — is NOT given a meaning:
  the answer is `unmodelled`, never an error class.   Core Lean only.
-/
import PdbVerif.Model.Table
import PdbVerif.Model.TableJoin

namespace MicroSql
open Tbl Model

/-! ## tokens -/

inductive Tok
  | word (s : Py.Str)        -- a maximal run of characters that are neither blank nor punctuation
  | quoted (s : Py.Str)      -- '…'
  | star | comma | lparen | rparen | qmark | eq | semi
  | bad                      -- unterminated quote
  deriving DecidableEq, Repr, Inhabited

def quote : Char := '\''

/-- the one-character tokens of the grammar -/
def punct (c : Char) : Option Tok :=
  if c == '*' then some .star else if c == ',' then some .comma else if c == '(' then some .lparen
  else if c == ')' then some .rparen else if c == '?' then some .qmark else if c == '=' then some .eq
  else if c == ';' then some .semi else none

/-- a character that ends a word: SQLite white space (blank, \t, \n, \v, \f, \r), punctuation, a quote -/
def isDelim (c : Char) : Bool := sqlSpace c || (punct c).isSome || c == quote

/-- the word read so far (last character first) becomes a token -/
def flush (cur : Py.Str) (ts : List Tok) : List Tok := if cur.isEmpty then ts else .word cur.reverse :: ts

/-- `cur`: the word being read, last character first; `q = some acc`: inside a quoted string -/
def tok : Py.Str → Py.Str → Option Py.Str → List Tok
  | [], cur, none => flush cur []
  | [], _, some _ => [.bad]
  | c :: cs, cur, some acc => if c == quote then .quoted acc.reverse :: tok cs [] none else tok cs cur (some (c :: acc))
  | c :: cs, cur, none =>
    if c == quote then flush cur (tok cs [] (some []))
    else if sqlSpace c then flush cur (tok cs [] none)
    else match punct c with
      | some t => flush cur (t :: tok cs [] none)
      | none => tok cs (c :: cur) none

def tokenize (s : Py.Str) : List Tok := tok s [] none

/-! ## names and keywords -/

/-- SQL keywords compare case-insensitively -/
def isKw (k : String) (w : Py.Str) : Bool := Py.lower w == k.toList

/-- words SQLite does not accept as a bare column / table name (the keywords that have no identifier fallback in
    its grammar, the join keywords, and the words that denote literals) -/
def reserved : List Py.Str :=
  ["add", "all", "alter", "and", "as", "autoincrement", "between", "case", "check", "collate", "commit", "constraint",
   "create", "default", "deferrable", "delete", "distinct", "drop", "else", "escape", "except", "exists", "filter",
   "foreign", "from", "group", "having", "in", "index", "indexed", "insert", "intersect", "into", "is", "isnull", "join",
   "limit", "not", "nothing", "notnull", "null", "on", "or", "order", "over", "primary", "references", "returning",
   "select", "set", "table", "then", "to", "transaction", "union", "unique", "update", "using", "values", "when", "where",
   "window", "cross", "full", "inner", "left", "natural", "outer", "right",
   "true", "false", "current_time", "current_date", "current_timestamp"].map String.toList

/-- a plain identifier: a letter or `_`, then letters, digits, `_`; not a reserved word -/
def isName (w : Py.Str) : Bool := isIdent w && !reserved.contains (Py.lower w)

def ident (w : Py.Str) : Except Err Py.Str :=
  if isName w then .ok w else .error (.unmodelled "a name that is not a plain identifier")

/-! ## statements -/

inductive Cols
  | star
  | names (ns : List Py.Str)
  deriving DecidableEq, Repr

/-- `name [NOT] in (?,…,?)` with `nparams` question marks -/
structure Cond where
  name : Py.Str
  neg : Bool
  nparams : Nat
  deriving DecidableEq, Repr

/-- `t.c`, or `t.*` (`col = none`) -/
structure Field where
  table : Py.Str
  col : Option Py.Str
  deriving DecidableEq, Repr

/-- `t1.a1 = t2.a2` -/
structure JoinEq where
  t1 : Py.Str
  a1 : Py.Str
  t2 : Py.Str
  a2 : Py.Str
  deriving DecidableEq, Repr

inductive Stmt
  | select (cols : Cols) (table : Py.Str) (conds : List Cond)
  | update (table : Py.Str) (sets : List Py.Str) (key : Py.Str)
  | addColumn (table name ty lit : Py.Str)
  | join (fields : List Field) (tables : List Py.Str) (eqs : List JoinEq)
  deriving DecidableEq, Repr

def outside {α : Type} : Except Err α := .error (.unmodelled "SQL text outside the grammar of MicroSql")

/-- the pieces of a token list between separators: (first piece, further pieces) -/
def splitTok (sep : Tok → Bool) : List Tok → List Tok × List (List Tok)
  | [] => ([], [])
  | t :: ts =>
    let r := splitTok sep ts
    if sep t then ([], r.1 :: r.2) else (t :: r.1, r.2)

def pieces (sep : Tok → Bool) (ts : List Tok) : List (List Tok) := (splitTok sep ts).1 :: (splitTok sep ts).2

def isWordKw (k : String) : Tok → Bool
  | .word w => isKw k w
  | _ => false

def isComma : Tok → Bool
  | .comma => true
  | _ => false

/-- the tokens before the first word `k`, and those after it (`none`: no such word) -/
def untilKw (k : String) : List Tok → List Tok × Option (List Tok)
  | [] => ([], none)
  | t :: ts =>
    if isWordKw k t then ([], some ts)
    else let r := untilKw k ts; (t :: r.1, r.2)

/-- after a `?`: `)` or `, ? …` -/
def qsTail : List Tok → Option Nat
  | [.rparen] => some 0
  | .comma :: .qmark :: rest => (qsTail rest).map (· + 1)
  | _ => none

/-- after `(`: `)` or `? {, ?} )` -/
def qs : List Tok → Option Nat
  | [.rparen] => some 0
  | .qmark :: rest => (qsTail rest).map (· + 1)
  | _ => none

def mkCond (k : Py.Str) (neg : Bool) (rest : List Tok) : Except Err Cond :=
  match qs rest with
  | some n => do let k' ← ident k; pure { name := k', neg := neg, nparams := n }
  | none => outside

def parseCond : List Tok → Except Err Cond
  | .word k :: .word a :: .word b :: .lparen :: rest => if isKw "not" a && isKw "in" b then mkCond k true rest else outside
  | .word k :: .word a :: .lparen :: rest => if isKw "in" a then mkCond k false rest else outside
  | _ => outside

def parseColName : List Tok → Except Err Py.Str
  | [.word w] => ident w
  | _ => outside

def parseCols (ts : List Tok) : Except Err Cols :=
  if ts = [.star] then .ok .star else (pieces isComma ts).mapM parseColName |>.map .names

def parseSet : List Tok → Except Err Py.Str
  | [.word w, .eq, .qmark] => ident w
  | _ => outside

def parseSelect (ts : List Tok) : Except Err Stmt :=
  match untilKw "from" ts with
  | (cs, some (.word tn :: rest)) => do
    let cols ← parseCols cs
    let tn' ← ident tn
    match rest with
    | [] => pure (.select cols tn' [])
    | .word w :: conds =>
      if isKw "where" w then do
        let cds ← (pieces (isWordKw "and") conds).mapM parseCond
        pure (.select cols tn' cds)
      else outside
    | _ => outside
  | _ => outside

def parseUpdate : List Tok → Except Err Stmt
  | .word tn :: .word s :: rest =>
    if isKw "set" s then
      match untilKw "where" rest with
      | (sets, some [.word key, .eq, .qmark]) => do
        let tn' ← ident tn
        let cs ← (pieces isComma sets).mapM parseSet
        let key' ← ident key
        pure (.update tn' cs key')
      | _ => outside
    else outside
  | _ => outside

def parseAlter : List Tok → Except Err Stmt
  | [.word t, .word tn, .word a, .word c, .quoted name, .word ty, .word d, .word lit] =>
    if isKw "table" t && isKw "add" a && isKw "column" c && isKw "default" d then do
      let tn' ← ident tn
      pure (.addColumn tn' name ty lit)
    else outside
  | _ => outside

/-! ### the join of `many2sql.get_intersection` -/

/-- a word `t.c`: the part before the first `.` and the part after it (`none`: no dot) -/
def splitDot (w : Py.Str) : Option (Py.Str × Py.Str) :=
  match w.dropWhile (fun c => c != '.') with
  | _ :: c => some (w.takeWhile (fun c => c != '.'), c)
  | [] => none

def qualified (w : Py.Str) : Except Err (Py.Str × Py.Str) :=
  match splitDot w with
  | some (t, c) => do let t' ← ident t; let c' ← ident c; pure (t', c')
  | none => outside

def parseField : List Tok → Except Err Field
  | [.word w] => do let q ← qualified w; pure { table := q.1, col := some q.2 }
  | [.word w, .star] =>
    match splitDot w with
    | some (t, []) => do let t' ← ident t; pure { table := t', col := none }
    | _ => outside
  | _ => outside

def parseEq : List Tok → Except Err JoinEq
  | [.word a, .eq, .word b] => do
    let qa ← qualified a
    let qb ← qualified b
    pure { t1 := qa.1, a1 := qa.2, t2 := qb.1, a2 := qb.2 }
  | _ => outside

/-- `t {INNER JOIN t}` -/
def parseTables : List Tok → Except Err (List Py.Str)
  | [.word t] => do let t' ← ident t; pure [t']
  | .word t :: .word i :: .word j :: rest =>
    if isKw "inner" i && isKw "join" j then do
      let t' ← ident t
      let ts ← parseTables rest
      pure (t' :: ts)
    else outside
  | _ => outside

/-- the tokens before a final `;` -/
def stripSemi : List Tok → Option (List Tok)
  | [] => none
  | [t] => if t = .semi then some [] else none
  | t :: rest => (stripSemi rest).map (t :: ·)

def parseJoin (ts : List Tok) : Except Err Stmt :=
  match untilKw "from" ts with
  | (fs, some rest) =>
    match stripSemi rest with
    | none => outside
    | some body => do
      let fields ← (pieces isComma fs).mapM parseField
      match untilKw "on" body with
      | (tabs, none) => do
        let tables ← parseTables tabs
        pure (.join fields tables [])
      | (tabs, some eqs) => do
        let tables ← parseTables tabs
        let es ← (pieces (isWordKw "and") eqs).mapM parseEq
        pure (.join fields tables es)
  | _ => outside

def parse (s : Py.Str) : Except Err Stmt :=
  match tokenize s with
  | .word w :: rest =>
    if isKw "select" w then
      (match parseSelect rest with
       | .ok st => .ok st
       | .error _ => parseJoin rest)
    else if isKw "update" w then parseUpdate rest
    else if isKw "alter" w then parseAlter rest
    else outside
  | _ => outside

/-! ## evaluation -/

def resolveName (db : Db) (n : Py.Str) : Except Err Col :=
  match sqlCol db n with
  | some c => .ok c
  | none => .error .operational                    -- no such column

def resolveCols (db : Db) : Cols → Except Err (List Col)
  | .star => .ok (starCols db.extraNames)
  | .names ns => ns.mapM (resolveName db)

/-- a condition whose column is resolved and whose question marks are bound -/
structure Bound where
  col : Col
  neg : Bool
  vals : List Val
  deriving Repr

/-- positional binding: each condition takes as many values as it has question marks; every value must be used -/
def bindParams : List (Col × Cond) → List Val → Except Err (List Bound)
  | [], [] => .ok []
  | [], _ :: _ => .error .programming
  | (c, cd) :: rest, vs =>
    if vs.length < cd.nparams then .error .programming
    else match bindParams rest (vs.drop cd.nparams) with
      | .error e => .error e
      | .ok bs => .ok ({ col := c, neg := cd.neg, vals := vs.take cd.nparams } :: bs)

/-- `col [NOT] IN (values)` on the row at position `p`: the stored cell equals one of the bound values, each
    compared after the column's affinity was applied to it -/
def Bound.holds (db : Db) (b : Bound) (rp : Row × Nat) : Bool :=
  (b.vals.any (fun v => sqlEq (affOf db b.col) (sqlCell b.col rp.2 rp.1) v)) != b.neg

/-- `SELECT`: the rows for which every condition holds, in rowid order, projected on the columns -/
def execSelect (db : Db) (cols : Cols) (tn : Py.Str) (conds : List Cond) (params : List Val) : Except Err (List (List Val)) :=
  match findTab db tn with
  | none => .error .operational                    -- no such table
  | some tab => do
    let cs ← resolveCols db cols
    let ccols ← conds.mapM (fun cd => resolveName db cd.name)
    let bound ← bindParams (ccols.zip conds) params
    pure ((tab.rows.zipIdx.filter (fun rp => bound.all (fun b => b.holds db rp))).map
            (fun rp => cs.map (fun c => sqlCell c rp.2 rp.1)))

/-! ### the join -/

/-- the position of table `t` among the joined tables (identifiers compare case-insensitively) -/
def tabIdx (tables : List Py.Str) (t : Py.Str) : Option Nat := tables.findIdx? (fun n => ciEq n t)

/-- a selected field: which joined table, which columns of it (`t.*`: all) -/
def resolveField (db : Db) (tables : List Py.Str) (f : Field) : Except Err (Nat × List Col) :=
  match tabIdx tables f.table with
  | none => .error .operational                        -- no such column t.c
  | some i =>
    match f.col with
    | none => .ok (i, starCols db.extraNames)
    | some c =>
      match sqlCol db c with
      | none => .error .operational
      | some .rowID => .error (.unmodelled "rowid selected from a join")
      | some col => .ok (i, [col])

/-- `t1.a = t2.a` on one attribute of the two tables (other shapes of ON conditions are not emitted) -/
def resolveEq (db : Db) (tables : List Py.Str) (e : JoinEq) : Except Err (Nat × Nat × StdCol) :=
  match tabIdx tables e.t1, tabIdx tables e.t2, sqlCol db e.a1, sqlCol db e.a2 with
  | some i1, some i2, some (.std s1), some (.std s2) =>
    if s1 = s2 then .ok (i1, i2, s1) else .error (.unmodelled "ON condition between different attributes")
  | some _, some _, some _, some _ => .error (.unmodelled "ON condition on a rowid or an added column")
  | _, _, _, _ => .error .operational

/-- the ON condition on one combination of rows (one row per joined table): the two cells are equal as SQLite
    compares two columns of the same declared type -/
def eqHolds (tup : List Row) (e : Nat × Nat × StdCol) : Bool :=
  match tup[e.1]?, tup[e.2.1]? with
  | some r, some r' => cmpEq (r.std e.2.2) (r'.std e.2.2)
  | _, _ => false

def fieldVals (tup : List Row) (f : Nat × List Col) : List Val :=
  match tup[f.1]? with
  | some r => f.2.map (fun c => cell c 0 r)
  | none => []

/-- `SELECT fields FROM t1 INNER JOIN t2 … ON eqs`: every combination of one row per table for which every ON
    condition holds, projected on the fields.  SQLite does not specify the ORDER of these rows; MicroSql lists them as
    the nested loops with the first table outermost do (`Model.cartesian`) — only the multiset is the contract, and
    the correspondence run compares sorted rows. -/
def execJoin (db : Db) (fields : List Field) (tables : List Py.Str) (eqs : List JoinEq) : Except Err (List (List Val)) :=
  if !db.extra.isEmpty then .error (.unmodelled "added columns in a many2sql join") else
  match tables.mapM (findTab db) with
  | none => .error .operational                        -- no such table
  | some tabs => do
    let fs ← fields.mapM (resolveField db tables)
    let es ← eqs.mapM (resolveEq db tables)
    pure (((cartesian (tabs.map (·.rows))).filter (fun tup => es.all (eqHolds tup))).map
            (fun tup => fs.flatMap (fieldVals tup)))

/-- `cursor.execute(text, params)` of a query -/
def query (db : Db) (text : Py.Str) (params : List Val) : Except Err (List (List Val)) :=
  match parse text with
  | .error e => .error e
  | .ok (.select cols tn conds) => execSelect db cols tn conds params
  | .ok (.join fields tables eqs) => if params.isEmpty then execJoin db fields tables eqs else .error .programming
  | .ok _ => .error (.unmodelled "not a query")

/-- what is fixed when an `UPDATE t SET c=?… WHERE k=?` is prepared: the table exists, the columns exist, the key is the rowid -/
def prepareUpdate (db : Db) (tn : Py.Str) (sets : List Py.Str) (key : Py.Str) : Except Err (List Col) :=
  match findTab db tn with
  | none => .error .operational
  | some _ =>
    match sets.mapM (sqlCol db), sqlCol db key with
    | some cs, some .rowID => .ok cs
    | some _, some _ => .error (.unmodelled "UPDATE … WHERE on a column that is not the rowid")
    | _, _ => .error .operational

/-- one execution of the prepared `UPDATE` with the parameter row `vals ++ [rowid]` -/
def stepUpdate (db : Db) (tn : Py.Str) (cs : List Col) (row : List Val) : Except Err Db :=
  if row.length ≠ cs.length + 1 then .error .programming
  else match row.getLast? with
    | some (.int rid) => updateAt db tn (cs.zip row.dropLast) rid
    | _ => .error (.unmodelled "a rowid that is not an int")

def runUpdates (tn : Py.Str) (cs : List Col) : Db → List (List Val) → Db × Except Err Unit
  | db, [] => (db, .ok ())
  | db, row :: rest =>
    match stepUpdate db tn cs row with
    | .error e => (db, .error e)
    | .ok db' => runUpdates tn cs db' rest

/-- `cursor.executemany(text, rows)` of an UPDATE: prepared once, then executed row after row; an error stops
    the loop with what was done so far -/
def executemany (db : Db) (text : Py.Str) (rows : List (List Val)) : Db × Except Err Unit :=
  match parse text with
  | .error e => (db, .error e)
  | .ok (.update tn sets key) =>
    match prepareUpdate db tn sets key with
    | .error e => (db, .error e)
    | .ok cs => runUpdates tn cs db rows
  | .ok _ => (db, .error (.unmodelled "executemany of a statement that is not an UPDATE"))

/-- the value a literal word denotes after `DEFAULT`: an integer, a real, or (a bare word) the text itself -/
def litVal (s : Py.Str) : Option Val :=
  match Py.parseInt s with
  | .ok i => if s.all (fun c => Py.isDigit c || c == '-') then some (.int i) else none
  | .error _ =>
    match numOfText s with
    | some q => if s.all (fun c => !sqlSpace c) then some (.real q) else none
    | none => if isIdent s && !sqlKeywordsAsDefault.contains (Py.lower s) then some (.text s) else none

/-- `cursor.execute(text)` of an `ALTER TABLE … ADD COLUMN` (single-table databases, as `Model.addColumn`) -/
def execAlter (db : Db) (text : Py.Str) : Db × Except Err Unit :=
  match parse text with
  | .error e => (db, .error e)
  | .ok (.addColumn tn name ty lit) =>
    match litVal lit with
    | none => (db, .error (.unmodelled "default that is not a number or a bare word"))
    | some v => addColumn db name ty v tn
  | .ok _ => (db, .error (.unmodelled "not an ALTER TABLE"))

end MicroSql
