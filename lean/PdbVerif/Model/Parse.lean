/-
  Hand-written model of the record loop of `pdb2sql._create_table` and of `pdb2sql.read_pdb`
  (pdb2sqlcore.py), generic over the *generated* tables and fallbacks (`Gen.col`, `Gen.delimiter`,
  `Gen.blank_defaults`, `Gen.atom_prefix`, `Gen.endmdl_prefix`, `Gen._format_pdb_linelength`,
  `Gen._get_chainID`, `Gen._get_element`).  The translator pins the shape of the loop
  (unit `record_loop` of Gen/Str.lean); this file follows it statement by statement.  No Mathlib.
-/
import PdbVerif.Gen.Consts
import PdbVerif.Gen.Str

namespace Model
open Py

def lookup {β : Type} (k : String) : List (String × β) → Option β
  | [] => none
  | (k', v) :: t => if k = k' then some v else lookup k t

/-- `int(data)` / `float(data)` applied to what the loop holds in `data` (a str, or the float default) -/
inductive Data | str (s : Str) | num (v : Rat)

def convert (coltype : String) (d : Data) : Except Err Val :=
  if coltype = "INT" then
    match d with
    | .str s => do let i ← parseInt s; pure (.int i)
    | .num v => pure (.int (if v ≥ 0 then v.floor else v.ceil))      -- int(float) truncates
  else if coltype = "REAL" then
    match d with
    | .str s => do let r ← parseFloat s; pure (.real r)
    | .num v => pure (.real v)
  else
    match d with
    | .str s => pure (.text s)
    | .num v => pure (.real v)                                        -- a float default stored in a TEXT column

/-- one column of one (already padded) ATOM line: slice, strip, blank default, conversion.
    `none` = the column has no delimiter entry (e.g. `model`) and contributes nothing here. -/
def parseField (line : Str) (colname coltype : String) : Except Err (Option Val) :=
  match lookup colname Gen.delimiter with
  | none => pure none
  | some (a, b) => do
    let data := strip (slice line (a : Int) (b : Int))
    let d : Data ←
      if data = [] then
        match lookup colname Gen.blank_defaults with
        | some (.num v) => pure (Data.num v)
        | some .chainFromSegID => do let s ← Gen._get_chainID line; pure (Data.str s)
        | some .elementFromName => do let s ← Gen._get_element line; pure (Data.str s)
        | none => pure (Data.str data)
      else pure (Data.str data)
    let v ← convert coltype d
    pure (some v)

def parseFields (line : Str) : List (String × String) → Except Err Row
  | [] => pure []
  | (cn, ct) :: rest => do
    let v ← parseField line cn ct
    let vs ← parseFields line rest
    pure (match v with | some x => x :: vs | none => vs)

/-- `line.split('\n')[0]` -/
def firstLine (s : Str) : Str := s.takeWhile (· ≠ '\n')

/-- one ATOM record ↦ one row (the model number is appended last) -/
def parseAtomLine (raw : Str) (nModel : Int) : Except Err Row := do
  let line ← Gen._format_pdb_linelength (firstLine raw)
  let vs ← parseFields line Gen.col
  pure (vs ++ [.int nModel])

/-- the record loop: rows in input order; `ENDMDL` increments the model counter; everything else is skipped -/
def parseLines : List Str → Int → Except Err (List Row)
  | [], _ => pure []
  | l :: rest, n =>
    if startsWith l Gen.atom_prefix then do
      let r ← parseAtomLine l n
      let rs ← parseLines rest n
      pure (r :: rs)
    else if startsWith l Gen.endmdl_prefix then parseLines rest (n + 1)
    else parseLines rest n

def parse (lines : List Str) : Except Err (List Row) := parseLines lines 0

/-! ### `read_pdb`: the seven input forms -/

/-- `f.readlines()` on text: split after every `'\n'`, keeping it -/
def readlinesAux : Str → Str → List Str
  | [], cur => if cur.isEmpty then [] else [cur.reverse]
  | c :: cs, cur => if c = '\n' then (c :: cur).reverse :: readlinesAux cs [] else readlinesAux cs (c :: cur)

def readlines (t : Str) : List Str := readlinesAux t []

/-- number of (possibly overlapping) occurrences is what `str.count` does NOT compute: it counts
    non-overlapping ones; the needle `"\nATOM "` cannot overlap itself, so both coincide. -/
def countSub (needle : Str) : Str → Nat
  | [] => 0
  | c :: cs => (if needle.isPrefixOf (c :: cs) then 1 else 0) + countSub needle cs

/-- a file system as far as `read_pdb` looks at it -/
inductive Node | file (content : Str) | dir
abbrev FS := Str → Option Node

inductive Input
  | str (s : Str)            -- a `str`: a path if it exists, otherwise the whole text
  | bytes (s : Str)          -- decoded, then as `str`
  | path (p : Str)           -- `pathlib.Path`
  | listStr (l : List Str)
  | listBytes (l : List Str)
  | ndarrayStr (l : List Str)
  | ndarrayBytes (l : List Str)

def atomNeedle : Str := ['\n', 'A', 'T', 'O', 'M', ' ']

def readStr (fs : FS) (s : Str) : Except Err (List Str) :=
  match fs s with
  | some (.file c) => pure (readlines c)
  | some .dir => throw .fileNotFound
  | none => if countSub atomNeedle s > 3 then pure (splitOn '\n' s) else throw .fileNotFound

def readPdb (fs : FS) : Input → Except Err (List Str)
  | .str s => readStr fs s
  | .bytes s => readStr fs s
  | .path p =>
    match fs p with
    | some (.file c) => pure (readlines c)
    | _ => throw .fileNotFound
  | .listStr l => if l.isEmpty then throw .indexError else pure l
  | .listBytes l => if l.isEmpty then throw .indexError else pure l
  | .ndarrayStr l => if l.isEmpty then throw .indexError else pure l
  | .ndarrayBytes l => if l.isEmpty then throw .indexError else pure l

def readTable (fs : FS) (i : Input) : Except Err (List Row) := do
  let ls ← readPdb fs i
  parse ls

end Model
