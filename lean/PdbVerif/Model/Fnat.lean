/-
  Hand-written executable model of `StructureSimilarity.compute_residue_pairs_ref`, `compute_fnat_fast`,
  `compute_fnat_pdb2sql`, `compute_clashes` (/repo/pdb2sql/StructureSimilarity.py) and of `pdb2sql._fix_chainID`
  (/repo/pdb2sql/pdb2sqlcore.py), following the code's control flow.  The contact routines are the model of
  `Model/Contacts.lean`; the parser is the model of `Model/Parse.lean`; cutoffs / flags come from `Gen.Consts`.

  A Python float is the exact rational it denotes; `np.min(sqrt(Σ(p1-p2)²)) <= cutoff` is modelled exactly as
  "some pair has `0 ≤ cutoff ∧ d² ≤ cutoff²`" (no square root).  Dicts are association lists in insertion order.
  Single-model files only.  No Mathlib.
-/
import PdbVerif.Model.Contacts
import PdbVerif.Model.Parse
import PdbVerif.Gen.Consts
import PdbVerif.Gen.Str

namespace Model.Fnat
open Py Model

/-! ### the reference residue pairs -/

/-- arguments of `get_contact_residues(cutoff=cutoff, return_contact_pairs=True, excludeH=True, chain1=…, chain2=…)` -/
def pairArgs (cutoff : Rat) (c1 c2 : Str) : ContactArgs :=
  { cutoff := cutoff, allchains := false, chain1 := c1, chain2 := c2, extend := false,
    bb := Gen.fnat_ref_only_backbone, noH := Gen.fnat_ref_excludeH, retPairs := true }

/-- `compute_residue_pairs_ref(cutoff, save_file=False)` on the table of the reference -/
def residuePairsRef (ref : List Atom) (cutoff : Rat) : Except Err (Dict ResKey (List ResKey)) :=
  -- chains = list(sql_ref.get_chains()); if len(chains) != 2: raise ValueError
  match getChains ref with
  | [c1, c2] => contactResiduePairs ref (pairArgs cutoff c1 c2)
  | _ => throw Err.valueError

/-- `[(resA, resB) for resA, resB_list in d.items() for resB in resB_list]` -/
def flattenPairs (d : Dict ResKey (List ResKey)) : List (ResKey × ResKey) :=
  d.flatMap (fun e => e.2.map (fun b => (e.1, b)))

/-! ### the fast route: raw record columns of the decoy -/

abbrev P3 := Rat × Rat × Rat

def dist2 (p q : P3) : Rat :=
  (p.1 - q.1) * (p.1 - q.1) + (p.2.1 - q.2.1) * (p.2.1 - q.2.1) + (p.2.2 - q.2.2) * (p.2.2 - q.2.2)

/-- what the loop reads from one `ATOM` line -/
structure Rec where
  key : ResKey
  name : Str
  xyz : P3
  deriving Repr, DecidableEq

def readRec (line : Str) : Except Err Rec := do
  -- chainID = line[21]; if chainID == ' ': chainID = line[72]
  let c ← getItem line 21
  let c ← if c = ' ' then getItem line 72 else pure c
  let resSeq ← parseInt (slice line 22 26)            -- int(line[22:26])
  let resName := strip (slice line 17 20)             -- line[17:20].strip()
  let name := strip (slice line 12 16)                -- line[12:16].strip()
  let x ← parseFloat (slice line 30 38)
  let y ← parseFloat (slice line 38 46)
  let z ← parseFloat (slice line 46 54)
  pure { key := ([c], resSeq, resName), name := name, xyz := (x, y, z) }

/-- the two dictionaries of the decoy; only `residue_xyz` is read afterwards, `residue_name` is kept because the code fills it -/
structure DecoyData where
  xyz : Dict ResKey (List P3)
  names : Dict ResKey (List Str)
  deriving Repr

/-- the part of the loop body after the columns were read -/
def addRec (st : DecoyData) (r : Rec) : DecoyData :=
  -- if not name.startswith('H'):
  if !startsWithH r.name then
    -- if key not in residue_xyz.keys(): residue_xyz[key] = []; residue_name[key] = []
    let st : DecoyData := { xyz := st.xyz.setDefault r.key [], names := st.names.setDefault r.key [] }
    -- residue_xyz[key].append([x, y, z]); residue_name[key].append(name)
    { xyz := st.xyz.extend r.key [r.xyz], names := st.names.extend r.key [r.name] }
  else st

/-- body of `for line in data_decoy` -/
def decoyStep (st : DecoyData) (line : Str) : Except Err DecoyData :=
  if startsWith line Gen.atom_prefix then do
    let r ← readRec line
    pure (addRec st r)
  else pure st

def readDecoy (lines : List Str) : Except Err DecoyData :=
  lines.foldlM decoyStep { xyz := [], names := [] }

/-- `dist_min = np.min(np.array([... for p1 in xyzA for p2 in xyzB])); dist_min <= cutoff`
    (`np.min` of an empty array raises `ValueError`) -/
def minWithin (cutoff : Rat) (A B : List P3) : Except Err Bool :=
  if A.isEmpty || B.isEmpty then throw Err.valueError
  else pure (A.any (fun p => B.any (fun q => decide (0 ≤ cutoff) && decide (dist2 p q ≤ cutoff * cutoff))))

/-- the counters `(nCommon, nTotal)` -/
abbrev Counters := Nat × Nat

/-- body of `for resB in resB_list` -/
def countB (cutoff : Rat) (d : Dict ResKey (List P3)) (xyzA : List P3) (n : Counters) (resB : ResKey) : Except Err Counters :=
  match d.get? resB with
  | some xyzB => do                                   -- if resB in residue_xyz.keys():
    let close ← minWithin cutoff xyzA xyzB
    pure (if close then n.1 + 1 else n.1, n.2 + 1)    -- if dist_min <= cutoff: nCommon += 1;  nTotal += 1
  | none => pure (n.1, n.2 + 1)                       -- nTotal += 1

/-- body of `for resA, resB_list in residue_pairs_ref.items()` -/
def countA (cutoff : Rat) (d : Dict ResKey (List P3)) (n : Counters) (e : ResKey × List ResKey) : Except Err Counters :=
  match d.get? e.1 with
  | some xyzA => e.2.foldlM (countB cutoff d xyzA) n  -- if resA in residue_xyz.keys():
  | none => pure (n.1, n.2 + e.2.length)              -- else: nTotal += len(resB_list)

/-- `round(nCommon / nTotal, 6)` -/
def ratio (n : Counters) : Except Err Rat :=
  if n.2 = 0 then throw Err.zeroDiv else pure (Py.round ((n.1 : Rat) / (n.2 : Rat)) 6)

/-- how the routines report a value the definition leaves undefined (no reference contact): `ZeroDivisionError` -/
def orZeroDiv : Option Rat → Except Err Rat
  | some v => .ok v
  | none => .error Err.zeroDiv

/-- `compute_fnat_fast(cutoff)`: `ref` is the table of the reference, `decoy` the raw lines of the decoy -/
def fnatFast (ref : List Atom) (decoy : List Str) (cutoff : Rat) : Except Err Rat := do
  let pairs ← residuePairsRef ref cutoff
  let data ← readDecoy decoy
  let n ← pairs.foldlM (countA cutoff data.xyz) (0, 0)
  ratio n

/-! ### `_fix_chainID` and the SQL route -/

def asciiUppercase : List Char := "ABCDEFGHIJKLMNOPQRSTUVWXYZ".toList

/-- body of `for ic, chain in enumerate(chainID)`: `index = self.get('rowID', chainID=chain); for ind in index: newID[ind] = ascii_uppercase[ic]` -/
def fixStep (t : List Atom) (newID : List Str) (e : Str × Nat) : List Str :=
  (t.zip newID).map (fun p => if p.1.chainID = e.1 then [asciiUppercase.getD e.2 ' '] else p.2)

/-- `_fix_chainID()`: chains renamed A, B, … by rank of the sorted distinct identifiers -/
def fixChainID (t : List Atom) : Except Err (List Atom) :=
  let chainID := getChains t                          -- sorted(set(self.get('chainID')))
  if chainID.length > 26 then throw (Err.unmodelled "SystemExit")
  else
    let newID := chainID.zipIdx.foldl (fixStep t) (List.replicate t.length [])   -- newID = [''] * natom
    -- self.update_column('chainID', newID)
    pure ((t.zip newID).map (fun p => { p.1 with chainID := p.2 }))

/-- `len(set(data_pair_ref).intersection(data_pair_decoy))` -/
def nCommonSql (ref dec : List (ResKey × ResKey)) : Nat :=
  ((distinctFirst ref).filter (fun p => dec.contains p)).length

/-- `compute_fnat_pdb2sql(cutoff)` on the two tables as parsed (before `fix_chainID`) -/
def fnatSql (ref dec : List Atom) (cutoff : Rat) : Except Err Rat := do
  let sqlDecoy ← fixChainID dec                       -- interface(self.decoy, fix_chainID=True)
  let sqlRef ← fixChainID ref                         -- interface(self.ref, fix_chainID=True)
  match getChains sqlRef with
  | [c1, c2] => do
    let pairsDecoy ← contactResiduePairs sqlDecoy (pairArgs cutoff c1 c2)
    let pairsRef ← contactResiduePairs sqlRef (pairArgs cutoff c1 c2)
    let dataDecoy := flattenPairs pairsDecoy
    let dataRef := flattenPairs pairsRef
    ratio (nCommonSql dataRef dataDecoy, dataRef.length)   -- round(nCommon / len(data_pair_ref), 6)
  | _ => throw Err.valueError

/-! ### clashes -/

def clashArgs (chain1 chain2 : Str) : ContactArgs :=
  { cutoff := Gen.clash_cutoff, allchains := false, chain1 := chain1, chain2 := chain2, extend := false,
    bb := false, noH := Gen.clash_excludeH, retPairs := Gen.clash_return_pairs }

/-- `compute_clashes(pdb, chain1, chain2)` -/
def clashes (t : List Atom) (chain1 chain2 : Str) : Except Err Nat := do
  let d ← contactPairs t (clashArgs chain1 chain2)
  pure (d.foldl (fun n e => n + e.2.length) 0)        -- for v in atom_contact_pairs.values(): nclash += len(v)

/-! ### from files -/

/-- the ATOM table of a file (`interface(pdb)`): the parser's rows as atoms -/
def tableOfLines (lines : List Str) : Except Err (List Atom) := do
  let rows ← Model.parse lines
  rows.mapM (fun r => match Atom.ofRow r with
    | some a => pure a
    | none => throw (Err.unmodelled "row shape"))

def fnatFastFiles (refLines decLines : List Str) (cutoff : Rat) : Except Err Rat := do
  let ref ← tableOfLines refLines
  fnatFast ref decLines cutoff

def fnatSqlFiles (refLines decLines : List Str) (cutoff : Rat) : Except Err Rat := do
  let dec ← tableOfLines decLines
  let ref ← tableOfLines refLines
  fnatSql ref dec cutoff

def clashesFile (lines : List Str) (chain1 chain2 : Str) : Except Err Nat := do
  let t ← tableOfLines lines
  clashes t chain1 chain2

/-! ### the side conditions of the theorems, as executable tests (the driver reports them for every case) -/

/-- what the raw-column reader sees of a table row -/
def recOfAtom (a : Atom) : Rec := { key := resKey a, name := a.name, xyz := (a.x, a.y, a.z) }

/-- the raw-column reader of the fast route sees exactly the rows of the table `dec` -/
def rawAgrees (lines : List Str) (dec : List Atom) : Bool :=
  match (lines.filter (fun l => startsWith l Gen.atom_prefix)).mapM readRec with
  | .ok rs => decide (rs = dec.map recOfAtom)
  | .error _ => false

end Model.Fnat
