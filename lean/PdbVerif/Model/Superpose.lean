/-
  Hand model of the glue code of `pdb2sql/superpose.py` (cluster D, property C06).  It follows the
  statements pinned as text in `Gen.kabsch_steps`, `Gen.superpose_selection_steps`,
  `GenD.kabsch_guard_steps`, `GenD.quat_glue_steps`, `GenD.dispatch_steps` (see `Pins/D.lean`); the
  entry formulas (`Gen.quat_F`, `Gen.quat_rot`) are the translated ones.  `np.linalg.svd` and
  `np.linalg.eigh` are parameters (their contracts are hypotheses of the theorems; the driver passes
  NumPy's own factors).  Core Lean only: runs over `Rat` in the driver.
-/
import PdbVerif.Py.Mat
import PdbVerif.Py.Str
import PdbVerif.Gen.Mat
import PdbVerif.Gen.Consts

namespace Model
open Py

section
variable {α : Type} [Add α] [Sub α] [Mul α] [Neg α] [Div α] [NatCast α]
  [OfNat α 0] [OfNat α 1] [OfNat α 2] [LT α] [DecidableLT α]

/-- `np.sum(P, 0)` -/
def vsum : List (Vec3 α) → Vec3 α
  | [] => Vec3.zero
  | p :: P => Vec3.add p (vsum P)

/-- `np.mean(P, 0)` -/
def mean (P : List (Vec3 α)) : Vec3 α :=
  let s := vsum P
  let n : α := (P.length : Nat)
  ⟨s.x / n, s.y / n, s.z / n⟩

/-- `np.abs` -/
def absv (x : α) : α := if x < 0 then -x else x

/-- `any(np.abs(np.mean(P, 0)) > eps)` -/
def uncentred (eps : α) (P : List (Vec3 α)) : Bool :=
  let m := mean P
  decide (eps < absv m.x) || decide (eps < absv m.y) || decide (eps < absv m.z)

/-- `np.dot(P.T, Q)` for two n×3 arrays: `Σₖ pₖ qₖᵀ` -/
def dotPtQ : List (Vec3 α) → List (Vec3 α) → Mat3 α
  | p :: P, q :: Q => Mat3.add (Mat3.outer p q) (dotPtQ P Q)
  | _, _ => Mat3.zero

/-- `M / npts` -/
def divScalar (M : Mat3 α) (n : α) : Mat3 α :=
  ⟨M.a / n, M.b / n, M.c / n, M.d / n, M.e / n, M.f / n, M.g / n, M.h / n, M.i / n⟩

/-- `A = np.dot(P.T, Q) / npts` -/
def covariance (P Q : List (Vec3 α)) : Mat3 α := divScalar (dotPtQ P Q) ((P.length : Nat) : α)

/-- the guards shared by both kernels: size mismatch, then centring (n = 0 is outside the property) -/
def guards (eps : α) (P Q : List (Vec3 α)) : Except Err Unit :=
  if P.length ≠ Q.length then .error .valueError
  else if P.length = 0 then .error (.unmodelled "empty point set")
  else if uncentred eps P || uncentred eps Q then .error .valueError
  else .ok ()

/-- `Gen.kabsch_steps` from "W = W.T" to "U = …", given the factors `V, _, W = np.linalg.svd(A)` -/
def kabschCore (V Wt : Mat3 α) : Mat3 α :=
  let W := Wt.T                                         -- W = W.T
  let d := Mat3.det (Mat3.mul W V.T)                    -- d = np.linalg.det(np.dot(W, V.T))
  let Id : Mat3 α := Mat3.one                           -- Id = np.eye(3)
  let Id : Mat3 α := if d < 0 then { Id with i := -1 } else Id   -- if d < 0: Id[2, 2] = -1
  Mat3.mul W (Mat3.mul Id V.T)                          -- U = np.dot(W, np.dot(Id, V.T))

/-- `get_rotation_matrix_Kabsh(P, Q)` -/
def kabsch (svd : Mat3 α → Mat3 α × Vec3 α × Mat3 α) (eps : α) (P Q : List (Vec3 α)) : Except Err (Mat3 α) :=
  match guards eps P Q with
  | .error e => .error e
  | .ok () =>
    let A := covariance P Q                             -- A = np.dot(P.T, Q) / npts
    let (V, _, Wt) := svd A                             -- V, _, W = np.linalg.svd(A)
    .ok (kabschCore V Wt)

/-- `np.argmax(l)`: index of the first maximal entry -/
def argmaxFrom (best : α) (bi : Nat) (i : Nat) : List α → Nat
  | [] => bi
  | x :: t => if best < x then argmaxFrom x i (i + 1) t else argmaxFrom best bi (i + 1) t

def argmax : List α → Nat
  | [] => 0
  | x :: t => argmaxFrom x 0 1 t

/-- `get_rotation_matrix_quaternion(P, Q)`; `eig F` = the pairs `(l[k], U[:, k])` of `np.linalg.eigh(F)` in NumPy's order (eigenvalues ascending) -/
def quaternion (eig : Mat4 α → List (α × Vec4 α)) (eps : α) (P Q : List (Vec3 α)) : Except Err (Mat3 α) :=
  match guards eps P Q with
  | .error e => .error e
  | .ok () =>
    let R := dotPtQ P Q                                 -- R = np.dot(P.T, Q)
    let F := Gen.quat_F R                               -- F[i, j] = …
    let lU := eig F                                     -- l, U = np.linalg.eigh(F)
    let indmax := argmax (lU.map Prod.fst)              -- indmax = np.argmax(l)
    match lU[indmax]? with
    | none => .error .indexError
    | some (_, q) => .ok (Gen.quat_rot q.w q.x q.y q.z) -- q0, q1, q2, q3 = U[:, indmax]; U[i, j] = …

/-- what the theorems assume of `V, s, Wt = np.linalg.svd(A)`: `A = V·diag(s)·Wt`, `V` and `Wt` orthogonal
    (both products), `s₁ ≥ s₂ ≥ s₃ ≥ 0`.  No rank assumption. -/
structure SvdContract [LE α] (A V : Mat3 α) (s : Vec3 α) (Wt : Mat3 α) : Prop where
  factor : A = (V.mul (Mat3.diag s.x s.y s.z)).mul Wt
  orthV : V.mul V.T = Mat3.one ∧ V.T.mul V = Mat3.one
  orthW : Wt.mul Wt.T = Mat3.one ∧ Wt.T.mul Wt = Mat3.one
  order : s.y ≤ s.x ∧ s.z ≤ s.y ∧ 0 ≤ s.z

/-- what the theorems assume of the pair `(l[indmax], U[:, indmax])` of `np.linalg.eigh(F)` (symmetric solver:
    real eigenvalues in ascending order, orthonormal real eigenvectors; `argmax` picks the last column): a unit
    eigenvector whose eigenvalue dominates the quadratic form of `F` (= is the largest eigenvalue).
    `Proofs.Quat.eigContract_of_decomposition` derives it from the orthogonal eigendecomposition `eigh` returns. -/
structure EigContract [LE α] (F : Mat4 α) (lam : α) (q : Vec4 α) : Prop where
  eigen : F.mulVec q = ⟨lam * q.w, lam * q.x, lam * q.y, lam * q.z⟩
  unit : Vec4.dot q q = 1
  top : ∀ r : Vec4 α, Mat4.quad F r ≤ lam * Vec4.dot r r

inductive Method | svd | quaternion
  deriving DecidableEq, Repr

/-- `method.lower()` dispatch of `get_rotation_matrix`; anything else raises `ValueError` -/
def getRotationMatrix (svd : Mat3 α → Mat3 α × Vec3 α × Mat3 α) (eig : Mat4 α → List (α × Vec4 α))
    (keps qeps : α) (method : Option Method) (P Q : List (Vec3 α)) : Except Err (Mat3 α) :=
  match method with
  | some .svd => kabsch svd keps P Q
  | some .quaternion => quaternion eig qeps P Q
  | none => .error .valueError

/-- `rotate(xyz, rot_mat, center)` with an explicit centre: `np.dot(rot_mat, (xyz - center).T).T + center` -/
def rotateAbout (M : Mat3 α) (c : Vec3 α) (X : List (Vec3 α)) : List (Vec3 α) :=
  X.map (fun p => Vec3.add (M.mulVec (Vec3.sub p c)) c)

/-- `superpose_selection(xyz_mobile, selection_mobile, selection_target, method)`, following
    `Gen.superpose_selection_steps` -/
def superposeSelection (rotmat : List (Vec3 α) → List (Vec3 α) → Except Err (Mat3 α))
    (xyz selMob selTar : List (Vec3 α)) : Except Err (List (Vec3 α)) :=
  let trMobile := Vec3.neg (mean selMob)                -- tr_mobile = get_trans_vect(sel_mob)  (-np.mean(pts, 0))
  let trTarget := Vec3.neg (mean selTar)                -- tr_target = get_trans_vect(sel_tar)
  let selTar' := selTar.map (fun p => Vec3.add p trTarget)   -- sel_tar += tr_target
  let selMob' := selMob.map (fun p => Vec3.add p trMobile)   -- sel_mob += tr_mobile
  match rotmat selMob' selTar' with                     -- rmat = get_rotation_matrix(sel_mob, sel_tar, method=method)
  | .error e => .error e
  | .ok rmat =>
    let xyz := xyz.map (fun p => Vec3.add p trMobile)   -- xyz_mobile += tr_mobile
    let xyz := rotateAbout rmat Vec3.zero xyz           -- xyz_mobile = rotate(xyz_mobile, rmat, center=origin)
    .ok (xyz.map (fun p => Vec3.sub p trTarget))        -- xyz_mobile -= tr_target

end
end Model
